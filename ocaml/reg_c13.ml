(* reg_c13.ml — model entry points for C13 (Stats): the streaming merge, one-pass statistics,
   the statistics schedule, ObservableBase.statistics and System.statistics with the sampler
   replaying recorded per-draw observable values.  An undefined variance / std_error (None in
   the model) travels as nan in both directions. *)
open Wire

let opt_of_float (f : float) : float option = if Float.is_nan f then None else Some f
let float_of_opt (o : float option) : float = match o with None -> Float.nan | Some x -> x

let to_stat m v n : (float * float option) * Datatypes.nat = ((to_float m, opt_of_float (to_float v)), to_nat n)
let of_stat (((m, v), n) : (float * float option) * Datatypes.nat) : v =
  L [ of_float m; of_float (float_of_opt v); of_nat n ]
let of_result ((((m, v), se), n) : ((float * float option) * float option) * Datatypes.nat) : v =
  L [ of_float m; of_float (float_of_opt v); of_float (float_of_opt se); of_nat n ]

let init_kind_code (k : Stats.init_kind) : int =
  match k with Stats.InitNone -> 0 | Stats.InitCaller -> 1 | Stats.InitClone -> 2

(* chain states for the replaying sampler: (tag, payload); tag = index of the draw that
   produced them, -1 for the caller's initial chains *)
let nth_or (d : 'a) (l : 'a list) (i : int) : 'a = match Stdlib.List.nth_opt l i with Some x -> x | None -> d

let table : (string * (v list -> v)) list = [
  ("c13_update", (fun a -> match a with [ma; va; la; mb; vb; lb] ->
      of_stat (Stats.update_statistics fops (to_stat ma va la) (to_stat mb vb lb)) | _ -> failwith "args"));
  ("c13_stats", (fun a -> match a with [xs] -> of_stat (Stats.stats fops (to_flist xs)) | _ -> failwith "args"));
  ("c13_merge_chunks", (fun a -> match a with [cs] -> of_stat (Stats.merge_chunks fops (to_fmat cs)) | _ -> failwith "args"));
  ("c13_from_samples", (fun a -> match a with [xs] -> of_result (Stats.statistics_from_samples fops (to_flist xs)) | _ -> failwith "args"));
  (* has_init init_len num_chains num_samples burn_in steps overwrite chains_override
       -> [chains draws [k...] count init_kind]
     chains_override > 0: the number of chains is taken as observed on the implementation (the model's
     schedule is then evaluated for that many chains, as it is for user-supplied chains of that length);
     0: the model's own rule num_chains_eff decides *)
  ("c13_schedule", (fun a -> match a with [hi; il; nc; s; burn; steps; ow; ov] ->
      let init_len = if to_int ov > 0 then Some (to_nat ov) else if to_bool hi then Some (to_nat il) else None in
      let chains = Stats.num_chains_eff init_len (to_nat nc) (to_nat s) in
      if int_of_nat chains = 0 then failwith "zero chains" else
      let draws = Stats.num_draws (to_nat s) chains in
      let ks = Stats.k_schedule (to_nat burn) (to_nat steps) draws in
      L [ of_nat chains; of_nat draws; L (Stdlib.List.map of_nat ks);
          of_int (int_of_nat chains * int_of_nat draws);
          of_int (init_kind_code (Stats.first_init_kind (to_bool hi) (to_bool ow))) ]
    | _ -> failwith "args"));
  (* per-draw observable values (replayed by the sampler), has_init init_len num_chains num_samples burn_in steps chains_override
       -> [result [k...] [n...] [tag of each call's initial_state: -2 none, -1 caller's chains, i = result of draw i]] *)
  ("c13_statistics", (fun a -> match a with [vals; hi; il; nc; s; burn; steps; ov] ->
      let vals = to_fmat vals in
      let il = if to_int ov > 0 then to_nat ov else to_nat il in
      let clen (_ : int * float list) = il in
      let samp i _ _ _ = let i = int_of_nat i in (i, nth_or [] vals i) in
      let obs (c : int * float list) = snd c in
      let init = if to_bool hi then Some (-1, []) else if to_int ov > 0 then Some (-2, []) else None in
      let chains = Stats.chains_of clen init (to_nat nc) (to_nat s) in
      if int_of_nat chains = 0 then failwith "zero chains" else
      let r = Stats.statistics fops clen samp obs init (to_nat s) (to_nat nc) (to_nat burn) (to_nat steps) in
      let tr = Stats.trace clen samp init (to_nat s) (to_nat nc) (to_nat burn) (to_nat steps) in
      L [ of_result r;
          L (Stdlib.List.map (fun c -> of_nat c.Stats.c_k) tr);
          L (Stdlib.List.map (fun c -> of_nat c.Stats.c_n) tr);
          L (Stdlib.List.map (fun c -> match c.Stats.c_init with None -> of_int (-2) | Some (t, _) -> of_int t) tr) ]
    | _ -> failwith "args"));
  (* per-draw, per-observable values; number of observables; then as above (incl. chains_override) -> [result per observable] *)
  ("c13_system", (fun a -> match a with [vals; nobs; hi; il; nc; s; burn; steps; ov] ->
      let vals = Stdlib.List.map to_fmat (to_list vals) in
      let il = if to_int ov > 0 then to_nat ov else to_nat il in
      let clen (_ : float list list) = il in
      let samp i _ _ _ = nth_or [] vals (int_of_nat i) in
      let obss = Stdlib.List.init (to_int nobs) (fun j -> (fun (c : float list list) -> nth_or [] c j)) in
      let init = if to_bool hi || to_int ov > 0 then Some [] else None in
      let chains = Stats.chains_of clen init (to_nat nc) (to_nat s) in
      if int_of_nat chains = 0 then failwith "zero chains" else
      L (Stdlib.List.map of_result
           (Stats.system_statistics fops clen samp obss init (to_nat s) (to_nat nc) (to_nat burn) (to_nat steps)))
    | _ -> failwith "args"));
]
