(* reg_c16.ml — model entry points for C16 (ObsExpr: composite observables).
   Wire encodings
     expression  : [0 i] leaf i | [1 q] scalar q | [2] junk | [3 a] -a | [4 a b] a+b | [5 a b] a-b | [6 a b] a*b
     built object: [0 i] Prim i | [1 l r] SumObservable(left,right) | [2 c o] ProdObservable(left=c,right=o)
                   operand: [3 q] scalar | an object
   c16_eval tree vals n  (vals: one list of n per-sample values per leaf index) returns
     [ status rejects kind wf  shape  apply  stats  pointwise  stats_of_pointwise ]
     status: 0 built an observable | 1 folded to a scalar | 2 bare junk value | 3 TypeError | 4 ValueError
     shape : the built object (status 0), [3 q] (status 1), [] otherwise
     apply : [1 values] (a batch) | [0 q] (a bare float) | []
     stats : [mean variance std_error n] | []                                             *)
open Wire
module E = ObsExpr

let rec expr_of (x : v) : float E.oexpr =
  match to_list x with
  | tag :: rest ->
      (match to_int tag, rest with
       | 0, [i] -> E.Leaf (to_nat i)
       | 1, [q] -> E.Const (to_float q)
       | 2, [] -> E.Junk
       | 3, [a] -> E.Neg (expr_of a)
       | 4, [a; b] -> E.Add (expr_of a, expr_of b)
       | 5, [a; b] -> E.Sub (expr_of a, expr_of b)
       | 6, [a; b] -> E.Mul (expr_of a, expr_of b)
       | _ -> failwith "c16: bad expression node")
  | [] -> failwith "c16: empty expression node"

let rec ser_obs (o : float E.obs) : v =
  match o with
  | E.Prim i -> L [F 0.0; of_nat i]
  | E.SumO (l, r) -> L [F 1.0; ser_operand l; ser_operand r]
  | E.ProdO (c, a) -> L [F 2.0; F c; ser_obs a]
and ser_operand (p : float E.operand) : v =
  match p with
  | E.Scal q -> L [F 3.0; F q]
  | E.Obs o -> ser_obs o

let ser_stats (s : float E.stats) : v =
  L [F s.E.st_mean; F s.E.st_var; F s.E.st_err; of_nat s.E.st_n]

let kind_code = function E.KScal -> 0 | E.KObs -> 1 | E.KJunk -> 2

let table : (string * (v list -> v)) list = [
  ("c16_eval", (fun a -> match a with
    | [tree; vals; n] ->
        let e = expr_of tree in
        let rho = E.rho_of (to_fmat vals) in
        let n = to_nat n in
        let rej = of_bool (E.rejects e) in
        let kind = of_int (kind_code (E.kind_of e)) in
        let pw = E.pointwise fops e rho n in
        let pws = ser_stats (E.stats_of fops pw) in
        (match E.build fops e with
         | E.Ok (E.VObs o) ->
             let ap = (match E.apply fops o rho with E.BV v -> L [F 1.0; of_flist v] | E.BS q -> L [F 0.0; F q]) in
             let st = (match E.statistics_from_samples fops o rho with Some s -> ser_stats s | None -> L []) in
             L [F 0.0; rej; kind; of_bool (E.wf_obs o); ser_obs o; ap; st; of_flist pw; pws]
         | E.Ok (E.VScal q) -> L [F 1.0; rej; kind; F 1.0; L [F 3.0; F q]; L []; L []; of_flist pw; pws]
         | E.Ok E.VJunk -> L [F 2.0; rej; kind; F 1.0; L []; L []; L []; of_flist pw; pws]
         | E.Err E.ETypeError -> L [F 3.0; rej; kind; F 1.0; L []; L []; L []; of_flist pw; pws]
         | E.Err E.EValueError -> L [F 4.0; rej; kind; F 1.0; L []; L []; L []; of_flist pw; pws])
    | _ -> failwith "c16_eval args"));
  (* direct constructor calls: c16_ctor which(0 SumObservable | 1 ProdObservable) o1 o2,
     operands [0 i] leaf | [3 q] scalar | [2] non-numeric; returns [0 shape] | [3] TypeError | [4] ValueError *)
  ("c16_ctor", (fun a -> match a with
    | [which; o1; o2] ->
        let value x = (match to_list x with
          | tag :: rest -> (match to_int tag, rest with
              | 0, [i] -> E.VObs (E.Prim (to_nat i))
              | 3, [q] -> E.VScal (to_float q)
              | 2, [] -> E.VJunk
              | _ -> failwith "c16_ctor: bad operand")
          | [] -> failwith "c16_ctor: bad operand") in
        let r = if to_int which = 0 then E.sum_ctor (value o1) (value o2) else E.prod_ctor (value o1) (value o2) in
        (match r with
         | E.Ok o -> L [F 0.0; ser_obs o]
         | E.Err E.ETypeError -> L [F 3.0]
         | E.Err E.EValueError -> L [F 4.0])
    | _ -> failwith "c16_ctor args"));
  ("c16_stats_of", (fun a -> match a with
    | [xs] -> ser_stats (E.stats_of fops (to_flist xs))
    | _ -> failwith "c16_stats_of args"));
]
