(* reg_c12.ml — model entry points for C12 (Protocol: the fit event machine, CallbackList
   dispatch, Timer, the stop_training setter).
   Event encoding on the wire: [code e b]
     0 TrainStart | 1 EpochStart e | 2 BatchStart e b | 3 BatchEnd e b | 4 EpochEnd e | 5 TrainEnd
     6 OptStep e b (optimizer.step) | 7 SchedStep e (scheduler.step) *)
open Wire

let of_event (ev : Protocol.event) : v =
  match ev with
  | Protocol.TrainStart -> L [of_int 0; of_int 0; of_int 0]
  | Protocol.EpochStart e -> L [of_int 1; of_z e; of_int 0]
  | Protocol.BatchStart (e, b) -> L [of_int 2; of_z e; of_nat b]
  | Protocol.BatchEnd (e, b) -> L [of_int 3; of_z e; of_nat b]
  | Protocol.EpochEnd e -> L [of_int 4; of_z e; of_int 0]
  | Protocol.TrainEnd -> L [of_int 5; of_int 0; of_int 0]
  | Protocol.OptStep (e, b) -> L [of_int 6; of_z e; of_nat b]
  | Protocol.SchedStep e -> L [of_int 7; of_z e; of_int 0]

let to_event (x : v) : Protocol.event =
  match to_list x with
  | [c; e; b] ->
      (match to_int c with
       | 0 -> Protocol.TrainStart
       | 1 -> Protocol.EpochStart (to_z e)
       | 2 -> Protocol.BatchStart (to_z e, to_nat b)
       | 3 -> Protocol.BatchEnd (to_z e, to_nat b)
       | 4 -> Protocol.EpochEnd (to_z e)
       | 5 -> Protocol.TrainEnd
       | 6 -> Protocol.OptStep (to_z e, to_nat b)
       | 7 -> Protocol.SchedStep (to_z e)
       | _ -> failwith "event code")
  | _ -> failwith "event"

let of_entry ((ev, ver) : Protocol.event * Datatypes.nat) : v =
  match of_event ev with L xs -> L (xs @ [of_nat ver]) | x -> x

let of_tmsg (m : Protocol.tmsg) : v =
  match m with
  | Protocol.TermBatch (e, b) -> L [of_int 0; of_z e; of_nat b]
  | Protocol.TermEpoch e -> L [of_int 1; of_z e; of_int 0]
  | Protocol.Elapsed -> L [of_int 2; of_int 0; of_int 0]

(* the user callbacks of a script: m callbacks, callback j raises the flag at callback-event
   index i (i < 0: nobody ever raises) *)
let script_cbs m j i =
  if i < 0 then Protocol.scripted_cbs (nat_of_int m) (nat_of_int m) (nat_of_int 0)
  else Protocol.scripted_cbs (nat_of_int m) (nat_of_int j) (nat_of_int i)

let table : (string * (v list -> v)) list = [
  (* c12_fit start epochs nb stop0 sched inj_index m j time ver0
     -> [log-with-versions, stop, ver, deliveries, timer messages, recognised] *)
  ("c12_fit", (fun a -> match a with
     | [start; epochs; nb; stop0; sched; i; m; j; time; ver0] ->
         let cbs = script_cbs (to_int m) (to_int j) (to_int i) in
         let s = Protocol.fit_cbs cbs (to_bool time) (to_bool sched) (to_z start) (to_z epochs)
                   (to_nat nb) (to_bool stop0) (to_nat ver0) in
         let ct = Protocol.ctrace s in
         let dl = Protocol.deliveries (Protocol.with_timer (to_bool time) cbs) ct in
         let tm = Protocol.timer_msgs (Protocol.inject_of cbs) ct in
         L [ L (Stdlib.List.map of_entry s.Protocol.log);
             of_bool s.Protocol.stop;
             of_nat s.Protocol.ver;
             L (Stdlib.List.map (fun (c, ev) -> match of_event ev with L xs -> L (of_nat c :: xs) | x -> x) dl);
             L (Stdlib.List.map of_tmsg tm);
             of_bool (Protocol.recognise (to_z start) ct) ]
     | _ -> failwith "args"));
  (* the same through N and pos_batch_size *)
  ("c12_fit_data", (fun a -> match a with
     | [start; epochs; n; bs; stop0; sched; i; m; j; ver0] ->
         let cbs = script_cbs (to_int m) (to_int j) (to_int i) in
         let s = Protocol.fit_data (Protocol.inject_of cbs) (to_bool sched) (to_z start) (to_z epochs)
                   (to_nat n) (to_nat bs) (to_bool stop0) (to_nat ver0) in
         L [ L (Stdlib.List.map of_entry s.Protocol.log); of_bool s.Protocol.stop; of_nat s.Protocol.ver ]
     | _ -> failwith "args"));
  ("c12_num_batches", (fun a -> match a with
     | [n; bs] -> of_nat (Protocol.num_batches (to_nat n) (to_nat bs))
     | _ -> failwith "args"));
  ("c12_recognise", (fun a -> match a with
     | [start; t] -> of_bool (Protocol.recognise (to_z start) (Stdlib.List.map to_event (to_list t)))
     | _ -> failwith "args"));
  (* successor function of the protocol: -> [] (no successor) or [event] *)
  ("c12_step", (fun a -> match a with
     | [sched; start; epochs; nb; u; ev] ->
         of_option of_event (Protocol.step (to_bool sched) (to_z start) (to_z epochs) (to_nat nb) (to_bool u) (to_event ev))
     | _ -> failwith "args"));
  (* stop_training setter; value kinds: 0 False | 1 True | 2 int | 3 None | 4 other -> [ok flag] or [] (ValueError) *)
  ("c12_set_stop", (fun a -> match a with
     | [k; z] ->
         let pv = (match to_int k with
                   | 0 -> Protocol.VBool false | 1 -> Protocol.VBool true
                   | 2 -> Protocol.VInt (to_z z) | 3 -> Protocol.VNone | _ -> Protocol.VOther) in
         (match Protocol.set_stop pv with
          | Protocol.SetOk b -> L [of_bool b]
          | Protocol.SetValueError -> L [])
     | _ -> failwith "args"));
]
