(* reg_c17.ml — model entry points for C17 / C18 (Callbacks).
   Encodings: a name is the list of its character codes; a result is [0 value] (Ok) or [1 code] (Err)
   with code IndexError=0 KeyError=1 AttributeError=2 TypeError=3 ValueError=4; an option is [] / [x]. *)
open Wire
module C = Callbacks
module SL = Stdlib.List

let to_name x : C.name = SL.map to_nat (to_list x)
let of_name (n : C.name) = L (SL.map of_nat n)
let name_of_string (s : string) : C.name = SL.map (fun c -> nat_of_int (Char.code c)) (SL.of_seq (String.to_seq s))
let n_num_samples = name_of_string "num_samples"
let err_code = function C.IndexError -> 0 | C.KeyError -> 1 | C.AttributeError -> 2 | C.TypeError -> 3 | C.ValueError -> 4
let of_result f = function C.Ok a -> L [F 0.0; f a] | C.Err e -> L [F 1.0; of_int (err_code e)]
let to_idx x = match x with L [] -> None | L [i] -> Some (to_z i) | F _ -> Some (to_z x) | _ -> failwith "index"
let of_vals f (d : 'a C.vals) = L (SL.map (fun (k, v) -> L [of_name k; f v]) d)
let of_stats (d : float C.stats) = of_vals of_float d
let of_row f ((e, cells) : BinNums.coq_Z * 'a option list) = L [of_z e; L (SL.map (of_option f) cells)]

(* ---- sessions of an evaluator: ops = [0] (clear_history) | [1 run]; run = [[epoch world] ...] *)
let run_ops (metrics : 's -> 'v C.vals) (to_world : v -> 's) (p : BinNums.coq_Z) (ops : v) : 'v C.evaluator =
  SL.fold_left (fun ev op ->
      match to_list op with
      | [k] when to_int k = 0 -> C.ev_clear_history ev
      | [k; run] when to_int k = 1 ->
          let run = SL.map (fun ev -> match to_list ev with [e; w] -> (to_z e, to_world w) | _ -> failwith "event") (to_list run) in
          C.ev_run metrics ev run
      | _ -> failwith "op") (C.ev_new p) (to_list ops)

let metric_session a = match a with
  | [p; names; ops; queries] ->
      let names = SL.map to_name (to_list names) in
      let metrics (w : float list) : float C.vals = SL.combine names w in
      let ev = run_ops metrics to_flist (to_z p) ops in
      L [ of_nat (C.ev_len ev);
          L (SL.map of_z (C.ev_epochs ev));
          L (SL.map (fun n -> of_result of_flist (C.ev_array n ev)) names);
          of_vals of_float (C.ev_last ev);
          L (SL.map (of_row of_float) (C.csv_body names (C.ev_log ev)));
          L (SL.map (fun q -> match to_list q with
               | [n; i] -> of_result of_float (C.ev_get_value (to_name n) (to_idx i) ev)
               | _ -> failwith "query") (to_list queries)) ]
  | _ -> failwith "args"

(* world of an observable evaluator: per observable [mean variance std_error num_samples] *)
let obs_world names (w : v) : float C.stats C.vals =
  SL.combine names (SL.map (fun q -> match to_flist q with
      | [m; va; se; ns] -> [(C.n_mean, m); (C.n_variance, va); (C.n_std_error, se); (n_num_samples, ns)]
      | _ -> failwith "stats") (to_list w))

let obs_session a = match a with
  | [p; names; ops; queries; statqueries] ->
      let names = SL.map to_name (to_list names) in
      let ev = run_ops (fun w -> w) (obs_world names) (to_z p) ops in
      let statq = SL.map to_name (to_list statqueries) in
      L [ of_nat (C.ev_len ev);
          L (SL.map of_z (C.ev_epochs ev));
          L (SL.map (fun n -> match C.oe_data n ev with
               | C.Err e -> L [F 1.0; of_int (err_code e)]
               | C.Ok data -> L [F 0.0; L (SL.map (fun s -> of_result of_flist (C.os_get s data)) statq)]) names);
          of_vals of_stats (C.ev_last ev);
          L (SL.map (of_row of_float) (C.obs_csv_body names (C.ev_log ev)));
          L (SL.map (fun q -> match to_list q with
               | [n; i] -> of_result of_stats (C.ev_get_value (to_name n) (to_idx i) ev)
               | _ -> failwith "query") (to_list queries));
          L (SL.map of_name (C.obs_csv_fields names)) ]
  | _ -> failwith "args"

(* several evaluators in one callback list (world = one value per evaluator and name) *)
let multi_session a = match a with
  | [periods; run] ->
      let nm = [name_of_string "m"] in
      let ps = SL.map to_z (to_list periods) in
      let cbs = SL.mapi (fun i p -> ((fun (w : float list) -> SL.combine nm [SL.nth w i]), C.ev_new p)) ps in
      let run = SL.map (fun ev -> match to_list ev with [e; w] -> (to_z e, to_flist w) | _ -> failwith "event") (to_list run) in
      let out = C.cbs_run cbs run in
      L (SL.map (fun (_, ev) -> L [ L (SL.map of_z (C.ev_epochs ev)); of_result of_flist (C.ev_array (SL.hd nm) ev) ]) out)
  | _ -> failwith "args"

(* value-stream form *)
let stream_session a = match a with
  | [p; epochs; stream] ->
      let nm = name_of_string "m" in
      let ev = C.ev_run_stream (C.ev_new (to_z p)) (SL.map to_z (to_list epochs)) (SL.map (fun x -> [(nm, x)]) (to_flist stream)) in
      L [ L (SL.map of_z (C.ev_epochs ev)); of_result of_flist (C.ev_array nm ev) ]
  | _ -> failwith "args"

(* ---- ModelSaver: fits = [[s0 run] ...], run = [[epoch state_id] ...];
   md_kind 0 = None, 1 = dict, 2 = callable.  A write is [[0]|[1 epoch], full?, state_id, md],
   md = [0] (empty) | [1] (the dict) | [2 state_id epoch] (callable result) *)
let of_fname = function C.FInitial -> L [F 0.0] | C.FEpoch e -> L [F 1.0; of_z e]
let of_content = function
  | C.MetaOnly m -> L [F 0.0; F (-1.0); m]
  | C.Full (p, m) -> L [F 1.0; of_int p; m]
let saver_session a = match a with
  | [p; save_initial; md_kind; md_only; fits] ->
      let md = match to_int md_kind with
        | 0 -> C.MdNone
        | 1 -> C.MdDict (L [F 1.0])
        | _ -> C.MdCallable (fun s e -> L [F 2.0; of_int s; of_z e]) in
      let sv = { C.sv_period = to_z p; sv_save_initial = to_bool save_initial; sv_metadata = md; sv_metadata_only = to_bool md_only } in
      let writes = SL.concat_map (fun f -> match to_list f with
          | [s0; run] ->
              let run = SL.map (fun ev -> match to_list ev with [e; s] -> (to_z e, to_int s) | _ -> failwith "event") (to_list run) in
              C.sv_fit (fun s -> s) (L [F 0.0]) sv (to_int s0) run
          | _ -> failwith "fit") (to_list fits) in
      let names = SL.fold_left (fun acc (f, _) -> if SL.exists (fun g -> C.fname_eqb g f) acc then acc else acc @ [f]) [] writes in
      L [ L (SL.map (fun (f, c) -> L [of_fname f; of_content c]) writes);
          L (SL.map (fun f -> L [of_fname f; of_option of_content (C.store_get f writes)]) names) ]
  | _ -> failwith "args"

let logger_session a = match a with
  | [p; run] ->
      let run = SL.map (fun ev -> match to_list ev with [e; s] -> (to_z e, to_int s) | _ -> failwith "event") (to_list run) in
      L (SL.map (fun (s, e) -> L [of_int s; of_z e]) (C.lg_run (to_z p) (fun s e -> (s, e)) run))
  | _ -> failwith "args"

(* ---- EarlyStopping *)
let to_kind x = match to_int x with 0 -> C.KMetric | 1 -> C.KObservable | _ -> C.KOther
let crit_code = function C.Relative -> 0 | C.Absolute -> 1 | C.Variance -> 2
let of_outcome = function
  | C.Completed -> L [F 0.0]
  | C.Stopped e -> L [F 1.0; of_z e]
  | C.Raised (x, e) -> L [F 2.0; of_int (err_code x); of_z e]

(* kind ev_first pe ps tol patience crit_name fits ; fits = [plan ...], plan = [[epoch value variance] ...];
   evaluator and stopper persist across the fits (stop_training is reset by the caller) *)
let es_session a = match a with
  | [kind; ev_first; pe; ps; tol; patience; crit; fits] ->
      let k = to_kind kind in
      (match C.es_construct k (to_name crit) with
       | C.Err e -> L [F 1.0; of_int (err_code e)]
       | C.Ok c ->
           let q = name_of_string "q" in
           let st0 = { C.st_period = to_z ps; st_tol = to_float tol; st_patience = to_nat patience; st_name = q;
                       st_crit = c; st_last_epoch = None } in
           let plan_of f = SL.map (fun ev -> match to_flist ev with [e; v; va] -> (z_of_int (int_of_float e), (v, va)) | _ -> failwith "event") (to_list f) in
           let res =
             if k = C.KMetric then begin
               let metrics (w : float * float) : float C.vals = [(q, fst w)] in
               let (_, _, out) = SL.fold_left (fun (ev, st, acc) f ->
                   let (((ev', st'), o), ran) = C.es_fit fops C.metric_value_of C.metric_variance_of (to_bool ev_first) metrics ev st (plan_of f) in
                   (ev', st', acc @ [L [of_outcome o; L (SL.map of_z ran); of_option of_z st'.C.st_last_epoch;
                                        L (SL.map of_z (C.ev_epochs ev')); of_result of_flist (C.ev_array q ev')]]))
                   (C.ev_new (to_z pe), st0, []) (to_list fits) in out
             end else begin
               let metrics (w : float * float) : float C.stats C.vals =
                 [(q, [(C.n_mean, fst w); (C.n_variance, snd w)])] in
               let (_, _, out) = SL.fold_left (fun (ev, st, acc) f ->
                   let (((ev', st'), o), ran) = C.es_fit fops C.obs_value_of C.obs_variance_of (to_bool ev_first) metrics ev st (plan_of f) in
                   (ev', st', acc @ [L [of_outcome o; L (SL.map of_z ran); of_option of_z st'.C.st_last_epoch;
                                        L (SL.map of_z (C.ev_epochs ev'));
                                        of_result of_flist (C.bind (C.oe_data q ev') (fun d -> C.os_get C.n_mean d))]]))
                   (C.ev_new (to_z pe), st0, []) (to_list fits) in out
             end in
           L [F 0.0; of_int (crit_code c); L res])
  | _ -> failwith "args"

let table : (string * (v list -> v)) list = [
  ("c17_metric_session", metric_session);
  ("c17_obs_session", obs_session);
  ("c17_multi_session", multi_session);
  ("c17_stream_session", stream_session);
  ("c17_saver_session", saver_session);
  ("c17_logger_session", logger_session);
  ("c17_norm_index", (fun a -> match a with [len; i] -> of_option of_nat (C.norm_index (to_nat len) (to_z i)) | _ -> failwith "args"));
  ("c17_fires", (fun a -> match a with [p; es] -> L (SL.map (fun e -> of_bool (C.fires (to_z p) (to_z e))) (to_list es)) | _ -> failwith "args"));
  ("c18_construct", (fun a -> match a with [k; crit] -> of_result (fun c -> of_int (crit_code c)) (C.es_construct (to_kind k) (to_name crit)) | _ -> failwith "args"));
  ("c18_vbes_construct", (fun a -> match a with [k] -> of_result (fun c -> of_int (crit_code c)) (C.vbes_construct (to_kind k)) | _ -> failwith "args"));
  ("c18_rule", (fun a -> match a with [c; p; tol; hist] ->
      let c = (match to_int c with 0 -> C.Relative | 1 -> C.Absolute | _ -> C.Variance) in
      let hist = SL.map (fun x -> match to_flist x with [v; va] -> (v, va) | _ -> failwith "hist") (to_list hist) in
      of_bool (C.es_rule fops c (to_nat p) (to_float tol) hist) | _ -> failwith "args"));
  ("c18_es_session", es_session);
]
