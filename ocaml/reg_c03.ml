(* reg_c03.ml — model entry points for C03 (Grads, on top of Rbm / States / Unitaries). *)
open Wire
module SL = Stdlib.List

let brbm a = match a with w :: b :: c :: rest -> ({ Rbm.bW = to_fmat w; bb = to_flist b; bc = to_flist c }, rest) | _ -> failwith "brbm args"
let prbm a = match a with w :: u :: b :: c :: d :: rest ->
  ({ Rbm.pW = to_fmat w; pU = to_fmat u; pb = to_flist b; pc = to_flist c; pd = to_flist d }, rest) | _ -> failwith "prbm args"

(* basis letters on the wire: 0 = X, 1 = Y, 2 = Z *)
let to_letter x = match to_int x with 0 -> Unitaries.LX | 1 -> Unitaries.LY | 2 -> Unitaries.LZ | k -> Unitaries.LU (nat_of_int (k - 3))
let of_letter l = match l with Unitaries.LX -> of_int 0 | Unitaries.LY -> of_int 1 | Unitaries.LZ -> of_int 2 | Unitaries.LU k -> of_int (3 + int_of_nat k)
let to_basis x = SL.map to_letter (to_list x)
let of_basis b = L (SL.map of_letter b)
let of_cvec xs = of_pairl xs
let of_pair2 (a, b) = L [of_flist a; of_flist b]
let of_tensor t = match t with Grads.PM m -> of_fmat m | Grads.PV v -> of_flist v
let of_brbm (r : float Rbm.brbm) = L [of_fmat r.Rbm.bW; of_flist r.Rbm.bb; of_flist r.Rbm.bc]
let of_prbm (r : float Rbm.prbm) = L [of_fmat r.Rbm.pW; of_fmat r.Rbm.pU; of_flist r.Rbm.pb; of_flist r.Rbm.pc; of_flist r.Rbm.pd]
let to_batch bases samples = SL.combine (SL.map to_basis (to_list bases)) (to_bitsl samples)
let user : float Unitaries.umat list = []

let all3 g batch space =
  L [ of_pair2 (Grads.gradient fops g batch);
      of_pair2 (Grads.positive_phase_gradients fops g batch);
      of_pair2 (Grads.compute_exact_gradients fops g batch space) ]

let table : (string * (v list -> v)) list = [
  (* layout *)
  ("c03_b_flatten", (fun a -> let (r, _) = brbm a in of_flist (Grads.b_flatten r)));
  ("c03_p_flatten", (fun a -> let (r, _) = prbm a in of_flist (Grads.p_flatten r)));
  ("c03_b_of_vec", (fun a -> match a with [nh; nv; vec] ->
      of_brbm (Grads.b_of_vec (to_nat nh) (to_nat nv) (to_flist vec)) | _ -> failwith "args"));
  ("c03_p_of_vec", (fun a -> match a with [nh; na; nv; vec] ->
      of_prbm (Grads.p_of_vec (to_nat nh) (to_nat na) (to_nat nv) (to_flist vec)) | _ -> failwith "args"));
  ("c03_b_vector_to_grads", (fun a -> match a with [nh; nv; vec] ->
      L (SL.map of_tensor (Grads.vector_to_grads (Grads.b_shapes (to_nat nh) (to_nat nv)) (to_flist vec))) | _ -> failwith "args"));
  ("c03_p_vector_to_grads", (fun a -> match a with [nh; na; nv; vec] ->
      L (SL.map of_tensor (Grads.vector_to_grads (Grads.p_shapes (to_nat nh) (to_nat na) (to_nat nv)) (to_flist vec))) | _ -> failwith "args"));
  (* effective_energy_gradient: [rows (reduce=False); batch sum (reduce=True)] *)
  ("c03_b_egrad", (fun a -> let (r, a) = brbm a in match a with [vs] -> let vs = to_bitsl vs in
      L [ of_fmat (SL.map (Rbm.b_energy_grad fops r) vs); of_flist (Rbm.b_energy_grad_batch fops r vs) ] | _ -> failwith "args"));
  ("c03_p_egrad", (fun a -> let (r, a) = prbm a in match a with [vs] -> let vs = to_bitsl vs in
      L [ of_fmat (SL.map (Rbm.p_energy_grad fops r) vs); of_flist (Rbm.p_energy_grad_batch fops r vs) ] | _ -> failwith "args"));
  (* gamma_grad: [expanded [i][j][g]; paired [i][g]] (real part) *)
  ("c03_gamma_grad", (fun a -> let (r, a) = prbm a in match a with [plus; vs; vps] ->
      let vs = to_bitsl vs and vps = to_bitsl vps and plus = to_bool plus in
      L [ L (SL.map (fun v -> of_fmat (SL.map (fun vp -> Grads.p_gamma_grad fops r plus v vp) vps)) vs);
          (if SL.length vs = SL.length vps then of_fmat (SL.map2 (fun v vp -> Grads.p_gamma_grad fops r plus v vp) vs vps) else L []) ]
      | _ -> failwith "args"));
  (* pi_grad: [expanded [i][j][g] complex; paired [i][g] complex] *)
  ("c03_pi_grad", (fun a -> let (am, a) = prbm a in let (ph, a) = prbm a in match a with [phase; vs; vps] ->
      let vs = to_bitsl vs and vps = to_bitsl vps and phase = to_bool phase in
      L [ L (SL.map (fun v -> L (SL.map (fun vp -> of_cvec (Grads.p_pi_grad fops am ph phase true v vp)) vps)) vs);
          (if SL.length vs = SL.length vps then L (SL.map2 (fun v vp -> of_cvec (Grads.p_pi_grad fops am ph phase false v vp)) vs vps) else L []) ]
      | _ -> failwith "args"));
  (* DensityMatrix.am_grads / ph_grads on a list of states: [i][j][g] complex *)
  ("c03_dm_raw", (fun a -> let (am, a) = prbm a in let (ph, a) = prbm a in match a with [vs] ->
      let vs = to_bitsl vs in
      let mk f = L (SL.map (fun vi -> L (SL.map (fun vj -> of_cvec (f vi vj)) vs)) vs) in
      L [ mk (Grads.dm_am_grads fops am ph); mk (Grads.dm_ph_grads fops am ph) ] | _ -> failwith "args"));
  (* ComplexWaveFunction.am_grads / ph_grads: [i][g] complex *)
  ("c03_cw_raw", (fun a -> let (am, a) = brbm a in let (ph, a) = brbm a in match a with [vs] ->
      let vs = to_bitsl vs in
      L [ L (SL.map (fun v -> of_cvec (Grads.cw_am_grads fops am v)) vs);
          L (SL.map (fun v -> of_cvec (Grads.cw_ph_grads fops ph v)) vs) ] | _ -> failwith "args"));
  (* rotated_gradient(basis, samples) *)
  ("c03_cw_rot", (fun a -> let (am, a) = brbm a in let (ph, a) = brbm a in match a with [basis; samples] ->
      of_pair2 (Grads.rotated_gradient fops (Grads.cw_gstate fops am ph user) (to_basis basis) (to_bitsl samples)) | _ -> failwith "args"));
  ("c03_dm_rot", (fun a -> let (am, a) = prbm a in let (ph, a) = prbm a in match a with [basis; samples] ->
      of_pair2 (Grads.rotated_gradient fops (Grads.dm_gstate fops am ph user) (to_basis basis) (to_bitsl samples)) | _ -> failwith "args"));
  (* gradient / positive_phase_gradients / compute_exact_gradients *)
  ("c03_cw_all", (fun a -> let (am, a) = brbm a in let (ph, a) = brbm a in match a with [bases; samples; space] ->
      all3 (Grads.cw_gstate fops am ph user) (to_batch bases samples) (to_bitsl space) | _ -> failwith "args"));
  ("c03_dm_all", (fun a -> let (am, a) = prbm a in let (ph, a) = prbm a in match a with [bases; samples; space] ->
      all3 (Grads.dm_gstate fops am ph user) (to_batch bases samples) (to_bitsl space) | _ -> failwith "args"));
  ("c03_pos_all", (fun a -> let (am, a) = brbm a in match a with [samples; space] ->
      let samples = to_bitsl samples and space = to_bitsl space in
      L [ of_flist (Grads.pos_gradient fops am samples);
          of_flist (Grads.pos_positive_phase fops am samples);
          of_flist (Grads.pos_compute_exact_gradients fops am samples space);
          of_flist (Grads.pos_compute_exact_grads fops am samples space) ] | _ -> failwith "args"));
  (* np.unique(bases, axis=0): sorted distinct rows, and the groups (row indices are not needed) *)
  ("c03_unique", (fun a -> match a with [bases] ->
      L (SL.map of_basis (Grads.unique_sorted (SL.map to_basis (to_list bases)))) | _ -> failwith "args"));
]
