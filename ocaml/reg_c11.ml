(* reg_c11.ml — model entry points for C11 (Store) and C20 (Build).  Glue only: decoding of requests,
   running the extracted functions, encoding of observations. *)
open Wire

(* ---------- Store (C11) ---------- *)
let nat_l x = Stdlib.List.map to_nat (to_list x)
let of_nat_l xs = L (Stdlib.List.map of_nat xs)
let to_opt f x = match to_list x with [] -> None | [y] -> Some (f y) | _ -> failwith "option"
let to_kv x = match to_list x with [k; v] -> (to_nat k, to_nat v) | _ -> failwith "kv"
let to_kvl x = Stdlib.List.map to_kv (to_list x)
let of_kvl d = L (Stdlib.List.map (fun (k, v) -> L [of_nat k; of_nat v]) d)
let to_param x = match to_list x with
  | [n; sh; v] -> { Store.p_name = to_nat n; p_shape = nat_l sh; p_val = to_nat v } | _ -> failwith "param"
let of_param p = L [of_nat p.Store.p_name; of_nat_l p.Store.p_shape; of_nat p.Store.p_val]
let to_fval x = match to_list x with
  | [t; y] -> (match to_int t with
      | 0 -> Store.FNet (Stdlib.List.map to_param (to_list y))
      | 1 -> Store.FDict (to_kvl y)
      | _ -> Store.FVal (to_nat y))
  | _ -> failwith "fval"
let of_fval = function
  | Store.FNet ps -> L [of_int 0; L (Stdlib.List.map of_param ps)]
  | Store.FDict d -> L [of_int 1; of_kvl d]
  | Store.FVal v -> L [of_int 2; of_nat v]
let to_kind x = match to_int x with 0 -> Store.Positive | 1 -> Store.Complex | _ -> Store.Mixed
let of_kind = function Store.Positive -> of_int 0 | Store.Complex -> of_int 1 | Store.Mixed -> of_int 2
let to_net x = match to_list x with
  | [i; ps] -> { Store.n_id = to_nat i; n_params = Stdlib.List.map to_param (to_list ps) } | _ -> failwith "net"
let of_net n = L [of_nat n.Store.n_id; L (Stdlib.List.map of_param n.Store.n_params)]
let to_state x = match to_list x with
  | [k; nets; ud] ->
      { Store.s_kind = to_kind k;
        s_nets = Stdlib.List.map (fun y -> match to_list y with [nm; n] -> (to_nat nm, to_net n) | _ -> failwith "nets") (to_list nets);
        s_ud = to_opt to_fval ud }
  | _ -> failwith "state"
let of_state s =
  L [of_kind s.Store.s_kind;
     L (Stdlib.List.map (fun (nm, n) -> L [of_nat nm; of_net n]) s.Store.s_nets);
     of_option of_fval s.Store.s_ud]
let to_heap x = match to_list x with
  | [ss; ms; fs; nx] ->
      { Store.h_states = Stdlib.List.map (fun y -> match to_list y with [i; s] -> (to_nat i, to_state s) | _ -> failwith "hs") (to_list ss);
        h_mds = Stdlib.List.map (fun y -> match to_list y with [i; d] -> (to_nat i, to_kvl d) | _ -> failwith "hm") (to_list ms);
        h_files = Stdlib.List.map (fun y -> match to_list y with
            | [i; d] -> (to_nat i, Stdlib.List.map (fun z -> match to_list z with [k; v] -> (to_nat k, to_fval v) | _ -> failwith "fc") (to_list d))
            | _ -> failwith "hf") (to_list fs);
        h_next = to_nat nx }
  | _ -> failwith "heap"
let of_heap h =
  L [L (Stdlib.List.map (fun (i, s) -> L [of_nat i; of_state s]) h.Store.h_states);
     L (Stdlib.List.map (fun (i, d) -> L [of_nat i; of_kvl d]) h.Store.h_mds);
     L (Stdlib.List.map (fun (i, d) -> L [of_nat i; L (Stdlib.List.map (fun (k, v) -> L [of_nat k; of_fval v]) d)]) h.Store.h_files);
     of_nat h.Store.h_next]
let to_vss x = Stdlib.List.map nat_l (to_list x)
let to_op x = match to_list x with
  | t :: a -> (match to_int t, a with
      | 0, [s; v] -> Store.Randomise (to_nat s, to_vss v)
      | 1, [s; v] -> Store.Train (to_nat s, to_vss v)
      | 2, [s; k; v] -> Store.AddUnitary (to_nat s, to_nat k, to_nat v)
      | 3, [s; f; md] -> Store.Save (to_nat s, to_nat f, to_opt to_nat md)
      | 4, [f; md] -> Store.SaveMdOnly (to_nat f, to_opt to_nat md)
      | 5, [s; f] -> Store.Load (to_nat s, to_nat f)
      | 6, [k; f; n] -> Store.Autoload (to_kind k, to_nat f, to_nat n)
      | 7, [m; k; v] -> Store.MutateMd (to_nat m, to_nat k, to_nat v)
      | _ -> failwith "op")
  | [] -> failwith "op"
let of_res = function
  | Store.Ok -> of_int 0
  | Store.Err Store.EValue -> of_int 1 | Store.Err Store.EKey -> of_int 2 | Store.Err Store.ERuntime -> of_int 3
  | Store.Err Store.ENoFile -> of_int 4 | Store.Err Store.EOther -> of_int 5 | Store.Err Store.ENoState -> of_int 6

(* ---------- Build (C20) ---------- *)
let of_bval = function Build.VZero -> of_int (-1) | Build.VTok t -> of_nat t
let to_bval x = let i = to_int x in if i < 0 then Build.VZero else Build.VTok (nat_of_int i)
let of_nkind = function Build.Binary -> of_int 0 | Build.Purif -> of_int 1
let dump_net (h : Build.bheap) (n : Datatypes.nat) : v =
  let sizes = match Build.net_sizes h n with
    | Some (((k, nv), nh), na) -> L [of_nkind k; of_nat nv; of_nat nh; of_nat na]
    | None -> L [] in
  let cells = Build.net_cells h n in
  let vals = Build.net_values h n in
  L [of_nat n; sizes;
     L (Stdlib.List.map2 (fun c (p, co) ->
          match co with
          | Some cl -> L [of_nat p; of_nat c; of_nat_l cl.Build.c_shape; of_bval cl.Build.c_val]
          | None -> L [of_nat p; of_nat c; L []; of_int (-2)]) cells vals)]
let build_run (ops : v list) : v =
  let h = ref { Build.b_nets = []; b_cells = []; b_next = Datatypes.O } in
  let mods = ref [] and states = ref [] in
  let net_ref x = match Stdlib.List.map to_int (to_list x) with
    | [0; i] -> Stdlib.List.nth (Stdlib.List.rev !mods) i
    | [1; j; r] ->
        let st = Stdlib.List.nth (Stdlib.List.rev !states) j in
        (match st with
         | Some s -> if r = 0 then s.Build.bs_am else (match s.Build.bs_ph with Some p -> p | None -> failwith "no phase net")
         | None -> failwith "state is an error")
    | _ -> failwith "netref" in
  let dump () =
    L [L (Stdlib.List.map (fun n -> dump_net !h n) (Stdlib.List.rev !mods));
       L (Stdlib.List.map (function
            | None -> L []
            | Some s -> L [of_kind s.Build.bs_kind; dump_net !h s.Build.bs_am;
                           (match s.Build.bs_ph with Some p -> L [dump_net !h p] | None -> L [])])
            (Stdlib.List.rev !states))] in
  let step x = match to_list x with
    | t :: a -> (match to_int t, a with
        | 0, [k; nv; nh; na; d] ->
            let r = if to_int k = 0 then Build.binary_new (to_nat nv) (to_opt to_nat nh) (nat_l d) !h
                    else Build.purif_new (to_nat nv) (to_opt to_nat nh) (to_opt to_nat na) (nat_l d) !h in
            h := fst r; mods := snd r :: !mods
        | 1, [k; nv; nh; na; d1; d2] ->
            let r = Build.of_sizes (to_kind k) (to_nat nv) (to_opt to_nat nh) (to_opt to_nat na) (nat_l d1) (nat_l d2) !h in
            h := fst r; states := Some (snd r) :: !states
        | 2, [k; m] ->
            let r = Build.of_module (to_kind k) (net_ref m) !h in
            (match snd r with Some _ -> h := fst r | None -> ());   (* the failed constructor's copy is garbage *)
            states := snd r :: !states
        | 3, [n; p; vl] -> h := Build.write_net (net_ref n) (to_nat p) (to_bval vl) !h
        | 4, [j; d1; d2] ->
            (match Stdlib.List.nth (Stdlib.List.rev !states) (to_int j) with
             | Some s -> h := Build.reinitialize s (nat_l d1) (nat_l d2) !h
             | None -> failwith "state is an error")
        | _ -> failwith "build op")
    | [] -> failwith "build op" in
  L (Stdlib.List.map (fun x -> step x; dump ()) ops)

let to_cx x = match to_list x with [a; b] -> (to_float a, to_float b) | _ -> failwith "cx"
let to_groups x =
  Stdlib.List.map (fun g -> to_opt (fun smp ->
      Stdlib.List.map (fun s -> match to_list s with
          | [w; us] -> (to_float w, Stdlib.List.map to_cx (to_list us)) | _ -> failwith "sample") (to_list smp)) g) (to_list x)
let to_hist x = Stdlib.List.map (fun b -> match to_list b with
    | [grest; groups; bs] -> ((to_flist grest, to_groups groups), to_float bs) | _ -> failwith "batch") (to_list x)

let table : (string * (v list -> v)) list = [
  ("store_run", (fun a -> match a with [h; ops] ->
      let tr = Store.run_trace (Stdlib.List.map to_op (to_list ops)) (to_heap h) in
      L (Stdlib.List.map (fun (r, hp) -> L [of_res r; of_heap hp]) tr) | _ -> failwith "args"));
  ("build_run", (fun a -> match a with [ops] -> build_run (to_list ops) | _ -> failwith "args"));
  ("fit_guard", (fun a -> match a with [k; bases; stop] ->
      let body = [Build.OptimizerBuilt; Build.EvTrainStart; Build.RngDraw; Build.EvEpochStart] in
      let (eff, r) = Build.fit (to_kind k) (to_bool bases) (to_bool stop) body in
      L [of_int (Stdlib.List.length eff); of_res r] | _ -> failwith "args"));
  ("ctor_shapes", (fun a -> match a with [k; nv; nh; na] ->
      (* shapes of the amplitude network built by the sizes constructor *)
      let r = Build.of_sizes (to_kind k) (to_nat nv) (to_opt to_nat nh) (to_opt to_nat na) [] []
                { Build.b_nets = []; b_cells = []; b_next = Datatypes.O } in
      dump_net (fst r) (snd r).Build.bs_am | _ -> failwith "args"));
  ("phase_ab_grad", (fun a -> match a with [na; groups; bs] ->
      of_flist (Build.batch_grad_ab fops (to_nat na) (to_groups groups) (to_float bs)) | _ -> failwith "args"));
  ("train_sgd", (fun a -> match a with [cfg; na; hist; rest; ab] ->
      (match to_list cfg with
       | [lr; mu; damp; wd; nest; hasmu] ->
           let c = { Build.sgd_lr = to_float lr; sgd_mu = to_float mu; sgd_damp = to_float damp; sgd_wd = to_float wd;
                     sgd_nesterov = to_bool nest; sgd_has_mu = to_bool hasmu } in
           let ((r, b), _) = Build.train fops (Build.sgd fops c) (to_nat na) (to_hist hist) (None, None) (to_flist rest, to_flist ab) in
           L [of_flist r; of_flist b]
       | _ -> failwith "cfg") | _ -> failwith "args"));
  ("train_adam", (fun a -> match a with [cfg; na; hist; rest; ab] ->
      (match to_list cfg with
       | [lr; b1; b2; eps; wd] ->
           let c = { Build.ad_lr = to_float lr; ad_b1 = to_float b1; ad_b2 = to_float b2; ad_eps = to_float eps; ad_wd = to_float wd } in
           let z l = Stdlib.List.map (fun _ -> 0.0) l in
           let rest = to_flist rest and ab = to_flist ab in
           let ((r, b), _) = Build.train fops (Build.adam fops c) (to_nat na) (to_hist hist)
               ((Datatypes.O, (z rest, z rest)), (z ab, z ab)) (rest, ab) in
           L [of_flist r; of_flist b]
       | _ -> failwith "cfg") | _ -> failwith "args"));
]
