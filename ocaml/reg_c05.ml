(* reg_c05.ml — model entry points for C05 (Gibbs.v on top of Rbm.v). *)
open Wire
let brbm = Reg_core.brbm
let prbm = Reg_core.prbm
let lmap = Stdlib.List.map
let of_reqs (reqs : float list list) = L (lmap of_flist reqs)
let of_res (res : bool list * float list list) = L [of_bits (fst res); of_reqs (snd res)]

let table : (string * (v list -> v)) list = [
  (* conditionals: P(h|v) for every v in vs, P(v|h) for every h in hs *)
  ("c05_b_conds", (fun a -> let (r, a) = brbm a in match a with [vs; hs] ->
      L [ of_fmat (lmap (Rbm.b_prob_h_given_v fops r) (to_bitsl vs));
          of_fmat (lmap (Rbm.b_prob_v_given_h fops r) (to_bitsl hs)) ] | _ -> failwith "args"));
  (* P(h|v), P(a|v) for every v; P(v|h,a) for every (h,a) pair, rows ordered h-major *)
  ("c05_p_conds", (fun a -> let (r, a) = prbm a in match a with [vs; hs; aux] ->
      let hs = to_bitsl hs and aux = to_bitsl aux in
      L [ of_fmat (lmap (Rbm.p_prob_h_given_v fops r) (to_bitsl vs));
          of_fmat (lmap (Rbm.p_prob_a_given_v fops r) (to_bitsl vs));
          of_fmat (Stdlib.List.concat_map (fun h -> lmap (fun x -> Rbm.p_prob_v_given_ha fops r h x) aux) hs) ]
      | _ -> failwith "args"));
  ("c05_p_eff_energy", (fun a -> let (r, a) = prbm a in match a with [vs] ->
      of_flist (lmap (Rbm.p_eff_energy fops r) (to_bitsl vs)) | _ -> failwith "args"));
  (* kernel matrices over all_bits nv, row major *)
  ("c05_b_kernel", (fun a -> let (r, a) = brbm a in match a with [nv] ->
      of_fmat (Gibbs.kernel_matrix (to_nat nv) (Gibbs.b_kernel fops r)) | _ -> failwith "args"));
  ("c05_p_kernel", (fun a -> let (r, a) = prbm a in match a with [nv] ->
      of_fmat (Gibbs.kernel_matrix (to_nat nv) (Gibbs.p_kernel fops r)) | _ -> failwith "args"));
  ("c05_b_kpow", (fun a -> let (r, a) = brbm a in match a with [nv; k] ->
      let nv = to_nat nv in
      of_fmat (Gibbs.kernel_matrix nv (Gibbs.kpow fops nv (Gibbs.b_kernel fops r) (to_nat k))) | _ -> failwith "args"));
  ("c05_p_kpow", (fun a -> let (r, a) = prbm a in match a with [nv; k] ->
      let nv = to_nat nv in
      of_fmat (Gibbs.kernel_matrix nv (Gibbs.kpow fops nv (Gibbs.p_kernel fops r) (to_nat k))) | _ -> failwith "args"));
  (* law of the sampler by enumeration of all draw sequences (tiny sizes only) *)
  ("c05_b_law", (fun a -> let (r, a) = brbm a in match a with [nv; k] ->
      let nv = to_nat nv in
      of_fmat (Gibbs.kernel_matrix nv (Gibbs.b_sampler_law fops r nv (to_nat k))) | _ -> failwith "args"));
  ("c05_p_law", (fun a -> let (r, a) = prbm a in match a with [nv; k] ->
      let nv = to_nat nv in
      of_fmat (Gibbs.kernel_matrix nv (Gibbs.p_sampler_law fops r nv (to_nat k))) | _ -> failwith "args"));
  (* the deterministic sampler: final state and the probability vectors it requested *)
  ("c05_b_gibbs", (fun a -> let (r, a) = brbm a in match a with [k; v0; draws] ->
      of_res (Gibbs.b_gibbs_steps fops r (to_nat k) (to_bits v0) (to_bitsl draws)) | _ -> failwith "args"));
  ("c05_p_gibbs", (fun a -> let (r, a) = prbm a in match a with [k; v0; draws] ->
      of_res (Gibbs.p_gibbs_steps fops r (to_nat k) (to_bits v0) (to_bitsl draws)) | _ -> failwith "args"));
  (* storage model: skip (1 binary / 2 purification), overwrite, same_dtype, k, heap, src, draws -> [heap'; ret] *)
  ("c05_call", (fun a -> match a with [skip; ow; sd; k; hp; src; draws] ->
      let (hp', ret) = Gibbs.gibbs_call (to_nat skip) (to_bool ow) (to_bool sd) (to_nat k) (to_bitsl hp) (to_nat src) (to_bitsl draws) in
      L [of_bitsl hp'; of_nat ret] | _ -> failwith "args"));
]
