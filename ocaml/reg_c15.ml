(* reg_c15.ml — model entry points for C15 (Cplx: the complex-tensor kernel).
   Wire encoding: a real tensor is a nested list of floats (rank = nesting depth, 0..4; no empty
   dimensions on the wire); a complex tensor is the library's own layout [re, im] (two real tensors).
   A [res] value is [0 value] (Ok), [1] (ValueError), [2] (RuntimeError). *)
open Wire
module C = Cplx
let fo = fops

let rec depth = function F _ -> 0 | L [] -> 1 | L (x :: _) -> 1 + depth x
let l1 f x = Stdlib.List.map f (to_list x)
let to_rt (x : v) : float C.tens =
  match depth x with
  | 0 -> C.T0 (to_float x)
  | 1 -> C.T1 (l1 to_float x)
  | 2 -> C.T2 (l1 (l1 to_float) x)
  | 3 -> C.T3 (l1 (l1 (l1 to_float)) x)
  | 4 -> C.T4 (l1 (l1 (l1 (l1 to_float))) x)
  | _ -> failwith "rank > 4"
let m1 f xs = L (Stdlib.List.map f xs)
let of_rt (t : float C.tens) : v =
  match t with
  | C.T0 a -> F a
  | C.T1 x -> m1 of_float x
  | C.T2 x -> m1 (m1 of_float) x
  | C.T3 x -> m1 (m1 (m1 of_float)) x
  | C.T4 x -> m1 (m1 (m1 (m1 of_float))) x
(* decoding a complex tensor from its two parts uses the model's own make_complex *)
let to_ct (x : v) : (float * float) C.tens =
  match x with
  | L [re; im] -> (match C.make_complex (to_rt re) (to_rt im) with C.Ok t -> t | _ -> failwith "parts of different shape")
  | _ -> failwith "complex tensor expected as [re im]"
let of_ct (t : (float * float) C.tens) : v = L [of_rt (C.treal t); of_rt (C.timag t)]
let of_res f = function C.Ok a -> L [F 0.0; f a] | C.ValueErr -> L [F 1.0] | C.RuntimeErr -> L [F 2.0]
let of_eres f = function
  | None -> L [F 2.0]
  | Some (C.EBoth (r, i)) -> L [F 0.0; F 3.0; f r; f i]
  | Some (C.EReal r) -> L [F 0.0; F 1.0; f r]
  | Some (C.EImag i) -> L [F 0.0; F 2.0; f i]
  | Some C.ENone -> L [F 0.0; F 0.0]
let t1 = function C.T1 x -> x | _ -> failwith "rank-1 operand expected"
let t2 = function C.T2 x -> x | _ -> failwith "rank-2 operand expected"
let t3 = function C.T3 x -> x | _ -> failwith "rank-3 operand expected"
let t4 = function C.T4 x -> x | _ -> failwith "rank-4 operand expected"
let bufref = function L [i; s] -> { C.b_id = to_nat i; b_store = to_nat s } | _ -> failwith "bufref = [id store]"

let un name f = (name, (fun a -> match a with [x] -> f x | _ -> failwith (name ^ ": 1 arg")))
let bin name f = (name, (fun a -> match a with [x; y] -> f x y | _ -> failwith (name ^ ": 2 args")))

let table : (string * (v list -> v)) list = [
  bin "c15_make_complex" (fun x y -> of_res of_ct (C.make_complex (to_rt x) (to_rt y)));
  un "c15_make_complex_real" (fun x -> of_ct (C.make_complex_real fo (to_rt x)));
  un "c15_real" (fun x -> of_rt (C.treal (to_ct x)));
  un "c15_imag" (fun x -> of_rt (C.timag (to_ct x)));
  bin "c15_scalar_mult" (fun x y -> of_res of_ct (C.scalar_mult fo (to_ct x) (to_ct y)));
  bin "c15_elementwise_mult" (fun x y -> of_res of_ct (C.elementwise_mult fo (to_ct x) (to_ct y)));
  (* c15_scalar_mult_out [storage contents ...] [idx storex] [idy storey] [idout storeout]
     -> [0 out_id [storage contents after the call ...]] | [2] *)
  ("c15_scalar_mult_out", (fun a -> match a with [stores; x; y; out] ->
      let st = Stdlib.Array.of_list (Stdlib.List.map to_ct (to_list stores)) in
      let n = Stdlib.Array.length st in
      let h = (fun s -> let i = int_of_nat s in if i < n then st.(i) else failwith "storage id") in
      (match C.scalar_mult_out fo h (bufref x) (bufref y) (bufref out) with
       | C.Ok (h', o) ->
           L [F 0.0; of_nat o.C.b_id; L (Stdlib.List.init n (fun i -> of_ct (h' (nat_of_int i))))]
       | C.ValueErr -> L [F 1.0] | C.RuntimeErr -> L [F 2.0])
    | _ -> failwith "c15_scalar_mult_out args"));
  bin "c15_matmul" (fun x y -> of_res of_ct (C.matmul fo (to_ct x) (to_ct y)));
  bin "c15_inner_prod" (fun x y -> of_res of_ct (C.inner_prod fo (to_ct x) (to_ct y)));
  bin "c15_outer_prod" (fun x y -> of_res of_ct (C.outer_prod fo (to_ct x) (to_ct y)));
  bin "c15_kronecker_prod" (fun x y -> of_res of_ct (C.kronecker_prod fo (to_ct x) (to_ct y)));
  un "c15_conj" (fun x -> of_ct (C.conj fo (to_ct x)));
  un "c15_conjugate" (fun x -> of_ct (C.conjugate fo (to_ct x)));
  un "c15_absolute_value" (fun x -> of_rt (C.absolute_value fo (to_ct x)));
  bin "c15_elementwise_division" (fun x y -> of_res of_ct (C.elementwise_division fo (to_ct x) (to_ct y)));
  bin "c15_sigmoid" (fun x y -> of_res of_ct (C.sigmoid fo (to_rt x) (to_rt y)));
  un "c15_inverse" (fun x -> of_ct (C.inverse fo (to_ct x)));
  bin "c15_scalar_divide" (fun x y -> of_res of_ct (C.scalar_divide fo (to_ct x) (to_ct y)));
  un "c15_norm_sqr" (fun x -> of_res of_float (C.norm_sqr fo (to_ct x)));
  un "c15_norm" (fun x -> of_res of_float (C.norm fo (to_ct x)));
  (* c15_einsum eq real_part imag_part [dims] x y ; eq: 0 "ab,cd->acbd", 1 "ib,ibg->bg", 2 "b,bg->g", 3 "ijb,ijbg->bg" *)
  ("c15_einsum", (fun a -> match a with [eq; rp; ip; dims; x; y] ->
      let rp = to_bool rp and ip = to_bool ip in
      let d = Stdlib.List.map to_nat (to_list dims) in
      let x = to_ct x and y = to_ct y in
      (match to_int eq, d with
       | 0, [] -> of_eres (fun t -> of_rt (C.T4 t)) (C.einsum_ab_cd fo rp ip (t2 x) (t2 y))
       | 1, [nb; ng] -> of_eres (fun t -> of_rt (C.T2 t)) (C.einsum_ib_ibg fo rp ip nb ng (t2 x) (t3 y))
       | 2, [ng] -> of_eres (fun t -> of_rt (C.T1 t)) (C.einsum_b_bg fo rp ip ng (t1 x) (t2 y))
       | 3, [nj; nb; ng] -> of_eres (fun t -> of_rt (C.T2 t)) (C.einsum_ijb_ijbg fo rp ip nj nb ng (t3 x) (t4 y))
       | _ -> failwith "c15_einsum: equation / dims")
    | _ -> failwith "c15_einsum args"));
  (* generic combinator on real matrices with torch.matmul as the bilinear map (used by the check to
     cross-validate complexify against matmul_mm) *)
  ("c15_complexify_matmul", (fun a -> match a with [m; ra; ia; rb; ib] ->
      let (r, i) = C.complexify (C.msub fo) (C.madd fo) (C.rmatmul fo (to_nat m)) (to_fmat ra) (to_fmat ia) (to_fmat rb) (to_fmat ib) in
      L [of_fmat r; of_fmat i]
    | _ -> failwith "c15_complexify_matmul args"));
]
