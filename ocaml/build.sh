#!/bin/sh
# builds ocaml/modelrun from the extracted model (ocaml/gen) + wire/reg_*/driver
set -e
cd "$(dirname "$0")"
rm -rf _build && mkdir _build
cp gen/*.ml gen/*.mli _build/
cp wire.ml reg_*.ml driver.ml _build/
for x in ${VERIF_EXCLUDE_REG:-}; do rm -f _build/$x; done
cd _build
{ printf 'let tables = ['; for f in reg_*.ml; do m=$(basename $f .ml); M="$(echo $m | cut -c1 | tr a-z A-Z)$(echo $m | cut -c2-)"; printf '%s.table; ' "$M"; done; echo ']'; } > all_regs.ml
ORDER=$(ocamlfind ocamldep -sort *.mli *.ml)
ocamlfind ocamlopt -O3 -w -a -o ../modelrun $ORDER 2>/dev/null || ocamlfind ocamlopt -w -a -o ../modelrun $ORDER
cd .. && rm -rf _build
