(* reg_c02.ml -- model entry points for C02: density matrix functions of Rbm (purification) and States. *)
open Wire
let prbm a = match a with w :: u :: b :: c :: d :: rest ->
  ({ Rbm.pW = to_fmat w; pU = to_fmat u; pb = to_flist b; pc = to_flist c; pd = to_flist d }, rest) | _ -> failwith "prbm args"

let map2 f xs ys =
  if Stdlib.List.length xs <> Stdlib.List.length ys then failwith "pair lists of different length"
  else Stdlib.List.map2 f xs ys
let of_pairmat m = L (Stdlib.List.map of_pairl m)
let matrix f vs = Stdlib.List.map (fun v -> Stdlib.List.map (fun vp -> f v vp) vs) vs

let table : (string * (v list -> v)) list = [
  (* dm_full am ph space -> [rho matrix; pi matrix; gamma+ (am) matrix; gamma- (ph) matrix;
                            probability(space) (Z=1); normalization; diagonal shortcut] *)
  ("dm_full", (fun a -> let (am, a) = prbm a in let (ph, a) = prbm a in match a with [vs] ->
      let vs = to_bitsl vs in
      L [ of_pairmat (States.dm_rho_matrix fops am ph vs);
          of_pairmat (matrix (States.dm_pi fops am ph) vs);
          of_fmat (matrix (Rbm.p_gamma fops am true) vs);
          of_fmat (matrix (Rbm.p_gamma fops ph false) vs);
          of_flist (Stdlib.List.map (fun v -> States.dm_probability fops am v 1.0) vs);
          of_float (States.dm_normalization fops am vs);
          of_pairl (Stdlib.List.map (States.dm_rho_diag fops am) vs) ] | _ -> failwith "args"));
  (* dm_pairs am ph vs vps -> [rho; pi; gamma+; gamma-] on the zipped pairs (expand=False / 1-D forms) *)
  ("dm_pairs", (fun a -> let (am, a) = prbm a in let (ph, a) = prbm a in match a with [vs; vps] ->
      let vs = to_bitsl vs and vps = to_bitsl vps in
      L [ of_pairl (map2 (States.dm_rho fops am ph) vs vps);
          of_pairl (map2 (States.dm_pi fops am ph) vs vps);
          of_flist (map2 (Rbm.p_gamma fops am true) vs vps);
          of_flist (map2 (Rbm.p_gamma fops ph false) vs vps) ] | _ -> failwith "args"));
  (* p_energies r vs as -> [effective_energy(v) ; effective_energy(v, a) on the zipped pairs] *)
  ("p_energies", (fun a -> let (r, a) = prbm a in match a with [vs; va; aa] ->
      L [ of_flist (Stdlib.List.map (Rbm.p_eff_energy fops r) (to_bitsl vs));
          of_flist (map2 (Rbm.p_eff_energy_va fops r) (to_bitsl va) (to_bitsl aa)) ] | _ -> failwith "args"));
  ("dm_probability", (fun a -> let (am, a) = prbm a in match a with [vs; z] ->
      of_flist (Stdlib.List.map (fun v -> States.dm_probability fops am v (to_float z)) (to_bitsl vs)) | _ -> failwith "args"));
]
