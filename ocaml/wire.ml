(* wire.ml — line protocol between the Python harness and the extracted model.
   A request is one line:  <function-name> <value> <value> ...
   value ::= number | [ value* ]      numbers: OCaml float_of_string syntax (hex floats, decimals, nan, inf)
   A reply is one line: a value (floats printed with %h, exact), or  !ERR <message>. *)
type v = F of float | L of v list

let tokenize (s : string) : string list =
  let n = String.length s in
  let toks = ref [] and i = ref 0 in
  while !i < n do
    let c = s.[!i] in
    if c = ' ' || c = ',' || c = '\t' || c = '\n' || c = '\r' then incr i
    else if c = '[' || c = ']' then (toks := String.make 1 c :: !toks; incr i)
    else begin
      let j = ref !i in
      while !j < n && not (Stdlib.List.mem s.[!j] [' '; ','; '['; ']'; '\t'; '\n'; '\r']) do incr j done;
      toks := String.sub s !i (!j - !i) :: !toks; i := !j
    end
  done;
  Stdlib.List.rev !toks

let rec parse_value (toks : string list) : v * string list =
  match toks with
  | [] -> failwith "unexpected end of input"
  | "[" :: rest ->
      let rec items acc ts =
        match ts with
        | "]" :: r -> (L (Stdlib.List.rev acc), r)
        | _ -> let (x, r) = parse_value ts in items (x :: acc) r
      in items [] rest
  | "]" :: _ -> failwith "unexpected ]"
  | t :: rest -> (F (float_of_string t), rest)

let parse_values (toks : string list) : v list =
  let rec go acc ts = match ts with [] -> Stdlib.List.rev acc | _ -> let (x, r) = parse_value ts in go (x :: acc) r in
  go [] toks

let rec print_value (b : Buffer.t) (x : v) : unit =
  match x with
  | F f -> Buffer.add_string b (Printf.sprintf "%h" f)
  | L xs ->
      Buffer.add_char b '[';
      Stdlib.List.iteri (fun i y -> if i > 0 then Buffer.add_char b ' '; print_value b y) xs;
      Buffer.add_char b ']'

(* ---- conversions between wire values and extracted model types ---- *)
open Datatypes
open BinNums

let to_float = function F f -> f | L _ -> failwith "expected number"
let to_list = function L xs -> xs | F _ -> failwith "expected list"
let to_int x = int_of_float (to_float x)
let to_bool x = (to_float x) <> 0.0
let to_flist x = Stdlib.List.map to_float (to_list x)
let to_fmat x = Stdlib.List.map to_flist (to_list x)
let to_bits x = Stdlib.List.map to_bool (to_list x)
let to_bitsl x = Stdlib.List.map to_bits (to_list x)
let rec nat_of_int (n : int) : nat = if n <= 0 then O else S (nat_of_int (n - 1))
let rec int_of_nat (n : nat) : int = match n with O -> 0 | S m -> 1 + int_of_nat m
let rec pos_of_int (n : int) : positive =
  if n <= 1 then Coq_xH else if n land 1 = 0 then Coq_xO (pos_of_int (n lsr 1)) else Coq_xI (pos_of_int (n lsr 1))
let rec int_of_pos (p : positive) : int =
  match p with Coq_xH -> 1 | Coq_xO q -> 2 * int_of_pos q | Coq_xI q -> 2 * int_of_pos q + 1
let n_of_int (n : int) : coq_N = if n <= 0 then N0 else Npos (pos_of_int n)
let int_of_n (n : coq_N) : int = match n with N0 -> 0 | Npos p -> int_of_pos p
let z_of_int (n : int) : coq_Z = if n = 0 then Z0 else if n > 0 then Zpos (pos_of_int n) else Zneg (pos_of_int (-n))
let int_of_z (z : coq_Z) : int = match z with Z0 -> 0 | Zpos p -> int_of_pos p | Zneg p -> - (int_of_pos p)
let to_nat x = nat_of_int (to_int x)
let to_n x = n_of_int (to_int x)
let to_z x = z_of_int (to_int x)

let of_float f = F f
let of_bool b = F (if b then 1.0 else 0.0)
let of_int i = F (float_of_int i)
let of_nat n = of_int (int_of_nat n)
let of_n n = of_int (int_of_n n)
let of_z z = of_int (int_of_z z)
let of_flist xs = L (Stdlib.List.map of_float xs)
let of_fmat xs = L (Stdlib.List.map of_flist xs)
let of_bits xs = L (Stdlib.List.map of_bool xs)
let of_bitsl xs = L (Stdlib.List.map of_bits xs)
let of_pair (a, b) = L [F a; F b]
let of_pairl xs = L (Stdlib.List.map of_pair xs)
let of_option f = function None -> L [] | Some x -> L [f x]

(* the execution instance of NumOps: IEEE doubles *)
let fops : float Num.coq_NumOps = {
  Num.n0 = 0.0; n1 = 1.0;
  nadd = ( +. ); nsub = ( -. ); nmul = ( *. ); ndiv = ( /. );
  nopp = (fun x -> -. x);
  nexp = exp; nln = log; nsqrt = sqrt; ncos = cos; nsin = sin;
  natan2 = (fun y x -> atan2 y x);
  nofZ = (fun z -> float_of_int (int_of_z z));
  nltb = (fun a b -> a < b);
  nabs = abs_float }
