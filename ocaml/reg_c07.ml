(* reg_c07.ml — model entry points for C07 (Batching).
   Data rows are opaque wire values (A := Wire.v); basis rows are lists of character codes
   (B := nat list, "Z" = 90) so that the model's own [is_Z_row] decides "all Z".
   option values travel as [] (None) / [x] (Some x). *)
open Wire

let to_opt f x = match to_list x with [] -> None | [y] -> Some (f y) | _ -> failwith "option: expected [] or [x]"
let to_natl x = Stdlib.List.map to_nat (to_list x)
let to_codes x = Stdlib.List.map to_natl (to_list x)          (* rows of character codes *)
let of_natl xs = L (Stdlib.List.map of_nat xs)
let of_codes rows = L (Stdlib.List.map of_natl rows)

let of_batch ((pos, neg), bases) = L [ L pos; L neg; of_option of_codes bases ]
let of_batches bs = L (Stdlib.List.map of_batch bs)

let table : (string * (v list -> v)) list = [
  (* c07_fit_epoch pos_bs neg_opt data bases_opt perm negidx -> [] (IndexError) | [batches] *)
  ("c07_fit_epoch", (fun a -> match a with [pb; no; data; bases; perm; negidx] ->
      of_option of_batches
        (Batching.fit_epoch Batching.is_Z_row (to_nat pb) (to_opt to_nat no) (to_list data)
           (to_opt to_codes bases) (to_natl perm) (to_natl negidx))
    | _ -> failwith "args"));
  (* c07_randint_request pos_bs neg_opt data bases_opt -> [] (no randint call) | [[high k]] *)
  ("c07_randint_request", (fun a -> match a with [pb; no; data; bases] ->
      of_option (fun (h, k) -> L [of_nat h; of_nat k])
        (Batching.fit_randint_request Batching.is_Z_row (to_nat pb) (to_opt to_nat no) (to_list data)
           (to_opt to_codes bases))
    | _ -> failwith "args"));
  (* c07_shuffle_data pos_bs neg_bs num_batches data bases_opt zdata perm negidx *)
  ("c07_shuffle_data", (fun a -> match a with [pb; nb; k; data; bases; zdata; perm; negidx] ->
      of_option of_batches
        (Batching.shuffle_data (to_nat pb) (to_nat nb) (to_nat k) (to_list data)
           (to_opt to_codes bases) (to_list zdata) (to_natl perm) (to_natl negidx))
    | _ -> failwith "args"));
  (* c07_extract_refbasis data bases -> [] (shape error) | [rows] *)
  ("c07_extract_refbasis", (fun a -> match a with [data; bases] ->
      of_option (fun rows -> L rows)
        (Batching.extract_refbasis Batching.is_Z_row (to_list data) (to_codes bases))
    | _ -> failwith "args"));
  ("c07_chunks", (fun a -> match a with [b; l] ->
      L (Stdlib.List.map (fun c -> L c) (Batching.chunks (to_nat b) (to_list l))) | _ -> failwith "args"));
  ("c07_cdiv", (fun a -> match a with [n; b] -> of_nat (Batching.cdiv (to_nat n) (to_nat b)) | _ -> failwith "args"));
]
