(* reg_c10.ml — model entry points for C10 (Metrics.v over CBase / Unitaries).
   Wire conventions: complex number = [re im]; complex vector = list of those; complex matrix = list of
   rows; basis letter X=0 Y=1 Z=2; a result is [value kind] with kind 0 = PlainNumber, 1 = TensorObject. *)
open Wire

let to_cx x = match to_list x with [a; b] -> (to_float a, to_float b) | _ -> failwith "cx"
let to_cvec x = Stdlib.List.map to_cx (to_list x)
let to_cmat x = Stdlib.List.map to_cvec (to_list x)
let to_letter x = match to_int x with
  | 0 -> Unitaries.LX | 1 -> Unitaries.LY | 2 -> Unitaries.LZ | k -> Unitaries.LU (nat_of_int (k - 3))
let to_basis x = Stdlib.List.map to_letter (to_list x)
let to_bases x = Stdlib.List.map to_basis (to_list x)
let of_res (x, k) = L [F x; F (match k with Metrics.PlainNumber -> 0.0 | Metrics.TensorObject -> 1.0)]
let of_cmat m = L (Stdlib.List.map of_pairl m)

(* tables indexed by the big-endian value of the bit string, as the code indexes explicit arrays *)
let pr_of_array (arr : float list) (v : bool list) : float =
  match Stdlib.List.nth_opt arr (int_of_n (Bits.idx v)) with Some x -> x | None -> nan
let psi_fn arr = Unitaries.psi_of_array fops arr
let rho_fn arr = Unitaries.rho_of_array fops arr
let user : float Unitaries.umat list = []

let state_tab kind tab = match to_int kind with
  | 0 -> Metrics.PureTab (psi_fn (to_cvec tab))
  | _ -> Metrics.MixedTab (rho_fn (to_cmat tab))

let zip_samples bases samples = Stdlib.List.combine (to_bases bases) (to_bitsl samples)

let table : (string * (v list -> v)) list = [
  ("c10_fidelity_pure", (fun a -> match a with [t; psi; z] ->
      of_res (Metrics.fidelity_pure fops (to_cvec t) (to_cvec psi) (to_float z)) | _ -> failwith "args"));
  ("c10_fidelity_mixed_matrix", (fun a -> match a with [t; rho; z] ->
      of_cmat (Metrics.fidelity_mixed_matrix fops (to_cmat t) (to_cmat rho) (to_float z)) | _ -> failwith "args"));
  (* the eigenvalue oracle is answered by the harness (numpy) for exactly the matrix the model hands out *)
  ("c10_fidelity_mixed", (fun a -> match a with [t; rho; z; ev] ->
      let ev = to_cvec ev in
      of_res (Metrics.fidelity_mixed fops (fun _ -> ev) (to_cmat t) (to_cmat rho) (to_float z)) | _ -> failwith "args"));
  ("c10_nll_plain", (fun a -> match a with [pr; z; samples] ->
      of_res (Metrics.nll_plain fops (pr_of_array (to_flist pr)) (to_float z) (to_bitsl samples)) | _ -> failwith "args"));
  ("c10_nll_bases", (fun a -> match a with [kind; tab; pr; z; bases; samples] ->
      of_res (Metrics.nll_bases_auto fops user (state_tab kind tab) (pr_of_array (to_flist pr)) (to_float z)
                (zip_samples bases samples)) | _ -> failwith "args"));
  ("c10_nll_bases_ub", (fun a -> match a with [kind; tab; pr; z; ub; bases; samples] ->
      of_res (Metrics.nll_bases fops user (state_tab kind tab) (pr_of_array (to_flist pr)) (to_float z)
                (to_bases ub) (zip_samples bases samples)) | _ -> failwith "args"));
  ("c10_kl_none_pure", (fun a -> match a with [t; pr; z; space] ->
      of_res (Metrics.kl_none_pure fops (to_cvec t) (pr_of_array (to_flist pr)) (to_float z) (to_bitsl space)) | _ -> failwith "args"));
  ("c10_kl_none_mixed", (fun a -> match a with [t; pr; z; space] ->
      of_res (Metrics.kl_none_mixed fops (to_cmat t) (pr_of_array (to_flist pr)) (to_float z) (to_bitsl space)) | _ -> failwith "args"));
  (* mode 0: one target, rotated per basis;  mode 1: dictionary: keys (bases) and the rotated targets *)
  ("c10_kl_bases_pure", (fun a -> match a with [mode; t; keys; psi; z; bases] ->
      let tgt = if to_int mode = 0 then Metrics.tgt_rotate_psi fops user (to_cvec t)
                else Metrics.tgt_dict_psi (Stdlib.List.combine (to_bases keys) (Stdlib.List.map to_cvec (to_list t))) in
      of_res (Metrics.kl_bases_pure fops user tgt (to_cvec psi) (to_float z) (to_bases bases)) | _ -> failwith "args"));
  ("c10_kl_bases_mixed", (fun a -> match a with [mode; t; keys; rho; z; space; bases] ->
      let space = to_bitsl space in
      let tgt = if to_int mode = 0 then Metrics.tgt_rotate_rho fops user (rho_fn (to_cmat t)) space
                else Metrics.tgt_dict_rho fops (Stdlib.List.combine (to_bases keys) (Stdlib.List.map to_cmat (to_list t))) in
      of_res (Metrics.kl_bases_mixed fops user tgt (rho_fn (to_cmat rho)) (to_float z) space (to_bases bases)) | _ -> failwith "args"));
  ("c10_dedup_bases", (fun a -> match a with [bs] ->
      L (Stdlib.List.map (fun b -> L (Stdlib.List.map (fun l -> of_int (match l with
            Unitaries.LX -> 0 | Unitaries.LY -> 1 | Unitaries.LZ -> 2 | Unitaries.LU k -> 3 + int_of_nat k)) b))
           (Metrics.dedup_bases (to_bases bs))) | _ -> failwith "args"));
]
