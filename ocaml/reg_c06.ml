(* reg_c06.ml — model entry points for C06 (CDStep on top of Rbm).
   Wire encodings:
     shape    : [n]  (vector)  |  [r c]  (matrix)
     tensor   : [0 [x ...]]    |  [1 [[row] ...]]
     option   : []  (None)     |  [value]  (Some)
     event    : 0 = optimizer step, 1 = scheduler step *)
open Wire

let brbm a = match a with w :: b :: c :: rest -> ({ Rbm.bW = to_fmat w; bb = to_flist b; bc = to_flist c }, rest) | _ -> failwith "brbm args"
let prbm a = match a with w :: u :: b :: c :: d :: rest ->
  ({ Rbm.pW = to_fmat w; pU = to_fmat u; pb = to_flist b; pc = to_flist c; pd = to_flist d }, rest) | _ -> failwith "prbm args"

let to_shape x = match to_list x with
  | [n] -> CDStep.SVec (to_nat n)
  | [r; c] -> CDStep.SMat (to_nat r, to_nat c)
  | _ -> failwith "shape"
let to_shapes x = Stdlib.List.map to_shape (to_list x)
let to_tensor x = match to_list x with
  | [t; d] -> if to_int t = 0 then CDStep.TVec (to_flist d) else CDStep.TMat (to_fmat d)
  | _ -> failwith "tensor"
let of_tensor = function
  | CDStep.TVec xs -> L [F 0.0; of_flist xs]
  | CDStep.TMat rows -> L [F 1.0; of_fmat rows]
let of_tensors ts = L (Stdlib.List.map of_tensor ts)
let of_ev = function CDStep.EvOpt -> F 0.0 | CDStep.EvSched -> F 1.0

let table : (string * (v list -> v)) list = [
  (* cbg_binary W b c pos neg vk  ->  [grad per network] *)
  ("cbg_binary", (fun a -> let (r, a) = brbm a in match a with [pos; neg; vk] ->
      of_fmat (CDStep.cbg_binary fops r (to_fmat pos) (to_bitsl neg) (to_bitsl vk)) | _ -> failwith "args"));
  ("cbg_purification", (fun a -> let (r, a) = prbm a in match a with [pos; neg; vk] ->
      of_fmat (CDStep.cbg_purification fops r (to_fmat pos) (to_bitsl neg) (to_bitsl vk)) | _ -> failwith "args"));
  ("b_energy_grad_batch", (fun a -> let (r, a) = brbm a in match a with [vs] ->
      of_flist (Rbm.b_energy_grad_batch fops r (to_bitsl vs)) | _ -> failwith "args"));
  ("p_energy_grad_batch", (fun a -> let (r, a) = prbm a in match a with [vs] ->
      of_flist (Rbm.p_energy_grad_batch fops r (to_bitsl vs)) | _ -> failwith "args"));
  ("b_shapes", (fun a -> match a with [nv; nh] ->
      L (Stdlib.List.map (function CDStep.SVec n -> L [of_nat n] | CDStep.SMat (r, c) -> L [of_nat r; of_nat c])
           (CDStep.b_shapes (to_nat nv) (to_nat nh))) | _ -> failwith "args"));
  ("p_shapes", (fun a -> match a with [nv; nh; na] ->
      L (Stdlib.List.map (function CDStep.SVec n -> L [of_nat n] | CDStep.SMat (r, c) -> L [of_nat r; of_nat c])
           (CDStep.p_shapes (to_nat nv) (to_nat nh) (to_nat na))) | _ -> failwith "args"));
  (* vector_to_grads vec shapes -> option [tensor] *)
  ("vector_to_grads", (fun a -> match a with [vec; shapes] ->
      of_option of_tensors (CDStep.vector_to_grads (to_flist vec) (to_shapes shapes)) | _ -> failwith "args"));
  (* assign_grads all_grads net_shapes -> option [[tensor]] *)
  ("assign_grads", (fun a -> match a with [gs; nss] ->
      of_option (fun tss -> L (Stdlib.List.map of_tensors tss))
        (CDStep.assign_grads (to_fmat gs) (Stdlib.List.map to_shapes (to_list nss))) | _ -> failwith "args"));
  ("sgd_step", (fun a -> match a with [lr; th; g] ->
      of_flist (CDStep.sgd_step fops (to_float lr) (to_flist th) (to_flist g)) | _ -> failwith "args"));
  (* batch_update lr params shapes g -> option [tensor] *)
  ("batch_update", (fun a -> match a with [lr; params; shapes; g] ->
      of_option of_tensors
        (CDStep.batch_update fops (to_float lr) (Stdlib.List.map to_tensor (to_list params)) (to_shapes shapes) (to_flist g))
      | _ -> failwith "args"));
  ("steplr", (fun a -> match a with [lr0; gamma; ss; n] ->
      of_float (CDStep.steplr fops (to_float lr0) (to_float gamma) (to_nat ss) (to_nat n)) | _ -> failwith "args"));
  (* cd_run lr0 gamma step_size has_sched theta0 epochs, epochs = [[grad vector per batch] per epoch]:
     the fit machine driven by recorded gradient vectors (G b theta := b), StepLR schedule.
     -> [theta_final, n_opt, n_sched, trace, lr of every optimizer step] *)
  ("cd_run", (fun a -> match a with [lr0; gamma; ss; hs; th0; eps] ->
      let sched n = CDStep.steplr fops (to_float lr0) (to_float gamma) (to_nat ss) n in
      let r = CDStep.run_epochs fops (fun b _ -> b) sched (to_bool hs) (to_flist th0)
                Datatypes.O Datatypes.O (Stdlib.List.map to_fmat (to_list eps)) in
      L [ of_flist r.CDStep.r_theta; of_nat r.CDStep.r_nopt; of_nat r.CDStep.r_nsched;
          L (Stdlib.List.map of_ev r.CDStep.r_trace);
          of_flist (Stdlib.List.map fst r.CDStep.r_log) ]
      | _ -> failwith "args"));
]
