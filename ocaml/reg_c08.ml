(* reg_c08.ml — model entry points for C08 (observable estimators) and C09 (SWAP).
   Needs the extracted modules Num Bits CBase Rbm States Observables and reg_core.ml (brbm / prbm parsers). *)
open Wire
module LS = Stdlib.List

let to_pair x = match to_list x with [a; b] -> (to_float a, to_float b) | _ -> failwith "expected pair"
let to_nats x = LS.map to_nat (to_list x)

(* a state, selected by a numeric tag:
     0 W b c                      PositiveWaveFunction   (States.pos_psi)
     1 W b c  W b c               ComplexWaveFunction    (States.cplx_psi)
     2 W U b c d  W U b c d       DensityMatrix          (States.dm_rho / dm_probability with Z = 1)
     3 psi_table                  pure state given by its values on all_bits n (row order of idx)
     4 rho_table p_table          mixed state given by explicit tables *)
let state (a : v list) : float Observables.istate * v list =
  match a with
  | tag :: rest ->
      (match to_int tag with
       | 0 -> let (am, r) = Reg_core.brbm rest in
              (Observables.pure_state (fun v -> States.pos_psi fops am v), r)
       | 1 -> let (am, r) = Reg_core.brbm rest in let (ph, r) = Reg_core.brbm r in
              (Observables.pure_state (fun v -> States.cplx_psi fops am ph v), r)
       | 2 -> let (am, r) = Reg_core.prbm rest in let (ph, r) = Reg_core.prbm r in
              (Observables.mixed_state fops (fun vp v -> States.dm_rho fops am ph vp v)
                 (fun v -> States.dm_probability fops am v 1.0), r)
       | 3 -> (match rest with
               | tab :: r ->
                   let t = Array.of_list (LS.map to_pair (to_list tab)) in
                   (Observables.pure_state (fun v -> t.(int_of_n (Bits.idx v))), r)
               | _ -> failwith "state args")
       | 4 -> (match rest with
               | tab :: ptab :: r ->
                   let t = Array.of_list (LS.map (fun row -> Array.of_list (LS.map to_pair (to_list row))) (to_list tab)) in
                   let p = Array.of_list (to_flist ptab) in
                   (Observables.mixed_state fops (fun vp v -> t.(int_of_n (Bits.idx vp)).(int_of_n (Bits.idx v)))
                      (fun v -> p.(int_of_n (Bits.idx v))), r)
               | _ -> failwith "state args")
       | _ -> failwith "unknown state tag")
  | _ -> failwith "state args"

let table : (string * (v list -> v)) list = [
  (* obs_pauli <state> samples -> [sx; sy; sz; |sx|; |sy|; |sz|], one list entry per sample row *)
  ("obs_pauli", (fun a -> let (st, a) = state a in match a with [vs] ->
      let vs = to_bitsl vs in
      L [ of_flist (LS.map (Observables.sigma_x fops false st) vs);
          of_flist (LS.map (Observables.sigma_y fops false st) vs);
          of_flist (LS.map (Observables.sigma_z fops false) vs);
          of_flist (LS.map (Observables.sigma_x fops true st) vs);
          of_flist (LS.map (Observables.sigma_y fops true st) vs);
          of_flist (LS.map (Observables.sigma_z fops true) vs) ] | _ -> failwith "args"));
  (* neighbour pbc c samples *)
  ("obs_neighbour", (fun a -> match a with [pbc; c; vs] ->
      of_flist (LS.map (Observables.neighbour fops (to_bool pbc) (to_nat c)) (to_bitsl vs)) | _ -> failwith "args"));
  (* importance sampling: is_weight <state> vps vs -> list of [num; den; weight] (pairs) *)
  ("obs_weight", (fun a -> let (st, a) = state a in match a with [vps; vs] ->
      L (LS.map2 (fun vp v ->
            L [ of_pair (st.Observables.is_num vp v); of_pair (st.Observables.is_den v);
                of_pair (Observables.is_weight fops st vp v) ]) (to_bitsl vps) (to_bitsl vs)) | _ -> failwith "args"));
  (* swap_sites s1 s2 A -> [s1'; s2'] *)
  ("swap_sites", (fun a -> match a with [s1; s2; sites] ->
      let (r1, r2) = Observables.swap_sites (to_bits s1) (to_bits s2) (to_nats sites) in
      L [of_bits r1; of_bits r2] | _ -> failwith "args"));
  (* swap_apply <state> A rows -> one value per row (row i paired with row i-1 mod B) *)
  ("swap_apply", (fun a -> let (st, a) = state a in match a with [sites; rows] ->
      of_flist (Observables.swap_apply fops st (to_nats sites) (to_bitsl rows)) | _ -> failwith "args"));
  ("roll1", (fun a -> match a with [rows] -> of_bitsl (Observables.roll1 (to_bitsl rows)) | _ -> failwith "args"));
]
