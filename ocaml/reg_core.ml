(* reg_core.ml — model entry points for C01 / C19 (Rbm, States, Bits). *)
open Wire
let brbm a = match a with w :: b :: c :: rest -> ({ Rbm.bW = to_fmat w; bb = to_flist b; bc = to_flist c }, rest) | _ -> failwith "brbm args"
let prbm a = match a with w :: u :: b :: c :: d :: rest ->
  ({ Rbm.pW = to_fmat w; pU = to_fmat u; pb = to_flist b; pc = to_flist c; pd = to_flist d }, rest) | _ -> failwith "prbm args"

let table : (string * (v list -> v)) list = [
  ("b_eff_energy", (fun a -> let (r, a) = brbm a in match a with [vs] ->
      of_flist (Stdlib.List.map (Rbm.b_eff_energy fops r) (to_bitsl vs)) | _ -> failwith "args"));
  ("pos_state", (fun a -> let (r, a) = brbm a in match a with [vs] ->
      let vs = to_bitsl vs in
      L [ of_flist (Stdlib.List.map (States.amplitude fops r) vs);
          of_flist (Stdlib.List.map (States.pos_phase fops) vs);
          of_pairl (Stdlib.List.map (States.pos_psi fops r) vs);
          of_flist (Stdlib.List.map (fun v -> States.probability fops r v 1.0) vs);
          of_float (States.normalization fops r vs) ] | _ -> failwith "args"));
  ("cplx_state", (fun a -> let (am, a) = brbm a in let (ph, a) = brbm a in match a with [vs] ->
      let vs = to_bitsl vs in
      L [ of_flist (Stdlib.List.map (States.amplitude fops am) vs);
          of_flist (Stdlib.List.map (States.cplx_phase fops ph) vs);
          of_pairl (Stdlib.List.map (States.cplx_psi fops am ph) vs);
          of_flist (Stdlib.List.map (fun v -> States.probability fops am v 1.0) vs);
          of_float (States.normalization fops am vs) ] | _ -> failwith "args"));
  ("subspace_vector", (fun a -> match a with [n; k] -> of_bits (Bits.subspace_vector (to_nat n) (to_n k)) | _ -> failwith "args"));
  ("generate_hilbert_space", (fun a -> match a with [n] -> of_option of_bitsl (Bits.generate_hilbert_space (to_nat n)) | _ -> failwith "args"));
  ("all_bits", (fun a -> match a with [n] -> of_bitsl (Bits.all_bits (to_nat n)) | _ -> failwith "args"));
  ("idx", (fun a -> match a with [ss] -> L (Stdlib.List.map (fun s -> of_n (Bits.idx s)) (to_bitsl ss)) | _ -> failwith "args"));
]
