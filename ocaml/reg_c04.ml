(* reg_c04.ml — model entry points for C04 (Unitaries, KronIndex).
   wire encodings: complex number = [re im]; 2x2 matrix = [[u00 u01] [u10 u11]] of complex;
   letter = 0 (X) | 1 (Y) | 2 (Z) | 3+k (k-th user matrix); basis = list of letters;
   vector = list of complex; matrix = list of rows. *)
open Wire
let to_cx x = match to_list x with [a; b] -> (to_float a, to_float b) | _ -> failwith "complex"
let of_cx (a, b) = L [F a; F b]
let to_cvec x = Stdlib.List.map to_cx (to_list x)
let of_cvec xs = L (Stdlib.List.map of_cx xs)
let to_cmat x = Stdlib.List.map to_cvec (to_list x)
let of_cmat xs = L (Stdlib.List.map of_cvec xs)
let to_umat x = match to_list x with
  | [r0; r1] -> (match to_list r0, to_list r1 with
      | [a; b], [c; d] -> ((to_cx a, to_cx b), (to_cx c, to_cx d))
      | _ -> failwith "umat rows")
  | _ -> failwith "umat"
let of_umat ((a, b), (c, d)) = L [L [of_cx a; of_cx b]; L [of_cx c; of_cx d]]
let to_user x = Stdlib.List.map to_umat (to_list x)
let to_letter x = match to_int x with
  | 0 -> Unitaries.LX | 1 -> Unitaries.LY | 2 -> Unitaries.LZ
  | k when k >= 3 -> Unitaries.LU (nat_of_int (k - 3)) | _ -> failwith "letter"
let to_basis x = Stdlib.List.map to_letter (to_list x)
let of_copt f = function None -> L [] | Some x -> L [f x]

let table : (string * (v list -> v)) list = [
  ("c04_default_dict", (fun a -> match a with [] ->
      L [of_umat (Unitaries.coq_U_X fops); of_umat (Unitaries.coq_U_Y fops); of_umat (Unitaries.coq_U_Z fops)]
      | _ -> failwith "args"));
  ("c04_lookup", (fun a -> match a with [user; basis] ->
      L (Stdlib.List.map (fun l -> of_umat (Unitaries.lookup fops (to_user user) l)) (to_basis basis))
      | _ -> failwith "args"));
  (* dictionary resolution: arg / state given as [] (absent) or [user-table]; returns the matrices of the letters *)
  ("c04_lookup_resolved", (fun a -> match a with [arg; state; basis] ->
      let opt x = match to_list x with [] -> None | [u] -> Some (to_user u) | _ -> failwith "option" in
      let d = KronIndex.resolve_dict (opt arg) (opt state) in
      L (Stdlib.List.map (fun l -> of_umat (Unitaries.lookup fops d l)) (to_basis basis))
      | _ -> failwith "args"));
  (* the three renderings of _kron_mult on a vector *)
  ("c04_kron3", (fun a -> match a with [user; basis; x] ->
      let us = Stdlib.List.map (Unitaries.lookup fops (to_user user)) (to_basis basis) in
      let x = to_cvec x in
      L [ of_cvec (KronIndex.kron_index fops us x);
          of_cvec (Unitaries.kron_struct fops us x);
          of_cvec (Unitaries.dense_apply fops us x) ]
      | _ -> failwith "args"));
  ("c04_rotate_psi", (fun a -> match a with [user; basis; psi] ->
      L [ of_copt of_cvec (KronIndex.rotate_psi_index fops (to_user user) (to_basis basis) (to_cvec psi));
          of_cvec (Unitaries.rotate_psi fops (to_user user) (to_basis basis) (to_cvec psi)) ]
      | _ -> failwith "args"));
  ("c04_rotate_rho", (fun a -> match a with [user; basis; rho] ->
      L [ of_copt of_cmat (KronIndex.rotate_rho_index fops (to_user user) (to_basis basis) (to_cmat rho));
          of_cmat (Unitaries.rotate_rho fops (to_user user) (to_basis basis) (to_cmat rho)) ]
      | _ -> failwith "args"));
  ("c04_expansions", (fun a -> match a with [user; basis; states] ->
      let user = to_user user and basis = to_basis basis in
      L (Stdlib.List.map (fun s ->
           let vs = Unitaries.expansions basis s in
           L [ of_bitsl vs; of_cvec (Stdlib.List.map (Unitaries.ut_coeff fops user basis s) vs) ]) (to_bitsl states))
      | _ -> failwith "args"));
  ("c04_inner_prod", (fun a -> match a with [user; basis; psi; states] ->
      let psi = to_cvec psi in
      of_cvec (Unitaries.rotate_psi_inner_prod fops (to_user user) (to_basis basis)
                 (Unitaries.psi_of_array fops psi) (to_bitsl states))
      | _ -> failwith "args"));
  ("c04_rho_probs", (fun a -> match a with [user; basis; rho; states] ->
      let rho = to_cmat rho in
      of_flist (Unitaries.rotate_rho_probs fops (to_user user) (to_basis basis)
                  (Unitaries.rho_of_array fops rho) (to_bitsl states))
      | _ -> failwith "args"));
]
