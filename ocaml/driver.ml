(* driver.ml — reads requests on stdin, answers on stdout (see wire.ml). *)
let () =
  let tbl = Hashtbl.create 64 in
  Stdlib.List.iter (fun t -> Stdlib.List.iter (fun (k, f) -> Hashtbl.replace tbl k f) t) All_regs.tables;
  let buf = Buffer.create 65536 in
  (try
    while true do
      let line = input_line stdin in
      Buffer.clear buf;
      (try
        match Wire.tokenize line with
        | [] -> Buffer.add_string buf "!ERR empty"
        | name :: rest ->
            (match Hashtbl.find_opt tbl name with
             | None -> Buffer.add_string buf ("!ERR unknown function " ^ name)
             | Some f -> Wire.print_value buf (f (Wire.parse_values rest)))
      with
      | Failure m -> Buffer.clear buf; Buffer.add_string buf ("!ERR " ^ m)
      | Stack_overflow -> Buffer.clear buf; Buffer.add_string buf "!ERR stack overflow"
      | e -> Buffer.clear buf; Buffer.add_string buf ("!ERR " ^ Printexc.to_string e));
      print_string (Buffer.contents buf); print_newline ()
    done
  with End_of_file -> ())
