(* C14 — Seeded runs are reproducible and evaluation never alters the model.

   This file is re-checked on every run against QGen.EffectsGen, the effect table that
   harness/translate_effects.py REGENERATES from the Python sources of /repo/qucumber
   (one record per function: atoms of its own body, callees; conservative name-based call
   resolution; fail closed).  It contains
     (1) the computational facts about the generated table  (Proof. vm_compute. reflexivity. Qed.)
         — these are the obligations that break when the source starts to use a foreign
         source of randomness / the clock / the environment / set iteration / an unknown
         module, or when a read-only operation starts to write a parameter;
     (2) their reading as statements quantified over every public operation and every
         function reachable from it through the call graph  (exact <soundness lemma>);
     (3) the semantic corollaries obtained from QTheory.EffectsT (non-interference, frame,
         seeded runs), for EVERY adaptive history of public operations, every value type and
         every environment of function bodies conforming to the table  (exact <lemma>).
   Finite domain of (1),(2): the functions listed in the generated table.

   TRUST: (1) and (2) are facts about the GENERATED EFFECT GRAPH.  The semantic theorems (3) are conditional on
   [bodies_ok V env table] — "every function body performs only the atoms and calls listed in its record" — which
   is exactly the soundness of the translator for the Python sources.  Nothing in Coq discharges that hypothesis:
   translator soundness is TRUSTED (conservative by construction, fail closed) and SAMPLED dynamically by
   harness/checks/c14.py (sources actually hit <= predicted atoms; parameter bytes around read-only operations;
   bit-identity of seeded runs).  "A different seed gives different draws" is not a theorem (dynamic only).       *)
From Coq Require Import List Bool PArith.
From QModel Require Import Effects.
From QTheory Require Import EffectsT EffectsCompleteT.
From QGen Require Import EffectsGen.
Import ListNotations.

(* ------------------------------------------------------------------ (1) computed on the generated table *)
(* ids are 1..n in table order.  (That every class list is non-empty is NOT demanded: moving or renaming a function
   does not touch the property; the check reports empty classes in its evidence only.) *)
Lemma C14_check_table_wellformed : ids_from 1%positive table = true.
Proof. vm_compute. reflexivity. Qed.
Print Assumptions C14_check_table_wellformed.

Lemma C14_check_no_foreign_source : ops_ok foreign_source table ops_public = true.
Proof. vm_compute. reflexivity. Qed.
Print Assumptions C14_check_no_foreign_source.

(* only the seeding operation (set_random_seed) may re-seed / overwrite the state of a torch generator *)
Lemma C14_check_no_reseed_outside_seeding : ops_ok foreign_or_reseed table ops_unseeded = true.
Proof. vm_compute. reflexivity. Qed.
Print Assumptions C14_check_no_reseed_outside_seeding.

Lemma C14_check_read_only : ops_ok foreign_or_write table ops_read_only = true.
Proof. vm_compute. reflexivity. Qed.
Print Assumptions C14_check_read_only.

Lemma C14_check_by_class :
  forallb (fun cr => ops_ok (forbidden (fst cr)) table (snd cr)) ops_by_class = true.
Proof. vm_compute. reflexivity. Qed.
Print Assumptions C14_check_by_class.

(* ------------------------------------------------------------------ (2) read as quantified statements *)
Theorem C14_public_operations_reach_no_foreign_source :
  forall x, In x ops_public -> forall y, reachable table x y ->
  forall r, In r table -> fid r = y -> forall a, In a (fatoms r) -> foreign_source a = false.
Proof. exact (ops_ok_sound table foreign_source ops_public C14_check_no_foreign_source). Qed.
Print Assumptions C14_public_operations_reach_no_foreign_source.

Theorem C14_only_the_seeding_operation_reseeds :
  forall x, In x ops_unseeded -> forall y, reachable table x y ->
  forall r, In r table -> fid r = y -> forall a, In a (fatoms r) -> foreign_or_reseed a = false.
Proof. exact (ops_ok_sound table foreign_or_reseed ops_unseeded C14_check_no_reseed_outside_seeding). Qed.
Print Assumptions C14_only_the_seeding_operation_reseeds.

Theorem C14_read_only_operations_reach_no_parameter_write :
  forall x, In x ops_read_only -> forall y, reachable table x y ->
  forall r, In r table -> fid r = y -> forall a, In a (fatoms r) -> foreign_or_write a = false.
Proof. exact (ops_ok_sound table foreign_or_write ops_read_only C14_check_read_only). Qed.
Print Assumptions C14_read_only_operations_reach_no_parameter_write.

Theorem C14_every_class_respects_its_forbidden_atoms :
  forall c roots, In (c, roots) ops_by_class -> ops_ok (forbidden c) table roots = true.
Proof. exact (fun c roots H => proj1 (forallb_forall _ ops_by_class) C14_check_by_class (c, roots) H). Qed.
Print Assumptions C14_every_class_respects_its_forbidden_atoms.

(* ------------------------------------------------------------------ (3) semantic corollaries *)
(* Reproducibility: any adaptive history of public operations, run in two worlds that agree on
   torch's generator, the clock, the parameters and the files but differ arbitrarily in numpy's
   generator, Python's random, the environment, the hash order and everything unknown, gives the
   same outputs (samples, statistics, trained parameters are outputs / the CParams component). *)
Theorem C14_histories_ignore_foreign_sources :
  forall (V : Type) (env : positive -> V -> prog V), bodies_ok V env table ->
  forall client, direct V [] ops_public client ->
  forall fuel w1 w2, agree_off V D_foreign w1 w2 ->
  res_rel V D_foreign (run V env fuel client w1) (run V env fuel client w2).
Proof.
  exact (fun V env He => noninterference V env table ops_public foreign_source D_foreign He
           C14_check_no_foreign_source foreign_source_touches eq_refl eq_refl).
Qed.
Print Assumptions C14_histories_ignore_foreign_sources.

(* ... and if the history starts with set_random_seed (whose body overwrites the torch generator with a
   function of the seed alone — checked dynamically by the harness), the worlds may differ in the
   torch generator as well. *)
Theorem C14_seeded_histories_are_reproducible :
  forall (V : Type) (env : positive -> V -> prog V), bodies_ok V env table ->
  forall seed (out st : V -> V),
  (forall s, env seed s = Atom V RngTorch (fun _ => (out s, st s)) (fun r => Ret V r)) ->
  forall s rest, (forall r, direct V [] ops_public (rest r)) ->
  forall fuel w1 w2, agree_off V (with_torch D_foreign) w1 w2 ->
  res_rel V D_foreign (run V env fuel (Call V seed s rest) w1) (run V env fuel (Call V seed s rest) w2).
Proof.
  exact (fun V env He seed out st => seeded_noninterference V env table ops_public foreign_source D_foreign seed out st He
           C14_check_no_foreign_source foreign_source_touches eq_refl eq_refl).
Qed.
Print Assumptions C14_seeded_histories_are_reproducible.

(* Evaluation never alters the model: every terminating history of read-only operations (sampling,
   statistics, observables, metrics, rotations, save, gradients, probability/psi/rho, complex kernel,
   data loading) leaves the parameter component exactly as it was. *)
Theorem C14_read_only_histories_preserve_parameters :
  forall (V : Type) (env : positive -> V -> prog V), bodies_ok V env table ->
  forall client, direct V [] ops_read_only client ->
  forall fuel w o w', run V env fuel client w = Some (o, w') -> w' CParams = w CParams.
Proof.
  exact (fun V env He => frame V env table ops_read_only foreign_or_write CParams He C14_check_read_only
           (fun a H => param_write_touches a (foreign_or_write_param a H))).
Qed.
Print Assumptions C14_read_only_histories_preserve_parameters.

(* The general theorems behind the corollaries above (all tables, all sets D of components, all
   predicates [bad] covering "touches D"): usable for any further component, e.g. torch's generator
   for operations whose closure lacks RngTorch, or the clock for operations lacking Clock/ClockTimer. *)
Theorem C14_noninterference_general :
  forall (V : Type) (env : positive -> V -> prog V) tbl roots bad D,
  bodies_ok V env tbl -> ops_ok bad tbl roots = true ->
  (forall a, bad a = false -> touches D a = false) -> D CParams = false -> D CFiles = false ->
  forall client, direct V [] roots client ->
  forall fuel w1 w2, agree_off V D w1 w2 -> res_rel V D (run V env fuel client w1) (run V env fuel client w2).
Proof. exact noninterference. Qed.
Print Assumptions C14_noninterference_general.

Theorem C14_frame_general :
  forall (V : Type) (env : positive -> V -> prog V) tbl roots bad X,
  bodies_ok V env tbl -> ops_ok bad tbl roots = true ->
  (forall a, bad a = false -> touches (fun c => comp_eqb c X) a = false) ->
  forall client, direct V [] roots client ->
  forall fuel w o w', run V env fuel client w = Some (o, w') -> w' X = w X.
Proof. exact frame. Qed.
Print Assumptions C14_frame_general.

(* The closure computation is sound whatever table it is given (proved once, all tables). *)
Theorem C14_closure_is_sound :
  forall tbl roots A, closure_atoms tbl roots = Some A ->
  forall x, In x roots -> forall y, reachable tbl x y ->
  forall r, In r tbl -> fid r = y -> forall a, In a (fatoms r) -> In a A.
Proof. exact closure_sound. Qed.
Print Assumptions C14_closure_is_sound.

(* The search never gives up (proved for all tables in QTheory.EffectsCompleteT: with fuel S (length tbl) the
   depth-first search returns a set that contains the roots and is closed, so the self-check of closure_atoms
   always succeeds).  Hence roots_ok / ops_ok answer false only because of a bad atom that really is reachable. *)
Theorem C14_closure_is_complete : forall tbl roots, closure_atoms tbl roots <> None.
Proof. exact closure_atoms_complete. Qed.
Print Assumptions C14_closure_is_complete.

(* the same fact, by computation, on the generated table (kept from before the general proof existed) *)
Lemma C14_closure_defined_on_generated_table_partial :
  forallb (fun x => match closure_atoms table [x] with Some _ => true | None => false end) ops_public = true.
Proof. vm_compute. reflexivity. Qed.
Print Assumptions C14_closure_defined_on_generated_table_partial.

(* The hypotheses are satisfiable and necessary: in the example table an operation whose closure has
   only RngTorch is non-interfering, and one with RngNumpy really depends on numpy's state. *)
Theorem C14_example_nonvacuous :
  (exists w', run nat Example.env 5%nat (Call nat 1%positive 3%nat (fun r => Ret nat r)) Example.w0 = Some ((7 + (100 + 7))%nat, w')) /\
  ops_ok foreign_source Example.tbl [3%positive] = false /\
  (exists w', run nat Example.env 5%nat (Call nat 3%positive 0%nat (fun r => Ret nat r)) Example.w1 = Some (55%nat, w')) /\
  run nat Example.env 5%nat (Call nat 3%positive 0%nat (fun r => Ret nat r)) Example.w0 = Some (0%nat, upd nat Example.w0 CNumpy 1%nat).
Proof.
  exact (conj Example.sample_runs (conj Example.check_np_fails
          (conj (proj2 (proj2 Example.numpy_atom_interferes)) (proj1 (proj2 Example.numpy_atom_interferes))))).
Qed.
Print Assumptions C14_example_nonvacuous.
