(* C10 — Fidelity, KL divergence and NLL report the quantities they are named for.
   Only theorem statements closed by [exact <lemma>] and [Print Assumptions].
   Model: QModel.Metrics (utils/training_statistics.py) over QModel.Unitaries / CBase at T := R;
   proofs: QTheory.MetricsR.

   Reading guide.  [cn2 z] = |z|^2.  [overlap t psi] = sum_i conj(t_i) psi_i.  [rdiv c z] = z / c (real c).
   [in_range p] = eps <= p <= 1 - eps with eps = 2^-52: the interval on which torch's probs_to_logits
   (modelled with its clamp as [plogit]) IS the logarithm.  [kl_div t q] = sum_i t_i ln(t_i / q_i).
   [born user st Z b s] = rotated Born probability of outcome s in basis b (Unitaries.inner_prod1 /
   rho_prob1, which C04 identifies with the dense Kronecker form) divided by Z, for EVERY basis.

   NOT PROVED HERE (correspondence/oracle-tested only, see harness/checks/c10.py): that the mixed-state
   fidelity (sum_i sqrt|Re lambda_i(target . rho/Z)|)^2 equals Uhlmann's fidelity
   (tr sqrt(sqrt(t) rho sqrt(t)))^2 and lies in [0,1], and that it is 1 against the state's own rho/Z.
   The installed libraries have no spectral theory of matrix square roots; the eigenvalue routine is a
   function parameter of the model ([eig]), never an axiom.  C10_fidelity_mixed_partial states exactly what
   is proved about that path.  Floating-point effects (incl. the clamp of probs_to_logits outside
   [in_range]) are not part of the theorems.

   RANGE OF THE KL / NLL THEOREMS.  Every KL and NLL equality / inequality below is stated for probabilities in
   [2^-52, 1 - 2^-52] ([in_range]; hypotheses [dists_ok], [sample_ok]); the [..._zero_extended] theorems
   additionally admit target probabilities that are EXACTLY 0 ([dists_ok0]: basis states, GHZ-like targets),
   because the clamp gives t * plogit t = 0 at t = 0.  Probabilities in (0, 2^-52) or (1 - 2^-52, 1] — in
   particular a target or model probability that is exactly 1, or a model probability that is exactly 0 — are
   EXCLUDED from every theorem (there plogit is not ln: plogit 1 = ln (1 - 2^-52), plogit 0 = ln 2^-52); on such
   inputs "KL = mean basis KL", "KL >= 0" and "NLL = -mean ln Born" are covered by the numpy oracle of
   harness/checks/c10.py only (basis-state and GHZ targets are generated there), within 1e-9.
   "Returns a plain real number on every code path" rests on the check's type test of the real return values
   (is_plain_number on every call form incl. the deprecated target_psi= / target_rho= keywords);
   C10_metrics_return_plain_numbers only restates that the model tags every path PlainNumber.
   Guards: no statement relies on x / 0 = 0, on an empty list of bases / samples, or on the truncating zip of
   lists of different lengths (hypotheses 0 < Z, bases <> [], samples <> [], length t = length psi).
   States without a unitary dictionary (PositiveWaveFunction, /repo c22f10c) use create_dict(): in the model the
   letters X, Y, Z always denote the default matrices (Unitaries.lookup), [user] only carries added ones.

   TARGET (not proved): forall target rho Z, density matrices target, rho/Z ->
       fst (fidelity_mixed ROps eigenvalues target rho Z) = uhlmann_fidelity target (rho / Z) /\ 0 <= it <= 1.
   Missing: a formalised spectrum / positive square root of Hermitian matrices. *)
From Coq Require Import List Reals Permutation.
From QModel Require Import Num Bits Rbm States CBase Unitaries Metrics.
From QTheory Require Import RInst MetricsR.
Import ListNotations.
Open Scope R_scope.

(* ---------------------------------------------------------------- 1. fidelity of wavefunctions *)
Theorem C10_fidelity_pure_is_overlap : forall t psi Z,
  length t = length psi -> 0 < Z -> fst (fidelity_pure ROps t psi Z) = cn2 (overlap t psi) / Z.
Proof. exact fidelity_pure_is_overlap_g. Qed.
Print Assumptions C10_fidelity_pure_is_overlap.

(* the model's inner product conjugates its FIRST argument *)
Theorem C10_inner_prod_is_overlap : forall t psi, inner_prod ROps t psi = overlap t psi.
Proof. exact inner_prod_overlap. Qed.
Print Assumptions C10_inner_prod_is_overlap.

Theorem C10_cauchy_schwarz : forall t psi : list (R * R),
  cn2 (overlap t psi) <= sum ROps (map cn2 t) * sum ROps (map cn2 psi).
Proof. exact cauchy_schwarz. Qed.
Print Assumptions C10_cauchy_schwarz.

Theorem C10_fidelity_pure_in_unit_interval : forall t psi Z,
  length t = length psi -> sum ROps (map cn2 t) = 1 -> sum ROps (map cn2 psi) = Z -> 0 < Z ->
  0 <= fst (fidelity_pure ROps t psi Z) <= 1.
Proof. exact fidelity_pure_in_unit_interval_g. Qed.
Print Assumptions C10_fidelity_pure_in_unit_interval.

(* ... and the hypotheses on (psi, Z) hold for the tables of real wavefunction states (C01) *)
Theorem C10_fidelity_unit_interval_complex_state : forall am ph n t,
  sum ROps (map cn2 t) = 1 ->
  0 <= fst (fidelity_pure ROps t (map (cplx_psi ROps am ph) (all_bits n)) (normalization ROps am (all_bits n))) <= 1.
Proof. exact fidelity_unit_interval_complex_state. Qed.
Print Assumptions C10_fidelity_unit_interval_complex_state.

Theorem C10_fidelity_unit_interval_positive_state : forall am n t,
  sum ROps (map cn2 t) = 1 ->
  0 <= fst (fidelity_pure ROps t (map (pos_psi ROps am) (all_bits n)) (normalization ROps am (all_bits n))) <= 1.
Proof. exact fidelity_unit_interval_positive_state. Qed.
Print Assumptions C10_fidelity_unit_interval_positive_state.

Theorem C10_fidelity_pure_self : forall psi Z,
  sum ROps (map cn2 psi) = Z -> 0 < Z ->
  fst (fidelity_pure ROps (map (rdiv (sqrt Z)) psi) psi Z) = 1.
Proof. exact fidelity_pure_self. Qed.
Print Assumptions C10_fidelity_pure_self.

Theorem C10_fidelity_pure_global_phase_invariant : forall theta t psi Z,
  length t = length psi -> 0 < Z ->
  fidelity_pure ROps (map (cmul ROps (cexp_i ROps theta)) t) psi Z = fidelity_pure ROps t psi Z.
Proof. exact fidelity_pure_global_phase_invariant_g. Qed.
Print Assumptions C10_fidelity_pure_global_phase_invariant.

(* ---------------------------------------------------------------- 2. KL *)
Theorem C10_plogit_is_ln_in_range : forall p, in_range p -> plogit ROps p = ln p.
Proof. exact plogit_in_range. Qed.
Print Assumptions C10_plogit_is_ln_in_range.

Theorem C10_single_basis_KL_is_kl_div : forall t q,
  length t = length q -> Forall in_range t -> Forall in_range q ->
  single_basis_KL ROps t q = kl_div t q.
Proof. exact single_basis_KL_is_kl_div. Qed.
Print Assumptions C10_single_basis_KL_is_kl_div.

Theorem C10_dists_ok_implies_dists_ok0 : forall T Q, dists_ok T Q -> dists_ok0 T Q.
Proof. exact dists_ok_weaken. Qed.
Print Assumptions C10_dists_ok_implies_dists_ok0.

Theorem C10_single_basis_KL_is_kl_div_zero_extended : forall t q,
  length t = length q -> Forall zero_or_range t -> Forall in_range q ->
  single_basis_KL ROps t q = kl_div t q.
Proof. exact single_basis_KL_is_kl_div0. Qed.
Print Assumptions C10_single_basis_KL_is_kl_div_zero_extended.

Theorem C10_kl_is_mean_of_basis_kl_pure : forall user tgt psi Z bases,
  bases <> [] ->
  (forall b, In b bases -> dists_ok0 (target_dist_pure tgt b) (model_dist_pure user psi Z b)) ->
  fst (kl_bases_pure ROps user tgt psi Z bases) =
  mean_over (fun b => kl_div (target_dist_pure tgt b) (model_dist_pure user psi Z b)) bases.
Proof. exact kl_pure_is_mean_of_basis_kl0. Qed.
Print Assumptions C10_kl_is_mean_of_basis_kl_pure.

Theorem C10_kl_is_mean_of_basis_kl_mixed : forall user tgt rho Z space bases,
  bases <> [] ->
  (forall b, In b bases -> dists_ok0 (tgt b) (model_dist_mixed user rho Z space b)) ->
  fst (kl_bases_mixed ROps user tgt rho Z space bases) =
  mean_over (fun b => kl_div (tgt b) (model_dist_mixed user rho Z space b)) bases.
Proof. exact kl_mixed_is_mean_of_basis_kl0. Qed.
Print Assumptions C10_kl_is_mean_of_basis_kl_mixed.

Theorem C10_kl_none_is_kl : forall pr Z space,
  (forall target, let T := map cn2 target in let Q := map (fun v => pr v / Z) space in
     dists_ok0 T Q -> fst (kl_none_pure ROps target pr Z space) = kl_div T Q) /\
  (forall target, let T := diag_real ROps target in let Q := map (fun v => pr v / Z) space in
     dists_ok0 T Q -> fst (kl_none_mixed ROps target pr Z space) = kl_div T Q).
Proof. intros pr Z space; split; intros target; [exact (kl_none_pure_is_kl0 target pr Z space) | exact (kl_none_mixed_is_kl0 target pr Z space)]. Qed.
Print Assumptions C10_kl_none_is_kl.

(* Gibbs' inequality for arbitrary positive lists of equal length and equal total *)
Theorem C10_gibbs_inequality : forall t q,
  length t = length q -> Forall (fun x => 0 <= x) t -> Forall (fun x => 0 < x) q ->
  sum ROps t = sum ROps q -> 0 <= kl_div t q.
Proof. exact kl_div_nonneg0. Qed.
Print Assumptions C10_gibbs_inequality.

Theorem C10_kl_nonneg_pure : forall user tgt psi Z bases,
  bases <> [] ->
  (forall b, In b bases -> dists_ok0 (target_dist_pure tgt b) (model_dist_pure user psi Z b)) ->
  (forall b, In b bases -> sum ROps (target_dist_pure tgt b) = 1 /\ sum ROps (model_dist_pure user psi Z b) = 1) ->
  0 <= fst (kl_bases_pure ROps user tgt psi Z bases).
Proof. exact kl_pure_nonneg0. Qed.
Print Assumptions C10_kl_nonneg_pure.

Theorem C10_kl_nonneg_mixed : forall user tgt rho Z space bases,
  bases <> [] ->
  (forall b, In b bases -> dists_ok0 (tgt b) (model_dist_mixed user rho Z space b)) ->
  (forall b, In b bases -> sum ROps (tgt b) = 1 /\ sum ROps (model_dist_mixed user rho Z space b) = 1) ->
  0 <= fst (kl_bases_mixed ROps user tgt rho Z space bases).
Proof. exact kl_mixed_nonneg0. Qed.
Print Assumptions C10_kl_nonneg_mixed.

Theorem C10_kl_nonneg_none : forall pr Z space,
  (forall target, let T := map cn2 target in let Q := map (fun v => pr v / Z) space in
     dists_ok0 T Q -> sum ROps T = 1 -> sum ROps Q = 1 -> 0 <= fst (kl_none_pure ROps target pr Z space)) /\
  (forall target, let T := diag_real ROps target in let Q := map (fun v => pr v / Z) space in
     dists_ok0 T Q -> sum ROps T = 1 -> sum ROps Q = 1 -> 0 <= fst (kl_none_mixed ROps target pr Z space)).
Proof. intros pr Z space; split; intros target; [exact (kl_none_nonneg_pure0 target pr Z space) | exact (kl_none_nonneg_mixed0 target pr Z space)]. Qed.
Print Assumptions C10_kl_nonneg_none.

(* self-KL = 0 in EVERY list of bases (no range hypothesis needed): the target is the state's own
   normalised vector / matrix, rotated by the code's own rotation *)
Theorem C10_kl_self_zero_pure : forall user psi Z bases,
  bases <> [] -> 0 < Z ->
  fst (kl_bases_pure ROps user (tgt_rotate_psi ROps user (map (rdiv (sqrt Z)) psi)) psi Z bases) = 0.
Proof. exact kl_pure_self_zero_g. Qed.
Print Assumptions C10_kl_self_zero_pure.

Theorem C10_kl_self_zero_mixed : forall user (rho : bits -> bits -> R * R) Z space bases,
  bases <> [] -> 0 < Z ->
  fst (kl_bases_mixed ROps user (tgt_rotate_rho ROps user (fun v v' => rdiv Z (rho v v')) space) rho Z space bases) = 0.
Proof. exact kl_mixed_self_zero_g. Qed.
Print Assumptions C10_kl_self_zero_mixed.

(* dictionary targets (or any target): equal distributions in every requested basis give 0 *)
Theorem C10_kl_zero_of_equal_dists : forall user Z bases,
  bases <> [] ->
  (forall tgt psi, (forall b, In b bases -> target_dist_pure tgt b = model_dist_pure user psi Z b) ->
     fst (kl_bases_pure ROps user tgt psi Z bases) = 0) /\
  (forall tgt rho space, (forall b, In b bases -> tgt b = model_dist_mixed user rho Z space b) ->
     fst (kl_bases_mixed ROps user tgt rho Z space bases) = 0).
Proof.
  intros user Z bases Hne; split; [intros tgt psi; exact (kl_pure_zero_of_equal_dists_g user tgt psi Z bases Hne)
                              | intros tgt rho space; exact (kl_mixed_zero_of_equal_dists_g user tgt rho Z space bases Hne)].
Qed.
Print Assumptions C10_kl_zero_of_equal_dists.

Theorem C10_kl_self_zero_none : forall pr Z space,
  (forall psi : bits -> R * R, 0 < Z -> (forall v, In v space -> pr v = cn2 (psi v)) ->
     fst (kl_none_pure ROps (map (fun v => rdiv (sqrt Z) (psi v)) space) pr Z space) = 0) /\
  (forall target, diag_real ROps target = map (fun v => pr v / Z) space ->
     fst (kl_none_mixed ROps target pr Z space) = 0).
Proof. intros pr Z space; split; [intros psi; exact (kl_none_pure_self_zero psi pr Z space) | intros target; exact (kl_none_mixed_self_zero target pr Z space)]. Qed.
Print Assumptions C10_kl_self_zero_none.

(* ---------------------------------------------------------------- 3. NLL *)
(* any grouping: any list of (basis, rows) groups whose flattening is a permutation of the batch *)
Theorem C10_nll_is_mean_neg_log_born : forall user st pr Z groups samples,
  samples <> [] -> 0 < Z ->
  Permutation (flatten_groups groups) samples ->
  (forall bs, In bs samples -> sample_ok user st pr Z bs) ->
  fst (nll_groups ROps user st pr Z groups (length samples)) = mean_neg_log_born user st Z samples.
Proof. exact nll_groups_is_mean_neg_log_born_g. Qed.
Print Assumptions C10_nll_is_mean_neg_log_born.

(* the code's grouping (one group per unique basis row, in any order of the unique rows) *)
Theorem C10_nll_bases_is_mean_neg_log_born : forall user st pr Z ub samples,
  samples <> [] -> 0 < Z ->
  (forall bs, In bs samples -> count_basis ub (fst bs) = 1%nat) ->
  (forall bs, In bs samples -> sample_ok user st pr Z bs) ->
  fst (nll_bases ROps user st pr Z ub samples) = mean_neg_log_born user st Z samples.
Proof. exact nll_bases_is_mean_neg_log_born_g. Qed.
Print Assumptions C10_nll_bases_is_mean_neg_log_born.

Theorem C10_nll_bases_auto_is_mean_neg_log_born : forall user st pr Z samples,
  samples <> [] -> 0 < Z ->
  (forall bs, In bs samples -> sample_ok user st pr Z bs) ->
  fst (nll_bases_auto ROps user st pr Z samples) = mean_neg_log_born user st Z samples.
Proof. exact nll_bases_auto_is_mean_neg_log_born_g. Qed.
Print Assumptions C10_nll_bases_auto_is_mean_neg_log_born.

(* all-Z rows: the rotated Born probability is the computational-basis probability *)
Theorem C10_born_allZ : forall user st Z b s,
  0 < Z -> all_Z b = true -> length b = length s -> born user st Z b s = diag_prob st s / Z.
Proof. exact born_allZ_g. Qed.
Print Assumptions C10_born_allZ.

Theorem C10_nll_plain_is_mean_neg_log : forall pr Z samples,
  samples <> [] -> 0 < Z ->
  (forall s, In s samples -> in_range (pr s / Z)) ->
  fst (nll_plain ROps pr Z samples) = - (sum ROps (map (fun s => ln (pr s / Z)) samples)) / INR (length samples).
Proof. exact nll_plain_is_mean_neg_log_g. Qed.
Print Assumptions C10_nll_plain_is_mean_neg_log.

(* ---------------------------------------------------------------- 4. result kinds *)
(* definitional: restates the model (every path of Metrics.v is tagged PlainNumber by construction; the clause
   "returns a plain real number" is established by the check's type test on the implementation, not by this) *)
Theorem C10_metrics_return_plain_numbers : forall (T : Type) (O : NumOps T),
  (forall t psi Z, snd (fidelity_pure O t psi Z) = PlainNumber) /\
  (forall eig t rho Z, snd (fidelity_mixed O eig t rho Z) = PlainNumber) /\
  (forall pr Z samples, snd (nll_plain O pr Z samples) = PlainNumber) /\
  (forall user st pr Z groups N, snd (nll_groups O user st pr Z groups N) = PlainNumber) /\
  (forall user st pr Z ub samples, snd (nll_bases O user st pr Z ub samples) = PlainNumber) /\
  (forall user st pr Z samples, snd (nll_bases_auto O user st pr Z samples) = PlainNumber) /\
  (forall t pr Z space, snd (kl_none_pure O t pr Z space) = PlainNumber) /\
  (forall t pr Z space, snd (kl_none_mixed O t pr Z space) = PlainNumber) /\
  (forall user tgt psi Z bases, snd (kl_bases_pure O user tgt psi Z bases) = PlainNumber) /\
  (forall user tgt rho Z space bases, snd (kl_bases_mixed O user tgt rho Z space bases) = PlainNumber).
Proof. exact metrics_return_plain_numbers. Qed.
Print Assumptions C10_metrics_return_plain_numbers.

(* ---------------------------------------------------------------- 5. fidelity of density matrices (partial) *)
(* definitional: restates the model (unfolds fidelity_mixed); the matrix-entry theorem after it is not *)
Theorem C10_fidelity_mixed_partial : forall (eig : list (list (R * R)) -> list (R * R)) target rho Z,
  let M := cmatmul ROps target (map (map (rdiv Z)) rho) in
  let S := sum ROps (map (fun l => sqrt (Rabs (fst l))) (eig M)) in
  fst (fidelity_mixed ROps eig target rho Z) = S * S.
Proof. exact fidelity_mixed_partial. Qed.
Print Assumptions C10_fidelity_mixed_partial.

Theorem C10_fidelity_mixed_matrix_entry : forall (a b : list (list (R * R))) i j,
  (i < length a)%nat -> (j < length b)%nat ->
  nth j (nth i (cmatmul ROps a b) []) (c0 ROps) =
  cdot ROps (nth i a []) (map (fun row => nth j row (c0 ROps)) b).
Proof. exact cmatmul_entry. Qed.
Print Assumptions C10_fidelity_mixed_matrix_entry.

(* ---------------------------------------------------------------- non-vacuity of the hypotheses *)
Theorem C10_hypotheses_satisfiable :
  (let t := [(1, 0)] in let psi := [(2, 0)] in
   sum ROps (map cn2 t) = 1 /\ sum ROps (map cn2 psi) = 4 /\ 0 < 4) /\
  (let T := [/ 2; / 2] in let Q := [/ 4; 3 / 4] in
   dists_ok T Q /\ sum ROps T = 1 /\ sum ROps Q = 1).
Proof. exact (conj unit_interval_hyps_satisfiable kl_hyps_satisfiable). Qed.
Print Assumptions C10_hypotheses_satisfiable.

Theorem C10_nll_hypotheses_satisfiable :
  let st := PureTab psi_ex in let pr := fun _ : bits => 1 in
  let samples := [([LX], [false]); ([LZ], [true]); ([LX], [true])] in
  (forall bs, In bs samples -> sample_ok [] st pr 2 bs) /\
  (forall bs, In bs samples -> count_basis [[LZ]; [LX]] (fst bs) = 1%nat).
Proof. exact nll_hyps_satisfiable. Qed.
Print Assumptions C10_nll_hypotheses_satisfiable.

(* ---------------------------------------------------------------------------------------------
   Links to C04 / C01 / C02 (QTheory.KronR, Born, Rho; proofs: QTheory.Links, module L4).
   [basis_ok user n b]: b has n letters and every per-site matrix of b in the dictionary is unitary
   (QTheory.KronR.unitary2: U U^dagger = I) — true for EVERY string over the default dictionary X, Y, Z.
   For the model's own states (tables over all 2^n basis states, Z = the state's normalisation) C04's
   norm / trace preservation makes the model-side Born distribution sum to one in every such basis,
   which discharges the "both distributions sum to 1" hypothesis of C10_kl_nonneg_pure / _mixed:
   KL >= 0 for any target whose distribution sums to one; only the in-range hypotheses remain. *)
From QTheory Require KronR Links.
Import Links.L4.

Theorem C10_kl_nonneg_model_wavefunctions : forall user (am ph : brbm) n tgt bases,
  (forall b, In b bases -> basis_ok user n b) ->
  (forall b, In b bases -> sum ROps (target_dist_pure tgt b) = 1) ->
  let Z := normalization ROps am (all_bits n) in
  let pc := map (cplx_psi ROps am ph) (all_bits n) in       (* ComplexWaveFunction *)
  let pp := map (pos_psi ROps am) (all_bits n) in           (* PositiveWaveFunction *)
  ((forall b, In b bases -> dists_ok (target_dist_pure tgt b) (model_dist_pure user pc Z b)) ->
   (forall b, In b bases -> sum ROps (model_dist_pure user pc Z b) = 1) /\
   0 <= fst (kl_bases_pure ROps user tgt pc Z bases)) /\
  ((forall b, In b bases -> dists_ok (target_dist_pure tgt b) (model_dist_pure user pp Z b)) ->
   (forall b, In b bases -> sum ROps (model_dist_pure user pp Z b) = 1) /\
   0 <= fst (kl_bases_pure ROps user tgt pp Z bases)).
Proof. exact Links.L4.kl_nonneg_wavefunctions. Qed.
Print Assumptions C10_kl_nonneg_model_wavefunctions.

(* density matrix: the rotated probabilities sum to tr rho, which C02 identifies with dm_normalization
   (the two length hypotheses are C02's shape guards) *)
Theorem C10_kl_nonneg_model_density_matrix : forall user (am ph : prbm) n tgt bases,
  length (pU am) = length (pd am) -> length (pU ph) = length (pU am) ->
  (forall b, In b bases -> basis_ok user n b) ->
  (forall b, In b bases -> sum ROps (tgt b) = 1) ->
  let Z := dm_normalization ROps am (all_bits n) in
  let rho := dm_rho ROps am ph in
  (forall b, In b bases -> dists_ok (tgt b) (model_dist_mixed user rho Z (all_bits n) b)) ->
  (forall b, In b bases -> sum ROps (model_dist_mixed user rho Z (all_bits n) b) = 1) /\
  0 <= fst (kl_bases_mixed ROps user tgt rho Z (all_bits n) bases).
Proof. exact Links.L4.kl_nonneg_density_matrix. Qed.
Print Assumptions C10_kl_nonneg_model_density_matrix.

Theorem C10_default_bases_are_ok : forall user n (b : list letter),
  (length b = n /\ Forall KronR.unitary2 (map (lookup ROps user) b) <-> basis_ok user n b) /\
  (length b = n -> Forall (fun a => match a with LU _ => False | _ => True end) b -> basis_ok user n b).
Proof. exact (fun user n b => conj (iff_refl _) (Links.L4.default_basis_ok user n b)). Qed.
Print Assumptions C10_default_bases_are_ok.

Theorem C10_zero_extended_hypotheses_satisfiable :
  let T := [/ 2; 0; 0; / 2] in let Q := [/ 4; / 4; / 4; / 4] in
  dists_ok0 T Q /\ sum ROps T = 1 /\ sum ROps Q = 1 /\ ~ dists_ok T Q.
Proof. exact kl_hyps0_satisfiable. Qed.
Print Assumptions C10_zero_extended_hypotheses_satisfiable.
