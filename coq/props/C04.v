(* C04 — Measurement-basis rotations equal the tensor-product unitary they denote.
   Only theorem statements closed by [exact <lemma>] and [Print Assumptions].
   Model: QModel.Unitaries (structural sweep, fast paths, dictionary) and QModel.KronIndex
   (the k / i / slice loops of _kron_mult on a flat list) at T := R; complex numbers are pairs.
   Reading aids (definitions in theory/KronR.v):
     dense_fun us psi s        = sum_{s'} (prod_j U_j[s_j, s'_j]) psi(s')                  -- (U psi)(s)
     UrhoUdag_fun us rho s t   = sum_a U(s,a) sum_b rho(a,b) conj(U(t,b))                  -- (U rho U^dagger)(s,t)
     rho_mat n f               = the 2^n x 2^n array of f over all_bits n (rows = first argument)
     psi_of_array / rho_of_array read a flat array / matrix at idx s
     m2mul, m2dag, m2id, unitary2 (U U^dagger = I), pauli_X/Y/Z                             -- 2x2 algebra *)
From Coq Require Import List Reals.
From QModel Require Import Num Bits CBase Unitaries KronIndex.
From QTheory Require Import RInst SumBits KronR.
Import ListNotations.
Open Scope R_scope.

Local Notation cxR := (cx (T:=R)).
Local Notation umatR := (umat (T:=R)).

(* Several clauses are bundled as conjunctions: every Print Assumptions walks the whole Reals closure
   (about 1.5 s each), and the check re-runs this file on every invocation. *)

(* ---- 1. the structural sweep is the dense Kronecker product, for every number of sites:
        as vectors, and entry idx s = sum_s' (prod_j U_j[s_j,s'_j]) x[idx s'] ---- *)
Theorem C04_kron_struct_is_dense : forall (us : list umatR) (x : list cxR),
  length x = (2 ^ length us)%nat ->
  kron_struct ROps us x = dense_apply ROps us x /\
  (forall s, length s = length us ->
     psi_of_array ROps (kron_struct ROps us x) s
     = csum_bits (length us) (fun s' => cmul ROps (kron_entry ROps us s s') (psi_of_array ROps x s'))).
Proof. exact (fun us x H => conj (kron_struct_is_dense us x H) (fun s Hs => kron_struct_entry us x s H Hs)). Qed.
Print Assumptions C04_kron_struct_is_dense.

(* ---- 2. the index-level loops (what the code executes) refine the structural sweep ---- *)
Theorem C04_kron_index_refines_struct : forall (us : list umatR) (x : list cxR),
  length x = (2 ^ length us)%nat -> kron_index ROps us x = kron_struct ROps us x.
Proof. exact kron_index_refines_struct. Qed.
Print Assumptions C04_kron_index_refines_struct.

(* guard + loops = dense product or rejection; rotate_psi / rotate_rho through the loops = the structural model *)
Theorem C04_index_level_functions :
  (forall (us : list umatR) (x : list cxR),
     kron_mult ROps us x = if Nat.eqb (2 ^ length us) (length x) then Some (dense_apply ROps us x) else None) /\
  (forall user basis (psi : list cxR), length psi = (2 ^ length basis)%nat ->
     rotate_psi_index ROps user basis psi = Some (rotate_psi ROps user basis psi)) /\
  (forall user basis (rho : list (list cxR)), length rho = (2 ^ length basis)%nat ->
     rotate_rho_index ROps user basis rho = Some (rotate_rho ROps user basis rho)).
Proof. exact (conj kron_mult_spec (conj rotate_psi_index_spec rotate_rho_index_spec)). Qed.
Print Assumptions C04_index_level_functions.

(* ---- 3. rotate_rho = U rho U^dagger for EVERY complex matrix, Hermitian or not (as a function of two basis
        states, and for every well-shaped explicit array).  Before the repair 209e65c of /repo this held for
        Hermitian matrices only (the code returned the adjoint of the rotated matrix). ---- *)
Theorem C04_rotate_rho_is_UrhoUdag :
  (forall user basis (f : bits -> bits -> cxR),
     rotate_rho ROps user basis (rho_mat (length basis) f)
     = rho_mat (length basis) (UrhoUdag_fun (map (lookup ROps user) basis) f)) /\
  (forall user basis (arr : list (list cxR)),
     length arr = (2 ^ length basis)%nat -> Forall (fun row => length row = (2 ^ length basis)%nat) arr ->
     rotate_rho ROps user basis arr
     = rho_mat (length basis) (UrhoUdag_fun (map (lookup ROps user) basis) (rho_of_array ROps arr))).
Proof. exact (conj rotate_rho_is_UrhoUdag rotate_rho_explicit). Qed.
Print Assumptions C04_rotate_rho_is_UrhoUdag.

(* ---- 4. inner-product fast path: summing over the expansions only = the full dense row
        (lookup maps Z to the identity by definition: C04_default_dict below); one outcome, and any batch ---- *)
Theorem C04_inner_prod_fastpath :
  (forall user basis (psi : bits -> cxR) s, length s = length basis ->
     inner_prod1 ROps user basis psi s = dense_fun (map (lookup ROps user) basis) psi s) /\
  (forall user basis (psi : bits -> cxR) states, Forall (fun s => length s = length basis) states ->
     rotate_psi_inner_prod ROps user basis psi states = map (dense_fun (map (lookup ROps user) basis) psi) states).
Proof. exact (conj inner_prod_fastpath inner_prod_fastpath_batch). Qed.
Print Assumptions C04_inner_prod_fastpath.

(* explicit psi: the fast path returns the entries (at idx s) of the swept vector *)
Theorem C04_inner_prod_fastpath_explicit : forall user basis (arr : list cxR) states,
  length arr = (2 ^ length basis)%nat ->
  Forall (fun s => length s = length basis) states ->
  rotate_psi_inner_prod ROps user basis (psi_of_array ROps arr) states
  = map (psi_of_array ROps (rotate_psi ROps user basis arr)) states.
Proof. exact inner_prod_fastpath_explicit. Qed.
Print Assumptions C04_inner_prod_fastpath_explicit.

(* ---- 5. rotated Born probabilities of a density matrix: Re (U rho U^dagger)[s,s] ---- *)
Theorem C04_rho_probs_fastpath_model : forall user basis (rho : bits -> bits -> cxR) states,
  Forall (fun s => length s = length basis) states ->
  rotate_rho_probs ROps user basis rho states
  = map (fun s => fst (UrhoUdag_fun (map (lookup ROps user) basis) rho s s)) states.
Proof. exact rho_probs_fastpath_batch. Qed.
Print Assumptions C04_rho_probs_fastpath_model.

Theorem C04_rho_probs_fastpath_explicit : forall user basis (arr : list (list cxR)) states,
  length arr = (2 ^ length basis)%nat -> Forall (fun row => length row = (2 ^ length basis)%nat) arr ->
  Forall (fun s => length s = length basis) states ->
  rotate_rho_probs ROps user basis (rho_of_array ROps arr) states
  = map (fun s => fst (rho_of_array ROps (rotate_rho ROps user basis arr) s s)) states.
Proof. exact rho_probs_fastpath_explicit. Qed.
Print Assumptions C04_rho_probs_fastpath_explicit.

(* ---- 6a. which dictionary a rotation uses: the unitaries= argument, else the state's dictionary, else
        create_dict() (= the empty user table); with neither, X, Y, Z denote their defaults whatever
        table one compares with.  (* definitional: restates the model *) ---- *)
Theorem C04_dictionary_resolution :
  (forall arg state : option (list umatR),
     resolve_dict arg state = match arg, state with Some d, _ => d | None, Some d => d | None, None => [] end) /\
  (forall a, (forall k, a <> LU k) -> forall user, lookup ROps (resolve_dict None None) a = lookup ROps user a).
Proof. exact (conj resolve_dict_spec resolve_none_is_default). Qed.
Print Assumptions C04_dictionary_resolution.

(* ---- 6. the default dictionary: Z is the identity (* this conjunct is definitional: lookup _ LZ := U_Z *); X, Y, Z are unitary; rows are the bras of the
        +1 / -1 eigenvectors, in that order:  U_b P_b = diag(1,-1) U_b ---- *)
Theorem C04_default_dict :
  (forall user, lookup ROps user LZ = m2id) /\
  (unitary2 (U_X ROps) /\ unitary2 (U_Y ROps) /\ unitary2 (U_Z ROps)) /\
  (m2mul (U_X ROps) pauli_X = m2mul pauli_Z (U_X ROps) /\
   m2mul (U_Y ROps) pauli_Y = m2mul pauli_Z (U_Y ROps) /\
   m2mul (U_Z ROps) pauli_Z = m2mul pauli_Z (U_Z ROps)).
Proof.
  exact (conj lookup_Z (conj (conj U_X_unitary (conj U_Y_unitary U_Z_unitary))
                             (conj U_X_rows_eigen (conj U_Y_rows_eigen U_Z_rows_eigen)))).
Qed.
Print Assumptions C04_default_dict.

Theorem C04_unitary_both_sides : forall u : umatR, unitary2 u -> m2mul (m2dag u) u = m2id.
Proof. exact unitary2_cols. Qed.
Print Assumptions C04_unitary_both_sides.

(* ---- 7. rotated probabilities: non-negative, sum to the normalisation ---- *)
Theorem C04_rotation_preserves_norm : forall us : list umatR, Forall unitary2 us -> forall psi : bits -> cxR,
  sum_bits (length us) (fun s => cnorm2 ROps (dense_fun us psi s))
  = sum_bits (length us) (fun s => cnorm2 ROps (psi s)).
Proof. exact dense_preserves_norm. Qed.
Print Assumptions C04_rotation_preserves_norm.

Theorem C04_rotated_probs_nonneg_and_sum : forall user basis (arr : list cxR),
  Forall (fun p => 0 <= p) (map (cnorm2 ROps) (rotate_psi ROps user basis arr)) /\
  (length arr = (2 ^ length basis)%nat -> Forall unitary2 (map (lookup ROps user) basis) ->
   sum ROps (map (cnorm2 ROps) (rotate_psi ROps user basis arr)) = sum ROps (map (cnorm2 ROps) arr)).
Proof. exact (fun user basis arr => conj (rotated_probs_nonneg user basis arr) (rotated_probs_sum user basis arr)). Qed.
Print Assumptions C04_rotated_probs_nonneg_and_sum.

Theorem C04_rho_probs_nonneg_and_sum : forall user basis (rho : bits -> bits -> cxR),
  (Forall unitary2 (map (lookup ROps user) basis) ->
   sum ROps (rotate_rho_probs ROps user basis rho (all_bits (length basis)))
   = sum_bits (length basis) (fun a => fst (rho a a))) /\
  (forall s, length s = length basis -> psd_fun (length basis) rho -> 0 <= rho_prob1 ROps user basis rho s).
Proof. exact (fun user basis rho => conj (rho_probs_sum_trace user basis rho) (rho_probs_nonneg user basis rho)). Qed.
Print Assumptions C04_rho_probs_nonneg_and_sum.

(* ---- the hypotheses are satisfiable: every string over the default letters meets the unitarity
        hypothesis; a Hermitian, non-symmetric complex array of the right shape exists
        (rho = [[1, i/2], [-i/2, 1]]); pure states |psi><psi| are positive semi-definite ---- *)
Theorem C04_hypotheses_nonvacuous :
  (forall user basis, Forall (fun a => match a with LU _ => False | _ => True end) basis ->
     Forall unitary2 (map (lookup ROps user) basis)) /\
  (hermitian_arr example_rho /\ length example_rho = (2 ^ 1)%nat
   /\ Forall (fun row => length row = (2 ^ 1)%nat) example_rho
   /\ nth 1 (nth 0 example_rho []) (c0 ROps) <> nth 0 (nth 1 example_rho []) (c0 ROps)) /\
  (forall n (psi : bits -> cxR), psd_fun n (fun a b => cmul ROps (psi a) (cconj ROps (psi b)))).
Proof. exact (conj default_letters_unitary (conj example_rho_hermitian psd_pure)). Qed.
Print Assumptions C04_hypotheses_nonvacuous.
