(* C20 — Model construction and reset honour their documented contracts.
   Only theorem statements closed by [exact <lemma>] and [Print Assumptions].
   Model: QModel.Build (network objects with identities, parameters as cells of a heap; numeric part at T := R).
   Proofs: QTheory.BuildT. *)
From Coq Require Import List Arith Reals.
From QModel Require Import Num CBase Store Build.
From QTheory Require Import RInst BuildT.
Import ListNotations.

(* C20.1  module= : rbm_am IS the supplied module; rbm_ph is a NEW object with equal names / shapes / values and
   no shared parameter cell (for every well-formed heap and every module in it). *)
Theorem C20_module_is_used_and_copied : forall k m H no,
  wfb H -> assoc m (b_nets H) = Some no -> (k = Mixed -> no_kind no = Purif) ->
  let r := of_module k m H in
  exists st, snd r = Some st /\ bs_kind st = k /\
    bs_am st = m /\
    net_values (fst r) m = net_values H m /\ net_sizes (fst r) m = net_sizes H m /\
    (k = Positive -> bs_ph st = None /\ fst r = H) /\
    (k <> Positive -> exists ph, bs_ph st = Some ph /\ ph <> m /\ ph = b_next H /\
       net_values (fst r) ph = net_values H m /\
       net_sizes (fst r) ph = net_sizes H m /\
       disjoint_cells (fst r) m ph /\ disjoint_cells (fst r) ph m).
Proof. exact of_module_lemma. Qed.
Print Assumptions C20_module_is_used_and_copied.

(* the size arguments given next to module= are ignored: the state reports the MODULE's sizes (the statement's
   "uses that RBM (its parameters and sizes)").  definitional in the arguments: [of_module_args] drops them, as the
   code does; that the code does is checked by c20.py with num_visible / num_hidden / num_aux arguments that
   disagree with the module. *)
Theorem C20_module_sizes_win_over_arguments : forall k nv nh na m H no,
  wfb H -> assoc m (b_nets H) = Some no -> (k = Mixed -> no_kind no = Purif) ->
  let r := of_module_args k nv nh na m H in
  exists st, snd r = Some st /\ bs_am st = m /\ state_sizes (fst r) st = net_sizes H m.
Proof. exact of_module_sizes_lemma. Qed.
Print Assumptions C20_module_sizes_win_over_arguments.

(* networks_independent: ANY sequence of in-place writes to the parameters of one network leaves the
   parameters of a network that shares no cell with it unchanged ... *)
Theorem C20_networks_independent : forall ws a b H,
  disjoint_cells H a b -> net_values (write_many a ws H) b = net_values H b.
Proof. exact networks_independent_lemma. Qed.
Print Assumptions C20_networks_independent.

(* ... and both constructors produce amplitude / phase networks that share no cell (module= case: above;
   sizes case: here), with the requested shapes, drawn weights and zero biases.  Defaults: BinaryRBM takes
   num_visible for num_hidden = None AND for 0 (`if num_hidden`), PurificationRBM only for None. *)
Theorem C20_of_sizes_shapes_and_zero_biases : forall k nv nh na d_am d_ph H,
  let r := of_sizes k nv nh na d_am d_ph H in
  let am := bs_am (snd r) in
  bs_kind (snd r) = k /\
  net_values (fst r) am = as_values (init_values (ctor_shapes k nv nh na) d_am) /\
  (k = Positive -> bs_ph (snd r) = None) /\
  (k <> Positive -> exists ph, bs_ph (snd r) = Some ph /\ ph <> am /\
     net_values (fst r) ph = as_values (init_values (ctor_shapes k nv nh na) d_ph) /\
     net_sizes (fst r) ph = net_sizes (fst r) am /\
     disjoint_cells (fst r) am ph /\ disjoint_cells (fst r) ph am).
Proof. exact of_sizes_lemma. Qed.
Print Assumptions C20_of_sizes_shapes_and_zero_biases.

Theorem C20_initial_values_shapes_biases_weights : forall shapes d,
  map (fun pv => (fst pv, c_shape (snd pv))) (init_values shapes d) = shapes /\
  (forall p c, In (p, c) (init_values shapes d) -> is_weight p = false -> c_val c = VZero) /\
  (forall p c, In (p, c) (init_values shapes d) -> is_weight p = true -> exists t, c_val c = VTok t).
Proof.
  intros shapes d.
  exact (conj (init_values_shapes shapes d) (conj (init_values_biases_zero shapes d) (init_values_weights_drawn shapes d))).
Qed.
Print Assumptions C20_initial_values_shapes_biases_weights.

(* definitional: restates the model (a table of the shapes).  The `if num_hidden` behaviour of BinaryRBM (an explicit
   0 falls back to num_visible) is modelled because the code has it; the property does not demand it and the check
   does not generate num_hidden = 0 for BinaryRBM-based states. *)
Theorem C20_constructor_shapes : forall nv nh na,
  ctor_shapes Positive nv nh na = [(P_WEIGHTS, [dflt_binary nv nh; nv]); (P_VB, [nv]); (P_HB, [dflt_binary nv nh])] /\
  ctor_shapes Complex nv nh na = ctor_shapes Positive nv nh na /\
  ctor_shapes Mixed nv nh na = [(P_WW, [dflt nv nh; nv]); (P_WU, [dflt nv na; nv]); (P_VB, [nv]); (P_HB, [dflt nv nh]); (P_AB, [dflt nv na])] /\
  dflt_binary nv None = nv /\ dflt_binary nv (Some 0) = nv /\ (forall h, dflt_binary nv (Some (S h)) = S h) /\
  dflt nv None = nv /\ (forall h, dflt nv (Some h) = h).
Proof. intros; repeat split. Qed.
Print Assumptions C20_constructor_shapes.

(* C20.3  reinitialize: every network gets fresh parameter objects whose shapes are those of its size attributes
   (hence unchanged), weights redrawn, biases zero, attributes kept. *)
Theorem C20_reinitialize_redraws_every_network : forall st d_am d_ph H noa,
  wfb H -> assoc (bs_am st) (b_nets H) = Some noa ->
  (forall ph, bs_ph st = Some ph -> ph <> bs_am st /\ assoc ph (b_nets H) <> None) ->
  let H' := reinitialize st d_am d_ph H in
  net_values H' (bs_am st) = as_values (init_values (shapes_of noa) d_am) /\
  net_sizes H' (bs_am st) = net_sizes H (bs_am st) /\
  (forall c, In c (net_cells H' (bs_am st)) -> b_next H <= c) /\
  (forall ph nop, bs_ph st = Some ph -> assoc ph (b_nets H) = Some nop ->
     net_values H' ph = as_values (init_values (shapes_of nop) d_ph) /\
     net_sizes H' ph = net_sizes H ph /\
     (forall c, In c (net_cells H' ph) -> b_next H <= c)).
Proof. exact reinitialize_lemma. Qed.
Print Assumptions C20_reinitialize_redraws_every_network.

Theorem C20_reinitialize_keeps_shapes : forall shapes d1 d2,
  map (fun pv => (fst pv, option_map c_shape (snd pv))) (as_values (init_values shapes d1)) =
  map (fun pv => (fst pv, option_map c_shape (snd pv))) (as_values (init_values shapes d2)).
Proof. exact reinitialize_keeps_shapes_lemma. Qed.
Print Assumptions C20_reinitialize_keeps_shapes.

(* C20.4  fit without bases is refused before any effect, for complex and mixed states, whatever the base-class fit
   would do and whatever the stop flag.
   definitional: restates the model — [Build.fit] takes the base class' effects as an argument and returns [] on
   the guard; the evidence for this clause is the oracle of c20.py (no callback event, no optimizer constructed,
   parameters and torch RNG state unchanged, an exception raised). *)
Theorem C20_fit_without_bases_refused_before_any_effect : forall k stop body,
  k <> Positive -> fit k false stop body = ([], Err EValue).
Proof. exact fit_without_bases_lemma. Qed.
Print Assumptions C20_fit_without_bases_refused_before_any_effect.

(* C20.5  the aux-bias block of the phase network's batch gradient is identically zero (all groupings, rotation
   coefficients, weights, batch sizes) ...
   The zero aux rows of gamma_grad and pi_grad(phase=True) are POSTULATED by the model (definitions mirrored from the
   code: [gamma_grad_ab], [pi_grad_phase_ab] are [repeat 0]); what is proved is that every later stage (times i,
   rotation, real part, weighting, accumulation over basis groups, division by the batch size, no negative phase)
   keeps them zero.  The link of the two postulated blocks to the code is the oracle of c20.py, which evaluates
   gamma_grad / pi_grad in the expand=True, expand=False and 1-D forms. *)
Theorem C20_phase_aux_bias_gradient_is_zero : forall na groups bs,
  batch_grad_ab ROps na groups bs = repeat 0%R na.
Proof. exact batch_grad_ab_zero. Qed.
Print Assumptions C20_phase_aux_bias_gradient_is_zero.

(* ... hence aux_bias(rbm_ph) = 0 is invariant over EVERY training history for EVERY optimizer satisfying the
   explicit hypothesis [keeps_zero] ... *)
Theorem C20_phase_aux_bias_stays_zero : forall (S : Type) (opt : optimizer (T:=R) S) (Q : S -> Prop) na,
  keeps_zero na opt Q ->
  forall hist s rest ab, Q s -> all_zero ab -> length ab = na ->
  let r := train ROps opt na hist s (rest, ab) in
  all_zero (snd (fst r)) /\ length (snd (fst r)) = na /\ Q (snd r).
Proof. exact @phase_aux_bias_stays_zero_lemma. Qed.
Print Assumptions C20_phase_aux_bias_stays_zero.

(* ... which SGD (any lr / momentum / dampening / weight decay / Nesterov) satisfies — no division occurs — and
   Adam satisfies, from their initial states (non-vacuity of the hypothesis).
   CAUTION for Adam: this statement quantifies over every configuration, including eps = 0 or beta = 1, where it
   holds in R only through the totalised division 0 * / 0 = 0 (torch would produce NaN).  The guarded statement
   follows below: with eps > 0 and 0 <= beta1, beta2 < 1 no denominator of the update vanishes. *)
Theorem C20_sgd_and_adam_keep_zero : forall na,
  (forall c, keeps_zero na (sgd ROps c) (sgd_Q na)) /\ sgd_Q na (None, None) /\
  (forall c, keeps_zero na (adam ROps c) (adam_Q na)) /\
  (forall rm rv, adam_Q na (0, (rm, rv), (repeat 0%R na, repeat 0%R na))).
Proof.
  intros na. exact (conj (fun c => sgd_keeps_zero c na) (conj (sgd_initial_state na)
                   (conj (fun c => adam_keeps_zero c na) (adam_initial_state na)))).
Qed.
Print Assumptions C20_sgd_and_adam_keep_zero.

Theorem C20_adam_keeps_zero_guarded : forall na c,
  (0 < ad_eps c)%R -> (0 <= ad_b1 c < 1)%R -> (0 <= ad_b2 c < 1)%R ->
  keeps_zero na (adam ROps c) (adam_Q na) /\
  forall t v, (1 - npow ROps (ad_b1 c) (S t) <> 0)%R /\ (1 - npow ROps (ad_b2 c) (S t) <> 0)%R /\
              (sqrt (v / (1 - npow ROps (ad_b2 c) (S t))) + ad_eps c <> 0)%R.
Proof.
  intros na c He H1 H2. exact (conj (adam_keeps_zero c na) (fun t v => adam_denominators_nonzero c t v He H1 H2)).
Qed.
Print Assumptions C20_adam_keeps_zero_guarded.

(* non-vacuity of the module= hypotheses *)
Theorem C20_hypotheses_satisfiable :
  wfb empty_bheap /\
  (let a := new_net Purif 2 3 1 [7; 8] empty_bheap in
   let r := of_module Mixed (snd a) (fst a) in
   exists st ph, snd r = Some st /\ bs_am st = snd a /\ bs_ph st = Some ph /\ ph <> snd a /\
                 net_values (fst r) ph = net_values (fst r) (snd a)).
Proof. exact (conj wfb_empty of_module_example). Qed.
Print Assumptions C20_hypotheses_satisfiable.
