(* C07 — Every epoch uses every training sample once, paired with its own basis.
   This file contains only theorem statements closed by [exact <lemma>] and [Print Assumptions].
   Model: QModel.Batching (fit_epoch = z_samples + num_batches + _shuffle_data, parameterised by the
   outcome [perm] of torch.randperm and [negidx] of torch.randint).  Proofs: QTheory.BatchingT.
   Rows are opaque (A = data row, B = basis row, isZ = "the basis row is all Z").
   Contract of the random calls (fit_rand_ok / rand_ok): perm is a permutation of 0..N-1; where the
   code calls randint(high, size=k), negidx has k entries < high.
   Theorems 1-4 are stated for every run of the pipeline ([= Some batches]); C07_pipeline_total says
   that under the contract every run is one.
   Clause 6 of the property (fit never writes the caller's data / bases) is correspondence-tested
   only (harness/checks/c07.py): the model has no mutable objects. *)
From Coq Require Import List Arith Permutation.
From QModel Require Import Batching.
From QTheory Require Import BatchingT.
Import ListNotations.

(* ---------------------------------------------------------------- chunks library (the core)
   every statement carries 1 <= b: [cdiv n 0 = 0] / [chunks 0 l = []] are Coq totalisations, the code
   raises for a zero step *)

Theorem C07_cdiv_is_ceiling : forall n b, 1 <= b ->
  n <= cdiv n b * b /\ (1 <= n -> (cdiv n b - 1) * b < n).
Proof. exact cdiv_spec. Qed.
Print Assumptions C07_cdiv_is_ceiling.

Theorem C07_chunks_concat : forall (A : Type) b (l : list A), 1 <= b -> concat (chunks b l) = l.
Proof. exact (@concat_chunks). Qed.
Print Assumptions C07_chunks_concat.

Theorem C07_chunks_count : forall (A : Type) b (l : list A), 1 <= b ->
  length (chunks b l) = cdiv (length l) b.
Proof. exact (@length_chunks). Qed.
Print Assumptions C07_chunks_count.

Theorem C07_chunk_sizes : forall (A : Type) b (l : list A) i, 1 <= b ->
  length (nth i (chunks b l) []) = Nat.min b (length l - i * b).
Proof. exact (@chunk_length). Qed.
Print Assumptions C07_chunk_sizes.

Theorem C07_chunks_exact : forall (A : Type) b k (l : list A), 1 <= b -> length l = k * b ->
  length (chunks b l) = k /\ Forall (fun c => length c = b) (chunks b l).
Proof. exact (@chunks_exact). Qed.
Print Assumptions C07_chunks_exact.

(* ---------------------------------------------------------------- one epoch of fit *)

(* 0. under the contract of the random calls the data pipeline does not raise (every N, with or
      without bases; N = 1 with bases raised IndexError before /repo dcba4ba).  The guard 1 <= pos_bs
      is needed: ceil(N / 0) raises in the code (C07_zero_batch_size_raises) *)
Theorem C07_pipeline_total : forall (A B : Type) (isZ : B -> bool) pos_bs neg_opt
    (data : list A) (bases : option (list B)) perm negidx,
  1 <= pos_bs ->
  bases_shape_ok data bases ->
  fit_rand_ok isZ pos_bs neg_opt data bases perm negidx ->
  exists batches, fit_epoch isZ pos_bs neg_opt data bases perm negidx = Some batches.
Proof. exact (@fit_succeeds). Qed.
Print Assumptions C07_pipeline_total.

(* definitional: restates the model (the model's guard mirroring ZeroDivisionError at ceil(N / 0)) *)
Theorem C07_zero_batch_size_raises : forall (A B : Type) (isZ : B -> bool) neg_opt
    (data : list A) (bases : option (list B)) perm negidx,
  fit_epoch isZ 0 neg_opt data bases perm negidx = None.
Proof. exact (@fit_zero_batch_size). Qed.
Print Assumptions C07_zero_batch_size_raises.

Theorem C07_single_row_with_bases :
  fit_epoch is_Z_row 1 None [10] (Some [[90; 90]]) [0] [0] = Some [ ([10], [10], Some [[90; 90]]) ].
Proof. exact ex_single_row_with_bases. Qed.
Print Assumptions C07_single_row_with_bases.

(* 1. every row of the data appears in exactly one positive batch (duplicates counted) *)
Theorem C07_pos_batches_partition : forall (A B : Type) (isZ : B -> bool) pos_bs neg_opt
    (data : list A) (bases : option (list B)) perm negidx batches,
  1 <= pos_bs -> bases_shape_ok data bases ->
  fit_rand_ok isZ pos_bs neg_opt data bases perm negidx ->
  fit_epoch isZ pos_bs neg_opt data bases perm negidx = Some batches ->
  map Some (pos_rows batches) = map (nth_error data) perm /\
  Permutation (pos_rows batches) data.
Proof. exact (@fit_pos_batches_partition). Qed.
Print Assumptions C07_pos_batches_partition.

(* 2. ... together with exactly its own row of bases *)
Theorem C07_bases_stay_paired : forall (A B : Type) (isZ : B -> bool) pos_bs neg_opt
    (data : list A) (bases : option (list B)) perm negidx batches,
  1 <= pos_bs -> bases_shape_ok data bases ->
  fit_rand_ok isZ pos_bs neg_opt data bases perm negidx ->
  fit_epoch isZ pos_bs neg_opt data bases perm negidx = Some batches ->
  forall bs, bases = Some bs ->
  map Some (pair_rows batches) = map (nth_error (combine data bs)) perm /\
  Permutation (pair_rows batches) (combine data bs) /\
  (forall x, In x batches -> exists bb, b_bases x = Some bb /\ length bb = length (b_pos x)).
Proof. exact (@fit_bases_stay_paired). Qed.
Print Assumptions C07_bases_stay_paired.

(* 3. ceil(N / b) batches (the zip drops none), each of b rows except possibly the last,
      which has N - b (ceil(N/b) - 1), between 1 and b, rows *)
Theorem C07_batch_sizes : forall (A B : Type) (isZ : B -> bool) pos_bs neg_opt
    (data : list A) (bases : option (list B)) perm negidx batches,
  1 <= pos_bs -> bases_shape_ok data bases ->
  fit_rand_ok isZ pos_bs neg_opt data bases perm negidx ->
  fit_epoch isZ pos_bs neg_opt data bases perm negidx = Some batches ->
  length batches = cdiv (length data) pos_bs /\
  (forall i, length (nth i (map b_pos batches) []) = Nat.min pos_bs (length data - i * pos_bs)) /\
  (forall i, S i < cdiv (length data) pos_bs -> length (nth i (map b_pos batches) []) = pos_bs) /\
  (data <> [] ->
   let k := cdiv (length data) pos_bs in
   length (nth (k - 1) (map b_pos batches) []) = length data - pos_bs * (k - 1) /\
   1 <= length data - pos_bs * (k - 1) <= pos_bs) /\
  (forall x, In x batches -> 1 <= length (b_pos x) <= pos_bs).
Proof. exact (@fit_batch_sizes). Qed.
Print Assumptions C07_batch_sizes.

(* 4. negative-phase rows are rows of the data (rows measured entirely in Z when bases are given);
      each negative batch has neg_batch_size rows, except in the mirror case (no bases, equal sizes)
      where it IS the positive batch — DESIGN 6(a) *)
Theorem C07_neg_rows_from_data : forall (A B : Type) (isZ : B -> bool) pos_bs neg_opt
    (data : list A) (bases : option (list B)) perm negidx batches,
  1 <= pos_bs -> bases_shape_ok data bases ->
  fit_rand_ok isZ pos_bs neg_opt data bases perm negidx ->
  fit_epoch isZ pos_bs neg_opt data bases perm negidx = Some batches ->
  forall x, In x batches ->
  (forall r, In r (b_neg x) ->
     match bases with
     | None => In r data
     | Some bs => exists i b, nth_error data i = Some r /\ nth_error bs i = Some b /\ isZ b = true
     end) /\
  match bases with
  | None => if Nat.eqb (default_neg pos_bs neg_opt) pos_bs then b_neg x = b_pos x
            else length (b_neg x) = default_neg pos_bs neg_opt
  | Some _ => length (b_neg x) = default_neg pos_bs neg_opt
  end.
Proof. exact (@fit_neg_rows_from_data). Qed.
Print Assumptions C07_neg_rows_from_data.

(* definitional: restates the model *)
Theorem C07_neg_batch_size_default : forall pos_bs,
  default_neg pos_bs None = pos_bs /\ default_neg pos_bs (Some 0) = pos_bs /\
  forall k, default_neg pos_bs (Some (S k)) = S k.
Proof. exact (@default_neg_spec). Qed.
Print Assumptions C07_neg_batch_size_default.

(* 5. extract_refbasis_samples keeps exactly the rows whose basis row is all Z, in order *)
Theorem C07_refbasis_exact : forall (A B : Type) (isZ : B -> bool) (data : list A) (bs : list B),
  extract_refbasis isZ data bs =
  if Nat.eqb (length data) (length bs)
  then Some (map fst (filter (fun p => isZ (snd p)) (combine data bs))) else None.
Proof. exact (@refbasis_exact). Qed.
Print Assumptions C07_refbasis_exact.

Theorem C07_refbasis_membership : forall (A B : Type) (isZ : B -> bool) (data : list A) (bs : list B) x,
  In x (refbasis_rows isZ data bs) <->
  exists i b, nth_error data i = Some x /\ nth_error bs i = Some b /\ isZ b = true.
Proof. exact (@refbasis_In). Qed.
Print Assumptions C07_refbasis_membership.

(* definitional: restates the model *)
Theorem C07_all_Z_predicate : forall r, is_Z_row r = true <-> Forall (eq 90) r.
Proof. exact is_Z_row_spec. Qed.
Print Assumptions C07_all_Z_predicate.

(* ---------------------------------------------------------------- _shuffle_data on its own
   (any z_samples, any num_batches >= ceil(N / pos_batch_size)) *)

Theorem C07_shuffle_pos_batches_partition : forall (A B : Type) pos_bs neg_bs nb
    (data : list A) (bases : option (list B)) zdata perm negidx batches,
  1 <= pos_bs -> 1 <= neg_bs -> cdiv (length data) pos_bs <= nb ->
  bases_shape_ok data bases ->
  rand_ok pos_bs neg_bs nb data bases zdata perm negidx ->
  shuffle_data pos_bs neg_bs nb data bases zdata perm negidx = Some batches ->
  map Some (pos_rows batches) = map (nth_error data) perm /\
  Permutation (pos_rows batches) data.
Proof. exact (@pos_batches_partition). Qed.
Print Assumptions C07_shuffle_pos_batches_partition.

Theorem C07_shuffle_bases_stay_paired : forall (A B : Type) pos_bs neg_bs nb
    (data : list A) (bases : option (list B)) zdata perm negidx batches,
  1 <= pos_bs -> 1 <= neg_bs -> cdiv (length data) pos_bs <= nb ->
  bases_shape_ok data bases ->
  rand_ok pos_bs neg_bs nb data bases zdata perm negidx ->
  shuffle_data pos_bs neg_bs nb data bases zdata perm negidx = Some batches ->
  forall bs, bases = Some bs ->
  map Some (pair_rows batches) = map (nth_error (combine data bs)) perm /\
  Permutation (pair_rows batches) (combine data bs) /\
  (forall x, In x batches -> exists bb, b_bases x = Some bb /\ length bb = length (b_pos x)).
Proof. exact (@bases_stay_paired). Qed.
Print Assumptions C07_shuffle_bases_stay_paired.

Theorem C07_shuffle_neg_rows : forall (A B : Type) pos_bs neg_bs nb
    (data : list A) (bases : option (list B)) zdata perm negidx batches,
  1 <= pos_bs -> 1 <= neg_bs -> cdiv (length data) pos_bs <= nb ->
  bases_shape_ok data bases ->
  rand_ok pos_bs neg_bs nb data bases zdata perm negidx ->
  shuffle_data pos_bs neg_bs nb data bases zdata perm negidx = Some batches ->
  forall x, In x batches ->
  (forall r, In r (b_neg x) -> match bases with None => In r data | Some _ => In r zdata end) /\
  match bases with
  | None => if Nat.eqb neg_bs pos_bs then b_neg x = b_pos x else length (b_neg x) = neg_bs
  | Some _ => length (b_neg x) = neg_bs
  end.
Proof. exact (@neg_rows_from_data). Qed.
Print Assumptions C07_shuffle_neg_rows.

(* ---------------------------------------------------------------- non-vacuity *)

(* the hypotheses are satisfiable: N = 5 with a duplicate row, batch size 2, bases with three
   all-Z rows, and the model's answer on that input *)
Theorem C07_hypotheses_satisfiable :
  1 <= 2 /\ bases_shape_ok ex_data (Some ex_bases) /\
  fit_rand_ok is_Z_row 2 None ex_data (Some ex_bases) ex_perm ex_negidx.
Proof. exact ex_hypotheses. Qed.
Print Assumptions C07_hypotheses_satisfiable.

Theorem C07_example_epoch :
  fit_epoch is_Z_row 2 None ex_data (Some ex_bases) ex_perm ex_negidx =
  Some [ ([10; 10], [13; 10], Some [[89; 88]; [90; 90]]);
         ([13; 11], [12; 12], Some [[90; 90]; [88; 90]]);
         ([12],     [10; 13], Some [[90; 90]]) ].
Proof. exact ex_run. Qed.
Print Assumptions C07_example_epoch.

(* the contract on randint is needed: the model truncates like zip *)
Theorem C07_zip_truncates_without_contract :
  exists batches, shuffle_data 1 2 3 [10; 11; 12] (@None (list (list nat))) [] [0; 1; 2] [0; 1] = Some batches /\
                  length batches < cdiv 3 1.
Proof. exact ex_zip_truncates. Qed.
Print Assumptions C07_zip_truncates_without_contract.
