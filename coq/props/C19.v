(* C19 — Basis-state indexing and data loading are mutually consistent.
   Only theorem statements closed by [exact] and [Print Assumptions].
   Model: QModel.Bits (the code's bit arithmetic) vs the structural enumeration all_bits;
   QModel.DataLoad (extract_refbasis).  The file loaders (np.loadtxt) are NOT modelled:
   that clause is decided by the correspondence check only (DESIGN §8). *)
From Coq Require Import List NArith Bool Arith.
From QModel Require Import Num Bits CBase Unitaries DataLoad.
From QTheory Require Import BitsT.
Import ListNotations.

(* the generated space is exactly the structural big-endian enumeration *)
Theorem C19_generate_hilbert_space_is_all_bits : forall n,
  (n <= max_size)%nat -> generate_hilbert_space n = Some (all_bits n).
Proof. exact generate_within_limit. Qed.
Print Assumptions C19_generate_hilbert_space_is_all_bits.

Theorem C19_row_k_is_subspace_vector : forall n k, (k < 2 ^ n)%nat ->
  nth k (all_bits n) [] = subspace_vector n (N.of_nat k).
Proof. exact row_k_is_subspace_vector. Qed.
Print Assumptions C19_row_k_is_subspace_vector.

(* index <-> vector round trips *)
Theorem C19_idx_of_subspace_vector : forall n k, (k < 2 ^ N.of_nat n)%N -> idx (subspace_vector n k) = k.
Proof. exact idx_sv. Qed.
Print Assumptions C19_idx_of_subspace_vector.

Theorem C19_subspace_vector_of_idx : forall s, subspace_vector (length s) (idx s) = s.
Proof. exact sv_idx. Qed.
Print Assumptions C19_subspace_vector_of_idx.

(* rows are in increasing index order (hence 2^n distinct rows, row k has index k) *)
Theorem C19_rows_in_index_order : forall n, map idx (all_bits n) = map N.of_nat (seq 0 (2 ^ n)).
Proof. exact all_bits_idx_sorted. Qed.
Print Assumptions C19_rows_in_index_order.

Theorem C19_rows_distinct : forall n, NoDup (all_bits n) /\ length (all_bits n) = (2 ^ n)%nat.
Proof. intros n; split; [exact (all_bits_NoDup n) | exact (all_bits_len' n)]. Qed.
Print Assumptions C19_rows_distinct.

(* site 0 is the most significant bit and the leftmost tensor factor *)
Theorem C19_site0_is_msb : forall b s,
  idx (b :: s) = ((if b then 2 ^ N.of_nat (length s) else 0) + idx s)%N.
Proof. exact idx_cons. Qed.
Print Assumptions C19_site0_is_msb.

(* definitional: restates the specification kron_entry (the content is props/C04.v: the sweep equals this dense form) *)
Theorem C19_site0_is_leftmost_factor : forall T (O : NumOps T) (u : umat (T:=T)) us b r b' r',
  kron_entry O (u :: us) (b :: r) (b' :: r') = cmul O (u_entry u b b') (kron_entry O us r r').
Proof. exact (@kron_entry_site0_leftmost). Qed.
Print Assumptions C19_site0_is_leftmost_factor.

(* definitional: unfolds the guard of the model *)
Theorem C19_oversize_refused : forall n, (max_size < n)%nat -> generate_hilbert_space n = None.
Proof. exact generate_refuses_oversize. Qed.
Print Assumptions C19_oversize_refused.

(* reference-basis extraction returns precisely the all-Z rows, in order.  Meaningful for length rows = length bases
   (Python raises for a mask of another length; both sides of the equation truncate there). *)
Theorem C19_refbasis_exact : forall A (rows : list A) bases,
  extract_refbasis rows bases = refbasis_spec rows bases.
Proof. exact (@extract_refbasis_exact). Qed.
Print Assumptions C19_refbasis_exact.
