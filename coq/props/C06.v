(* C06 — Each training step applies exactly the contrastive-divergence update.
   Only theorem statements closed by [exact <lemma>] and [Print Assumptions].
   Model: QModel.CDStep (compute_batch_gradients, vector_to_grads, SGD, the batch/epoch loops of fit,
   StepLR) on top of QModel.Rbm (energy gradients).  Proofs: QTheory.CDStepT. *)
From Coq Require Import List Reals Arith.
From QModel Require Import Num Bits Rbm CDStep.
From QTheory Require Import RInst CDStepT.
Import ListNotations.
Open Scope R_scope.

(* ------------------------------------------------------------------------------------------ *)
(* 1. compute_batch_gradients: amplitude gradient = positive phase - (sum_{v in vk} grad E(v)) / |neg_batch| ;
      the divisor is the NEGATIVE batch size; entrywise, for every architecture.                *)
(* definitional: restates the model (cd_negative divides by [length neg] because CDStep.v says so; what the
   theorem adds is the entrywise reading of the list-level definition under explicit shape guards).
   Positive phase and vk are INPUTS of the model: "the batch's positive phase" is C03, "reached by k Gibbs
   steps" is C05; both are tied to the code only by this property's check. *)
Theorem C06_cd_gradient_am_binary : forall (am : brbm) g0 rest (neg vk : list bits) i,
  (0 < length neg)%nat ->
  length (bW am) = length (bc am) ->
  Forall (fun v => length v = length (bb am)) vk ->
  length g0 = b_num_pars am -> (i < b_num_pars am)%nat ->
  nth i (nth 0 (cbg_binary ROps am (g0 :: rest) neg vk) []) 0 =
  nth i g0 0 - sum ROps (map (fun v => nth i (b_energy_grad ROps am v) 0) vk) / INR (length neg).
Proof. exact cd_gradient_am_binary. Qed.
Print Assumptions C06_cd_gradient_am_binary.

(* definitional: restates the model *)
Theorem C06_cd_gradient_am_purification : forall (am : prbm) g0 rest (neg vk : list bits) i,
  (0 < length neg)%nat ->
  length (pW am) = length (pc am) -> length (pU am) = length (pd am) ->
  Forall (fun v => length v = length (pb am)) vk ->
  length g0 = p_num_pars am -> (i < p_num_pars am)%nat ->
  nth i (nth 0 (cbg_purification ROps am (g0 :: rest) neg vk) []) 0 =
  nth i g0 0 - sum ROps (map (fun v => nth i (p_energy_grad ROps am v) 0) vk) / INR (length neg).
Proof. exact cd_gradient_am_purification. Qed.
Print Assumptions C06_cd_gradient_am_purification.

(* the Gibbs chain keeps the batch shape (|vk| = |neg|): the negative phase is the mean over vk *)
(* definitional: restates the model *)
Theorem C06_cd_negative_is_mean : forall (am : brbm) g0 rest (neg vk : list bits) i,
  (0 < length neg)%nat ->
  length (bW am) = length (bc am) ->
  Forall (fun v => length v = length (bb am)) vk ->
  length g0 = b_num_pars am -> (i < b_num_pars am)%nat -> length vk = length neg ->
  nth i (nth 0 (cbg_binary ROps am (g0 :: rest) neg vk) []) 0 =
  nth i g0 0 - mean ROps (map (fun v => nth i (b_energy_grad ROps am v) 0) vk).
Proof. exact cd_negative_is_mean_binary. Qed.
Print Assumptions C06_cd_negative_is_mean.

(* the guards are satisfiable: 2 visible, 1 hidden unit, pos batch of any size, neg batch of 2 *)
Example C06_cd_guards_satisfiable :
  let am := mkB [[1; 2]] [3; 4] [5] in
  length (bW am) = length (bc am)
  /\ Forall (fun v => length v = length (bb am)) [[true; false]; [false; true]]
  /\ length [0; 0; 0; 0; 0] = b_num_pars am
  /\ (0 < length [[true; true]; [false; false]])%nat.
Proof. simpl. repeat split; repeat constructor. Qed.

(* 2. the phase network receives the positive phase only (no negative phase), both state families *)
(* definitional: restates the model *)
Theorem C06_cd_gradient_ph_binary : forall (T : Type) (O : NumOps T) (am : brbm) pos neg vk j, (0 < j)%nat ->
  nth j (cbg_binary O am pos neg vk) [] = nth j pos [].
Proof. exact @cd_gradient_ph_binary. Qed.
Print Assumptions C06_cd_gradient_ph_binary.

(* definitional: restates the model *)
Theorem C06_cd_gradient_ph_purification : forall (T : Type) (O : NumOps T) (am : prbm) pos neg vk j, (0 < j)%nat ->
  nth j (cbg_purification O am pos neg vk) [] = nth j pos [].
Proof. exact @cd_gradient_ph_purification. Qed.
Print Assumptions C06_cd_gradient_ph_purification.

(* definitional: restates the model *)
Theorem C06_cd_keeps_the_network_list : forall (T : Type) (O : NumOps T) (pos : list (list T)) negative,
  tl (cd_apply O pos negative) = tl pos /\ length (cd_apply O pos negative) = length pos.
Proof. exact @cd_gradient_ph. Qed.
Print Assumptions C06_cd_keeps_the_network_list.

(* ------------------------------------------------------------------------------------------ *)
(* 3. vector_to_grads: parameter j's .grad is the slice at offset sum_{i<j} numel_i, viewed with
      parameter j's size; the slices tile the vector.  Any number type; no axioms.              *)
Theorem C06_grads_land_on_their_parameters : forall (T : Type) (vec : list T) shapes,
  (total shapes <= length vec)%nat ->
  exists ts, vector_to_grads vec shapes = Some ts
    /\ length ts = length shapes
    /\ Forall2 has_shape shapes ts
    /\ (forall j d ds, (j < length shapes)%nat ->
          nth j ts d = view (nth j shapes ds)
                            (firstn (numel (nth j shapes ds)) (skipn (offset shapes j) vec)))
    /\ concat (map tflatten ts) = firstn (total shapes) vec.
Proof. intros T; exact vector_to_grads_lands. Qed.
Print Assumptions C06_grads_land_on_their_parameters.

Theorem C06_grads_roundtrip : forall (T : Type) (vec : list T) shapes ts,
  length vec = total shapes -> vector_to_grads vec shapes = Some ts ->
  concat (map tflatten ts) = vec.
Proof. intros T; exact vector_to_grads_roundtrip. Qed.
Print Assumptions C06_grads_roundtrip.

(* the length guard is exactly the one the code enforces by raising *)
Theorem C06_vector_to_grads_fails_iff_short : forall (T : Type) (vec : list T) shapes,
  vector_to_grads vec shapes = None <-> (length vec < total shapes)%nat.
Proof. intros T; exact vector_to_grads_fails_iff_short. Qed.
Print Assumptions C06_vector_to_grads_fails_iff_short.

(* network i's parameters are fed from all_grads[i] — amplitude from [0], phase from [1] *)
Theorem C06_each_network_gets_its_own_vector : forall (T : Type) net_shapes (all_grads : list (list T)) tss i,
  assign_grads all_grads net_shapes = Some tss -> (i < length net_shapes)%nat ->
  vector_to_grads (nth i all_grads []) (nth i net_shapes []) = Some (nth i tss []).
Proof. intros T; exact assign_grads_nth. Qed.
Print Assumptions C06_each_network_gets_its_own_vector.

(* the flat energy gradient is laid out in parameters() order: its slices are the gradient of
   weights (as the matrix -p_i v_j), of visible_bias (-v) and of hidden_bias (-p) *)
Theorem C06_energy_grad_lands_binary : forall (T : Type) (O : NumOps T) (r : brbm) (v : bits),
  let p := b_prob_h_given_v O r v in
  vector_to_grads (b_energy_grad O r v) (b_shapes (length v) (length p))
  = Some [TMat (neg_outer O p v); TVec (vopp O (map (b2t O) v)); TVec (vopp O p)].
Proof. intros T O; exact (b_energy_grad_lands O). Qed.
Print Assumptions C06_energy_grad_lands_binary.

Theorem C06_energy_grad_lands_purification : forall (T : Type) (O : NumOps T) (r : prbm) (v : bits),
  let ph := p_prob_h_given_v O r v in
  let pa := p_prob_a_given_v O r v in
  vector_to_grads (p_energy_grad O r v) (p_shapes (length v) (length ph) (length pa))
  = Some [TMat (neg_outer O ph v); TMat (neg_outer O pa v);
          TVec (vopp O (map (b2t O) v)); TVec (vopp O ph); TVec (vopp O pa)].
Proof. intros T O; exact (p_energy_grad_lands O). Qed.
Print Assumptions C06_energy_grad_lands_purification.

(* ------------------------------------------------------------------------------------------ *)
(* 4. plain SGD: theta' - theta = -lr * g entrywise                                            *)
(* definitional: restates the model *)
Theorem C06_sgd_moves_by_minus_lr_grad : forall lr (th g : list R) i,
  length th = length g -> (i < length th)%nat ->
  nth i (sgd_step ROps lr th g) 0 - nth i th 0 = - lr * nth i g 0.
Proof. exact sgd_step_entry. Qed.
Print Assumptions C06_sgd_moves_by_minus_lr_grad.

(* on the structured parameter list: vector_to_grads followed by optimizer.step is SGD on the
   network's flat parameter vector, and every parameter keeps its shape *)
Theorem C06_batch_update_is_flat_sgd : forall (T : Type) (O : NumOps T) lr shapes (params : list tensor) (g : list T),
  Forall2 has_shape shapes params -> length g = total shapes ->
  exists params', batch_update O lr params shapes g = Some params'
    /\ Forall2 has_shape shapes params'
    /\ concat (map tflatten params') = sgd_step O lr (concat (map tflatten params)) g.
Proof. intros T O; exact (batch_update_is_flat_sgd O). Qed.
Print Assumptions C06_batch_update_is_flat_sgd.

(* once per batch: the gradient used at batch t is evaluated at the parameters produced by all
   earlier batches, with the epoch's learning rate *)
Theorem C06_batch_t_uses_parameters_after_t_updates :
  forall (T : Type) (O : NumOps T) (B : Type) (G : B -> list T -> list T) bs lr theta n t b0 d,
  (t < length bs)%nat ->
  nth t (snd (run_batches O G lr theta n bs)) d =
  (lr, G (nth t bs b0) (fst (fst (run_batches O G lr theta n (firstn t bs))))).
Proof. intros T O B G; exact (run_batches_log_nth O G). Qed.
Print Assumptions C06_batch_t_uses_parameters_after_t_updates.

(* after the m batches of an epoch (constant lr): theta_m = theta_0 - lr * sum_t g_t *)
Theorem C06_sgd_accumulates_over_batches :
  forall (B : Type) (G : B -> list R -> list R) (n : nat),
  (forall b th, length th = n -> length (G b th) = n) ->
  forall bs lr th0 k i, length th0 = n -> (i < n)%nat ->
  let '(th, _, log) := run_batches ROps G lr th0 k bs in
  length th = n /\
  nth i th 0 = nth i th0 0 - lr * sum ROps (map (fun e => nth i (snd e) 0) log).
Proof. exact @run_batches_displacement. Qed.
Print Assumptions C06_sgd_accumulates_over_batches.

(* over a whole run with a per-epoch schedule: theta_final = theta_0 - sum_steps lr_step * g_step,
   where (next theorem) lr_step is the schedule value of the epoch the step belongs to *)
Theorem C06_sgd_accumulates_over_epochs :
  forall (B : Type) (G : B -> list R -> list R) (n : nat),
  (forall b th, length th = n -> length (G b th) = n) ->
  forall eps sched hs th0 k ns i, length th0 = n -> (i < n)%nat ->
  let r := run_epochs ROps G sched hs th0 k ns eps in
  length (r_theta r) = n /\
  nth i (r_theta r) 0 = nth i th0 0 - sum ROps (map (fun e => fst e * nth i (snd e) 0) (r_log r)).
Proof. exact @run_epochs_displacement. Qed.
Print Assumptions C06_sgd_accumulates_over_epochs.

(* ------------------------------------------------------------------------------------------ *)
(* 5. the counting machine of fit: trace, counters, learning rate of every step                *)
Theorem C06_fit_protocol :
  forall (T : Type) (O : NumOps T) (B : Type) (G : B -> list T -> list T) eps sched has_sched theta nopt nsched,
  let r := run_epochs O G sched has_sched theta nopt nsched eps in
  r_trace r = concat (map (epoch_events has_sched) eps)
  /\ r_nopt r = (nopt + length (concat eps))%nat
  /\ r_nsched r = (nsched + (if has_sched then length eps else 0))%nat
  /\ map fst (r_log r) = lr_plan sched has_sched nsched eps.
Proof. intros T O B G; exact (run_epochs_protocol O G). Qed.
Print Assumptions C06_fit_protocol.

(* scheduler steps = epochs run, each right after its epoch's last optimizer step;
   optimizer steps = total number of batches *)
Theorem C06_scheduler_once_per_epoch :
  forall (T : Type) (O : NumOps T) (B : Type) (G : B -> list T -> list T) eps sched theta nopt nsched,
  let r := run_epochs O G sched true theta nopt nsched eps in
  r_trace r = concat (map (fun bs => repeat EvOpt (length bs) ++ [EvSched]) eps)
  /\ count_ev EvSched (r_trace r) = length eps
  /\ count_ev EvOpt (r_trace r) = length (concat eps)
  /\ r_nsched r = (nsched + length eps)%nat
  /\ r_nopt r = (nopt + length (concat eps))%nat.
Proof. intros T O B G; exact (scheduler_once_per_epoch O G). Qed.
Print Assumptions C06_scheduler_once_per_epoch.

(* scheduler=None: no scheduler step, every optimizer step uses the initial learning rate *)
Theorem C06_no_scheduler_constant_lr :
  forall (T : Type) (O : NumOps T) (B : Type) (G : B -> list T -> list T) eps sched theta nopt nsched,
  let r := run_epochs O G sched false theta nopt nsched eps in
  count_ev EvSched (r_trace r) = 0%nat /\ r_nsched r = nsched
  /\ count_ev EvOpt (r_trace r) = length (concat eps)
  /\ Forall (fun e => fst e = sched nsched) (r_log r).
Proof. intros T O B G; exact (no_scheduler_no_steps O G). Qed.
Print Assumptions C06_no_scheduler_constant_lr.

(* StepLR (the scheduler the check records): closed form of the rate after n scheduler steps *)
Theorem C06_steplr_closed_form : forall lr0 gamma ss n, (0 < ss)%nat ->
  steplr ROps lr0 gamma ss n = lr0 * gamma ^ (n / ss).
Proof. exact steplr_closed. Qed.
Print Assumptions C06_steplr_closed_form.

(* ------------------------------------------------------------------------------------------ *)
(* non-vacuity of the guards used above *)
Example C06_shapes_guard_satisfiable :
  Forall2 has_shape (b_shapes 2 1) [TMat [[1; 2]]; TVec [3; 4]; TVec [5]]
  /\ length [10; 20; 30; 40; 50] = total (b_shapes 2 1)
  /\ vector_to_grads [10; 20; 30; 40; 50]%nat (b_shapes 2 1)
     = Some [TMat [[10; 20]]; TVec [30; 40]; TVec [50]]%nat.
Proof. simpl. repeat split; repeat constructor. Qed.

Example C06_gradient_oracle_guard_satisfiable : forall n : nat,
  forall (b : list R) th, length th = n -> length ((fun (g : list R) (th : list R) => map (fun x => 2 * x) th) b th) = n.
Proof. intros n b th H. simpl. rewrite map_length. exact H. Qed.

(* ---------------------------------------------------------------------------------------------
   Link to C12 (QModel.Protocol, the event machine of fit; proof: QTheory.Links, module L5).
   The counting machine above and the protocol machine are two models of the same loop.  For a run in
   which nobody asks to stop, with [length eps] = len(range(start, epochs+1)) epochs of [nb] batches
   each, with or without a scheduler: the protocol machine's OptStep / SchedStep events
   ([opt_sched_events], the projection OptStep -> EvOpt, SchedStep -> EvSched, callbacks dropped) ARE the
   counting machine's trace; the final parameter version of the protocol machine is the optimizer-step
   counter; scheduler steps are counted alike. *)
From Coq Require Import ZArith.
From QModel Require Import Protocol.
From QTheory Require Links.
Import Links.L5.

Theorem C06_protocol_matches_cd_machine :
  forall (T : Type) (O : NumOps T) (B : Type) (G : B -> list T -> list T)
         (inj : injector) (lr_of : nat -> T) (has_sched : bool) (start epochs : Z) (nb ver0 : nat)
         (theta : list T) (nsched : nat) (eps : list (list B)),
  (forall h, inj h = false) ->
  length eps = num_epochs start epochs -> Forall (fun bs => length bs = nb) eps ->
  let s := fit inj has_sched start epochs nb false ver0 in
  let r := run_epochs O G lr_of has_sched theta ver0 nsched eps in
  r_trace r = opt_sched_events (trace s) /\
  r_nopt r = ver s /\
  r_nsched r = (nsched + count is_sched (trace s))%nat /\
  count_ev EvOpt (r_trace r) = count is_opt (trace s) /\
  count_ev EvSched (r_trace r) = count is_sched (trace s).
Proof. exact @Links.L5.protocol_matches_cd_machine. Qed.
Print Assumptions C06_protocol_matches_cd_machine.
