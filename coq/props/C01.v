(* C01 — Wavefunction states satisfy the Born rule they are defined by.
   This file contains only theorem statements closed by [exact <lemma>] and
   [Print Assumptions].  Model: QModel.Rbm / QModel.States at T := R. *)
From Coq Require Import List Reals.
From QModel Require Import Num Bits Rbm States.
From QTheory Require Import RInst SumBits Born.
Import ListNotations.
Open Scope R_scope.

Theorem C01_psi_sq_eq_probability_positive : forall am v,
  let z := pos_psi ROps am v in fst z * fst z + snd z * snd z = probability ROps am v 1.
Proof. exact pos_psi_sq. Qed.
Print Assumptions C01_psi_sq_eq_probability_positive.

Theorem C01_psi_sq_eq_probability_complex : forall am ph v,
  let z := cplx_psi ROps am ph v in fst z * fst z + snd z * snd z = probability ROps am v 1.
Proof. exact cplx_psi_sq. Qed.
Print Assumptions C01_psi_sq_eq_probability_complex.

Theorem C01_probability_is_hidden_marginal : forall (r : brbm) v,
  length (bW r) = length (bc r) ->
  probability ROps r v 1 =
  sum_bits (length (bc r)) (fun h => exp (b_joint_exponent ROps r v h)).
Proof. exact probability_is_hidden_marginal. Qed.
Print Assumptions C01_probability_is_hidden_marginal.

Theorem C01_normalization_is_total : forall am n,
  normalization ROps am (all_bits n) = sum_bits n (fun v => probability ROps am v 1)
  /\ 0 < normalization ROps am (all_bits n).
Proof. intros am n; split; [exact (normalization_is_total am n) | exact (proj2 (partition_is_total am n))]. Qed.
Print Assumptions C01_normalization_is_total.

Theorem C01_normalized_probabilities_sum_to_one : forall am n,
  sum_bits n (fun v => probability ROps am v (normalization ROps am (all_bits n))) = 1.
Proof. exact normalized_probabilities_sum_to_one. Qed.
Print Assumptions C01_normalized_probabilities_sum_to_one.

Theorem C01_normalized_unit_norm_complex : forall am ph n,
  let Z := normalization ROps am (all_bits n) in
  sum_bits n (fun v => let z := cplx_psi ROps am ph v in (fst z * fst z + snd z * snd z) / Z) = 1.
Proof. exact normalized_state_unit_norm_cplx. Qed.
Print Assumptions C01_normalized_unit_norm_complex.

Theorem C01_normalized_unit_norm_positive : forall am n,
  let Z := normalization ROps am (all_bits n) in
  sum_bits n (fun v => let z := pos_psi ROps am v in (fst z * fst z + snd z * snd z) / Z) = 1.
Proof. exact normalized_state_unit_norm_pos. Qed.
Print Assumptions C01_normalized_unit_norm_positive.

Theorem C01_complex_modulus_ignores_phase_net : forall am ph ph' v,
  let z := cplx_psi ROps am ph v in let z' := cplx_psi ROps am ph' v in
  fst z * fst z + snd z * snd z = fst z' * fst z' + snd z' * snd z'.
Proof. exact cplx_modulus_ignores_phase. Qed.
Print Assumptions C01_complex_modulus_ignores_phase_net.

Theorem C01_complex_phase_is_half_neg_energy : forall am ph v,
  cplx_phase ROps ph v = - b_eff_energy ROps ph v / 2 /\
  cplx_psi ROps am ph v =
  (amplitude ROps am v * cos (- b_eff_energy ROps ph v / 2),
   amplitude ROps am v * sin (- b_eff_energy ROps ph v / 2)).
Proof. intros am ph v; split; [exact (cplx_phase_half ph v) | exact (cplx_psi_polar am ph v)]. Qed.
Print Assumptions C01_complex_phase_is_half_neg_energy.

Theorem C01_positive_is_real_positive : forall am v,
  snd (pos_psi ROps am v) = 0 /\ 0 < fst (pos_psi ROps am v).
Proof. exact pos_psi_real_positive. Qed.
Print Assumptions C01_positive_is_real_positive.

(* the enumeration used by the theorems is the set of all length-n states *)
Theorem C01_all_bits_is_the_whole_basis : forall n s, In s (all_bits n) <-> length s = n.
Proof. intros n s; split; [apply all_bits_length | apply all_bits_complete]. Qed.
Print Assumptions C01_all_bits_is_the_whole_basis.
