(* C16 — Composite observables evaluate to the same arithmetic on their parts.
   This file contains only theorem statements closed by [exact <lemma>] and [Print Assumptions].
   Model: QModel.ObsExpr (source expressions [oexpr], built objects [obs], Python operator
   dispatch [build], [apply], [statistics_from_samples]); proofs: QTheory.ObsExprT. *)
From Coq Require Import List Reals.
From QModel Require Import Num ObsExpr.
From QTheory Require Import RInst ObsExprT.
Import ListNotations.
Open Scope R_scope.

(* 1. every accepted expression tree (no depth bound), every leaf valuation of a common batch
      length: the built object applies to exactly the per-sample arithmetic of the tree *)
Theorem C16_build_apply_is_eval : forall (rho : nat -> list R) (n : nat),
  (forall i, length (rho i) = n) ->
  forall (e : oexpr R) (o : obs R),
  build ROps e = Ok (VObs o) -> apply ROps o rho = BV (pointwise ROps e rho n).
Proof. exact build_apply_is_eval. Qed.
Print Assumptions C16_build_apply_is_eval.

(* 1b. an expression without leaves folds to the scalar that the arithmetic gives *)
Theorem C16_constant_expression_folds : forall (e : oexpr R) (q : R),
  build ROps e = Ok (VScal q) -> forall env, evalpt ROps e env = q.
Proof. exact constant_expression_folds. Qed.
Print Assumptions C16_constant_expression_folds.

(* 2. rejection: building fails exactly on the syntactic predicate [rejects] (any number type) *)
Theorem C16_build_rejects_exactly_nonlinear : forall (T : Type) (O : NumOps T) (e : oexpr T),
  (exists k, build O e = Err k) <-> rejects e = true.
Proof. exact @build_rejects_iff. Qed.
Print Assumptions C16_build_rejects_exactly_nonlinear.

(* 2b. the predicate, stated without recursion: some sub-expression is an operator applied to a
       non-numeric operand, or a product of two sub-expressions that both contain a leaf *)
Theorem C16_build_rejects_exactly_offending_subexpression : forall (T : Type) (O : NumOps T) (e : oexpr T),
  (exists k, build O e = Err k) <-> exists s, subexpr s e /\ offending s.
Proof. exact @build_rejects_exactly. Qed.
Print Assumptions C16_build_rejects_exactly_offending_subexpression.

(* 2c. otherwise it succeeds with a value of the expression's syntactic kind *)
Theorem C16_build_accepts_with_kind : forall (T : Type) (O : NumOps T) (e : oexpr T),
  (exists v, build O e = Ok v /\ tag v = kind_of e) <-> rejects e = false.
Proof. exact @build_accepts_iff. Qed.
Print Assumptions C16_build_accepts_with_kind.

(* 3. statistics of the composite = statistics of the combined per-sample values.
      Note: [stats_of] is total (for a batch of one value it divides by n-1 = 0, mirroring torch's nan); this
      statement equates two evaluations of that same function, so it needs no guard; the closed forms that do
      depend on the division carry their guards: 3b has 2 <= length, 3c has 1 <= n.  [pointwise] reads the leaf
      lists with [nth] only at indices < n, which are in range by the hypothesis on the lengths. *)
Theorem C16_statistics_of_composite : forall (rho : nat -> list R) (n : nat),
  (forall i, length (rho i) = n) ->
  forall (e : oexpr R) (o : obs R),
  build ROps e = Ok (VObs o) ->
  statistics_from_samples ROps o rho = Some (stats_of ROps (pointwise ROps e rho n)).
Proof. exact statistics_of_composite. Qed.
Print Assumptions C16_statistics_of_composite.

(* 3b. ... and that summary is the textbook one (mean, unbiased variance by the sum-of-squares
       formula, standard error, count) *)
Theorem C16_statistics_are_one_pass : forall xs : list R,
  (2 <= length xs)%nat ->
  let n := INR (length xs) in
  let s := stats_of ROps xs in
  st_n s = length xs /\
  st_mean s = sum ROps xs / n /\
  st_var s = (sum ROps (map (fun x => x * x) xs) - n * (st_mean s * st_mean s)) / (n - 1) /\
  st_err s = sqrt (st_var s / n).
Proof. exact stats_of_textbook. Qed.
Print Assumptions C16_statistics_are_one_pass.

(* 3c. the mean of an accepted composite is the same arithmetic applied to the leaf means *)
Theorem C16_mean_of_composite_is_linear : forall (rho : nat -> list R) (n : nat),
  (forall i, length (rho i) = n) -> (1 <= n)%nat ->
  forall (e : oexpr R) (o : obs R),
  build ROps e = Ok (VObs o) ->
  exists s, statistics_from_samples ROps o rho = Some s /\
            st_n s = n /\ st_mean s = evalpt ROps e (leaf_means rho n).
Proof. exact mean_of_composite_is_linear. Qed.
Print Assumptions C16_mean_of_composite_is_linear.

(* 4. built objects are well formed and their apply returns a batch, never a bare float *)
Theorem C16_built_objects_apply_to_batches : forall (T : Type) (O : NumOps T) (e : oexpr T) (o : obs T) rho,
  build O e = Ok (VObs o) -> wf_obs o = true /\ exists v, apply O o rho = BV v.
Proof. exact built_objects_apply_to_batches. Qed.
Print Assumptions C16_built_objects_apply_to_batches.

(* 5. what each operator builds (the fields .left / .right of the real objects)
      (* definitional: computation of [build] on the ten basic forms; restates the model *) *)
Theorem C16_operator_shapes : forall (T : Type) (O : NumOps T) (i j : nat) (q : T),
  build O (Neg (Leaf i)) = Ok (VObs (ProdO (minus_one O) (Prim i))) /\
  build O (Sub (Leaf i) (Leaf j)) = Ok (VObs (SumO (Obs (Prim i)) (Obs (ProdO (minus_one O) (Prim j))))) /\
  build O (Sub (Leaf i) (Const q)) = Ok (VObs (SumO (Obs (Prim i)) (Scal (nopp O q)))) /\
  build O (Sub (Const q) (Leaf i)) = Ok (VObs (SumO (Scal q) (Obs (ProdO (minus_one O) (Prim i))))) /\
  build O (Mul (Leaf i) (Const q)) = Ok (VObs (ProdO q (Prim i))) /\
  build O (Mul (Const q) (Leaf i)) = Ok (VObs (ProdO q (Prim i))) /\
  build O (Add (Leaf i) (Const q)) = Ok (VObs (SumO (Obs (Prim i)) (Scal q))) /\
  build O (Add (Const q) (Leaf i)) = Ok (VObs (SumO (Scal q) (Obs (Prim i)))) /\
  build O (Mul (Leaf i) (Leaf j)) = Err EValueError /\
  build O (Add (Leaf i) Junk) = Err ETypeError.
Proof. exact operator_shapes. Qed.
Print Assumptions C16_operator_shapes.

(* non-vacuity of the hypotheses used above (* definitional: a computed example *) *)
Theorem C16_hypotheses_satisfiable :
  let e : oexpr R := Sub (Mul (Const 2) (Leaf 0)) (Add (Leaf 1) (Const 3)) in
  let rho : nat -> list R := fun i => match i with O => [1; 2; 4] | _ => [3; 5; 6] end in
  (exists o, build ROps e = Ok (VObs o) /\ wf_obs o = true) /\
  (forall i, length (rho i) = 3%nat) /\ (2 <= 3)%nat /\ rejects e = false /\
  pointwise ROps e rho 3 = [2 * 1 - (3 + 3); 2 * 2 - (5 + 3); 2 * 4 - (6 + 3)].
Proof. exact hypotheses_satisfiable. Qed.
Print Assumptions C16_hypotheses_satisfiable.
