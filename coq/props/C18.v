(* C18 — Early stopping halts exactly when its documented convergence rule is met.
   Only theorem statements closed by [exact <lemma>] and [Print Assumptions].
   Model: QModel.Callbacks (es_construct, es_rule, es_on_epoch_end, es_fit); proofs: QTheory.CallbacksT.
   Specification (QTheory.CallbacksT):
     dev c cur prev      = |(M_{t-p} - M_t)/M_{t-p}|,  |M_{t-p} - M_t|,  |M_{t-p} - M_t| / sqrt(var_{t-p})
     should_stop h p tol c := length h >= p+1 /\ dev c (h[len-1]) (h[len-1-p]) < tol
     seen ev_first ev plan k = the evaluations visible to the stopper at the k-th EpochEnd of the plan
                               (ev_first: evaluator listed before the stopper, so it includes this epoch's evaluation)
     convergent ... k    := the k-th epoch is checked by the stopper (period gate) and should_stop holds there. *)
From Coq Require Import List ZArith Reals.
From QModel Require Import Num Callbacks.
From QTheory Require Import RInst CallbacksT.
Import ListNotations.
Local Open Scope nat_scope.

(* the executable decision (gate len > p, look-back index -p-1, current index -1) is the documented rule *)
(* NOTE on zeros: [dev] uses Coq's totalised [/]; at M_{t-p} = 0 (relative) or variance_{t-p} = 0 (variance) this
   statement relates two totalised expressions and carries no information about the implementation's IEEE
   behaviour there (deviation inf / nan, never below the tolerance); those cases are decided by the check.
   C18_rule_guarded below is the form with the guard written out and no division in the specification. *)
Theorem C18_rule_is_documented_rule : forall (c : criterion) (p : nat) (tol : R) (hist : list (R * R)),
  es_rule ROps c p tol hist = true <-> should_stop hist p tol c.
Proof. exact es_rule_iff_should_stop. Qed.
Print Assumptions C18_rule_is_documented_rule.

Theorem C18_rule_guarded : forall (c : criterion) (p : nat) (tol : R) (hist : list (R * R)),
  (length hist >= p + 1 -> nz_guard c (nth (length hist - 1 - p) hist (0%R, 0%R))) ->
  (es_rule ROps c p tol hist = true <-> should_stop_nodiv hist p tol c).
Proof. exact es_rule_guarded. Qed.
Print Assumptions C18_rule_guarded.

Theorem C18_nz_guard_example : nz_guard Relative (5%R, 0%R) /\ nz_guard Variance (5%R, 2%R) /\ ~ nz_guard Relative (0%R, 1%R).
Proof. exact nz_guard_example. Qed.
Print Assumptions C18_nz_guard_example.

(* 1. the run stops at the first checked epoch at which should_stop holds, and at no earlier one;
      otherwise it completes.  For every evaluator kind / getter pair that can read the monitored quantity. *)
Theorem C18_stops_at_first_convergent_check :
  forall (St V : Type) (value_of variance_of : V -> result R) (val var : V -> R)
         (metrics : St -> vals V) (g : St -> V) (qname : name) (crit : criterion),
  (forall s, lookup qname (metrics s) = Some (g s) /\ readable value_of variance_of val var crit (g s)) ->
  forall (ev_first : bool) (plan : list (Z * St)) (ev : evaluator V) (st : stopper R),
  wf_stopper qname crit st -> tracked value_of variance_of val var qname crit ev ->
  match es_fit ROps value_of variance_of ev_first metrics ev st plan with
  | (evf, stf, Stopped e, ran) =>
      exists k, nth_error (map fst plan) k = Some e /\
                convergent val var g qname crit ev_first ev st plan k /\
                (forall j, j < k -> ~ convergent val var g qname crit ev_first ev st plan j) /\
                ran = firstn (S k) (map fst plan) /\
                st_last_epoch stf = Some e /\
                evf = ev_run metrics ev (firstn (S k) plan)
  | (evf, stf, Completed, ran) =>
      (forall j, ~ convergent val var g qname crit ev_first ev st plan j) /\ ran = map fst plan /\ stf = st /\
      evf = ev_run metrics ev plan
  | (_, _, Raised _ _, _) => False
  end.
Proof. exact @es_fit_spec. Qed.
Print Assumptions C18_stops_at_first_convergent_check.

(* 2. never before p earlier evaluations exist; never an evaluation compared with itself *)
Theorem C18_never_before_p_earlier_evaluations :
  forall (St V : Type) (value_of variance_of : V -> result R) (val var : V -> R)
         (metrics : St -> vals V) (g : St -> V) (qname : name) (crit : criterion),
  (forall s, lookup qname (metrics s) = Some (g s) /\ readable value_of variance_of val var crit (g s)) ->
  forall (ev_first : bool) (plan : list (Z * St)) (ev : evaluator V) (st : stopper R),
  wf_stopper qname crit st -> tracked value_of variance_of val var qname crit ev ->
  match es_fit ROps value_of variance_of ev_first metrics ev st plan with
  | (_, _, Stopped e, ran) =>
      exists k, nth_error (map fst plan) k = Some e /\
                length (seen val var g qname ev_first ev plan k) >= st_patience st + 1
  | _ => True
  end.
Proof. exact @never_before_p_earlier_evaluations. Qed.
Print Assumptions C18_never_before_p_earlier_evaluations.

Theorem C18_never_self_comparison : forall len p : nat, 1 <= p -> p < len ->
  exists i j, norm_index len (- Z.of_nat p - 1) = Some i /\ norm_index len (-1) = Some j /\
              i <> j /\ i + p = j /\ j = len - 1.
Proof. exact never_self_comparison. Qed.
Print Assumptions C18_never_self_comparison.

(* 3. constructor table *)
(* definitional (this and the next four): the constructor table restates the model; the exception CLASSES are a
   modelling detail, the property only says "refused"; evidence = the constructor table and the paired sessions of the check *)
Theorem C18_variance_refused_for_metrics : forall crit : name,
  normalize crit = n_variance -> es_construct KMetric crit = Err TypeError.
Proof. exact variance_refused_for_metrics. Qed.
Print Assumptions C18_variance_refused_for_metrics.

Theorem C18_criterion_names_accepted : forall (k : evkind) (crit : name), k <> KOther ->
  (normalize crit = n_relative -> es_construct k crit = Ok Relative) /\
  (normalize crit = n_absolute -> es_construct k crit = Ok Absolute) /\
  (normalize crit = n_variance -> es_construct KObservable crit = Ok Variance).
Proof. exact criterion_names_accepted. Qed.
Print Assumptions C18_criterion_names_accepted.

Theorem C18_unknown_criterion_rejected : forall (k : evkind) (crit : name), k <> KOther ->
  normalize crit <> n_relative -> normalize crit <> n_absolute -> normalize crit <> n_variance ->
  es_construct k crit = Err ValueError.
Proof. exact unknown_criterion_rejected. Qed.
Print Assumptions C18_unknown_criterion_rejected.

Theorem C18_non_evaluator_rejected : forall crit : name, es_construct KOther crit = Err TypeError.
Proof. exact non_evaluator_rejected. Qed.
Print Assumptions C18_non_evaluator_rejected.

Theorem C18_deprecated_class_is_variance_criterion :
  (forall k, vbes_construct k = es_construct k n_variance) /\
  vbes_construct KObservable = Ok Variance /\ vbes_construct KMetric = Err TypeError /\
  vbes_construct KOther = Err TypeError.
Proof. exact deprecated_class_is_variance_criterion. Qed.
Print Assumptions C18_deprecated_class_is_variance_criterion.

(* the deviations without division (M_{t-p} <> 0, var_{t-p} > 0) *)
Theorem C18_relative_rule_no_division : forall prev cur tol : R, fst (prev, 0%R) <> 0%R ->
  (dev Relative (cur, 0%R) (prev, 0%R) < tol <-> Rabs (prev - cur) < tol * Rabs prev)%R.
Proof. exact relative_rule_no_division. Qed.
Print Assumptions C18_relative_rule_no_division.

Theorem C18_variance_rule_no_division : forall prev cur pvar tol : R, (0 < pvar)%R ->
  (dev Variance (cur, 0%R) (prev, pvar) < tol <-> Rabs (prev - cur) < tol * sqrt pvar)%R.
Proof. exact variance_rule_no_division. Qed.
Print Assumptions C18_variance_rule_no_division.

Theorem C18_zero_tolerance_never_stops : forall (c : criterion) (hist : list (R * R)) (p : nat) (tol : R),
  c <> Variance -> (tol <= 0)%R -> ~ should_stop hist p tol c.
Proof. exact zero_tolerance_never_stops. Qed.
Print Assumptions C18_zero_tolerance_never_stops.

(* non-vacuity: the hypotheses of theorem 1 hold for MetricEvaluator (relative/absolute) and for
   ObservableEvaluator (all criteria); a history on which the rule fires exactly at the 4th evaluation *)
Theorem C18_metric_instance_hyps : forall crit : criterion, crit <> Variance ->
  forall s : R, lookup q_demo [(q_demo, s)] = Some s /\
                readable (metric_value_of (T:=R)) (metric_variance_of (T:=R)) (fun v => v) (fun _ => 0%R) crit s.
Proof. exact metric_instance_hyps. Qed.
Print Assumptions C18_metric_instance_hyps.

Theorem C18_observable_instance_hyps : forall crit : criterion,
  forall s : R * R, lookup q_demo [(q_demo, obs_dict s)] = Some (obs_dict s) /\
                    readable (obs_value_of (T:=R)) (obs_variance_of (T:=R)) obs_val obs_var crit (obs_dict s).
Proof. exact observable_instance_hyps. Qed.
Print Assumptions C18_observable_instance_hyps.

Theorem C18_should_stop_example :
  let h := [(5, 0); (3, 0); (1, 0); (1, 0)]%R in
  should_stop h 1 (5 / 100) Absolute /\ ~ should_stop (firstn 3 h) 1 (5 / 100) Absolute /\
  ~ should_stop (firstn 2 h) 1 (5 / 100) Absolute /\ ~ should_stop (firstn 1 h) 1 (5 / 100) Absolute.
Proof. exact should_stop_example. Qed.
Print Assumptions C18_should_stop_example.

(* ---------------------------------------------------------------------------------------------
   Link to C12 (QModel.Protocol, the fit machine; proof: QTheory.Links, module L1).
   Theorem 1 instantiated on plans whose epochs are the EpochEnd epochs of a run of the fit machine:
   those are the consecutive range start, start+1, ... ([zrange]), so position k of the plan IS epoch
   start + k, no epoch occurs twice, and "the first checked epoch at which the rule holds" is
   unambiguous; the epochs that ran are start .. start+k. *)
From QModel Require Import Protocol.
From QTheory Require Links.
Import Links.L1.

Theorem C18_stopper_on_fit_run :
  forall (St V : Type) (value_of variance_of : V -> result R) (val var : V -> R)
         (metrics : St -> vals V) (g : St -> V) (qname : name) (crit : criterion),
  (forall s, lookup qname (metrics s) = Some (g s) /\ readable value_of variance_of val var crit (g s)) ->
  forall (inj : injector) (sched : bool) (start epochs : Z) (nb ver0 : nat)
         (ev_first : bool) (plan : list (Z * St)) (ev : evaluator V) (st : stopper R),
  map fst plan = epoch_ends (ctrace (fit inj sched start epochs nb false ver0)) ->
  wf_stopper qname crit st -> tracked value_of variance_of val var qname crit ev ->
  let conv := convergent val var g qname crit ev_first ev st plan in
  match es_fit ROps value_of variance_of ev_first metrics ev st plan with
  | (evf, stf, Stopped e, ran) =>
      exists k, e = (start + Z.of_nat k)%Z /\ k < length plan /\
                conv k /\ (forall j, j < k -> ~ conv j) /\
                (forall k', nth_error (map fst plan) k' = Some e -> k' = k) /\
                ran = zrange start (S k) /\
                st_last_epoch stf = Some e /\
                evf = ev_run metrics ev (firstn (S k) plan)
  | (evf, stf, Completed, ran) =>
      (forall j, ~ conv j) /\ ran = zrange start (length plan) /\
      length plan <= num_epochs start epochs /\ stf = st /\ evf = ev_run metrics ev plan
  | (_, _, Raised _ _, _) => False
  end.
Proof. exact @Links.L1.stopper_on_fit_run. Qed.
Print Assumptions C18_stopper_on_fit_run.
