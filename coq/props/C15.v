(* C15 — The complex-tensor kernel (qucumber/utils/cplx.py) agrees with complex arithmetic.
   Only theorem statements closed by [exact <lemma>] + [Print Assumptions].
   Model: QModel.Cplx at T := R (ROps).  Specification side: Coquelicot's C = R * R with
   Cplus / Cmult / Cconj / Cmod / Cinv / Cdiv, and the list-level specifications of QTheory.CplxR
   (Cdot x y = sum_k x_k y_k, CVM / Cmatmul, Cmatvec, Cinner x y = sum_k conj(x_k) y_k, Couter,
   Cein_abcd / Ckron, Cein_ib_ibg, Cexp z = e^(re z) (cos(im z) + i sin(im z))). *)
From Coq Require Import List Bool Arith Reals.
From Coquelicot Require Import Coquelicot.
From QModel Require Import Num CBase Cplx.
From QTheory Require Import RInst CplxR.
Import ListNotations.
Open Scope R_scope.

(* ---------------------------------------------------------------- scalar layer = Coquelicot *)
Theorem C15_scalar_ops_are_native : forall a b : C,
  cmul ROps a b = Cmult a b /\ cadd ROps a b = Cplus a b /\ csub ROps a b = Cminus a b /\
  cconj ROps a = Cconj a /\ cabs ROps a = Cmod a /\ cinv ROps a = Cinv a /\ cdiv ROps a b = Cdiv a b.
Proof.
  intros a b. exact (Logic.conj (cmul_is_Cmult a b) (Logic.conj (cadd_is_Cplus a b) (Logic.conj (csub_is_Cminus a b) (Logic.conj (cconj_is_Cconj a) (Logic.conj (cabs_is_Cmod a) (Logic.conj (cinv_is_Cinv a) (cdiv_is_Cdiv a b))))))).
Qed.
Print Assumptions C15_scalar_ops_are_native.

Theorem C15_inverse_inverts_nonzero : forall a : C, a <> RtoC 0 -> Cmult a (cinv ROps a) = RtoC 1.
Proof. exact cinv_inverts. Qed.
Print Assumptions C15_inverse_inverts_nonzero.

(* ---------------------------------------------------------------- 1. complexification of a bilinear map *)
(* for EVERY real-bilinear form b on abstract real modules V, W (lists, matrices, ... with a
   well-shapedness predicate), the model's combinator (b ra rb - b ia ib, b ra ib + b ia rb)
   extends b and is complex-bilinear for the complex structure on pairs (re, im) *)
Theorem C15_complexified_bilinear :
  forall (V W : Type) (addV subV : V -> V -> V) (sclV : R -> V -> V) (okV : V -> Prop)
         (addW subW : W -> W -> W) (sclW : R -> W -> W) (okW : W -> Prop),
  (forall c u, okV u -> okV (sclV c u)) -> (forall c w, okW w -> okW (sclW c w)) ->
  forall b : V -> W -> R,
  (forall u u' w, okV u -> okV u' -> okW w -> b (addV u u') w = b u w + b u' w) ->
  (forall u u' w, okV u -> okV u' -> okW w -> b (subV u u') w = b u w - b u' w) ->
  (forall c u w, okV u -> okW w -> b (sclV c u) w = c * b u w) ->
  (forall u w w', okV u -> okW w -> okW w' -> b u (addW w w') = b u w + b u w') ->
  (forall u w w', okV u -> okW w -> okW w' -> b u (subW w w') = b u w - b u w') ->
  (forall c u w, okV u -> okW w -> b u (sclW c w) = c * b u w) ->
  let bc := fun (a : V * V) (c : W * W) => complexify Rminus Rplus b (fst a) (snd a) (fst c) (snd c) in
  (forall u w, okV u -> okW w -> bc (realV V sclV u) (realW W sclW w) = RtoC (b u w))
  /\ (forall a a' c, okVC V okV a -> okVC V okV a' -> okWC W okW c ->
        bc (addVC V addV a a') c = Cplus (bc a c) (bc a' c))
  /\ (forall a c c', okVC V okV a -> okWC W okW c -> okWC W okW c' ->
        bc a (addWC W addW c c') = Cplus (bc a c) (bc a c'))
  /\ (forall z a c, okVC V okV a -> okWC W okW c -> bc (sclVC V addV subV sclV z a) c = Cmult z (bc a c))
  /\ (forall z a c, okVC V okV a -> okWC W okW c -> bc a (sclWC W addW subW sclW z c) = Cmult z (bc a c)).
Proof. exact complexified_bilinear. Qed.
Print Assumptions C15_complexified_bilinear.

(* ... and it is the only such map: a complex-bilinear F restricting to b on real arguments is the combinator *)
Theorem C15_complexification_unique :
  forall (V W : Type) (sclV : R -> V -> V) (okV : V -> Prop) (sclW : R -> W -> W) (okW : W -> Prop)
         (b : V -> W -> R) (F : V * V -> W * W -> C),
  (forall u w, okV u -> okW w -> F (realV V sclV u) (realW W sclW w) = RtoC (b u w)) ->
  (forall u u' w w', okV u -> okV u' -> okW w -> okW w' ->
      F (u, u') (w, w') =
      Cplus (Cplus (F (realV V sclV u) (realW W sclW w)) (Cmult Ci (F (realV V sclV u) (realW W sclW w'))))
            (Cplus (Cmult Ci (F (realV V sclV u') (realW W sclW w)))
                   (Cmult (Cmult Ci Ci) (F (realV V sclV u') (realW W sclW w'))))) ->
  forall a c, okVC V okV a -> okWC W okW c -> F a c = bC V W b a c.
Proof. exact complexification_unique. Qed.
Print Assumptions C15_complexification_unique.

(* instance: torch.dot on length-n vectors satisfies the hypotheses (non-vacuity), and its
   complexification is the native complex dot product of the encoded vectors *)
Theorem C15_complexified_dot : forall (n : nat) (x y : list C),
  (forall z a c, okVC (list R) (len_is n) a -> okVC (list R) (len_is n) c ->
     bC (list R) (list R) (dot ROps) (sclVC (list R) (vadd ROps) (vsub ROps) (vscale ROps) z a) c
     = Cmult z (bC (list R) (list R) (dot ROps) a c))
  /\ bC (list R) (list R) (dot ROps) (re1 x, im1 x) (re1 y, im1 y) = Cdot x y.
Proof.
  intros n x y. split;
    [exact (proj1 (proj2 (proj2 (proj2 (complexified_dot n))))) | exact (complexified_dot_is_Cdot x y)].
Qed.
Print Assumptions C15_complexified_dot.

Example C15_complexified_dot_hypotheses_satisfiable :
  okVC (list R) (len_is 2) ([1; 2], [3; -1]) /\ dot ROps [1; 2] [3; -1] = 1.
Proof. exact complexified_dot_hypotheses_satisfiable. Qed.

(* ---------------------------------------------------------------- instances for the library's products *)
(* scalar_mult / elementwise_mult: pointwise Cmult with torch broadcasting *)
(* definitional: restates the model (up to cmul = Cmult / cconj = Cconj, which is the content) *)
Theorem C15_scalar_mult_is_pointwise_Cmult : forall x y : tens C,
  scalar_mult ROps x y = of_opt RuntimeErr (tzip_bcast Cmult x y)
  /\ elementwise_mult ROps x y = of_opt RuntimeErr (tzip_bcast Cmult x y).
Proof. intros x y; split; [exact (scalar_mult_is x y) | exact (elementwise_mult_is x y)]. Qed.
Print Assumptions C15_scalar_mult_is_pointwise_Cmult.

Theorem C15_scalar_mult_shapes : forall (a b : C) (x y : list C) (m : list (list C)),
  scalar_mult ROps (T0 a) (T0 b) = Ok (T0 (Cmult a b))
  /\ scalar_mult ROps (T0 a) (T1 y) = Ok (T1 (map (Cmult a) y))
  /\ scalar_mult ROps (T1 x) (T0 b) = Ok (T1 (map (fun c => Cmult c b) x))
  /\ scalar_mult ROps (T0 a) (T2 m) = Ok (T2 (map (map (Cmult a)) m))
  /\ (length x = length y -> scalar_mult ROps (T1 x) (T1 y) = Ok (T1 (zipw Cmult x y)))
  /\ (length x <> length y -> length x <> 1%nat -> length y <> 1%nat ->
      scalar_mult ROps (T1 x) (T1 y) = RuntimeErr).
Proof.
  intros a b x y m. exact (Logic.conj (scalar_mult_scalars a b) (Logic.conj (scalar_mult_scalar_vector a y) (Logic.conj (scalar_mult_vector_scalar x b) (Logic.conj (scalar_mult_scalar_matrix a m) (Logic.conj (scalar_mult_vectors x y) (scalar_mult_vectors_mismatch x y)))))).
Qed.
Print Assumptions C15_scalar_mult_shapes.

Theorem C15_hadamard_is_complexified : forall x y : list C,
  zipw Cmult x y =
  let p := complexify (vsub ROps) (vadd ROps) (vmul ROps) (re1 x) (im1 x) (re1 y) (im1 y) in cmb1 (fst p) (snd p).
Proof. exact hadamard_is_complexified. Qed.
Print Assumptions C15_hadamard_is_complexified.

(* matmul: matrix * matrix and matrix * vector *)
Theorem C15_matmul_is_complex_matmul : forall (x y : list (list C)) (v : list C),
  matmul ROps (T2 x) (T2 y) =
    (if rectb (length y) x && rectb (ncols y) y then Ok (T2 (Cmatmul (ncols y) x y)) else RuntimeErr)
  /\ matmul ROps (T2 x) (T1 v) = (if rectb (length v) x then Ok (T1 (Cmatvec x v)) else RuntimeErr).
Proof. intros x y v; split; [exact (matmul_matrices x y) | exact (matmul_matrix_vector x v)]. Qed.
Print Assumptions C15_matmul_is_complex_matmul.

Theorem C15_matmul_entry : forall (x y z : list (list C)) i j,
  matmul_mm ROps x y = Some z -> (i < length x)%nat -> (j < ncols y)%nat ->
  nth j (nth i z []) (RtoC 0) = Cdot (nth i x []) (map (fun r => nth j r (RtoC 0)) y).
Proof. exact matmul_entry. Qed.
Print Assumptions C15_matmul_entry.

(* einsum: the equations the library uses, with the real_part / imag_part switches *)
Theorem C15_einsum_ab_cd : forall rp ip (x y : list (list C)),
  einsum_ab_cd ROps rp ip x y =
  if rectb (ncols x) x && rectb (ncols y) y
  then Some (eres_select rp ip (re4 (Cein_abcd x y)) (im4 (Cein_abcd x y))) else None.
Proof. exact einsum_ab_cd_is. Qed.
Print Assumptions C15_einsum_ab_cd.

Theorem C15_einsum_b_bg : forall rp ip ng (x : list C) (y : list (list C)),
  einsum_b_bg ROps rp ip ng x y =
  if Nat.eqb (length x) (length y) && rectb ng y
  then Some (eres_select rp ip (re1 (CVM ng x y)) (im1 (CVM ng x y))) else None.
Proof. exact einsum_b_bg_is. Qed.
Print Assumptions C15_einsum_b_bg.

Theorem C15_einsum_ib_ibg : forall rp ip nb ng (x : list (list C)) (y : list (list (list C))),
  einsum_ib_ibg ROps rp ip nb ng x y =
  if Nat.eqb (length x) (length y) && rectb nb x && rect3b nb ng y
  then Some (eres_select rp ip (re2 (Cein_ib_ibg nb ng x y)) (im2 (Cein_ib_ibg nb ng x y))) else None.
Proof. exact einsum_ib_ibg_is. Qed.
Print Assumptions C15_einsum_ib_ibg.

Theorem C15_einsum_ijb_ijbg : forall rp ip nj nb ng (x : list (list (list C))) (y : list (list (list (list C)))),
  einsum_ijb_ijbg ROps rp ip nj nb ng x y =
  if Nat.eqb (length x) (length y) && rect3b nj nb x && rect4b nj nb ng y
  then Some (eres_select rp ip (re2 (Cein_ib_ibg nb ng (concat x) (concat y)))
                                (im2 (Cein_ib_ibg nb ng (concat x) (concat y)))) else None.
Proof. exact einsum_ijb_ijbg_is. Qed.
Print Assumptions C15_einsum_ijb_ijbg.

(* the row-times-matrix contraction used by "b,bg->g" and matmul is sum_k row_k * y_kj *)
Theorem C15_contraction_entry : forall m (row : list C) (y : list (list C)) j,
  rectb m y = true -> (j < m)%nat ->
  nth j (CVM m row y) (RtoC 0) = Cdot row (map (fun r => nth j r (RtoC 0)) y).
Proof. exact CVM_entry. Qed.
Print Assumptions C15_contraction_entry.

(* kronecker_prod: entry (i*p + k, j*q + l) = x_ij * y_kl, non-square operands included *)
Theorem C15_kronecker_prod_is_Ckron : forall x y : list (list C),
  kronecker_prod ROps (T2 x) (T2 y) =
  if rectb (ncols x) x && rectb (ncols y) y then Ok (T2 (Ckron x y)) else RuntimeErr.
Proof. exact kronecker_prod_matrices. Qed.
Print Assumptions C15_kronecker_prod_is_Ckron.

Theorem C15_kronecker_entry : forall (x y : list (list C)) m p q i j k l,
  rectb m x = true -> rectb q y = true -> length y = p ->
  (i < length x)%nat -> (k < p)%nat -> (j < m)%nat -> (l < q)%nat ->
  nth (j * q + l) (nth (i * p + k) (Ckron x y) []) (RtoC 0)
  = Cmult (nth j (nth i x []) (RtoC 0)) (nth l (nth k y []) (RtoC 0)).
Proof. exact Ckron_entry. Qed.
Print Assumptions C15_kronecker_entry.

Example C15_kronecker_entry_hypotheses_satisfiable :
  let x := [[(1, 2); (3, 4); (5, 6)]] in let y := [[(1, 0)]; [(0, 1)]] in
  rectb 3 x = true /\ rectb 1 y = true /\ length y = 2%nat /\ length (Ckron x y) = 2%nat.
Proof. cbv zeta. repeat split. Qed.

(* ---------------------------------------------------------------- 2. inner / outer products, conjugation *)
Theorem C15_inner_prod_is_conj_linear_left : forall (x x' y : list C) (z a b : C),
  inner_prod ROps (T1 x) (T1 y) = (if Nat.eqb (length x) (length y) then Ok (T0 (Cinner x y)) else RuntimeErr)
  /\ inner_prod ROps (T0 a) (T0 b) = Ok (T0 (Cmult (Cconj a) b))
  /\ Cinner (map (Cmult z) x) y = Cmult (Cconj z) (Cinner x y)
  /\ Cinner x (map (Cmult z) y) = Cmult z (Cinner x y)
  /\ (length x = length x' -> Cinner (zipw Cplus x x') y = Cplus (Cinner x y) (Cinner x' y))
  /\ (length x = length y -> Cinner y x = Cconj (Cinner x y)).
Proof.
  intros x x' y z a b. exact (Logic.conj (inner_prod_vectors x y) (Logic.conj (inner_prod_scalars a b) (Logic.conj (Cinner_scal_l z x y) (Logic.conj (Cinner_scal_r z x y) (Logic.conj (Cinner_add_l x x' y) (Cinner_conj_sym x y)))))).
Qed.
Print Assumptions C15_inner_prod_is_conj_linear_left.

Theorem C15_outer_prod_is_x_conj_y : forall x y : list C,
  outer_prod ROps (T1 x) (T1 y) = Ok (T2 (map (fun a => map (fun b => Cmult a (Cconj b)) y) x)).
Proof. exact outer_prod_vectors. Qed.
Print Assumptions C15_outer_prod_is_x_conj_y.

(* definitional: restates the model (up to cmul = Cmult / cconj = Cconj, which is the content) *)
Theorem C15_conj_is_pointwise_Cconj : forall x : tens C, conj ROps x = tmap Cconj x.
Proof. exact conj_is. Qed.
Print Assumptions C15_conj_is_pointwise_Cconj.

Theorem C15_conjugate : forall (z : C) (v : list C) (m : list (list C)) i j d,
  conjugate ROps (T0 z) = T0 (Cconj z) /\ conjugate ROps (T1 v) = T1 (map Cconj v) /\
  (rectb (ncols m) m = true -> (i < length m)%nat -> (j < ncols m)%nat ->
   exists r, conjugate ROps (T2 m) = T2 r /\ length r = ncols m /\ rectb (length m) r = true /\
             nth i (nth j r []) (Cconj d) = Cconj (nth j (nth i m []) d)).
Proof.
  intros z v m i j d. exact (Logic.conj (conjugate_scalar z) (Logic.conj (conjugate_vector v) (conjugate_matrix_entry m i j d))).
Qed.
Print Assumptions C15_conjugate.

Theorem C15_conjugate_rank3_swaps_first_two_indices : forall (t : list (list (list C))) i j,
  rectb (ncols t) t = true -> (i < length t)%nat -> (j < ncols t)%nat ->
  exists r, conjugate ROps (T3 t) = T3 r /\ length r = ncols t /\
            nth i (nth j r []) [] = map Cconj (nth j (nth i t []) []).
Proof. exact conjugate_rank3_entry. Qed.
Print Assumptions C15_conjugate_rank3_swaps_first_two_indices.

Example C15_conjugate_hypotheses_satisfiable :
  let m := [[(1, 2); (3, 4); (5, 6)]; [(7, 8); (9, 1); (2, 3)]] in
  rectb (ncols m) m = true /\ (1 < length m)%nat /\ (2 < ncols m)%nat.
Proof. cbv zeta. cbn. repeat split; auto. Qed.

Theorem C15_transpose_swaps_indices : forall (A : Type) nc (m : list (list A)) i j d,
  rectb nc m = true -> (i < length m)%nat -> (j < nc)%nat ->
  nth i (nth j (transpose nc m) []) d = nth j (nth i m []) d.
Proof. exact @transpose_entry. Qed.
Print Assumptions C15_transpose_swaps_indices.

(* ---------------------------------------------------------------- modulus, norms, inverse, divisions, sigmoid *)
Theorem C15_absolute_value_is_Cmod : forall x : tens C, absolute_value ROps x = tmap Cmod x.
Proof. exact absolute_value_is. Qed.
Print Assumptions C15_absolute_value_is_Cmod.

Theorem C15_norms : forall (x : list C) (z : C),
  norm_sqr ROps (T1 x) = Ok (sum ROps (map (fun c => Cmod c * Cmod c) x))
  /\ norm ROps (T1 x) = Ok (sqrt (sum ROps (map (fun c => Cmod c * Cmod c) x)))
  /\ norm_sqr ROps (T0 z) = Ok (Cmod z * Cmod z) /\ norm ROps (T0 z) = Ok (Cmod z).
Proof.
  intros x z. exact (Logic.conj (norm_sqr_vector x) (Logic.conj (norm_vector x) (Logic.conj (norm_sqr_scalar z) (norm_scalar z)))).
Qed.
Print Assumptions C15_norms.

Theorem C15_inverse_is_Cinv : forall x : tens C, inverse ROps x = tmap Cinv x.
Proof. exact inverse_is. Qed.
Print Assumptions C15_inverse_is_Cinv.

Theorem C15_scalar_divide : forall x y : tens C,
  scalar_divide ROps x y = of_opt RuntimeErr (tzip_bcast Cmult x (tmap Cinv y)).
Proof. exact scalar_divide_is. Qed.
Print Assumptions C15_scalar_divide.

Theorem C15_elementwise_division_is_Cdiv : forall (x y : tens C) (u v : list C) (a b : C),
  elementwise_division ROps x y = of_opt ValueErr (tzip_strict Cdiv x y)
  /\ elementwise_division ROps (T1 u) (T1 v) =
     (if Nat.eqb (length u) (length v) then Ok (T1 (zipw Cdiv u v)) else ValueErr)
  /\ (b <> RtoC 0 -> Cmult (cediv ROps a b) b = a).
Proof.
  intros x y u v a b. exact (Logic.conj (elementwise_division_is x y) (Logic.conj (elementwise_division_vectors u v) (cediv_divides a b))).
Qed.
Print Assumptions C15_elementwise_division_is_Cdiv.

(* the two real arguments are broadcast against each other (numpy's rule = tzip_bcast), as the code does *)
Theorem C15_sigmoid_is_exp_over_one_plus_exp : forall (x y : tens R) (t : R),
  sigmoid ROps x y =
    of_opt ValueErr (tzip_bcast (fun a b => Cdiv (Cexp (a, b)) (Cplus (RtoC 1) (Cexp (a, b)))) x y)
  /\ csigmoid ROps t 0 = RtoC (exp t / (1 + exp t)).
Proof. intros x y t; exact (Logic.conj (sigmoid_is x y) (csigmoid_real t)). Qed.
Print Assumptions C15_sigmoid_is_exp_over_one_plus_exp.

Theorem C15_sigmoid_shapes : forall (u v : list R) (a b : R),
  let sg := fun a b : R => Cdiv (Cexp (a, b)) (Cplus (RtoC 1) (Cexp (a, b))) in
  (length u = length v -> sigmoid ROps (T1 u) (T1 v) = Ok (T1 (zipw sg u v)))
  /\ sigmoid ROps (T1 [a]) (T1 v) = Ok (T1 (map (sg a) v))
  /\ sigmoid ROps (T0 a) (T1 v) = Ok (T1 (map (sg a) v))
  /\ sigmoid ROps (T1 u) (T1 [b]) = Ok (T1 (map (fun a => sg a b) u))
  /\ (length u <> length v -> length u <> 1%nat -> length v <> 1%nat -> sigmoid ROps (T1 u) (T1 v) = ValueErr).
Proof.
  intros u v a b. exact (Logic.conj (sigmoid_vectors u v) (Logic.conj (proj1 (sigmoid_broadcast_left a v))
    (Logic.conj (proj2 (sigmoid_broadcast_left a v)) (Logic.conj (sigmoid_broadcast_right u b) (sigmoid_rejects_non_broadcastable u v))))).
Qed.
Print Assumptions C15_sigmoid_shapes.

(* ---------------------------------------------------------------- make_complex / real / imag *)
Theorem C15_make_complex_round_trips : forall (z : tens C) (x y : tens R),
  make_complex (treal z) (timag z) = Ok z
  /\ (make_complex x y = Ok z -> treal z = x /\ timag z = y).
Proof. intros z x y; split; [exact (make_complex_of_parts z) | exact (real_imag_of_make_complex x y z)]. Qed.
Print Assumptions C15_make_complex_round_trips.

(* ---------------------------------------------------------------- 3. rejects *)
Theorem C15_rejects_shape_mismatch : forall (x y : tens C) (u v : list C) (r s : tens R) (p q : list R),
  (~ (trank x = 0 /\ trank y = 0)%nat -> ~ (trank x = 1 /\ trank y = 1)%nat -> inner_prod ROps x y = ValueErr)
  /\ ((trank x <> 1 \/ trank y <> 1)%nat -> outer_prod ROps x y = ValueErr)
  /\ ((trank x <> 2 \/ trank y <> 2)%nat -> kronecker_prod ROps x y = ValueErr)
  /\ (trank x <> trank y -> elementwise_division ROps x y = ValueErr)
  /\ (length u <> length v -> elementwise_division ROps (T1 u) (T1 v) = ValueErr)
  /\ (length u <> length v -> inner_prod ROps (T1 u) (T1 v) = RuntimeErr)
  /\ (trank r <> trank s -> make_complex r s = RuntimeErr)
  /\ (length p <> length q -> make_complex (T1 p) (T1 q) = RuntimeErr).
Proof.
  intros x y u v r s p q. exact (Logic.conj (inner_prod_rejects_mixed_ranks x y) (Logic.conj (outer_prod_rejects x y) (Logic.conj (kronecker_prod_rejects x y) (Logic.conj (elementwise_division_rejects_rank x y) (Logic.conj (elementwise_division_rejects_length u v) (Logic.conj (inner_prod_rejects_length u v) (Logic.conj (make_complex_rejects_rank r s) (make_complex_rejects_length p q)))))))).
Qed.
Print Assumptions C15_rejects_shape_mismatch.

Theorem C15_rejects_out_identical_to_operand : forall (h : @heap R) x y out,
  b_id out = b_id x \/ b_id out = b_id y -> scalar_mult_out ROps h x y out = RuntimeErr.
Proof. exact scalar_mult_out_rejects_identical. Qed.
Print Assumptions C15_rejects_out_identical_to_operand.

(* TARGET (not proved; REFUTED by the faithful model of today's code — known finding F-C15-out-view):
     forall h x y out, b_store out = b_store x \/ b_store out = b_store y ->
       scalar_mult_out ROps h x y out = RuntimeErr.
   The guard of the code is [out is x or out is y] (identity only).  Witness: out is a distinct object
   sharing the storage of x; the call succeeds and leaves a value that is not the product. *)
Theorem C15_rejects_view_aliasing_refuted :
  exists (h : @heap R) x y out h',
    b_id out <> b_id x /\ b_id out <> b_id y /\ b_store out = b_store x /\
    scalar_mult_out ROps h x y out = Ok (h', out) /\
    scalar_mult ROps (h (b_store x)) (h (b_store y)) <> Ok (h' (b_store out)).
Proof. exact rejects_view_aliasing_refuted. Qed.
Print Assumptions C15_rejects_view_aliasing_refuted.

(* Fresh out= buffer, vectors of equal length (first version; the statement for every pair of broadcastable
   operands of rank <= 4 is C15_fresh_out_buffer below, proved in QTheory.CplxOutR — this one is an instance). *)
Theorem C15_fresh_out_buffer_partial : forall (h : @heap R) x y out (xs ys os : list C),
  b_id out <> b_id x -> b_id out <> b_id y -> b_store out <> b_store x -> b_store out <> b_store y ->
  h (b_store x) = T1 xs -> h (b_store y) = T1 ys -> h (b_store out) = T1 os ->
  length xs = length ys -> length os = length xs ->
  exists h', scalar_mult_out ROps h x y out = Ok (h', out)
             /\ h' (b_store out) = T1 (zipw Cmult xs ys)
             /\ (forall s, s <> b_store out -> h' s = h s).
Proof. exact scalar_mult_out_fresh_partial. Qed.
Print Assumptions C15_fresh_out_buffer_partial.

Example C15_fresh_out_buffer_hypotheses_satisfiable :
  exists (h : @heap R) x y out xs ys os,
    b_id out <> b_id x /\ b_id out <> b_id y /\ b_store out <> b_store x /\ b_store out <> b_store y /\
    h (b_store x) = T1 xs /\ h (b_store y) = T1 ys /\ h (b_store out) = T1 os /\
    length xs = length ys /\ length os = length xs /\ xs <> [].
Proof. exact fresh_buffer_hypotheses_satisfiable. Qed.

(* ---------------------------------------------------------------- out= buffers, all ranks *)
From QTheory Require Import CplxOutR.

(* The general statement behind C15_fresh_out_buffer_partial: for EVERY pair of operands of rank 0..4 that
   the model's broadcasting accepts (scalar_mult x y = Ok p: any mix of ranks, size-1 dimensions stretched) and a
   fresh output buffer of the shape of p (a distinct object on a storage distinct from both operands; shape
   equality = equality after erasing the entries), scalar_mult(x, y, out=out) returns out itself, out holds
   exactly scalar_mult x y (= pointwise Cmult with broadcasting, C15_scalar_mult_is_pointwise_Cmult), and every
   other storage — the operands included — is unchanged.  Proof (QTheory.CplxOutR): the broadcasting traversal
   factors through the pairing of the operands, so the four real products written into the buffer and the complex
   product are all entrywise images of one tensor of operand pairs; no shape calculus.  The underlying lemma
   scalar_mult_out_fresh_g holds for every number structure (NumOps T), in particular for the floating-point
   instance of the extracted model, and is closed under the global context. *)
Theorem C15_fresh_out_buffer : forall (h : @heap R) x y out (p : tens C),
  b_id out <> b_id x -> b_id out <> b_id y -> b_store out <> b_store x -> b_store out <> b_store y ->
  scalar_mult ROps (h (b_store x)) (h (b_store y)) = Ok p ->
  tmap (fun _ => tt) (h (b_store out)) = tmap (fun _ => tt) p ->
  exists h', scalar_mult_out ROps h x y out = Ok (h', out)
             /\ h' (b_store out) = p
             /\ (forall s, s <> b_store out -> h' s = h s).
Proof. exact scalar_mult_out_fresh. Qed.
Print Assumptions C15_fresh_out_buffer.

(* ... and operands that do not broadcast are rejected with out= exactly as without it, whatever the buffer *)
Theorem C15_out_buffer_rejects_non_broadcastable : forall (h : @heap R) x y out,
  scalar_mult ROps (h (b_store x)) (h (b_store y)) = RuntimeErr ->
  scalar_mult_out ROps h x y out = RuntimeErr.
Proof. exact scalar_mult_out_fails_with_scalar_mult. Qed.
Print Assumptions C15_out_buffer_rejects_non_broadcastable.

(* non-vacuity with genuine broadcasting across ranks: a length-1 vector times a 2 x 2 matrix into a fresh 2 x 2 buffer *)
Example C15_fresh_out_buffer_broadcast_hypotheses_satisfiable :
  exists (h : @heap R) x y out p,
    b_id out <> b_id x /\ b_id out <> b_id y /\ b_store out <> b_store x /\ b_store out <> b_store y /\
    trank (h (b_store x)) <> trank (h (b_store y)) /\
    scalar_mult ROps (h (b_store x)) (h (b_store y)) = Ok p /\
    tmap (fun _ => tt) (h (b_store out)) = tmap (fun _ => tt) p /\
    p = T2 [[Cmult (1, 2) (1, 0); Cmult (1, 2) (0, 1)]; [Cmult (1, 2) (2, 0); Cmult (1, 2) (0, 2)]].
Proof. exact fresh_broadcast_hypotheses_satisfiable. Qed.

(* ---------------------------------------------------------------- out= buffer of the WRONG shape *)
(* A buffer whose shape is not the broadcast shape of the operands is rejected with an error, whatever it aliases
   (the code's check out.shape != (2, *broadcast shape) -> RuntimeError, /repo d718730; before that repair torch
   silently resized the temporary views and [out] came back holding a prefix of the product — found by this
   work package's audit follow-up, recorded as fixed finding F-C15-out-wrong-shape).  Shape equality = equality
   after erasing the entries. *)
Theorem C15_rejects_wrong_shaped_out : forall (h : @heap R) x y out (p : tens C),
  scalar_mult ROps (h (b_store x)) (h (b_store y)) = Ok p ->
  tmap (fun _ => tt) (h (b_store out)) <> tmap (fun _ => tt) p ->
  scalar_mult_out ROps h x y out = RuntimeErr.
Proof. exact scalar_mult_out_fresh_wrong_shape. Qed.
Print Assumptions C15_rejects_wrong_shaped_out.

Example C15_rejects_wrong_shaped_out_hypotheses_satisfiable :
  exists (h : @heap R) (x y out : bufref) (p : tens C),
    scalar_mult ROps (h (b_store x)) (h (b_store y)) = Ok p /\
    tmap (fun _ => tt) (h (b_store out)) <> tmap (fun _ => tt) p.
Proof.
  exists (fun s => match s with O => T1 [(1, 0); (0, 1)] | S O => T1 [(1, 0); (1, 0)] | _ => T1 [(5, 5)] end),
         (mkBuf 0 0), (mkBuf 1 1), (mkBuf 2 2).
  eexists. split; [reflexivity | cbn; discriminate].
Qed.
