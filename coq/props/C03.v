(* C03 — Training gradients are the exact gradients of the negative log-likelihood.
   This file contains only theorem statements closed by [exact <lemma>] and [Print Assumptions].
   Model: QModel.Rbm / States / Unitaries / Grads at T := R.  Proofs: QTheory.Deriv, QTheory.GradR.

   Conventions.  [b_line th de t] / [p_line th de t] is the network  theta + t * delta  (every weight
   and bias moved along the direction [de] of the same shape); [b_flatten] / [p_flatten] is the flat
   parameter vector in nn.Module.parameters() order (W row major, (U), b, c, (d)).  A statement
       is_derive (fun t => F (b_line th de t)) t0 (dot (G (b_line th de t0)) (b_flatten de))
   for EVERY direction [de] says that [G] is the gradient of [F] at every point; the [_coord]
   theorems specialise it to the k-th unit direction of the flat layout: the k-th entry of the
   returned vector is the partial derivative with respect to parameter number k. *)
From Coq Require Import List Bool Reals Permutation.
From Coquelicot Require Import Coquelicot.
From QModel Require Import Num Bits Rbm States CBase Unitaries Grads.
From QTheory Require Import RInst SumBits Deriv GradR.
Import ListNotations.
Open Scope R_scope.

(* ---------------------------------------------------------------- 1. energy gradients *)
Theorem C03_energy_grad_binary : forall nh nv th de v t0,
  b_shaped nh nv th -> b_shaped nh nv de -> length v = nv ->
  is_derive (fun t => b_eff_energy ROps (b_line th de t) v) t0
            (dot ROps (b_energy_grad ROps (b_line th de t0) v) (b_flatten de)).
Proof. exact energy_grad_binary. Qed.
Print Assumptions C03_energy_grad_binary.

Theorem C03_energy_grad_binary_coord : forall nh nv v theta k t0,
  length v = nv -> length theta = (nh * nv + nv + nh)%nat -> (k < nh * nv + nv + nh)%nat ->
  let e := unit_vec (nh * nv + nv + nh) k in
  is_derive (fun t => b_eff_energy ROps (b_of_vec nh nv (vline theta e t)) v) t0
            (nth k (b_energy_grad ROps (b_of_vec nh nv (vline theta e t0)) v) 0).
Proof. exact energy_grad_binary_coord. Qed.
Print Assumptions C03_energy_grad_binary_coord.

Theorem C03_energy_grad_purification : forall nh na nv th de v t0,
  p_shaped nh na nv th -> p_shaped nh na nv de -> length v = nv ->
  is_derive (fun t => p_eff_energy ROps (p_line th de t) v) t0
            (dot ROps (p_energy_grad ROps (p_line th de t0) v) (p_flatten de)).
Proof. exact energy_grad_purification. Qed.
Print Assumptions C03_energy_grad_purification.

(* non-vacuity of the shape guards: a 3x2 network with non-zero biases, and a direction *)
Example C03_shapes_nonvacuous :
  b_shaped 3 2 (mkB [[1; -2]; [0.5; 3]; [-1; 1]] [0.3; -0.7] [0.1; -0.2; 0.4]) /\
  p_shaped 2 1 2 (mkP [[1; -2]; [0.5; 3]] [[-1; 1]] [0.3; -0.7] [0.1; -0.2] [0.4]).
Proof. split; unfold b_shaped, p_shaped; simpl; repeat split; repeat constructor. Qed.

(* ---------------------------------------------------------------- 2. layout of the flat vector *)
Theorem C03_grad_layout_roundtrip : forall (A : Type) (ps : list (ptensor A)),
  List.Forall wf_tensor ps -> vector_to_grads (map shape_of ps) (parameters_to_vector ps) = ps.
Proof. exact @layout_roundtrip. Qed.
Print Assumptions C03_grad_layout_roundtrip.

Theorem C03_grad_layout_roundtrip_vec : forall (A : Type) (shapes : list pshape) (vec : list A),
  length vec = total shapes -> parameters_to_vector (vector_to_grads shapes vec) = vec.
Proof. exact @layout_roundtrip_vec. Qed.
Print Assumptions C03_grad_layout_roundtrip_vec.

(* offsets of the blocks: consecutive blocks of the stated lengths *)
Theorem C03_grad_layout_blocks3 : forall (A : Type) (a b c : list A),
  split_blocks [length a; length b; length c] (a ++ b ++ c) = [a; b; c].
Proof. exact @split_blocks_app3. Qed.
Print Assumptions C03_grad_layout_blocks3.

Theorem C03_grad_layout_blocks5 : forall (A : Type) (a b c d e : list A),
  split_blocks [length a; length b; length c; length d; length e] (a ++ b ++ c ++ d ++ e) = [a; b; c; d; e].
Proof. exact @split_blocks_app5. Qed.
Print Assumptions C03_grad_layout_blocks5.

(* the flat parameter vector and the network determine each other (parameter number k is well defined) *)
Theorem C03_flat_vector_is_the_network : forall nh nv,
  (forall r, b_shaped nh nv r -> b_of_vec nh nv (b_flatten r) = r) /\
  (forall vec : list R, length vec = (nh * nv + nv + nh)%nat ->
     b_flatten (b_of_vec nh nv vec) = vec /\ b_shaped nh nv (b_of_vec nh nv vec)).
Proof.
  intros nh nv; split;
    [exact (b_of_vec_flatten nh nv)
    | intros vec H; split; [exact (b_flatten_of_vec nh nv vec H) | exact (b_of_vec_shaped nh nv vec H)]].
Qed.
Print Assumptions C03_flat_vector_is_the_network.

(* ---------------------------------------------------------------- 3. positive wavefunction *)
(* pos_nll is the data set's negative log-likelihood under p = exp(-E)/Z *)
Theorem C03_pos_nll_is_neg_log_likelihood : forall r D n, D <> [] ->
  pos_nll r D n =
  - sum ROps (map (fun s => ln (probability ROps r s (normalization ROps r (all_bits n)))) D) / INR (length D).
Proof. exact pos_nll_is_neg_log_likelihood. Qed.
Print Assumptions C03_pos_nll_is_neg_log_likelihood.

Theorem C03_nll_gradient_positive : forall nh nv th de D t0,
  b_shaped nh nv th -> b_shaped nh nv de -> D <> [] -> (forall s, In s D -> length s = nv) ->
  is_derive (fun t => pos_nll (b_line th de t) D nv) t0
            (dot ROps (pos_compute_exact_gradients ROps (b_line th de t0) D (all_bits nv)) (b_flatten de)).
Proof. exact nll_gradient_positive. Qed.
Print Assumptions C03_nll_gradient_positive.

Theorem C03_nll_gradient_positive_coord : forall nh nv D theta k t0,
  D <> [] -> (forall s, In s D -> length s = nv) ->
  length theta = (nh * nv + nv + nh)%nat -> (k < nh * nv + nv + nh)%nat ->
  let e := unit_vec (nh * nv + nv + nh) k in
  is_derive (fun t => pos_nll (b_of_vec nh nv (vline theta e t)) D nv) t0
            (nth k (pos_compute_exact_gradients ROps (b_of_vec nh nv (vline theta e t0)) D (all_bits nv)) 0).
Proof. exact nll_gradient_positive_coord. Qed.
Print Assumptions C03_nll_gradient_positive_coord.

(* ---------------------------------------------------------------- 4. complex wavefunction *)
(* core lemma (Appendix A):  d/dt ln |Sum_v u_v psi_v|^2 = - Re[ (Sum_v u_v psi_v (a_v' + i b_v')) / Sum_v u_v psi_v ],
   psi_v = exp(-(a_v + i b_v)/2), written with real and imaginary parts *)
Theorem C03_log_mod_sq : forall (A : Type) (l : list A) (ur ui : A -> R) (a b : A -> R -> R) (da db : A -> R) t0,
  (forall v, In v l -> is_derive (a v) t0 (da v)) ->
  (forall v, In v l -> is_derive (b v) t0 (db v)) ->
  0 < A_re l ur ui a b t0 * A_re l ur ui a b t0 + A_im l ur ui a b t0 * A_im l ur ui a b t0 ->
  is_derive (fun t => ln (A_re l ur ui a b t * A_re l ur ui a b t + A_im l ur ui a b t * A_im l ur ui a b t)) t0
    (- ((N_re l ur ui a b da db t0 * A_re l ur ui a b t0 + N_im l ur ui a b da db t0 * A_im l ur ui a b t0)
        / (A_re l ur ui a b t0 * A_re l ur ui a b t0 + A_im l ur ui a b t0 * A_im l ur ui a b t0))).
Proof. exact @log_mod_sq. Qed.
Print Assumptions C03_log_mod_sq.

(* one measured row in any basis: the derivative of -ln |<s|U_basis|psi>|^2 along a line moving BOTH
   networks is the pairing of the model's rotated_gradient (amplitude, phase) with the two directions *)
Theorem C03_nll_gradient_complex_row : forall nh nv am dam ph dph user basis s t0,
  b_shaped nh nv am -> b_shaped nh nv dam -> b_shaped nh nv ph -> b_shaped nh nv dph ->
  length basis = nv -> length s = nv ->
  0 < cnorm2 ROps (inner_prod1 ROps user basis (cplx_psi ROps (b_line am dam t0) (b_line ph dph t0)) s) ->
  is_derive (fun t => - ln (cnorm2 ROps (inner_prod1 ROps user basis (cplx_psi ROps (b_line am dam t) (b_line ph dph t)) s))) t0
    (dot ROps (fst (cw_rot1 ROps (b_line am dam t0) (b_line ph dph t0) user basis s)) (b_flatten dam)
     + dot ROps (snd (cw_rot1 ROps (b_line am dam t0) (b_line ph dph t0) user basis s)) (b_flatten dph)).
Proof. exact nll_gradient_complex_row. Qed.
Print Assumptions C03_nll_gradient_complex_row.

(* the whole data set (per-row bases, all-Z rows included), BOTH networks moved at once, under A_s <> 0 for each row
   (otherwise the NLL is undefined):  cw_nll = (1/|D|) Sum_s -ln|<s|U_s|psi>|^2 + ln Z = -(1/|D|) Sum_s ln(|A_s|^2 / Z) *)
Theorem C03_nll_gradient_complex : forall nh nv am dam ph dph user batch t0,
  b_shaped nh nv am -> b_shaped nh nv dam -> b_shaped nh nv ph -> b_shaped nh nv dph ->
  batch <> [] ->
  (forall x, In x batch -> length (fst x) = nv /\ length (snd x) = nv) ->
  (forall x, In x batch ->
     0 < cnorm2 ROps (inner_prod1 ROps user (fst x) (cplx_psi ROps (b_line am dam t0) (b_line ph dph t0)) (snd x))) ->
  let g := compute_exact_gradients ROps (cw_gstate ROps (b_line am dam t0) (b_line ph dph t0) user) batch (all_bits nv) in
  is_derive (fun t => cw_nll (b_line am dam t) (b_line ph dph t) user batch nv) t0
            (dot ROps (fst g) (b_flatten dam) + dot ROps (snd g) (b_flatten dph)).
Proof. exact nll_gradient_complex_full. Qed.
Print Assumptions C03_nll_gradient_complex.

(* all-Z rows: |<s|psi>|^2 = exp(-E_am(s)), so the row term of the NLL is the amplitude energy *)
Theorem C03_complex_allZ_row : forall am ph user basis s,
  forallb is_Z basis = true -> length basis = length s ->
  cnorm2 ROps (inner_prod1 ROps user basis (cplx_psi ROps am ph) s) = exp (- b_eff_energy ROps am s).
Proof. exact cw_allZ_modulus. Qed.
Print Assumptions C03_complex_allZ_row.

(* ---------------------------------------------------------------- 5. mixed states *)
(* TARGET (not proved): nll_gradient_mixed —
     forall nh na nv am dam ph dph user batch t0,  p_shaped ... -> batch <> [] -> rows of length nv ->
     is_derive (fun t => (1/|D|) * ( Sum_{s all-Z} p_eff_energy (am t) s
                                    - Sum_{s rotated} ln (rho_prob1 user basis_s (dm_rho (am t) (ph t)) s + 1e-8) )
                         + ln (dm_normalization (am t) (all_bits nv))) t0
               (dot (fst g) (p_flatten dam) + dot (snd g) (p_flatten dph))
     with g := compute_exact_gradients ROps (dm_gstate (am t0) (ph t0) user) batch (all_bits nv).
   Missing: the per-entry log-derivative  d rho(v,v') = rho(v,v') * (d Gamma^(+/-) + d Pi)  needs the derivative of
   pi's  ln sqrt(1 + 2 e^x cos y + e^2x)  and  atan2(e^x sin y, 1 + e^x cos y)  (branch handling of atan2); it is
   checked by finite differences of the implementation's own rho in harness/checks/c03.py (every parameter, both networks).
   Proved below (_partial): the all-Z / negative-phase ingredient (C03_energy_grad_purification above), and that the
   auxiliary-bias block of the phase network's gradient terms is identically zero. *)
(* PROVED below as C03_nll_gradient_mixed (section 8, at the end of this file; proofs in QTheory.GradMixedR) *)
(* definitional: restates the model (the content is the correspondence check of this clause) *)
Theorem C03_nll_gradient_mixed_partial : forall (am ph : prbm (T:=R)) plus expand v vp,
  (exists pre, p_gamma_grad ROps ph plus v vp = pre ++ repeat 0 (length (pd ph))) /\
  (exists pre, p_pi_grad ROps am ph true expand v vp = pre ++ repeat (0, 0) (length (pd ph))).
Proof.
  intros am ph plus expand v vp; split;
    [exact (gamma_grad_aux_block_zero ph plus v vp) | exact (pi_grad_phase_aux_block_zero am ph expand v vp)].
Qed.
Print Assumptions C03_nll_gradient_mixed_partial.

Theorem C03_gamma_grad_aux_block_offset_partial : forall nh na nv (r : prbm (T:=R)) plus v vp,
  p_shaped nh na nv r -> length v = nv -> length vp = nv ->
  skipn (nh * nv + na * nv + nv + nh) (p_gamma_grad ROps r plus v vp) = repeat 0 na /\
  length (p_gamma_grad ROps r plus v vp) = p_num_pars r.
Proof. exact gamma_grad_aux_block_offset. Qed.
Print Assumptions C03_gamma_grad_aux_block_offset_partial.

(* ---------------------------------------------------------------- 6. grouping *)
Theorem C03_gradient_any_grouping : forall (G : gstate (T:=R)) groups batch,
  Permutation (rows_of_groups groups) batch ->
  gradient_groups ROps G groups =
  (vsum ROps (g_nam G) (map (fun x => fst (sample_grad G x)) batch),
   vsum ROps (g_nph G) (map (fun x => snd (sample_grad G x)) batch)).
Proof. exact gradient_any_grouping. Qed.
Print Assumptions C03_gradient_any_grouping.

Theorem C03_positive_phase_is_mean_any_grouping : forall (G : gstate (T:=R)) groups batch,
  Permutation (rows_of_groups groups) batch ->
  gradient_groups ROps G groups =
  (vsum ROps (g_nam G) (map (fun x => fst (one_row_gradient G x)) batch),
   vsum ROps (g_nph G) (map (fun x => snd (one_row_gradient G x)) batch)).
Proof. exact positive_phase_is_mean_any_grouping. Qed.
Print Assumptions C03_positive_phase_is_mean_any_grouping.

Theorem C03_gradient_grouping_order_invariant : forall (G : gstate (T:=R)) groups groups' batch batch',
  Permutation (rows_of_groups groups) batch -> Permutation (rows_of_groups groups') batch' ->
  Permutation batch batch' ->
  gradient_groups ROps G groups = gradient_groups ROps G groups'.
Proof. exact gradient_grouping_order_invariant. Qed.
Print Assumptions C03_gradient_grouping_order_invariant.

(* definitional: restates the model (the content is the correspondence check of this clause) *)
Theorem C03_positive_phase_is_gradient_over_len : forall (G : gstate (T:=R)) batch,
  positive_phase_gradients ROps G batch =
  (map (fun x => x / INR (length batch)) (fst (gradient ROps G batch)),
   map (fun x => x / INR (length batch)) (snd (gradient ROps G batch))).
Proof. exact positive_phase_is_gradient_over_len. Qed.
Print Assumptions C03_positive_phase_is_gradient_over_len.

Theorem C03_pos_gradient_order_and_split : forall am,
  (forall D D', Permutation D D' -> pos_gradient ROps am D = pos_gradient ROps am D') /\
  (forall D1 D2, pos_gradient ROps am (D1 ++ D2) = vadd ROps (pos_gradient ROps am D1) (pos_gradient ROps am D2)).
Proof. intros am; split; [exact (pos_gradient_perm am) | exact (pos_gradient_app am)]. Qed.
Print Assumptions C03_pos_gradient_order_and_split.

(* the model's own grouping (np.unique: sorted distinct basis rows, rows selected by equality) IS a partition *)
Theorem C03_unique_groups_partition : forall batch : list (list letter * bits),
  Permutation (rows_of_groups (unique_groups batch)) batch.
Proof. exact unique_groups_partition. Qed.
Print Assumptions C03_unique_groups_partition.

Theorem C03_gradient_is_sum_of_rows : forall (G : gstate (T:=R)) batch,
  gradient ROps G batch =
  (vsum ROps (g_nam G) (map (fun x => fst (one_row_gradient G x)) batch),
   vsum ROps (g_nph G) (map (fun x => snd (one_row_gradient G x)) batch)).
Proof. exact gradient_is_sum_of_rows. Qed.
Print Assumptions C03_gradient_is_sum_of_rows.

Theorem C03_gradient_row_order_invariant : forall (G : gstate (T:=R)) batch batch',
  Permutation batch batch' -> gradient ROps G batch = gradient ROps G batch'.
Proof. exact gradient_row_order_invariant. Qed.
Print Assumptions C03_gradient_row_order_invariant.

(* ---------------------------------------------------------------- 7. the public alias *)
(* definitional: restates the model (the content is the correspondence check of this clause) *)
Theorem C03_exact_grads_alias : forall am D space,
  pos_compute_exact_grads ROps am D space = pos_compute_exact_gradients ROps am D space.
Proof. exact exact_grads_alias. Qed.
Print Assumptions C03_exact_grads_alias.

(* ---------------------------------------------------------------- 8. mixed states: the full statement (C03.5) *)
(* Proofs: QTheory.GradMixedR.  Rho.pi_guard is C02's non-singularity guard (1 + exp(x_k + i y_k) <> 0 for every
   auxiliary unit k of the pair); under it rho equals its smooth partial-trace / product form (C02_rho_is_partial_trace),
   so atan2's branch cut never enters.  eps8 ROps is the literal 1e-8 of the code (Grads.eps8 = 1 / 100000000). *)
From QTheory Require Rho GradMixedR.

(* step 1 — per-entry log-derivative, both networks moved at once:  d rho(v,v') = rho(v,v') * (Lre + i Lim)  where
   Lre + i Lim is the pairing of the model's am_grads (gamma_grad(+) + pi_grad) and ph_grads (i gamma_grad(-) + pi_grad(phase))
   entries at (v,v') with the two directions *)
Theorem C03_rho_entry_log_derivative : forall nh na nv am dam ph dph v vp t0,
  p_shaped nh na nv am -> p_shaped nh na nv dam -> p_shaped nh na nv ph -> p_shaped nh na nv dph ->
  length v = nv -> length vp = nv ->
  List.Forall Rho.pi_guard (pi_args ROps (p_line am dam t0) (p_line ph dph t0) v vp) ->
  let am0 := p_line am dam t0 in
  let ph0 := p_line ph dph t0 in
  let rho := fun t => dm_rho ROps (p_line am dam t) (p_line ph dph t) v vp in
  let Lre := dot ROps (map fst (dm_am_grads ROps am0 ph0 v vp)) (p_flatten dam)
             + dot ROps (map fst (dm_ph_grads ROps am0 ph0 v vp)) (p_flatten dph) in
  let Lim := dot ROps (map snd (dm_am_grads ROps am0 ph0 v vp)) (p_flatten dam)
             + dot ROps (map snd (dm_ph_grads ROps am0 ph0 v vp)) (p_flatten dph) in
  is_derive (fun t => fst (rho t)) t0 (fst (rho t0) * Lre - snd (rho t0) * Lim) /\
  is_derive (fun t => snd (rho t)) t0 (fst (rho t0) * Lim + snd (rho t0) * Lre).
Proof. exact GradMixedR.rho_entry_log_derivative. Qed.
Print Assumptions C03_rho_entry_log_derivative.

(* step 2 — one measured row in a rotated basis:  d/dt [-ln(P_s + 1e-8)]  is the pairing of the model's rotated_gradient
   (the code's 1/(P + 1e-8) factor and minus sign) with the two directions; P_s >= 0 is proved (Gram form), not assumed *)
Theorem C03_nll_gradient_mixed_row : forall nh na nv am dam ph dph user basis s t0,
  p_shaped nh na nv am -> p_shaped nh na nv dam -> p_shaped nh na nv ph -> p_shaped nh na nv dph ->
  length basis = nv -> length s = nv ->
  (forall vi vj, In vi (expansions basis s) -> In vj (expansions basis s) ->
     List.Forall Rho.pi_guard (pi_args ROps (p_line am dam t0) (p_line ph dph t0) vi vj)) ->
  is_derive (fun t => - ln (rho_prob1 ROps user basis (dm_rho ROps (p_line am dam t) (p_line ph dph t)) s + eps8 ROps)) t0
    (dot ROps (fst (dm_rot1 ROps (p_line am dam t0) (p_line ph dph t0) user basis s)) (p_flatten dam)
     + dot ROps (snd (dm_rot1 ROps (p_line am dam t0) (p_line ph dph t0) user basis s)) (p_flatten dph)).
Proof. exact GradMixedR.nll_gradient_mixed_row_full. Qed.
Print Assumptions C03_nll_gradient_mixed_row.

(* step 3 — the TARGET of section 5: every data set D <> [] with per-row bases (all-Z rows take the energy path, the others
   the rotated path), BOTH networks moved at once; the guard is required only for the pairs expanded by rotated rows *)
Theorem C03_nll_gradient_mixed : forall nh na nv am dam ph dph user batch t0,
  p_shaped nh na nv am -> p_shaped nh na nv dam -> p_shaped nh na nv ph -> p_shaped nh na nv dph ->
  batch <> [] ->
  (forall x, In x batch -> length (fst x) = nv /\ length (snd x) = nv) ->
  (forall x, In x batch -> forallb is_Z (fst x) = false ->
     forall vi vj, In vi (expansions (fst x) (snd x)) -> In vj (expansions (fst x) (snd x)) ->
       List.Forall Rho.pi_guard (pi_args ROps (p_line am dam t0) (p_line ph dph t0) vi vj)) ->
  let g := compute_exact_gradients ROps (dm_gstate ROps (p_line am dam t0) (p_line ph dph t0) user) batch (all_bits nv) in
  is_derive (fun t =>
      (sum ROps (map (fun x => p_eff_energy ROps (p_line am dam t) (snd x)) (filter (fun x => forallb is_Z (fst x)) batch))
       - sum ROps (map (fun x => ln (rho_prob1 ROps user (fst x) (dm_rho ROps (p_line am dam t) (p_line ph dph t)) (snd x) + eps8 ROps))
                       (filter (fun x => negb (forallb is_Z (fst x))) batch))) / INR (length batch)
      + ln (dm_normalization ROps (p_line am dam t) (all_bits nv))) t0
    (dot ROps (fst g) (p_flatten dam) + dot ROps (snd g) (p_flatten dph)).
Proof. exact GradMixedR.nll_gradient_mixed_explicit. Qed.
Print Assumptions C03_nll_gradient_mixed.

(* non-vacuity of the hypotheses of C03_nll_gradient_mixed: a 1-1-1 density matrix with non-zero biases, a direction moving
   every parameter of both networks, a batch with X, Z and Y rows, t0 = 0 *)
Example C03_mixed_hypotheses_nonvacuous :
  let am := mkP [[1]] [[1]] [0.3] [-0.2] [0.5] in
  let ph := mkP [[0.7]] [[2]] [0.1] [0.4] [0] in
  let dam := mkP [[1]] [[-1]] [1] [1] [1] in
  let dph := mkP [[-1]] [[1]] [1] [-1] [1] in
  let batch := [([LX], [true]); ([LZ], [false]); ([LY], [false])] in
  p_shaped 1 1 1 am /\ p_shaped 1 1 1 dam /\ p_shaped 1 1 1 ph /\ p_shaped 1 1 1 dph /\ batch <> [] /\
  (forall x, In x batch -> length (fst x) = 1%nat /\ length (snd x) = 1%nat) /\
  (forall x, In x batch -> forallb is_Z (fst x) = false ->
     forall vi vj, In vi (expansions (fst x) (snd x)) -> In vj (expansions (fst x) (snd x)) ->
       List.Forall Rho.pi_guard (pi_args ROps (p_line am dam 0) (p_line ph dph 0) vi vj)).
Proof. exact GradMixedR.mixed_hypotheses_nonvacuous. Qed.
Print Assumptions C03_mixed_hypotheses_nonvacuous.
