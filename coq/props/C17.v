(* C17 — Periodic callbacks fire on schedule and their records match what happened.
   Only theorem statements closed by [exact <lemma>] and [Print Assumptions].
   Model: QModel.Callbacks (evaluators, ModelSaver, Logger); proofs: QTheory.CallbacksT.
   A run is the list of its EpochEnd events (epoch, state of the network at that moment);
   the theorems hold for every such list, hence also for runs cut short by a stop request. *)
From Coq Require Import List ZArith Znumtheory.
From QModel Require Import Num Callbacks.
From QTheory Require Import CallbacksT.
Import ListNotations.
Local Open Scope nat_scope.

(* 1. schedule: the recorded epochs are exactly the multiples of the period among the run's epochs, in order *)
Theorem C17_fires_exactly_on_multiples : forall (S V : Type) (p : Z) (m : S -> vals V) (run : list (Z * S)),
  (1 <= p)%Z ->
  ev_epochs (ev_run m (ev_new p) run) = filter (dividesb p) (map fst run).
Proof. exact @fires_exactly_on_multiples. Qed.
Print Assumptions C17_fires_exactly_on_multiples.

Theorem C17_recorded_iff_multiple : forall (S V : Type) (p : Z) (m : S -> vals V) (run : list (Z * S)) (e : Z),
  (1 <= p)%Z ->
  (In e (ev_epochs (ev_run m (ev_new p) run)) <-> In e (map fst run) /\ (p | e)%Z).
Proof. exact @recorded_iff_multiple. Qed.
Print Assumptions C17_recorded_iff_multiple.

(* definitional: restates the model (one unfolding of ev_on_epoch_end + the gate lemma) *)
Theorem C17_step_gate : forall (S V : Type) (m : S -> vals V) (ev : evaluator V) (e : Z) (s : S),
  (1 <= ev_period ev)%Z ->
  (~ (ev_period ev | e)%Z -> ev_on_epoch_end m ev e s = ev) /\
  ((ev_period ev | e)%Z -> ev_past (ev_on_epoch_end m ev e s) = ev_past ev ++ [(e, m s)]
                            /\ ev_last (ev_on_epoch_end m ev e s) = m s).
Proof. exact @step_gate. Qed.
Print Assumptions C17_step_gate.

(* 2. records: past_values, the CSV log, len, epochs, last of a fresh evaluator after any run *)
(* guard 1 <= p: Python raises ZeroDivisionError for period 0, the model's gate is total *)
Theorem C17_records_match : forall (S V : Type) (p : Z) (m : S -> vals V) (run : list (Z * S)),
  (1 <= p)%Z ->
  let ev := ev_run m (ev_new p) run in
  ev_past ev = records p m run /\ ev_log ev = records p m run /\
  ev_len ev = length (fired p run) /\
  ev_epochs ev = filter (fires p) (map fst run) /\
  ev_last ev = snd (last (records p m run) (0%Z, [])) /\
  ev_period ev = p.
Proof. exact (fun S V p m run _ => @fresh_run_records S V p m run). Qed.
Print Assumptions C17_records_match.

(* per-name arrays *)
Theorem C17_records_array : forall (S V : Type) (p : Z) (m : S -> vals V) (run : list (Z * S))
    (ev : evaluator V) (n : name) (f : S -> V),
  ev_past ev = records p m run -> (forall s, lookup n (m s) = Some (f s)) ->
  ev_array n ev = Ok (map (fun es => f (snd es)) (fired p run)).
Proof. exact @records_array. Qed.
Print Assumptions C17_records_array.

(* get_value: every valid non-negative index, every valid negative index, everything else IndexError *)
Theorem C17_get_value_nonneg : forall (S V : Type) (p : Z) (m : S -> vals V) (run : list (Z * S))
    (ev : evaluator V) (n : name) (f : S -> V) (i : Z) (es : Z * S),
  ev_past ev = records p m run -> (forall s, lookup n (m s) = Some (f s)) ->
  (0 <= i < Z.of_nat (length (fired p run)))%Z ->
  nth_error (fired p run) (Z.to_nat i) = Some es ->
  ev_get_value n (Some i) ev = Ok (f (snd es)).
Proof. exact @records_get_value_nonneg. Qed.
Print Assumptions C17_get_value_nonneg.

Theorem C17_get_value_negative : forall (S V : Type) (p : Z) (m : S -> vals V) (run : list (Z * S))
    (ev : evaluator V) (n : name) (f : S -> V) (i : Z) (es : Z * S),
  ev_past ev = records p m run -> (forall s, lookup n (m s) = Some (f s)) ->
  (- Z.of_nat (length (fired p run)) <= i < 0)%Z ->
  nth_error (fired p run) (Z.to_nat (Z.of_nat (length (fired p run)) + i)) = Some es ->
  ev_get_value n (Some i) ev = Ok (f (snd es)).
Proof. exact @records_get_value_neg. Qed.
Print Assumptions C17_get_value_negative.

Theorem C17_get_value_out_of_range : forall (S V : Type) (p : Z) (m : S -> vals V) (run : list (Z * S))
    (ev : evaluator V) (n : name) (i : Z),
  ev_past ev = records p m run ->
  (Z.of_nat (length (fired p run)) <= i \/ i < - Z.of_nat (length (fired p run)))%Z ->
  ev_get_value n (Some i) ev = Err IndexError.
Proof. exact @records_get_value_out_of_range. Qed.
Print Assumptions C17_get_value_out_of_range.

(* the indices of the two theorems above always name an event *)
Theorem C17_index_in_range_exists : forall (S : Type) (p : Z) (run : list (Z * S)) (k : nat),
  k < length (fired p run) -> exists es, nth_error (fired p run) k = Some es.
Proof. exact @index_in_range_exists. Qed.
Print Assumptions C17_index_in_range_exists.

(* last / get_value(name) with index None *)
Theorem C17_last_is_latest_record : forall (S V : Type) (m : S -> vals V) (ev : evaluator V) (run : list (Z * S)) (n : name),
  let ev' := ev_run m ev run in
  records (ev_period ev) m run <> [] ->
  ev_last ev' = snd (last (ev_past ev') (0%Z, [])) /\
  ev_get_value n None ev' = match lookup n (ev_last ev') with Some v => Ok v | None => Err KeyError end.
Proof. exact @last_is_latest_record. Qed.
Print Assumptions C17_last_is_latest_record.

(* clear_history *)
(* definitional: restates the model *)
Theorem C17_clear_history_resets : forall (V : Type) (ev : evaluator V),
  ev_len (ev_clear_history ev) = 0 /\ ev_epochs (ev_clear_history ev) = [] /\
  ev_last (ev_clear_history ev) = [] /\ ev_period (ev_clear_history ev) = ev_period ev /\
  (forall n, ev_array n (ev_clear_history ev) = Ok []) /\
  (forall n i, ev_get_value n i (ev_clear_history ev) = Err IndexError).
Proof. exact @clear_history_resets. Qed.
Print Assumptions C17_clear_history_resets.

Theorem C17_run_after_clear : forall (S V : Type) (m : S -> vals V) (ev : evaluator V) (run : list (Z * S)),
  ev_past (ev_run m (ev_clear_history ev) run) = records (ev_period ev) m run.
Proof. exact @run_after_clear. Qed.
Print Assumptions C17_run_after_clear.

Theorem C17_runs_accumulate : forall (S V : Type) (m : S -> vals V) (ev : evaluator V) (run1 run2 : list (Z * S)),
  ev_past (ev_run m (ev_run m ev run1) run2)
  = ev_past ev ++ records (ev_period ev) m run1 ++ records (ev_period ev) m run2.
Proof. exact @runs_accumulate. Qed.
Print Assumptions C17_runs_accumulate.

(* evaluators with different periods / metrics in one callback list do not influence each other *)
Theorem C17_evaluators_independent : forall (S V : Type) (cbs : list ((S -> vals V) * evaluator V)) (run : list (Z * S)),
  cbs_run cbs run = map (fun c => (fst c, ev_run (fst c) (snd c) run)) cbs.
Proof. exact @evaluators_independent. Qed.
Print Assumptions C17_evaluators_independent.

(* the value-stream form: the k-th evaluation records the k-th stream item at the k-th multiple *)
Theorem C17_stream_records : forall (V : Type) (epochs : list Z) (ev : evaluator V) (stream : list (vals V)),
  ev_past (ev_run_stream ev epochs stream)
  = ev_past ev ++ combine (filter (fires (ev_period ev)) epochs) stream.
Proof. exact @stream_records. Qed.
Print Assumptions C17_stream_records.

(* CSV body; the log keeps every evaluation, clear_history or not *)
Theorem C17_csv_rows : forall (S V : Type) (fields : list name) (m : S -> vals V) (run : list (Z * S)) (p : Z),
  (1 <= p)%Z ->
  csv_body fields (ev_log (ev_run m (ev_new p) run))
  = map (fun es => (fst es, map (fun f => lookup f (m (snd es))) fields)) (fired p run).
Proof. exact (fun S V fields m run p _ => @csv_rows S V fields m run p). Qed.
Print Assumptions C17_csv_rows.

Theorem C17_log_survives_clear : forall (S V : Type) (m : S -> vals V) (ev : evaluator V) (run1 run2 : list (Z * S)),
  ev_log (ev_run m (ev_clear_history (ev_run m ev run1)) run2)
  = ev_log ev ++ records (ev_period ev) m run1 ++ records (ev_period ev) m run2.
Proof. exact @log_survives_clear. Qed.
Print Assumptions C17_log_survives_clear.

(* ObservableStatistics: plural names are aliases *)
Theorem C17_os_plural_alias : forall (T : Type) (statistic : name) (data : list (stats T)) (f : stats T -> T),
  (forall d, In d data -> lookup (strip_s statistic) d = Some (f d)) ->
  os_get statistic data = Ok (map f data).
Proof. exact @os_plural_alias. Qed.
Print Assumptions C17_os_plural_alias.

Theorem C17_os_means : forall (T : Type) (data : list (stats T)) (f : stats T -> T),
  (forall d, In d data -> lookup n_mean d = Some (f d)) ->
  os_get (n_mean ++ [ch_s]) data = Ok (map f data) /\ os_get n_mean data = Ok (map f data).
Proof. exact @os_means. Qed.
Print Assumptions C17_os_means.

(* 3. ModelSaver *)
(* definitional: restates the model (flat_map over the gate = map over the filtered run) *)
Theorem C17_saver_writes : forall (S P M : Type) (params : S -> P) (empty : M) (sv : saver S M) (s0 : S) (run : list (Z * S)),
  (1 <= sv_period sv)%Z ->
  sv_fit params empty sv s0 run =
  (if sv_save_initial sv then [(FInitial, sv_save params empty sv s0 0%Z)] else [])
  ++ map (sv_epoch_write params empty sv) (fired (sv_period sv) run).
Proof. exact (fun S P M params empty sv s0 run _ => @saver_writes S P M params empty sv s0 run). Qed.
Print Assumptions C17_saver_writes.

Theorem C17_saver_file_names : forall (S P M : Type) (params : S -> P) (empty : M) (sv : saver S M) (s0 : S) (run : list (Z * S)),
  (1 <= sv_period sv)%Z ->
  map fst (sv_fit params empty sv s0 run) =
  (if sv_save_initial sv then [FInitial] else []) ++ map FEpoch (filter (dividesb (sv_period sv)) (map fst run)).
Proof. exact @saver_file_names. Qed.
Print Assumptions C17_saver_file_names.

Theorem C17_saver_files : forall (S P M : Type) (params : S -> P) (empty : M) (sv : saver S M) (s0 : S) (run : list (Z * S)),
  NoDup (map fst run) ->
  let W := sv_fit params empty sv s0 run in
  (forall e s, In (e, s) run -> fires (sv_period sv) e = true ->
     store_get (FEpoch e) W = Some (sv_save params empty sv s e)) /\
  (forall e, store_get (FEpoch e) W <> None -> fires (sv_period sv) e = true /\ In e (map fst run)) /\
  store_get FInitial W = (if sv_save_initial sv then Some (sv_save params empty sv s0 0%Z) else None).
Proof. exact @saver_files. Qed.
Print Assumptions C17_saver_files.

(* definitional: restates the model *)
Theorem C17_saver_metadata_forms : forall (S P M : Type) (params : S -> P) (empty : M) (sv : saver S M) (s : S) (e : Z),
  sv_save params empty sv s e =
  let md := match sv_metadata sv with MdCallable f => f s e | MdDict d => d | MdNone => empty end in
  if sv_metadata_only sv then MetaOnly md else Full (params s) md.
Proof. exact @saver_metadata_forms. Qed.
Print Assumptions C17_saver_metadata_forms.

(* Logger *)
(* definitional: restates the model (flat_map over the gate = map over the filtered run) *)
Theorem C17_logger_calls : forall (S Msg : Type) (p : Z) (g : S -> Z -> Msg) (run : list (Z * S)),
  (1 <= p)%Z ->
  lg_run p g run = map (fun es => g (snd es) (fst es)) (fired p run).
Proof. exact (fun S Msg p g run _ => @logger_calls S Msg p g run). Qed.
Print Assumptions C17_logger_calls.

(* the gate used by all four callbacks is divisibility *)
Theorem C17_gate_is_divisibility : forall p e : Z, (0 < p)%Z -> (fires p e = true <-> (p | e)%Z).
Proof. exact fires_divide. Qed.
Print Assumptions C17_gate_is_divisibility.

(* non-vacuity: a concrete schedule evaluated by the model *)
Theorem C17_schedule_example :
  ev_epochs demo_ev = [4; 6]%Z /\ ev_array [102] demo_ev = Ok [40; 60]%Z /\
  ev_get_value [102] (Some (-2)%Z) demo_ev = Ok 40%Z /\
  ev_get_value [102] (Some 2%Z) demo_ev = Err IndexError /\
  ev_get_value [102] None demo_ev = Ok 60%Z.
Proof. exact schedule_example. Qed.
Print Assumptions C17_schedule_example.

(* ---------------------------------------------------------------------------------------------
   Links to C12 (QModel.Protocol, the fit machine; proofs: QTheory.Links, module L1).
   The "run" handed to the callbacks is not an arbitrary list: it is the list of EpochEnd events of a
   run of the fit machine.  [epoch_ends t] = the epochs carried by the EpochEnd events of trace t, in
   order; [zrange a m] = [a; a+1; ...; a+m-1]; [epoch_end_run snap log] = the (epoch, network state)
   pairs of the EpochEnd entries of a log, the state being [snap] of the parameter version logged
   with the event.  [raised inj (ctrace s) = false]: no callback ever raised the stop flag. *)
From Coq Require Import Sorted.
From QModel Require Import Protocol.
From QTheory Require Links.
Import Links.L1.

(* for EVERY run of the fit machine (any stop requests, any scheduler, any sizes) the epochs seen at
   EpochEnd are the consecutive range start .. start+m-1, m <= len(range(start, epochs+1)), with
   equality when the stop flag is never raised *)
Theorem C17_fit_epochs_are_consecutive : forall (inj : injector) (sched : bool) (start epochs : Z) (nb ver0 : nat),
  let s := fit inj sched start epochs nb false ver0 in
  exists m, m <= num_epochs start epochs /\
    epoch_ends (ctrace s) = zrange start m /\
    (raised inj (ctrace s) = false -> m = num_epochs start epochs).
Proof. exact Links.L1.fit_epoch_range. Qed.
Print Assumptions C17_fit_epochs_are_consecutive.

(* an evaluator of period p >= 1 driven by the EpochEnd events of ANY fit run records exactly the
   multiples of p inside the range of epochs that ran, in increasing order *)
Theorem C17_evaluator_on_fit_run : forall (S V : Type) (p : Z) (m : S -> vals V) (snap : nat -> S)
    (inj : injector) (sched : bool) (start epochs : Z) (nb ver0 : nat),
  (1 <= p)%Z ->
  let s := fit inj sched start epochs nb false ver0 in
  let rec := ev_epochs (ev_run m (ev_new p) (epoch_end_run snap (log s))) in
  exists k, k <= num_epochs start epochs /\
    (raised inj (ctrace s) = false -> k = num_epochs start epochs) /\
    rec = filter (dividesb p) (zrange start k) /\
    StronglySorted Z.lt rec /\
    (forall e, In e rec <-> (start <= e < start + Z.of_nat k)%Z /\ (p | e)%Z).
Proof. exact @Links.L1.evaluator_on_fit_run. Qed.
Print Assumptions C17_evaluator_on_fit_run.

(* the epochs of a fit run are pairwise distinct, so the ModelSaver file theorem (C17_saver_files)
   holds for every fit run with no hypothesis left *)
Theorem C17_saver_on_fit_run : forall (S P M : Type) (params : S -> P) (empty : M) (sv : saver S M) (s0 : S)
    (snap : nat -> S) (inj : injector) (sched : bool) (start epochs : Z) (nb ver0 : nat),
  let run := epoch_end_run snap (log (fit inj sched start epochs nb false ver0)) in
  let W := sv_fit params empty sv s0 run in
  NoDup (map fst run) /\
  (forall e s, In (e, s) run -> fires (sv_period sv) e = true ->
     store_get (FEpoch e) W = Some (sv_save params empty sv s e)) /\
  (forall e, store_get (FEpoch e) W <> None -> fires (sv_period sv) e = true /\ In e (map fst run)) /\
  store_get FInitial W = (if sv_save_initial sv then Some (sv_save params empty sv s0 0%Z) else None).
Proof. exact @Links.L1.saver_on_fit_run. Qed.
Print Assumptions C17_saver_on_fit_run.
