(* C09 — The swap estimator measures the purity of the reduced state.
   Only theorem statements closed by [exact <lemma>] and [Print Assumptions].
   Model: QModel.Observables at T := R ([swap_mask], [swap_sites], [swap_value], [roll1], [swap_apply];
   importance-sampling weights of pure and mixed states).
   Specification side (QTheory.SwapR): a region is a mask A over the n sites, [merge A a b] is the basis state
   equal to a on the region and to b on the complement, rho_A(a,a') = sum_b rho(merge A a b, merge A a' b),
   [purity A rho] = tr(rho_A^2) = sum_{a,a'} rho_A(a,a') rho_A(a',a).  Statements are for the unnormalised
   matrix rho with diagonal p; dividing by Z^2 = (sum_s p(s))^2 gives the statement for the normalised state. *)
From Coq Require Import List Reals Permutation.
From QModel Require Import Num Bits CBase Rbm States Observables.
From QTheory Require Import RInst SumBits ObsR SwapR.
Import ListNotations.
Open Scope R_scope.

(* 1. every sum over basis states splits into region x complement, for every mask *)
Theorem C09_sum_bits_split : forall (A : list bool) (f : bits -> R),
  sum_bits (length A) f = sum_bits (nin A) (fun a => sum_bits (nout A) (fun b => f (merge A a b))).
Proof. exact sum_bits_split. Qed.
Print Assumptions C09_sum_bits_split.

Theorem C09_swap_exchanges_region : forall A a1 b1 a2 b2,
  length a1 = nin A -> length a2 = nin A -> length b1 = nout A -> length b2 = nout A ->
  swap_mask A (merge A a1 b1) (merge A a2 b2) = (merge A a2 b1, merge A a1 b2).
Proof. exact swap_mask_merge. Qed.
Print Assumptions C09_swap_exchanges_region.

(* the region given as int / list / array / tensor of site indices is the mask of those sites
   (indices >= n, negative indices, duplicates and boolean masks are outside the property and not modelled:
   [mask_of_sites] ignores indices >= n where torch raises IndexError) *)
(* definitional: restates the model *)
Theorem C09_region_sites_as_mask : forall n (A : list nat) j, (j < n)%nat ->
  length (mask_of_sites n A) = n /\ (nth j (mask_of_sites n A) false = true <-> In j A).
Proof. intros n A j Hj; split; [exact (mask_of_sites_length n A) | exact (mask_of_sites_spec n A j Hj)]. Qed.
Print Assumptions C09_region_sites_as_mask.

(* 2. mixed state: arbitrary matrix rho, weights p > 0 used as the importance-sampling denominator *)
Theorem C09_swap_estimates_purity : forall (rho : bits -> bits -> R * R) (p : bits -> R) (A : list bool),
  (forall s, length s = length A -> 0 < p s) ->
  sum_bits (length A) (fun s1 => sum_bits (length A) (fun s2 =>
    p s1 * p s2 * swap_value ROps (mixed_state ROps rho p) A s1 s2)) =
  fst (purity A rho).
Proof. exact swap_estimates_purity. Qed.
Print Assumptions C09_swap_estimates_purity.

(* pure state: numerator psi(s'), denominator psi(s); rho = |psi><psi| *)
Theorem C09_swap_estimates_purity_pure : forall (psi : bits -> R * R) (A : list bool),
  (forall s, length s = length A -> psi s <> (0, 0)) ->
  sum_bits (length A) (fun s1 => sum_bits (length A) (fun s2 =>
    pnorm2 psi s1 * pnorm2 psi s2 * swap_value ROps (pure_state psi) A s1 s2)) =
  fst (purity A (proj psi)).
Proof. exact swap_estimates_purity_pure. Qed.
Print Assumptions C09_swap_estimates_purity_pure.

(* the same statement at the RBM states of States.v: weights are probability(s) = exp(-E_am(s)) *)
Theorem C09_swap_estimates_purity_rbm_states : forall (am ph : brbm) (pam pph : prbm) (A : list bool),
  sum_bits (length A) (fun s1 => sum_bits (length A) (fun s2 =>
    probability ROps am s1 1 * probability ROps am s2 1 * swap_value ROps (pure_state (cplx_psi ROps am ph)) A s1 s2)) =
  fst (purity A (proj (cplx_psi ROps am ph))) /\
  sum_bits (length A) (fun s1 => sum_bits (length A) (fun s2 =>
    probability ROps am s1 1 * probability ROps am s2 1 * swap_value ROps (pure_state (pos_psi ROps am)) A s1 s2)) =
  fst (purity A (proj (pos_psi ROps am))) /\
  sum_bits (length A) (fun s1 => sum_bits (length A) (fun s2 =>
    dm_probability ROps pam s1 1 * dm_probability ROps pam s2 1 *
    swap_value ROps (mixed_state ROps (dm_rho ROps pam pph) (fun v => dm_probability ROps pam v 1)) A s1 s2)) =
  fst (purity A (dm_rho ROps pam pph)).
Proof.
  intros am ph pam pph A.
  exact (conj (swap_estimates_purity_complex_wavefunction am ph A)
        (conj (swap_estimates_purity_positive_wavefunction am A)
              (swap_estimates_purity_density_matrix pam pph A))).
Qed.
Print Assumptions C09_swap_estimates_purity_rbm_states.

(* 3. pure states: a region and its complement have the same purity; empty / full region: (sum |psi|^2)^2 *)
Theorem C09_pure_region_complement_symmetric : forall (psi : bits -> R * R) (A : list bool),
  purity A (proj psi) = purity (map negb A) (proj psi).
Proof. exact pure_region_complement_symmetric. Qed.
Print Assumptions C09_pure_region_complement_symmetric.

Theorem C09_pure_empty_full : forall (psi : bits -> R * R) n,
  purity (repeat false n) (proj psi) = (sum_bits n (pnorm2 psi) * sum_bits n (pnorm2 psi), 0) /\
  purity (repeat true n) (proj psi) = (sum_bits n (pnorm2 psi) * sum_bits n (pnorm2 psi), 0).
Proof. intros psi n; split; [exact (pure_empty_region psi n) | exact (pure_full_region psi n)]. Qed.
Print Assumptions C09_pure_empty_full.

(* 4. Renyi-2 entropy is non-negative:  tr rho_A^2 <= (tr rho)^2  (finite complex Cauchy-Schwarz).
   Pure states, and every matrix of Gram form rho(s,t) = sum_{k in bits m} Psi(s ++ k) conj(Psi(t ++ k))
   (the reduced state of a pure state on n + m sites; the form C02 establishes for the density-matrix RBM). *)
Theorem C09_renyi_nonneg_pure : forall (psi : bits -> R * R) (A : list bool),
  fst (purity A (proj psi)) <= sum_bits (length A) (pnorm2 psi) * sum_bits (length A) (pnorm2 psi)
  /\ snd (purity A (proj psi)) = 0.
Proof. intros psi A; split; [exact (renyi_nonneg_pure psi A) | exact (purity_pure_real psi A)]. Qed.
Print Assumptions C09_renyi_nonneg_pure.

Theorem C09_renyi_nonneg : forall (A : list bool) m (Psi : bits -> R * R),
  fst (purity A (gram m Psi)) <=
  sum_bits (length A) (fun s => fst (gram m Psi s s)) * sum_bits (length A) (fun s => fst (gram m Psi s s)).
Proof. exact renyi_nonneg_gram. Qed.
Print Assumptions C09_renyi_nonneg.

(* a Gram-form matrix restricted to a region is the pure state's reduced matrix for the padded region *)
Theorem C09_gram_is_reduced_pure_state : forall (A : list bool) m (Psi : bits -> R * R),
  purity A (gram m Psi) = purity (A ++ repeat false m) (proj Psi).
Proof. exact purity_gram. Qed.
Print Assumptions C09_gram_is_reduced_pure_state.

Theorem C09_cauchy_schwarz : forall n (x y : bits -> R * R),
  let ip := csum_bits n (fun s => cmul ROps (x s) (cconj ROps (y s))) in
  fst ip * fst ip + snd ip * snd ip <= sum_bits n (pnorm2 x) * sum_bits n (pnorm2 y).
Proof. exact cauchy_schwarz_bits. Qed.
Print Assumptions C09_cauchy_schwarz.

(* 5. inside a batch, row i is paired with row i-1 (cyclically); every row is used once in each replica role.
   The property only asks for "a cyclic neighbour": the check accepts a shift by one in either direction, detected
   from the output; the model mirrors the code's torch.roll(samples, 1, 0). *)
(* definitional: restates the model *)
Theorem C09_pairing_is_cyclic : forall (st : istate) (A : list nat) (rows : list bits) i,
  (i < length rows)%nat ->
  nth i (swap_apply ROps st A rows) 0 =
  swap_value ROps st (mask_of_sites (length (nth i rows [])) A)
    (nth i rows []) (nth ((i + length rows - 1) mod length rows) rows []).
Proof. exact pairing_is_cyclic. Qed.
Print Assumptions C09_pairing_is_cyclic.

(* definitional: restates the model (roll1 is a rotation of the list) *)
Theorem C09_pairing_uses_each_row_once : forall (rows : list bits) (st : istate (T:=R)) (A : list nat),
  Permutation (roll1 rows) rows /\ length (swap_apply ROps st A rows) = length rows.
Proof. intros rows st A; split; [exact (roll1_perm rows) | exact (swap_apply_length st A rows)]. Qed.
Print Assumptions C09_pairing_uses_each_row_once.

Theorem C09_hypotheses_satisfiable :
  exists (rho : bits -> bits -> R * R) (p : bits -> R) (A : list bool),
    (forall s, length s = length A -> 0 < p s) /\ nin A = 1%nat /\ nout A = 1%nat.
Proof. exact swap_hypotheses_satisfiable. Qed.
Print Assumptions C09_hypotheses_satisfiable.

(* ---------------------------------------------------------------------------------------------
   Links to C02 (QTheory.Rho; proofs: QTheory.Links, module L2).  Under C02's shape guards and its
   non-singularity guard ([Rho.pi_guard] on every pair of basis states of the size considered), the
   density matrix of the model IS of the Gram form of C09_renyi_nonneg: it is the reduced state of the
   purified two-network state [purified am ph n] (C02's Psi, read on n + na sites, the na auxiliary
   units being traced out).  Hence Renyi-2 >= 0 for the model's mixed state, tr(rho_A^2) <= (tr rho)^2
   with tr rho = dm_normalization, and this purity is what the SWAP estimator averages to. *)
From QTheory Require Rho Links.

Theorem C09_density_matrix_is_gram : forall (am ph : prbm),
  length (pU am) = length (pd am) -> length (pU ph) = length (pU am) ->
  forall n s t, length s = n -> length t = n ->
  Forall Rho.pi_guard (pi_args ROps am ph s t) ->
  dm_rho ROps am ph s t = gram (length (pd am)) (Links.L2.purified am ph n) s t.
Proof. exact Links.L2.density_matrix_is_gram. Qed.
Print Assumptions C09_density_matrix_is_gram.

Theorem C09_renyi_nonneg_density_matrix : forall (am ph : prbm),
  length (pU am) = length (pd am) -> length (pU ph) = length (pU am) ->
  forall A : list bool,
  (forall v vp, length v = length A -> length vp = length A -> Forall Rho.pi_guard (pi_args ROps am ph v vp)) ->
  let Z := dm_normalization ROps am (all_bits (length A)) in
  let p := fun s => dm_probability ROps am s 1 in
  let rho := dm_rho ROps am ph in
  sum_bits (length A) (fun s1 => sum_bits (length A) (fun s2 =>
    p s1 * p s2 * swap_value ROps (mixed_state ROps rho p) A s1 s2)) = fst (purity A rho) /\
  fst (purity A rho) <= Z * Z /\ 0 < Z.
Proof. exact Links.L2.renyi_nonneg_density_matrix. Qed.
Print Assumptions C09_renyi_nonneg_density_matrix.

(* non-vacuity: C02's example network (every bias non-zero, U_mu <> 0) meets all three guards *)
Theorem C09_density_matrix_guards_satisfiable :
  let am := mkP [[1]] [[1]] [0.3] [-0.2] [0.5] in
  let ph := mkP [[0.7]] [[2]] [0.1] [0.4] [0] in
  length (pU am) = length (pd am) /\ length (pU ph) = length (pU am) /\
  forall v vp, length v = length [true] -> length vp = length [true] -> Forall Rho.pi_guard (pi_args ROps am ph v vp).
Proof. exact Links.L2.density_matrix_hyps_satisfiable. Qed.
Print Assumptions C09_density_matrix_guards_satisfiable.
