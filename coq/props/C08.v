(* C08 — Observable estimators are unbiased for the operator they name.
   Only theorem statements closed by [exact <lemma>] and [Print Assumptions].
   Model: QModel.Observables at T := R (per-sample values of SigmaX/Y/Z.apply and
   NeighbourInteraction.apply; importance-sampling numerator/denominator of pure and mixed states).
   Specification side (QTheory.ObsR): tr(rho Op) = sum_{s,s'} rho(s,s') Op(s',s) over all basis states,
   Pauli matrices with <0|Y|1> = -i, <1|Y|0> = +i, Z = diag(-1,+1) for bit 0/1, one-site operators
   [site_op M i], their site average [mean_site_op M n] = (1/n) sum_i M_i, diagonal operators [diag_op].
   The statements are for the unnormalised matrix rho with diagonal p; dividing both sides by
   Z = sum_s p(s) gives the statement for the normalised state. *)
From Coq Require Import List Reals.
From QModel Require Import Num Bits CBase Rbm States Observables.
From QTheory Require Import RInst SumBits ObsR.
Import ListNotations.
Open Scope R_scope.

(* ---- mixed states: arbitrary matrix rho, sampling weights p(s) > 0 used as the denominator ---- *)
(* the guard 1 <= n is not needed by the proof (at n = 0 both sides are x/0 = 0 in Coq's totalised division);
   it is stated so that the theorem is not true for that reason *)
Theorem C08_sigma_x_unbiased : forall n (rho : bits -> bits -> R * R) (p : bits -> R),
  (1 <= n)%nat -> (forall s, length s = n -> 0 < p s) ->
  sum_bits n (fun s => p s * sigma_x ROps false (mixed_state ROps rho p) s) =
  fst (trace_op n rho (mean_site_op pauliX n)).
Proof. intros n rho p _. exact (sigma_x_unbiased n rho p). Qed.
Print Assumptions C08_sigma_x_unbiased.

Theorem C08_sigma_y_unbiased : forall n (rho : bits -> bits -> R * R) (p : bits -> R),
  (1 <= n)%nat -> (forall s, length s = n -> 0 < p s) ->
  sum_bits n (fun s => p s * sigma_y ROps false (mixed_state ROps rho p) s) =
  fst (trace_op n rho (mean_site_op pauliY n)).
Proof. intros n rho p _. exact (sigma_y_unbiased n rho p). Qed.
Print Assumptions C08_sigma_y_unbiased.

Theorem C08_sigma_z_unbiased : forall n (rho : bits -> bits -> R * R) (p : bits -> R),
  (1 <= n)%nat -> (forall s, length s = n -> fst (rho s s) = p s) ->
  sum_bits n (fun s => p s * sigma_z ROps false s) =
  fst (trace_op n rho (mean_site_op pauliZ n)).
Proof. exact sigma_z_unbiased. Qed.
Print Assumptions C08_sigma_z_unbiased.

(* open chain: (1/n) sum_{i < n-c} Z_i Z_{i+c};  periodic: (1/n) sum_{i<n} Z_i Z_{(i+c) mod n};  all c >= 1.
   (c = 0 and negative c are outside the property: Python's z[:-0] is the empty slice and the product then fails to
   broadcast for n > 1; the model returns 0 there and no theorem speaks about it.) *)
Theorem C08_neighbour_open_unbiased : forall n (rho : bits -> bits -> R * R) (p : bits -> R),
  (forall s, length s = n -> fst (rho s s) = p s) ->
  forall c, (1 <= c)%nat ->
  sum_bits n (fun s => p s * neighbour ROps false c s) = fst (trace_op n rho (diag_op (zz_open n c))).
Proof. exact neighbour_open_unbiased. Qed.
Print Assumptions C08_neighbour_open_unbiased.

Theorem C08_neighbour_periodic_unbiased : forall n (rho : bits -> bits -> R * R) (p : bits -> R),
  (forall s, length s = n -> fst (rho s s) = p s) ->
  forall c,
  sum_bits n (fun s => p s * neighbour ROps true c s) = fst (trace_op n rho (diag_op (zz_periodic n c))).
Proof. exact neighbour_periodic_unbiased. Qed.
Print Assumptions C08_neighbour_periodic_unbiased.

(* the diagonal operator z_i z_j used above is the matrix product Z_i Z_j of the one-site operators *)
Theorem C08_ZZ_is_product_of_site_ops : forall n i j s t,
  length s = n -> length t = n -> (i < n)%nat -> (j < n)%nat ->
  csum_bits n (fun u => cmul ROps (site_op pauliZ i s u) (site_op pauliZ j u t)) =
  diag_op (fun u => zsite u i * zsite u j) s t.
Proof. exact ZZ_is_product_of_site_ops. Qed.
Print Assumptions C08_ZZ_is_product_of_site_ops.

(* tr(rho X_i) in the other index convention (flip re-indexing) *)
Theorem C08_trace_pauliX_flip : forall n (rho : bits -> bits -> R * R) i, (i < n)%nat ->
  trace_op n rho (site_op pauliX i) = csum_bits n (fun s => rho s (flip i s)).
Proof. exact trace_pauliX_alt. Qed.
Print Assumptions C08_trace_pauliX_flip.

Theorem C08_sum_bits_flip : forall n i (f : bits -> R), sum_bits n (fun s => f (flip i s)) = sum_bits n f.
Proof. exact sum_bits_flip. Qed.
Print Assumptions C08_sum_bits_flip.

(* ---- pure states: numerator psi(s'), denominator psi(s); rho = |psi><psi|, p = |psi|^2 ---- *)
Theorem C08_pure_importance_ratio : forall (psi : bits -> R * R) vp v,
  psi v <> (0, 0) ->
  is_weight ROps (pure_state psi) vp v =
  is_weight ROps (mixed_state ROps (proj psi) (pnorm2 psi)) vp v.
Proof. exact pure_weight_is_projector_weight. Qed.
Print Assumptions C08_pure_importance_ratio.

Theorem C08_sigma_x_unbiased_pure : forall n (psi : bits -> R * R),
  (1 <= n)%nat -> (forall s, length s = n -> psi s <> (0, 0)) ->
  sum_bits n (fun s => pnorm2 psi s * sigma_x ROps false (pure_state psi) s) =
  fst (trace_op n (proj psi) (mean_site_op pauliX n)).
Proof. intros n psi _. exact (sigma_x_unbiased_pure n psi). Qed.
Print Assumptions C08_sigma_x_unbiased_pure.

Theorem C08_sigma_y_unbiased_pure : forall n (psi : bits -> R * R),
  (1 <= n)%nat -> (forall s, length s = n -> psi s <> (0, 0)) ->
  sum_bits n (fun s => pnorm2 psi s * sigma_y ROps false (pure_state psi) s) =
  fst (trace_op n (proj psi) (mean_site_op pauliY n)).
Proof. intros n psi _. exact (sigma_y_unbiased_pure n psi). Qed.
Print Assumptions C08_sigma_y_unbiased_pure.

Theorem C08_sigma_z_unbiased_pure : forall n (psi : bits -> R * R), (1 <= n)%nat ->
  sum_bits n (fun s => pnorm2 psi s * sigma_z ROps false s) =
  fst (trace_op n (proj psi) (mean_site_op pauliZ n)).
Proof. intros n psi Hn. exact (sigma_z_unbiased n (proj psi) (pnorm2 psi) Hn (proj_diag_fst n psi)). Qed.
Print Assumptions C08_sigma_z_unbiased_pure.

Theorem C08_neighbour_unbiased_pure : forall n (psi : bits -> R * R) c, (1 <= c)%nat ->
  sum_bits n (fun s => pnorm2 psi s * neighbour ROps false c s) = fst (trace_op n (proj psi) (diag_op (zz_open n c)))
  /\ sum_bits n (fun s => pnorm2 psi s * neighbour ROps true c s) = fst (trace_op n (proj psi) (diag_op (zz_periodic n c))).
Proof.
  intros n psi c Hc; split;
  [exact (neighbour_open_unbiased n (proj psi) (pnorm2 psi) (proj_diag_fst n psi) c Hc)
  |exact (neighbour_periodic_unbiased n (proj psi) (pnorm2 psi) (proj_diag_fst n psi) c)].
Qed.
Print Assumptions C08_neighbour_unbiased_pure.

(* ---- the same statements at the RBM states of States.v (C01): weights are probability(s) = exp(-E_am(s)) ---- *)
Theorem C08_sigma_xy_unbiased_complex_wavefunction : forall (am ph : brbm) n,
  sum_bits n (fun s => probability ROps am s 1 * sigma_x ROps false (pure_state (cplx_psi ROps am ph)) s) =
    fst (trace_op n (proj (cplx_psi ROps am ph)) (mean_site_op pauliX n)) /\
  sum_bits n (fun s => probability ROps am s 1 * sigma_y ROps false (pure_state (cplx_psi ROps am ph)) s) =
    fst (trace_op n (proj (cplx_psi ROps am ph)) (mean_site_op pauliY n)).
Proof. exact sigma_xy_unbiased_complex_wavefunction. Qed.
Print Assumptions C08_sigma_xy_unbiased_complex_wavefunction.

Theorem C08_sigma_xy_unbiased_positive_wavefunction : forall (am : brbm) n,
  sum_bits n (fun s => probability ROps am s 1 * sigma_x ROps false (pure_state (pos_psi ROps am)) s) =
    fst (trace_op n (proj (pos_psi ROps am)) (mean_site_op pauliX n)) /\
  sum_bits n (fun s => probability ROps am s 1 * sigma_y ROps false (pure_state (pos_psi ROps am)) s) =
    fst (trace_op n (proj (pos_psi ROps am)) (mean_site_op pauliY n)).
Proof. exact sigma_xy_unbiased_positive_wavefunction. Qed.
Print Assumptions C08_sigma_xy_unbiased_positive_wavefunction.

(* density-matrix RBM: numerator rho(s', s), denominator probability(s).  (SigmaZ / NeighbourInteraction for this state
   follow from C08_sigma_z_unbiased / C08_neighbour_*_unbiased once rho(s,s) = probability(s), which is C02's theorem.) *)
Theorem C08_sigma_xy_unbiased_density_matrix : forall (am ph : prbm) n,
  let st := mixed_state ROps (dm_rho ROps am ph) (fun v => dm_probability ROps am v 1) in
  sum_bits n (fun s => dm_probability ROps am s 1 * sigma_x ROps false st s) =
    fst (trace_op n (dm_rho ROps am ph) (mean_site_op pauliX n)) /\
  sum_bits n (fun s => dm_probability ROps am s 1 * sigma_y ROps false st s) =
    fst (trace_op n (dm_rho ROps am ph) (mean_site_op pauliY n)).
Proof. exact sigma_xy_unbiased_density_matrix. Qed.
Print Assumptions C08_sigma_xy_unbiased_density_matrix.

(* ---- absolute=True is the pointwise absolute value of the absolute=False value ---- *)
(* definitional: restates the model *)
Theorem C08_absolute_is_pointwise_abs : forall (st : istate) s,
  sigma_x ROps true st s = Rabs (sigma_x ROps false st s) /\
  sigma_y ROps true st s = Rabs (sigma_y ROps false st s) /\
  sigma_z ROps true s = Rabs (sigma_z ROps false s).
Proof. intros st s. exact (conj (proj1 (absolute_is_pointwise_abs st s 0%nat false))
  (conj (proj1 (proj2 (absolute_is_pointwise_abs st s 0%nat false)))
        (proj1 (proj2 (proj2 (absolute_is_pointwise_abs st s 0%nat false)))))). Qed.
Print Assumptions C08_absolute_is_pointwise_abs.

(* non-vacuity of the hypotheses *)
Theorem C08_hypotheses_satisfiable :
  (exists (rho : bits -> bits -> R * R) (p : bits -> R),
    (forall s, length s = 2%nat -> 0 < p s) /\ (forall s, length s = 2%nat -> fst (rho s s) = p s)
    /\ rho [true; false] [false; false] <> rho [false; false] [true; false])
  /\ (exists psi : bits -> R * R, forall s, length s = 2%nat -> psi s <> (0, 0)).
Proof. exact (conj mixed_hypotheses_satisfiable pure_hypotheses_satisfiable). Qed.
Print Assumptions C08_hypotheses_satisfiable.

(* ---------------------------------------------------------------------------------------------
   Link to C02 (QTheory.Rho; proof: QTheory.Links, module L2).  For the density-matrix RBM of the
   model, C02's diagonal theorem (rho(s,s) = probability(s), under C02's two shape guards) discharges
   the hypothesis "fst (rho s s) = p s" of C08_sigma_z_unbiased / C08_neighbour_*_unbiased: SigmaZ and
   NeighbourInteraction (open chain, all c >= 1; periodic, all c) are unbiased for that state with no
   abstract hypothesis left.  (SigmaX / SigmaY: C08_sigma_xy_unbiased_density_matrix above.) *)
From QTheory Require Links.

Theorem C08_z_observables_unbiased_density_matrix : forall (am ph : prbm),
  length (pU am) = length (pd am) -> length (pU ph) = length (pU am) ->
  forall n, (1 <= n)%nat ->
  let p := fun s => dm_probability ROps am s 1 in
  let rho := dm_rho ROps am ph in
  sum_bits n (fun s => p s * sigma_z ROps false s) = fst (trace_op n rho (mean_site_op pauliZ n)) /\
  (forall c, (1 <= c)%nat ->
     sum_bits n (fun s => p s * neighbour ROps false c s) = fst (trace_op n rho (diag_op (zz_open n c)))) /\
  (forall c,
     sum_bits n (fun s => p s * neighbour ROps true c s) = fst (trace_op n rho (diag_op (zz_periodic n c)))).
Proof. exact Links.L2.z_observables_unbiased_density_matrix. Qed.
Print Assumptions C08_z_observables_unbiased_density_matrix.

(* the fact used: the diagonal of the model's density matrix is real, equals the reported probability, and is > 0 *)
Theorem C08_density_matrix_diagonal : forall (am ph : prbm),
  length (pU am) = length (pd am) -> length (pU ph) = length (pU am) ->
  forall s, fst (dm_rho ROps am ph s s) = dm_probability ROps am s 1 /\
            snd (dm_rho ROps am ph s s) = 0 /\ 0 < dm_probability ROps am s 1.
Proof. exact Links.L2.dm_diag_real. Qed.
Print Assumptions C08_density_matrix_diagonal.
