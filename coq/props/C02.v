(* C02 — The reconstructed density matrix is always a physical state.
   This file contains only theorem statements closed by [exact <lemma>] and
   [Print Assumptions].  Model: QModel.Rbm (prbm, p_eff_energy, p_eff_energy_va, p_gamma,
   p_partition) and QModel.States (pi_args, pi_real1, pi_imag1, dm_pi, dm_rho, dm_rho_diag,
   dm_probability, dm_normalization, dm_rho_matrix) at T := R.
   Specification vocabulary (theory/Rho.v; complex numbers are Coquelicot's C = R * R):
     polar r t        := (r cos t, r sin t)
     cexp (x, y)      := polar (exp x) y                       -- exp(x + i y)
     csum_bits n f    := sum of f over all bit strings of length n (Cplus)
     Psi am ph v a    := polar (sqrt (exp (- E_am(v,a)))) (- E_ph(v,a) / 2),  E = p_eff_energy_va
     partial_trace am ph v vp := csum_bits na (fun a => Psi v a * conj (Psi vp a)),  na = length (pd am)
     quad_form n M x  := sum_{s,s'} conj (x s) * M s s' * x s'
     pi_guard (x, y)  := 1 + e^x cos y <> 0 \/ e^x sin y <> 0   -- 1 + exp(z_k) <> 0
   Shape guards: length (pU am) = length (pd am) (one aux bias per row of U_am) and
   length (pU ph) = length (pU am) (both nets have the same number of auxiliary units); the
   code enforces them at construction.  The phase net's aux bias (pd ph) never enters rho and
   cancels in Psi v a * conj (Psi vp a), so the theorems hold for every value of it. *)
From Coq Require Import List Reals.
From Coquelicot Require Import Complex.
From QModel Require Import Num Bits Rbm States.
From QTheory Require Import RInst SumBits Atan2 Rho.
Import ListNotations.
Open Scope R_scope.

(* 1. polar form of the model's atan2 *)
Theorem C02_atan2_polar : forall x y, x <> 0 \/ y <> 0 ->
  sqrt (x * x + y * y) * cos (Ratan2 y x) = x /\
  sqrt (x * x + y * y) * sin (Ratan2 y x) = y.
Proof. exact Ratan2_polar. Qed.
Print Assumptions C02_atan2_polar.

(* key identity per auxiliary unit: exp(pi_real1 + i pi_imag1) = 1 + exp(x + i y) *)
Theorem C02_pi_unit_identity : forall xy, pi_guard xy ->
  polar (exp (pi_real1 ROps xy)) (pi_imag1 ROps xy) = Cplus (RtoC 1) (cexp xy).
Proof. exact pi_unit. Qed.
Print Assumptions C02_pi_unit_identity.

(* the guard excludes exactly the points x = 0, cos y = -1 (a null set) *)
Theorem C02_singular_points : forall xy, pi_guard xy <-> ~ (fst xy = 0 /\ cos (snd xy) = -1).
Proof. exact pi_guard_iff. Qed.
Print Assumptions C02_singular_points.

(* product over auxiliary units becomes a sum over auxiliary configurations *)
Theorem C02_complex_marginal : forall l : list (R * R),
  cprod (map (fun xy => Cplus (RtoC 1) (cexp xy)) l) =
  csum_bits (length l) (fun a => cexp (dotb ROps (map fst l) a, dotb ROps (map snd l) a)).
Proof. exact cmarginal. Qed.
Print Assumptions C02_complex_marginal.

(* 2. rho is, entry for entry, the partial trace over the auxiliary units of |Psi><Psi| *)
Theorem C02_rho_is_partial_trace : forall (am ph : prbm (T:=R)) v vp,
  length (pU am) = length (pd am) -> length (pU ph) = length (pU am) ->
  Forall pi_guard (pi_args ROps am ph v vp) ->
  dm_rho ROps am ph v vp =
  csum_bits (length (pd am)) (fun a => Cmult (Psi am ph v a) (Cconj (Psi am ph vp a))).
Proof. exact rho_is_partial_trace. Qed.
Print Assumptions C02_rho_is_partial_trace.

(* 3. Hermitian: for all parameters and all pairs, no guard (the branch cut and the singular
   points of atan2/log are covered: the two angles there differ by a multiple of 2 pi) *)
Theorem C02_rho_hermitian : forall (am ph : prbm (T:=R)) v vp,
  dm_rho ROps am ph vp v = Cconj (dm_rho ROps am ph v vp).
Proof. exact rho_hermitian. Qed.
Print Assumptions C02_rho_hermitian.

(* 4. positive semidefinite: x^dagger rho x is real and >= 0 for every complex vector x *)
Theorem C02_rho_psd : forall (am ph : prbm (T:=R)) n (x : bits -> C),
  length (pU am) = length (pd am) -> length (pU ph) = length (pU am) ->
  (forall v vp, length v = n -> length vp = n -> Forall pi_guard (pi_args ROps am ph v vp)) ->
  0 <= fst (quad_form n (dm_rho ROps am ph) x) /\ snd (quad_form n (dm_rho ROps am ph) x) = 0.
Proof. exact rho_psd. Qed.
Print Assumptions C02_rho_psd.

Theorem C02_partial_trace_psd : forall (am ph : prbm (T:=R)) n (x : bits -> C),
  0 <= fst (quad_form n (partial_trace am ph) x) /\ snd (quad_form n (partial_trace am ph) x) = 0.
Proof. exact partial_trace_psd. Qed.
Print Assumptions C02_partial_trace_psd.

(* 5. the diagonal is the reported unnormalised probability exp(-E_eff) (no singularity guard),
   and equals the diagonal shortcut rho(v, expand=False) *)
Theorem C02_rho_diag_is_probability : forall (am ph : prbm (T:=R)) v,
  length (pU am) = length (pd am) -> length (pU ph) = length (pU am) ->
  dm_rho ROps am ph v v = dm_rho_diag ROps am v /\
  dm_rho_diag ROps am v = (exp (- p_eff_energy ROps am v), 0).
Proof. exact rho_diag_is_probability. Qed.
Print Assumptions C02_rho_diag_is_probability.

Theorem C02_probability_is_aux_marginal : forall (am ph : prbm (T:=R)) v,
  length (pU am) = length (pd am) -> length (pU ph) = length (pU am) ->
  dm_probability ROps am v 1 =
  sum_bits (length (pd am)) (fun a => exp (- p_eff_energy_va ROps am v a)).
Proof. exact probability_is_aux_marginal. Qed.
Print Assumptions C02_probability_is_aux_marginal.

(* 6. trace = reported normalisation = total reported probability, > 0 *)
Theorem C02_rho_trace_is_normalization : forall (am ph : prbm (T:=R)) n,
  length (pU am) = length (pd am) -> length (pU ph) = length (pU am) ->
  dm_normalization ROps am (all_bits n) = sum_bits n (fun v => fst (dm_rho ROps am ph v v)) /\
  dm_normalization ROps am (all_bits n) = sum_bits n (fun v => dm_probability ROps am v 1) /\
  0 < dm_normalization ROps am (all_bits n).
Proof. exact rho_trace_is_normalization. Qed.
Print Assumptions C02_rho_trace_is_normalization.

Theorem C02_rho_normalized_trace_one : forall (am ph : prbm (T:=R)) n,
  length (pU am) = length (pd am) -> length (pU ph) = length (pU am) ->
  sum_bits n (fun v => fst (dm_rho ROps am ph v v) / dm_normalization ROps am (all_bits n)) = 1.
Proof. exact rho_normalized_trace_one. Qed.
Print Assumptions C02_rho_normalized_trace_one.

(* 7. call forms: entry [i][j] of the full matrix is the single element on (space[i], space[j]) *)
Theorem C02_rho_matrix_entry : forall (am ph : prbm (T:=R)) (space : list bits) i j,
  (i < length space)%nat -> (j < length space)%nat ->
  nth j (nth i (dm_rho_matrix ROps am ph space) []) (0, 0) =
  dm_rho ROps am ph (nth i space []) (nth j space []).
Proof. exact rho_matrix_entry. Qed.
Print Assumptions C02_rho_matrix_entry.

Theorem C02_rho_matrix_shape : forall (am ph : prbm (T:=R)) (space : list bits),
  length (dm_rho_matrix ROps am ph space) = length space /\
  Forall (fun row => length row = length space) (dm_rho_matrix ROps am ph space).
Proof. exact rho_matrix_shape. Qed.
Print Assumptions C02_rho_matrix_shape.

(* non-vacuity of the hypotheses: a 1-1-1 network, every bias non-zero (phase aux bias 0),
   U_mu <> 0, meets the shape guards and the guard on all four pairs of basis states *)
Theorem C02_guards_nonvacuous :
  let am := mkP [[1]] [[1]] [0.3] [-0.2] [0.5] in
  let ph := mkP [[0.7]] [[2]] [0.1] [0.4] [0] in
  length (pU am) = length (pd am) /\ length (pU ph) = length (pU am) /\
  forall v vp, length v = 1%nat -> length vp = 1%nat -> Forall pi_guard (pi_args ROps am ph v vp).
Proof. exact rho_guards_nonvacuous. Qed.
Print Assumptions C02_guards_nonvacuous.
