(* C11 — Saving and reloading reproduces the state exactly and has no side effects.
   Only theorem statements closed by [exact <lemma>] and [Print Assumptions].
   Model: QModel.Store (heap of states / metadata dictionaries / files with object identities; values are
   opaque tokens, token equality = torch.equal).  Proofs: QTheory.StoreT.  Purely discrete. *)
From Coq Require Import List Arith.
From QModel Require Import Store.
From QTheory Require Import StoreT.
Import ListNotations.

(* C11.1a  load after save — for EVERY well-formed initial heap, EVERY history h1 before the save, EVERY
   history h2 after it that does not write the file again, and every compatible target state. *)
Theorem C11_load_after_save : forall H0 h1 s f md h2 s',
  wf H0 ->
  let H1 := fst (run h1 H0) in
  snd (run_op (Save s f md) H1) = Ok ->
  no_write f h2 ->
  let H3 := fst (run h2 (fst (run_op (Save s f md) H1))) in
  forall st st', assoc s (h_states H1) = Some st -> assoc s' (h_states H3) = Some st' ->
  arch_of st' = arch_of st ->
  let r := run_op (Load s' f) H3 in
  snd r = Ok /\
  exists st'', assoc s' (h_states (fst r)) = Some st'' /\
    nets_params (s_nets st'') = nets_params (s_nets st) /\        (* every parameter of every network: name, shape, value *)
    arch_of st'' = arch_of st /\
    nets_ids (s_nets st'') = nets_ids (s_nets st') /\             (* loaded in place: same network objects *)
    (s_ud st' <> None -> s_ud st <> None -> s_ud st'' = s_ud st) /\
    (forall f', assoc f' (h_files (fst r)) = assoc f' (h_files H3)).
Proof. exact load_after_save_lemma. Qed.
Print Assumptions C11_load_after_save.

(* C11.1b  autoload after save: the auto-constructed state has the saved kind, architecture (sizes inferred
   from the bias lengths), parameters and unitary dictionary, on fresh network objects. *)
Theorem C11_autoload_after_save : forall H0 h1 s f md h2 new_s,
  wf H0 ->
  let H1 := fst (run h1 H0) in
  snd (run_op (Save s f md) H1) = Ok ->
  no_write f h2 ->
  let H3 := fst (run h2 (fst (run_op (Save s f md) H1))) in
  forall st, assoc s (h_states H1) = Some st -> ud_is_dict st ->
  let r := run_op (Autoload (s_kind st) f new_s) H3 in
  snd r = Ok /\
  exists st'', assoc new_s (h_states (fst r)) = Some st'' /\
    s_kind st'' = s_kind st /\
    nets_params (s_nets st'') = nets_params (s_nets st) /\
    arch_of st'' = arch_of st /\
    s_ud st'' = s_ud st /\
    (forall i, In i (nets_ids (s_nets st'')) -> h_next H3 <= i).
Proof. exact autoload_after_save_lemma. Qed.
Print Assumptions C11_autoload_after_save.

(* C11.1c  the written file maps every network name to its state dict, "unitary_dict" to the dictionary and
   every metadata key to its value. *)
Theorem C11_file_content_after_save : forall H s f md,
  wf H -> snd (run_op (Save s f md) H) = Ok ->
  exists st c, assoc s (h_states H) = Some st /\ assoc f (h_files (fst (run_op (Save s f md) H))) = Some c /\
    (forall nm n, assoc nm (s_nets st) = Some n -> assoc nm c = Some (FNet (n_params n))) /\
    (forall u, s_ud st = Some u -> assoc K_UD c = Some u) /\
    (forall k v, assoc k (md_list (md_content H md)) = Some v -> assoc k c = Some (FVal v)).
Proof. exact file_content_after_save_lemma. Qed.
Print Assumptions C11_file_content_after_save.

(* C11.1d  reserved names are refused (ValueError) and nothing changes. *)
Theorem C11_reserved_keys_refused : forall H s f md st m,
  assoc s (h_states H) = Some st -> md_content H md = Some m ->
  ((s_ud st <> None /\ assoc K_UD m <> None) \/ (exists nm, In nm (map fst (s_nets st)) /\ assoc nm m <> None)) ->
  run_op (Save s f md) H = (H, Err EValue).
Proof. exact reserved_keys_refused_lemma. Qed.
Print Assumptions C11_reserved_keys_refused.

(* C11.2  save is pure: neither the states nor the metadata objects change, so any number of further saves
   with the same objects (to any path) are accepted and write the same record.
   DEFINITIONAL: restates the model — in Store.v [save] works on [md_copy] and only calls [upd_files], so the
   model cannot mutate metadata or states by construction; that the CODE does not is decided by the purity oracle of
   harness/checks/c11.py (metadata deep-compared before/after every save, fixed two-save histories, ModelSaver inside
   a real fit) and by the per-step comparison of the metadata objects with the model. *)
Theorem C11_save_is_pure : forall s f md H,
  snd (run_op (Save s f md) H) = Ok ->
  let H1 := fst (run_op (Save s f md) H) in
  h_states H1 = h_states H /\ h_mds H1 = h_mds H /\
  forall n f', let r := iter_save n s f' md H1 in
     Forall (fun x => x = Ok) (snd r) /\
     h_states (fst r) = h_states H /\ h_mds (fst r) = h_mds H /\
     (n <> 0 -> assoc f' (h_files (fst r)) = assoc f (h_files H1)).
Proof. exact save_is_pure_lemma. Qed.
Print Assumptions C11_save_is_pure.

(* definitional: restates the model *)
Theorem C11_refused_save_has_no_effect : forall s f md H e,
  snd (run_op (Save s f md) H) = Err e -> fst (run_op (Save s f md) H) = H.
Proof. exact save_error_no_effect. Qed.
Print Assumptions C11_refused_save_has_no_effect.

(* only writes to a path change what is stored under it.  definitional: restates the model *)
Theorem C11_files_change_only_by_writes : forall h H f,
  no_write f h -> assoc f (h_files (fst (run h H))) = assoc f (h_files H).
Proof. exact run_file_frame. Qed.
Print Assumptions C11_files_change_only_by_writes.

(* C11.3  refinement: the concrete store (flat dictionaries built by the code's sequence of checks, insertions
   and the final merge) refines the specification "a file holds an immutable snapshot (params+shapes per
   network, unitary_dict, metadata)": same results on every history, related heaps, by induction. *)
Theorem C11_refinement_to_snapshot_spec : forall h H A,
  wf H -> refines H A ->
  snd (run h H) = snd (arun h A) /\ refines (fst (run h H)) (fst (arun h A)).
Proof. exact refinement_lemma. Qed.
Print Assumptions C11_refinement_to_snapshot_spec.

(* definitional: restates the specification machine *)
Theorem C11_spec_snapshots_immutable : forall o A f,
  writes_to o <> Some f -> assoc f (snd (fst (arun_op o A))) = assoc f (snd A).
Proof. exact spec_files_immutable. Qed.
Print Assumptions C11_spec_snapshots_immutable.

(* well-formedness is an invariant of every history (so the hypotheses above are about the initial heap only) *)
Theorem C11_wf_invariant : forall h H, wf H -> wf (fst (run h H)).
Proof. exact run_wf. Qed.
Print Assumptions C11_wf_invariant.

(* network identities stay below the allocation counter on every history; together with [h_next H3 <= i] in
   C11_autoload_after_save this makes the auto-constructed state's networks DISTINCT from every existing one *)
Theorem C11_network_ids_below_counter_invariant : forall h H, ids_ok H -> ids_ok (fst (run h H)).
Proof. exact run_ids_ok. Qed.
Print Assumptions C11_network_ids_below_counter_invariant.

(* NOT theorems (correspondence / oracle only): bit-identity through torch.save/torch.load (trusted, observed per run);
   ModelSaver's callable / dict / None dispatch (executed for real, modelled as Save / SaveMdOnly); loads across
   kinds and any other load the property does not call "compatible" — for those the check compares only
   "raises vs does not raise" and nothing about the state afterwards. *)

(* non-vacuity: a well-formed heap with a complex state (nh <> nv, user-added unitary, non-empty metadata) on
   which save, save-again, autoload and load are all accepted; a reserved key is refused. *)
Theorem C11_hypotheses_satisfiable :
  wf ex_heap /\ ids_ok ex_heap /\ ud_is_dict ex_state /\ refines ex_heap (core ex_heap, []) /\
  snd (run [Save 0 5 (Some 0); Save 0 5 (Some 0); Autoload Complex 5 1; Load 0 5] ex_heap) = [Ok; Ok; Ok; Ok] /\
  snd (run [MutateMd 0 K_UD 1; Save 0 5 (Some 0)] ex_heap) = [Ok; Err EValue].
Proof. exact (conj ex_heap_wf (conj ex_ids_ok (conj ex_ud_is_dict (conj ex_refines_initial (conj ex_save_twice_ok ex_reserved_refused))))). Qed.
Print Assumptions C11_hypotheses_satisfiable.
