(* C13 — Streaming observable statistics equal the statistics of all drawn samples.
   This file contains only theorem statements closed by [exact <lemma>] and
   [Print Assumptions].  Model: QModel.Stats (update_statistics = _update_statistics as
   repaired in a38948c; statistics / system_statistics = ObservableBase.statistics /
   System.statistics with the sampler as an explicit argument).  Proofs: QTheory.StatsR.
   [None] in a variance / std_error position is the code's nan. *)
From Coq Require Import List Reals Arith.
From QModel Require Import Num Stats.
From QTheory Require Import RInst StatsR.
Import ListNotations.
Open Scope nat_scope.

(* ---------------------------------------------------------------- merge arithmetic (T := R) *)

(* the pairwise merge of the one-pass statistics of two chunks is the one-pass statistics of
   their concatenation — mean, unbiased variance (None when fewer than two values), count —
   for all chunks not both empty: lengths 1 and a = [] included *)
Theorem C13_merge_is_concat : forall a b : list R, (a <> [] \/ b <> []) ->
  update_statistics ROps (stats ROps a) (stats ROps b) = stats ROps (a ++ b).
Proof. exact merge_is_concat. Qed.
Print Assumptions C13_merge_is_concat.

(* the running total starts as (0.0, 0.0, 0); whatever mean / variance an empty side carries,
   merging a chunk into it yields that chunk's own statistics *)
Theorem C13_merge_into_empty : forall (m : R) (v : option R) (b : list R), b <> [] ->
  update_statistics ROps (m, v, 0%nat) (stats ROps b) = stats ROps b
  /\ update_statistics ROps (init_stat ROps) (stats ROps b) = stats ROps b.
Proof. intros m v b H; split; [exact (merge_empty_left m v b H) | exact (merge_init b H)]. Qed.
Print Assumptions C13_merge_into_empty.

(* every chunking of every data set into non-empty chunks: the running triple equals the
   one-pass statistics of the concatenation *)
Theorem C13_merge_all_chunkings : forall cs : list (list R),
  cs <> [] -> Forall (fun c => c <> []) cs ->
  merge_chunks ROps cs = stats ROps (concat cs).
Proof. exact merge_all_chunkings. Qed.
Print Assumptions C13_merge_all_chunkings.

(* variance of >= 2 values is a definite, non-negative value: sum of squared deviations / (n-1);
   of < 2 values it is undefined *)
Theorem C13_variance_defined_iff_two_values : forall xs : list R,
  ((2 <= length xs)%nat ->
     variance ROps xs = Some (ssq ROps xs (mean ROps xs) / INR (length xs - 1))%R)
  /\ ((length xs < 2)%nat -> variance ROps xs = None)
  /\ (forall v, variance ROps xs = Some v -> (0 <= v)%R).
Proof.
  intros xs; split; [exact (variance_some xs) | split; [exact (variance_none xs) | exact (variance_nonneg xs)]].
Qed.
Print Assumptions C13_variance_defined_iff_two_values.

(* ---------------------------------------------------------------- ObservableBase.statistics *)

(* for every sampler that returns as many chain states as it is asked for (and an observable
   giving one value per chain), for every (num_samples >= 1, num_chains, burn_in, steps,
   initial chains): the returned (mean, variance, std_error, num_samples) are the one-pass
   statistics of all observable values of all draws *)
Theorem C13_statistics_is_one_pass :
  forall (C : Type) (clen : C -> nat) (samp : nat -> nat -> nat -> option C -> C)
         (obs : C -> list R) (init : option C) (S nc burn steps : nat),
  let chains := chains_of clen init nc S in
  (1 <= chains)%nat -> (1 <= S)%nat ->
  (forall i k cur, length (obs (samp i k chains cur)) = chains) ->
  statistics ROps clen samp obs init S nc burn steps =
  finish ROps (stats ROps (all_values obs (trace clen samp init S nc burn steps))).
Proof. exact @statistics_is_one_pass. Qed.
Print Assumptions C13_statistics_is_one_pass.

(* total count >= 2: the variance is a definite value (Some), namely the unbiased variance of
   all drawn values, it is >= 0, and std_error = sqrt(variance / count) *)
Theorem C13_variance_of_total_is_definite :
  forall (C : Type) (clen : C -> nat) (samp : nat -> nat -> nat -> option C -> C)
         (obs : C -> list R) (init : option C) (S nc burn steps : nat),
  let chains := chains_of clen init nc S in
  let xs := all_values obs (trace clen samp init S nc burn steps) in
  (1 <= chains)%nat -> (1 <= S)%nat ->
  (forall i k cur, length (obs (samp i k chains cur)) = chains) ->
  (2 <= chains * num_draws S chains)%nat ->
  length xs = (chains * num_draws S chains)%nat /\
  statistics ROps clen samp obs init S nc burn steps =
  (mean ROps xs,
   Some (ssq ROps xs (mean ROps xs) / INR (length xs - 1))%R,
   Some (sqrt (ssq ROps xs (mean ROps xs) / INR (length xs - 1) / INR (length xs)))%R,
   length xs) /\
  (0 <= ssq ROps xs (mean ROps xs) / INR (length xs - 1))%R.
Proof. exact @statistics_variance_definite. Qed.
Print Assumptions C13_variance_of_total_is_definite.

(* a single value in total (num_samples = 1): variance and std_error are nan, count 1 *)
Theorem C13_single_value_is_undefined :
  forall (C : Type) (clen : C -> nat) (samp : nat -> nat -> nat -> option C -> C)
         (obs : C -> list R) (init : option C) (S nc burn steps : nat),
  let chains := chains_of clen init nc S in
  let xs := all_values obs (trace clen samp init S nc burn steps) in
  (1 <= chains)%nat -> (1 <= S)%nat ->
  (forall i k cur, length (obs (samp i k chains cur)) = chains) ->
  (chains * num_draws S chains = 1)%nat ->
  statistics ROps clen samp obs init S nc burn steps = (mean ROps xs, None, None, 1%nat).
Proof. exact @statistics_single_value. Qed.
Print Assumptions C13_single_value_is_undefined.

(* ---------------------------------------------------------------- counts (pure nat, any T) *)

(* reported count = chains * draws, never less than requested, and no draw is superfluous.
   Guard 0 < chains: with zero chains (num_samples = 0 and num_chains = 0, or empty initial
   chains) the code divides by zero, while the model's ceil_div is totalised (x / 0 = 0) *)
Theorem C13_count_is_chains_times_draws :
  forall (T : Type) (O : NumOps T) (C : Type) (clen : C -> nat)
         (samp : nat -> nat -> nat -> option C -> C) (obs : C -> list T)
         (init : option C) (S nc burn steps : nat),
  let chains := chains_of clen init nc S in
  let draws := num_draws S chains in
  0 < chains ->
  snd (statistics O clen samp obs init S nc burn steps) = chains * draws
  /\ S <= snd (statistics O clen samp obs init S nc burn steps)
  /\ (0 < S -> chains * (draws - 1) < S)
  /\ length (trace clen samp init S nc burn steps) = draws.
Proof.
  intros T O C clen samp obs init S nc burn steps; cbv zeta; intros Hc; split; [|split; [|split]].
  - exact (statistics_count O clen samp obs init S nc burn steps).
  - exact (statistics_count_ge O clen samp obs init S nc burn steps Hc).
  - exact (ceil_div_minimal S (chains_of clen init nc S) Hc).
  - exact (trace_length clen samp init S nc burn steps).
Qed.
Print Assumptions C13_count_is_chains_times_draws.

(* the number of chains: the length of the initial chains if given (num_chains ignored), else
   num_samples if num_chains is 0 or larger than num_samples, else num_chains; without
   initial chains it lies in 1..num_samples; exact multiples need exactly S / chains draws *)
Theorem C13_chains_rule : forall (init_len : option nat) (nc S : nat),
  num_chains_eff init_len nc S =
    match init_len with
    | Some l => l
    | None => if ((nc =? 0) || (S <? nc))%bool then S else nc
    end
  /\ (1 <= S -> 1 <= num_chains_eff None nc S <= S)
  /\ (forall c d, 0 < c -> num_draws (c * d) c = d).
Proof.
  intros init_len nc S; split; [exact (num_chains_eff_spec init_len nc S) | split;
    [exact (num_chains_eff_bounds nc S) | exact ceil_div_exact]].
Qed.
Print Assumptions C13_chains_rule.

(* ---------------------------------------------------------------- schedule / chain continuity *)

(* the k arguments are [burn_in; steps; ...; steps]; every call asks for [chains] chains;
   the first call starts from the given initial chains (None: fresh random chains) and every
   later call starts from the states returned by the previous call; each recorded call is
   what the sampler returned for exactly those arguments.
   (Guard 0 < chains as above: with zero chains the code raises before any draw.) *)
(* definitional: restates the model — burn-in once / continuity are how [draw_loop] is written;
   the evidence that the real statistics() behaves so is the recorded sample() calls of the check *)
Theorem C13_schedule :
  forall (C : Type) (clen : C -> nat) (samp : nat -> nat -> nat -> option C -> C)
         (init : option C) (S nc burn steps : nat),
  let chains := chains_of clen init nc S in
  let draws := num_draws S chains in
  let tr := trace clen samp init S nc burn steps in
  0 < chains ->
  map (@c_k C) tr = k_schedule burn steps draws
  /\ (forall d, k_schedule burn steps (Datatypes.S d) = burn :: repeat steps d)
  /\ map (@c_n C) tr = repeat chains draws
  /\ chained init tr
  /\ (forall cl, nth_error tr 0 = Some cl -> c_init cl = init)
  /\ (forall j cl cl', nth_error tr j = Some cl -> nth_error tr (Datatypes.S j) = Some cl' ->
                       c_init cl' = Some (c_ret cl))
  /\ genuine samp 0 tr.
Proof.
  intros C clen samp init S nc burn steps; cbv zeta; intros _.
  split; [exact (trace_k clen samp init S nc burn steps)|].
  split; [exact (k_schedule_shape burn steps)|].
  split; [exact (trace_n clen samp init S nc burn steps)|].
  split; [exact (trace_chained clen samp init S nc burn steps)|].
  split; [exact (fun cl => chained_head init _ cl (trace_chained clen samp init S nc burn steps))|].
  split; [exact (chained_nth init _ (trace_chained clen samp init S nc burn steps))|].
  exact (trace_genuine clen samp init S nc burn steps).
Qed.
Print Assumptions C13_schedule.

(* user-supplied chains: the first call gets the caller's own tensor only with overwrite
   (otherwise a clone); the caller's tensor is unchanged without overwrite and holds the
   chain states of the last draw with overwrite *)
(* definitional: restates the model — the evidence is the check's comparison of the caller's tensor *)
Theorem C13_initial_chains_cloned_unless_overwrite :
  forall (C : Type) (init : C) (tr : list (@call C)) (cl : @call C),
  first_init_kind true false = InitClone
  /\ first_init_kind true true = InitCaller
  /\ (forall ow, first_init_kind false ow = InitNone)
  /\ caller_tensor_after false init tr = init
  /\ caller_tensor_after true init (tr ++ [cl]) = c_ret cl.
Proof.
  intros C init tr cl. split; [reflexivity|]. split; [reflexivity|]. split; [reflexivity|].
  split; [exact (caller_unchanged_without_overwrite init tr)
         | exact (caller_holds_final_states_with_overwrite init tr cl)].
Qed.
Print Assumptions C13_initial_chains_cloned_unless_overwrite.

(* ---------------------------------------------------------------- System.statistics *)

(* every observable of a System gets exactly the dictionary it would get alone on the same
   chain states (same sampler outcomes), for every number type, sampler, and schedule
   (guard 0 < chains: with zero chains both raise in the code) *)
Theorem C13_system_equals_individual :
  forall (T : Type) (O : NumOps T) (C : Type) (clen : C -> nat)
         (samp : nat -> nat -> nat -> option C -> C) (obss : list (C -> list T))
         (init : option C) (S nc burn steps : nat),
  0 < chains_of clen init nc S ->
  system_statistics O clen samp obss init S nc burn steps =
  map (fun obs => statistics O clen samp obs init S nc burn steps) obss.
Proof.
  exact (fun T O C clen samp obss init S nc burn steps _ =>
           system_equals_individual O clen samp obss init S nc burn steps).
Qed.
Print Assumptions C13_system_equals_individual.

(* ---------------------------------------------------------------- non-vacuity *)

(* two chunks of a single value each (num_chains = 1): the merge is defined and is the
   one-pass result *)
Example C13_single_value_chunks_example :
  update_statistics ROps (stats ROps [1%R]) (stats ROps [3%R]) = (2%R, Some 2%R, 2%nat).
Proof. exact merge_example. Qed.
Print Assumptions C13_single_value_chunks_example.

(* the hypotheses of the statistics theorems are satisfiable: a sampler returning [chains]
   values, 5 samples on 2 chains = 3 draws, 6 values *)
Example C13_hypotheses_satisfiable :
  let samp := fun (i k n : nat) (cur : option (list R)) => repeat (INR i) n in
  let chains := chains_of (@length R) None 2 5 in
  (1 <= chains)%nat /\ (1 <= 5)%nat
  /\ (forall i k cur, length ((fun c : list R => c) (samp i k chains cur)) = chains)
  /\ (2 <= chains * num_draws 5 chains)%nat
  /\ (chains * num_draws 5 chains = 6)%nat.
Proof. exact hypotheses_example. Qed.
Print Assumptions C13_hypotheses_satisfiable.
