(* C05 — Gibbs sampling targets exactly the distribution the model reports.
   This file contains only theorem statements closed by [exact <lemma>] and [Print Assumptions].
   Model: QModel.Rbm (conditionals, energies), QModel.Gibbs (kernel, k-step kernel, the sampler as
   a function of the drawn bits, storage model of [overwrite]), at T := R.
   Shape guards ([b_shape], [p_shape]: W is nh x nv, U is na x nv, biases of matching length) are
   what the constructors of BinaryRBM / PurificationRBM establish. *)
From Coq Require Import List Bool Reals.
From QModel Require Import Num Bits Rbm States Gibbs.
From QTheory Require Import RInst SumBits GibbsT.
Import ListNotations.
Open Scope R_scope.

(* 1. a layer of independent sigmoid units is the exponential-family conditional *)
Theorem C05_bernoulli_product : forall (x : list R) (h : bits),
  length h = length x ->
  bern_prod ROps (map (sigmoid ROps) x) h =
  exp (dotb ROps x h) / prod ROps (map (fun xi => 1 + exp xi) x).
Proof. exact bernoulli_product. Qed.
Print Assumptions C05_bernoulli_product.

(* 2. detailed balance of one block-Gibbs step with the unnormalised reported weight exp(-E) *)
Theorem C05_detailed_balance_binary : forall nv nh (r : brbm),
  b_shape nv nh r -> forall s s', length s = nv -> length s' = nv ->
  exp (- b_eff_energy ROps r s) * b_kernel ROps r s s' =
  exp (- b_eff_energy ROps r s') * b_kernel ROps r s' s.
Proof. exact detailed_balance_binary. Qed.
Print Assumptions C05_detailed_balance_binary.

Theorem C05_detailed_balance_purification : forall nv nh na (r : prbm),
  p_shape nv nh na r -> forall s s', length s = nv -> length s' = nv ->
  exp (- p_eff_energy ROps r s) * p_kernel ROps r s s' =
  exp (- p_eff_energy ROps r s') * p_kernel ROps r s' s.
Proof. exact detailed_balance_purification. Qed.
Print Assumptions C05_detailed_balance_purification.

(* ... and with the distribution that [probability(v, Z)] reports, for every Z *)
Theorem C05_detailed_balance_reported_probability : forall nv nh (r : brbm) Z s s',
  b_shape nv nh r -> length s = nv -> length s' = nv ->
  probability ROps r s Z * b_kernel ROps r s s' = probability ROps r s' Z * b_kernel ROps r s' s.
Proof. exact detailed_balance_probability. Qed.
Print Assumptions C05_detailed_balance_reported_probability.

Theorem C05_detailed_balance_reported_probability_dm : forall nv nh na (r : prbm) Z s s',
  p_shape nv nh na r -> length s = nv -> length s' = nv ->
  dm_probability ROps r s Z * p_kernel ROps r s s' = dm_probability ROps r s' Z * p_kernel ROps r s' s.
Proof. exact detailed_balance_dm_probability. Qed.
Print Assumptions C05_detailed_balance_reported_probability_dm.

(* the purification kernel is the binary kernel of the stacked network (W;U), (c;d) *)
Theorem C05_purification_is_stacked_binary : forall nv nh na (r : prbm) s s',
  p_shape nv nh na r ->
  p_kernel ROps r s s' = b_kernel ROps (p_stack_binary r) s s' /\
  p_eff_energy ROps r s = b_eff_energy ROps (p_stack_binary r) s.
Proof.
  intros nv nh na r s s' H; split;
  [exact (p_kernel_stack nv nh na r H s s') | exact (p_eff_energy_stack nv nh na r H s)].
Qed.
Print Assumptions C05_purification_is_stacked_binary.

(* 3. the kernel is a stochastic matrix *)
Theorem C05_kernel_stochastic_binary : forall nv nh (r : brbm),
  b_shape nv nh r ->
  (forall s s', 0 < b_kernel ROps r s s') /\
  (forall s, sum_bits nv (fun s' => b_kernel ROps r s s') = 1).
Proof. intros nv nh r H; split; [exact (b_kernel_pos nv nh r H) | exact (b_kernel_row_sum nv nh r H)]. Qed.
Print Assumptions C05_kernel_stochastic_binary.

Theorem C05_kernel_stochastic_purification : forall nv nh na (r : prbm),
  p_shape nv nh na r ->
  (forall s s', 0 < p_kernel ROps r s s') /\
  (forall s, sum_bits nv (fun s' => p_kernel ROps r s s') = 1).
Proof. intros nv nh na r H; split; [exact (p_kernel_pos nv nh na r H) | exact (p_kernel_row_sum nv nh na r H)]. Qed.
Print Assumptions C05_kernel_stochastic_purification.

(* the reported distribution is invariant under k steps, for every k (k = 1: one step) *)
Theorem C05_invariance_binary : forall nv nh (r : brbm) Z k s',
  b_shape nv nh r -> length s' = nv ->
  sum_bits nv (fun s => probability ROps r s Z * kpow ROps nv (b_kernel ROps r) k s s') =
  probability ROps r s' Z.
Proof. exact invariant_probability. Qed.
Print Assumptions C05_invariance_binary.

Theorem C05_invariance_purification : forall nv nh na (r : prbm) Z k s',
  p_shape nv nh na r -> length s' = nv ->
  sum_bits nv (fun s => dm_probability ROps r s Z * kpow ROps nv (p_kernel ROps r) k s s') =
  dm_probability ROps r s' Z.
Proof. exact invariant_dm_probability. Qed.
Print Assumptions C05_invariance_purification.

Theorem C05_invariance_one_step_binary : forall nv nh (r : brbm),
  b_shape nv nh r -> forall s', length s' = nv ->
  sum_bits nv (fun s => exp (- b_eff_energy ROps r s) * b_kernel ROps r s s') =
  exp (- b_eff_energy ROps r s').
Proof. exact b_invariant. Qed.
Print Assumptions C05_invariance_one_step_binary.

Theorem C05_invariance_one_step_purification : forall nv nh na (r : prbm),
  p_shape nv nh na r -> forall s', length s' = nv ->
  sum_bits nv (fun s => exp (- p_eff_energy ROps r s) * p_kernel ROps r s s') =
  exp (- p_eff_energy ROps r s').
Proof. exact p_invariant. Qed.
Print Assumptions C05_invariance_one_step_purification.

(* 4. laws of the k-step kernel (for any kernel K on length-nv states) *)
(* definitional: restates the model *)
Theorem C05_kpow_zero_is_identity : forall nv K s s',
  kpow ROps nv K 0 s s' = indicator ROps s s' /\
  indicator ROps s s = 1 /\ (s <> s' -> indicator ROps s s' = 0).
Proof.
  intros nv K s s'; split; [exact (kpow_0 nv K s s') | split; [exact (indicator_eq s) | exact (indicator_neq s s')]].
Qed.
Print Assumptions C05_kpow_zero_is_identity.

(* definitional: restates the model *)
Theorem C05_kpow_one_is_kernel : forall nv K s s',
  length s' = nv -> kpow ROps nv K 1 s s' = K s s'.
Proof. exact kpow_1. Qed.
Print Assumptions C05_kpow_one_is_kernel.

(* chains continued across calls: j steps then k steps = j + k steps *)
Theorem C05_kpow_add : forall nv K j k s s',
  length s = nv ->
  kpow ROps nv K (j + k) s s' = sum_bits nv (fun t => kpow ROps nv K j s t * kpow ROps nv K k t s').
Proof. exact kpow_add. Qed.
Print Assumptions C05_kpow_add.

Theorem C05_kpow_stochastic : forall nv K,
  (forall s s', 0 <= K s s') ->
  (forall s, length s = nv -> sum_bits nv (fun s' => K s s') = 1) ->
  forall k s, length s = nv ->
    (forall s', 0 <= kpow ROps nv K k s s') /\ sum_bits nv (fun s' => kpow ROps nv K k s s') = 1.
Proof.
  intros nv K Hp Hs k s Hl; split; [intros s'; exact (kpow_nonneg nv K Hp k s s') | exact (kpow_row_sum nv K Hs k s Hl)].
Qed.
Print Assumptions C05_kpow_stochastic.

Theorem C05_kpow_reversible : forall nv K (pi : bits -> R),
  (forall s s', length s = nv -> length s' = nv -> pi s * K s s' = pi s' * K s' s) ->
  forall k s s', length s = nv -> length s' = nv ->
    pi s * kpow ROps nv K k s s' = pi s' * kpow ROps nv K k s' s.
Proof. exact kpow_reversible. Qed.
Print Assumptions C05_kpow_reversible.

(* 4'. kstep_law: the law of the deterministic sampler, when every draw is an independent
   Bernoulli vector with the probabilities the sampler requested for it ([b_sampler_law]: total
   [run_weight] of the draw sequences that end in s'), is the k-th power of the kernel *)
Theorem C05_all_draws_is_every_draw_sequence : forall shape ds,
  In ds (all_draws shape) <-> Forall2 (fun n d => length d = n) shape ds.
Proof. exact all_draws_spec. Qed.
Print Assumptions C05_all_draws_is_every_draw_sequence.

Theorem C05_kstep_law_binary : forall nv nh (r : brbm),
  b_shape nv nh r ->
  forall k s s', b_sampler_law ROps r nv k s s' = kpow ROps nv (b_kernel ROps r) k s s'.
Proof. exact b_kstep_law. Qed.
Print Assumptions C05_kstep_law_binary.

Theorem C05_kstep_law_purification : forall nv nh na (r : prbm),
  p_shape nv nh na r ->
  forall k s s', p_sampler_law ROps r nv k s s' = kpow ROps nv (p_kernel ROps r) k s s'.
Proof. exact p_kstep_law. Qed.
Print Assumptions C05_kstep_law_purification.

(* 5. the sampler requests exactly the model conditionals of the states produced by the earlier
   draws — hidden (then auxiliary) given the current visible state, then visible given those
   draws — exactly k times; k = 0 returns the start state (b_vis v0 draws 0 = v0) *)
(* definitional: restates the model *)
Theorem C05_sampler_uses_exact_conditionals_binary : forall (r : brbm) k v0 draws,
  length draws = (2 * k)%nat ->
  let res := b_gibbs_steps ROps r k v0 draws in
  length (snd res) = (2 * k)%nat /\
  fst res = b_vis v0 draws k /\
  forall t, (t < k)%nat ->
    nth (2 * t) (snd res) [] = b_prob_h_given_v ROps r (b_vis v0 draws t) /\
    nth (2 * t + 1) (snd res) [] = b_prob_v_given_h ROps r (nth (2 * t) draws []).
Proof. exact b_sampler_exact. Qed.
Print Assumptions C05_sampler_uses_exact_conditionals_binary.

(* definitional: restates the model *)
Theorem C05_sampler_uses_exact_conditionals_purification : forall (r : prbm) k v0 draws,
  length draws = (3 * k)%nat ->
  let res := p_gibbs_steps ROps r k v0 draws in
  length (snd res) = (3 * k)%nat /\
  fst res = p_vis v0 draws k /\
  forall t, (t < k)%nat ->
    nth (3 * t) (snd res) [] = p_prob_h_given_v ROps r (p_vis v0 draws t) /\
    nth (3 * t + 1) (snd res) [] = p_prob_a_given_v ROps r (p_vis v0 draws t) /\
    nth (3 * t + 2) (snd res) [] =
      p_prob_v_given_ha ROps r (nth (3 * t) draws []) (nth (3 * t + 1) draws []).
Proof. exact p_sampler_exact. Qed.
Print Assumptions C05_sampler_uses_exact_conditionals_purification.

(* definitional: restates the model *)
Theorem C05_zero_steps_return_start : forall (rb : brbm) (rp : prbm) v0 draws,
  b_gibbs_steps ROps rb 0 v0 draws = (v0, []) /\ p_gibbs_steps ROps rp 0 v0 draws = (v0, []).
Proof. intros; split; reflexivity. Qed.
Print Assumptions C05_zero_steps_return_start.

(* definitional: restates the model *)
Theorem C05_sampler_continued_binary : forall (r : brbm) j k v d1 d2,
  length d1 = (2 * j)%nat ->
  b_gibbs_steps ROps r (j + k) v (d1 ++ d2) =
  (fst (b_gibbs_steps ROps r k (fst (b_gibbs_steps ROps r j v d1)) d2),
   snd (b_gibbs_steps ROps r j v d1) ++ snd (b_gibbs_steps ROps r k (fst (b_gibbs_steps ROps r j v d1)) d2)).
Proof. exact b_sampler_continue. Qed.
Print Assumptions C05_sampler_continued_binary.

(* definitional: restates the model *)
Theorem C05_sampler_continued_purification : forall (r : prbm) j k v d1 d2,
  length d1 = (3 * j)%nat ->
  p_gibbs_steps ROps r (j + k) v (d1 ++ d2) =
  (fst (p_gibbs_steps ROps r k (fst (p_gibbs_steps ROps r j v d1)) d2),
   snd (p_gibbs_steps ROps r j v d1) ++ snd (p_gibbs_steps ROps r k (fst (p_gibbs_steps ROps r j v d1)) d2)).
Proof. exact p_sampler_continue. Qed.
Print Assumptions C05_sampler_continued_purification.

(* 6. overwrite contract (storage model: a heap of cells, [hclone] allocates; [sd] = the start tensor
   already has the parameters' dtype, so that [.to(self.weights)] is the identity and not a copy) *)
(* definitional: restates the model *)
Theorem C05_overwrite_false_contract : forall skip sd k hp src draws,
  (src < length hp)%nat ->
  let res := gibbs_call skip false sd k hp src draws in
  snd res = length hp /\ snd res <> src /\
  (forall a, (a < length hp)%nat -> hread (fst res) a = hread hp a).
Proof. exact overwrite_false_contract. Qed.
Print Assumptions C05_overwrite_false_contract.

(* overwrite = True, for EVERY dtype of the start tensor: after the call the caller's cell holds the
   returned result ("updated in place"); no other cell of the caller's heap changes.  (For another dtype
   the code updates a converted copy and writes it back at the end.) *)
Theorem C05_overwrite_true_contract : forall skip sd k hp src draws,
  (src < length hp)%nat ->
  let res := gibbs_call skip true sd k hp src draws in
  hread (fst res) src = hread (fst res) (snd res) /\
  (forall a, (a < length hp)%nat -> a <> src -> hread (fst res) a = hread hp a).
Proof. exact overwrite_true_contract. Qed.
Print Assumptions C05_overwrite_true_contract.

(* definitional: restates the model *)
Theorem C05_overwrite_true_same_dtype_no_allocation : forall skip k hp src draws,
  let res := gibbs_call skip true true k hp src draws in
  snd res = src /\ length (fst res) = length hp.
Proof. exact overwrite_true_same_dtype. Qed.
Print Assumptions C05_overwrite_true_same_dtype_no_allocation.

Theorem C05_call_result_binary : forall (r : brbm) ow sd k hp src draws,
  (src < length hp)%nat -> length draws = (2 * k)%nat ->
  let res := b_gibbs_call ow sd k hp src draws in
  hread (fst res) (snd res) = fst (b_gibbs_steps ROps r k (hread hp src) draws).
Proof. exact b_call_result. Qed.
Print Assumptions C05_call_result_binary.

Theorem C05_call_result_purification : forall (r : prbm) ow sd k hp src draws,
  (src < length hp)%nat -> length draws = (3 * k)%nat ->
  let res := p_gibbs_call ow sd k hp src draws in
  hread (fst res) (snd res) = fst (p_gibbs_steps ROps r k (hread hp src) draws).
Proof. exact p_call_result. Qed.
Print Assumptions C05_call_result_purification.

(* non-vacuity of the shape guards: concrete networks with all biases non-zero *)
Theorem C05_guards_satisfiable :
  b_shape 2 3 (mkB [[1; -2]; [0.5; 3]; [-1; 1]] [0.3; -0.7] [0.1; -0.2; 0.4]) /\
  p_shape 2 2 1 (mkP [[1; -2]; [0.5; 3]] [[-1; 1]] [0.3; -0.7] [0.1; -0.2] [0.4]).
Proof. exact (conj b_shape_nonvacuous p_shape_nonvacuous). Qed.
Print Assumptions C05_guards_satisfiable.

(* ---------------------------------------------------------------------------------------------
   Links to C01 / C02 (QModel.States; proofs: QTheory.Links, module L3).  The distribution the sampler
   leaves invariant is the state's own Born distribution: [mod2 z] = |z|^2 = re^2 + im^2,
   Z = normalization (wavefunctions) / dm_normalization = tr rho (density matrix) over all 2^nv
   basis states.  Each clause: invariant under every k-step power of the block-Gibbs kernel, sums
   to one, strictly positive. *)
From QTheory Require Links.
Import Links.L3.

Theorem C05_born_distribution_invariant_wavefunctions : forall nv nh (am ph : brbm) k s',
  b_shape nv nh am -> length s' = nv ->
  let Z := normalization ROps am (all_bits nv) in
  let qc := fun s => mod2 (cplx_psi ROps am ph s) / Z in      (* ComplexWaveFunction *)
  let qp := fun s => mod2 (pos_psi ROps am s) / Z in          (* PositiveWaveFunction *)
  (sum_bits nv (fun s => qc s * kpow ROps nv (b_kernel ROps am) k s s') = qc s' /\
   sum_bits nv qc = 1 /\ (forall s, 0 < qc s)) /\
  (sum_bits nv (fun s => qp s * kpow ROps nv (b_kernel ROps am) k s s') = qp s' /\
   sum_bits nv qp = 1 /\ (forall s, 0 < qp s)).
Proof. exact Links.L3.born_invariant_wavefunctions. Qed.
Print Assumptions C05_born_distribution_invariant_wavefunctions.

(* density matrix: diag(rho) / tr(rho); the second hypothesis is C02's shape guard on the phase net *)
Theorem C05_born_distribution_invariant_density_matrix : forall nv nh na (am ph : prbm) k s',
  p_shape nv nh na am -> length (pU ph) = length (pU am) -> length s' = nv ->
  let Z := dm_normalization ROps am (all_bits nv) in
  let d := fun s => fst (dm_rho ROps am ph s s) / Z in
  sum_bits nv (fun s => d s * kpow ROps nv (p_kernel ROps am) k s s') = d s' /\
  sum_bits nv d = 1 /\ (forall s, 0 < d s).
Proof. exact Links.L3.born_invariant_density_matrix. Qed.
Print Assumptions C05_born_distribution_invariant_density_matrix.
