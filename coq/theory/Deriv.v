(* Deriv.v — calculus and list-algebra lemmas at T := R used by the gradient theorems (C03):
   derivatives of list sums, softplus' = sigmoid, ln-sum-exp, the log-modulus lemma, and the
   linear algebra of [dot] / [vsum] / lines theta + t * delta in parameter space. *)
From Coq Require Import List ZArith Bool Reals Lra Lia Permutation.
From Coquelicot Require Import Coquelicot.
From QModel Require Import Num Bits Rbm.
From QTheory Require Import RInst.
Import ListNotations.
Open Scope R_scope.

(* ------------------------------------------------------------------ derivatives of sums *)
Lemma is_derive_sum_map {A} (l : list A) (f : A -> R -> R) (df : A -> R) t :
  (forall a, In a l -> is_derive (f a) t (df a)) ->
  is_derive (fun x => sum ROps (map (fun a => f a x) l)) t (sum ROps (map df l)).
Proof.
  induction l as [|a l IH]; simpl; intros H.
  - apply (is_derive_const (V:=R_NormedModule)).
  - apply (is_derive_plus (V:=R_NormedModule)).
    + apply H; left; reflexivity.
    + apply IH; intros; apply H; right; assumption.
Qed.

Ltac derive_rw Hd :=
  match type of Hd with
  | is_derive _ ?t ?d =>
      match goal with
      | |- context [Derive ?g t] =>
          replace (Derive g t) with d by (symmetry; apply is_derive_unique; exact Hd)
      end
  end.

Lemma is_derive_eq (f : R -> R) (t l l' : R) : l = l' -> is_derive f t l -> is_derive f t l'.
Proof. intros ->; intros H; exact H. Qed.

Lemma is_derive_softplus x : is_derive (softplus ROps) x (sigmoid ROps x).
Proof.
  rewrite sigmoid_alt. unfold softplus; cbn [nln nadd n1 nexp ROps].
  auto_derive.
  - pose proof (exp_pos x); lra.
  - field. pose proof (exp_pos x); lra.
Qed.

(* derivative of  t |-> Sum_i softplus (a_i t)  (generic form) *)
Lemma is_derive_sum_softplus {A} (l : list A) (a : A -> R -> R) (da : A -> R) t :
  (forall i, In i l -> is_derive (a i) t (da i)) ->
  is_derive (fun x => sum ROps (map (fun i => softplus ROps (a i x)) l)) t
            (sum ROps (map (fun i => sigmoid ROps (a i t) * da i) l)).
Proof.
  intros H. apply (is_derive_sum_map l (fun i x => softplus ROps (a i x))).
  intros i Hi.
  apply (is_derive_eq _ _ (scal (da i) (sigmoid ROps (a i t)))).
  - unfold scal; simpl; unfold mult; simpl; ring.
  - apply (is_derive_comp (softplus ROps) (a i)); [apply is_derive_softplus | apply H; exact Hi].
Qed.

(* d/dt ln Sum_a exp(-E_a(t)) = - Sum_a p_a E_a'(t),  p_a = exp(-E_a) / Sum exp(-E) *)
Lemma sum_exp_pos {A} (l : list A) (E : A -> R) : l <> [] -> 0 < sum ROps (map (fun a => exp (- E a)) l).
Proof.
  intros Hne. apply sum_pos.
  - destruct l; [congruence | discriminate].
  - intros x Hx. apply in_map_iff in Hx. destruct Hx as [a [<- _]]. apply exp_pos.
Qed.

Lemma is_derive_ln_sum_exp {A} (l : list A) (E : A -> R -> R) (dE : A -> R) t0 :
  l <> [] -> (forall a, In a l -> is_derive (E a) t0 (dE a)) ->
  is_derive (fun t => ln (sum ROps (map (fun a => exp (- E a t)) l))) t0
    (- sum ROps (map (fun a => exp (- E a t0) / sum ROps (map (fun a' => exp (- E a' t0)) l) * dE a) l)).
Proof.
  intros Hne H.
  set (S0 := sum ROps (map (fun a' => exp (- E a' t0)) l)).
  assert (HS : 0 < S0) by (apply (sum_exp_pos l (fun a => E a t0)); exact Hne).
  assert (Hd : is_derive (fun t => sum ROps (map (fun a => exp (- E a t)) l)) t0
                 (sum ROps (map (fun a => - dE a * exp (- E a t0)) l))).
  { apply (is_derive_sum_map l (fun a t => exp (- E a t))). intros a Ha.
    pose proof (H a Ha) as Ha'. auto_derive.
    - exists (dE a); exact Ha'.
    - derive_rw Ha'. ring. }
  apply (is_derive_eq _ _ (scal (sum ROps (map (fun a => - dE a * exp (- E a t0)) l)) (/ S0))).
  - unfold scal; simpl; unfold mult; simpl. clearbody S0. clear.
    induction l as [|a l' IH]; simpl; [lra|].
    match type of IH with ?L = - ?R => assert (HR : R = - L) by (rewrite IH; ring); rewrite HR end.
    unfold Rdiv. ring.
  - apply (is_derive_comp ln (fun t => sum ROps (map (fun a => exp (- E a t)) l))); [|exact Hd].
    fold S0. auto_derive; [exact HS | ring].
Qed.

(* ------------------------------------------------------------------ the log-modulus lemma (C03.4)
   psi_v(t) = exp(-(a_v(t) + i b_v(t))/2);  A(t) = Sum_v u_v psi_v(t)  with fixed complex u_v;
   d/dt ln |A|^2 = - Re[ (Sum_v u_v psi_v (a_v' + i b_v')) / A ].
   Everything is written with real and imaginary parts. *)
Definition psi_re (a b : R) : R := exp (- a / 2) * cos (- b / 2).
Definition psi_im (a b : R) : R := exp (- a / 2) * sin (- b / 2).

Lemma is_derive_psi_re (a b : R -> R) da db t :
  is_derive a t da -> is_derive b t db ->
  is_derive (fun x => psi_re (a x) (b x)) t (- (da * psi_re (a t) (b t) - db * psi_im (a t) (b t)) / 2).
Proof.
  intros Ha Hb. unfold psi_re, psi_im. auto_derive.
  - repeat split; try (eexists; eassumption); exact I.
  - derive_rw Ha. derive_rw Hb. unfold Rdiv; ring.
Qed.

Lemma is_derive_psi_im (a b : R -> R) da db t :
  is_derive a t da -> is_derive b t db ->
  is_derive (fun x => psi_im (a x) (b x)) t (- (da * psi_im (a t) (b t) + db * psi_re (a t) (b t)) / 2).
Proof.
  intros Ha Hb. unfold psi_re, psi_im. auto_derive.
  - repeat split; try (eexists; eassumption); exact I.
  - derive_rw Ha. derive_rw Hb. unfold Rdiv; ring.
Qed.

Lemma is_derive_ln_sq (f g : R -> R) df dg t :
  is_derive f t df -> is_derive g t dg -> 0 < f t * f t + g t * g t ->
  is_derive (fun x => ln (f x * f x + g x * g x)) t (2 * (f t * df + g t * dg) / (f t * f t + g t * g t)).
Proof.
  intros Hf Hg Hpos. auto_derive.
  - repeat split; try (eexists; eassumption); try exact I. exact Hpos.
  - derive_rw Hf. derive_rw Hg. field. lra.
Qed.

Section LogModSq.
  Context {A : Type}.
  Variables (l : list A) (ur ui : A -> R) (a b : A -> R -> R) (da db : A -> R) (t0 : R).
  Hypothesis Ha : forall v, In v l -> is_derive (a v) t0 (da v).
  Hypothesis Hb : forall v, In v l -> is_derive (b v) t0 (db v).

  (* real and imaginary parts of A(t) = Sum_v u_v psi_v(t) *)
  Definition A_re (t : R) : R := sum ROps (map (fun v => ur v * psi_re (a v t) (b v t) - ui v * psi_im (a v t) (b v t)) l).
  Definition A_im (t : R) : R := sum ROps (map (fun v => ur v * psi_im (a v t) (b v t) + ui v * psi_re (a v t) (b v t)) l).
  (* real and imaginary parts of N = Sum_v u_v psi_v (a_v' + i b_v') at t0 *)
  Definition N_re : R :=
    sum ROps (map (fun v => (ur v * psi_re (a v t0) (b v t0) - ui v * psi_im (a v t0) (b v t0)) * da v
                            - (ur v * psi_im (a v t0) (b v t0) + ui v * psi_re (a v t0) (b v t0)) * db v) l).
  Definition N_im : R :=
    sum ROps (map (fun v => (ur v * psi_re (a v t0) (b v t0) - ui v * psi_im (a v t0) (b v t0)) * db v
                            + (ur v * psi_im (a v t0) (b v t0) + ui v * psi_re (a v t0) (b v t0)) * da v) l).

  Lemma is_derive_A_re : is_derive A_re t0 (- N_re / 2).
  Proof.
    unfold A_re, N_re.
    apply (is_derive_eq _ _ (sum ROps (map (fun v =>
       ur v * (- (da v * psi_re (a v t0) (b v t0) - db v * psi_im (a v t0) (b v t0)) / 2)
       - ui v * (- (da v * psi_im (a v t0) (b v t0) + db v * psi_re (a v t0) (b v t0)) / 2)) l))).
    - clear Ha Hb. induction l as [|v l' IH]; simpl; [lra|]. rewrite IH. unfold Rdiv. ring.
    - apply (is_derive_sum_map l (fun v t => ur v * psi_re (a v t) (b v t) - ui v * psi_im (a v t) (b v t))).
      intros v Hv.
      apply (is_derive_minus (V:=R_NormedModule)).
      + apply (is_derive_scal (fun t => psi_re (a v t) (b v t))). apply is_derive_psi_re; [apply Ha | apply Hb]; exact Hv.
      + apply (is_derive_scal (fun t => psi_im (a v t) (b v t))). apply is_derive_psi_im; [apply Ha | apply Hb]; exact Hv.
  Qed.

  Lemma is_derive_A_im : is_derive A_im t0 (- N_im / 2).
  Proof.
    unfold A_im, N_im.
    apply (is_derive_eq _ _ (sum ROps (map (fun v =>
       ur v * (- (da v * psi_im (a v t0) (b v t0) + db v * psi_re (a v t0) (b v t0)) / 2)
       + ui v * (- (da v * psi_re (a v t0) (b v t0) - db v * psi_im (a v t0) (b v t0)) / 2)) l))).
    - clear Ha Hb. induction l as [|v l' IH]; simpl; [lra|]. rewrite IH. unfold Rdiv. ring.
    - apply (is_derive_sum_map l (fun v t => ur v * psi_im (a v t) (b v t) + ui v * psi_re (a v t) (b v t))).
      intros v Hv.
      apply (is_derive_plus (V:=R_NormedModule)).
      + apply (is_derive_scal (fun t => psi_im (a v t) (b v t))). apply is_derive_psi_im; [apply Ha | apply Hb]; exact Hv.
      + apply (is_derive_scal (fun t => psi_re (a v t) (b v t))). apply is_derive_psi_re; [apply Ha | apply Hb]; exact Hv.
  Qed.

  (* Re (N / A) = (N_re A_re + N_im A_im) / |A|^2 *)
  Theorem log_mod_sq :
    0 < A_re t0 * A_re t0 + A_im t0 * A_im t0 ->
    is_derive (fun t => ln (A_re t * A_re t + A_im t * A_im t)) t0
      (- ((N_re * A_re t0 + N_im * A_im t0) / (A_re t0 * A_re t0 + A_im t0 * A_im t0))).
  Proof.
    intros Hpos.
    apply (is_derive_eq _ _ (2 * (A_re t0 * (- N_re / 2) + A_im t0 * (- N_im / 2)) / (A_re t0 * A_re t0 + A_im t0 * A_im t0))).
    - field. lra.
    - apply is_derive_ln_sq; [apply is_derive_A_re | apply is_derive_A_im | exact Hpos].
  Qed.
End LogModSq.

(* ------------------------------------------------------------------ list algebra at R *)
Lemma dot_nil_r (xs : list R) : dot ROps xs [] = 0.
Proof. destruct xs; reflexivity. Qed.

Lemma dot_app (xs1 xs2 ys1 ys2 : list R) :
  length xs1 = length ys1 -> dot ROps (xs1 ++ xs2) (ys1 ++ ys2) = dot ROps xs1 ys1 + dot ROps xs2 ys2.
Proof.
  revert ys1; induction xs1 as [|x xs1 IH]; intros [|y ys1] H; try discriminate; simpl.
  - lra.
  - rewrite IH by (simpl in H; lia). lra.
Qed.

Lemma dot_vopp_l (xs ys : list R) : dot ROps (vopp ROps xs) ys = - dot ROps xs ys.
Proof.
  revert ys; induction xs as [|x xs IH]; intros [|y ys]; simpl; try lra. rewrite IH. lra.
Qed.

Lemma dot_vscale_l c (xs ys : list R) : dot ROps (vscale ROps c xs) ys = c * dot ROps xs ys.
Proof.
  revert ys; induction xs as [|x xs IH]; intros [|y ys]; simpl; try lra. rewrite IH. lra.
Qed.

Lemma dot_map_div_l c (xs ys : list R) : dot ROps (map (fun x => x / c) xs) ys = dot ROps xs ys / c.
Proof.
  revert ys; induction xs as [|x xs IH]; intros [|y ys]; simpl; unfold Rdiv; try lra. rewrite IH. unfold Rdiv; lra.
Qed.

Lemma vadd_length (xs ys : list R) : length xs = length ys -> length (vadd ROps xs ys) = length xs.
Proof. intros H. unfold vadd. rewrite map_length, combine_length, H. apply Nat.min_id. Qed.

Lemma vsub_length (xs ys : list R) : length xs = length ys -> length (vsub ROps xs ys) = length xs.
Proof. intros H. unfold vsub. rewrite map_length, combine_length, H. apply Nat.min_id. Qed.

Lemma dot_vadd_l (xs ys d : list R) :
  length xs = length ys -> dot ROps (vadd ROps xs ys) d = dot ROps xs d + dot ROps ys d.
Proof.
  revert ys d; induction xs as [|x xs IH]; intros [|y ys] d H; try discriminate.
  - simpl; lra.
  - destruct d as [|e d]; [simpl; lra|]. cbn [vadd combine map fst snd dot nadd nmul ROps].
    change (map (fun p => fst p + snd p) (combine xs ys)) with (vadd ROps xs ys).
    rewrite IH by (simpl in H; lia). lra.
Qed.

Lemma dot_vsub_l (xs ys d : list R) :
  length xs = length ys -> dot ROps (vsub ROps xs ys) d = dot ROps xs d - dot ROps ys d.
Proof.
  revert ys d; induction xs as [|x xs IH]; intros [|y ys] d H; try discriminate.
  - simpl; lra.
  - destruct d as [|e d]; [simpl; lra|]. cbn [vsub combine map fst snd dot nadd nsub nmul ROps].
    change (map (fun p => fst p - snd p) (combine xs ys)) with (vsub ROps xs ys).
    rewrite IH by (simpl in H; lia). lra.
Qed.

Lemma dot_zero_l n (d : list R) : dot ROps (repeat 0 n) d = 0.
Proof. revert d; induction n as [|n IH]; intros [|e d]; simpl; try lra. rewrite IH; lra. Qed.

Lemma vsum_length n (rows : list (list R)) :
  List.Forall (fun r => length r = n) rows -> length (vsum ROps n rows) = n.
Proof.
  induction 1 as [|r rows Hr _ IH]; simpl; [apply repeat_length|].
  rewrite vadd_length; congruence.
Qed.

Lemma dot_vsum n (rows : list (list R)) d :
  List.Forall (fun r => length r = n) rows ->
  dot ROps (vsum ROps n rows) d = sum ROps (map (fun r => dot ROps r d) rows).
Proof.
  induction 1 as [|r rows Hr Hrows IH]; simpl; [apply dot_zero_l|].
  rewrite dot_vadd_l, IH; [reflexivity|]. rewrite vsum_length; assumption.
Qed.

Lemma dot_bvec (v : bits) (d : list R) : dot ROps (map (b2t ROps) v) d = dotb ROps d v.
Proof.
  revert d; induction v as [|b v IH]; intros [|e d]; simpl; try lra.
  rewrite IH. destruct b; simpl; lra.
Qed.

Lemma dot_scaled_bvec c (v : bits) (r : list R) :
  dot ROps (map (fun vj => c * b2t ROps vj) v) r = c * dotb ROps r v.
Proof.
  revert r; induction v as [|b v IH]; intros [|e r]; simpl; try lra.
  rewrite IH. destruct b; simpl; lra.
Qed.

Lemma outerb_length (p : list R) (v : bits) : length (outerb ROps p v) = (length p * length v)%nat.
Proof. induction p as [|x p IH]; simpl; [reflexivity|]. rewrite app_length, map_length, IH. reflexivity. Qed.

Lemma concat_length_rect (D : list (list R)) c :
  List.Forall (fun r => length r = c) D -> length (concat D) = (length D * c)%nat.
Proof. induction 1 as [|r D Hr _ IH]; simpl; [reflexivity|]. rewrite app_length, IH, Hr. reflexivity. Qed.

(* <outer(p, v), D> = p . (D v) *)
Lemma dot_outerb (p : list R) (v : bits) (D : list (list R)) :
  List.Forall (fun r => length r = length v) D ->
  dot ROps (outerb ROps p v) (concat D) = dot ROps p (matvecb ROps D v).
Proof.
  intros HD; revert p; induction HD as [|r D Hr HD IH]; intros [|x p]; simpl; try reflexivity.
  - apply dot_nil_r.
  - rewrite dot_app by (rewrite map_length; symmetry; exact Hr).
    rewrite dot_scaled_bvec. rewrite (IH p). reflexivity.
Qed.

Lemma dot_linearb (p : list R) (D : list (list R)) dc v :
  length D = length dc ->
  dot ROps p (linearb ROps D dc v) = dot ROps p (matvecb ROps D v) + dot ROps p dc.
Proof.
  revert D dc; induction p as [|x p IH]; intros [|r D] [|e dc] H; try discriminate; simpl; try lra.
  unfold linearb in IH. rewrite IH by (simpl in H; lia). unfold matvecb. lra.
Qed.

(* ------------------------------------------------------------------ lines in parameter space *)
Definition vline (x d : list R) (t : R) : list R := vadd ROps x (vscale ROps t d).
Definition mline (W D : list (list R)) (t : R) : list (list R) :=
  map (fun p => vline (fst p) (snd p) t) (combine W D).

Lemma vline_cons a x b d t : vline (a :: x) (b :: d) t = (a + t * b) :: vline x d t.
Proof. reflexivity. Qed.

Lemma vline_length x d t : length x = length d -> length (vline x d t) = length x.
Proof. intros H. unfold vline. apply vadd_length. unfold vscale. rewrite map_length. exact H. Qed.

Lemma mline_length W D t : length W = length D -> length (mline W D t) = length W.
Proof. intros H. unfold mline. rewrite map_length, combine_length, H. apply Nat.min_id. Qed.

Lemma mline_rows W D t c :
  List.Forall (fun r => length r = c) W -> List.Forall (fun r => length r = c) D ->
  List.Forall (fun r => length r = c) (mline W D t).
Proof.
  intros HW; revert D; induction HW as [|r W Hr HW IH]; intros D HD; [constructor|].
  destruct HD as [|d D Hd HD]; [constructor|]. cbn [mline combine map fst snd]. constructor.
  - rewrite vline_length; congruence.
  - apply IH; exact HD.
Qed.

Lemma dotb_vline x d v t :
  length x = length d -> dotb ROps (vline x d t) v = dotb ROps x v + t * dotb ROps d v.
Proof.
  revert d v; induction x as [|a x IH]; intros [|b d] v H; try discriminate.
  - simpl; lra.
  - destruct v as [|c v]; [simpl; lra|]. rewrite vline_cons. cbn [dotb nadd n0 ROps].
    rewrite IH by (simpl in H; lia). destruct c; lra.
Qed.

Lemma linearb_cons (r : list R) W x c v :
  linearb ROps (r :: W) (x :: c) v = (dotb ROps r v + x) :: linearb ROps W c v.
Proof. reflexivity. Qed.

Lemma mline_cons r W d D t : mline (r :: W) (d :: D) t = vline r d t :: mline W D t.
Proof. reflexivity. Qed.

Lemma linearb_line W D c dc v t :
  List.Forall2 (fun r d => length r = length d) W D -> length c = length dc ->
  linearb ROps (mline W D t) (vline c dc t) v = vline (linearb ROps W c v) (linearb ROps D dc v) t.
Proof.
  intros HWD; revert c dc; induction HWD as [|r d W D Hrd HWD IH]; intros c dc Hc.
  - reflexivity.
  - destruct c as [|x c], dc as [|y dc]; try discriminate; [reflexivity|].
    rewrite mline_cons, vline_cons, !linearb_cons, vline_cons.
    rewrite IH by (simpl in Hc; lia). rewrite dotb_vline by exact Hrd.
    f_equal. ring.
Qed.

Lemma linearb_length' (W : list (list R)) c v :
  length W = length c -> length (linearb ROps W c v) = length c.
Proof. intros H; unfold linearb. rewrite map_length, combine_length, H. apply Nat.min_id. Qed.

(* d/dt Sum_i softplus(a_i + t da_i) = sigmoid(a + t da) . da *)
Lemma is_derive_sum_softplus_line a da t0 :
  length a = length da ->
  is_derive (fun t => sum ROps (map (softplus ROps) (vline a da t))) t0
            (dot ROps (map (sigmoid ROps) (vline a da t0)) da).
Proof.
  revert da; induction a as [|x a IH]; intros [|y da] H; try discriminate.
  - simpl. apply (is_derive_const (V:=R_NormedModule)).
  - apply (is_derive_ext (fun t => softplus ROps (x + t * y) + sum ROps (map (softplus ROps) (vline a da t)))).
    { intros t. rewrite vline_cons. reflexivity. }
    rewrite vline_cons. cbn [map dot nadd nmul ROps].
    apply (is_derive_plus (V:=R_NormedModule)).
    + apply (is_derive_eq _ _ (scal y (sigmoid ROps (x + t0 * y)))).
      * unfold scal; simpl; unfold mult; simpl; ring.
      * apply (is_derive_comp (softplus ROps) (fun t => x + t * y)); [apply is_derive_softplus|].
        auto_derive; [exact I | ring].
    + apply IH. simpl in H; lia.
Qed.

(* ------------------------------------------------------------------ vsum: commutative-monoid facts *)
Lemma vadd_comm (x y : list R) : vadd ROps x y = vadd ROps y x.
Proof.
  revert y; induction x as [|a x IH]; intros [|b y]; try reflexivity.
  unfold vadd in *. cbn [combine map fst snd nadd ROps]. rewrite IH. f_equal. lra.
Qed.

Lemma vadd_assoc (x y z : list R) : vadd ROps x (vadd ROps y z) = vadd ROps (vadd ROps x y) z.
Proof.
  revert y z; induction x as [|a x IH]; intros [|b y] [|c z]; try reflexivity.
  unfold vadd in *. cbn [combine map fst snd nadd ROps]. rewrite IH. f_equal. lra.
Qed.

Lemma vadd_zero_l n (y : list R) : (length y <= n)%nat -> vadd ROps (repeat 0 n) y = y.
Proof.
  revert y; induction n as [|n IH]; intros [|b y] H; try reflexivity; simpl in H; [lia|].
  unfold vadd in *. cbn [repeat combine map fst snd nadd ROps]. rewrite IH by lia. f_equal. lra.
Qed.

Lemma vadd_length_le (x y : list R) : (length (vadd ROps x y) <= length y)%nat.
Proof. unfold vadd. rewrite map_length, combine_length. lia. Qed.

Lemma vsum_length_le n (rows : list (list R)) : (length (vsum ROps n rows) <= n)%nat.
Proof.
  induction rows as [|r rows IH]; simpl; [rewrite repeat_length; lia|].
  pose proof (vadd_length_le r (vsum ROps n rows)). lia.
Qed.

Lemma vsum_app n (a b : list (list R)) :
  vsum ROps n (a ++ b) = vadd ROps (vsum ROps n a) (vsum ROps n b).
Proof.
  induction a as [|r a IH]; simpl.
  - symmetry. apply vadd_zero_l, vsum_length_le.
  - rewrite IH. apply vadd_assoc.
Qed.

Lemma vsum_perm n (a b : list (list R)) : Permutation a b -> vsum ROps n a = vsum ROps n b.
Proof.
  induction 1; simpl; try congruence.
  rewrite !vadd_assoc. f_equal. apply vadd_comm.
Qed.

Lemma vsum_zeros {A} n (l : list A) : vsum ROps n (map (fun _ => repeat 0 n) l) = repeat 0 n.
Proof.
  induction l as [|a l IH]; simpl; [reflexivity|]. rewrite IH. apply vadd_zero_l. rewrite repeat_length; lia.
Qed.

Lemma vsum_flat {A B} n (f : A -> B -> list R) (items : A -> list B) (groups : list A) :
  vsum ROps n (map (fun g => vsum ROps n (map (f g) (items g))) groups)
  = vsum ROps n (flat_map (fun g => map (f g) (items g)) groups).
Proof.
  induction groups as [|g groups IH]; simpl; [reflexivity|].
  rewrite vsum_app, IH. reflexivity.
Qed.
