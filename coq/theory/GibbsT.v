(* GibbsT.v — C05: block-Gibbs sampling targets the distribution the model reports.
   Proofs at T := R about QModel.Gibbs (kernel, k-step kernel, deterministic sampler, heap model). *)
From Coq Require Import List ZArith Bool Reals Lra Lia.
From QModel Require Import Num Bits Rbm States Gibbs.
From QTheory Require Import RInst SumBits Born.
Import ListNotations.
Open Scope R_scope.

Local Notation E := (b_eff_energy ROps).

(* ------------------------------------------------------------------ shape guards *)
Definition b_shape (nv nh : nat) (r : brbm (T:=R)) : Prop :=
  length (bW r) = nh /\ Forall (fun row => length row = nv) (bW r) /\
  length (bb r) = nv /\ length (bc r) = nh.

Definition p_shape (nv nh na : nat) (r : prbm (T:=R)) : Prop :=
  length (pW r) = nh /\ Forall (fun row => length row = nv) (pW r) /\
  length (pU r) = na /\ Forall (fun row => length row = nv) (pU r) /\
  length (pb r) = nv /\ length (pc r) = nh /\ length (pd r) = na.

(* ------------------------------------------------------------------ bit-string equality *)
Lemma bits_eqb_cons a b s t : bits_eqb (a :: s) (b :: t) = Bool.eqb a b && bits_eqb s t.
Proof.
  unfold bits_eqb. simpl.
  destruct (Nat.eqb (length s) (length t)), (Bool.eqb a b); reflexivity.
Qed.

Lemma bits_eqb_true a b : bits_eqb a b = true <-> a = b.
Proof.
  revert b; induction a as [|x a IH]; intros [|y b].
  - split; reflexivity.
  - split; [cbv; discriminate | discriminate].
  - split; [cbv; discriminate | discriminate].
  - rewrite bits_eqb_cons, andb_true_iff, IH. split.
    + intros [H1 H2]. apply eqb_prop in H1. congruence.
    + intros H; injection H as -> ->. split; [apply eqb_reflx | reflexivity].
Qed.

Lemma bits_eqb_refl a : bits_eqb a a = true.
Proof. apply bits_eqb_true; reflexivity. Qed.

Lemma indicator_R a b : indicator ROps a b = if bits_eqb a b then 1 else 0.
Proof. reflexivity. Qed.

Lemma indicator_eq a : indicator ROps a a = 1.
Proof. rewrite indicator_R, bits_eqb_refl; reflexivity. Qed.

Lemma indicator_neq a b : a <> b -> indicator ROps a b = 0.
Proof.
  intros H. rewrite indicator_R. destruct (bits_eqb a b) eqn:Hb; [|reflexivity].
  apply bits_eqb_true in Hb; contradiction.
Qed.

(* ------------------------------------------------------------------ sums over bit strings *)
Lemma sum_bits_delta n s f :
  length s = n -> sum_bits n (fun t => indicator ROps s t * f t) = f s.
Proof.
  revert s f; induction n as [|n IH]; intros s f Hs.
  - destruct s; [|discriminate]. simpl. rewrite indicator_eq. lra.
  - destruct s as [|b s]; [discriminate|]. simpl in Hs. injection Hs as Hs. cbn [sum_bits].
    destruct b.
    + rewrite (sum_bits_ext n _ (fun _ => 0)).
      2:{ intros t _. rewrite indicator_R, bits_eqb_cons. simpl. lra. }
      rewrite sum_bits_const0.
      rewrite (sum_bits_ext n _ (fun t => indicator ROps s t * f (true :: t))).
      2:{ intros t _. rewrite !indicator_R, bits_eqb_cons. simpl. reflexivity. }
      rewrite (IH s (fun t => f (true :: t)) Hs). lra.
    + rewrite (sum_bits_ext n (fun t => indicator ROps (false :: s) (true :: t) * f (true :: t)) (fun _ => 0)).
      2:{ intros t _. rewrite indicator_R, bits_eqb_cons. simpl. lra. }
      rewrite sum_bits_const0.
      rewrite (sum_bits_ext n _ (fun t => indicator ROps s t * f (false :: t))).
      2:{ intros t _. rewrite !indicator_R, bits_eqb_cons. simpl. reflexivity. }
      rewrite (IH s (fun t => f (false :: t)) Hs). lra.
Qed.

Lemma sum_bits_delta_r n s f :
  length s = n -> sum_bits n (fun t => f t * indicator ROps t s) = f s.
Proof.
  intros Hs. rewrite <- (sum_bits_delta n s f Hs).
  apply sum_bits_ext; intros t _. rewrite !indicator_R.
  destruct (bits_eqb t s) eqn:H1, (bits_eqb s t) eqn:H2; try lra.
  - apply bits_eqb_true in H1; subst. rewrite bits_eqb_refl in H2; discriminate.
  - apply bits_eqb_true in H2; subst. rewrite bits_eqb_refl in H1; discriminate.
Qed.

Lemma sum_bits_app n m f :
  sum_bits (n + m) f = sum_bits n (fun h => sum_bits m (fun a => f (h ++ a))).
Proof.
  revert f; induction n as [|n IH]; intros f; [reflexivity|].
  cbn [Nat.add sum_bits]. rewrite !IH. reflexivity.
Qed.

(* ------------------------------------------------------------------ Bernoulli factors *)
Lemma bern_R p b : bern ROps p b = if b then p else 1 - p.
Proof. reflexivity. Qed.

Lemma bern_sigmoid x b :
  bern ROps (sigmoid ROps x) b = exp (if b then x else 0) / (1 + exp x).
Proof.
  rewrite bern_R, sigmoid_alt. pose proof (exp_pos x).
  destruct b; [reflexivity|]. rewrite exp_0. field. lra.
Qed.

Lemma sigmoid_range x : 0 < sigmoid ROps x < 1.
Proof.
  rewrite sigmoid_alt. pose proof (exp_pos x) as H.
  split.
  - apply Rdiv_lt_0_compat; lra.
  - apply (Rmult_lt_reg_r (1 + exp x)); [lra|]. unfold Rdiv. rewrite Rmult_assoc, Rinv_l by lra. lra.
Qed.

Lemma prod_one_plus_exp_pos (xs : list R) : 0 < prod ROps (map (fun xi => 1 + exp xi) xs).
Proof. rewrite prod_one_plus_exp. apply exp_pos. Qed.

(* 1. bernoulli_product *)
Lemma bernoulli_product (x : list R) (h : bits) :
  length h = length x ->
  bern_prod ROps (map (sigmoid ROps) x) h =
  exp (dotb ROps x h) / prod ROps (map (fun xi => 1 + exp xi) x).
Proof.
  revert h; induction x as [|a x IH]; intros [|b h] Hl; try discriminate.
  - simpl. rewrite exp_0. field.
  - simpl in Hl. injection Hl as Hl.
    cbn [map bern_prod dotb prod]. rewrite (IH h Hl), bern_sigmoid.
    cbn [nmul nadd n0 ROps]. rewrite exp_plus.
    pose proof (prod_one_plus_exp_pos x). pose proof (exp_pos a).
    field. split; lra.
Qed.

Lemma bern_prod_sigmoid_pos (x : list R) (h : bits) :
  0 < bern_prod ROps (map (sigmoid ROps) x) h.
Proof.
  revert h; induction x as [|a x IH]; intros [|b h]; cbn [map bern_prod n1 nmul ROps]; try lra.
  apply Rmult_lt_0_compat; [|apply IH].
  pose proof (sigmoid_range a). rewrite bern_R. destruct b; lra.
Qed.

Lemma sum_bits_bern_prod (ps : list R) : sum_bits (length ps) (bern_prod ROps ps) = 1.
Proof.
  induction ps as [|p ps IH]; [reflexivity|].
  cbn [length sum_bits bern_prod].
  rewrite (sum_bits_ext _ (fun s => nmul ROps (bern ROps p false) (bern_prod ROps ps s))
                          (fun s => (1 - p) * bern_prod ROps ps s)) by reflexivity.
  rewrite (sum_bits_ext _ (fun s => nmul ROps (bern ROps p true) (bern_prod ROps ps s))
                          (fun s => p * bern_prod ROps ps s)) by reflexivity.
  rewrite !sum_bits_scal, IH. lra.
Qed.

Lemma bern_prod_app ps qs (h a : bits) :
  length ps = length h ->
  bern_prod ROps (ps ++ qs) (h ++ a) = bern_prod ROps ps h * bern_prod ROps qs a.
Proof.
  revert h; induction ps as [|p ps IH]; intros [|b h] Hl; try discriminate.
  - simpl. lra.
  - simpl in Hl. injection Hl as Hl. cbn [app bern_prod]. rewrite (IH h Hl).
    cbn [nmul ROps]. ring.
Qed.

(* ------------------------------------------------------------------ list-level linear algebra at R *)
Lemma vadd_length (x y : list R) : length (vadd ROps x y) = Nat.min (length x) (length y).
Proof. unfold vadd. rewrite map_length, combine_length. reflexivity. Qed.

Lemma vadd_cons a b (x y : list R) : vadd ROps (a :: x) (b :: y) = (a + b) :: vadd ROps x y.
Proof. reflexivity. Qed.

Lemma vecmatb_length nv (h : bits) (W : list (list R)) :
  Forall (fun row => length row = nv) W -> length (vecmatb ROps nv h W) = nv.
Proof.
  revert h; induction W as [|row W IH]; intros h HF.
  - destruct h; simpl; apply repeat_length.
  - pose proof (Forall_inv HF) as Hr; pose proof (Forall_inv_tail HF) as HF'; cbv beta in Hr. destruct h as [|hb h]; [simpl; apply repeat_length|].
    cbn [vecmatb]. destruct hb; [|apply IH; exact HF'].
    rewrite vadd_length, Hr, (IH h HF'). apply Nat.min_id.
Qed.

Lemma dotb_repeat0 n (s : bits) : dotb ROps (repeat 0 n) s = 0.
Proof.
  revert s; induction n as [|n IH]; intros [|b s]; simpl; try reflexivity.
  rewrite IH. destruct b; lra.
Qed.

Lemma dotb_vadd (x y : list R) (s : bits) :
  length x = length y -> dotb ROps (vadd ROps x y) s = dotb ROps x s + dotb ROps y s.
Proof.
  revert y s; induction x as [|a x IH]; intros [|b y] s Hl; try discriminate.
  - simpl. lra.
  - simpl in Hl. injection Hl as Hl. rewrite vadd_cons. destruct s as [|c s]; [simpl; lra|].
    cbn [dotb]. rewrite (IH y s Hl). cbn [nadd n0 ROps]. destruct c; lra.
Qed.

Lemma combine_app_eq {A B} (l1 l2 : list A) (m1 m2 : list B) :
  length l1 = length m1 -> combine (l1 ++ l2) (m1 ++ m2) = combine l1 m1 ++ combine l2 m2.
Proof.
  revert m1; induction l1 as [|a l1 IH]; intros [|b m1] H; try discriminate; [reflexivity|].
  simpl in H. injection H as H. simpl. rewrite (IH m1 H). reflexivity.
Qed.

Lemma linearb_app (W U : list (list R)) c d v :
  length W = length c ->
  linearb ROps (W ++ U) (c ++ d) v = linearb ROps W c v ++ linearb ROps U d v.
Proof. intros H. unfold linearb. rewrite (combine_app_eq _ _ _ _ H), map_app. reflexivity. Qed.

(* h . (W s + c) = c . h + (h W) . s   — the bilinear form read from either side *)
Lemma dotb_linearb_vecmatb nv (W : list (list R)) c (h s : bits) :
  Forall (fun row => length row = nv) W -> length W = length c -> length h = length W ->
  dotb ROps (linearb ROps W c s) h = dotb ROps c h + dotb ROps (vecmatb ROps nv h W) s.
Proof.
  revert c h; induction W as [|row W IH]; intros [|ci c] [|hb h] HF Hc Hh; try discriminate.
  - simpl. rewrite dotb_repeat0. lra.
  - pose proof (Forall_inv HF) as Hr; pose proof (Forall_inv_tail HF) as HF'; cbv beta in Hr. simpl in Hc, Hh. injection Hc as Hc. injection Hh as Hh.
    change (linearb ROps (row :: W) (ci :: c) s)
      with ((dotb ROps row s + ci) :: linearb ROps W c s).
    cbn [dotb vecmatb]. rewrite (IH c h HF' Hc Hh). cbn [nadd n0 ROps].
    destruct hb; [|lra].
    rewrite dotb_vadd by (rewrite (vecmatb_length _ h W HF'); exact Hr). lra.
Qed.

(* ------------------------------------------------------------------ binary RBM: conditionals in closed form *)
Section Binary.
  Variables (nv nh : nat) (r : brbm (T:=R)).
  Hypothesis Hshape : b_shape nv nh r.

  Let x (s : bits) := linearb ROps (bW r) (bc r) s.                       (* W s + c *)
  Let y (h : bits) := vadd ROps (vecmatb ROps (length (bb r)) h (bW r)) (bb r).   (* h W + b *)

  Lemma b_x_length s : length (x s) = nh.
  Proof. destruct Hshape as (HW & _ & _ & Hc). unfold x. rewrite linearb_length; lia. Qed.

  Lemma b_y_length h : length (y h) = nv.
  Proof.
    destruct Hshape as (HW & HF & Hb & Hc). unfold y.
    rewrite vadd_length, Hb, (vecmatb_length nv h _ HF). apply Nat.min_id.
  Qed.

  Lemma b_prob_h_length s : length (b_prob_h_given_v ROps r s) = nh.
  Proof. unfold b_prob_h_given_v. rewrite map_length. apply b_x_length. Qed.

  Lemma b_prob_v_length h : length (b_prob_v_given_h ROps r h) = nv.
  Proof. unfold b_prob_v_given_h. rewrite map_length. apply b_y_length. Qed.

  Lemma b_boltzmann s : exp (- E r s) = exp (dotb ROps (bb r) s) * prod ROps (map (fun xi => 1 + exp xi) (x s)).
  Proof.
    unfold b_eff_energy. cbn [nopp nadd ROps]. rewrite Ropp_involutive, exp_plus.
    rewrite prod_one_plus_exp. reflexivity.
  Qed.

  (* exponent of the joint Boltzmann weight, read from the visible side *)
  Lemma b_joint_from_visible s h :
    length s = nv -> length h = nh ->
    dotb ROps (bb r) s + dotb ROps (x s) h = dotb ROps (bc r) h + dotb ROps (y h) s.
  Proof.
    intros Hs Hh. destruct Hshape as (HW & HF & Hb & Hc). unfold x, y.
    rewrite (dotb_linearb_vecmatb nv) by (try assumption; lia).
    rewrite Hb. rewrite dotb_vadd by (rewrite (vecmatb_length nv h _ HF); lia). lra.
  Qed.

  (* the weighted kernel term is symmetric in (s, s') *)
  Definition b_sym_term (h s s' : bits) : R :=
    exp (dotb ROps (bc r) h) * exp (dotb ROps (y h) s) * exp (dotb ROps (y h) s')
    / prod ROps (map (fun yi => 1 + exp yi) (y h)).

  Lemma b_weighted_term s s' h :
    length s = nv -> length s' = nv -> length h = nh ->
    exp (- E r s) * b_kernel_term ROps r s s' h = b_sym_term h s s'.
  Proof.
    intros Hs Hs' Hh. unfold b_kernel_term, b_prob_h_given_v, b_prob_v_given_h.
    fold (x s). fold (y h).
    rewrite (bernoulli_product (x s) h) by (rewrite b_x_length; exact Hh).
    rewrite (bernoulli_product (y h) s') by (rewrite b_y_length; exact Hs').
    rewrite b_boltzmann. unfold b_sym_term. cbn [nmul ROps].
    pose proof (prod_one_plus_exp_pos (x s)). pose proof (prod_one_plus_exp_pos (y h)).
    replace (exp (dotb ROps (bc r) h) * exp (dotb ROps (y h) s))
      with (exp (dotb ROps (bb r) s) * exp (dotb ROps (x s) h))
      by (rewrite <- !exp_plus; f_equal; apply b_joint_from_visible; assumption).
    field. split; lra.
  Qed.

  Lemma b_sym_term_sym h s s' : b_sym_term h s s' = b_sym_term h s' s.
  Proof. unfold b_sym_term. unfold Rdiv. ring. Qed.

  Lemma b_kernel_sum_bits s s' :
    b_kernel ROps r s s' = sum_bits nh (b_kernel_term ROps r s s').
  Proof.
    destruct Hshape as (_ & _ & _ & Hc). unfold b_kernel. rewrite Hc. apply sum_all_bits.
  Qed.

  (* 2. detailed balance *)
  Lemma detailed_balance_binary s s' :
    length s = nv -> length s' = nv ->
    exp (- E r s) * b_kernel ROps r s s' = exp (- E r s') * b_kernel ROps r s' s.
  Proof.
    intros Hs Hs'. rewrite !b_kernel_sum_bits, <- !sum_bits_scal.
    apply sum_bits_ext; intros h Hh.
    rewrite !b_weighted_term by assumption. apply b_sym_term_sym.
  Qed.

  (* 3. the kernel is a stochastic matrix *)
  Lemma b_kernel_pos s s' : 0 < b_kernel ROps r s s'.
  Proof.
    rewrite b_kernel_sum_bits. apply sum_bits_pos; intros h _.
    unfold b_kernel_term, b_prob_h_given_v, b_prob_v_given_h. cbn [nmul ROps].
    apply Rmult_lt_0_compat; apply bern_prod_sigmoid_pos.
  Qed.

  Lemma b_kernel_row_sum s : sum_bits nv (fun s' => b_kernel ROps r s s') = 1.
  Proof.
    rewrite (sum_bits_ext nv _ (fun s' => sum_bits nh (fun h => b_kernel_term ROps r s s' h)))
      by (intros; apply b_kernel_sum_bits).
    rewrite sum_bits_swap.
    rewrite (sum_bits_ext nh _ (bern_prod ROps (b_prob_h_given_v ROps r s))).
    - rewrite <- (b_prob_h_length s) at 1. apply sum_bits_bern_prod.
    - intros h _. unfold b_kernel_term. cbn [nmul ROps]. rewrite sum_bits_scal.
      rewrite <- (b_prob_v_length h) at 1. rewrite sum_bits_bern_prod. lra.
  Qed.

  (* invariance of the reported (unnormalised) distribution *)
  Lemma b_invariant s' :
    length s' = nv ->
    sum_bits nv (fun s => exp (- E r s) * b_kernel ROps r s s') = exp (- E r s').
  Proof.
    intros Hs'.
    rewrite (sum_bits_ext nv _ (fun s => exp (- E r s') * b_kernel ROps r s' s))
      by (intros s Hs; apply detailed_balance_binary; assumption).
    rewrite sum_bits_scal, b_kernel_row_sum. lra.
  Qed.
End Binary.

(* ------------------------------------------------------------------ purification RBM = binary RBM with (W;U), (c;d) *)
Lemma vadd_assoc (x y z : list R) : vadd ROps x (vadd ROps y z) = vadd ROps (vadd ROps x y) z.
Proof.
  revert y z; induction x as [|a x IH]; intros [|b y] [|c z]; try reflexivity.
  rewrite !vadd_cons, IH. f_equal. ring.
Qed.

Lemma vadd_swap_r (x y z : list R) : vadd ROps (vadd ROps x y) z = vadd ROps (vadd ROps x z) y.
Proof.
  revert y z; induction x as [|a x IH]; intros [|b y] [|c z]; try reflexivity.
  rewrite !vadd_cons, IH. f_equal. ring.
Qed.

Lemma vadd_repeat0_l n (x : list R) : length x = n -> vadd ROps (repeat 0 n) x = x.
Proof.
  revert n; induction x as [|a x IH]; intros [|n] H; try discriminate; [reflexivity|].
  simpl in H. injection H as H. cbn [repeat]. rewrite vadd_cons, (IH n H). f_equal. lra.
Qed.

Lemma vecmatb_app nv (h a : bits) (W U : list (list R)) :
  Forall (fun row => length row = nv) U -> length h = length W ->
  vecmatb ROps nv (h ++ a) (W ++ U) = vadd ROps (vecmatb ROps nv h W) (vecmatb ROps nv a U).
Proof.
  intros HU. revert h; induction W as [|row W IH]; intros [|hb h] Hl; try discriminate.
  - cbn [app]. change (vecmatb ROps nv [] []) with (repeat 0 nv).
    rewrite vadd_repeat0_l; [reflexivity | apply vecmatb_length; exact HU].
  - simpl in Hl. injection Hl as Hl. cbn [app vecmatb]. rewrite (IH h Hl).
    destruct hb; [apply vadd_assoc | reflexivity].
Qed.

Section Purification.
  Variables (nv nh na : nat) (r : prbm (T:=R)).
  Hypothesis Hshape : p_shape nv nh na r.
  Let rb := p_stack_binary r.

  Lemma p_stack_shape : b_shape nv (nh + na) rb.
  Proof.
    destruct Hshape as (HW & HFW & HU & HFU & Hb & Hc & Hd). unfold rb, p_stack_binary, b_shape.
    cbn [bW bb bc]. rewrite !app_length. repeat split; try lia.
    apply Forall_app; split; assumption.
  Qed.

  Lemma p_eff_energy_stack v : p_eff_energy ROps r v = E rb v.
  Proof.
    destruct Hshape as (HW & _ & _ & _ & _ & Hc & _).
    unfold p_eff_energy, b_eff_energy, rb, p_stack_binary. cbn [bW bb bc].
    rewrite linearb_app by lia. rewrite map_app, sum_app. cbn [nopp nadd ROps]. lra.
  Qed.

  Lemma p_prob_ha_stack s :
    b_prob_h_given_v ROps rb s = p_prob_h_given_v ROps r s ++ p_prob_a_given_v ROps r s.
  Proof.
    destruct Hshape as (HW & _ & _ & _ & _ & Hc & _).
    unfold b_prob_h_given_v, p_prob_h_given_v, p_prob_a_given_v, rb, p_stack_binary. cbn [bW bb bc].
    rewrite linearb_app by lia. apply map_app.
  Qed.

  Lemma p_prob_v_stack h a :
    length h = nh -> p_prob_v_given_ha ROps r h a = b_prob_v_given_h ROps rb (h ++ a).
  Proof.
    intros Hh. destruct Hshape as (HW & HFW & HU & HFU & Hb & Hc & Hd).
    unfold p_prob_v_given_ha, b_prob_v_given_h, rb, p_stack_binary. cbn [bW bb bc]. f_equal.
    rewrite Hb. rewrite (vecmatb_app nv) by (try assumption; lia). apply vadd_swap_r.
  Qed.

  Lemma p_prob_h_length s : length (p_prob_h_given_v ROps r s) = nh.
  Proof.
    destruct Hshape as (HW & _ & _ & _ & _ & Hc & _).
    unfold p_prob_h_given_v. rewrite map_length, linearb_length; lia.
  Qed.

  Lemma p_prob_a_length s : length (p_prob_a_given_v ROps r s) = na.
  Proof.
    destruct Hshape as (_ & _ & HU & _ & _ & _ & Hd).
    unfold p_prob_a_given_v. rewrite map_length, linearb_length; lia.
  Qed.

  Lemma p_prob_v_length h a : length h = nh -> length (p_prob_v_given_ha ROps r h a) = nv.
  Proof. intros Hh. rewrite (p_prob_v_stack h a Hh). apply (b_prob_v_length nv (nh + na) rb p_stack_shape). Qed.

  Lemma p_kernel_sum_bits s s' :
    p_kernel ROps r s s' = sum_bits nh (fun h => sum_bits na (fun a => p_kernel_term ROps r s s' h a)).
  Proof.
    destruct Hshape as (_ & _ & _ & _ & _ & Hc & Hd). unfold p_kernel. rewrite Hc, Hd.
    rewrite sum_all_bits. apply sum_bits_ext; intros h _. apply sum_all_bits.
  Qed.

  Lemma p_kernel_stack s s' : p_kernel ROps r s s' = b_kernel ROps rb s s'.
  Proof.
    rewrite p_kernel_sum_bits, (b_kernel_sum_bits nv (nh + na) rb p_stack_shape), sum_bits_app.
    apply sum_bits_ext; intros h Hh. apply sum_bits_ext; intros a Ha.
    unfold p_kernel_term, b_kernel_term.
    rewrite p_prob_ha_stack, bern_prod_app by (rewrite p_prob_h_length; lia).
    rewrite (p_prob_v_stack h a Hh). reflexivity.
  Qed.

  Lemma detailed_balance_purification s s' :
    length s = nv -> length s' = nv ->
    exp (- p_eff_energy ROps r s) * p_kernel ROps r s s' =
    exp (- p_eff_energy ROps r s') * p_kernel ROps r s' s.
  Proof.
    intros Hs Hs'. rewrite !p_eff_energy_stack, !p_kernel_stack.
    apply (detailed_balance_binary nv (nh + na) rb p_stack_shape); assumption.
  Qed.

  Lemma p_kernel_pos s s' : 0 < p_kernel ROps r s s'.
  Proof. rewrite p_kernel_stack. apply (b_kernel_pos nv (nh + na) rb p_stack_shape). Qed.

  Lemma p_kernel_row_sum s : sum_bits nv (fun s' => p_kernel ROps r s s') = 1.
  Proof.
    rewrite (sum_bits_ext nv _ (fun s' => b_kernel ROps rb s s')) by (intros; apply p_kernel_stack).
    apply (b_kernel_row_sum nv (nh + na) rb p_stack_shape).
  Qed.

  Lemma p_invariant s' :
    length s' = nv ->
    sum_bits nv (fun s => exp (- p_eff_energy ROps r s) * p_kernel ROps r s s') =
    exp (- p_eff_energy ROps r s').
  Proof.
    intros Hs'.
    rewrite (sum_bits_ext nv _ (fun s => exp (- E rb s) * b_kernel ROps rb s s'))
      by (intros; rewrite p_eff_energy_stack, p_kernel_stack; reflexivity).
    rewrite p_eff_energy_stack. apply (b_invariant nv (nh + na) rb p_stack_shape). exact Hs'.
  Qed.
End Purification.

(* ------------------------------------------------------------------ k-step kernel *)
Section KPow.
  Variables (nv : nat) (K : bits -> bits -> R).
  Local Notation KP := (kpow ROps nv K).

  Lemma kpow_0 s s' : KP 0%nat s s' = indicator ROps s s'.
  Proof. reflexivity. Qed.

  Lemma kpow_S k s s' : KP (S k) s s' = sum_bits nv (fun t => K s t * KP k t s').
  Proof. cbn [kpow]. apply (sum_all_bits nv (fun t => K s t * KP k t s')). Qed.

  Lemma kpow_1 s s' : length s' = nv -> KP 1%nat s s' = K s s'.
  Proof.
    intros H. rewrite kpow_S.
    rewrite (sum_bits_ext nv _ (fun t => K s t * indicator ROps t s')) by (intros; rewrite kpow_0; reflexivity).
    apply (sum_bits_delta_r nv s' (fun t => K s t)); exact H.
  Qed.

  (* Chapman-Kolmogorov: a chain continued for k more steps *)
  Lemma kpow_add j k s s' :
    length s = nv -> KP (j + k)%nat s s' = sum_bits nv (fun t => KP j s t * KP k t s').
  Proof.
    revert s; induction j as [|j IH]; intros s Hs.
    - cbn [Nat.add].
      rewrite (sum_bits_ext nv _ (fun t => indicator ROps s t * KP k t s')) by (intros; rewrite kpow_0; reflexivity).
      symmetry; apply (sum_bits_delta nv s (fun t => KP k t s')); exact Hs.
    - cbn [Nat.add]. rewrite kpow_S.
      rewrite (sum_bits_ext nv _ (fun u => sum_bits nv (fun t => K s u * KP j u t * KP k t s'))).
      2:{ intros u Hu. rewrite (IH u Hu), <- sum_bits_scal. apply sum_bits_ext; intros; ring. }
      rewrite sum_bits_swap. apply sum_bits_ext; intros t _.
      rewrite kpow_S, sum_bits_scal_r. reflexivity.
  Qed.

  Lemma kpow_nonneg : (forall s s', 0 <= K s s') -> forall k s s', 0 <= KP k s s'.
  Proof.
    intros HK k; induction k as [|k IH]; intros s s'.
    - rewrite kpow_0, indicator_R. destruct (bits_eqb s s'); lra.
    - rewrite kpow_S. apply sum_bits_nonneg; intros t _. apply Rmult_le_pos; [apply HK | apply IH].
  Qed.

  Lemma kpow_row_sum :
    (forall s, length s = nv -> sum_bits nv (fun s' => K s s') = 1) ->
    forall k s, length s = nv -> sum_bits nv (fun s' => KP k s s') = 1.
  Proof.
    intros HK k; induction k as [|k IH]; intros s Hs.
    - rewrite (sum_bits_ext nv _ (fun s' => indicator ROps s s' * 1)) by (intros; rewrite kpow_0; ring).
      apply (sum_bits_delta nv s (fun _ => 1)); exact Hs.
    - rewrite (sum_bits_ext nv _ (fun s' => sum_bits nv (fun t => K s t * KP k t s')))
        by (intros; apply kpow_S).
      rewrite sum_bits_swap.
      rewrite (sum_bits_ext nv _ (fun t => K s t)).
      + apply HK; exact Hs.
      + intros t Ht. rewrite sum_bits_scal.
        change (sum_bits nv (KP k t)) with (sum_bits nv (fun s' => KP k t s')). rewrite (IH t Ht). ring.
  Qed.

  Lemma kpow_invariant (pi : bits -> R) :
    (forall s', length s' = nv -> sum_bits nv (fun s => pi s * K s s') = pi s') ->
    forall k s', length s' = nv -> sum_bits nv (fun s => pi s * KP k s s') = pi s'.
  Proof.
    intros HK k; induction k as [|k IH]; intros s' Hs'.
    - rewrite (sum_bits_ext nv _ (fun s => pi s * indicator ROps s s')) by (intros; rewrite kpow_0; reflexivity).
      apply (sum_bits_delta_r nv s' pi); exact Hs'.
    - rewrite (sum_bits_ext nv _ (fun s => sum_bits nv (fun t => pi s * K s t * KP k t s'))).
      2:{ intros s _. rewrite kpow_S, <- sum_bits_scal. apply sum_bits_ext; intros; ring. }
      rewrite sum_bits_swap.
      rewrite (sum_bits_ext nv _ (fun t => pi t * KP k t s')).
      + apply IH; exact Hs'.
      + intros t Ht. rewrite sum_bits_scal_r, (HK t Ht). reflexivity.
  Qed.

  Lemma kpow_S_right k s s' :
    length s = nv -> length s' = nv -> KP (S k) s s' = sum_bits nv (fun t => KP k s t * K t s').
  Proof.
    intros Hs Hs'. replace (S k) with (k + 1)%nat by lia. rewrite (kpow_add k 1 s s' Hs).
    apply sum_bits_ext; intros t _. rewrite (kpow_1 t s' Hs'). reflexivity.
  Qed.

  (* the k-step kernel is reversible w.r.t. any weight the one-step kernel is reversible for *)
  Lemma kpow_reversible (pi : bits -> R) :
    (forall s s', length s = nv -> length s' = nv -> pi s * K s s' = pi s' * K s' s) ->
    forall k s s', length s = nv -> length s' = nv -> pi s * KP k s s' = pi s' * KP k s' s.
  Proof.
    intros HK k; induction k as [|k IH]; intros s s' Hs Hs'.
    - rewrite !kpow_0, !indicator_R.
      destruct (bits_eqb s s') eqn:H1, (bits_eqb s' s) eqn:H2; try lra.
      + apply bits_eqb_true in H1; subst; reflexivity.
      + apply bits_eqb_true in H1; subst. rewrite bits_eqb_refl in H2; discriminate.
      + apply bits_eqb_true in H2; subst. rewrite bits_eqb_refl in H1; discriminate.
    - rewrite kpow_S, (kpow_S_right k s' s Hs' Hs), <- !sum_bits_scal.
      apply sum_bits_ext; intros t Ht.
      transitivity (pi t * K t s * KP k t s'); [rewrite <- (HK s t Hs Ht); ring|].
      transitivity (K t s * (pi s' * KP k s' t)); [rewrite <- (IH t s' Ht Hs'); ring | ring].
  Qed.
End KPow.

(* ------------------------------------------------------------------ the deterministic sampler *)
(* visible state after t steps of a recorded run: the start state, then the visible draws *)
Definition b_vis (v0 : bits) (draws : list bits) (t : nat) : bits :=
  match t with O => v0 | S t' => nth (2 * t' + 1) draws [] end.
Definition p_vis (v0 : bits) (draws : list bits) (t : nat) : bits :=
  match t with O => v0 | S t' => nth (3 * t' + 2) draws [] end.

Lemma b_vis_shift v0 h v' rest t : b_vis v0 (h :: v' :: rest) (S t) = b_vis v' rest t.
Proof.
  destruct t as [|t]; [reflexivity|]. unfold b_vis.
  replace (2 * S t + 1)%nat with (S (S (2 * t + 1))) by lia. reflexivity.
Qed.

Lemma p_vis_shift v0 h a v' rest t : p_vis v0 (h :: a :: v' :: rest) (S t) = p_vis v' rest t.
Proof.
  destruct t as [|t]; [reflexivity|]. unfold p_vis.
  replace (3 * S t + 2)%nat with (S (S (S (3 * t + 2)))) by lia. reflexivity.
Qed.

Lemma b_sampler_exact (r : brbm (T:=R)) k : forall v0 draws,
  length draws = (2 * k)%nat ->
  let res := b_gibbs_steps ROps r k v0 draws in
  length (snd res) = (2 * k)%nat /\
  fst res = b_vis v0 draws k /\
  forall t, (t < k)%nat ->
    nth (2 * t) (snd res) [] = b_prob_h_given_v ROps r (b_vis v0 draws t) /\
    nth (2 * t + 1) (snd res) [] = b_prob_v_given_h ROps r (nth (2 * t) draws []).
Proof.
  induction k as [|k IH]; intros v0 draws Hl; cbv zeta.
  - split; [reflexivity|]. split; [reflexivity|]. intros t Ht; lia.
  - destruct draws as [|h [|v' rest]]; try (simpl in Hl; lia).
    assert (Hr : length rest = (2 * k)%nat) by (simpl in Hl; lia).
    destruct (IH v' rest Hr) as (IH1 & IH2 & IH3). cbn [b_gibbs_steps fst snd].
    split; [cbn [length]; rewrite IH1; lia|]. split; [rewrite b_vis_shift; exact IH2|].
    intros [|t] Ht.
    + split; reflexivity.
    + destruct (IH3 t ltac:(lia)) as (A & B).
      replace (2 * S t)%nat with (S (S (2 * t))) by lia.
      replace (S (S (2 * t)) + 1)%nat with (S (S (2 * t + 1))) by lia.
      cbn [nth]. rewrite b_vis_shift. split; assumption.
Qed.

Lemma p_sampler_exact (r : prbm (T:=R)) k : forall v0 draws,
  length draws = (3 * k)%nat ->
  let res := p_gibbs_steps ROps r k v0 draws in
  length (snd res) = (3 * k)%nat /\
  fst res = p_vis v0 draws k /\
  forall t, (t < k)%nat ->
    nth (3 * t) (snd res) [] = p_prob_h_given_v ROps r (p_vis v0 draws t) /\
    nth (3 * t + 1) (snd res) [] = p_prob_a_given_v ROps r (p_vis v0 draws t) /\
    nth (3 * t + 2) (snd res) [] =
      p_prob_v_given_ha ROps r (nth (3 * t) draws []) (nth (3 * t + 1) draws []).
Proof.
  induction k as [|k IH]; intros v0 draws Hl; cbv zeta.
  - split; [reflexivity|]. split; [reflexivity|]. intros t Ht; lia.
  - destruct draws as [|h [|a [|v' rest]]]; try (simpl in Hl; lia).
    assert (Hr : length rest = (3 * k)%nat) by (simpl in Hl; lia).
    destruct (IH v' rest Hr) as (IH1 & IH2 & IH3). cbn [p_gibbs_steps fst snd].
    split; [cbn [length]; rewrite IH1; lia|]. split; [rewrite p_vis_shift; exact IH2|].
    intros [|t] Ht.
    + repeat split; reflexivity.
    + destruct (IH3 t ltac:(lia)) as (A & B & C).
      replace (3 * S t)%nat with (S (S (S (3 * t)))) by lia.
      replace (S (S (S (3 * t))) + 1)%nat with (S (S (S (3 * t + 1)))) by lia.
      replace (S (S (S (3 * t))) + 2)%nat with (S (S (S (3 * t + 2)))) by lia.
      cbn [nth]. rewrite p_vis_shift. repeat split; assumption.
Qed.

(* chains continued across calls: one call with j+k steps = a call with j steps followed by a
   call with k steps started from the first call's result *)
Lemma b_sampler_continue (r : brbm (T:=R)) j k : forall v d1 d2,
  length d1 = (2 * j)%nat ->
  b_gibbs_steps ROps r (j + k) v (d1 ++ d2) =
  (fst (b_gibbs_steps ROps r k (fst (b_gibbs_steps ROps r j v d1)) d2),
   snd (b_gibbs_steps ROps r j v d1) ++ snd (b_gibbs_steps ROps r k (fst (b_gibbs_steps ROps r j v d1)) d2)).
Proof.
  induction j as [|j IH]; intros v d1 d2 Hl.
  - destruct d1; [|simpl in Hl; lia]. cbn [Nat.add app b_gibbs_steps fst snd].
    destruct (b_gibbs_steps ROps r k v d2); reflexivity.
  - destruct d1 as [|h [|v' rest]]; try (simpl in Hl; lia).
    assert (Hr : length rest = (2 * j)%nat) by (simpl in Hl; lia).
    cbn [Nat.add app b_gibbs_steps fst snd]. rewrite (IH v' rest d2 Hr). reflexivity.
Qed.

Lemma p_sampler_continue (r : prbm (T:=R)) j k : forall v d1 d2,
  length d1 = (3 * j)%nat ->
  p_gibbs_steps ROps r (j + k) v (d1 ++ d2) =
  (fst (p_gibbs_steps ROps r k (fst (p_gibbs_steps ROps r j v d1)) d2),
   snd (p_gibbs_steps ROps r j v d1) ++ snd (p_gibbs_steps ROps r k (fst (p_gibbs_steps ROps r j v d1)) d2)).
Proof.
  induction j as [|j IH]; intros v d1 d2 Hl.
  - destruct d1; [|simpl in Hl; lia]. cbn [Nat.add app p_gibbs_steps fst snd].
    destruct (p_gibbs_steps ROps r k v d2); reflexivity.
  - destruct d1 as [|h [|a [|v' rest]]]; try (simpl in Hl; lia).
    assert (Hr : length rest = (3 * j)%nat) by (simpl in Hl; lia).
    cbn [Nat.add app p_gibbs_steps fst snd]. rewrite (IH v' rest d2 Hr). reflexivity.
Qed.

(* ------------------------------------------------------------------ law of the sampler *)
Lemma sum_flat_map {A B} (F : B -> R) (g : A -> list B) l :
  sum ROps (map F (flat_map g l)) = sum ROps (map (fun a => sum ROps (map F (g a))) l).
Proof.
  induction l as [|a l IH]; [reflexivity|].
  cbn [flat_map map sum]. rewrite map_app, sum_app, IH. reflexivity.
Qed.

Lemma sum_all_draws_cons n rest (F : list bits -> R) :
  sum ROps (map F (all_draws (n :: rest))) =
  sum_bits n (fun d => sum ROps (map (fun ds => F (d :: ds)) (all_draws rest))).
Proof.
  cbn [all_draws]. rewrite sum_flat_map.
  rewrite <- (sum_all_bits n (fun d => sum ROps (map (fun ds => F (d :: ds)) (all_draws rest)))).
  apply sum_map_ext; intros d _. rewrite map_map. reflexivity.
Qed.

(* [all_draws shape] is exactly the set of draw sequences whose t-th entry has shape[t] bits *)
Lemma all_draws_spec shape ds :
  In ds (all_draws shape) <-> Forall2 (fun n d => length d = n) shape ds.
Proof.
  revert ds; induction shape as [|n rest IH]; intros ds; cbn [all_draws].
  - split.
    + intros [<-|[]]; constructor.
    + intros H; inversion H; left; reflexivity.
  - rewrite in_flat_map. split.
    + intros (d & Hd & Hin). apply in_map_iff in Hin. destruct Hin as (ds' & <- & Hds').
      constructor; [apply all_bits_length; exact Hd | apply IH; exact Hds'].
    + intros H. destruct ds as [|d ds']; [inversion H|].
      inversion H as [|? ? ? ? Hd Hrest]. exists d.
      split; [apply all_bits_complete; exact Hd | apply in_map; apply IH; exact Hrest].
Qed.

Section LawBinary.
  Variables (nv nh : nat) (r : brbm (T:=R)).
  Hypothesis Hshape : b_shape nv nh r.

  Lemma b_sampler_law_0 s s' : b_sampler_law ROps r nv 0 s s' = indicator ROps s s'.
  Proof. unfold b_sampler_law. cbn. lra. Qed.

  Lemma b_sampler_law_S k s s' :
    b_sampler_law ROps r nv (S k) s s' =
    sum_bits nh (fun h => sum_bits nv (fun v' =>
      b_kernel_term ROps r s v' h * b_sampler_law ROps r nv k v' s')).
  Proof.
    destruct Hshape as (_ & _ & _ & Hc). unfold b_sampler_law. rewrite Hc. cbn [b_draw_shape].
    rewrite sum_all_draws_cons. apply sum_bits_ext; intros h _.
    rewrite sum_all_draws_cons. apply sum_bits_ext; intros v' _.
    rewrite <- sum_map_scal. apply sum_map_ext; intros ds _.
    cbv zeta. cbn [b_gibbs_steps fst snd run_weight]. unfold b_kernel_term. cbn [nmul ROps]. ring.
  Qed.

  (* 4. the law of the k-step sampler under independent Bernoulli draws is the k-th kernel power *)
  Lemma b_kstep_law k : forall s s',
    b_sampler_law ROps r nv k s s' = kpow ROps nv (b_kernel ROps r) k s s'.
  Proof.
    induction k as [|k IH]; intros s s'.
    - rewrite b_sampler_law_0, kpow_0. reflexivity.
    - rewrite b_sampler_law_S, kpow_S, sum_bits_swap. apply sum_bits_ext; intros v' _.
      rewrite (b_kernel_sum_bits nv nh r Hshape), <- sum_bits_scal_r.
      apply sum_bits_ext; intros h _. rewrite IH. reflexivity.
  Qed.
End LawBinary.

Section LawPurification.
  Variables (nv nh na : nat) (r : prbm (T:=R)).
  Hypothesis Hshape : p_shape nv nh na r.

  Lemma p_sampler_law_0 s s' : p_sampler_law ROps r nv 0 s s' = indicator ROps s s'.
  Proof. unfold p_sampler_law. cbn. lra. Qed.

  Lemma p_sampler_law_S k s s' :
    p_sampler_law ROps r nv (S k) s s' =
    sum_bits nh (fun h => sum_bits na (fun a => sum_bits nv (fun v' =>
      p_kernel_term ROps r s v' h a * p_sampler_law ROps r nv k v' s'))).
  Proof.
    destruct Hshape as (_ & _ & _ & _ & _ & Hc & Hd). unfold p_sampler_law. rewrite Hc, Hd.
    cbn [p_draw_shape].
    rewrite sum_all_draws_cons. apply sum_bits_ext; intros h _.
    rewrite sum_all_draws_cons. apply sum_bits_ext; intros a _.
    rewrite sum_all_draws_cons. apply sum_bits_ext; intros v' _.
    rewrite <- sum_map_scal. apply sum_map_ext; intros ds _.
    cbv zeta. cbn [p_gibbs_steps fst snd run_weight]. unfold p_kernel_term. cbn [nmul ROps]. ring.
  Qed.

  Lemma p_kstep_law k : forall s s',
    p_sampler_law ROps r nv k s s' = kpow ROps nv (p_kernel ROps r) k s s'.
  Proof.
    induction k as [|k IH]; intros s s'.
    - rewrite p_sampler_law_0, kpow_0. reflexivity.
    - rewrite p_sampler_law_S, kpow_S.
      rewrite (sum_bits_ext nh _ (fun h => sum_bits nv (fun v' => sum_bits na (fun a =>
                 p_kernel_term ROps r s v' h a * p_sampler_law ROps r nv k v' s'))))
        by (intros; apply sum_bits_swap).
      rewrite sum_bits_swap. apply sum_bits_ext; intros v' _.
      rewrite (p_kernel_sum_bits nv nh na r Hshape), <- sum_bits_scal_r.
      apply sum_bits_ext; intros h _. rewrite <- sum_bits_scal_r.
      apply sum_bits_ext; intros a _. rewrite IH. reflexivity.
  Qed.
End LawPurification.

(* ------------------------------------------------------------------ in terms of the reported probability *)
Lemma detailed_balance_probability nv nh (r : brbm (T:=R)) Z s s' :
  b_shape nv nh r -> length s = nv -> length s' = nv ->
  probability ROps r s Z * b_kernel ROps r s s' = probability ROps r s' Z * b_kernel ROps r s' s.
Proof.
  intros Hr Hs Hs'. unfold probability. cbn [ndiv nexp nopp ROps]. unfold Rdiv.
  rewrite !(Rmult_comm _ (/ Z)), !Rmult_assoc. f_equal.
  apply (detailed_balance_binary nv nh r Hr); assumption.
Qed.

Lemma detailed_balance_dm_probability nv nh na (r : prbm (T:=R)) Z s s' :
  p_shape nv nh na r -> length s = nv -> length s' = nv ->
  dm_probability ROps r s Z * p_kernel ROps r s s' = dm_probability ROps r s' Z * p_kernel ROps r s' s.
Proof.
  intros Hr Hs Hs'. unfold dm_probability. cbn [ndiv nexp nopp ROps]. unfold Rdiv.
  rewrite !(Rmult_comm _ (/ Z)), !Rmult_assoc. f_equal.
  apply (detailed_balance_purification nv nh na r Hr); assumption.
Qed.

Lemma invariant_probability nv nh (r : brbm (T:=R)) Z k s' :
  b_shape nv nh r -> length s' = nv ->
  sum_bits nv (fun s => probability ROps r s Z * kpow ROps nv (b_kernel ROps r) k s s') =
  probability ROps r s' Z.
Proof.
  intros Hr Hs'. apply (kpow_invariant nv (b_kernel ROps r) (fun s => probability ROps r s Z)); [|exact Hs'].
  intros t Ht. unfold probability. cbn [ndiv nexp nopp ROps].
  rewrite (sum_bits_ext nv _ (fun s => / Z * (exp (- E r s) * b_kernel ROps r s t)))
    by (intros; unfold Rdiv; ring).
  rewrite sum_bits_scal, (b_invariant nv nh r Hr t Ht). unfold Rdiv; ring.
Qed.

Lemma invariant_dm_probability nv nh na (r : prbm (T:=R)) Z k s' :
  p_shape nv nh na r -> length s' = nv ->
  sum_bits nv (fun s => dm_probability ROps r s Z * kpow ROps nv (p_kernel ROps r) k s s') =
  dm_probability ROps r s' Z.
Proof.
  intros Hr Hs'. apply (kpow_invariant nv (p_kernel ROps r) (fun s => dm_probability ROps r s Z)); [|exact Hs'].
  intros t Ht. unfold dm_probability. cbn [ndiv nexp nopp ROps].
  rewrite (sum_bits_ext nv _ (fun s => / Z * (exp (- p_eff_energy ROps r s) * p_kernel ROps r s t)))
    by (intros; unfold Rdiv; ring).
  rewrite sum_bits_scal, (p_invariant nv nh na r Hr t Ht). unfold Rdiv; ring.
Qed.

(* ------------------------------------------------------------------ storage: the overwrite contract *)
Lemma hwrite_length hp a x : length (hwrite hp a x) = length hp.
Proof. revert a; induction hp as [|c hp IH]; intros [|a]; simpl; try reflexivity. rewrite IH; reflexivity. Qed.

Lemma hread_hwrite_same hp a x : (a < length hp)%nat -> hread (hwrite hp a x) a = x.
Proof.
  revert a; induction hp as [|c hp IH]; intros [|a] H; simpl in *; try lia; [reflexivity|].
  apply IH; lia.
Qed.

Lemma hread_hwrite_other hp a b x : a <> b -> hread (hwrite hp a x) b = hread hp b.
Proof.
  revert a b; induction hp as [|c hp IH]; intros [|a] [|b] H; simpl; try reflexivity; try congruence.
  apply IH; congruence.
Qed.

Lemma run_in_place_length skip k : forall hp dst draws,
  length (run_in_place skip k hp dst draws) = length hp.
Proof.
  induction k as [|k IH]; intros hp dst draws; cbn [run_in_place]; [reflexivity|].
  destruct (nth_error draws skip); [|reflexivity]. rewrite IH. apply hwrite_length.
Qed.

Lemma run_in_place_other skip k : forall hp dst draws b,
  b <> dst -> hread (run_in_place skip k hp dst draws) b = hread hp b.
Proof.
  induction k as [|k IH]; intros hp dst draws b Hb; cbn [run_in_place]; [reflexivity|].
  destruct (nth_error draws skip); [|reflexivity]. rewrite (IH _ _ _ _ Hb).
  apply hread_hwrite_other; congruence.
Qed.

Lemma run_in_place_binary (r : brbm (T:=R)) k : forall hp dst draws,
  (dst < length hp)%nat -> length draws = (2 * k)%nat ->
  hread (run_in_place 1 k hp dst draws) dst = fst (b_gibbs_steps ROps r k (hread hp dst) draws).
Proof.
  induction k as [|k IH]; intros hp dst draws Hd Hl; [reflexivity|].
  destruct draws as [|h [|v' rest]]; try (simpl in Hl; lia).
  assert (Hr : length rest = (2 * k)%nat) by (simpl in Hl; lia).
  cbn [run_in_place nth_error skipn b_gibbs_steps fst].
  rewrite (IH (hwrite hp dst v') dst rest) by (try rewrite hwrite_length; assumption).
  rewrite hread_hwrite_same by exact Hd. reflexivity.
Qed.

Lemma run_in_place_purification (r : prbm (T:=R)) k : forall hp dst draws,
  (dst < length hp)%nat -> length draws = (3 * k)%nat ->
  hread (run_in_place 2 k hp dst draws) dst = fst (p_gibbs_steps ROps r k (hread hp dst) draws).
Proof.
  induction k as [|k IH]; intros hp dst draws Hd Hl; [reflexivity|].
  destruct draws as [|h [|a [|v' rest]]]; try (simpl in Hl; lia).
  assert (Hr : length rest = (3 * k)%nat) by (simpl in Hl; lia).
  cbn [run_in_place nth_error skipn p_gibbs_steps fst].
  rewrite (IH (hwrite hp dst v') dst rest) by (try rewrite hwrite_length; assumption).
  rewrite hread_hwrite_same by exact Hd. reflexivity.
Qed.

Lemma hread_clone hp src : hread (fst (hclone hp src)) (snd (hclone hp src)) = hread hp src.
Proof. unfold hclone, hread; cbn [fst snd]. rewrite app_nth2 by lia. rewrite Nat.sub_diag. reflexivity. Qed.

Lemma hread_clone_old hp src a : (a < length hp)%nat -> hread (fst (hclone hp src)) a = hread hp a.
Proof. intros H. unfold hclone, hread; cbn [fst]. apply app_nth1; exact H. Qed.

(* overwrite = False (any dtype): fresh storage is returned, every cell of the caller's heap is unchanged *)
Lemma overwrite_false_contract skip sd k hp src draws :
  (src < length hp)%nat ->
  let res := gibbs_call skip false sd k hp src draws in
  snd res = length hp /\ snd res <> src /\
  (forall a, (a < length hp)%nat -> hread (fst res) a = hread hp a).
Proof.
  intros Hs. unfold gibbs_call. cbn [andb hclone fst snd]. repeat split; [lia|].
  intros a Ha. rewrite run_in_place_other by lia. apply (hread_clone_old hp src a Ha).
Qed.

(* overwrite = True, any dtype of the start tensor: after the call the caller's cell holds the returned
   result, and no other cell of the caller's heap has changed *)
Lemma overwrite_true_contract skip sd k hp src draws :
  (src < length hp)%nat ->
  let res := gibbs_call skip true sd k hp src draws in
  hread (fst res) src = hread (fst res) (snd res) /\
  (forall a, (a < length hp)%nat -> a <> src -> hread (fst res) a = hread hp a).
Proof.
  intros Hs. unfold gibbs_call. destruct sd; cbn [andb negb hclone fst snd].
  - split; [reflexivity|]. intros a _ Ha. apply run_in_place_other; exact Ha.
  - set (hp2 := run_in_place skip k (hp ++ [hread hp src]) (length hp) draws).
    assert (Hl2 : length hp2 = S (length hp))
      by (unfold hp2; rewrite run_in_place_length, app_length; cbn [length]; lia).
    split.
    + rewrite hread_hwrite_same by lia. rewrite hread_hwrite_other by lia. reflexivity.
    + intros a Ha Hne. rewrite hread_hwrite_other by congruence.
      unfold hp2. rewrite run_in_place_other by lia. apply (hread_clone_old hp src a Ha).
Qed.

(* ... and with a start tensor of the parameters' dtype the caller's own cell is the one returned and
   nothing is allocated *)
Lemma overwrite_true_same_dtype skip k hp src draws :
  let res := gibbs_call skip true true k hp src draws in
  snd res = src /\ length (fst res) = length hp.
Proof.
  unfold gibbs_call. cbn [andb negb fst snd]. split; [reflexivity | apply run_in_place_length].
Qed.

(* in every mode the returned cell holds the sampler's result started from the caller's state *)
Lemma b_call_result (r : brbm (T:=R)) ow sd k hp src draws :
  (src < length hp)%nat -> length draws = (2 * k)%nat ->
  let res := b_gibbs_call ow sd k hp src draws in
  hread (fst res) (snd res) = fst (b_gibbs_steps ROps r k (hread hp src) draws).
Proof.
  intros Hs Hl. unfold b_gibbs_call, gibbs_call.
  assert (Hclone : hread (run_in_place 1 k (hp ++ [hread hp src]) (length hp) draws) (length hp) =
                   fst (b_gibbs_steps ROps r k (hread hp src) draws)).
  { rewrite (run_in_place_binary r) by (try rewrite app_length; cbn [length]; try lia; exact Hl).
    f_equal. f_equal. apply (hread_clone hp src). }
  destruct ow, sd; cbn [andb negb hclone fst snd]; try exact Hclone.
  - apply run_in_place_binary; assumption.
  - rewrite hread_hwrite_other by lia. exact Hclone.
Qed.

Lemma p_call_result (r : prbm (T:=R)) ow sd k hp src draws :
  (src < length hp)%nat -> length draws = (3 * k)%nat ->
  let res := p_gibbs_call ow sd k hp src draws in
  hread (fst res) (snd res) = fst (p_gibbs_steps ROps r k (hread hp src) draws).
Proof.
  intros Hs Hl. unfold p_gibbs_call, gibbs_call.
  assert (Hclone : hread (run_in_place 2 k (hp ++ [hread hp src]) (length hp) draws) (length hp) =
                   fst (p_gibbs_steps ROps r k (hread hp src) draws)).
  { rewrite (run_in_place_purification r) by (try rewrite app_length; cbn [length]; try lia; exact Hl).
    f_equal. f_equal. apply (hread_clone hp src). }
  destruct ow, sd; cbn [andb negb hclone fst snd]; try exact Hclone.
  - apply run_in_place_purification; assumption.
  - rewrite hread_hwrite_other by lia. exact Hclone.
Qed.

(* ------------------------------------------------------------------ non-vacuity of the guards *)
Example b_shape_nonvacuous :
  b_shape 2 3 (mkB [[1; -2]; [0.5; 3]; [-1; 1]] [0.3; -0.7] [0.1; -0.2; 0.4]).
Proof. unfold b_shape; cbn [bW bb bc length]. repeat split; repeat constructor. Qed.

Example p_shape_nonvacuous :
  p_shape 2 2 1 (mkP [[1; -2]; [0.5; 3]] [[-1; 1]] [0.3; -0.7] [0.1; -0.2] [0.4]).
Proof. unfold p_shape; cbn [pW pU pb pc pd length]. repeat split; repeat constructor. Qed.
