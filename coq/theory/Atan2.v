(* Atan2.v — properties of [Ratan2] (theory/RInst.v): the polar-form lemma and the
   behaviour under y -> -y.  Used by Rho.v (C02). *)
From Coq Require Import Reals Lra.
From QTheory Require Import RInst.
Open Scope R_scope.

(* sqrt(x^2+y^2) = |x| sqrt(1 + (y/x)^2)  for x <> 0 *)
Lemma hyp_factor x y : x <> 0 ->
  sqrt (x * x + y * y) = Rabs x * sqrt (1 + (y / x)²).
Proof.
  intros Hx.
  replace (x * x + y * y) with (x² * (1 + (y / x)²)) by (unfold Rsqr; field; exact Hx).
  rewrite sqrt_mult; [rewrite sqrt_Rsqr_abs; reflexivity | apply Rle_0_sqr |].
  pose proof (Rle_0_sqr (y / x)); lra.
Qed.

Lemma sqrt_1_sqr_pos t : 0 < sqrt (1 + t²).
Proof. apply sqrt_lt_R0. pose proof (Rle_0_sqr t); lra. Qed.

(* polar form: for (x,y) <> (0,0), r (cos t, sin t) = (x, y) with r = |(x,y)|, t = atan2 y x *)
Lemma Ratan2_polar x y : x <> 0 \/ y <> 0 ->
  sqrt (x * x + y * y) * cos (Ratan2 y x) = x /\
  sqrt (x * x + y * y) * sin (Ratan2 y x) = y.
Proof.
  intros Hxy. unfold Ratan2.
  destruct (Rlt_dec 0 x) as [Hpos|Hnpos].
  - (* x > 0 *)
    rewrite hyp_factor by lra. rewrite Rabs_right by lra.
    rewrite cos_atan, sin_atan. pose proof (sqrt_1_sqr_pos (y / x)).
    split; field; lra.
  - destruct (Rlt_dec x 0) as [Hneg|Hnneg].
    + (* x < 0 *)
      rewrite hyp_factor by lra. rewrite Rabs_left by lra.
      pose proof (sqrt_1_sqr_pos (y / x)).
      destruct (Rle_dec 0 y).
      * rewrite neg_cos, neg_sin, cos_atan, sin_atan. split; field; lra.
      * rewrite cos_minus, sin_minus, cos_PI, sin_PI, cos_atan, sin_atan. split; field; lra.
    + (* x = 0 *)
      assert (x = 0) by lra. subst x.
      replace (0 * 0 + y * y) with (y * y) by ring.
      destruct (Rlt_dec 0 y).
      * rewrite sqrt_square by lra. rewrite cos_PI2, sin_PI2. split; ring.
      * destruct (Rlt_dec y 0).
        -- replace (y * y) with ((- y) * (- y)) by ring. rewrite sqrt_square by lra.
           rewrite cos_neg, sin_neg, cos_PI2, sin_PI2. split; ring.
        -- exfalso. destruct Hxy; lra.
Qed.

(* y -> -y conjugates the unit vector (cos, sin)(atan2 y x): everywhere, including the
   branch cut x < 0, y = 0 (where both angles are PI and sin PI = 0) and the origin. *)
Lemma Ratan2_neg_cis x y :
  cos (Ratan2 (- y) x) = cos (Ratan2 y x) /\ sin (Ratan2 (- y) x) = - sin (Ratan2 y x).
Proof.
  unfold Ratan2.
  destruct (Rlt_dec 0 x).
  - replace (- y / x) with (- (y / x)) by (field; lra).
    rewrite atan_opp, cos_neg, sin_neg. split; reflexivity.
  - destruct (Rlt_dec x 0).
    + replace (- y / x) with (- (y / x)) by (field; lra). rewrite atan_opp.
      destruct (Rle_dec 0 (- y)), (Rle_dec 0 y).
      * assert (y = 0) by lra. subst y. replace (0 / x) with 0 by (field; lra).
        rewrite atan_0, Ropp_0, Rplus_0_l, sin_PI. split; [reflexivity | ring].
      * replace (- atan (y / x) + PI) with (- (atan (y / x) - PI)) by ring.
        rewrite cos_neg, sin_neg. split; reflexivity.
      * replace (- atan (y / x) - PI) with (- (atan (y / x) + PI)) by ring.
        rewrite cos_neg, sin_neg. split; reflexivity.
      * exfalso; lra.
    + destruct (Rlt_dec 0 (- y)), (Rlt_dec 0 y); try (exfalso; lra).
      * destruct (Rlt_dec y 0); [|exfalso; lra].
        rewrite cos_neg, sin_neg. split; [reflexivity | ring].
      * destruct (Rlt_dec (- y) 0); [|exfalso; lra].
        rewrite cos_neg, sin_neg. split; [reflexivity | ring].
      * destruct (Rlt_dec (- y) 0), (Rlt_dec y 0); try (exfalso; lra).
        rewrite sin_0. split; [reflexivity | ring].
Qed.

(* exact antisymmetry away from the branch cut *)
Lemma Ratan2_neg x y : ~ (x < 0 /\ y = 0) -> Ratan2 (- y) x = - Ratan2 y x.
Proof.
  intros Hcut. unfold Ratan2.
  destruct (Rlt_dec 0 x).
  - replace (- y / x) with (- (y / x)) by (field; lra). apply atan_opp.
  - destruct (Rlt_dec x 0).
    + replace (- y / x) with (- (y / x)) by (field; lra). rewrite atan_opp.
      destruct (Rle_dec 0 (- y)), (Rle_dec 0 y); try lra.
    + destruct (Rlt_dec 0 (- y)), (Rlt_dec 0 y); try (exfalso; lra).
      * destruct (Rlt_dec y 0); [ring | exfalso; lra].
      * destruct (Rlt_dec (- y) 0); [ring | exfalso; lra].
      * destruct (Rlt_dec (- y) 0), (Rlt_dec y 0); try (exfalso; lra). ring.
Qed.

(* on the positive real axis the angle is 0 *)
Lemma Ratan2_0_pos x : 0 < x -> Ratan2 0 x = 0.
Proof.
  intros H. unfold Ratan2. destruct (Rlt_dec 0 x); [|exfalso; lra].
  replace (0 / x) with 0 by (field; lra). apply atan_0.
Qed.
