(* EffectsT.v — theory of the effect language of model/Effects.v (C14).  Proved once, for all
   tables / programs / histories; props/C14.v instantiates it at the table regenerated from
   the Python sources.

   Part 1  closure soundness: whatever [closure_atoms] / [roots_ok] / [ops_ok] answer
           positively is a sound over-approximation of the atoms reachable through the call
           graph (the computed set is re-checked for closedness, so soundness does not
           depend on the fuel of the search at all).
   Part 2  a small semantics of programs-with-effects over a world made of separate
           components (torch RNG, numpy RNG, python RNG, clock, environment, hash order,
           parameters, files, other).  An atom reads and writes only its own component;
           reading parameters/files is always allowed; calls go through an environment of
           function bodies which must conform to the table (each body performs only the atoms
           and calls listed in its record).
   Part 3  NON-INTERFERENCE: if no atom in the closure of the public operations touches a
           set D of components, then ANY client program (= any adaptive history of calls to
           those operations) run in two worlds that agree off D gives equal outputs and final
           worlds that agree off D.  FRAME: a component no reachable atom touches is
           unchanged (ParamWrite absent => parameters unchanged).  SEEDED: if the first call
           is a seeding operation whose body overwrites the torch component, the two worlds
           may even differ in the torch component.                                         *)
From Coq Require Import List Bool PArith Lia.
From QModel Require Import Effects.
Import ListNotations.

(* ====================================================================== Part 1 *)
Section Closure.
Variable tbl : list fn.

Definition edge (x y : positive) : Prop :=
  exists r, In r tbl /\ fid r = x /\ In y (fcallees r).

Inductive reachable : positive -> positive -> Prop :=
| reach_refl : forall x, reachable x x
| reach_step : forall x y z, reachable x y -> edge y z -> reachable x z.

Lemma closed_spec : forall s, closed tbl s = true ->
  forall r, In r tbl -> pmem (fid r) s = true -> forall y, In y (fcallees r) -> pmem y s = true.
Proof.
  intros s H r Hr Hm y Hy. unfold closed in H. rewrite forallb_forall in H.
  specialize (H r Hr). rewrite Hm in H. rewrite forallb_forall in H. exact (H y Hy).
Qed.

Lemma closed_reachable : forall s, closed tbl s = true ->
  forall x y, reachable x y -> pmem x s = true -> pmem y s = true.
Proof.
  intros s Hc x y Hr. induction Hr as [x | x y z Hxy IH [r [Hin [Hid Hz]]]]; intro Hx; [exact Hx|].
  specialize (IH Hx). subst y. exact (closed_spec s Hc r Hin IH z Hz).
Qed.

Lemma atoms_in_spec : forall s r a, In r tbl -> pmem (fid r) s = true -> In a (fatoms r) ->
  In a (atoms_in tbl s).
Proof.
  intros s r a Hr Hm Ha. unfold atoms_in. apply in_flat_map. exists r. split; [exact Hr|].
  rewrite Hm. exact Ha.
Qed.

(* every atom of every function reachable from a root is in the computed closure *)
Theorem closure_sound : forall roots A, closure_atoms tbl roots = Some A ->
  forall x, In x roots -> forall y, reachable x y ->
  forall r, In r tbl -> fid r = y -> forall a, In a (fatoms r) -> In a A.
Proof.
  intros roots A H x Hx y Hxy r Hr Hid a Ha. unfold closure_atoms in H.
  destruct (forallb (fun x0 => pmem x0 (reach tbl roots)) roots && closed tbl (reach tbl roots)) eqn:E;
    [|discriminate].
  apply andb_true_iff in E. destruct E as [E1 E2]. inversion H; subst A; clear H.
  rewrite forallb_forall in E1. specialize (E1 x Hx).
  apply (atoms_in_spec _ r a Hr); [|exact Ha].
  rewrite Hid. exact (closed_reachable _ E2 x y Hxy E1).
Qed.

Theorem roots_ok_sound : forall bad roots, roots_ok bad tbl roots = true ->
  forall x, In x roots -> forall y, reachable x y ->
  forall r, In r tbl -> fid r = y -> forall a, In a (fatoms r) -> bad a = false.
Proof.
  intros bad roots H x Hx y Hxy r Hr Hid a Ha. unfold roots_ok in H.
  destruct (closure_atoms tbl roots) as [A|] eqn:E; [|discriminate].
  rewrite forallb_forall in H.
  specialize (H a (closure_sound roots A E x Hx y Hxy r Hr Hid a Ha)).
  apply negb_true_iff in H. exact H.
Qed.

Theorem ops_ok_sound : forall bad roots, ops_ok bad tbl roots = true ->
  forall x, In x roots -> forall y, reachable x y ->
  forall r, In r tbl -> fid r = y -> forall a, In a (fatoms r) -> bad a = false.
Proof.
  intros bad roots H x Hx. unfold ops_ok in H. rewrite forallb_forall in H. specialize (H x Hx).
  intros y Hxy. exact (roots_ok_sound bad [x] H x (or_introl eq_refl) y Hxy).
Qed.

(* a weaker predicate is implied *)
Lemma ops_ok_weaken : forall (bad bad' : atom -> bool) roots,
  (forall a, bad a = false -> bad' a = false) ->
  ops_ok bad tbl roots = true -> ops_ok bad' tbl roots = true.
Proof.
  intros bad bad' roots Hw H. unfold ops_ok in *. rewrite forallb_forall in *. intros x Hx.
  specialize (H x Hx). unfold roots_ok in *. destruct (closure_atoms tbl [x]); [|discriminate].
  rewrite forallb_forall in *. intros a Ha. specialize (H a Ha).
  apply negb_true_iff in H. apply negb_true_iff. exact (Hw a H).
Qed.

Lemma ops_ok_app : forall bad r1 r2,
  ops_ok bad tbl (r1 ++ r2) = ops_ok bad tbl r1 && ops_ok bad tbl r2.
Proof. intros. unfold ops_ok. apply forallb_app. Qed.

End Closure.

(* ====================================================================== Part 2 *)
Inductive comp : Type :=
| CTorch | CNumpy | CPython | CClock | CEnv | CHash | CParams | CFiles | COther.

Definition comp_eqb (a b : comp) : bool :=
  match a, b with
  | CTorch, CTorch | CNumpy, CNumpy | CPython, CPython | CClock, CClock | CEnv, CEnv
  | CHash, CHash | CParams, CParams | CFiles, CFiles | COther, COther => true
  | _, _ => false
  end.

Lemma comp_eqb_eq : forall a b, comp_eqb a b = true <-> a = b.
Proof. intros a b; split; [destruct a, b; simpl; intro H; try reflexivity; discriminate | intro; subst; destruct b; reflexivity]. Qed.

Lemma comp_eqb_refl : forall a, comp_eqb a a = true.
Proof. destruct a; reflexivity. Qed.

(* the component an atom acts on *)
Definition comp_of (a : atom) : comp :=
  match a with
  | RngTorch | RngReseed => CTorch | RngNumpy => CNumpy | RngPython => CPython
  | Clock | ClockTimer => CClock | Environ => CEnv | SetIteration => CHash
  | ParamWrite => CParams | FileWrite => CFiles | UnknownModule _ => COther
  end.

(* an atom touches a set D of components if it acts on one of them, or is unknown *)
Definition touches (D : comp -> bool) (a : atom) : bool := D (comp_of a) || is_unknown a.

Section Sem.
Variable V : Type.                      (* values: arguments, results, component states *)

Definition world := comp -> V.
Definition upd (w : world) (c : comp) (v : V) : world := fun c' => if comp_eqb c' c then v else w c'.
Definition agree_off (D : comp -> bool) (w1 w2 : world) : Prop := forall c, D c = false -> w1 c = w2 c.

(* programs: arbitrary pure computation (the Coq functions) between effectful steps *)
Inductive prog : Type :=
| Ret (o : V)
| Atom (a : atom) (f : V -> V * V) (k : V -> prog)      (* old component |-> (result, new component) *)
| Wild (m : name) (f : world -> V * world) (k : V -> prog)  (* UnknownModule m: anything *)
| GetParams (k : V -> prog)
| GetFiles (k : V -> prog)
| Call (g : positive) (arg : V) (k : V -> prog).

Variable env : positive -> V -> prog.   (* function bodies *)

Fixpoint run (fuel : nat) {struct fuel} : prog -> world -> option (V * world) :=
  fix go (p : prog) (w : world) {struct p} : option (V * world) :=
    match p with
    | Ret o => Some (o, w)
    | Atom a f k => go (k (fst (f (w (comp_of a))))) (upd w (comp_of a) (snd (f (w (comp_of a)))))
    | Wild m f k => go (k (fst (f w))) (snd (f w))
    | GetParams k => go (k (w CParams)) w
    | GetFiles k => go (k (w CFiles)) w
    | Call g arg k =>
        match fuel with
        | O => None                      (* call depth exhausted *)
        | S n => match run n (env g arg) w with
                 | None => None
                 | Some (r, w') => go (k r) w'
                 end
        end
    end.

Lemma run_ret : forall fuel o w, run fuel (Ret o) w = Some (o, w).
Proof. destruct fuel; reflexivity. Qed.
Lemma run_atom : forall fuel a f k w,
  run fuel (Atom a f k) w = run fuel (k (fst (f (w (comp_of a))))) (upd w (comp_of a) (snd (f (w (comp_of a))))).
Proof. destruct fuel; reflexivity. Qed.
Lemma run_wild : forall fuel m f k w, run fuel (Wild m f k) w = run fuel (k (fst (f w))) (snd (f w)).
Proof. destruct fuel; reflexivity. Qed.
Lemma run_getp : forall fuel k w, run fuel (GetParams k) w = run fuel (k (w CParams)) w.
Proof. destruct fuel; reflexivity. Qed.
Lemma run_getf : forall fuel k w, run fuel (GetFiles k) w = run fuel (k (w CFiles)) w.
Proof. destruct fuel; reflexivity. Qed.
Lemma run_call_O : forall g arg k w, run O (Call g arg k) w = None.
Proof. reflexivity. Qed.
Lemma run_call_S : forall n g arg k w,
  run (S n) (Call g arg k) w =
  match run n (env g arg) w with None => None | Some (r, w') => run (S n) (k r) w' end.
Proof. reflexivity. Qed.

(* static conformance of a program to a set of atoms A and of callable ids C *)
Inductive direct (A : list atom) (C : list positive) : prog -> Prop :=
| d_ret : forall o, direct A C (Ret o)
| d_atom : forall a f k, In a A -> (forall r, direct A C (k r)) -> direct A C (Atom a f k)
| d_wild : forall m f k, In (UnknownModule m) A -> (forall r, direct A C (k r)) -> direct A C (Wild m f k)
| d_getp : forall k, (forall r, direct A C (k r)) -> direct A C (GetParams k)
| d_getf : forall k, (forall r, direct A C (k r)) -> direct A C (GetFiles k)
| d_call : forall g arg k, In g C -> (forall r, direct A C (k r)) -> direct A C (Call g arg k).

Definition lookup (tbl : list fn) (g : positive) : option fn := find (fun r => Pos.eqb (fid r) g) tbl.

(* the bodies conform to the table; an id without a record is a pure function *)
Definition bodies_ok (tbl : list fn) : Prop :=
  forall g arg, match lookup tbl g with
                | Some r => direct (fatoms r) (fcallees r) (env g arg)
                | None => direct [] [] (env g arg)
                end.

Definition res_rel (D : comp -> bool) (r1 r2 : option (V * world)) : Prop :=
  match r1, r2 with
  | Some (o1, w1), Some (o2, w2) => o1 = o2 /\ agree_off D w1 w2
  | None, None => True
  | _, _ => False
  end.

Lemma agree_upd : forall D w1 w2 c v, agree_off D w1 w2 -> agree_off D (upd w1 c v) (upd w2 c v).
Proof. intros D w1 w2 c v H c' Hc'. unfold upd. destruct (comp_eqb c' c); [reflexivity | exact (H c' Hc')]. Qed.

(* ====================================================================== Part 3 *)
Section NI.
Variable tbl : list fn.
Hypothesis Henv : bodies_ok tbl.
Variable S : positive -> Prop.          (* the functions that may get called *)
Hypothesis Sclosed : forall r, In r tbl -> S (fid r) -> forall y, In y (fcallees r) -> S y.
Variable D : comp -> bool.              (* the components in which the two worlds may differ *)
Hypothesis Satoms : forall r, In r tbl -> S (fid r) -> forall a, In a (fatoms r) -> touches D a = false.

Lemma body_direct : forall g arg, S g ->
  exists A C, direct A C (env g arg) /\ (forall a, In a A -> touches D a = false) /\ (forall y, In y C -> S y).
Proof.
  intros g arg Hg. specialize (Henv g arg). unfold lookup in Henv.
  destruct (find (fun r => Pos.eqb (fid r) g) tbl) as [r|] eqn:E.
  - apply find_some in E. destruct E as [Hin Heq]. apply Pos.eqb_eq in Heq.
    exists (fatoms r), (fcallees r). split; [exact Henv|]. rewrite <- Heq in Hg. split.
    + intros a Ha. exact (Satoms r Hin Hg a Ha).
    + intros y Hy. exact (Sclosed r Hin Hg y Hy).
  - exists [], []. split; [exact Henv|]. split; intros ? [].
Qed.

Hypothesis HDp : D CParams = false.
Hypothesis HDf : D CFiles = false.

Lemma ni_fuel : forall fuel A C p, direct A C p ->
  (forall a, In a A -> touches D a = false) -> (forall y, In y C -> S y) ->
  forall w1 w2, agree_off D w1 w2 -> res_rel D (run fuel p w1) (run fuel p w2).
Proof.
  induction fuel as [|n IHn].
  - intros A C p Hd HA HC. induction Hd as [o | a f k Ha Hk IH | m f k Hm Hk IH | k Hk IH | k Hk IH | g arg k Hg Hk IH];
      intros w1 w2 Hw.
    + rewrite !run_ret. simpl. split; [reflexivity | exact Hw].
    + rewrite !run_atom. specialize (HA a Ha). unfold touches in HA. apply orb_false_iff in HA. destruct HA as [HDa _].
      rewrite <- (Hw _ HDa). apply IH. apply agree_upd. exact Hw.
    + specialize (HA _ Hm). unfold touches in HA. simpl in HA. rewrite orb_true_r in HA. discriminate.
    + rewrite !run_getp. rewrite <- (Hw _ HDp). apply IH. exact Hw.
    + rewrite !run_getf. rewrite <- (Hw _ HDf). apply IH. exact Hw.
    + rewrite !run_call_O. exact I.
  - intros A C p Hd HA HC. induction Hd as [o | a f k Ha Hk IH | m f k Hm Hk IH | k Hk IH | k Hk IH | g arg k Hg Hk IH];
      intros w1 w2 Hw.
    + rewrite !run_ret. simpl. split; [reflexivity | exact Hw].
    + rewrite !run_atom. specialize (HA a Ha). unfold touches in HA. apply orb_false_iff in HA. destruct HA as [HDa _].
      rewrite <- (Hw _ HDa). apply IH. apply agree_upd. exact Hw.
    + specialize (HA _ Hm). unfold touches in HA. simpl in HA. rewrite orb_true_r in HA. discriminate.
    + rewrite !run_getp. rewrite <- (Hw _ HDp). apply IH. exact Hw.
    + rewrite !run_getf. rewrite <- (Hw _ HDf). apply IH. exact Hw.
    + rewrite !run_call_S.
      destruct (body_direct g arg (HC g Hg)) as [A' [C' [Hd' [HA' HC']]]].
      pose proof (IHn A' C' (env g arg) Hd' HA' HC' w1 w2 Hw) as Hb.
      destruct (run n (env g arg) w1) as [[r1 w1']|]; destruct (run n (env g arg) w2) as [[r2 w2']|]; simpl in Hb; try contradiction.
      * destruct Hb as [Hr Hw']. subst r2. apply IH. exact Hw'.
      * exact I.
Qed.

End NI.

(* frame: a component that no reachable atom touches is left unchanged *)
Section Frame.
Variable tbl : list fn.
Hypothesis Henv : bodies_ok tbl.
Variable S : positive -> Prop.
Hypothesis Sclosed : forall r, In r tbl -> S (fid r) -> forall y, In y (fcallees r) -> S y.
Variable X : comp.
Hypothesis Satoms : forall r, In r tbl -> S (fid r) -> forall a, In a (fatoms r) -> touches (fun c => comp_eqb c X) a = false.

Lemma upd_other : forall w c v, comp_eqb c X = false -> upd w c v X = w X.
Proof.
  intros w c v H. unfold upd. destruct (comp_eqb X c) eqn:E; [|reflexivity].
  apply comp_eqb_eq in E. subst c. rewrite comp_eqb_refl in H. discriminate.
Qed.

Lemma frame_fuel : forall fuel A C p, direct A C p ->
  (forall a, In a A -> touches (fun c => comp_eqb c X) a = false) -> (forall y, In y C -> S y) ->
  forall w o w', run fuel p w = Some (o, w') -> w' X = w X.
Proof.
  induction fuel as [|n IHn].
  - intros A C p Hd HA HC. induction Hd as [o0 | a f k Ha Hk IH | m f k Hm Hk IH | k Hk IH | k Hk IH | g arg k Hg Hk IH];
      intros w o w' Hr.
    + rewrite run_ret in Hr. inversion Hr; reflexivity.
    + rewrite run_atom in Hr. specialize (HA a Ha). unfold touches in HA. apply orb_false_iff in HA. destruct HA as [HDa _].
      rewrite (IH _ _ _ _ Hr). apply upd_other. exact HDa.
    + specialize (HA _ Hm). unfold touches in HA. simpl in HA. rewrite orb_true_r in HA. discriminate.
    + rewrite run_getp in Hr. exact (IH _ _ _ _ Hr).
    + rewrite run_getf in Hr. exact (IH _ _ _ _ Hr).
    + rewrite run_call_O in Hr. discriminate.
  - intros A C p Hd HA HC. induction Hd as [o0 | a f k Ha Hk IH | m f k Hm Hk IH | k Hk IH | k Hk IH | g arg k Hg Hk IH];
      intros w o w' Hr.
    + rewrite run_ret in Hr. inversion Hr; reflexivity.
    + rewrite run_atom in Hr. specialize (HA a Ha). unfold touches in HA. apply orb_false_iff in HA. destruct HA as [HDa _].
      rewrite (IH _ _ _ _ Hr). apply upd_other. exact HDa.
    + specialize (HA _ Hm). unfold touches in HA. simpl in HA. rewrite orb_true_r in HA. discriminate.
    + rewrite run_getp in Hr. exact (IH _ _ _ _ Hr).
    + rewrite run_getf in Hr. exact (IH _ _ _ _ Hr).
    + rewrite run_call_S in Hr.
      destruct (body_direct tbl Henv S Sclosed _ Satoms g arg (HC g Hg)) as [A' [C' [Hd' [HA' HC']]]].
      destruct (run n (env g arg) w) as [[r1 w1']|] eqn:E; [|discriminate].
      rewrite (IH _ _ _ _ Hr). exact (IHn A' C' (env g arg) Hd' HA' HC' w r1 w1' E).
Qed.

End Frame.

(* ---------------------------------------------------------------- packaged with the computed check *)
Definition callable (tbl : list fn) (roots : list positive) (g : positive) : Prop :=
  exists x, In x roots /\ reachable tbl x g.

Lemma callable_closed : forall tbl roots r, In r tbl -> callable tbl roots (fid r) ->
  forall y, In y (fcallees r) -> callable tbl roots y.
Proof.
  intros tbl roots r Hr [x [Hx Hxr]] y Hy. exists x. split; [exact Hx|].
  apply (reach_step tbl x (fid r) y Hxr). exists r. auto.
Qed.

Lemma callable_root : forall tbl roots y, In y roots -> callable tbl roots y.
Proof. intros tbl roots y Hy. exists y. split; [exact Hy | apply reach_refl]. Qed.

(* NON-INTERFERENCE.  [client] is any program that performs no effect of its own and only calls
   operations from [roots] — i.e. any adaptive history of public operations.  If the computed
   check says that no atom in the closure of any root is [bad], and bad covers "touches D",
   then two runs from worlds that agree off D (and D contains neither parameters nor files)
   give the same output and final worlds that agree off D. *)
Theorem noninterference : forall tbl roots bad D,
  bodies_ok tbl ->
  ops_ok bad tbl roots = true ->
  (forall a, bad a = false -> touches D a = false) ->
  D CParams = false -> D CFiles = false ->
  forall client, direct [] roots client ->
  forall fuel w1 w2, agree_off D w1 w2 -> res_rel D (run fuel client w1) (run fuel client w2).
Proof.
  intros tbl roots bad D Henv Hok Hbad HDp HDf client Hc fuel w1 w2 Hw.
  apply (ni_fuel tbl Henv (callable tbl roots) (callable_closed tbl roots) D) with (A := []) (C := roots); auto.
  - intros r Hr [x [Hx Hxr]] a Ha. apply Hbad.
    exact (ops_ok_sound tbl bad roots Hok x Hx (fid r) Hxr r Hr eq_refl a Ha).
  - intros a [].
  - intros y Hy. apply callable_root. exact Hy.
Qed.

(* FRAME.  If no atom in the closure touches component X, every terminating history leaves X
   as it was (X := CParams with bad := param_write: parameters are unchanged). *)
Theorem frame : forall tbl roots bad X,
  bodies_ok tbl ->
  ops_ok bad tbl roots = true ->
  (forall a, bad a = false -> touches (fun c => comp_eqb c X) a = false) ->
  forall client, direct [] roots client ->
  forall fuel w o w', run fuel client w = Some (o, w') -> w' X = w X.
Proof.
  intros tbl roots bad X Henv Hok Hbad client Hc fuel w o w' Hr.
  apply (frame_fuel tbl Henv (callable tbl roots) (callable_closed tbl roots) X) with (A := []) (C := roots) (fuel := fuel) (p := client) (o := o); auto.
  - intros r Hr' [x [Hx Hxr]] a Ha. apply Hbad.
    exact (ops_ok_sound tbl bad roots Hok x Hx (fid r) Hxr r Hr' eq_refl a Ha).
  - intros a [].
  - intros y Hy. apply callable_root. exact Hy.
Qed.

(* SEEDED.  If the history starts with a seeding call whose body overwrites the torch component
   with a function of the seed alone, the two worlds may differ in the torch component too. *)
Definition with_torch (D : comp -> bool) : comp -> bool := fun c => comp_eqb c CTorch || D c.

Theorem seeded_noninterference : forall tbl roots bad D seed (out st : V -> V),
  bodies_ok tbl ->
  ops_ok bad tbl roots = true ->
  (forall a, bad a = false -> touches D a = false) ->
  D CParams = false -> D CFiles = false ->
  (forall s, env seed s = Atom RngTorch (fun _ => (out s, st s)) (fun r => Ret r)) ->
  forall s rest, (forall r, direct [] roots (rest r)) ->
  forall fuel w1 w2, agree_off (with_torch D) w1 w2 ->
  res_rel D (run fuel (Call seed s rest) w1) (run fuel (Call seed s rest) w2).
Proof.
  intros tbl roots bad D seed out st Henv Hok Hbad HDp HDf Hseed s rest Hrest fuel w1 w2 Hw.
  destruct fuel as [|n]; [rewrite !run_call_O; exact I|].
  assert (Hstep : forall w, run (S n) (Call seed s rest) w = run (S n) (rest (out s)) (upd w CTorch (st s))).
  { intro w. rewrite run_call_S. rewrite Hseed. rewrite run_atom, run_ret. reflexivity. }
  rewrite !Hstep.
  apply (noninterference tbl roots bad D Henv Hok Hbad HDp HDf (rest (out s)) (Hrest (out s))).
  intros c Hc. unfold upd. destruct (comp_eqb c CTorch) eqn:E; [reflexivity|].
  apply Hw. unfold with_torch. rewrite E. exact Hc.
Qed.

End Sem.

(* ---------------------------------------------------------------- the concrete component sets *)
(* everything that is neither torch's generator, nor the clock, nor parameters / files *)
Definition D_foreign (c : comp) : bool :=
  match c with CNumpy | CPython | CEnv | CHash | COther => true | _ => false end.
Definition D_foreign_clock (c : comp) : bool :=
  match c with CNumpy | CPython | CEnv | CHash | COther | CClock => true | _ => false end.
Definition D_torch (c : comp) : bool := comp_eqb c CTorch.

Lemma foreign_source_touches : forall a, foreign_source a = false -> touches D_foreign a = false.
Proof. destruct a; simpl; intro H; try reflexivity; discriminate. Qed.

Lemma foreign_clock_touches : forall a, (foreign_source a || any_clock a) = false -> touches D_foreign_clock a = false.
Proof. destruct a; simpl; intro H; try reflexivity; discriminate. Qed.

Lemma param_write_touches : forall a, param_write a = false -> touches (fun c => comp_eqb c CParams) a = false.
Proof. destruct a; simpl; intro H; try reflexivity; discriminate. Qed.

Lemma foreign_or_write_param : forall a, foreign_or_write a = false -> param_write a = false.
Proof. intros a H. unfold foreign_or_write in H. apply orb_false_iff in H. tauto. Qed.

Lemma foreign_or_write_foreign : forall a, foreign_or_write a = false -> foreign_source a = false.
Proof.
  intros a H. unfold foreign_or_write, foreign_or_reseed in H.
  apply orb_false_iff in H. destruct H as [H _]. apply orb_false_iff in H. tauto.
Qed.

Lemma foreign_or_reseed_foreign : forall a, foreign_or_reseed a = false -> foreign_source a = false.
Proof. intros a H. unfold foreign_or_reseed in H. apply orb_false_iff in H. tauto. Qed.

Lemma rng_torch_touches : forall a, rng_torch a = false -> touches D_torch a = false.
Proof. destruct a; simpl; intro H; try reflexivity; discriminate. Qed.

(* ====================================================================== non-vacuity *)
(* A two-function table: [sample] (id 1) draws from torch's generator and calls [helper] (id 2),
   which reads the parameters; [shuffle_np] (id 3) draws from numpy's generator. *)
Module Example.
Open Scope name_scope.
Definition tbl : list fn :=
  [ mkfn 1 "sample" [RngTorch] [2%positive];
    mkfn 2 "helper" [] [];
    mkfn 3 "shuffle_np" [RngNumpy] [] ].

Definition env (g : positive) (arg : nat) : prog nat :=
  match g with
  | 1%positive => Atom nat RngTorch (fun s => (s, Datatypes.S s))
                   (fun r => Call nat 2%positive r (fun h => Ret nat (r + h)))
  | 2%positive => GetParams nat (fun p => Ret nat (p + arg))
  | 3%positive => Atom nat RngNumpy (fun s => (s, Datatypes.S s)) (fun r => Ret nat r)
  | _ => Ret nat 0
  end.

Lemma env_ok : bodies_ok nat env tbl.
Proof.
  intros g arg. unfold lookup. simpl.
  destruct g as [[g|g|]|[g|g|]|]; simpl; try (apply d_ret).
  - apply d_atom; [left; reflexivity | intro r; apply d_ret].
  - apply d_getp. intro r. apply d_ret.
  - apply d_atom; [left; reflexivity|]. intro r. apply d_call; [left; reflexivity|]. intro h. apply d_ret.
Qed.

Lemma check_sample : ops_ok foreign_source tbl [1%positive] = true.
Proof. vm_compute. reflexivity. Qed.

Lemma check_sample_ro : ops_ok param_write tbl [1%positive; 2%positive] = true.
Proof. vm_compute. reflexivity. Qed.

Lemma check_np_fails : ops_ok foreign_source tbl [3%positive] = false.
Proof. vm_compute. reflexivity. Qed.

Definition w0 : world nat := fun c => match c with CTorch => 7 | CParams => 100 | _ => 0 end.
Definition w1 : world nat := fun c => match c with CTorch => 7 | CParams => 100 | CNumpy => 55 | _ => 0 end.

(* the hypotheses of [noninterference] are satisfiable and the run terminates with a value *)
Example sample_runs : exists w', run nat env 5 (Call nat 1%positive 3 (fun r => Ret nat r)) w0 = Some (7 + (100 + 7), w').
Proof. eexists. vm_compute. reflexivity. Qed.

Example sample_noninterference :
  res_rel nat D_foreign (run nat env 5 (Call nat 1%positive 3 (fun r => Ret nat r)) w0)
                        (run nat env 5 (Call nat 1%positive 3 (fun r => Ret nat r)) w1).
Proof.
  apply (noninterference nat env tbl [1%positive] foreign_source D_foreign env_ok check_sample foreign_source_touches eq_refl eq_refl).
  - apply d_call; [left; reflexivity | intro r; apply d_ret].
  - intros c Hc. destruct c; simpl in Hc; try discriminate; reflexivity.
Qed.

(* ... and the hypothesis is needed: an operation with RngNumpy in its closure does depend on numpy's state *)
Example numpy_atom_interferes :
  agree_off nat D_foreign w0 w1 /\
  run nat env 5 (Call nat 3%positive 0 (fun r => Ret nat r)) w0 = Some (0, upd nat w0 CNumpy 1) /\
  exists w', run nat env 5 (Call nat 3%positive 0 (fun r => Ret nat r)) w1 = Some (55, w').
Proof.
  split; [intros c Hc; destruct c; simpl in Hc; try discriminate; reflexivity|].
  split; [reflexivity|]. eexists. reflexivity.
Qed.
End Example.
