(* EffectsCompleteT.v — C14: COMPLETENESS of the call-graph closure search of model/Effects.v.

   EffectsT.v proves soundness of [closure_atoms] for every fuel (the computed set is re-checked for
   closedness).  This file proves that the re-check never fails: the depth-first search [dfs], run
   with a fuel larger than the number of distinct record ids that are not yet in the visited set,
   returns a set that contains the node it was started from and is closed under the callee relation
   of the index for every node it added.  Argument: visited-set measure.  [unseen keys s] counts the
   keys (ids with a record) outside the visited set [s]; every recursion level that expands a node
   adds a new key to the visited set, so the measure drops by at least one per level while the fuel
   drops by exactly one; a node without a record is a leaf and needs one unit of fuel.

   Results (all tables, all root lists, no well-formedness hypothesis on ids — duplicate ids are
   merged by [index], callee ids without a record are leaves):
     dfs_complete / fold_dfs_complete   the search invariant, any fuel > unseen keys seen
     search_complete_fuel               any fuel > number of DISTINCT ids of the table
     reach_complete                     the fuel S (length tbl) used by [reach] is enough
     closure_atoms_complete             closure_atoms tbl roots <> None
     closure_atoms_defined              closure_atoms tbl roots = Some (atoms_in tbl (reach tbl roots))
     roots_ok_complete / ops_ok_complete   the decision procedures answer [false] only because of a
                                        bad atom of a function that really is reachable (never because
                                        the search gave up).                                          *)
From Coq Require Import List Bool PArith Arith Lia.
From QModel Require Import Effects.
From QTheory Require Import EffectsT.
Import ListNotations.

(* ------------------------------------------------------------------ trie sets and maps *)
Lemma pmem_leaf : forall p, pmem p PLeaf = false.
Proof. destruct p; reflexivity. Qed.

Lemma pmem_padd_same : forall p s, pmem p (padd p s) = true.
Proof. induction p; intros [|l b r]; cbn; auto. Qed.

Lemma pmem_padd_other : forall p q s, p <> q -> pmem q (padd p s) = pmem q s.
Proof.
  induction p as [p IH|p IH|]; intros [q|q|] [|l b r] H; cbn;
    rewrite ?pmem_leaf; try reflexivity;
    try (rewrite IH by congruence; rewrite ?pmem_leaf; reflexivity);
    exfalso; apply H; reflexivity.
Qed.

Lemma mget_leaf : forall A p, @mget A p MLeaf = None.
Proof. destruct p; reflexivity. Qed.

Lemma mget_mset_same : forall A p (a : A) m, mget p (mset p a m) = Some a.
Proof. induction p; intros a [|l v r]; cbn; auto. Qed.

Lemma mget_mset_other : forall A p q (a : A) m, p <> q -> mget q (mset p a m) = mget q m.
Proof.
  induction p as [p IH|p IH|]; intros [q|q|] a [|l v r] H; cbn;
    rewrite ?mget_leaf; try reflexivity;
    try (rewrite IH by congruence; rewrite ?mget_leaf; reflexivity);
    exfalso; apply H; reflexivity.
Qed.

(* ------------------------------------------------------------------ the index of a table *)
Definition index_step (m : pmap (list positive)) (r : fn) : pmap (list positive) :=
  mset (fid r) (match mget (fid r) m with Some cs => fcallees r ++ cs | None => fcallees r end) m.

Lemma index_unfold : forall tbl, index tbl = fold_left index_step tbl MLeaf.
Proof. reflexivity. Qed.

(* an entry only grows *)
Lemma index_fold_keeps : forall tbl m y cs0, mget y m = Some cs0 ->
  exists cs, mget y (fold_left index_step tbl m) = Some cs /\ incl cs0 cs.
Proof.
  induction tbl as [|r tbl IH]; intros m y cs0 H; cbn [fold_left].
  - exists cs0. split; [exact H | apply incl_refl].
  - destruct (Pos.eq_dec (fid r) y) as [E|E].
    + subst y. unfold index_step at 2. rewrite H.
      destruct (IH (mset (fid r) (fcallees r ++ cs0) m) (fid r) (fcallees r ++ cs0) (mget_mset_same _ _ _ _))
        as [cs [H1 H2]].
      exists cs. split; [exact H1|]. intros z Hz. apply H2, in_or_app. right. exact Hz.
    + apply IH. unfold index_step. rewrite mget_mset_other by exact E. exact H.
Qed.

(* every record has an entry that contains its callees *)
Lemma index_fold_has : forall tbl m r, In r tbl ->
  exists cs, mget (fid r) (fold_left index_step tbl m) = Some cs /\ incl (fcallees r) cs.
Proof.
  induction tbl as [|r0 tbl IH]; intros m r Hin; [contradiction|]. destruct Hin as [E|Hin]; cbn [fold_left].
  - subst r0.
    assert (Hs : exists cs0, mget (fid r) (index_step m r) = Some cs0 /\ incl (fcallees r) cs0).
    { unfold index_step. rewrite mget_mset_same. eexists; split; [reflexivity|].
      destruct (mget (fid r) m); [apply incl_appl|]; apply incl_refl. }
    destruct Hs as [cs0 [H0 I0]]. destruct (index_fold_keeps tbl _ _ _ H0) as [cs [H1 I1]].
    exists cs. split; [exact H1|]. intros z Hz. apply I1, I0, Hz.
  - apply IH, Hin.
Qed.

(* every entry belongs to a record *)
Lemma index_fold_keys : forall tbl m y cs, mget y (fold_left index_step tbl m) = Some cs ->
  In y (map fid tbl) \/ exists cs0, mget y m = Some cs0.
Proof.
  induction tbl as [|r tbl IH]; intros m y cs H; cbn [fold_left map] in *.
  - right. exists cs. exact H.
  - destruct (IH _ _ _ H) as [Hin | [cs0 H0]]; [left; right; exact Hin|].
    destruct (Pos.eq_dec (fid r) y) as [E|E]; [left; left; exact E|].
    right. exists cs0. unfold index_step in H0. rewrite mget_mset_other in H0 by exact E. exact H0.
Qed.

Lemma index_has : forall tbl r, In r tbl ->
  exists cs, mget (fid r) (index tbl) = Some cs /\ incl (fcallees r) cs.
Proof. intros tbl r H. rewrite index_unfold. apply index_fold_has, H. Qed.

Lemma index_keys : forall tbl y cs, mget y (index tbl) = Some cs -> In y (map fid tbl).
Proof.
  intros tbl y cs H. rewrite index_unfold in H. destruct (index_fold_keys _ _ _ _ H) as [Hin | [cs0 H0]]; [exact Hin|].
  rewrite mget_leaf in H0. discriminate.
Qed.

(* ------------------------------------------------------------------ the measure *)
Definition subset (s s' : pset) : Prop := forall y, pmem y s = true -> pmem y s' = true.

Lemma subset_refl : forall s, subset s s.
Proof. intros s y H; exact H. Qed.
Lemma subset_trans : forall a b c, subset a b -> subset b c -> subset a c.
Proof. intros a b c H1 H2 y H; apply H2, H1, H. Qed.
Lemma subset_padd : forall x s, subset s (padd x s).
Proof.
  intros x s y H. destruct (Pos.eq_dec x y) as [E|E]; [subst; apply pmem_padd_same|].
  rewrite pmem_padd_other by exact E. exact H.
Qed.

(* number of keys outside the visited set (keys may repeat: repetitions only help) *)
Definition unseen (keys : list positive) (s : pset) : nat :=
  length (filter (fun y => negb (pmem y s)) keys).

Lemma unseen_mono : forall keys s s', subset s s' -> unseen keys s' <= unseen keys s.
Proof.
  intros keys s s' H. unfold unseen. induction keys as [|a keys IH]; [apply le_n|].
  cbn [filter]. destruct (pmem a s) eqn:Ea.
  - rewrite (H a Ea). cbn [negb]. exact IH.
  - cbn [negb]. destruct (negb (pmem a s')); cbn [length]; lia.
Qed.

Lemma unseen_padd : forall keys x s, In x keys -> pmem x s = false ->
  unseen keys (padd x s) < unseen keys s.
Proof.
  intros keys x s. induction keys as [|a keys IH]; intros Hin Hx; [contradiction|].
  pose proof (unseen_mono keys s (padd x s) (subset_padd x s)) as Hm.
  unfold unseen in *. cbn [filter]. destruct (Pos.eq_dec x a) as [E|E].
  - subst a. rewrite pmem_padd_same, Hx. cbn [negb length]. lia.
  - rewrite pmem_padd_other by exact E. destruct Hin as [Ha|Hin]; [exfalso; apply E; symmetry; exact Ha|].
    specialize (IH Hin Hx). destruct (negb (pmem a s)); cbn [length]; lia.
Qed.

Lemma unseen_empty : forall keys, unseen keys PLeaf = length keys.
Proof.
  intros keys. unfold unseen. induction keys as [|a keys IH]; [reflexivity|].
  cbn [filter]. rewrite pmem_leaf. cbn [negb length]. rewrite IH. reflexivity.
Qed.

(* ------------------------------------------------------------------ the search invariant *)
Section Search.
Variable m : pmap (list positive).
Variable keys : list positive.
Hypothesis keys_ok : forall y cs, mget y m = Some cs -> In y keys.

(* [s'] extends [seen], and every node of [s'] that was not in [seen] has all its callees in [s'] *)
Definition extends_closed (seen s' : pset) : Prop :=
  subset seen s' /\
  forall y, pmem y s' = true -> pmem y seen = false ->
  forall cs, mget y m = Some cs -> forall z, In z cs -> pmem z s' = true.

Lemma extends_closed_refl : forall s, extends_closed s s.
Proof. intros s. split; [apply subset_refl|]. intros y H1 H2. rewrite H1 in H2. discriminate. Qed.

Lemma extends_closed_trans : forall a b c, extends_closed a b -> extends_closed b c -> extends_closed a c.
Proof.
  intros a b c [S1 C1] [S2 C2]. split; [exact (subset_trans _ _ _ S1 S2)|].
  intros y Hc Ha cs Hcs z Hz. destruct (pmem y b) eqn:Eb.
  - apply S2. exact (C1 y Eb Ha cs Hcs z Hz).
  - exact (C2 y Hc Eb cs Hcs z Hz).
Qed.

(* the fold over a callee list, given the invariant for single calls at this fuel *)
Lemma fold_dfs_complete_aux : forall k,
  (forall seen x, unseen keys seen < k ->
     extends_closed seen (dfs k m seen x) /\ pmem x (dfs k m seen x) = true) ->
  forall cs seen, unseen keys seen < k ->
    extends_closed seen (fold_left (dfs k m) cs seen) /\
    forall z, In z cs -> pmem z (fold_left (dfs k m) cs seen) = true.
Proof.
  intros k Hk. induction cs as [|c cs IH]; intros seen Hf; cbn [fold_left].
  - split; [apply extends_closed_refl | intros z []].
  - destruct (Hk seen c Hf) as [E1 M1].
    assert (Hf' : unseen keys (dfs k m seen c) < k).
    { pose proof (unseen_mono keys _ _ (proj1 E1)). lia. }
    destruct (IH _ Hf') as [E2 M2]. split; [exact (extends_closed_trans _ _ _ E1 E2)|].
    intros z [Hz|Hz]; [subst z; apply (proj1 E2), M1 | apply M2, Hz].
Qed.

(* one call: with more fuel than unseen keys the search never gives up *)
Theorem dfs_complete : forall fuel seen x, unseen keys seen < fuel ->
  extends_closed seen (dfs fuel m seen x) /\ pmem x (dfs fuel m seen x) = true.
Proof.
  induction fuel as [|k IHk]; intros seen x Hf; [lia|].
  cbn [dfs]. destruct (pmem x seen) eqn:Ex; [split; [apply extends_closed_refl | exact Ex]|].
  destruct (mget x m) as [cs|] eqn:Em.
  - assert (Hf' : unseen keys (padd x seen) < k).
    { pose proof (unseen_padd keys x seen (keys_ok x cs Em) Ex). lia. }
    destruct (fold_dfs_complete_aux k IHk cs (padd x seen) Hf') as [[S2 C2] M2].
    split; [split|].
    + exact (subset_trans _ _ _ (subset_padd x seen) S2).
    + intros y Hy Hs cs' Hcs' z Hz. destruct (Pos.eq_dec x y) as [E|E].
      * subst y. rewrite Em in Hcs'. injection Hcs' as <-. apply M2, Hz.
      * apply (C2 y Hy) with (cs := cs'); [rewrite pmem_padd_other by exact E; exact Hs | exact Hcs' | exact Hz].
    + apply S2, pmem_padd_same.
  - split; [split|].
    + apply subset_padd.
    + intros y Hy Hs cs' Hcs'. destruct (Pos.eq_dec x y) as [E|E].
      * subst y. rewrite Em in Hcs'. discriminate.
      * rewrite pmem_padd_other in Hy by exact E. rewrite Hy in Hs. discriminate.
    + apply pmem_padd_same.
Qed.

Theorem fold_dfs_complete : forall fuel cs seen, unseen keys seen < fuel ->
  extends_closed seen (fold_left (dfs fuel m) cs seen) /\
  forall z, In z cs -> pmem z (fold_left (dfs fuel m) cs seen) = true.
Proof. intros fuel. apply fold_dfs_complete_aux. intros seen x. apply dfs_complete. Qed.
End Search.

(* ------------------------------------------------------------------ tables *)
Lemma nodup_length_le : forall (l : list positive), length (nodup Pos.eq_dec l) <= length l.
Proof.
  induction l as [|a l IH]; [apply le_n|]. cbn [nodup]. destruct (in_dec Pos.eq_dec a l); cbn [length]; lia.
Qed.

(* number of distinct function ids of a table *)
Definition distinct_ids (tbl : list fn) : nat := length (nodup Pos.eq_dec (map fid tbl)).

Lemma distinct_ids_le : forall tbl, distinct_ids tbl <= length tbl.
Proof. intros tbl. unfold distinct_ids. rewrite <- (map_length fid tbl). apply nodup_length_le. Qed.

(* the search started from the empty set with ANY fuel above the number of distinct ids returns a set
   that contains the roots and passes the self-check of [closure_atoms] *)
Theorem search_complete_fuel : forall tbl fuel roots, distinct_ids tbl < fuel ->
  let s := fold_left (dfs fuel (index tbl)) roots PLeaf in
  (forall x, In x roots -> pmem x s = true) /\ closed tbl s = true.
Proof.
  intros tbl fuel roots Hf s.
  assert (Hk : forall y cs, mget y (index tbl) = Some cs -> In y (nodup Pos.eq_dec (map fid tbl))).
  { intros y cs H. apply nodup_In. exact (index_keys tbl y cs H). }
  assert (H0 : unseen (nodup Pos.eq_dec (map fid tbl)) PLeaf < fuel) by (rewrite unseen_empty; exact Hf).
  destruct (fold_dfs_complete (index tbl) _ Hk fuel roots PLeaf H0) as [[_ C] M]. fold s in C, M.
  split; [exact M|].
  unfold closed. apply forallb_forall. intros r Hr. destruct (pmem (fid r) s) eqn:Er; [|reflexivity].
  apply forallb_forall. intros z Hz. destruct (index_has tbl r Hr) as [cs [Hcs Hi]].
  exact (C (fid r) Er (pmem_leaf _) cs Hcs z (Hi z Hz)).
Qed.

(* the fuel chosen by the model, S (length tbl), is enough *)
Theorem reach_complete : forall tbl roots,
  (forall x, In x roots -> pmem x (reach tbl roots) = true) /\ closed tbl (reach tbl roots) = true.
Proof.
  intros tbl roots. unfold reach. apply search_complete_fuel. pose proof (distinct_ids_le tbl). lia.
Qed.

Theorem closure_atoms_defined : forall tbl roots,
  closure_atoms tbl roots = Some (atoms_in tbl (reach tbl roots)).
Proof.
  intros tbl roots. unfold closure_atoms. destruct (reach_complete tbl roots) as [M C].
  rewrite C, andb_true_r. replace (forallb _ roots) with true; [reflexivity|].
  symmetry. apply forallb_forall. exact M.
Qed.

(* TARGET of props/C14.v *)
Theorem closure_atoms_complete : forall tbl roots, closure_atoms tbl roots <> None.
Proof. intros tbl roots. rewrite closure_atoms_defined. discriminate. Qed.

(* consequence for the decision procedures: a negative answer always names a bad atom of the closure *)
Theorem roots_ok_complete : forall bad tbl roots, roots_ok bad tbl roots = false ->
  exists a, In a (atoms_in tbl (reach tbl roots)) /\ bad a = true.
Proof.
  intros bad tbl roots H. unfold roots_ok in H. rewrite closure_atoms_defined in H.
  destruct (existsb bad (atoms_in tbl (reach tbl roots))) eqn:E.
  - apply existsb_exists in E. exact E.
  - exfalso. rewrite <- H in *. clear H. revert E.
    induction (atoms_in tbl (reach tbl roots)) as [|a l IH]; cbn [existsb forallb]; [discriminate|].
    destruct (bad a); cbn [negb orb andb]; [discriminate | exact IH].
Qed.

Theorem ops_ok_complete : forall bad tbl roots, ops_ok bad tbl roots = false ->
  exists x a, In x roots /\ In a (atoms_in tbl (reach tbl [x])) /\ bad a = true.
Proof.
  intros bad tbl roots H. unfold ops_ok in H.
  induction roots as [|x roots IH]; cbn [forallb] in H; [discriminate|].
  destruct (roots_ok bad tbl [x]) eqn:E.
  - cbn [andb] in H. destruct (IH H) as [x' [a [H1 H2]]]. exists x', a. split; [right; exact H1 | exact H2].
  - destruct (roots_ok_complete bad tbl [x] E) as [a Ha]. exists x, a. split; [left; reflexivity | exact Ha].
Qed.

Print Assumptions closure_atoms_complete.
Print Assumptions search_complete_fuel.
