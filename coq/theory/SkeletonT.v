(* SkeletonT.v — the canonical skeleton, interpreted, IS the protocol machine of Protocol.v, for every injector,
   every number of epochs and batches; hence any source whose extracted skeleton is the canonical one runs as [fit]. *)
From Coq Require Import List ZArith Bool Arith Lia.
From QModel Require Import Protocol Skeleton.
Import ListNotations.

Lemma items_eqb_eq a b : items_eqb a b = true -> a = b.
Proof.
  revert b; induction a as [|x a IH]; intros [|y b] H; cbn in H; try discriminate; [reflexivity|].
  apply andb_prop in H as [H1 H2]. f_equal; [|apply IH; exact H2].
  destruct x as [k| | | |], y as [k'| | | |]; cbn in H1; try discriminate; try reflexivity.
  destruct k, k'; cbn in H1; try discriminate; reflexivity.
Qed.

Lemma skel_eqb_eq a b : skel_eqb a b = true -> a = b.
Proof.
  destruct a as [a1 a2 a3 a4 a5], b as [b1 b2 b3 b4 b5]; unfold skel_eqb; cbn [sk_pre sk_epoch_pre sk_batch sk_epoch_post sk_post]; intros H.
  repeat match goal with H : _ && _ = true |- _ => apply andb_prop in H as [? ?] end.
  f_equal; apply items_eqb_eq; assumption.
Qed.

Lemma run_batches_canonical inj sched e n : forall b s,
  run_batches inj sched e b n (sk_batch canonical) s = (batches inj e b n s, XNormal).
Proof.
  induction n as [|n IH]; intros b s; [reflexivity|].
  cbn [run_batches batches sk_batch canonical run_items mk_event].
  destruct (stop (emit inj (emit inj (emit inj s (BatchStart e b)) (OptStep e b)) (BatchEnd e b))) eqn:E.
  - reflexivity.
  - apply IH.
Qed.

Lemma run_epochs_canonical inj sched nb k : forall e s,
  run_epochs inj sched nb canonical e k s = (epochs_loop inj sched nb e k s, XNormal).
Proof.
  induction k as [|k IH]; intros e s; [reflexivity|].
  cbn [run_epochs epochs_loop sk_epoch_pre canonical run_items mk_event].
  rewrite run_batches_canonical.
  cbn [sk_epoch_post canonical run_items mk_event].
  unfold epoch_body.
  set (s3 := if sched then emit inj (batches inj e 0 nb (emit inj s (EpochStart e))) (SchedStep e)
             else batches inj e 0 nb (emit inj s (EpochStart e))).
  destruct (stop (emit inj s3 (EpochEnd e))) eqn:E.
  - reflexivity.
  - apply IH.
Qed.

Theorem run_canonical_is_fit inj sched start epochs nb stop0 ver0 :
  run_skel canonical inj sched start epochs nb stop0 ver0 = fit inj sched start epochs nb stop0 ver0.
Proof.
  unfold run_skel, fit. cbn [sk_pre canonical run_items]. cbn [stop].
  destruct stop0; [reflexivity|].
  cbn [mk_event]. rewrite run_epochs_canonical. reflexivity.
Qed.

Theorem run_skel_of_eqb sk : skel_eqb sk canonical = true ->
  forall inj sched start epochs nb stop0 ver0,
  run_skel sk inj sched start epochs nb stop0 ver0 = fit inj sched start epochs nb stop0 ver0.
Proof. intros H; apply skel_eqb_eq in H; subst sk; intros; apply run_canonical_is_fit. Qed.

(* the bounded comparison finds nothing on the canonical skeleton (sanity of the test oracle) *)
Example canonical_agrees_bounded : first_difference canonical 2 = None.
Proof. vm_compute. reflexivity. Qed.
