(* BatchingT.v — proofs about model/Batching.v (C07).
   Part 1: ceil-division and the chunks library (the core).
   Part 2: gather / mask_select.
   Part 3: _shuffle_data: partition, pairing, sizes, negative rows.
   Part 4: the fit-level pipeline (fit_epoch) reduced to part 3.
   Purely discrete: everything here is closed under the global context. *)
From Coq Require Import List Arith Bool Lia Permutation.
From QModel Require Import Batching.
Import ListNotations.


(* ------------------------------------------------------------------ 1. cdiv *)

Lemma cdiv_0 : forall b, cdiv 0 b = 0.
Proof.
  intros b. unfold cdiv. destruct b as [|b]; [reflexivity|].
  apply Nat.div_small. lia.
Qed.

Lemma cdiv_step : forall n b, 1 <= b -> 1 <= n -> cdiv n b = S (cdiv (n - b) b).
Proof.
  intros n b Hb Hn. unfold cdiv.
  destruct (le_lt_dec b n) as [H|H].
  - replace (n + (b - 1)) with ((n - b) + (b - 1) + 1 * b) by lia.
    rewrite Nat.div_add by lia. lia.
  - replace (n - b) with 0 by lia.
    replace (n + (b - 1)) with ((n - 1) + 1 * b) by lia.
    rewrite Nat.div_add by lia.
    rewrite (Nat.div_small (n - 1) b) by lia.
    rewrite (Nat.div_small (0 + (b - 1)) b) by lia. lia.
Qed.

Lemma cdiv_mul : forall k b, 1 <= b -> cdiv (k * b) b = k.
Proof.
  intros k b Hb. unfold cdiv. rewrite Nat.div_add_l by lia.
  rewrite Nat.div_small by lia. lia.
Qed.

(* ceil(n/b) is the least k with n <= k*b *)
Lemma cdiv_spec : forall n b, 1 <= b -> n <= cdiv n b * b /\ (1 <= n -> (cdiv n b - 1) * b < n).
Proof.
  intros n b Hb. unfold cdiv.
  pose proof (Nat.div_mod (n + (b - 1)) b ltac:(lia)) as E.
  pose proof (Nat.mod_upper_bound (n + (b - 1)) b ltac:(lia)) as U.
  set (q := (n + (b - 1)) / b) in *. set (r := (n + (b - 1)) mod b) in *.
  split.
  - nia.
  - intros Hn. destruct q as [|q]; [nia|]. simpl. replace (q - 0) with q by lia. nia.
Qed.

Lemma cdiv_pos : forall n b, 1 <= b -> 1 <= n -> 1 <= cdiv n b.
Proof. intros n b Hb Hn. rewrite (cdiv_step _ _ Hb Hn). lia. Qed.

Lemma cdiv_le_1 : forall n b, 1 <= n -> n <= b -> cdiv n b = 1.
Proof.
  intros n b Hn Hb. rewrite cdiv_step by lia. replace (n - b) with 0 by lia. now rewrite cdiv_0.
Qed.

(* ------------------------------------------------------------------ 1. chunks *)

Section Chunks.
  Context {A : Type}.
  Implicit Types l : list A.

  Lemma skipn_add : forall a b l, skipn (a + b) l = skipn b (skipn a l).
  Proof.
    induction a as [|a IH]; intros b l; simpl; [reflexivity|].
    destruct l; [now rewrite skipn_nil|]. apply IH.
  Qed.

  Lemma slices_0 : forall b l, slices 0 b l = [].
  Proof. intros. unfold slices, range_starts. now rewrite cdiv_0. Qed.

  (* the comprehension over range(0, n, b) unfolds one chunk at a time *)
  Lemma slices_step : forall n b l, 1 <= b -> 1 <= n ->
    slices n b l = firstn b l :: slices (n - b) b (skipn b l).
  Proof.
    intros n b l Hb Hn. unfold slices, range_starts.
    rewrite (cdiv_step _ _ Hb Hn). simpl seq. rewrite <- seq_shift. simpl map.
    f_equal.
    - unfold slice. simpl. now replace (b - 0) with b by lia.
    - rewrite !map_map. apply map_ext. intros k. unfold slice.
      replace (S k * b + b - S k * b) with b by lia.
      replace (k * b + b - k * b) with b by lia.
      replace (S k * b) with (b + k * b) by lia. now rewrite skipn_add.
  Qed.

  Lemma chunks_nil : forall b, chunks b (@nil A) = [].
  Proof. intros. unfold chunks. apply slices_0. Qed.

  Lemma chunks_cons : forall b l, 1 <= b -> l <> [] ->
    chunks b l = firstn b l :: chunks b (skipn b l).
  Proof.
    intros b l Hb Hl. unfold chunks. rewrite slices_step; trivial.
    - now rewrite skipn_length.
    - destruct l; [congruence|simpl; lia].
  Qed.

  (* induction principle following the chunking *)
  Lemma chunks_ind : forall b, 1 <= b -> forall (P : list A -> Prop),
    P [] -> (forall l, l <> [] -> P (skipn b l) -> P l) -> forall l, P l.
  Proof.
    intros b Hb P H0 Hs l.
    remember (length l) as n eqn:E. revert l E.
    induction n as [n IH] using lt_wf_ind. intros l E.
    destruct l as [|x l]; [exact H0|].
    apply Hs; [congruence|].
    apply (IH (length (skipn b (x :: l)))); [|reflexivity].
    rewrite skipn_length. subst n. change (length (x :: l)) with (S (length l)). lia.
  Qed.

  Theorem concat_chunks : forall b l, 1 <= b -> concat (chunks b l) = l.
  Proof.
    intros b l Hb. induction l as [|l Hl IH] using (chunks_ind b Hb).
    - now rewrite chunks_nil.
    - rewrite chunks_cons by trivial. simpl. rewrite IH. apply firstn_skipn.
  Qed.

  Theorem length_chunks : forall b l, 1 <= b -> length (chunks b l) = cdiv (length l) b.
  Proof. intros. unfold chunks, slices, range_starts. now rewrite !map_length, seq_length. Qed.

  (* chunk number i has min(b, N - i*b) rows (0 beyond the last chunk) *)
  Theorem chunk_length : forall b l i, 1 <= b ->
    length (nth i (chunks b l) []) = Nat.min b (length l - i * b).
  Proof.
    intros b l i Hb. revert i. induction l as [|l Hl IH] using (chunks_ind b Hb); intros i.
    - rewrite chunks_nil. destruct i; simpl; lia.
    - rewrite chunks_cons by trivial. destruct i as [|i]; simpl nth.
      + rewrite firstn_length. lia.
      + rewrite IH, skipn_length. simpl. f_equal. lia.
  Qed.

  Corollary chunk_length_full : forall b l i, 1 <= b -> S i < cdiv (length l) b ->
    length (nth i (chunks b l) []) = b.
  Proof.
    intros b l i Hb Hi. rewrite chunk_length by trivial.
    destruct (cdiv_spec (length l) b Hb) as [_ H].
    assert (1 <= length l) by (destruct l; [rewrite cdiv_0 in Hi; lia|simpl; lia]).
    specialize (H H0). nia.
  Qed.

  Corollary chunk_length_last : forall b l, 1 <= b -> l <> [] ->
    let k := cdiv (length l) b in
    length (nth (k - 1) (chunks b l) []) = length l - b * (k - 1) /\
    1 <= length l - b * (k - 1) <= b.
  Proof.
    intros b l Hb Hl k. subst k. rewrite chunk_length by trivial.
    assert (1 <= length l) by (destruct l; [congruence|simpl; lia]).
    destruct (cdiv_spec (length l) b Hb) as [H1 H2]. specialize (H2 H).
    pose proof (cdiv_pos _ _ Hb H). nia.
  Qed.

  Theorem chunks_all_lengths : forall b l c, 1 <= b -> In c (chunks b l) -> 1 <= length c <= b.
  Proof.
    intros b l c Hb Hc. apply (In_nth _ _ []) in Hc. destruct Hc as [i [Hi <-]].
    rewrite length_chunks in Hi by trivial. rewrite chunk_length by trivial.
    destruct (cdiv_spec (length l) b Hb) as [_ H].
    assert (1 <= length l) by (destruct l; [rewrite cdiv_0 in Hi; lia|simpl; lia]).
    specialize (H H0). nia.
  Qed.

  Theorem In_chunks : forall b l c x, 1 <= b -> In c (chunks b l) -> In x c -> In x l.
  Proof.
    intros b l c x Hb Hc Hx. rewrite <- (concat_chunks b l Hb). apply in_concat. eauto.
  Qed.

  (* a list of exactly k*b rows is cut into k chunks of exactly b rows *)
  Theorem chunks_exact : forall b k l, 1 <= b -> length l = k * b ->
    length (chunks b l) = k /\ Forall (fun c => length c = b) (chunks b l).
  Proof.
    intros b k l Hb Hl. split.
    - rewrite length_chunks, Hl by trivial. now apply cdiv_mul.
    - apply Forall_forall. intros c Hc. apply (In_nth _ _ []) in Hc. destruct Hc as [i [Hi <-]].
      rewrite length_chunks, Hl, cdiv_mul in Hi by trivial.
      rewrite chunk_length, Hl by trivial. nia.
  Qed.
End Chunks.

Lemma slices_map : forall {A B} (f : A -> B) n b (l : list A),
  slices n b (map f l) = map (map f) (slices n b l).
Proof.
  intros. unfold slices. rewrite map_map. apply map_ext. intros s. unfold slice.
  now rewrite skipn_map, firstn_map.
Qed.

Lemma chunks_map : forall {A B} (f : A -> B) b (l : list A),
  chunks b (map f l) = map (map f) (chunks b l).
Proof. intros. unfold chunks. rewrite map_length. apply slices_map. Qed.

(* ------------------------------------------------------------------ 2. gather, mask_select *)

Section Gather.
  Context {A : Type}.
  Implicit Types l : list A.

  Lemma gather_spec : forall l idxs r,
    gather l idxs = Some r <-> map Some r = map (nth_error l) idxs.
  Proof.
    intros l idxs. induction idxs as [|i idxs IH]; intros r; simpl.
    - split; [intros [= <-]; reflexivity|]. destruct r; [reflexivity|discriminate].
    - destruct (nth_error l i) as [x|] eqn:E.
      + destruct (gather l idxs) as [xs|] eqn:G.
        * split.
          -- intros [= <-]. simpl. f_equal. now apply IH.
          -- destruct r as [|y r]; [discriminate|]. simpl. intros [= -> H].
             apply IH in H. congruence.
        * split; [discriminate|]. destruct r as [|y r]; [discriminate|]. simpl. intros [= -> H].
          apply IH in H. discriminate.
      + split; [discriminate|]. destruct r; discriminate.
  Qed.

  Lemma gather_length : forall l idxs r, gather l idxs = Some r -> length r = length idxs.
  Proof.
    intros l idxs r H. apply gather_spec in H.
    apply (f_equal (@length _)) in H. now rewrite !map_length in H.
  Qed.

  Lemma gather_total : forall l idxs, Forall (fun i => i < length l) idxs ->
    exists r, gather l idxs = Some r.
  Proof.
    intros l idxs H. induction H as [|i idxs Hi _ [r IH]]; simpl; [eauto|].
    destruct (nth_error l i) eqn:E; [|apply nth_error_None in E; lia].
    rewrite IH. eauto.
  Qed.

  Lemma gather_In : forall l idxs r x, gather l idxs = Some r -> In x r -> In x l.
  Proof.
    intros l idxs r x H Hx. apply gather_spec in H.
    apply (in_map Some) in Hx. rewrite H in Hx. apply in_map_iff in Hx.
    destruct Hx as [i [Hi _]]. eapply nth_error_In; eauto.
  Qed.

  Lemma map_nth_error_seq : forall l, map (nth_error l) (seq 0 (length l)) = map Some l.
  Proof.
    intros l. induction l as [|x l IH]; [reflexivity|].
    simpl length. simpl seq. rewrite <- seq_shift. simpl map. rewrite map_map. simpl. f_equal. rewrite <- IH. now apply map_ext.
  Qed.

  Lemma map_Some_inj : forall (r r' : list A), map Some r = map Some r' -> r = r'.
  Proof.
    induction r as [|x r IH]; destruct r'; simpl; try discriminate; trivial.
    intros [= -> H]. f_equal. now apply IH.
  Qed.

  (* indexing with a permutation of 0..N-1 yields every row exactly once *)
  Theorem gather_Permutation : forall l idxs r,
    Permutation idxs (seq 0 (length l)) -> gather l idxs = Some r -> Permutation r l.
  Proof.
    intros l idxs r HP H. apply gather_spec in H.
    assert (P2 : Permutation (map Some r) (map Some l)).
    { rewrite H, <- map_nth_error_seq. now apply Permutation_map. }
    apply Permutation_map_inv in P2. destruct P2 as [l3 [E P3]].
    apply map_Some_inj in E. subst l3. now apply Permutation_sym.
  Qed.

  Lemma Permutation_seq_bound : forall idxs n, Permutation idxs (seq 0 n) ->
    Forall (fun i => i < n) idxs.
  Proof.
    intros idxs n HP. apply Forall_forall. intros i Hi.
    apply (Permutation_in _ HP) in Hi. apply in_seq in Hi. lia.
  Qed.

  (* boolean-mask selection = filter, in order; defined exactly when the shapes agree *)
  Lemma mask_select_spec : forall l m,
    mask_select l m =
    if Nat.eqb (length l) (length m) then Some (map fst (filter snd (combine l m))) else None.
  Proof.
    induction l as [|x l IH]; destruct m as [|b m]; simpl; trivial.
    rewrite IH. destruct (Nat.eqb (length l) (length m)); [|reflexivity].
    destruct b; reflexivity.
  Qed.
End Gather.

Lemma nth_error_combine : forall {A B} (l : list A) (l' : list B) i,
  nth_error (combine l l') i =
  match nth_error l i, nth_error l' i with Some x, Some y => Some (x, y) | _, _ => None end.
Proof.
  induction l as [|x l IH]; intros l' i.
  - destruct i; reflexivity.
  - destruct l' as [|y l'].
    + destruct i; simpl; [reflexivity|]. destruct (nth_error l i); reflexivity.
    + destruct i; simpl; [reflexivity|]. apply IH.
Qed.

(* gathering two arrays with the same index tensor = gathering the array of pairs *)
Lemma gather_combine : forall {A B} (l : list A) (l' : list B) idxs r r',
  gather l idxs = Some r -> gather l' idxs = Some r' ->
  gather (combine l l') idxs = Some (combine r r').
Proof.
  intros A B l l' idxs. induction idxs as [|i idxs IH]; intros r r'; simpl.
  - intros [= <-] [= <-]. reflexivity.
  - rewrite nth_error_combine.
    destruct (nth_error l i); [|discriminate]. destruct (gather l idxs); [|discriminate].
    destruct (nth_error l' i); [|discriminate]. destruct (gather l' idxs); [|discriminate].
    intros [= <-] [= <-]. now rewrite (IH _ _ eq_refl eq_refl).
Qed.

Lemma map_fst_combine : forall {A B} (l : list A) (l' : list B), length l = length l' ->
  map fst (combine l l') = l.
Proof.
  induction l as [|x l IH]; destruct l'; simpl; try discriminate; trivial.
  intros [= H]. now rewrite IH.
Qed.

Lemma map_snd_combine : forall {A B} (l : list A) (l' : list B), length l = length l' ->
  map snd (combine l l') = l'.
Proof.
  induction l as [|x l IH]; destruct l'; simpl; try discriminate; trivial.
  intros [= H]. now rewrite IH.
Qed.

Lemma combine_fst_snd : forall {A B} (l : list (A * B)), combine (map fst l) (map snd l) = l.
Proof. induction l as [|[x y] l IH]; simpl; [reflexivity|now rewrite IH]. Qed.

Lemma combine_split_chunks : forall {A B} (C : list (list (A * B))),
  map (fun p => combine (fst p) (snd p)) (combine (map (map fst) C) (map (map snd) C)) = C.
Proof.
  induction C as [|c C IH]; simpl; [reflexivity|]. now rewrite IH, combine_fst_snd.
Qed.

(* chunking two equally long arrays in parallel = chunking the array of pairs *)
Lemma chunks_combine : forall {A B} b (l : list A) (l' : list B), length l = length l' ->
  chunks b (combine l l') =
  map (fun p => combine (fst p) (snd p)) (combine (chunks b l) (chunks b l')).
Proof.
  intros A B b l l' H.
  rewrite <- (map_fst_combine l l' H) at 2. rewrite <- (map_snd_combine l l' H) at 3.
  rewrite !chunks_map. now rewrite combine_split_chunks.
Qed.

(* ------------------------------------------------------------------ 3. _shuffle_data *)

Lemma In_firstn : forall {A} n (l : list A) x, In x (firstn n l) -> In x l.
Proof. intros A n l x H. rewrite <- (firstn_skipn n l). apply in_or_app. now left. Qed.

Lemma map_fst_combine_le : forall {A B} (l : list A) (l' : list B), length l <= length l' ->
  map fst (combine l l') = l.
Proof.
  induction l as [|x l IH]; destruct l'; simpl; trivial; try lia.
  intros H. rewrite IH by lia. reflexivity.
Qed.

Lemma map_snd_combine_le : forall {A B} (l : list A) (l' : list B), length l <= length l' ->
  map snd (combine l l') = firstn (length l) l'.
Proof.
  induction l as [|x l IH]; destruct l'; simpl; trivial; try lia.
  intros H. rewrite IH by lia. reflexivity.
Qed.

Lemma length_combine_le : forall {A B} (l : list A) (l' : list B), length l <= length l' ->
  length (combine l l') = length l.
Proof. intros. rewrite combine_length. lia. Qed.

(* indexing the numpy array of bases with the permutation is plain gathering *)
Lemma np_take_Some : forall {B} (bs : list B) perm sb, np_take bs perm = Some sb -> gather bs perm = Some sb.
Proof. intros B bs perm sb H. exact H. Qed.

Lemma np_take_gather : forall {B} (bs : list B) perm, np_take bs perm = gather bs perm.
Proof. reflexivity. Qed.

Section ShuffleT.
  Context {A B : Type}.
  Notation batch := (@batch A B).
  Implicit Types (data zdata : list A) (bases : option (list B)) (perm negidx : list nat)
           (batches : list batch).

  (* all positive rows of an epoch, in the order they are consumed *)
  Definition pos_rows batches : list A := concat (map b_pos batches).
  (* (row, basis-row) pairs of one call / of an epoch *)
  Definition batch_pairs (x : batch) : list (A * B) :=
    match b_bases x with Some bb => combine (b_pos x) bb | None => [] end.
  Definition pair_rows batches : list (A * B) := concat (map batch_pairs batches).

  (* the recorded contract of the two random calls (DESIGN 3.5): randperm(N) returns a permutation of
     0..N-1; randint(high, size=k), where the code makes that call, returns k indices < high *)
  Definition rand_ok (pos_bs neg_bs nb : nat) data bases zdata perm negidx : Prop :=
    Permutation perm (seq 0 (length data)) /\
    match randint_request pos_bs neg_bs nb data bases zdata with
    | None => True
    | Some (high, k) => length negidx = k /\ Forall (fun i => i < high) negidx
    end.

  Definition bases_shape_ok data bases : Prop :=
    match bases with Some bs => length bs = length data | None => True end.

  (* ---- zip *)
  Lemma zip2_pos : forall (ps ns : list (list A)), length ps <= length ns ->
    map b_pos (@zip2 A B ps ns) = ps.
  Proof.
    intros. unfold zip2. rewrite map_map. unfold b_pos. simpl.
    change (map (fun x => fst x) (combine ps ns)) with (map fst (combine ps ns)).
    now apply map_fst_combine_le.
  Qed.

  Lemma zip2_neg : forall (ps ns : list (list A)), length ps <= length ns ->
    map b_neg (@zip2 A B ps ns) = firstn (length ps) ns.
  Proof.
    intros. unfold zip2. rewrite map_map. unfold b_neg. simpl.
    change (map (fun x => snd x) (combine ps ns)) with (map snd (combine ps ns)).
    now apply map_snd_combine_le.
  Qed.

  Lemma zip2_bases : forall (ps ns : list (list A)) x, In x (@zip2 A B ps ns) -> b_bases x = None.
  Proof. intros ps ns x H. unfold zip2 in H. apply in_map_iff in H. destruct H as [p [<- _]]. reflexivity. Qed.

  Lemma zip3_pos : forall (ps ns : list (list A)) (bs : list (list B)),
    length ps <= length ns -> length bs = length ps -> map b_pos (zip3 ps ns bs) = ps.
  Proof.
    intros ps ns bs H1 H2. unfold zip3. rewrite map_map. unfold b_pos. simpl.
    rewrite <- (map_map fst fst).
    rewrite map_fst_combine_le by (rewrite length_combine_le; lia).
    now apply map_fst_combine_le.
  Qed.

  Lemma zip3_neg : forall (ps ns : list (list A)) (bs : list (list B)),
    length ps <= length ns -> length bs = length ps -> map b_neg (zip3 ps ns bs) = firstn (length ps) ns.
  Proof.
    intros ps ns bs H1 H2. unfold zip3. rewrite map_map. unfold b_neg. simpl.
    rewrite <- (map_map fst snd).
    rewrite map_fst_combine_le by (rewrite length_combine_le; lia).
    now apply map_snd_combine_le.
  Qed.

  Lemma zip3_bases : forall (ps ns : list (list A)) (bs : list (list B)),
    length ps <= length ns -> length bs = length ps -> map b_bases (zip3 ps ns bs) = map Some bs.
  Proof.
    intros ps ns bs H1 H2. unfold zip3. rewrite map_map. unfold b_bases. simpl.
    rewrite <- (map_map snd Some). f_equal.
    rewrite map_snd_combine_le by (rewrite length_combine_le; lia).
    rewrite length_combine_le by lia. apply firstn_all2. lia.
  Qed.

  (* ---- the shape of the result of _shuffle_data under the contract of the random calls *)
  Definition neg_source (pos_bs neg_bs nb : nat) data bases zdata negidx (spos sneg : list A) : Prop :=
    match bases with
    | None => if Nat.eqb neg_bs pos_bs then sneg = spos
              else gather data negidx = Some sneg /\ length negidx = nb * neg_bs
    | Some _ => gather zdata negidx = Some sneg /\ length negidx = nb * neg_bs
    end.

  Definition bases_source (pos_bs : nat) bases perm batches : Prop :=
    match bases with
    | None => forall x, In x batches -> b_bases x = None
    | Some bs => exists sb, gather bs perm = Some sb /\ map b_bases batches = map Some (chunks pos_bs sb)
    end.

  Lemma shuffle_structure : forall pos_bs neg_bs nb data bases zdata perm negidx batches,
    1 <= pos_bs -> 1 <= neg_bs -> cdiv (length data) pos_bs <= nb ->
    bases_shape_ok data bases ->
    rand_ok pos_bs neg_bs nb data bases zdata perm negidx ->
    shuffle_data pos_bs neg_bs nb data bases zdata perm negidx = Some batches ->
    exists spos sneg,
      gather data perm = Some spos /\ length spos = length data /\
      map b_pos batches = chunks pos_bs spos /\
      map b_neg batches = firstn (length (chunks pos_bs spos)) (chunks neg_bs sneg) /\
      neg_source pos_bs neg_bs nb data bases zdata negidx spos sneg /\
      bases_source pos_bs bases perm batches.
  Proof.
    intros pos_bs neg_bs nb data bases zdata perm negidx batches Hp Hn Hnb Hsh [HP HR] H.
    unfold shuffle_data in H.
    destruct (gather data perm) as [spos|] eqn:Gp; [|discriminate].
    assert (Lp : length spos = length data).
    { rewrite (gather_length _ _ _ Gp), (Permutation_length HP). apply seq_length. }
    assert (Lc : length (chunks pos_bs spos) = cdiv (length data) pos_bs).
    { rewrite length_chunks, Lp by trivial. reflexivity. }
    unfold randint_request in HR. unfold bases_shape_ok in Hsh.
    destruct bases as [bs|].
    - (* with bases *)
      destruct HR as [Hl Hb].
      destruct (gather zdata negidx) as [sneg|] eqn:Gn; [|discriminate].
      destruct (np_take bs perm) as [sb|] eqn:Gb0; [|discriminate].
      pose proof (np_take_Some _ _ _ Gb0) as Gb.
      injection H as <-.
      assert (Ln : length (chunks neg_bs sneg) = nb).
      { apply chunks_exact; trivial. now rewrite (gather_length _ _ _ Gn). }
      assert (Lb : length sb = length data).
      { rewrite (gather_length _ _ _ Gb), (Permutation_length HP). apply seq_length. }
      assert (Ls : length (slices (length data) pos_bs sb) = length (chunks pos_bs spos)).
      { rewrite <- Lb. change (slices (length sb) pos_bs sb) with (chunks pos_bs sb).
        rewrite !length_chunks by trivial. congruence. }
      exists spos, sneg. repeat split; trivial.
      + apply zip3_pos; lia.
      + apply zip3_neg; lia.
      + exists sb. split; trivial. rewrite zip3_bases by lia.
        rewrite <- Lb. reflexivity.
    - (* without bases *)
      destruct (Nat.eqb neg_bs pos_bs) eqn:Eq.
      + apply Nat.eqb_eq in Eq. subst neg_bs. injection H as <-.
        exists spos, spos. unfold neg_source, bases_source. rewrite Nat.eqb_refl.
        repeat split; trivial.
        * apply zip2_pos; lia.
        * apply zip2_neg; lia.
        * apply zip2_bases.
      + destruct HR as [Hl Hb].
        destruct (gather data negidx) as [sneg|] eqn:Gn; [|discriminate].
        injection H as <-.
        assert (Ln : length (chunks neg_bs sneg) = nb).
        { apply chunks_exact; trivial. now rewrite (gather_length _ _ _ Gn). }
        exists spos, sneg. unfold neg_source, bases_source. rewrite Eq.
        repeat split; trivial.
        * apply zip2_pos; lia.
        * apply zip2_neg; lia.
        * apply zip2_bases.
  Qed.

  (* under the contract the indexing never fails *)
  Theorem shuffle_succeeds : forall pos_bs neg_bs nb data bases zdata perm negidx,
    bases_shape_ok data bases ->
    rand_ok pos_bs neg_bs nb data bases zdata perm negidx ->
    exists batches, shuffle_data pos_bs neg_bs nb data bases zdata perm negidx = Some batches.
  Proof.
    intros pos_bs neg_bs nb data bases zdata perm negidx Hsh [HP HR].
    unfold shuffle_data.
    destruct (gather_total data perm (Permutation_seq_bound _ _ HP)) as [spos ->].
    unfold randint_request in HR. unfold bases_shape_ok in Hsh.
    destruct bases as [bs|].
    - destruct HR as [_ Hb]. destruct (gather_total zdata negidx Hb) as [sneg ->].
      rewrite np_take_gather.
      rewrite <- Hsh in HP.
      destruct (gather_total bs perm (Permutation_seq_bound _ _ HP)) as [sb ->]. eauto.
    - destruct (Nat.eqb neg_bs pos_bs); [eauto|].
      destruct HR as [_ Hb]. destruct (gather_total data negidx Hb) as [sneg ->]. eauto.
  Qed.

  (* ---- pairs *)
  Lemma pairs_of_maps : forall batches (ps : list (list A)) (bbs : list (list B)),
    map b_pos batches = ps -> map b_bases batches = map Some bbs ->
    map batch_pairs batches = map (fun p => combine (fst p) (snd p)) (combine ps bbs).
  Proof.
    induction batches as [|x batches IH]; intros ps bbs H1 H2.
    - subst ps. reflexivity.
    - destruct ps as [|p ps]; [discriminate|]. destruct bbs as [|bb bbs]; [discriminate|].
      simpl in H1, H2. injection H1 as E1 H1. injection H2 as E2 H2.
      simpl. rewrite (IH _ _ H1 H2). f_equal. unfold batch_pairs. now rewrite E2, E1.
  Qed.

  Lemma lengths_of_maps : forall batches x b (l : list A) (l' : list B),
    map b_pos batches = chunks b l -> map b_bases batches = map Some (chunks b l') ->
    1 <= b -> length l' = length l -> In x batches ->
    exists bb, b_bases x = Some bb /\ length bb = length (b_pos x).
  Proof.
    intros batches x b l l' H1 H2 Hb Hl Hx.
    apply (In_nth _ _ x) in Hx. destruct Hx as [i [Hi Ex]].
    assert (P1 : nth i (map b_pos batches) [] = b_pos x).
    { rewrite (nth_indep _ [] (b_pos x)) by now rewrite map_length.
      now rewrite map_nth, Ex. }
    assert (P2 : nth i (map b_bases batches) None = b_bases x).
    { rewrite (nth_indep _ None (b_bases x)) by now rewrite map_length.
      now rewrite map_nth, Ex. }
    assert (Li : i < length (chunks b l')).
    { rewrite <- (map_length Some), <- H2, map_length. exact Hi. }
    exists (nth i (chunks b l') []). split.
    - rewrite <- P2, H2. rewrite (nth_indep _ None (Some [])) by now rewrite map_length.
      now rewrite map_nth.
    - rewrite <- P1, H1, !chunk_length, Hl by trivial. reflexivity.
  Qed.

  Section WithRun.
    Variables (pos_bs neg_bs nb : nat) (data : list A) (bases : option (list B)) (zdata : list A)
              (perm negidx : list nat) (batches : list batch).
    Hypothesis Hp : 1 <= pos_bs.
    Hypothesis Hn : 1 <= neg_bs.
    Hypothesis Hnb : cdiv (length data) pos_bs <= nb.
    Hypothesis Hsh : bases_shape_ok data bases.
    Hypothesis Hr : rand_ok pos_bs neg_bs nb data bases zdata perm negidx.
    Hypothesis Hrun : shuffle_data pos_bs neg_bs nb data bases zdata perm negidx = Some batches.

    Let Str := shuffle_structure _ _ _ _ _ _ _ _ _ Hp Hn Hnb Hsh Hr Hrun.

    (* 1. every row exactly once *)
    Theorem pos_batches_partition :
      map Some (pos_rows batches) = map (nth_error data) perm /\ Permutation (pos_rows batches) data.
    Proof.
      pose proof Str as [spos [sneg [Gp [Lp [Ep _]]]]]. unfold pos_rows.
      rewrite Ep, concat_chunks by trivial. split.
      - now apply gather_spec.
      - eapply gather_Permutation; [exact (proj1 Hr)|exact Gp].
    Qed.

    (* 3. sizes and number of batches *)
    Theorem batch_sizes :
      length batches = cdiv (length data) pos_bs /\
      (forall i, length (nth i (map b_pos batches) []) = Nat.min pos_bs (length data - i * pos_bs)) /\
      (forall i, S i < cdiv (length data) pos_bs -> length (nth i (map b_pos batches) []) = pos_bs) /\
      (data <> [] ->
       let k := cdiv (length data) pos_bs in
       length (nth (k - 1) (map b_pos batches) []) = length data - pos_bs * (k - 1) /\
       1 <= length data - pos_bs * (k - 1) <= pos_bs) /\
      (forall x, In x batches -> 1 <= length (b_pos x) <= pos_bs).
    Proof.
      pose proof Str as [spos [sneg [Gp [Lp [Ep _]]]]].
      split; [|split; [|split; [|split]]].
      - rewrite <- (map_length b_pos), Ep, length_chunks, Lp by trivial. reflexivity.
      - intros i. rewrite Ep, chunk_length, Lp by trivial. reflexivity.
      - intros i Hi. rewrite Ep. apply chunk_length_full; trivial. now rewrite Lp.
      - intros Hd. rewrite Ep, <- Lp. apply chunk_length_last; trivial.
        destruct spos; [|congruence]. destruct data; [congruence|discriminate].
      - intros x Hx. apply (chunks_all_lengths pos_bs spos); trivial.
        rewrite <- Ep. now apply in_map.
    Qed.

    (* 2. every row keeps its own basis row *)
    Theorem bases_stay_paired : forall bs, bases = Some bs ->
      map Some (pair_rows batches) = map (nth_error (combine data bs)) perm /\
      Permutation (pair_rows batches) (combine data bs) /\
      (forall x, In x batches -> exists bb, b_bases x = Some bb /\ length bb = length (b_pos x)).
    Proof.
      intros bs Eb. pose proof Str as [spos [sneg [Gp [Lp [Ep [_ [_ Hb]]]]]]].
      unfold bases_source in Hb. rewrite Eb in Hb. destruct Hb as [sb [Gb Ebb]].
      pose proof Hsh as Hs. unfold bases_shape_ok in Hs. rewrite Eb in Hs.
      assert (Lb : length sb = length spos).
      { rewrite (gather_length _ _ _ Gb), (gather_length _ _ _ Gp). reflexivity. }
      assert (E : pair_rows batches = combine spos sb).
      { unfold pair_rows. rewrite (pairs_of_maps _ _ _ Ep Ebb).
        rewrite <- chunks_combine by congruence. now apply concat_chunks. }
      pose proof (gather_combine _ _ _ _ _ Gp Gb) as Gc.
      split; [|split].
      - rewrite E. now apply gather_spec.
      - rewrite E. eapply gather_Permutation; [|exact Gc].
        rewrite combine_length, Hs, Nat.min_id. exact (proj1 Hr).
      - intros x Hx. apply (lengths_of_maps batches x pos_bs spos sb Ep Ebb); trivial.
    Qed.

    (* 4. negative-phase rows *)
    Theorem neg_rows_from_data : forall x, In x batches ->
      (forall r, In r (b_neg x) -> match bases with None => In r data | Some _ => In r zdata end) /\
      match bases with
      | None => if Nat.eqb neg_bs pos_bs then b_neg x = b_pos x else length (b_neg x) = neg_bs
      | Some _ => length (b_neg x) = neg_bs
      end.
    Proof.
      intros x Hx. pose proof Str as [spos [sneg [Gp [Lp [Ep [En [Hs _]]]]]]].
      assert (Hc : In (b_neg x) (chunks neg_bs sneg)).
      { apply (In_firstn (length (chunks pos_bs spos))). rewrite <- En. now apply in_map. }
      unfold neg_source in Hs. destruct bases as [bs|].
      - destruct Hs as [Gn Ln]. split.
        + intros r Hr'. eapply gather_In; [exact Gn|]. eapply In_chunks; eauto.
        + assert (L : length sneg = nb * neg_bs) by now rewrite (gather_length _ _ _ Gn).
          destruct (chunks_exact neg_bs nb sneg Hn L) as [_ F].
          rewrite Forall_forall in F. now apply F.
      - destruct (Nat.eqb neg_bs pos_bs) eqn:Eq.
        + apply Nat.eqb_eq in Eq. subst sneg neg_bs. split.
          * intros r Hr'. eapply gather_In; [exact Gp|]. eapply In_chunks; eauto.
          * rewrite firstn_all in En. rewrite <- Ep in En.
            symmetry. exact (proj1 (@map_ext_in_iff _ _ b_pos b_neg batches) (eq_sym En) x Hx).
        + destruct Hs as [Gn Ln]. split.
          * intros r Hr'. eapply gather_In; [exact Gn|]. eapply In_chunks; eauto.
          * assert (L : length sneg = nb * neg_bs) by now rewrite (gather_length _ _ _ Gn).
            destruct (chunks_exact neg_bs nb sneg Hn L) as [_ F].
            rewrite Forall_forall in F. now apply F.
    Qed.
  End WithRun.
End ShuffleT.

(* ------------------------------------------------------------------ 4. the pipeline of fit *)

Lemma is_Z_row_spec : forall r, is_Z_row r = true <-> Forall (eq 90) r.
Proof.
  intros r. unfold is_Z_row. rewrite forallb_forall, Forall_forall.
  split; intros H x Hx; specialize (H x Hx); [now apply Nat.eqb_eq in H|now apply Nat.eqb_eq].
Qed.

Section FitT.
  Context {A B : Type} (isZ : B -> bool).
  Notation batch := (@batch A B).
  Implicit Types (data : list A) (bases : option (list B)) (perm negidx : list nat)
           (batches : list batch).

  (* the rows whose basis row is entirely "Z", in data order *)
  Definition refbasis_rows data (bs : list B) : list A :=
    map fst (filter (fun p => isZ (snd p)) (combine data bs)).

  Lemma filter_mask : forall data (bs : list B),
    map fst (filter snd (combine data (map isZ bs))) = refbasis_rows data bs.
  Proof.
    unfold refbasis_rows. induction data as [|x data IH]; intros [|b bs]; simpl; trivial.
    destruct (isZ b); simpl; now rewrite IH.
  Qed.

  (* 5. extract_refbasis_samples = filter (all Z), in order; an error iff the shapes differ *)
  Theorem refbasis_exact : forall data (bs : list B),
    extract_refbasis isZ data bs =
    if Nat.eqb (length data) (length bs) then Some (refbasis_rows data bs) else None.
  Proof.
    intros. unfold extract_refbasis. rewrite mask_select_spec, map_length, filter_mask. reflexivity.
  Qed.

  Theorem refbasis_In : forall data (bs : list B) x,
    In x (refbasis_rows data bs) <->
    exists i b, nth_error data i = Some x /\ nth_error bs i = Some b /\ isZ b = true.
  Proof.
    intros data bs x. unfold refbasis_rows. rewrite in_map_iff. split.
    - intros [[y b] [E H]]. simpl in E. subst y. apply filter_In in H. destruct H as [H Hz].
      apply In_nth_error in H. destruct H as [i Hi]. rewrite nth_error_combine in Hi.
      destruct (nth_error data i) as [x'|] eqn:E1; [|discriminate].
      destruct (nth_error bs i) as [b'|] eqn:E2; [|discriminate].
      injection Hi as -> ->. exists i, b. auto.
    - intros [i [b [E1 [E2 Hz]]]]. exists (x, b). split; [reflexivity|].
      apply filter_In. split; [|exact Hz].
      apply (nth_error_In _ i). now rewrite nth_error_combine, E1, E2.
  Qed.

  Lemma default_neg_pos : forall pos_bs o, 1 <= pos_bs -> 1 <= default_neg pos_bs o.
  Proof. intros pos_bs [[|k]|] H; simpl; lia. Qed.

  (* neg_batch_size defaults to pos_batch_size when it is None or 0 *)
  Lemma default_neg_spec : forall pos_bs,
    default_neg pos_bs None = pos_bs /\ default_neg pos_bs (Some 0) = pos_bs /\
    forall k, default_neg pos_bs (Some (S k)) = S k.
  Proof. intros. repeat split. Qed.

  Definition fit_rand_ok (pos_bs : nat) (neg_opt : option nat) data bases perm negidx : Prop :=
    Permutation perm (seq 0 (length data)) /\
    match fit_randint_request isZ pos_bs neg_opt data bases with
    | None => True
    | Some (high, k) => length negidx = k /\ Forall (fun i => i < high) negidx
    end.

  (* z_samples as seen by _shuffle_data *)
  Definition fit_zdata data bases : list A :=
    match bases with Some bs => refbasis_rows data bs | None => [] end.

  Lemma fit_reduce : forall pos_bs neg_opt data bases perm negidx,
    1 <= pos_bs ->
    bases_shape_ok data bases ->
    fit_epoch isZ pos_bs neg_opt data bases perm negidx =
      shuffle_data pos_bs (default_neg pos_bs neg_opt) (cdiv (length data) pos_bs)
                   data bases (fit_zdata data bases) perm negidx /\
    (fit_rand_ok pos_bs neg_opt data bases perm negidx <->
     rand_ok pos_bs (default_neg pos_bs neg_opt) (cdiv (length data) pos_bs)
             data bases (fit_zdata data bases) perm negidx).
  Proof.
    intros pos_bs neg_opt data bases perm negidx Hp Hsh.
    unfold fit_epoch, fit_rand_ok, rand_ok, fit_randint_request, fit_zdata.
    rewrite (proj2 (Nat.eqb_neq pos_bs 0)) by lia.
    destruct bases as [bs|]; [|split; reflexivity].
    unfold bases_shape_ok in Hsh. rewrite refbasis_exact, <- Hsh, Nat.eqb_refl.
    split; reflexivity.
  Qed.

  Section WithFit.
    Variables (pos_bs : nat) (neg_opt : option nat) (data : list A) (bases : option (list B))
              (perm negidx : list nat) (batches : list batch).
    Hypothesis Hp : 1 <= pos_bs.
    Hypothesis Hsh : bases_shape_ok data bases.
    Hypothesis Hr : fit_rand_ok pos_bs neg_opt data bases perm negidx.
    Hypothesis Hrun : fit_epoch isZ pos_bs neg_opt data bases perm negidx = Some batches.

    Let neg_bs := default_neg pos_bs neg_opt.
    Let nb := cdiv (length data) pos_bs.
    Let Hn : 1 <= neg_bs := default_neg_pos pos_bs neg_opt Hp.
    Let Hr' : rand_ok pos_bs neg_bs nb data bases (fit_zdata data bases) perm negidx :=
      proj1 (proj2 (fit_reduce pos_bs neg_opt data bases perm negidx Hp Hsh)) Hr.
    Let Hrun' : shuffle_data pos_bs neg_bs nb data bases (fit_zdata data bases) perm negidx = Some batches :=
      eq_trans (eq_sym (proj1 (fit_reduce pos_bs neg_opt data bases perm negidx Hp Hsh))) Hrun.

    Theorem fit_pos_batches_partition :
      map Some (pos_rows batches) = map (nth_error data) perm /\ Permutation (pos_rows batches) data.
    Proof. exact (pos_batches_partition _ _ _ _ _ _ _ _ _ Hp Hn (le_n _) Hsh Hr' Hrun'). Qed.

    Theorem fit_bases_stay_paired : forall bs, bases = Some bs ->
      map Some (pair_rows batches) = map (nth_error (combine data bs)) perm /\
      Permutation (pair_rows batches) (combine data bs) /\
      (forall x, In x batches -> exists bb, b_bases x = Some bb /\ length bb = length (b_pos x)).
    Proof. exact (bases_stay_paired _ _ _ _ _ _ _ _ _ Hp Hn (le_n _) Hsh Hr' Hrun'). Qed.

    Theorem fit_batch_sizes :
      length batches = cdiv (length data) pos_bs /\
      (forall i, length (nth i (map b_pos batches) []) = Nat.min pos_bs (length data - i * pos_bs)) /\
      (forall i, S i < cdiv (length data) pos_bs -> length (nth i (map b_pos batches) []) = pos_bs) /\
      (data <> [] ->
       let k := cdiv (length data) pos_bs in
       length (nth (k - 1) (map b_pos batches) []) = length data - pos_bs * (k - 1) /\
       1 <= length data - pos_bs * (k - 1) <= pos_bs) /\
      (forall x, In x batches -> 1 <= length (b_pos x) <= pos_bs).
    Proof. exact (batch_sizes _ _ _ _ _ _ _ _ _ Hp Hn (le_n _) Hsh Hr' Hrun'). Qed.

    Theorem fit_neg_rows_from_data : forall x, In x batches ->
      (forall r, In r (b_neg x) ->
         match bases with
         | None => In r data
         | Some bs => exists i b, nth_error data i = Some r /\ nth_error bs i = Some b /\ isZ b = true
         end) /\
      match bases with
      | None => if Nat.eqb (default_neg pos_bs neg_opt) pos_bs then b_neg x = b_pos x
                else length (b_neg x) = default_neg pos_bs neg_opt
      | Some _ => length (b_neg x) = default_neg pos_bs neg_opt
      end.
    Proof.
      intros x Hx.
      destruct (neg_rows_from_data _ _ _ _ _ _ _ _ _ Hp Hn (le_n _) Hsh Hr' Hrun' x Hx) as [H1 H2].
      split; [|exact H2].
      intros r Hr0. specialize (H1 r Hr0). unfold fit_zdata in H1.
      destruct bases as [bs|]; [|exact H1]. now apply refbasis_In.
    Qed.
  End WithFit.

  (* under the contract of the random calls the data pipeline never raises *)
  Theorem fit_succeeds : forall pos_bs neg_opt data bases perm negidx,
    1 <= pos_bs ->
    bases_shape_ok data bases ->
    fit_rand_ok pos_bs neg_opt data bases perm negidx ->
    exists batches, fit_epoch isZ pos_bs neg_opt data bases perm negidx = Some batches.
  Proof.
    intros pos_bs neg_opt data bases perm negidx Hp Hsh Hr.
    destruct (fit_reduce pos_bs neg_opt data bases perm negidx Hp Hsh) as [-> E].
    apply shuffle_succeeds; trivial. now apply E.
  Qed.

  (* pos_batch_size = 0: the real code raises ZeroDivisionError at ceil(N / 0) *)
  Lemma fit_zero_batch_size : forall neg_opt data bases perm negidx,
    fit_epoch isZ 0 neg_opt data bases perm negidx = None.
  Proof. reflexivity. Qed.
End FitT.

(* ------------------------------------------------------------------ non-vacuity *)

(* N = 5 rows (row 10 occurs twice), batch size 2, neg_batch_size defaulted, bases given:
   three all-"Z" rows (Z = 90, X = 88, Y = 89), so randint(3, size = 3 * 2) is called *)
Definition ex_data : list nat := [10; 11; 12; 10; 13].
Definition ex_bases : list (list nat) := [[90; 90]; [88; 90]; [90; 90]; [89; 88]; [90; 90]].
Definition ex_perm : list nat := [3; 0; 4; 1; 2].
Definition ex_negidx : list nat := [2; 0; 1; 1; 0; 2].

Lemma ex_perm_ok : Permutation ex_perm (seq 0 5).
Proof.
  unfold ex_perm. simpl.
  apply (@Permutation_cons_app nat _ [0; 1; 2] [4] 3). simpl. apply perm_skip.
  apply (@Permutation_cons_app nat _ [1; 2] [] 4). simpl. apply Permutation_refl.
Qed.

Lemma ex_hypotheses :
  1 <= 2 /\ bases_shape_ok ex_data (Some ex_bases) /\
  fit_rand_ok is_Z_row 2 None ex_data (Some ex_bases) ex_perm ex_negidx.
Proof.
  split; [lia|]. split; [reflexivity|]. split; [exact ex_perm_ok|].
  vm_compute. split; [reflexivity|]. repeat constructor.
Qed.

Lemma ex_run :
  fit_epoch is_Z_row 2 None ex_data (Some ex_bases) ex_perm ex_negidx =
  Some [ ([10; 10], [13; 10], Some [[89; 88]; [90; 90]]);
         ([13; 11], [12; 12], Some [[90; 90]; [88; 90]]);
         ([12],     [10; 13], Some [[90; 90]]) ].
Proof. reflexivity. Qed.

(* the model really truncates like zip: if randint broke its contract (too few indices),
   positive batches would be dropped — the hypothesis on negidx is not decoration *)
Lemma ex_zip_truncates :
  exists batches, shuffle_data 1 2 3 [10; 11; 12] (@None (list (list nat))) [] [0; 1; 2] [0; 1] = Some batches /\
                  length batches < cdiv 3 1.
Proof. eexists. split; [reflexivity|]. vm_compute. lia. Qed.

(* N = 1 with bases (the input class repaired by /repo dcba4ba): one batch, the row with its own basis *)
Lemma ex_single_row_with_bases :
  fit_epoch is_Z_row 1 None [10] (Some [[90; 90]]) [0] [0] = Some [ ([10], [10], Some [[90; 90]]) ].
Proof. reflexivity. Qed.
