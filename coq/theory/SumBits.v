(* SumBits.v — sums over all bit strings as a recursor, and the bridge to [all_bits]. *)
From Coq Require Import List ZArith Bool Reals Lra Lia FunctionalExtensionality.
From QModel Require Import Num Bits.
From QTheory Require Import RInst.
Import ListNotations.
Open Scope R_scope.

Fixpoint sum_bits (n : nat) (f : bits -> R) : R :=
  match n with
  | O => f []
  | S m => sum_bits m (fun s => f (false :: s)) + sum_bits m (fun s => f (true :: s))
  end.

Lemma sum_bits_ext n f g : (forall s, length s = n -> f s = g s) -> sum_bits n f = sum_bits n g.
Proof.
  revert f g; induction n as [|n IH]; simpl; intros f g H; [apply H; reflexivity|].
  f_equal; apply IH; intros s Hs; apply H; simpl; congruence.
Qed.

Lemma sum_bits_plus n f g : sum_bits n (fun s => f s + g s) = sum_bits n f + sum_bits n g.
Proof. revert f g; induction n as [|n IH]; simpl; intros; [reflexivity | rewrite !IH; lra]. Qed.

Lemma sum_bits_scal n c f : sum_bits n (fun s => c * f s) = c * sum_bits n f.
Proof. revert f; induction n as [|n IH]; simpl; intros; [reflexivity | rewrite !IH; lra]. Qed.

Lemma sum_bits_scal_r n c f : sum_bits n (fun s => f s * c) = sum_bits n f * c.
Proof. revert f; induction n as [|n IH]; simpl; intros; [reflexivity | rewrite !IH; lra]. Qed.

Lemma sum_bits_const0 n : sum_bits n (fun _ => 0) = 0.
Proof. induction n as [|n IH]; simpl; [reflexivity | rewrite IH; lra]. Qed.

Lemma sum_bits_nonneg n f : (forall s, length s = n -> 0 <= f s) -> 0 <= sum_bits n f.
Proof.
  revert f; induction n as [|n IH]; simpl; intros f H; [apply H; reflexivity|].
  assert (0 <= sum_bits n (fun s => f (false :: s))) by (apply IH; intros; apply H; simpl; congruence).
  assert (0 <= sum_bits n (fun s => f (true :: s))) by (apply IH; intros; apply H; simpl; congruence).
  lra.
Qed.

Lemma sum_bits_pos n f : (forall s, length s = n -> 0 < f s) -> 0 < sum_bits n f.
Proof.
  revert f; induction n as [|n IH]; simpl; intros f H; [apply H; reflexivity|].
  assert (0 < sum_bits n (fun s => f (false :: s))) by (apply IH; intros; apply H; simpl; congruence).
  assert (0 < sum_bits n (fun s => f (true :: s))) by (apply IH; intros; apply H; simpl; congruence).
  lra.
Qed.

Lemma sum_bits_swap n m (f : bits -> bits -> R) :
  sum_bits n (fun s => sum_bits m (fun t => f s t)) = sum_bits m (fun t => sum_bits n (fun s => f s t)).
Proof.
  revert f; induction n as [|n IH]; simpl; intros f; [reflexivity|].
  rewrite !IH, <- sum_bits_plus. reflexivity.
Qed.

(* bridge to the list enumeration *)
Lemma all_bits_length n s : In s (all_bits n) -> length s = n.
Proof.
  revert s; induction n as [|n IH]; simpl; intros s H.
  - destruct H as [<-|[]]; reflexivity.
  - apply in_app_or in H; destruct H as [H|H]; apply in_map_iff in H;
    destruct H as [t [<- Ht]]; simpl; f_equal; apply IH; exact Ht.
Qed.

Lemma all_bits_complete n s : length s = n -> In s (all_bits n).
Proof.
  revert s; induction n as [|n IH]; intros s H.
  - destruct s; [left; reflexivity | discriminate].
  - destruct s as [|b s]; [discriminate|]. simpl. apply in_or_app.
    destruct b; [right | left]; apply in_map; apply IH; simpl in H; congruence.
Qed.

Lemma sum_all_bits n f : sum ROps (map f (all_bits n)) = sum_bits n f.
Proof.
  revert f; induction n as [|n IH]; intros f; simpl; [lra|].
  rewrite map_app, sum_app, !map_map, !IH. reflexivity.
Qed.

Lemma all_bits_len n : length (all_bits n) = (2 ^ n)%nat.
Proof.
  induction n as [|n IH]; [reflexivity|].
  cbn [all_bits]. rewrite app_length. rewrite !map_length. rewrite IH. rewrite Nat.pow_succ_r'. lia.
Qed.

(* marginalisation over hidden units:  sum_h exp(h . x) = prod_i (1 + exp x_i) *)
Lemma dotb_nil_l (v : bits) : dotb ROps [] v = 0. Proof. reflexivity. Qed.

Lemma marginal (x : list R) :
  sum_bits (length x) (fun h => exp (dotb ROps x h)) = prod ROps (map (fun xi => 1 + exp xi) x).
Proof.
  induction x as [|a x IH]; [simpl; apply exp_0|].
  cbn [length sum_bits map prod dotb]. rewrite <- IH. cbn [nadd nmul n0 n1 ROps].
  rewrite (sum_bits_ext _ (fun s => exp (0 + dotb ROps x s)) (fun s => exp (dotb ROps x s)))
    by (intros; f_equal; lra).
  rewrite (sum_bits_ext _ (fun s => exp (a + dotb ROps x s)) (fun s => exp a * exp (dotb ROps x s)))
    by (intros; apply exp_plus).
  rewrite sum_bits_scal. lra.
Qed.
