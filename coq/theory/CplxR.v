(* CplxR.v — C15: the complex-tensor kernel (model/Cplx.v) at T := R against Coquelicot's C.
   Contents: generic list lemmas; CBase scalars = Coquelicot operations; the complexification of a
   real-bilinear form (meta-theorem, in a Section); specifications over C (Cdot, CVM/Cmatmul, Couter,
   Cein_abcd/Ckron, Cein_ib_ibg) and the theorems that the parts-wise model computes them; transpose /
   conjugate; the elementwise family on tensors of rank <= 4; make_complex/real/imag round trips;
   rejects; norms; out= buffers (identity guard, the view-aliasing refutation, fresh buffers);
   instance of the meta-theorem for torch.dot. *)
From Coq Require Import List ZArith Bool Reals Lra Lia.
From Coquelicot Require Import Coquelicot.
From QModel Require Import Num CBase Cplx.
From QTheory Require Import RInst.
Import ListNotations.
Open Scope R_scope.

(* ------------------------------------------------------------------ generic list lemmas *)
Lemma zipw_nil_r {A B X} (f : A -> B -> X) xs : zipw f xs [] = [].
Proof. destruct xs; reflexivity. Qed.

Lemma zipw_cons {A B X} (f : A -> B -> X) a xs b ys : zipw f (a :: xs) (b :: ys) = f a b :: zipw f xs ys.
Proof. reflexivity. Qed.

Lemma zipw_length {A B X} (f : A -> B -> X) xs ys : length (zipw f xs ys) = Nat.min (length xs) (length ys).
Proof. unfold zipw. rewrite map_length, combine_length. reflexivity. Qed.

Lemma map_zipw {A B X Y} (h : X -> Y) (f : A -> B -> X) xs ys :
  map h (zipw f xs ys) = zipw (fun a b => h (f a b)) xs ys.
Proof. unfold zipw. rewrite map_map. reflexivity. Qed.

Lemma zipw_ext {A B X} (f g : A -> B -> X) xs ys :
  (forall a b, In a xs -> In b ys -> f a b = g a b) -> zipw f xs ys = zipw g xs ys.
Proof.
  revert ys; induction xs as [|a xs IH]; intros [|b ys] H; try reflexivity.
  rewrite !zipw_cons. f_equal; [apply H; left; reflexivity | apply IH; intros; apply H; right; assumption].
Qed.

(* zipping two maps over the same pair of lists *)
Lemma zipw_zipw_same {A B P Q R' S X Y Z}
      (F : X -> Y -> Z) (G : P -> Q -> X) (H : R' -> S -> Y)
      (p1 : A -> P) (q1 : B -> Q) (p2 : A -> R') (q2 : B -> S) xs ys :
  zipw F (zipw G (map p1 xs) (map q1 ys)) (zipw H (map p2 xs) (map q2 ys))
  = zipw (fun a b => F (G (p1 a) (q1 b)) (H (p2 a) (q2 b))) xs ys.
Proof.
  revert ys; induction xs as [|a xs IH]; intros [|b ys]; try reflexivity.
  cbn [map]. rewrite !zipw_cons. f_equal. apply IH.
Qed.

Lemma zipw_map_same {A X Y Z} (F : X -> Y -> Z) (p : A -> X) (q : A -> Y) l :
  zipw F (map p l) (map q l) = map (fun a => F (p a) (q a)) l.
Proof. induction l as [|a l IH]; [reflexivity|]. cbn [map]. rewrite zipw_cons, IH. reflexivity. Qed.

Lemma zipw_interchange {A B C D X Y Z U V}
      (f : X -> Y -> Z) (g : A -> B -> X) (h : C -> D -> Y)
      (g' : U -> V -> Z) (f1 : A -> C -> U) (f2 : B -> D -> V) As Bs Cs Ds :
  (forall a b c d, In a As -> In b Bs -> In c Cs -> In d Ds -> f (g a b) (h c d) = g' (f1 a c) (f2 b d)) ->
  zipw f (zipw g As Bs) (zipw h Cs Ds) = zipw g' (zipw f1 As Cs) (zipw f2 Bs Ds).
Proof.
  revert Bs Cs Ds; induction As as [|a As IH]; intros [|b Bs] [|c Cs] [|d Ds] H;
    try (unfold zipw; cbn; reflexivity).
  rewrite !zipw_cons. f_equal.
  - apply H; left; reflexivity.
  - apply IH. intros; apply H; right; assumption.
Qed.

Lemma zipw_concat_map {A X Y Z} (h : X -> Y -> Z) (F : A -> list X) (G : A -> list Y) l :
  (forall a, In a l -> length (F a) = length (G a)) ->
  zipw h (concat (map F l)) (concat (map G l)) = concat (map (fun a => zipw h (F a) (G a)) l).
Proof.
  induction l as [|a l IH]; intros Hl; [reflexivity|].
  cbn [map concat]. rewrite <- IH by (intros; apply Hl; right; assumption).
  assert (Ha := Hl a (or_introl eq_refl)). clear Hl IH.
  generalize dependent (G a). induction (F a) as [|x fa IHf]; intros [|y ga] Hlen; try discriminate; [reflexivity|].
  cbn [app]. rewrite !zipw_cons. cbn [app]. f_equal. apply IHf. simpl in Hlen; lia.
Qed.

Lemma combine_fst_snd {A B} (l : list (A * B)) : combine (map fst l) (map snd l) = l.
Proof. induction l as [|[a b] l IH]; [reflexivity|]. cbn. rewrite IH. reflexivity. Qed.

Lemma nth_concat_uniform {A X} (F : A -> list X) (p : nat) l i k d da :
  (forall a, In a l -> length (F a) = p) -> (i < length l)%nat -> (k < p)%nat ->
  nth (i * p + k) (concat (map F l)) d = nth k (F (nth i l da)) d.
Proof.
  revert i; induction l as [|a l IH]; intros i Hl Hi Hk; [simpl in Hi; lia|].
  cbn [map concat]. destruct i as [|i].
  - cbn [Nat.mul Nat.add nth]. rewrite app_nth1; [reflexivity|]. rewrite (Hl a (or_introl eq_refl)); assumption.
  - rewrite app_nth2; rewrite (Hl a (or_introl eq_refl)); [|lia].
    replace (S i * p + k - p)%nat with (i * p + k)%nat by lia.
    cbn [nth]. apply IH; [intros; apply Hl; right; assumption | simpl in Hi; lia | assumption].
Qed.

(* ------------------------------------------------------------------ scalars: CBase at R is Coquelicot's C *)
Lemma cmul_is_Cmult (a b : C) : cmul ROps a b = Cmult a b.
Proof. reflexivity. Qed.
Lemma cadd_is_Cplus (a b : C) : cadd ROps a b = Cplus a b.
Proof. reflexivity. Qed.
Lemma csub_is_Cminus (a b : C) : csub ROps a b = Cminus a b.
Proof. reflexivity. Qed.
Lemma cconj_is_Cconj (a : C) : cconj ROps a = Cconj a.
Proof. reflexivity. Qed.
Lemma cabs_is_Cmod (a : C) : cabs ROps a = Cmod a.
Proof. unfold cabs, cnorm2, Cmod; cbn [nsqrt nadd nmul ROps]. f_equal; ring. Qed.
Lemma cinv_is_Cinv (a : C) : cinv ROps a = Cinv a.
Proof.
  unfold cinv, cnorm2, Cinv; cbn [ndiv nadd nmul nopp ROps].
  replace (fst a ^ 2 + snd a ^ 2) with (fst a * fst a + snd a * snd a) by ring. reflexivity.
Qed.
Lemma cdiv_is_Cdiv (a b : C) : cdiv ROps a b = Cdiv a b.
Proof. unfold cdiv, Cdiv. rewrite cinv_is_Cinv. reflexivity. Qed.
Lemma cinv_inverts (a : C) : a <> RtoC 0 -> Cmult a (cinv ROps a) = RtoC 1.
Proof. intros H. rewrite cinv_is_Cinv. apply Cinv_r, H. Qed.

Lemma inner_prod_s_is (x y : C) : inner_prod_s ROps x y = Cmult (Cconj x) y.
Proof. unfold inner_prod_s, Cmult, Cconj; cbn [nadd nsub nmul ROps fst snd]. apply (f_equal2 pair); ring. Qed.

Lemma cnorm2_nonneg (b : C) : 0 <= fst b * fst b + snd b * snd b.
Proof. nra. Qed.

Lemma cediv_is_Cdiv (a b : C) : cediv ROps a b = Cdiv a b.
Proof.
  unfold cediv, sqr, cabs, cnorm2, Cdiv, Cinv, Cmult, cmul, cconj; cbn [nsqrt nadd nsub nmul ndiv nopp ROps fst snd].
  rewrite sqrt_sqrt by apply cnorm2_nonneg.
  replace (fst b ^ 2 + snd b ^ 2) with (fst b * fst b + snd b * snd b) by ring.
  unfold Rdiv. apply (f_equal2 pair); ring.
Qed.
Lemma cediv_divides (a b : C) : b <> RtoC 0 -> Cmult (cediv ROps a b) b = a.
Proof. intros H. rewrite cediv_is_Cdiv. unfold Cdiv. rewrite <- Cmult_assoc, Cinv_l by exact H. apply Cmult_1_r. Qed.

(* e^(x+iy) := exp x (cos y + i sin y) *)
Definition Cexp (z : C) : C := (exp (fst z) * cos (snd z), exp (fst z) * sin (snd z)).
Lemma csigmoid_is (x y : R) : csigmoid ROps x y = Cdiv (Cexp (x, y)) (Cplus (RtoC 1) (Cexp (x, y))).
Proof. unfold csigmoid. rewrite cdiv_is_Cdiv. reflexivity. Qed.
(* on the real axis it is the real logistic function *)
Lemma csigmoid_real (x : R) : csigmoid ROps x 0 = RtoC (exp x / (1 + exp x)).
Proof.
  rewrite csigmoid_is. unfold Cexp, Cdiv, Cinv, Cmult, Cplus, RtoC; cbn [fst snd].
  rewrite cos_0, sin_0. pose proof (exp_pos x). apply (f_equal2 pair); field; nra.
Qed.

(* ------------------------------------------------------------------ the complexification of a real-bilinear form *)
Section ComplexifiedBilinear.
  Variables V W : Type.
  Variables (addV subV : V -> V -> V) (sclV : R -> V -> V) (okV : V -> Prop).
  Variables (addW subW : W -> W -> W) (sclW : R -> W -> W) (okW : W -> Prop).
  Hypothesis okV_scl : forall c u, okV u -> okV (sclV c u).
  Hypothesis okW_scl : forall c w, okW w -> okW (sclW c w).
  Variable b : V -> W -> R.
  Hypothesis b_add_l : forall u u' w, okV u -> okV u' -> okW w -> b (addV u u') w = b u w + b u' w.
  Hypothesis b_sub_l : forall u u' w, okV u -> okV u' -> okW w -> b (subV u u') w = b u w - b u' w.
  Hypothesis b_scl_l : forall c u w, okV u -> okW w -> b (sclV c u) w = c * b u w.
  Hypothesis b_add_r : forall u w w', okV u -> okW w -> okW w' -> b u (addW w w') = b u w + b u w'.
  Hypothesis b_sub_r : forall u w w', okV u -> okW w -> okW w' -> b u (subW w w') = b u w - b u w'.
  Hypothesis b_scl_r : forall c u w, okV u -> okW w -> b u (sclW c w) = c * b u w.

  (* the model's combinator at a scalar-valued map: the value the library computes *)
  Definition bC (a : V * V) (c : W * W) : C := complexify Rminus Rplus b (fst a) (snd a) (fst c) (snd c).
  Definition okVC (a : V * V) := okV (fst a) /\ okV (snd a).
  Definition okWC (c : W * W) := okW (fst c) /\ okW (snd c).
  (* complex structure on pairs *)
  Definition addVC (a a' : V * V) := (addV (fst a) (fst a'), addV (snd a) (snd a')).
  Definition addWC (c c' : W * W) := (addW (fst c) (fst c'), addW (snd c) (snd c')).
  Definition sclVC (z : C) (a : V * V) :=
    (subV (sclV (fst z) (fst a)) (sclV (snd z) (snd a)), addV (sclV (fst z) (snd a)) (sclV (snd z) (fst a))).
  Definition sclWC (z : C) (c : W * W) :=
    (subW (sclW (fst z) (fst c)) (sclW (snd z) (snd c)), addW (sclW (fst z) (snd c)) (sclW (snd z) (fst c))).
  Definition realV (u : V) : V * V := (u, sclV 0 u).
  Definition realW (w : W) : W * W := (w, sclW 0 w).

  Lemma bC_extends u w : okV u -> okW w -> bC (realV u) (realW w) = RtoC (b u w).
  Proof.
    intros Hu Hw. unfold bC, complexify, realV, realW, RtoC; cbn [fst snd].
    rewrite !b_scl_l, !b_scl_r by auto. apply (f_equal2 pair); ring.
  Qed.
  Lemma bC_add_l a a' c : okVC a -> okVC a' -> okWC c -> bC (addVC a a') c = Cplus (bC a c) (bC a' c).
  Proof.
    intros [? ?] [? ?] [? ?]. unfold bC, complexify, addVC, Cplus; cbn [fst snd].
    rewrite !b_add_l by auto. apply (f_equal2 pair); ring.
  Qed.
  Lemma bC_add_r a c c' : okVC a -> okWC c -> okWC c' -> bC a (addWC c c') = Cplus (bC a c) (bC a c').
  Proof.
    intros [? ?] [? ?] [? ?]. unfold bC, complexify, addWC, Cplus; cbn [fst snd].
    rewrite !b_add_r by auto. apply (f_equal2 pair); ring.
  Qed.
  Lemma bC_scl_l z a c : okVC a -> okWC c -> bC (sclVC z a) c = Cmult z (bC a c).
  Proof.
    intros [? ?] [? ?]. unfold bC, complexify, sclVC, Cmult; cbn [fst snd].
    rewrite !b_sub_l, !b_add_l, !b_scl_l by auto. apply (f_equal2 pair); ring.
  Qed.
  Lemma bC_scl_r z a c : okVC a -> okWC c -> bC a (sclWC z c) = Cmult z (bC a c).
  Proof.
    intros [? ?] [? ?]. unfold bC, complexify, sclWC, Cmult; cbn [fst snd].
    rewrite !b_sub_r, !b_add_r, !b_scl_r by auto. apply (f_equal2 pair); ring.
  Qed.

  (* uniqueness: every complex-bilinear F that restricts to b on the real subspace and respects the
     decomposition a = re a + i * im a agrees with the combinator *)
  Theorem complexified_bilinear :
    (forall u w, okV u -> okW w -> bC (realV u) (realW w) = RtoC (b u w))
    /\ (forall a a' c, okVC a -> okVC a' -> okWC c -> bC (addVC a a') c = Cplus (bC a c) (bC a' c))
    /\ (forall a c c', okVC a -> okWC c -> okWC c' -> bC a (addWC c c') = Cplus (bC a c) (bC a c'))
    /\ (forall z a c, okVC a -> okWC c -> bC (sclVC z a) c = Cmult z (bC a c))
    /\ (forall z a c, okVC a -> okWC c -> bC a (sclWC z c) = Cmult z (bC a c)).
  Proof. repeat split; [apply bC_extends | apply bC_add_l | apply bC_add_r | apply bC_scl_l | apply bC_scl_r]. Qed.

  Theorem complexification_unique (F : V * V -> W * W -> C) :
    (forall u w, okV u -> okW w -> F (realV u) (realW w) = RtoC (b u w)) ->
    (forall u u' w w', okV u -> okV u' -> okW w -> okW w' ->
        F (u, u') (w, w') =
        Cplus (Cplus (F (realV u) (realW w)) (Cmult Ci (F (realV u) (realW w'))))
              (Cplus (Cmult Ci (F (realV u') (realW w))) (Cmult (Cmult Ci Ci) (F (realV u') (realW w'))))) ->
    forall a c, okVC a -> okWC c -> F a c = bC a c.
  Proof.
    intros Hreal Hdec [u u'] [w w'] [Hu Hu'] [Hw Hw']; cbn [fst snd] in *.
    rewrite Hdec, !Hreal by auto. unfold bC, complexify, Cplus, Cmult, Ci, RtoC; cbn [fst snd]. apply (f_equal2 pair); ring.
  Qed.
End ComplexifiedBilinear.

Lemma zipw_maps {A B P Q X} (f : P -> Q -> X) (p : A -> P) (q : B -> Q) xs ys :
  zipw f (map p xs) (map q ys) = zipw (fun a b => f (p a) (q b)) xs ys.
Proof. revert ys; induction xs as [|a xs IH]; intros [|b ys]; try reflexivity. cbn [map]. rewrite !zipw_cons, IH. reflexivity. Qed.

Lemma zipw_repeat {A B X} (f : A -> B -> X) a b n : zipw f (repeat a n) (repeat b n) = repeat (f a b) n.
Proof. induction n; [reflexivity|]. cbn [repeat]. rewrite zipw_cons, IHn. reflexivity. Qed.

Lemma nth_zipw {A B X} (f : A -> B -> X) xs ys j d da db :
  (j < length xs)%nat -> (j < length ys)%nat -> nth j (zipw f xs ys) d = f (nth j xs da) (nth j ys db).
Proof.
  revert ys j; induction xs as [|a xs IH]; intros [|b ys] j H1 H2; simpl in H1, H2; try lia.
  rewrite zipw_cons. destruct j; [reflexivity|]. cbn [nth]. apply IH; lia.
Qed.

Lemma vadd_R xs ys : vadd ROps xs ys = zipw Rplus xs ys. Proof. reflexivity. Qed.
Lemma vsub_R xs ys : vsub ROps xs ys = zipw Rminus xs ys. Proof. reflexivity. Qed.
Lemma vscale_R a xs : vscale ROps a xs = map (Rmult a) xs. Proof. reflexivity. Qed.
Lemma vopp_R xs : vopp ROps xs = map Ropp xs. Proof. reflexivity. Qed.

(* ------------------------------------------------------------------ specifications over Coquelicot's C *)
Definition Csum (l : list C) : C := fold_right Cplus (RtoC 0) l.
Definition Cdot (x y : list C) : C := Csum (zipw Cmult x y).                 (* sum_k x_k * y_k *)
Definition Cvadd (u v : list C) : list C := zipw Cplus u v.
Definition Cvscale (a : C) (v : list C) : list C := map (Cmult a) v.
Definition Cmadd (u v : list (list C)) : list (list C) := zipw Cvadd u v.
(* row * matrix, m columns: sum_k row_k * (k-th row of y) *)
Fixpoint CVM (m : nat) (row : list C) (y : list (list C)) : list C :=
  match row, y with
  | a :: row', b :: y' => Cvadd (Cvscale a b) (CVM m row' y')
  | _, _ => repeat (RtoC 0) m
  end.
Definition Cmatmul (m : nat) (x y : list (list C)) : list (list C) := map (fun row => CVM m row y) x.
Definition Cmatvec (x : list (list C)) (v : list C) : list C := map (fun row => Cdot row v) x.
Definition Couter (x y : list C) : list (list C) := map (fun a => map (fun b => Cmult a (Cconj b)) y) x.
Definition Cein_abcd (x y : list (list C)) : list (list (list (list C))) :=
  map (fun rx => map (fun ry => map (fun a => map (Cmult a) ry) rx) y) x.
Definition Ckron (x y : list (list C)) : list (list C) := reshape_kron (Cein_abcd x y).
Definition Cein_ib_ibg (nb ng : nat) (x : list (list C)) (y : list (list (list C))) : list (list C) :=
  fold_right Cmadd (repeat (repeat (RtoC 0) ng) nb) (zipw (fun xi yi => zipw Cvscale xi yi) x y).

(* ------------------------------------------------------------------ parts of the specifications *)
Lemma re1_Cvadd u v : re1 (Cvadd u v) = vadd ROps (re1 u) (re1 v).
Proof. unfold re1, Cvadd. rewrite map_zipw, vadd_R, zipw_maps. reflexivity. Qed.
Lemma im1_Cvadd u v : im1 (Cvadd u v) = vadd ROps (im1 u) (im1 v).
Proof. unfold im1, Cvadd. rewrite map_zipw, vadd_R, zipw_maps. reflexivity. Qed.
Lemma re1_Cvscale a v : re1 (Cvscale a v) = vsub ROps (vscale ROps (fst a) (re1 v)) (vscale ROps (snd a) (im1 v)).
Proof. unfold re1, im1, Cvscale. rewrite vsub_R, !vscale_R, !map_map, zipw_map_same. reflexivity. Qed.
Lemma im1_Cvscale a v : im1 (Cvscale a v) = vadd ROps (vscale ROps (fst a) (im1 v)) (vscale ROps (snd a) (re1 v)).
Proof. unfold re1, im1, Cvscale. rewrite vadd_R, !vscale_R, !map_map, zipw_map_same. reflexivity. Qed.

Lemma vsub_vadd_interchange (P Q R' S : list R) :
  vsub ROps (vadd ROps P Q) (vadd ROps R' S) = vadd ROps (vsub ROps P R') (vsub ROps Q S).
Proof. rewrite !vsub_R, !vadd_R. apply zipw_interchange. intros; ring. Qed.
Lemma vadd_vadd_interchange (P Q R' S : list R) :
  vadd ROps (vadd ROps P Q) (vadd ROps R' S) = vadd ROps (vadd ROps P R') (vadd ROps Q S).
Proof. rewrite !vadd_R. apply zipw_interchange. intros; ring. Qed.

Lemma re1_zero m : re1 (repeat (RtoC 0) m) = vzero ROps m.
Proof. unfold re1, vzero. induction m; [reflexivity|]. cbn [repeat map]. rewrite IHm. reflexivity. Qed.
Lemma im1_zero m : im1 (repeat (RtoC 0) m) = vzero ROps m.
Proof. unfold im1, vzero. induction m; [reflexivity|]. cbn [repeat map]. rewrite IHm. reflexivity. Qed.
Lemma vsub_vzero m : vsub ROps (vzero ROps m) (vzero ROps m) = vzero ROps m.
Proof. unfold vzero. rewrite vsub_R, zipw_repeat. cbn [n0 ROps]. replace (0 - 0) with 0 by ring. reflexivity. Qed.
Lemma vadd_vzero m : vadd ROps (vzero ROps m) (vzero ROps m) = vzero ROps m.
Proof. unfold vzero. rewrite vadd_R, zipw_repeat. cbn [n0 ROps]. replace (0 + 0) with 0 by ring. reflexivity. Qed.

Lemma re1_cons (a : C) l : re1 (a :: l) = fst a :: re1 l. Proof. reflexivity. Qed.
Lemma im1_cons (a : C) l : im1 (a :: l) = snd a :: im1 l. Proof. reflexivity. Qed.
Lemma re2_cons (a : list C) l : re2 (a :: l) = re1 a :: re2 l. Proof. reflexivity. Qed.
Lemma im2_cons (a : list C) l : im2 (a :: l) = im1 a :: im2 l. Proof. reflexivity. Qed.

Lemma re1_CVM m row y :
  re1 (CVM m row y) = vsub ROps (vecmat ROps m (re1 row) (re2 y)) (vecmat ROps m (im1 row) (im2 y)).
Proof.
  revert y; induction row as [|a row IH]; intros [|b y];
    try (cbn [CVM vecmat re1 im1 re2 im2 map]; rewrite vsub_vzero; apply re1_zero).
  rewrite !re1_cons, !im1_cons, !re2_cons, !im2_cons. cbn [CVM vecmat].
  rewrite re1_Cvadd, re1_Cvscale, IH, vsub_vadd_interchange. reflexivity.
Qed.
Lemma im1_CVM m row y :
  im1 (CVM m row y) = vadd ROps (vecmat ROps m (re1 row) (im2 y)) (vecmat ROps m (im1 row) (re2 y)).
Proof.
  revert y; induction row as [|a row IH]; intros [|b y];
    try (cbn [CVM vecmat re1 im1 re2 im2 map]; rewrite vadd_vzero; apply im1_zero).
  rewrite !re1_cons, !im1_cons, !re2_cons, !im2_cons. cbn [CVM vecmat].
  rewrite im1_Cvadd, im1_Cvscale, IH, vadd_vadd_interchange. reflexivity.
Qed.

Lemma cmb1_map_same {A} (p q : A -> R) l : cmb1 (map p l) (map q l) = map (fun a => (p a, q a)) l.
Proof. unfold cmb1. induction l as [|a l IH]; [reflexivity|]. cbn [map combine]. rewrite IH. reflexivity. Qed.

Lemma cmb1_parts (l : list C) : cmb1 (re1 l) (im1 l) = l.
Proof. apply combine_fst_snd. Qed.

(* ------------------------------------------------------------------ matmul *)
Theorem matmul_mm_is_Cmatmul (x y : list (list C)) :
  matmul_mm ROps x y =
  if rectb (length y) x && rectb (ncols y) y then Some (Cmatmul (ncols y) x y) else None.
Proof.
  unfold matmul_mm; cbv zeta. change (@cx R) with C. destruct (rectb (length y) x && rectb (ncols y) y); [|reflexivity].
  f_equal. unfold complexify; cbn [fst snd]. unfold cmb2, msub, madd, rmatmul, Cmatmul.
  change (re2 x) with (map re1 x); change (im2 x) with (map im1 x).
  rewrite !map_map. rewrite !zipw_map_same.
  apply map_ext. intros row. rewrite <- re1_CVM, <- im1_CVM. apply cmb1_parts.
Qed.

Lemma Cdot_parts (x y : list C) :
  (dot ROps (re1 x) (re1 y) - dot ROps (im1 x) (im1 y), dot ROps (re1 x) (im1 y) + dot ROps (im1 x) (re1 y)) = Cdot x y.
Proof.
  revert y; induction x as [|a x IH]; intros [|b y]; try (cbn; apply (f_equal2 pair); ring).
  unfold Cdot in *. rewrite zipw_cons. cbn [Csum fold_right]. fold (Csum (zipw Cmult x y)). rewrite <- IH.
  cbn [re1 im1 map dot nadd nmul ROps]. fold (re1 x) (im1 x) (re1 y) (im1 y).
  unfold Cplus, Cmult; cbn [fst snd]. apply (f_equal2 pair); ring.
Qed.

Theorem matmul_mv_is_Cmatvec (x : list (list C)) (v : list C) :
  matmul_mv ROps x v = if rectb (length v) x then Some (Cmatvec x v) else None.
Proof.
  unfold matmul_mv. change (@cx R) with C. destruct (rectb (length v) x); [|reflexivity].
  f_equal. unfold complexify; cbn [fst snd]. unfold matvec, re2, im2, Cmatvec.
  rewrite vsub_R, vadd_R, !map_map, !zipw_map_same, cmb1_map_same.
  apply map_ext. intros row. apply Cdot_parts.
Qed.

(* the entry (i, j) of the product is sum_k x_ik * y_kj *)
Lemma CVM_length m row y : rectb m y = true -> length (CVM m row y) = m.
Proof.
  revert y; induction row as [|a row IH]; intros [|b y] Hy; cbn [CVM]; try apply repeat_length.
  cbn [rectb forallb] in Hy. apply andb_prop in Hy as [Hb Hy]. apply Nat.eqb_eq in Hb.
  unfold Cvadd, Cvscale. rewrite zipw_length, map_length, Hb, (IH y Hy). apply Nat.min_id.
Qed.

Lemma CVM_entry m row y j :
  rectb m y = true -> (j < m)%nat ->
  nth j (CVM m row y) (RtoC 0) = Cdot row (map (fun r => nth j r (RtoC 0)) y).
Proof.
  revert y; induction row as [|a row IH]; intros [|b y] Hy Hj; cbn [CVM map];
    try (rewrite nth_repeat; destruct row; reflexivity); try (rewrite nth_repeat; reflexivity).
  pose proof Hy as Hy0. cbn [rectb forallb] in Hy. apply andb_prop in Hy as [Hb Hy]. apply Nat.eqb_eq in Hb.
  unfold Cvadd. rewrite (nth_zipw _ _ _ _ _ (RtoC 0) (RtoC 0)).
  - rewrite (IH y Hy Hj). unfold Cvscale.
    rewrite (nth_indep _ (RtoC 0) (Cmult a (RtoC 0))) by (rewrite map_length; lia).
    rewrite map_nth. unfold Cdot. rewrite zipw_cons. reflexivity.
  - unfold Cvscale. rewrite map_length. lia.
  - rewrite (CVM_length m row y Hy). exact Hj.
Qed.

Theorem matmul_entry (x y z : list (list C)) i j :
  matmul_mm ROps x y = Some z -> (i < length x)%nat -> (j < ncols y)%nat ->
  nth j (nth i z []) (RtoC 0) = Cdot (nth i x []) (map (fun r => nth j r (RtoC 0)) y).
Proof.
  rewrite matmul_mm_is_Cmatmul. destruct (rectb (length y) x && rectb (ncols y) y) eqn:G; [|discriminate].
  intros E Hi Hj. injection E as <-. apply andb_prop in G as [_ Gy].
  unfold Cmatmul. rewrite (nth_indep _ [] (CVM (ncols y) [] y)) by (rewrite map_length; exact Hi).
  rewrite (map_nth (fun row => CVM (ncols y) row y)). apply CVM_entry; assumption.
Qed.

(* ------------------------------------------------------------------ inner_prod: <x|y> = sum_i conj(x_i) y_i *)
Definition Cinner (x y : list C) : C := Csum (zipw (fun a b => Cmult (Cconj a) b) x y).

Lemma inner_parts (x y : list C) :
  (dot ROps (re1 x) (re1 y) + dot ROps (im1 x) (im1 y), dot ROps (re1 x) (im1 y) - dot ROps (im1 x) (re1 y)) = Cinner x y.
Proof.
  revert y; induction x as [|a x IH]; intros [|b y]; try (cbn; apply (f_equal2 pair); ring).
  unfold Cinner in *. rewrite zipw_cons. cbn [Csum fold_right].
  fold (Csum (zipw (fun a b => Cmult (Cconj a) b) x y)). rewrite <- IH.
  cbn [re1 im1 map dot nadd nmul ROps]. fold (re1 x) (im1 x) (re1 y) (im1 y).
  unfold Cplus, Cmult, Cconj; cbn [fst snd]. apply (f_equal2 pair); ring.
Qed.

Theorem inner_prod_v_is (x y : list C) :
  inner_prod_v ROps x y = if Nat.eqb (length x) (length y) then Some (Cinner x y) else None.
Proof.
  unfold inner_prod_v. change (@cx R) with C. destruct (Nat.eqb (length x) (length y)); [|reflexivity].
  f_equal. apply inner_parts.
Qed.

Lemma Cinner_scal_l (z : C) x y : Cinner (map (Cmult z) x) y = Cmult (Cconj z) (Cinner x y).
Proof.
  unfold Cinner. revert y; induction x as [|a x IH]; intros [|b y]; cbn [map];
    try (unfold zipw; cbn; unfold Cmult, Cconj, RtoC; cbn; apply (f_equal2 pair); ring).
  rewrite !zipw_cons. cbn [Csum fold_right]. fold (Csum (zipw (fun a b => Cmult (Cconj a) b) (map (Cmult z) x) y)).
  fold (Csum (zipw (fun a b => Cmult (Cconj a) b) x y)). rewrite IH.
  unfold Cplus, Cmult, Cconj; cbn [fst snd]. apply (f_equal2 pair); ring.
Qed.
Lemma Cinner_scal_r (z : C) x y : Cinner x (map (Cmult z) y) = Cmult z (Cinner x y).
Proof.
  unfold Cinner. revert y; induction x as [|a x IH]; intros [|b y]; cbn [map];
    try (unfold zipw; cbn; unfold Cmult, Cconj, RtoC; cbn; apply (f_equal2 pair); ring).
  rewrite !zipw_cons. cbn [Csum fold_right]. fold (Csum (zipw (fun a b => Cmult (Cconj a) b) x (map (Cmult z) y))).
  fold (Csum (zipw (fun a b => Cmult (Cconj a) b) x y)). rewrite IH.
  unfold Cplus, Cmult, Cconj; cbn [fst snd]. apply (f_equal2 pair); ring.
Qed.
Lemma Cinner_add_l x x' y : length x = length x' ->
  Cinner (zipw Cplus x x') y = Cplus (Cinner x y) (Cinner x' y).
Proof.
  unfold Cinner. revert x' y; induction x as [|a x IH]; intros [|a' x'] [|b y] Hl; try discriminate;
    try (unfold zipw; cbn; unfold Cplus, RtoC; cbn; apply (f_equal2 pair); ring).
  rewrite !zipw_cons. cbn [Csum fold_right]. injection Hl as Hl.
  fold (Csum (zipw (fun a b => Cmult (Cconj a) b) (zipw Cplus x x') y)).
  fold (Csum (zipw (fun a b => Cmult (Cconj a) b) x y)). fold (Csum (zipw (fun a b => Cmult (Cconj a) b) x' y)).
  rewrite (IH x' y Hl). unfold Cplus, Cmult, Cconj; cbn [fst snd]. apply (f_equal2 pair); ring.
Qed.
Lemma Cinner_conj_sym x y : length x = length y -> Cinner y x = Cconj (Cinner x y).
Proof.
  unfold Cinner. revert y; induction x as [|a x IH]; intros [|b y] Hl; try discriminate.
  - unfold zipw; cbn. unfold Cconj, RtoC; cbn. apply (f_equal2 pair); ring.
  - rewrite !zipw_cons. cbn [Csum fold_right]. injection Hl as Hl.
    fold (Csum (zipw (fun a b => Cmult (Cconj a) b) y x)). fold (Csum (zipw (fun a b => Cmult (Cconj a) b) x y)).
    rewrite (IH y Hl). unfold Cplus, Cmult, Cconj; cbn [fst snd]. apply (f_equal2 pair); ring.
Qed.

(* ------------------------------------------------------------------ outer_prod: entry (i,j) = x_i * conj y_j *)
Theorem outer_prod_v_is (x y : list C) : outer_prod_v ROps x y = Couter x y.
Proof.
  unfold outer_prod_v, Couter, cmb2, msub, madd, ger, re1, im1.
  rewrite !map_map, !zipw_map_same. apply map_ext. intros a.
  rewrite vsub_R, vadd_R, vopp_R, !map_map, !zipw_map_same, cmb1_map_same.
  apply map_ext. intros b. reflexivity.
Qed.

Lemma cmb1_zipw (r i : list R) : cmb1 r i = zipw pair r i.
Proof. unfold cmb1. revert i; induction r as [|a r IH]; intros [|b i]; try reflexivity. rewrite zipw_cons. cbn [combine]. rewrite IH. reflexivity. Qed.

Lemma rectb_nth {A} m (x : list (list A)) i : rectb m x = true -> (i < length x)%nat -> length (nth i x []) = m.
Proof.
  revert i; induction x as [|r x IH]; intros i H Hi; [simpl in Hi; lia|].
  cbn [rectb forallb] in H. apply andb_prop in H as [Hr Hx]. apply Nat.eqb_eq in Hr.
  destruct i; [exact Hr|]. cbn [nth]. apply IH; [exact Hx | simpl in Hi; lia].
Qed.

Lemma nth_map_in {A B} (f : A -> B) l i d d' : (i < length l)%nat -> nth i (map f l) d' = f (nth i l d).
Proof. intros H. rewrite (nth_indep _ d' (f d)) by (rewrite map_length; exact H). apply map_nth. Qed.

(* ------------------------------------------------------------------ "ab,cd->acbd" and kronecker_prod *)
Lemma ein_abcd_re (x y : list (list C)) :
  t4sub ROps (ein_abcd ROps (re2 x) (re2 y)) (ein_abcd ROps (im2 x) (im2 y)) =
  map (fun rx => map (fun ry => map (fun a => map (fun b => fst a * fst b - snd a * snd b) ry) rx) y) x.
Proof.
  unfold t4sub, t3sub, msub, ein_abcd, re2, im2, re1, im1.
  rewrite !map_map, zipw_map_same. apply map_ext; intros rx; cbv beta.
  rewrite !map_map, zipw_map_same. apply map_ext; intros ry; cbv beta.
  rewrite !map_map, zipw_map_same. apply map_ext; intros a; cbv beta.
  rewrite vsub_R, !map_map, zipw_map_same. reflexivity.
Qed.
Lemma ein_abcd_im (x y : list (list C)) :
  t4add ROps (ein_abcd ROps (re2 x) (im2 y)) (ein_abcd ROps (im2 x) (re2 y)) =
  map (fun rx => map (fun ry => map (fun a => map (fun b => fst a * snd b + snd a * fst b) ry) rx) y) x.
Proof.
  unfold t4add, t3add, madd, ein_abcd, re2, im2, re1, im1.
  rewrite !map_map, zipw_map_same. apply map_ext; intros rx; cbv beta.
  rewrite !map_map, zipw_map_same. apply map_ext; intros ry; cbv beta.
  rewrite !map_map, zipw_map_same. apply map_ext; intros a; cbv beta.
  rewrite vadd_R, !map_map, zipw_map_same. reflexivity.
Qed.

Lemma re4_Cein_abcd x y : re4 (Cein_abcd x y) =
  map (fun rx => map (fun ry => map (fun a => map (fun b => fst a * fst b - snd a * snd b) ry) rx) y) x.
Proof.
  unfold re4, re3, re2, re1, Cein_abcd.
  rewrite map_map. apply map_ext; intros rx. rewrite map_map. apply map_ext; intros ry.
  rewrite map_map. apply map_ext; intros a. rewrite map_map. reflexivity.
Qed.
Lemma im4_Cein_abcd x y : im4 (Cein_abcd x y) =
  map (fun rx => map (fun ry => map (fun a => map (fun b => fst a * snd b + snd a * fst b) ry) rx) y) x.
Proof.
  unfold im4, im3, im2, im1, Cein_abcd.
  rewrite map_map. apply map_ext; intros rx. rewrite map_map. apply map_ext; intros ry.
  rewrite map_map. apply map_ext; intros a. rewrite map_map. reflexivity.
Qed.

Lemma reshape_kron_maps {A B X} (f : A -> B -> X) (x : list (list A)) (y : list (list B)) :
  reshape_kron (map (fun rx => map (fun ry => map (fun a => map (f a) ry) rx) y) x) =
  concat (map (fun rx => map (fun ry => concat (map (fun a => map (f a) ry) rx)) y) x).
Proof. unfold reshape_kron. rewrite map_map. f_equal. apply map_ext; intros rx. rewrite map_map. reflexivity. Qed.

Theorem kron_m_is_Ckron (x y : list (list C)) :
  kron_m ROps x y = if rectb (ncols x) x && rectb (ncols y) y then Some (Ckron x y) else None.
Proof.
  unfold kron_m. change (@cx R) with C. destruct (rectb (ncols x) x && rectb (ncols y) y); [|reflexivity].
  f_equal. unfold complexify; cbn [fst snd]. rewrite ein_abcd_re, ein_abcd_im.
  unfold Ckron, Cein_abcd. rewrite !reshape_kron_maps. unfold cmb2.
  rewrite zipw_concat_map by (intros; rewrite !map_length; reflexivity).
  f_equal. apply map_ext; intros rx. rewrite zipw_map_same. apply map_ext; intros ry.
  rewrite cmb1_zipw, zipw_concat_map by (intros; rewrite !map_length; reflexivity).
  f_equal. apply map_ext; intros a. rewrite zipw_map_same. apply map_ext; intros b. reflexivity.
Qed.

(* entry (i*p + k, j*q + l) of x (n x m) kron y (p x q) is x_ij * y_kl — non-square operands included *)
Theorem Ckron_entry (x y : list (list C)) m p q i j k l :
  rectb m x = true -> rectb q y = true -> length y = p ->
  (i < length x)%nat -> (k < p)%nat -> (j < m)%nat -> (l < q)%nat ->
  nth (j * q + l) (nth (i * p + k) (Ckron x y) []) (RtoC 0)
  = Cmult (nth j (nth i x []) (RtoC 0)) (nth l (nth k y []) (RtoC 0)).
Proof.
  intros Hx Hy Hp Hi Hk Hj Hl. unfold Ckron, Cein_abcd. rewrite reshape_kron_maps.
  rewrite (nth_concat_uniform _ p x i k [] []); [| intros; rewrite map_length; exact Hp | exact Hi | exact Hk].
  rewrite (nth_map_in _ y k []) by lia.
  pose proof (rectb_nth m x i Hx Hi) as Lx. pose proof (rectb_nth q y k Hy ltac:(lia)) as Ly.
  rewrite (nth_concat_uniform _ q (nth i x []) j l (RtoC 0) (RtoC 0)); [| intros; rewrite map_length; exact Ly | lia | exact Hl].
  apply nth_map_in. lia.
Qed.

Lemma Ckron_shape (x y : list (list C)) :
  length (Ckron x y) = (length x * length y)%nat.
Proof.
  unfold Ckron, Cein_abcd. rewrite reshape_kron_maps.
  induction x as [|rx x IH]; [reflexivity|]. cbn [map concat]. rewrite app_length, map_length, IH. reflexivity.
Qed.

(* ------------------------------------------------------------------ einsum switches *)
Definition eres_select {X} (rp ip : bool) (r i : X) : eres X :=
  match rp, ip with true, true => EBoth r i | true, false => EReal r | false, true => EImag i | false, false => ENone end.
Lemma complexify_sw_select {A B X} (xsub xadd : X -> X -> X) (Bf : A -> B -> X) rp ip ra ia rb ib :
  complexify_sw xsub xadd Bf rp ip ra ia rb ib =
  eres_select rp ip (fst (complexify xsub xadd Bf ra ia rb ib)) (snd (complexify xsub xadd Bf ra ia rb ib)).
Proof. destruct rp, ip; reflexivity. Qed.

Theorem einsum_ab_cd_is rp ip (x y : list (list C)) :
  einsum_ab_cd ROps rp ip x y =
  if rectb (ncols x) x && rectb (ncols y) y
  then Some (eres_select rp ip (re4 (Cein_abcd x y)) (im4 (Cein_abcd x y))) else None.
Proof.
  unfold einsum_ab_cd. change (@cx R) with C. destruct (rectb (ncols x) x && rectb (ncols y) y); [|reflexivity].
  rewrite complexify_sw_select. unfold complexify; cbn [fst snd].
  rewrite ein_abcd_re, ein_abcd_im, re4_Cein_abcd, im4_Cein_abcd. reflexivity.
Qed.

Theorem einsum_b_bg_is rp ip ng (x : list C) (y : list (list C)) :
  einsum_b_bg ROps rp ip ng x y =
  if Nat.eqb (length x) (length y) && rectb ng y
  then Some (eres_select rp ip (re1 (CVM ng x y)) (im1 (CVM ng x y))) else None.
Proof.
  unfold einsum_b_bg. change (@cx R) with C. destruct (Nat.eqb (length x) (length y) && rectb ng y); [|reflexivity].
  rewrite complexify_sw_select. unfold complexify, ein_b_bg; cbn [fst snd].
  rewrite <- re1_CVM, <- im1_CVM. reflexivity.
Qed.

(* "ib,ibg->bg" *)
Lemma re2_Cmadd u v : re2 (Cmadd u v) = madd ROps (re2 u) (re2 v).
Proof.
  unfold re2, Cmadd, madd. rewrite map_zipw, zipw_maps. apply zipw_ext. intros; apply re1_Cvadd.
Qed.
Lemma im2_Cmadd u v : im2 (Cmadd u v) = madd ROps (im2 u) (im2 v).
Proof.
  unfold im2, Cmadd, madd. rewrite map_zipw, zipw_maps. apply zipw_ext. intros; apply im1_Cvadd.
Qed.
Lemma re2_term (xi : list C) (yi : list (list C)) :
  re2 (zipw Cvscale xi yi) =
  msub ROps (zipw (vscale ROps) (re1 xi) (re2 yi)) (zipw (vscale ROps) (im1 xi) (im2 yi)).
Proof.
  unfold re2 at 1. rewrite map_zipw. unfold msub.
  change (re1 xi) with (map fst xi); change (im1 xi) with (map snd xi);
  change (re2 yi) with (map re1 yi); change (im2 yi) with (map im1 yi).
  rewrite zipw_zipw_same. apply zipw_ext. intros a row _ _. apply re1_Cvscale.
Qed.
Lemma im2_term (xi : list C) (yi : list (list C)) :
  im2 (zipw Cvscale xi yi) =
  madd ROps (zipw (vscale ROps) (re1 xi) (im2 yi)) (zipw (vscale ROps) (im1 xi) (re2 yi)).
Proof.
  unfold im2 at 1. rewrite map_zipw. unfold madd.
  change (re1 xi) with (map fst xi); change (im1 xi) with (map snd xi);
  change (re2 yi) with (map re1 yi); change (im2 yi) with (map im1 yi).
  rewrite zipw_zipw_same. apply zipw_ext. intros a row _ _. apply im1_Cvscale.
Qed.
Lemma msub_madd_interchange (P Q R' S : list (list R)) :
  msub ROps (madd ROps P Q) (madd ROps R' S) = madd ROps (msub ROps P R') (msub ROps Q S).
Proof. unfold msub, madd. apply zipw_interchange. intros; apply vsub_vadd_interchange. Qed.
Lemma madd_madd_interchange (P Q R' S : list (list R)) :
  madd ROps (madd ROps P Q) (madd ROps R' S) = madd ROps (madd ROps P R') (madd ROps Q S).
Proof. unfold madd. apply zipw_interchange. intros; apply vadd_vadd_interchange. Qed.
Lemma re2_mzero nb ng : re2 (repeat (repeat (RtoC 0) ng) nb) = msub ROps (mzero ROps nb ng) (mzero ROps nb ng).
Proof.
  unfold re2, msub, mzero. rewrite zipw_repeat, vsub_vzero.
  induction nb; [reflexivity|]. cbn [repeat map]. rewrite IHnb, re1_zero. reflexivity.
Qed.
Lemma im2_mzero nb ng : im2 (repeat (repeat (RtoC 0) ng) nb) = madd ROps (mzero ROps nb ng) (mzero ROps nb ng).
Proof.
  unfold im2, madd, mzero. rewrite zipw_repeat, vadd_vzero.
  induction nb; [reflexivity|]. cbn [repeat map]. rewrite IHnb, im1_zero. reflexivity.
Qed.

Lemma re3_cons (a : list (list C)) l : re3 (a :: l) = re2 a :: re3 l. Proof. reflexivity. Qed.
Lemma im3_cons (a : list (list C)) l : im3 (a :: l) = im2 a :: im3 l. Proof. reflexivity. Qed.

Lemma re2_Cein_ib_ibg nb ng x y :
  re2 (Cein_ib_ibg nb ng x y) =
  msub ROps (ein_ib_ibg ROps nb ng (re2 x) (re3 y)) (ein_ib_ibg ROps nb ng (im2 x) (im3 y)).
Proof.
  unfold Cein_ib_ibg, ein_ib_ibg.
  revert y; induction x as [|xi x IH]; intros [|yi y];
    try (cbn [zipw map combine fold_right re2 im2 re3 im3]; apply re2_mzero).
  rewrite re2_cons, im2_cons, re3_cons, im3_cons, !zipw_cons. cbn [fold_right].
  rewrite re2_Cmadd, IH, re2_term, msub_madd_interchange. reflexivity.
Qed.
Lemma im2_Cein_ib_ibg nb ng x y :
  im2 (Cein_ib_ibg nb ng x y) =
  madd ROps (ein_ib_ibg ROps nb ng (re2 x) (im3 y)) (ein_ib_ibg ROps nb ng (im2 x) (re3 y)).
Proof.
  unfold Cein_ib_ibg, ein_ib_ibg.
  revert y; induction x as [|xi x IH]; intros [|yi y];
    try (cbn [zipw map combine fold_right re2 im2 re3 im3]; apply im2_mzero).
  rewrite re2_cons, im2_cons, re3_cons, im3_cons, !zipw_cons. cbn [fold_right].
  rewrite im2_Cmadd, IH, im2_term, madd_madd_interchange. reflexivity.
Qed.

Theorem einsum_ib_ibg_is rp ip nb ng (x : list (list C)) (y : list (list (list C))) :
  einsum_ib_ibg ROps rp ip nb ng x y =
  if Nat.eqb (length x) (length y) && rectb nb x && rect3b nb ng y
  then Some (eres_select rp ip (re2 (Cein_ib_ibg nb ng x y)) (im2 (Cein_ib_ibg nb ng x y))) else None.
Proof.
  unfold einsum_ib_ibg. change (@cx R) with C.
  destruct (Nat.eqb (length x) (length y) && rectb nb x && rect3b nb ng y); [|reflexivity].
  rewrite complexify_sw_select. unfold complexify; cbn [fst snd].
  rewrite <- re2_Cein_ib_ibg, <- im2_Cein_ib_ibg. reflexivity.
Qed.

Lemma re2_concat (x : list (list (list C))) : concat (re3 x) = re2 (concat x).
Proof. unfold re3, re2. symmetry. apply concat_map. Qed.
Lemma im2_concat (x : list (list (list C))) : concat (im3 x) = im2 (concat x).
Proof. unfold im3, im2. symmetry. apply concat_map. Qed.
Lemma re3_concat (x : list (list (list (list C)))) : concat (re4 x) = re3 (concat x).
Proof. unfold re4, re3. symmetry. apply concat_map. Qed.
Lemma im3_concat (x : list (list (list (list C)))) : concat (im4 x) = im3 (concat x).
Proof. unfold im4, im3. symmetry. apply concat_map. Qed.

(* "ijb,ijbg->bg": the pair (i,j) is one summation index *)
Theorem einsum_ijb_ijbg_is rp ip nj nb ng (x : list (list (list C))) (y : list (list (list (list C)))) :
  einsum_ijb_ijbg ROps rp ip nj nb ng x y =
  if Nat.eqb (length x) (length y) && rect3b nj nb x && rect4b nj nb ng y
  then Some (eres_select rp ip (re2 (Cein_ib_ibg nb ng (concat x) (concat y)))
                                (im2 (Cein_ib_ibg nb ng (concat x) (concat y)))) else None.
Proof.
  unfold einsum_ijb_ijbg. change (@cx R) with C.
  destruct (Nat.eqb (length x) (length y) && rect3b nj nb x && rect4b nj nb ng y); [|reflexivity].
  rewrite complexify_sw_select. unfold complexify, ein_ijb_ijbg; cbn [fst snd].
  rewrite !re2_concat, !im2_concat, !re3_concat, !im3_concat.
  rewrite <- re2_Cein_ib_ibg, <- im2_Cein_ib_ibg. reflexivity.
Qed.

(* ------------------------------------------------------------------ transpose / conjugate *)
Lemma heads_length {A} k (m : list (list A)) : rectb (S k) m = true -> length (heads m) = length m.
Proof.
  induction m as [|r m IH]; intros H; [reflexivity|].
  cbn [rectb forallb] in H. apply andb_prop in H as [Hr Hm]. apply Nat.eqb_eq in Hr.
  destruct r as [|a r]; [discriminate|]. unfold heads in *. cbn [flat_map app length]. rewrite (IH Hm). reflexivity.
Qed.
Lemma heads_nth {A} k (m : list (list A)) i d :
  rectb (S k) m = true -> (i < length m)%nat -> nth i (heads m) d = nth 0 (nth i m []) d.
Proof.
  revert i; induction m as [|r m IH]; intros i H Hi; [simpl in Hi; lia|].
  cbn [rectb forallb] in H. apply andb_prop in H as [Hr Hm]. apply Nat.eqb_eq in Hr.
  destruct r as [|a r]; [discriminate|]. unfold heads in *. cbn [flat_map app].
  destruct i; [reflexivity|]. cbn [nth]. apply (IH i Hm). simpl in Hi; lia.
Qed.
Lemma tails_rect {A} k (m : list (list A)) : rectb (S k) m = true -> rectb k (tails m) = true.
Proof.
  induction m as [|r m IH]; intros H; [reflexivity|].
  cbn [rectb forallb] in H. apply andb_prop in H as [Hr Hm]. apply Nat.eqb_eq in Hr.
  unfold tails. cbn [map rectb forallb]. apply andb_true_intro; split; [|apply IH, Hm].
  apply Nat.eqb_eq. destruct r; simpl in *; lia.
Qed.
Lemma tails_length {A} (m : list (list A)) : length (tails m) = length m.
Proof. apply map_length. Qed.

Lemma transpose_length {A} nc (m : list (list A)) : length (transpose nc m) = nc.
Proof. revert m; induction nc; intros m; [reflexivity|]. cbn [transpose length]. rewrite IHnc. reflexivity. Qed.

Lemma transpose_rect {A} nc (m : list (list A)) :
  rectb nc m = true -> rectb (length m) (transpose nc m) = true.
Proof.
  revert m; induction nc as [|k IH]; intros m H; [reflexivity|].
  cbn [transpose rectb forallb]. apply andb_true_intro; split.
  - apply Nat.eqb_eq, (heads_length k), H.
  - rewrite <- (tails_length m). apply IH, tails_rect, H.
Qed.

(* swapping the first two indices: entry (j, i) of the result is entry (i, j) of the argument *)
Lemma transpose_entry {A} nc (m : list (list A)) i j d :
  rectb nc m = true -> (i < length m)%nat -> (j < nc)%nat ->
  nth i (nth j (transpose nc m) []) d = nth j (nth i m []) d.
Proof.
  revert m j; induction nc as [|k IH]; intros m j H Hi Hj; [lia|].
  cbn [transpose]. destruct j as [|j].
  - cbn [nth]. apply (heads_nth k); assumption.
  - cbn [nth]. rewrite IH; [| apply tails_rect, H | rewrite tails_length; exact Hi | lia].
    unfold tails. change (@nil A) with (tl (@nil A)) at 1. rewrite map_nth.
    destruct (nth i m []) as [|a l]; [destruct j; reflexivity | reflexivity].
Qed.

Lemma rectb_map {A B} (f : list A -> list B) n (m : list (list A)) :
  (forall r, length (f r) = length r) -> rectb n (map f m) = rectb n m.
Proof.
  intros Hf. induction m as [|r m IH]; [reflexivity|].
  cbn [map]. unfold rectb in *. cbn [forallb]. rewrite Hf, IH. reflexivity.
Qed.

Theorem conjugate_scalar (z : C) : conjugate ROps (T0 z) = T0 (Cconj z).
Proof. reflexivity. Qed.
Theorem conjugate_vector (v : list C) : conjugate ROps (T1 v) = T1 (map Cconj v).
Proof. reflexivity. Qed.
(* matrices: conjugate transpose *)
Theorem conjugate_matrix_entry (m : list (list C)) i j d :
  rectb (ncols m) m = true -> (i < length m)%nat -> (j < ncols m)%nat ->
  exists r, conjugate ROps (T2 m) = T2 r /\ length r = ncols m /\ rectb (length m) r = true /\
            nth i (nth j r []) (Cconj d) = Cconj (nth j (nth i m []) d).
Proof.
  intros H Hi Hj. eexists; split; [reflexivity|].
  assert (Hc : ncols (map (map Cconj) m) = ncols m) by (destruct m; [reflexivity | apply map_length]).
  assert (Hr : rectb (ncols m) (map (map (cconj ROps)) m) = true).
  { rewrite rectb_map; [exact H | intros; apply map_length]. }
  split; [apply transpose_length|]. split.
  - replace (length m) with (length (map (map (cconj ROps)) m)) by apply map_length. apply transpose_rect, Hr.
  - rewrite transpose_entry; [| exact Hr | rewrite map_length; exact Hi | exact Hj].
    rewrite (nth_map_in _ m i []) by exact Hi.
    rewrite (nth_map_in _ _ j d) by (pose proof (rectb_nth _ _ _ H Hi) as L; exact (eq_ind_r (fun n => (j < n)%nat) Hj L)). reflexivity.
Qed.
(* rank >= 3: conjugate every entry and swap the first two tensor indices; the remaining ones stay *)
Theorem conjugate_rank3_entry (t : list (list (list C))) i j :
  rectb (ncols t) t = true -> (i < length t)%nat -> (j < ncols t)%nat ->
  exists r, conjugate ROps (T3 t) = T3 r /\ length r = ncols t /\
            nth i (nth j r []) [] = map Cconj (nth j (nth i t []) []).
Proof.
  intros H Hi Hj. eexists; split; [reflexivity|].
  assert (Hr : rectb (ncols t) (map (map (map (cconj ROps))) t) = true).
  { rewrite rectb_map; [exact H | intros; apply map_length]. }
  split; [apply transpose_length|].
  rewrite transpose_entry; [| exact Hr | rewrite map_length; exact Hi | exact Hj].
  rewrite (nth_map_in _ t i []) by exact Hi.
  rewrite (nth_map_in _ _ j []) by (pose proof (rectb_nth _ _ _ H Hi) as L; exact (eq_ind_r (fun n => (j < n)%nat) Hj L)). reflexivity.
Qed.

(* ------------------------------------------------------------------ elementwise family on tensors *)
Lemma tmap_ext {A B} (f g : A -> B) (x : tens A) : (forall a, f a = g a) -> tmap f x = tmap g x.
Proof.
  intros H. destruct x; cbn [tmap]; f_equal; try apply H;
    repeat (apply map_ext; intros); apply H.
Qed.

Lemma zip_opt_ext {A B X} (f g : A -> B -> option X) xs ys :
  (forall a b, f a b = g a b) -> zip_opt f xs ys = zip_opt g xs ys.
Proof.
  intros H. revert ys; induction xs as [|a xs IH]; intros [|b ys]; try reflexivity.
  cbn [zip_opt]. rewrite H, IH. reflexivity.
Qed.

Lemma tzip_strict_ext {A B X} (f g : A -> B -> X) x y :
  (forall a b, f a b = g a b) -> tzip_strict f x y = tzip_strict g x y.
Proof.
  intros H. assert (H0 : forall a b, Some (f a b) = Some (g a b)) by (intros; f_equal; apply H).
  destruct x, y; cbn [tzip_strict]; try reflexivity; try (rewrite H; reflexivity); f_equal;
    repeat (apply zip_opt_ext; intros); apply H0.
Qed.

Lemma bzip_ext {A B X} (f g : A -> B -> option X) xs ys :
  (forall a b, f a b = g a b) -> bzip f xs ys = bzip g xs ys.
Proof.
  intros H. unfold bzip.
  destruct xs as [|a [|a' xs]]; destruct ys as [|b [|b' ys]];
    rewrite ?(zip_opt_ext f g) by exact H; try reflexivity;
    try (f_equal; apply map_ext; intros; apply H).
Qed.

Lemma tzip_bcast_same_ext {A B X} (f g : A -> B -> X) x y :
  (forall a b, f a b = g a b) -> tzip_bcast_same f x y = tzip_bcast_same g x y.
Proof.
  intros H. assert (H0 : forall a b, Some (f a b) = Some (g a b)) by (intros; f_equal; apply H).
  destruct x, y; cbn [tzip_bcast_same]; try reflexivity; try (rewrite H; reflexivity); f_equal;
    repeat (apply bzip_ext; intros); apply H0.
Qed.

Lemma tzip_bcast_ext {A B X} (f g : A -> B -> X) x y :
  (forall a b, f a b = g a b) -> tzip_bcast f x y = tzip_bcast g x y.
Proof. intros H. unfold tzip_bcast. apply tzip_bcast_same_ext, H. Qed.

Theorem conj_is (x : tens C) : conj ROps x = tmap Cconj x.
Proof. reflexivity. Qed.
Theorem absolute_value_is (x : tens C) : absolute_value ROps x = tmap Cmod x.
Proof. apply tmap_ext, cabs_is_Cmod. Qed.
Theorem inverse_is (x : tens C) : inverse ROps x = tmap Cinv x.
Proof. apply tmap_ext, cinv_is_Cinv. Qed.
Theorem scalar_mult_is (x y : tens C) : scalar_mult ROps x y = of_opt RuntimeErr (tzip_bcast Cmult x y).
Proof. reflexivity. Qed.
Theorem elementwise_mult_is (x y : tens C) : elementwise_mult ROps x y = of_opt RuntimeErr (tzip_bcast Cmult x y).
Proof. reflexivity. Qed.
Theorem scalar_divide_is (x y : tens C) :
  scalar_divide ROps x y = of_opt RuntimeErr (tzip_bcast Cmult x (tmap Cinv y)).
Proof. unfold scalar_divide. rewrite inverse_is. reflexivity. Qed.
Theorem elementwise_division_is (x y : tens C) :
  elementwise_division ROps x y = of_opt ValueErr (tzip_strict Cdiv x y).
Proof. unfold elementwise_division. f_equal. apply tzip_strict_ext, cediv_is_Cdiv. Qed.
(* numpy broadcasts the two real arguments; pointwise e^z / (1 + e^z) *)
Theorem sigmoid_is (x y : tens R) :
  sigmoid ROps x y =
  of_opt ValueErr (tzip_bcast (fun a b => Cdiv (Cexp (a, b)) (Cplus (RtoC 1) (Cexp (a, b)))) x y).
Proof. unfold sigmoid. f_equal. apply tzip_bcast_ext, csigmoid_is. Qed.

(* what the traversals mean on vectors and matrices *)
Lemma zip_opt_some {A B X} (g : A -> B -> option X) (h : A -> B -> X) xs ys :
  (forall a b, In a xs -> In b ys -> g a b = Some (h a b)) -> length xs = length ys ->
  zip_opt g xs ys = Some (zipw h xs ys).
Proof.
  revert ys; induction xs as [|a xs IH]; intros [|b ys] H Hl; try discriminate; [reflexivity|].
  cbn [zip_opt]. rewrite (H a b) by (left; reflexivity).
  rewrite IH; [reflexivity | intros; apply H; right; assumption | simpl in Hl; lia].
Qed.
Lemma zip_opt_none {A B X} (g : A -> B -> option X) xs ys : length xs <> length ys -> zip_opt g xs ys = None.
Proof.
  revert ys; induction xs as [|a xs IH]; intros [|b ys] Hl; try reflexivity; [exfalso; apply Hl; reflexivity|].
  cbn [zip_opt]. rewrite IH by (simpl in Hl; lia). destruct (g a b); reflexivity.
Qed.
Lemma seq_opt_some {A X} (h : A -> X) l : seq_opt (map (fun a => Some (h a)) l) = Some (map h l).
Proof. induction l as [|a l IH]; [reflexivity|]. cbn [map seq_opt]. rewrite IH. reflexivity. Qed.

Lemma bzip_same_length {A B X} (g : A -> B -> option X) (h : A -> B -> X) xs ys :
  (forall a b, g a b = Some (h a b)) -> length xs = length ys -> bzip g xs ys = Some (zipw h xs ys).
Proof.
  intros H Hl. destruct xs as [|a [|a' xs]], ys as [|b [|b' ys]]; try discriminate; try reflexivity.
  - cbn. rewrite H. reflexivity.
  - unfold bzip. apply zip_opt_some; [intros; apply H | exact Hl].
Qed.
Lemma bzip_left_one {A B X} (g : A -> B -> option X) (h : B -> X) a ys :
  (forall b, g a b = Some (h b)) -> bzip g [a] ys = Some (map h ys).
Proof.
  intros H. unfold bzip. rewrite (map_ext _ (fun b => Some (h b))) by (intros; apply H). apply seq_opt_some.
Qed.
Lemma bzip_right_one {A B X} (g : A -> B -> option X) (h : A -> B -> X) xs b :
  (forall a b, g a b = Some (h a b)) -> bzip g xs [b] = Some (map (fun a => h a b) xs).
Proof.
  intros H. destruct xs as [|a [|a' xs]].
  - reflexivity.
  - cbn. rewrite H. reflexivity.
  - unfold bzip. rewrite (map_ext _ (fun a => Some (h a b))) by (intros; apply H). apply seq_opt_some.
Qed.
Lemma bzip_mismatch {A B X} (g : A -> B -> option X) xs ys :
  length xs <> length ys -> length xs <> 1%nat -> length ys <> 1%nat -> bzip g xs ys = None.
Proof.
  intros H H1 H2. destruct xs as [|a [|a' xs]], ys as [|b [|b' ys]]; cbn [length] in *; try lia; try reflexivity;
    unfold bzip; apply zip_opt_none; simpl; lia.
Qed.

Theorem scalar_mult_vectors (x y : list C) :
  length x = length y -> scalar_mult ROps (T1 x) (T1 y) = Ok (T1 (zipw Cmult x y)).
Proof.
  intros Hl. unfold scalar_mult, tzip_bcast. cbn [trank Nat.max tpromote Nat.ltb Nat.leb tzip_bcast_same].
  rewrite (bzip_same_length _ (cmul ROps)) by (intros; reflexivity || exact Hl). reflexivity.
Qed.
Theorem scalar_mult_scalar_vector (z : C) (y : list C) :
  scalar_mult ROps (T0 z) (T1 y) = Ok (T1 (map (Cmult z) y)).
Proof.
  unfold scalar_mult, tzip_bcast. cbn [trank Nat.max tpromote Nat.ltb Nat.leb tlift tzip_bcast_same].
  rewrite (bzip_left_one _ (cmul ROps z)) by (intros; reflexivity). reflexivity.
Qed.
Theorem scalar_mult_vector_scalar (x : list C) (z : C) :
  scalar_mult ROps (T1 x) (T0 z) = Ok (T1 (map (fun a => Cmult a z) x)).
Proof.
  unfold scalar_mult, tzip_bcast. cbn [trank Nat.max tpromote Nat.ltb Nat.leb tlift tzip_bcast_same].
  rewrite (bzip_right_one _ (cmul ROps)) by (intros; reflexivity). reflexivity.
Qed.
Theorem scalar_mult_scalar_matrix (z : C) (m : list (list C)) :
  scalar_mult ROps (T0 z) (T2 m) = Ok (T2 (map (map (Cmult z)) m)).
Proof.
  unfold scalar_mult, tzip_bcast. cbn [trank Nat.max tpromote Nat.ltb Nat.leb tlift tzip_bcast_same].
  rewrite (bzip_left_one _ (fun r => map (cmul ROps z) r)).
  - reflexivity.
  - intros r. apply (bzip_left_one _ (cmul ROps z)). intros; reflexivity.
Qed.
Theorem scalar_mult_scalars (a b : C) : scalar_mult ROps (T0 a) (T0 b) = Ok (T0 (Cmult a b)).
Proof. reflexivity. Qed.
Theorem scalar_mult_vectors_mismatch (x y : list C) :
  length x <> length y -> length x <> 1%nat -> length y <> 1%nat ->
  scalar_mult ROps (T1 x) (T1 y) = RuntimeErr.
Proof.
  intros. unfold scalar_mult, tzip_bcast. cbn [trank Nat.max tpromote Nat.ltb Nat.leb tzip_bcast_same].
  rewrite bzip_mismatch by assumption. reflexivity.
Qed.
(* the pointwise product is the complexification of the real Hadamard product *)
Theorem hadamard_is_complexified (x y : list C) :
  zipw Cmult x y =
  let p := complexify (vsub ROps) (vadd ROps) (vmul ROps) (re1 x) (im1 x) (re1 y) (im1 y) in cmb1 (fst p) (snd p).
Proof.
  unfold complexify; cbn [fst snd]. unfold vmul, re1, im1. rewrite vsub_R, vadd_R.
  rewrite !zipw_zipw_same, cmb1_zipw.
  revert y; induction x as [|a x IH]; intros [|b y]; try reflexivity.
  rewrite !zipw_cons. rewrite <- IH. reflexivity.
Qed.

Theorem elementwise_division_vectors (x y : list C) :
  elementwise_division ROps (T1 x) (T1 y) =
  if Nat.eqb (length x) (length y) then Ok (T1 (zipw Cdiv x y)) else ValueErr.
Proof.
  rewrite elementwise_division_is. cbn [tzip_strict]. destruct (Nat.eqb (length x) (length y)) eqn:E.
  - apply Nat.eqb_eq in E. rewrite (zip_opt_some _ Cdiv) by (intros; reflexivity || exact E). reflexivity.
  - apply Nat.eqb_neq in E. rewrite zip_opt_none by exact E. reflexivity.
Qed.

(* ------------------------------------------------------------------ make_complex / real / imag *)
Lemma zip_opt_join {A B X} (f : A -> B -> option X) (p1 : X -> A) (p2 : X -> B) zs :
  (forall c, f (p1 c) (p2 c) = Some c) -> zip_opt f (map p1 zs) (map p2 zs) = Some zs.
Proof. intros H. induction zs as [|c zs IH]; [reflexivity|]. cbn [map zip_opt]. rewrite H, IH. reflexivity. Qed.
Lemma zip_opt_split {A B X} (f : A -> B -> option X) (p1 : X -> A) (p2 : X -> B) xs ys zs :
  (forall a b c, f a b = Some c -> p1 c = a /\ p2 c = b) ->
  zip_opt f xs ys = Some zs -> map p1 zs = xs /\ map p2 zs = ys.
Proof.
  intros H. revert ys zs; induction xs as [|a xs IH]; intros [|b ys] zs E; cbn [zip_opt] in E; try discriminate.
  - injection E as <-. split; reflexivity.
  - destruct (f a b) as [c|] eqn:Ec; [|discriminate]. destruct (zip_opt f xs ys) as [cs|] eqn:Ecs; [|discriminate].
    injection E as <-. destruct (H _ _ _ Ec) as [Ha Hb]. destruct (IH _ _ Ecs) as [Hx Hy].
    cbn [map]. rewrite Ha, Hb, Hx, Hy. split; reflexivity.
Qed.

Theorem make_complex_of_parts (z : tens C) : make_complex (treal z) (timag z) = Ok z.
Proof.
  unfold make_complex, treal, timag.
  assert (H0 : forall c : C, (fun a b : R => Some (a, b)) (fst c) (snd c) = Some c) by (intros [? ?]; reflexivity).
  destruct z; cbn [tmap tzip_strict of_opt option_map].
  - destruct a; reflexivity.
  - rewrite zip_opt_join by exact H0. reflexivity.
  - rewrite zip_opt_join; [reflexivity|]. intros c. apply zip_opt_join, H0.
  - rewrite zip_opt_join; [reflexivity|]. intros c. apply zip_opt_join. intros c'. apply zip_opt_join, H0.
  - rewrite zip_opt_join; [reflexivity|]. intros c. apply zip_opt_join. intros c'. apply zip_opt_join.
    intros c''. apply zip_opt_join, H0.
Qed.

Theorem real_imag_of_make_complex (x y : tens R) (z : tens C) :
  make_complex x y = Ok z -> treal z = x /\ timag z = y.
Proof.
  unfold make_complex, treal, timag.
  assert (H0 : forall (a b : R) (c : C), Some (a, b) = Some c -> fst c = a /\ snd c = b)
    by (intros a b c E; injection E as <-; split; reflexivity).
  pose proof (fun xs ys zs => zip_opt_split (fun a b : R => Some (a, b)) fst snd xs ys zs H0) as H1.
  pose proof (fun xs ys zs => zip_opt_split _ (map fst) (map snd) xs ys zs H1) as H2.
  pose proof (fun xs ys zs => zip_opt_split _ (map (map fst)) (map (map snd)) xs ys zs H2) as H3.
  pose proof (fun xs ys zs => zip_opt_split _ (map (map (map fst))) (map (map (map snd))) xs ys zs H3) as H4.
  destruct x, y; cbn [tzip_strict of_opt option_map]; try discriminate.
  - intros E; injection E as <-. split; reflexivity.
  - destruct (zip_opt _ v v0) eqn:E; [|discriminate]. intros E'; injection E' as <-.
    destruct (H1 _ _ _ E) as [<- <-]. split; reflexivity.
  - destruct (zip_opt _ m m0) eqn:E; [|discriminate]. intros E'; injection E' as <-.
    destruct (H2 _ _ _ E) as [<- <-]. split; reflexivity.
  - destruct (zip_opt _ t t0) eqn:E; [|discriminate]. intros E'; injection E' as <-.
    destruct (H3 _ _ _ E) as [<- <-]. split; reflexivity.
  - destruct (zip_opt _ t t0) eqn:E; [|discriminate]. intros E'; injection E' as <-.
    destruct (H4 _ _ _ E) as [<- <-]. split; reflexivity.
Qed.


(* ------------------------------------------------------------------ products in [res] form, and rejects *)
Theorem inner_prod_vectors (x y : list C) :
  inner_prod ROps (T1 x) (T1 y) = if Nat.eqb (length x) (length y) then Ok (T0 (Cinner x y)) else RuntimeErr.
Proof. cbn [inner_prod]. rewrite inner_prod_v_is. destruct (Nat.eqb (length x) (length y)); reflexivity. Qed.
Theorem inner_prod_scalars (a b : C) : inner_prod ROps (T0 a) (T0 b) = Ok (T0 (Cmult (Cconj a) b)).
Proof. cbn [inner_prod]. rewrite inner_prod_s_is. reflexivity. Qed.
Theorem inner_prod_rejects_mixed_ranks (x y : tens C) :
  ~ (trank x = 0 /\ trank y = 0)%nat -> ~ (trank x = 1 /\ trank y = 1)%nat -> inner_prod ROps x y = ValueErr.
Proof.
  destruct x, y; cbn [inner_prod trank]; intros H0 H1; try reflexivity; exfalso; [apply H0 | apply H1]; split; reflexivity.
Qed.
Theorem outer_prod_vectors (x y : list C) : outer_prod ROps (T1 x) (T1 y) = Ok (T2 (Couter x y)).
Proof. cbn [outer_prod]. rewrite outer_prod_v_is. reflexivity. Qed.
Theorem outer_prod_rejects (x y : tens C) : (trank x <> 1 \/ trank y <> 1)%nat -> outer_prod ROps x y = ValueErr.
Proof. destruct x, y; cbn [outer_prod trank]; intros [H|H]; try reflexivity; exfalso; apply H; reflexivity. Qed.
Theorem kronecker_prod_matrices (x y : list (list C)) :
  kronecker_prod ROps (T2 x) (T2 y) =
  if rectb (ncols x) x && rectb (ncols y) y then Ok (T2 (Ckron x y)) else RuntimeErr.
Proof. cbn [kronecker_prod]. rewrite kron_m_is_Ckron. destruct (rectb (ncols x) x && rectb (ncols y) y); reflexivity. Qed.
Theorem kronecker_prod_rejects (x y : tens C) : (trank x <> 2 \/ trank y <> 2)%nat -> kronecker_prod ROps x y = ValueErr.
Proof. destruct x, y; cbn [kronecker_prod trank]; intros [H|H]; try reflexivity; exfalso; apply H; reflexivity. Qed.
Theorem matmul_matrices (x y : list (list C)) :
  matmul ROps (T2 x) (T2 y) =
  if rectb (length y) x && rectb (ncols y) y then Ok (T2 (Cmatmul (ncols y) x y)) else RuntimeErr.
Proof. cbn [matmul]. rewrite matmul_mm_is_Cmatmul. destruct (rectb (length y) x && rectb (ncols y) y); reflexivity. Qed.
Theorem matmul_matrix_vector (x : list (list C)) (v : list C) :
  matmul ROps (T2 x) (T1 v) = if rectb (length v) x then Ok (T1 (Cmatvec x v)) else RuntimeErr.
Proof. cbn [matmul]. rewrite matmul_mv_is_Cmatvec. destruct (rectb (length v) x); reflexivity. Qed.
Theorem elementwise_division_rejects_rank (x y : tens C) :
  trank x <> trank y -> elementwise_division ROps x y = ValueErr.
Proof. destruct x, y; cbn [trank]; intros H; try reflexivity; exfalso; apply H; reflexivity. Qed.
Theorem make_complex_rejects_rank (x y : tens R) : trank x <> trank y -> make_complex x y = RuntimeErr.
Proof. destruct x, y; cbn [trank]; intros H; try reflexivity; exfalso; apply H; reflexivity. Qed.
Theorem make_complex_rejects_length (x y : list R) : length x <> length y -> make_complex (T1 x) (T1 y) = RuntimeErr.
Proof. intros H. unfold make_complex. cbn [tzip_strict]. rewrite zip_opt_none by exact H. reflexivity. Qed.

(* ------------------------------------------------------------------ norms *)
Lemma Cmod_sq (z : C) : Cmod z * Cmod z = fst z * fst z + snd z * snd z.
Proof. unfold Cmod. rewrite sqrt_sqrt by nra. ring. Qed.
Lemma Cinner_self (x : list C) : Cinner x x = RtoC (sum ROps (map (fun z => Cmod z * Cmod z) x)).
Proof.
  unfold Cinner. induction x as [|a x IH]; [reflexivity|].
  rewrite zipw_cons. cbn [Csum fold_right map sum]. fold (Csum (zipw (fun a b => Cmult (Cconj a) b) x x)).
  rewrite IH, Cmod_sq. unfold Cplus, Cmult, Cconj, RtoC; cbn [fst snd nadd ROps]. apply (f_equal2 pair); ring.
Qed.
Theorem norm_sqr_vector (x : list C) : norm_sqr ROps (T1 x) = Ok (sum ROps (map (fun z => Cmod z * Cmod z) x)).
Proof. unfold norm_sqr. rewrite inner_prod_vectors, Nat.eqb_refl, Cinner_self. reflexivity. Qed.
Theorem norm_vector (x : list C) : norm ROps (T1 x) = Ok (sqrt (sum ROps (map (fun z => Cmod z * Cmod z) x))).
Proof. unfold norm. rewrite norm_sqr_vector. reflexivity. Qed.
Theorem norm_sqr_scalar (z : C) : norm_sqr ROps (T0 z) = Ok (Cmod z * Cmod z).
Proof.
  unfold norm_sqr. rewrite inner_prod_scalars. rewrite Cmod_sq.
  unfold Cmult, Cconj; cbn [fst snd]. f_equal. ring.
Qed.
Theorem norm_scalar (z : C) : norm ROps (T0 z) = Ok (Cmod z).
Proof.
  unfold norm. rewrite norm_sqr_scalar. cbn [nsqrt ROps]. f_equal. apply sqrt_square, Cmod_ge_0.
Qed.

(* ------------------------------------------------------------------ out= buffers *)
Theorem scalar_mult_out_rejects_identical (h : @heap R) x y out :
  b_id out = b_id x \/ b_id out = b_id y -> scalar_mult_out ROps h x y out = RuntimeErr.
Proof.
  intros [E|E]; unfold scalar_mult_out; rewrite E, Nat.eqb_refl, ?orb_true_r; reflexivity.
Qed.

(* the guard is identity-only: a distinct object sharing the storage of an operand is accepted, and
   the value left in the buffer is not the product (known finding F-C15-out-view) *)
Theorem rejects_view_aliasing_refuted :
  exists (h : @heap R) x y out h',
    b_id out <> b_id x /\ b_id out <> b_id y /\ b_store out = b_store x /\
    scalar_mult_out ROps h x y out = Ok (h', out) /\
    scalar_mult ROps (h (b_store x)) (h (b_store y)) <> Ok (h' (b_store out)).
Proof.
  exists (fun _ => T0 (1, 1)), (mkBuf 0 0), (mkBuf 1 1), (mkBuf 2 0).
  eexists. split; [cbn; lia|]. split; [cbn; lia|]. split; [reflexivity|]. split; [reflexivity|].
  cbn. intros E. injection E. intros. lra.
Qed.

Lemma upd_same (h : @heap R) s v : upd h s v s = v.
Proof. unfold upd. rewrite Nat.eqb_refl. reflexivity. Qed.
Lemma upd_other (h : @heap R) s v s' : s' <> s -> upd h s v s' = h s'.
Proof. intros H. unfold upd. apply Nat.eqb_neq in H. rewrite H. reflexivity. Qed.

Lemma wr_re_vec (f : R -> R -> R) (p : list R) (o o' : list C) :
  zip_opt (fun n o => Some (f (fst o) n, snd o)) p o = Some o' -> wr_re f (T1 p) (T1 o) = Some (T1 o').
Proof. intros E. unfold wr_re. cbn [tzip_strict]. change (@cx R) with C. rewrite E. reflexivity. Qed.
Lemma wr_im_vec (f : R -> R -> R) (p : list R) (o o' : list C) :
  zip_opt (fun n o => Some (fst o, f (snd o) n)) p o = Some o' -> wr_im f (T1 p) (T1 o) = Some (T1 o').
Proof. intros E. unfold wr_im. cbn [tzip_strict]. change (@cx R) with C. rewrite E. reflexivity. Qed.

Lemma out_step_vec (h : @heap R) out (g : R -> C -> C) w a b os :
  (forall p o o', zip_opt (fun n o => Some (g n o)) p o = Some o' -> w (T1 p) (T1 o) = Some (T1 o')) ->
  h (b_store out) = T1 os -> length a = length b -> length os = length a ->
  out_step ROps h out w (T1 a) (T1 b) = Some (upd h (b_store out) (T1 (zipw g (zipw Rmult a b) os))).
Proof.
  intros Hw Ho Hab Hos. unfold out_step, tzip_bcast. cbn [trank Nat.max tpromote Nat.ltb Nat.leb tzip_bcast_same].
  rewrite (bzip_same_length _ Rmult) by (intros; reflexivity || exact Hab). cbn [option_map].
  rewrite Ho. erewrite Hw; [reflexivity|]. apply (zip_opt_some _ g); [intros; reflexivity|].
  rewrite zipw_length, <- Hab, Nat.min_id. symmetry; exact Hos.
Qed.

Lemma four_writes (xs ys : list C) (os : list C) :
  length xs = length ys -> length os = length xs ->
  zipw (fun n o => (fst o, snd o + n)) (zipw Rmult (map snd xs) (map fst ys))
    (zipw (fun n o => (fst o, n)) (zipw Rmult (map fst xs) (map snd ys))
      (zipw (fun n o => (fst o - n, snd o)) (zipw Rmult (map snd xs) (map snd ys))
        (zipw (fun n o => (n, snd o)) (zipw Rmult (map fst xs) (map fst ys)) os)))
  = zipw Cmult xs ys.
Proof.
  revert ys os; induction xs as [|a xs IH]; intros [|b ys] [|o os] H1 H2; try discriminate; [reflexivity|].
  cbn [map]. rewrite !zipw_cons. cbn [fst snd]. rewrite IH by (simpl in *; lia). reflexivity.
Qed.

(* TARGET (not proved): the same statement for every pair of broadcastable operands of rank <= 4 and an
   output buffer of the broadcast shape (it needs a shape calculus for the bzip tower).  Proved below for
   vectors of equal length (and, by computation, scalars). *)
Theorem scalar_mult_out_fresh_partial (h : @heap R) x y out (xs ys os : list C) :
  b_id out <> b_id x -> b_id out <> b_id y -> b_store out <> b_store x -> b_store out <> b_store y ->
  h (b_store x) = T1 xs -> h (b_store y) = T1 ys -> h (b_store out) = T1 os ->
  length xs = length ys -> length os = length xs ->
  exists h', scalar_mult_out ROps h x y out = Ok (h', out)
             /\ h' (b_store out) = T1 (zipw Cmult xs ys)
             /\ (forall s, s <> b_store out -> h' s = h s).
Proof.
  intros Ix Iy Sx Sy Hx Hy Ho Lxy Los.
  unfold scalar_mult_out. apply Nat.eqb_neq in Ix, Iy. rewrite Ix, Iy. cbn [orb].
  assert (Sx' : b_store x <> b_store out) by congruence. assert (Sy' : b_store y <> b_store out) by congruence.
  assert (Lm : forall (f g : C -> R), length (map f xs) = length (map g ys)) by (intros; rewrite !map_length; exact Lxy).
  assert (Lo : forall (f : C -> R) (o' : list C), length o' = length os -> length o' = length (map f xs))
    by (intros f o' Ho'; rewrite map_length; etransitivity; [exact Ho' | exact Los]).
  rewrite Hx, Hy. cbn [treal timag tmap].
  rewrite (out_step_vec h out (fun n o => (n, snd o)) _ _ _ os); [| exact (wr_re_vec (@keep_new R)) | exact Ho | apply Lm | apply Lo; reflexivity].
  set (h1 := upd h _ _).
  assert (H1x : h1 (b_store x) = T1 xs) by (unfold h1; rewrite upd_other by exact Sx'; exact Hx).
  assert (H1y : h1 (b_store y) = T1 ys) by (unfold h1; rewrite upd_other by exact Sy'; exact Hy).
  rewrite H1x, H1y. cbn [treal timag tmap].
  erewrite (out_step_vec h1 out (fun n o => (fst o - n, snd o)));
    [| exact (wr_re_vec Rminus) | apply upd_same | apply Lm | apply Lo; rewrite zipw_length, zipw_length, !map_length; unfold cx, C in *; lia].
  set (h2 := upd h1 _ _).
  assert (H2x : h2 (b_store x) = T1 xs) by (unfold h2; rewrite upd_other by exact Sx'; exact H1x).
  assert (H2y : h2 (b_store y) = T1 ys) by (unfold h2; rewrite upd_other by exact Sy'; exact H1y).
  rewrite H2x, H2y. cbn [treal timag tmap].
  erewrite (out_step_vec h2 out (fun n o => (fst o, n)));
    [| exact (wr_im_vec (@keep_new R)) | apply upd_same | apply Lm | apply Lo; rewrite !zipw_length, !map_length; unfold cx, C in *; lia].
  set (h3 := upd h2 _ _).
  assert (H3x : h3 (b_store x) = T1 xs) by (unfold h3; rewrite upd_other by exact Sx'; exact H2x).
  assert (H3y : h3 (b_store y) = T1 ys) by (unfold h3; rewrite upd_other by exact Sy'; exact H2y).
  rewrite H3x, H3y. cbn [treal timag tmap].
  erewrite (out_step_vec h3 out (fun n o => (fst o, snd o + n)));
    [| exact (wr_im_vec Rplus) | apply upd_same | apply Lm | apply Lo; rewrite !zipw_length, !map_length; unfold cx, C in *; lia].
  eexists. split; [reflexivity|]. split.
  - rewrite upd_same. f_equal. apply four_writes; assumption.
  - intros s Hs. rewrite upd_other by exact Hs. unfold h3. rewrite upd_other by exact Hs.
    unfold h2. rewrite upd_other by exact Hs. unfold h1. apply upd_other, Hs.
Qed.

Example fresh_buffer_hypotheses_satisfiable :
  exists (h : @heap R) x y out xs ys os,
    b_id out <> b_id x /\ b_id out <> b_id y /\ b_store out <> b_store x /\ b_store out <> b_store y /\
    h (b_store x) = T1 xs /\ h (b_store y) = T1 ys /\ h (b_store out) = T1 os /\
    length xs = length ys /\ length os = length xs /\ xs <> [].
Proof.
  exists (fun _ => T1 [(1, 2)]), (mkBuf 0 0), (mkBuf 1 1), (mkBuf 2 2), [(1, 2)], [(1, 2)], [(1, 2)].
  cbn. repeat split; try lia; discriminate.
Qed.

(* ------------------------------------------------------------------ the hypotheses of the meta-theorem are met by torch.dot
   (hence by every entry of matmul / "b,bg->g") and by the entries of the Hadamard product *)
Lemma dot_scl_l c (u w : list R) : dot ROps (vscale ROps c u) w = c * dot ROps u w.
Proof.
  rewrite vscale_R. revert w; induction u as [|a u IH]; intros [|b w]; cbn [map dot n0 nadd nmul ROps]; try ring.
  rewrite IH. ring.
Qed.
Lemma dot_scl_r c (u w : list R) : dot ROps u (vscale ROps c w) = c * dot ROps u w.
Proof.
  rewrite vscale_R. revert w; induction u as [|a u IH]; intros [|b w]; cbn [map dot n0 nadd nmul ROps]; try ring.
  rewrite IH. ring.
Qed.
Lemma dot_add_l n (u u' w : list R) : length u = n -> length u' = n -> length w = n ->
  dot ROps (vadd ROps u u') w = dot ROps u w + dot ROps u' w.
Proof.
  revert u u' w; induction n as [|n IH]; intros [|a u] [|a' u'] [|b w] H1 H2 H3; try discriminate.
  - cbn. ring.
  - rewrite vadd_R, zipw_cons, <- vadd_R. cbn [dot nadd nmul ROps]. rewrite IH by (simpl in *; lia). ring.
Qed.
Lemma dot_sub_l n (u u' w : list R) : length u = n -> length u' = n -> length w = n ->
  dot ROps (vsub ROps u u') w = dot ROps u w - dot ROps u' w.
Proof.
  revert u u' w; induction n as [|n IH]; intros [|a u] [|a' u'] [|b w] H1 H2 H3; try discriminate.
  - cbn. ring.
  - rewrite vsub_R, zipw_cons, <- vsub_R. cbn [dot nadd nmul ROps]. rewrite IH by (simpl in *; lia). ring.
Qed.
Lemma dot_add_r n (u w w' : list R) : length u = n -> length w = n -> length w' = n ->
  dot ROps u (vadd ROps w w') = dot ROps u w + dot ROps u w'.
Proof.
  revert u w w'; induction n as [|n IH]; intros [|a u] [|b w] [|b' w'] H1 H2 H3; try discriminate.
  - cbn. ring.
  - rewrite vadd_R, zipw_cons, <- vadd_R. cbn [dot nadd nmul ROps]. rewrite IH by (simpl in *; lia). ring.
Qed.
Lemma dot_sub_r n (u w w' : list R) : length u = n -> length w = n -> length w' = n ->
  dot ROps u (vsub ROps w w') = dot ROps u w - dot ROps u w'.
Proof.
  revert u w w'; induction n as [|n IH]; intros [|a u] [|b w] [|b' w'] H1 H2 H3; try discriminate.
  - cbn. ring.
  - rewrite vsub_R, zipw_cons, <- vsub_R. cbn [dot nadd nmul ROps]. rewrite IH by (simpl in *; lia). ring.
Qed.
Lemma vscale_length c (u : list R) n : length u = n -> length (vscale ROps c u) = n.
Proof. intros H. rewrite vscale_R, map_length. exact H. Qed.

Definition len_is (n : nat) (v : list R) : Prop := length v = n.

(* instance: B = torch.dot on vectors of length n *)
Theorem complexified_dot (n : nat) :
  let bc := bC (list R) (list R) (dot ROps) in
  let okc := okVC (list R) (len_is n) in
  (forall u w, len_is n u -> len_is n w ->
      bc (realV (list R) (vscale ROps) u) (realW (list R) (vscale ROps) w) = RtoC (dot ROps u w))
  /\ (forall a a' c, okc a -> okc a' -> okc c ->
      bc (addVC (list R) (vadd ROps) a a') c = Cplus (bc a c) (bc a' c))
  /\ (forall a c c', okc a -> okc c -> okc c' ->
      bc a (addWC (list R) (vadd ROps) c c') = Cplus (bc a c) (bc a c'))
  /\ (forall z a c, okc a -> okc c ->
      bc (sclVC (list R) (vadd ROps) (vsub ROps) (vscale ROps) z a) c = Cmult z (bc a c))
  /\ (forall z a c, okc a -> okc c ->
      bc a (sclWC (list R) (vadd ROps) (vsub ROps) (vscale ROps) z c) = Cmult z (bc a c)).
Proof.
  cbv zeta.
  apply (complexified_bilinear (list R) (list R) (vadd ROps) (vsub ROps) (vscale ROps) (len_is n)
                               (vadd ROps) (vsub ROps) (vscale ROps) (len_is n)).
  - intros c u; apply vscale_length.
  - intros c u; apply vscale_length.
  - intros u u' w; apply dot_add_l.
  - intros u u' w; apply dot_sub_l.
  - intros c u w _ _; apply dot_scl_l.
  - intros u w w'; apply dot_add_r.
  - intros u w w'; apply dot_sub_r.
  - intros c u w _ _; apply dot_scl_r.
Qed.

(* and the complexified dot is the native complex dot product of the encoded vectors *)
Theorem complexified_dot_is_Cdot (x y : list C) :
  bC (list R) (list R) (dot ROps) (re1 x, im1 x) (re1 y, im1 y) = Cdot x y.
Proof. unfold bC, complexify; cbn [fst snd]. apply Cdot_parts. Qed.

Example complexified_dot_hypotheses_satisfiable :
  okVC (list R) (len_is 2) ([1; 2], [3; -1]) /\ dot ROps [1; 2] [3; -1] = 1.
Proof. split; [split; reflexivity | cbn; ring]. Qed.


Theorem elementwise_division_rejects_length (u v : list C) :
  length u <> length v -> elementwise_division ROps (T1 u) (T1 v) = ValueErr.
Proof.
  intros H. rewrite elementwise_division_vectors. apply Nat.eqb_neq in H. rewrite H. reflexivity.
Qed.
Theorem inner_prod_rejects_length (u v : list C) :
  length u <> length v -> inner_prod ROps (T1 u) (T1 v) = RuntimeErr.
Proof.
  intros H. rewrite inner_prod_vectors. apply Nat.eqb_neq in H. rewrite H. reflexivity.
Qed.

(* ------------------------------------------------------------------ sigmoid: numpy broadcasting of the two real arguments *)
Local Notation Csig := (fun a b : R => Cdiv (Cexp (a, b)) (Cplus (RtoC 1) (Cexp (a, b)))).
Theorem sigmoid_vectors (x y : list R) :
  length x = length y -> sigmoid ROps (T1 x) (T1 y) = Ok (T1 (zipw Csig x y)).
Proof.
  intros Hl. rewrite sigmoid_is. unfold tzip_bcast. cbn [trank Nat.max tpromote Nat.ltb Nat.leb tzip_bcast_same].
  rewrite (bzip_same_length _ Csig) by (intros; reflexivity || exact Hl). reflexivity.
Qed.
Theorem sigmoid_broadcast_left (a : R) (y : list R) :
  sigmoid ROps (T1 [a]) (T1 y) = Ok (T1 (map (Csig a) y)) /\ sigmoid ROps (T0 a) (T1 y) = Ok (T1 (map (Csig a) y)).
Proof.
  split; rewrite sigmoid_is; unfold tzip_bcast; cbn [trank Nat.max tpromote Nat.ltb Nat.leb tlift tzip_bcast_same];
    rewrite (bzip_left_one _ (Csig a)) by (intros; reflexivity); reflexivity.
Qed.
Theorem sigmoid_broadcast_right (x : list R) (b : R) :
  sigmoid ROps (T1 x) (T1 [b]) = Ok (T1 (map (fun a => Csig a b) x)).
Proof.
  rewrite sigmoid_is. unfold tzip_bcast. cbn [trank Nat.max tpromote Nat.ltb Nat.leb tlift tzip_bcast_same].
  rewrite (bzip_right_one _ Csig) by (intros; reflexivity). reflexivity.
Qed.
Theorem sigmoid_rejects_non_broadcastable (x y : list R) :
  length x <> length y -> length x <> 1%nat -> length y <> 1%nat -> sigmoid ROps (T1 x) (T1 y) = ValueErr.
Proof.
  intros. rewrite sigmoid_is. unfold tzip_bcast. cbn [trank Nat.max tpromote Nat.ltb Nat.leb tzip_bcast_same].
  rewrite bzip_mismatch by assumption. reflexivity.
Qed.
