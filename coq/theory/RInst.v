(* RInst.v — the real-number instance of NumOps and basic list lemmas at R. *)
From Coq Require Import List ZArith Bool Reals Lra Lia.
From QModel Require Import Num.
Import ListNotations.
Open Scope R_scope.

(* atan2 from atan and PI, with the usual branch conventions *)
Definition Ratan2 (y x : R) : R :=
  if Rlt_dec 0 x then atan (y / x)
  else if Rlt_dec x 0 then (if Rle_dec 0 y then atan (y / x) + PI else atan (y / x) - PI)
  else if Rlt_dec 0 y then PI / 2
  else if Rlt_dec y 0 then - (PI / 2) else 0.

Definition ROps : NumOps R :=
  mkNumOps R 0 1 Rplus Rminus Rmult Rdiv Ropp exp ln sqrt cos sin Ratan2 IZR
           (fun a b => if Rlt_dec a b then true else false) Rabs.

Lemma two_R : two ROps = 2. Proof. unfold two; simpl; lra. Qed.
Lemma half_R x : half ROps x = x / 2. Proof. unfold half; rewrite two_R; reflexivity. Qed.
Lemma softplus_R x : softplus ROps x = ln (1 + exp x). Proof. reflexivity. Qed.
Lemma sigmoid_R x : sigmoid ROps x = 1 / (1 + exp (- x)). Proof. reflexivity. Qed.
Lemma b2t_R b : b2t ROps b = if b then 1 else 0. Proof. reflexivity. Qed.

Lemma sigmoid_alt x : sigmoid ROps x = exp x / (1 + exp x).
Proof.
  rewrite sigmoid_R, exp_Ropp.
  pose proof (exp_pos x). field. split; lra.
Qed.

Lemma one_plus_exp_pos x : 0 < 1 + exp x.
Proof. pose proof (exp_pos x); lra. Qed.

Lemma exp_softplus x : exp (softplus ROps x) = 1 + exp x.
Proof. rewrite softplus_R, exp_ln; [reflexivity | apply one_plus_exp_pos]. Qed.

Lemma sum_app (xs ys : list R) : sum ROps (xs ++ ys) = sum ROps xs + sum ROps ys.
Proof. induction xs as [|x xs IH]; simpl; [lra | rewrite IH; lra]. Qed.

Lemma sum_map_plus {A} (f g : A -> R) l :
  sum ROps (map (fun a => f a + g a) l) = sum ROps (map f l) + sum ROps (map g l).
Proof. induction l as [|a l IH]; simpl; [lra | rewrite IH; lra]. Qed.

Lemma sum_map_scal {A} c (f : A -> R) l :
  sum ROps (map (fun a => c * f a) l) = c * sum ROps (map f l).
Proof. induction l as [|a l IH]; simpl; [lra | rewrite IH; lra]. Qed.

Lemma sum_map_ext {A} (f g : A -> R) l :
  (forall a, In a l -> f a = g a) -> sum ROps (map f l) = sum ROps (map g l).
Proof.
  induction l as [|a l IH]; simpl; intros H; [reflexivity|].
  rewrite (H a (or_introl eq_refl)), IH; [reflexivity | intros; apply H; right; assumption].
Qed.

Lemma exp_sum (xs : list R) : exp (sum ROps xs) = prod ROps (map exp xs).
Proof. induction xs as [|x xs IH]; simpl; [apply exp_0 | rewrite exp_plus, IH; reflexivity]. Qed.

Lemma sum_nonneg (xs : list R) : (forall x, In x xs -> 0 <= x) -> 0 <= sum ROps xs.
Proof.
  induction xs as [|x xs IH]; simpl; intros H; [lra|].
  pose proof (H x (or_introl eq_refl)). assert (0 <= sum ROps xs) by (apply IH; intros; apply H; right; assumption). lra.
Qed.

Lemma sum_pos (xs : list R) : xs <> [] -> (forall x, In x xs -> 0 < x) -> 0 < sum ROps xs.
Proof.
  induction xs as [|x xs IH]; simpl; intros Hne H; [congruence|].
  pose proof (H x (or_introl eq_refl)) as Hx.
  destruct xs as [|y ys]; [simpl; lra|].
  assert (0 < sum ROps (y :: ys)) by (apply IH; [discriminate | intros; apply H; right; assumption]). lra.
Qed.
