(* GradR.v — C03: the gradients computed by the model (coq/model/Grads.v, Rbm.v) are the exact
   derivatives of the negative log-likelihood; layout of the flat gradient vector; the positive
   phase is the mean of per-sample gradients for any grouping; the compute_exact_grads alias.

   Derivatives are Coquelicot [is_derive] along an arbitrary line  theta + t * delta  in the
   parameter space of a network ([b_line], [p_line]); the derivative is the pairing
   [dot gradient (flatten delta)].  Taking delta = the k-th unit vector of the flat layout gives
   the k-th partial derivative = the k-th entry of the gradient vector ([*_coord] corollaries). *)
From Coq Require Import List ZArith Bool Arith Reals Lra Lia Permutation Sorted.
From Coquelicot Require Import Coquelicot.
From QModel Require Import Num Bits Rbm States CBase Unitaries Grads.
From QTheory Require Import RInst SumBits Born Deriv.
Import ListNotations.
Open Scope R_scope.

(* ================================================================== A. layout (no arithmetic) *)
Section LayoutT.
  Context {A : Type}.

  Lemma firstn_app_exact (a b : list A) : firstn (length a) (a ++ b) = a.
  Proof. induction a as [|x a IH]; simpl; [destruct b; reflexivity | rewrite IH; reflexivity]. Qed.

  Lemma skipn_app_exact (a b : list A) : skipn (length a) (a ++ b) = b.
  Proof. induction a as [|x a IH]; simpl; [reflexivity | exact IH]. Qed.

  Lemma chunk_concat (m : list (list A)) c :
    List.Forall (fun row => length row = c) m -> chunk (length m) c (concat m) = m.
  Proof.
    induction 1 as [|row m Hr _ IH]; simpl; [reflexivity|].
    rewrite <- Hr, firstn_app_exact, skipn_app_exact. rewrite Hr, IH. reflexivity.
  Qed.

  Lemma concat_length_rows (m : list (list A)) c :
    List.Forall (fun row => length row = c) m -> length (concat m) = (length m * c)%nat.
  Proof. induction 1 as [|row m Hr _ IH]; simpl; [reflexivity|]. rewrite app_length, IH, Hr. reflexivity. Qed.

  Lemma concat_chunk r c (v : list A) : length v = (r * c)%nat -> concat (chunk r c v) = v.
  Proof.
    revert v; induction r as [|r IH]; intros v H; simpl in *.
    - destruct v; [reflexivity | discriminate].
    - rewrite IH; [apply firstn_skipn|]. rewrite skipn_length. lia.
  Qed.

  Lemma chunk_length r c (v : list A) : length (chunk r c v) = r.
  Proof. revert v; induction r as [|r IH]; intros v; simpl; [reflexivity | rewrite IH; reflexivity]. Qed.

  Lemma chunk_rows r c (v : list A) :
    length v = (r * c)%nat -> List.Forall (fun row => length row = c) (chunk r c v).
  Proof.
    revert v; induction r as [|r IH]; intros v H; simpl in *; constructor.
    - rewrite firstn_length. lia.
    - apply IH. rewrite skipn_length. lia.
  Qed.

  Lemma view_flat1 (p : ptensor A) : wf_tensor p -> view (shape_of p) (flat1 p) = p.
  Proof.
    destruct p as [m|v]; simpl; intros H; [|reflexivity].
    rewrite chunk_concat by exact H. reflexivity.
  Qed.

  Lemma numel_shape_of (p : ptensor A) : wf_tensor p -> numel (shape_of p) = length (flat1 p).
  Proof.
    destruct p as [m|v]; simpl; intros H; [|reflexivity].
    symmetry. apply concat_length_rows. exact H.
  Qed.

  (* vector_to_grads followed by reading the tensors back in parameters() order is the identity *)
  Theorem layout_roundtrip (ps : list (ptensor A)) :
    List.Forall wf_tensor ps -> vector_to_grads (map shape_of ps) (parameters_to_vector ps) = ps.
  Proof.
    induction 1 as [|p ps Hp _ IH]; [reflexivity|].
    unfold parameters_to_vector in *. cbn [map flat_map vector_to_grads].
    rewrite (numel_shape_of p Hp), firstn_app_exact, skipn_app_exact, (view_flat1 p Hp), IH.
    reflexivity.
  Qed.

  (* and conversely: flattening what vector_to_grads produced gives the vector back *)
  Lemma flat1_view s (v : list A) : length v = numel s -> flat1 (view s v) = v.
  Proof. destruct s as [r c|n]; simpl; intros H; [apply concat_chunk; exact H | reflexivity]. Qed.

  Fixpoint total (shapes : list pshape) : nat :=
    match shapes with [] => 0%nat | s :: r => (numel s + total r)%nat end.

  Theorem layout_roundtrip_vec (shapes : list pshape) (vec : list A) :
    length vec = total shapes -> parameters_to_vector (vector_to_grads shapes vec) = vec.
  Proof.
    unfold parameters_to_vector.
    revert vec; induction shapes as [|s shapes IH]; intros vec H; cbn [total vector_to_grads flat_map] in *.
    - destruct vec; [reflexivity | discriminate].
    - rewrite flat1_view by (rewrite firstn_length; lia).
      rewrite IH by (rewrite skipn_length; lia).
      apply firstn_skipn.
  Qed.

  Lemma split_blocks_cons (a rest : list A) sizes :
    split_blocks (length a :: sizes) (a ++ rest) = a :: split_blocks sizes rest.
  Proof. cbn [split_blocks]. rewrite firstn_app_exact, skipn_app_exact. reflexivity. Qed.

  Lemma split_blocks_last (e : list A) : split_blocks [length e] e = [e].
  Proof. cbn [split_blocks]. rewrite firstn_all. reflexivity. Qed.

  Lemma split_blocks_app3 (a b c : list A) :
    split_blocks [length a; length b; length c] (a ++ b ++ c) = [a; b; c].
  Proof. rewrite !split_blocks_cons, split_blocks_last. reflexivity. Qed.

  Lemma split_blocks_app5 (a b c d e : list A) :
    split_blocks [length a; length b; length c; length d; length e] (a ++ b ++ c ++ d ++ e) = [a; b; c; d; e].
  Proof. rewrite !split_blocks_cons, split_blocks_last. reflexivity. Qed.
End LayoutT.

(* ================================================================== B. energy gradients *)
Definition b_shaped (nh nv : nat) (r : brbm (T:=R)) : Prop :=
  length (bW r) = nh /\ List.Forall (fun row => length row = nv) (bW r) /\
  length (bb r) = nv /\ length (bc r) = nh.

(* the line  theta + t * delta  in the parameter space of a BinaryRBM *)
Definition b_line (th de : brbm (T:=R)) (t : R) : brbm :=
  mkB (mline (bW th) (bW de) t) (vline (bb th) (bb de) t) (vline (bc th) (bc de) t).

Lemma b_line_shaped nh nv th de t :
  b_shaped nh nv th -> b_shaped nh nv de -> b_shaped nh nv (b_line th de t).
Proof.
  intros (H1 & H2 & H3 & H4) (K1 & K2 & K3 & K4). unfold b_shaped, b_line; cbn [bW bb bc].
  repeat split.
  - rewrite mline_length; congruence.
  - apply mline_rows; assumption.
  - rewrite vline_length; congruence.
  - rewrite vline_length; congruence.
Qed.

Lemma Forall2_same_len (W D : list (list R)) c :
  length W = length D -> List.Forall (fun r => length r = c) W -> List.Forall (fun r => length r = c) D ->
  List.Forall2 (fun r d => length r = length d) W D.
Proof.
  intros HL HW; revert D HL; induction HW as [|r W Hr HW IH]; intros [|d D] HL HD; try discriminate; constructor.
  - inversion HD; subst; congruence.
  - apply IH; [simpl in HL; lia | inversion HD; assumption].
Qed.

Lemma b_energy_line nh nv th de v t :
  b_shaped nh nv th -> b_shaped nh nv de ->
  b_eff_energy ROps (b_line th de t) v =
  - ((dotb ROps (bb th) v + t * dotb ROps (bb de) v)
     + sum ROps (map (softplus ROps)
         (vline (linearb ROps (bW th) (bc th) v) (linearb ROps (bW de) (bc de) v) t))).
Proof.
  intros (H1 & H2 & H3 & H4) (K1 & K2 & K3 & K4).
  unfold b_eff_energy, b_line; cbn [bW bb bc nopp nadd ROps].
  rewrite dotb_vline by congruence.
  rewrite linearb_line; [reflexivity | apply (Forall2_same_len _ _ nv); congruence | congruence].
Qed.

Lemma b_prob_h_line nh nv th de v t :
  b_shaped nh nv th -> b_shaped nh nv de ->
  b_prob_h_given_v ROps (b_line th de t) v =
  map (sigmoid ROps) (vline (linearb ROps (bW th) (bc th) v) (linearb ROps (bW de) (bc de) v) t).
Proof.
  intros (H1 & H2 & H3 & H4) (K1 & K2 & K3 & K4).
  unfold b_prob_h_given_v, b_line; cbn [bW bb bc].
  rewrite linearb_line; [reflexivity | apply (Forall2_same_len _ _ nv); congruence | congruence].
Qed.

Lemma b_flatten_eq (de : brbm (T:=R)) : b_flatten de = concat (bW de) ++ bb de ++ bc de.
Proof. unfold b_flatten, parameters_to_vector, b_params. cbn [flat_map flat1]. rewrite app_nil_r. reflexivity. Qed.

Lemma b_prob_h_length nh nv r v : b_shaped nh nv r -> length (b_prob_h_given_v ROps r v) = nh.
Proof.
  intros (H1 & H2 & H3 & H4). unfold b_prob_h_given_v. rewrite map_length, linearb_length'; congruence.
Qed.

Lemma vopp_length (x : list R) : length (vopp ROps x) = length x.
Proof. unfold vopp; apply map_length. Qed.

(* the pairing of the energy gradient with a direction *)
Lemma b_energy_grad_dot nh nv r de v :
  b_shaped nh nv r -> b_shaped nh nv de -> length v = nv ->
  dot ROps (b_energy_grad ROps r v) (b_flatten de) =
  - (dotb ROps (bb de) v + dot ROps (b_prob_h_given_v ROps r v) (linearb ROps (bW de) (bc de) v)).
Proof.
  intros Hr (K1 & K2 & K3 & K4) Hv.
  pose proof (b_prob_h_length nh nv r v Hr) as Hp.
  unfold b_energy_grad. rewrite b_flatten_eq.
  rewrite dot_app.
  2:{ rewrite vopp_length, outerb_length, Hp, (concat_length_rect _ nv) by exact K2. congruence. }
  rewrite dot_app by (rewrite vopp_length, map_length; congruence).
  rewrite !dot_vopp_l, dot_outerb by (rewrite Hv; exact K2).
  rewrite dot_bvec, dot_linearb by congruence. ring.
Qed.

Lemma b_energy_grad_length nh nv r v :
  b_shaped nh nv r -> length v = nv -> length (b_energy_grad ROps r v) = b_num_pars r.
Proof.
  intros Hr Hv. pose proof (b_prob_h_length nh nv r v Hr) as Hp. destruct Hr as (H1 & H2 & H3 & H4).
  unfold b_energy_grad, b_num_pars. rewrite !app_length, !vopp_length, outerb_length, map_length, Hp. lia.
Qed.

(* C03.1 — every directional (hence every partial) derivative of the effective energy is the
   pairing of the model's energy gradient with the direction *)
Theorem energy_grad_binary nh nv th de v t0 :
  b_shaped nh nv th -> b_shaped nh nv de -> length v = nv ->
  is_derive (fun t => b_eff_energy ROps (b_line th de t) v) t0
            (dot ROps (b_energy_grad ROps (b_line th de t0) v) (b_flatten de)).
Proof.
  intros Hth Hde Hv.
  rewrite (b_energy_grad_dot nh nv) by (try apply b_line_shaped; assumption).
  rewrite (b_prob_h_line nh nv) by assumption.
  apply (is_derive_ext (fun t => - ((dotb ROps (bb th) v + t * dotb ROps (bb de) v)
     + sum ROps (map (softplus ROps)
         (vline (linearb ROps (bW th) (bc th) v) (linearb ROps (bW de) (bc de) v) t))))).
  { intros t. symmetry. apply (b_energy_line nh nv); assumption. }
  apply (is_derive_opp (V:=R_NormedModule)).
  apply (is_derive_plus (V:=R_NormedModule)).
  - auto_derive; [exact I | ring].
  - apply is_derive_sum_softplus_line.
    destruct Hth as (H1 & H2 & H3 & H4), Hde as (K1 & K2 & K3 & K4).
    rewrite !linearb_length'; congruence.
Qed.

(* ---- PurificationRBM: reduce to the BinaryRBM with stacked weights (W ++ U) and hidden biases (c ++ d);
        the flat layouts coincide:  concat (W ++ U) ++ b ++ (c ++ d) = concat W ++ concat U ++ b ++ c ++ d *)
Definition p_shaped (nh na nv : nat) (r : prbm (T:=R)) : Prop :=
  length (pW r) = nh /\ List.Forall (fun row => length row = nv) (pW r) /\
  length (pU r) = na /\ List.Forall (fun row => length row = nv) (pU r) /\
  length (pb r) = nv /\ length (pc r) = nh /\ length (pd r) = na.

Definition p_line (th de : prbm (T:=R)) (t : R) : prbm :=
  mkP (mline (pW th) (pW de) t) (mline (pU th) (pU de) t)
      (vline (pb th) (pb de) t) (vline (pc th) (pc de) t) (vline (pd th) (pd de) t).

Lemma p_stack_shaped nh na nv r : p_shaped nh na nv r -> b_shaped (nh + na) nv (p_stack_binary r).
Proof.
  intros (H1 & H2 & H3 & H4 & H5 & H6 & H7). unfold b_shaped, p_stack_binary; cbn [bW bb bc].
  repeat split.
  - rewrite app_length; congruence.
  - apply Forall_app; split; assumption.
  - exact H5.
  - rewrite app_length; congruence.
Qed.

Lemma vline_app x1 x2 d1 d2 t :
  length x1 = length d1 -> vline (x1 ++ x2) (d1 ++ d2) t = vline x1 d1 t ++ vline x2 d2 t.
Proof.
  revert d1; induction x1 as [|a x1 IH]; intros [|b d1] H; try discriminate; [reflexivity|].
  cbn [app]. rewrite !vline_cons, IH by (simpl in H; lia). reflexivity.
Qed.

Lemma mline_app W1 W2 D1 D2 t :
  length W1 = length D1 -> mline (W1 ++ W2) (D1 ++ D2) t = mline W1 D1 t ++ mline W2 D2 t.
Proof.
  revert D1; induction W1 as [|a W1 IH]; intros [|b D1] H; try discriminate; [reflexivity|].
  cbn [app]. rewrite !mline_cons, IH by (simpl in H; lia). reflexivity.
Qed.

Lemma p_stack_line nh na nv th de t :
  p_shaped nh na nv th -> p_shaped nh na nv de ->
  p_stack_binary (p_line th de t) = b_line (p_stack_binary th) (p_stack_binary de) t.
Proof.
  intros (H1 & H2 & H3 & H4 & H5 & H6 & H7) (K1 & K2 & K3 & K4 & K5 & K6 & K7).
  unfold p_stack_binary, p_line, b_line; cbn [pW pU pb pc pd bW bb bc].
  rewrite mline_app, vline_app by congruence. reflexivity.
Qed.

Lemma linearb_app (W U : list (list R)) c d v :
  length W = length c -> linearb ROps (W ++ U) (c ++ d) v = linearb ROps W c v ++ linearb ROps U d v.
Proof.
  revert c; induction W as [|r W IH]; intros [|x c] H; try discriminate; [reflexivity|].
  cbn [app]. rewrite !linearb_cons, IH by (simpl in H; lia). reflexivity.
Qed.

Lemma p_energy_stack nh na nv r v :
  p_shaped nh na nv r -> p_eff_energy ROps r v = b_eff_energy ROps (p_stack_binary r) v.
Proof.
  intros (H1 & H2 & H3 & H4 & H5 & H6 & H7).
  unfold p_eff_energy, b_eff_energy, p_stack_binary; cbn [bW bb bc nopp nadd ROps].
  rewrite linearb_app by congruence. rewrite map_app, sum_app. ring.
Qed.

Lemma outerb_app (p q : list R) v : outerb ROps (p ++ q) v = outerb ROps p v ++ outerb ROps q v.
Proof. unfold outerb. apply flat_map_app. Qed.

Lemma p_grad_stack nh na nv r v :
  p_shaped nh na nv r -> p_energy_grad ROps r v = b_energy_grad ROps (p_stack_binary r) v.
Proof.
  intros (H1 & H2 & H3 & H4 & H5 & H6 & H7).
  unfold p_energy_grad, b_energy_grad, b_prob_h_given_v, p_prob_h_given_v, p_prob_a_given_v, p_stack_binary;
    cbn [bW bb bc].
  rewrite linearb_app by congruence. rewrite map_app, outerb_app.
  unfold vopp. rewrite !map_app, <- !app_assoc. reflexivity.
Qed.

Lemma p_flatten_stack (de : prbm (T:=R)) : p_flatten de = b_flatten (p_stack_binary de).
Proof.
  rewrite b_flatten_eq. unfold p_flatten, parameters_to_vector, p_params, p_stack_binary; cbn [flat_map flat1 bW bb bc].
  rewrite concat_app, app_nil_r, <- !app_assoc. reflexivity.
Qed.

Lemma p_num_pars_stack nh na nv r : p_shaped nh na nv r -> p_num_pars r = b_num_pars (p_stack_binary r).
Proof.
  intros (H1 & H2 & H3 & H4 & H5 & H6 & H7). unfold p_num_pars, b_num_pars, p_stack_binary; cbn [bW bb bc].
  rewrite !app_length. lia.
Qed.

Lemma p_line_shaped nh na nv th de t :
  p_shaped nh na nv th -> p_shaped nh na nv de -> p_shaped nh na nv (p_line th de t).
Proof.
  intros (H1 & H2 & H3 & H4 & H5 & H6 & H7) (K1 & K2 & K3 & K4 & K5 & K6 & K7).
  unfold p_shaped, p_line; cbn [pW pU pb pc pd].
  repeat split; try (rewrite mline_length; congruence); try (apply mline_rows; assumption);
    rewrite vline_length; congruence.
Qed.

Theorem energy_grad_purification nh na nv th de v t0 :
  p_shaped nh na nv th -> p_shaped nh na nv de -> length v = nv ->
  is_derive (fun t => p_eff_energy ROps (p_line th de t) v) t0
            (dot ROps (p_energy_grad ROps (p_line th de t0) v) (p_flatten de)).
Proof.
  intros Hth Hde Hv.
  rewrite (p_grad_stack nh na nv) by (apply p_line_shaped; assumption).
  rewrite p_flatten_stack, (p_stack_line nh na nv) by assumption.
  apply (is_derive_ext (fun t => b_eff_energy ROps (b_line (p_stack_binary th) (p_stack_binary de) t) v)).
  { intros t. rewrite <- (p_stack_line nh na nv) by assumption. symmetry.
    apply (p_energy_stack nh na nv). apply p_line_shaped; assumption. }
  apply (energy_grad_binary (nh + na) nv); try apply p_stack_shaped; assumption.
Qed.

(* ---- from directions to coordinates: parameter number k of the flat layout *)
Definition unit_from (s n k : nat) : list R := map (fun i => if Nat.eqb i (s + k) then 1 else 0) (seq s n).
Definition unit_vec (n k : nat) : list R := unit_from 0 n k.

Lemma unit_vec_length n k : length (unit_vec n k) = n.
Proof. unfold unit_vec, unit_from. rewrite map_length, seq_length. reflexivity. Qed.

Lemma dot_unit_miss (g : list R) s j :
  (j < s)%nat -> dot ROps g (map (fun i => if Nat.eqb i j then 1 else 0) (seq s (length g))) = 0.
Proof.
  revert s; induction g as [|x g IH]; intros s Hj; [reflexivity|].
  cbn [length seq map dot nadd nmul ROps].
  replace (Nat.eqb s j) with false by (symmetry; apply Nat.eqb_neq; lia).
  rewrite IH by lia. lra.
Qed.

Lemma dot_unit_from (g : list R) s k :
  (k < length g)%nat -> dot ROps g (unit_from s (length g) k) = nth k g 0.
Proof.
  revert s k; induction g as [|x g IH]; intros s k Hk; simpl in Hk; [lia|].
  unfold unit_from. cbn [length seq map dot nadd nmul ROps].
  destruct k as [|k].
  - rewrite Nat.add_0_r, Nat.eqb_refl. cbn [nth].
    rewrite dot_unit_miss by lia. lra.
  - replace (Nat.eqb s (s + S k)) with false by (symmetry; apply Nat.eqb_neq; lia).
    cbn [nth]. specialize (IH (S s) k). unfold unit_from in IH.
    replace (S s + k)%nat with (s + S k)%nat in IH by lia. rewrite IH by lia. lra.
Qed.

Lemma dot_unit_vec (g : list R) k : (k < length g)%nat -> dot ROps g (unit_vec (length g) k) = nth k g 0.
Proof. apply dot_unit_from. Qed.

Lemma firstn_vline n x d t : firstn n (vline x d t) = vline (firstn n x) (firstn n d) t.
Proof.
  revert x d; induction n as [|n IH]; intros [|a x] [|b d]; try reflexivity.
  cbn [firstn]. rewrite !vline_cons. cbn [firstn]. rewrite IH. reflexivity.
Qed.

Lemma vline_nil_r x t : vline x [] t = [].
Proof. destruct x; reflexivity. Qed.

Lemma skipn_vline n x d t : skipn n (vline x d t) = vline (skipn n x) (skipn n d) t.
Proof.
  revert x d; induction n as [|n IH]; intros x d; [reflexivity|].
  destruct x as [|a x]; [reflexivity|]. destruct d as [|b d].
  - cbn [skipn]. rewrite !vline_nil_r. reflexivity.
  - rewrite vline_cons. cbn [skipn]. apply IH.
Qed.

Lemma chunk_vline r c x d t : chunk r c (vline x d t) = mline (chunk r c x) (chunk r c d) t.
Proof.
  revert x d; induction r as [|r IH]; intros x d; [reflexivity|].
  cbn [chunk]. rewrite mline_cons, firstn_vline, skipn_vline, IH. reflexivity.
Qed.

Lemma b_of_vec_eq nh nv (vec : list R) :
  b_of_vec nh nv vec = mkB (chunk nh nv (firstn (nh * nv) vec))
                           (firstn nv (skipn (nh * nv) vec))
                           (firstn nh (skipn nv (skipn (nh * nv) vec))).
Proof. reflexivity. Qed.

Lemma b_of_vec_line nh nv x d t :
  b_of_vec nh nv (vline x d t) = b_line (b_of_vec nh nv x) (b_of_vec nh nv d) t.
Proof.
  rewrite !b_of_vec_eq. unfold b_line; cbn [bW bb bc].
  rewrite !firstn_vline, !skipn_vline, !firstn_vline, chunk_vline. reflexivity.
Qed.

Lemma b_of_vec_shaped nh nv (vec : list R) :
  length vec = (nh * nv + nv + nh)%nat -> b_shaped nh nv (b_of_vec nh nv vec).
Proof.
  intros H. rewrite b_of_vec_eq. unfold b_shaped; cbn [bW bb bc]. repeat split.
  - apply chunk_length.
  - apply chunk_rows. rewrite firstn_length. lia.
  - rewrite firstn_length, skipn_length. lia.
  - rewrite firstn_length, !skipn_length. lia.
Qed.

Lemma b_flatten_of_vec nh nv (vec : list R) :
  length vec = (nh * nv + nv + nh)%nat -> b_flatten (b_of_vec nh nv vec) = vec.
Proof.
  intros H. rewrite b_flatten_eq, b_of_vec_eq; cbn [bW bb bc].
  rewrite concat_chunk by (rewrite firstn_length; lia).
  rewrite <- (firstn_skipn (nh * nv) vec) at 4. f_equal.
  rewrite <- (firstn_skipn nv (skipn (nh * nv) vec)) at 3. f_equal.
  apply firstn_all2. rewrite !skipn_length. lia.
Qed.

Lemma b_of_vec_flatten nh nv r : b_shaped nh nv r -> b_of_vec nh nv (b_flatten r) = r.
Proof.
  intros (H1 & H2 & H3 & H4). rewrite b_of_vec_eq, b_flatten_eq.
  assert (E0 : (nh * nv)%nat = length (concat (bW r))) by (rewrite (concat_length_rows _ nv); congruence).
  assert (E1 : firstn nv (bb r ++ bc r) = bb r) by (rewrite <- H3; apply firstn_app_exact).
  assert (E2 : skipn nv (bb r ++ bc r) = bc r) by (rewrite <- H3; apply skipn_app_exact).
  assert (E3 : firstn nh (bc r) = bc r) by (rewrite <- H4; apply firstn_all).
  assert (E4 : chunk nh nv (concat (bW r)) = bW r) by (rewrite <- H1; apply chunk_concat; exact H2).
  rewrite E0, firstn_app_exact, skipn_app_exact, E1, E2, E3, E4.
  destruct r; reflexivity.
Qed.

(* generic passage from "derivative along every direction" to "k-th partial derivative = k-th entry" *)
Lemma b_coord_of_dir nh nv (F : brbm (T:=R) -> R) (G : brbm (T:=R) -> list R) :
  (forall th de t0, b_shaped nh nv th -> b_shaped nh nv de ->
     is_derive (fun t => F (b_line th de t)) t0 (dot ROps (G (b_line th de t0)) (b_flatten de))) ->
  (forall r, b_shaped nh nv r -> length (G r) = (nh * nv + nv + nh)%nat) ->
  forall theta k t0, length theta = (nh * nv + nv + nh)%nat -> (k < nh * nv + nv + nh)%nat ->
    let e := unit_vec (nh * nv + nv + nh) k in
    is_derive (fun t => F (b_of_vec nh nv (vline theta e t))) t0
              (nth k (G (b_of_vec nh nv (vline theta e t0))) 0).
Proof.
  intros HD HL theta k t0 Hth Hk e.
  assert (He : length e = (nh * nv + nv + nh)%nat) by apply unit_vec_length.
  assert (Hsh : b_shaped nh nv (b_of_vec nh nv (vline theta e t0))).
  { apply b_of_vec_shaped. rewrite vline_length; congruence. }
  rewrite <- dot_unit_vec by (rewrite HL by exact Hsh; exact Hk).
  rewrite (HL _ Hsh). fold e.
  rewrite <- (b_flatten_of_vec nh nv e He) at 2.
  rewrite b_of_vec_line.
  apply (is_derive_ext (fun t => F (b_line (b_of_vec nh nv theta) (b_of_vec nh nv e) t))).
  { intros t. rewrite b_of_vec_line. reflexivity. }
  apply HD; apply b_of_vec_shaped; assumption.
Qed.

(* C03.1, coordinate form: parameter number k (in parameters() order: W row major, then b, then c) *)
Theorem energy_grad_binary_coord nh nv v theta k t0 :
  length v = nv -> length theta = (nh * nv + nv + nh)%nat -> (k < nh * nv + nv + nh)%nat ->
  let e := unit_vec (nh * nv + nv + nh) k in
  is_derive (fun t => b_eff_energy ROps (b_of_vec nh nv (vline theta e t)) v) t0
            (nth k (b_energy_grad ROps (b_of_vec nh nv (vline theta e t0)) v) 0).
Proof.
  intros Hv. apply (b_coord_of_dir nh nv (fun r => b_eff_energy ROps r v) (fun r => b_energy_grad ROps r v)).
  - intros th de t1 H1 H2. apply (energy_grad_binary nh nv); assumption.
  - intros r Hr. rewrite (b_energy_grad_length nh nv) by assumption.
    destruct Hr as (H1 & H2 & H3 & H4). unfold b_num_pars. rewrite H1, H3, H4. reflexivity.
Qed.

(* ================================================================== C. NLL of a positive wavefunction *)
(* the data set's negative log-likelihood under p(sigma) = exp(-E(sigma)) / Z *)
Definition pos_nll (r : brbm (T:=R)) (D : list bits) (n : nat) : R :=
  sum ROps (map (b_eff_energy ROps r) D) / INR (length D) + ln (normalization ROps r (all_bits n)).

Lemma nofnat_R n : nofnat ROps n = INR n.
Proof. unfold nofnat; cbn [nofZ ROps]. symmetry. apply INR_IZR_INZ. Qed.

Lemma pos_nll_is_neg_log_likelihood r D n :
  D <> [] ->
  pos_nll r D n =
  - sum ROps (map (fun s => ln (probability ROps r s (normalization ROps r (all_bits n)))) D) / INR (length D).
Proof.
  intros HD. unfold pos_nll.
  pose proof (proj2 (partition_is_total r n)) as HZ. unfold normalization.
  set (Z := b_partition ROps r (all_bits n)) in *.
  assert (Hn : INR (length D) <> 0) by (apply not_0_INR; destruct D; [congruence | discriminate]).
  assert (Hs : sum ROps (map (fun s => ln (probability ROps r s Z)) D)
               = - sum ROps (map (b_eff_energy ROps r) D) - INR (length D) * ln Z).
  { clear HD Hn. induction D as [|s D IH]; [simpl; lra|].
    cbn [map sum length nadd ROps]. rewrite IH, S_INR.
    unfold probability; cbn [ndiv nexp nopp ROps]. unfold Rdiv.
    rewrite ln_mult by (try apply exp_pos; apply Rinv_0_lt_compat; exact HZ).
    rewrite ln_exp, ln_Rinv by exact HZ. ring. }
  rewrite Hs. field. exact Hn.
Qed.

Lemma div_len_dot n (a d : list R) : dot ROps (div_len ROps n a) d = dot ROps a d / INR n.
Proof. unfold div_len. cbn [ndiv ROps]. rewrite nofnat_R. apply dot_map_div_l. Qed.

Lemma div_len_length n (a : list R) : length (div_len ROps n a) = length a.
Proof. unfold div_len; apply map_length. Qed.

Lemma vscale_length c (a : list R) : length (vscale ROps c a) = length a.
Proof. unfold vscale; apply map_length. Qed.

Lemma Forall_map_len {A} (f : A -> list R) (l : list A) n :
  (forall a, In a l -> length (f a) = n) -> List.Forall (fun r => length r = n) (map f l).
Proof.
  intros H. apply Forall_forall. intros r Hr. apply in_map_iff in Hr. destruct Hr as [a [<- Ha]]. apply H; exact Ha.
Qed.

(* pairing of compute_exact_gradients with a direction *)
Lemma pos_exact_dot nh nv r de D space :
  b_shaped nh nv r -> b_shaped nh nv de ->
  (forall s, In s D -> length s = nv) -> (forall s, In s space -> length s = nv) ->
  dot ROps (pos_compute_exact_gradients ROps r D space) (b_flatten de) =
  sum ROps (map (fun s => dot ROps (b_energy_grad ROps r s) (b_flatten de)) D) / INR (length D)
  - sum ROps (map (fun v => exp (- b_eff_energy ROps r v) / sum ROps (map (fun v' => exp (- b_eff_energy ROps r v')) space)
                            * dot ROps (b_energy_grad ROps r v) (b_flatten de)) space).
Proof.
  intros Hr Hde HD Hsp.
  unfold pos_compute_exact_gradients, pos_positive_phase, pos_neg_phase, pos_gradient, b_energy_grad_batch.
  assert (L1 : List.Forall (fun x => length x = b_num_pars r) (map (b_energy_grad ROps r) D)).
  { apply Forall_map_len. intros s Hs. apply (b_energy_grad_length nh nv); auto. }
  assert (L2 : List.Forall (fun x => length x = b_num_pars r)
                 (map (fun v => vscale ROps (ndiv ROps (probability ROps r v (n1 ROps))
                        (sum ROps (map (fun v0 => probability ROps r v0 (n1 ROps)) space))) (b_energy_grad ROps r v)) space)).
  { apply Forall_map_len. intros s Hs. rewrite vscale_length. apply (b_energy_grad_length nh nv); auto. }
  rewrite dot_vsub_l by (rewrite div_len_length, !vsum_length; auto).
  rewrite div_len_dot, !dot_vsum, !map_map by assumption.
  f_equal.
  assert (Hp : forall v, probability ROps r v (n1 ROps) = exp (- b_eff_energy ROps r v)).
  { intros v. unfold probability; cbn [ndiv nexp nopp n1 ROps]. field. }
  rewrite (sum_map_ext (fun v0 => probability ROps r v0 (n1 ROps)) (fun v' => exp (- b_eff_energy ROps r v')) space)
    by (intros; apply Hp).
  apply sum_map_ext. intros v _. rewrite dot_vscale_l, Hp. reflexivity.
Qed.

Lemma all_bits_nonempty n : all_bits n <> [].
Proof.
  intros H. pose proof (all_bits_len n) as HL. rewrite H in HL. simpl in HL.
  pose proof (Nat.pow_nonzero 2 n). lia.
Qed.

(* C03.3 *)
Theorem nll_gradient_positive nh nv th de D t0 :
  b_shaped nh nv th -> b_shaped nh nv de -> D <> [] -> (forall s, In s D -> length s = nv) ->
  is_derive (fun t => pos_nll (b_line th de t) D nv) t0
            (dot ROps (pos_compute_exact_gradients ROps (b_line th de t0) D (all_bits nv)) (b_flatten de)).
Proof.
  intros Hth Hde HD HDl.
  assert (Hr0 : b_shaped nh nv (b_line th de t0)) by (apply b_line_shaped; assumption).
  rewrite (pos_exact_dot nh nv) by (auto; apply all_bits_length).
  set (dE := fun s => dot ROps (b_energy_grad ROps (b_line th de t0) s) (b_flatten de)).
  assert (HE : forall s, length s = nv -> is_derive (fun t => b_eff_energy ROps (b_line th de t) s) t0 (dE s)).
  { intros s Hs. apply (energy_grad_binary nh nv); assumption. }
  unfold pos_nll, Rminus.
  apply (is_derive_plus (V:=R_NormedModule)).
  - apply (is_derive_ext (fun t => / INR (length D) * sum ROps (map (fun s => b_eff_energy ROps (b_line th de t) s) D))).
    { intros t. unfold Rdiv. apply Rmult_comm. }
    apply (is_derive_eq _ _ (/ INR (length D) * sum ROps (map dE D))); [unfold Rdiv; apply Rmult_comm|].
    apply (is_derive_scal (fun t => sum ROps (map (fun s => b_eff_energy ROps (b_line th de t) s) D))).
    apply (is_derive_sum_map D (fun s t => b_eff_energy ROps (b_line th de t) s)).
    intros s Hs. apply HE, HDl, Hs.
  - apply (is_derive_ext (fun t => ln (sum ROps (map (fun v => exp (- b_eff_energy ROps (b_line th de t) v)) (all_bits nv))))).
    { intros t. unfold normalization, b_partition. cbn [nexp nln nopp ROps].
      rewrite exp_ln; [reflexivity|].
      apply (sum_exp_pos (all_bits nv) (fun v => b_eff_energy ROps (b_line th de t) v)). apply all_bits_nonempty. }
    apply (is_derive_ln_sum_exp (all_bits nv) (fun v t => b_eff_energy ROps (b_line th de t) v) dE).
    + apply all_bits_nonempty.
    + intros v Hv. apply HE, all_bits_length, Hv.
Qed.

(* coordinate form: parameter number k of the flat layout *)
Theorem nll_gradient_positive_coord nh nv D theta k t0 :
  D <> [] -> (forall s, In s D -> length s = nv) ->
  length theta = (nh * nv + nv + nh)%nat -> (k < nh * nv + nv + nh)%nat ->
  let e := unit_vec (nh * nv + nv + nh) k in
  is_derive (fun t => pos_nll (b_of_vec nh nv (vline theta e t)) D nv) t0
            (nth k (pos_compute_exact_gradients ROps (b_of_vec nh nv (vline theta e t0)) D (all_bits nv)) 0).
Proof.
  intros HD HDl.
  apply (b_coord_of_dir nh nv (fun r => pos_nll r D nv) (fun r => pos_compute_exact_gradients ROps r D (all_bits nv))).
  - intros th de t1 H1 H2. apply (nll_gradient_positive nh nv); assumption.
  - intros r Hr.
    assert (HN : b_num_pars r = (nh * nv + nv + nh)%nat).
    { destruct Hr as (H1 & H2 & H3 & H4). unfold b_num_pars. rewrite H1, H3, H4. reflexivity. }
    unfold pos_compute_exact_gradients, pos_positive_phase, pos_neg_phase, pos_gradient, b_energy_grad_batch.
    rewrite vsub_length; rewrite ?div_len_length, ?vsum_length; auto.
    + apply Forall_map_len. intros s Hs. apply (b_energy_grad_length nh nv); auto.
    + apply Forall_map_len. intros s Hs. rewrite vscale_length. apply (b_energy_grad_length nh nv); auto.
      apply all_bits_length; exact Hs.
    + apply Forall_map_len. intros s Hs. apply (b_energy_grad_length nh nv); auto.
Qed.

(* ================================================================== D. grouping by basis *)
(* the rows (basis_s, sample_s) covered by a list of groups *)
Definition rows_of_groups (groups : list (list letter * list bits)) : list (list letter * bits) :=
  flat_map (fun g => map (pair (fst g)) (snd g)) groups.

(* the gradient contributed by one row *)
Definition sample_grad (G : gstate (T:=R)) (x : list letter * bits) : list R * list R :=
  if forallb is_Z (fst x) then (g_egrad G (snd x), vzero ROps (g_nph G)) else g_rot1 G (fst x) (snd x).

Lemma group_grad_sum (G : gstate (T:=R)) g :
  group_grad ROps G g =
  (vsum ROps (g_nam G) (map (fun s => fst (sample_grad G (fst g, s))) (snd g)),
   vsum ROps (g_nph G) (map (fun s => snd (sample_grad G (fst g, s))) (snd g))).
Proof.
  destruct g as [b ss]. unfold group_grad, sample_grad, rotated_gradient, egrad_batch. cbn [fst snd].
  destruct (forallb is_Z b); cbn [fst snd]; [|reflexivity].
  f_equal. symmetry. apply (vsum_zeros (g_nph G) ss).
Qed.

Lemma map_rows_of_groups {B} (F : list letter * bits -> B) groups :
  map F (rows_of_groups groups) = flat_map (fun g => map (fun s => F (fst g, s)) (snd g)) groups.
Proof.
  unfold rows_of_groups. induction groups as [|g groups IH]; [reflexivity|].
  cbn [flat_map]. rewrite map_app, map_map, IH. reflexivity.
Qed.

Lemma vsum_groups n (F : list letter * bits -> list R) groups :
  vsum ROps n (map (fun g => vsum ROps n (map (fun s => F (fst g, s)) (snd g))) groups)
  = vsum ROps n (map F (rows_of_groups groups)).
Proof. rewrite map_rows_of_groups. apply (vsum_flat n (fun g s => F (fst g, s)) snd groups). Qed.

(* for EVERY list of groups whose rows are a permutation of the batch, the accumulated gradient is
   the sum of the per-row gradients *)
Theorem gradient_any_grouping (G : gstate (T:=R)) groups batch :
  Permutation (rows_of_groups groups) batch ->
  gradient_groups ROps G groups =
  (vsum ROps (g_nam G) (map (fun x => fst (sample_grad G x)) batch),
   vsum ROps (g_nph G) (map (fun x => snd (sample_grad G x)) batch)).
Proof.
  intros HP. unfold gradient_groups. f_equal.
  - rewrite (map_ext _ (fun g => vsum ROps (g_nam G) (map (fun s => fst (sample_grad G (fst g, s))) (snd g))))
      by (intros g; rewrite group_grad_sum; reflexivity).
    rewrite (vsum_groups (g_nam G) (fun x => fst (sample_grad G x))).
    apply vsum_perm, Permutation_map, HP.
  - rewrite (map_ext _ (fun g => vsum ROps (g_nph G) (map (fun s => snd (sample_grad G (fst g, s))) (snd g))))
      by (intros g; rewrite group_grad_sum; reflexivity).
    rewrite (vsum_groups (g_nph G) (fun x => snd (sample_grad G x))).
    apply vsum_perm, Permutation_map, HP.
Qed.

(* the 1-D single-sample call form: the batch of one row *)
Definition one_row_gradient (G : gstate (T:=R)) (x : list letter * bits) : list R * list R :=
  gradient_groups ROps G [(fst x, [snd x])].

Lemma one_row_gradient_eq G x :
  one_row_gradient G x =
  (vadd ROps (fst (sample_grad G x)) (repeat 0 (g_nam G)), vadd ROps (snd (sample_grad G x)) (repeat 0 (g_nph G))).
Proof.
  unfold one_row_gradient. rewrite (gradient_any_grouping G _ [x]).
  - reflexivity.
  - destruct x; apply Permutation_refl.
Qed.

Lemma vsum_pad {A} n (f : A -> list R) (l : list A) :
  vsum ROps n (map (fun a => vadd ROps (f a) (repeat 0 n)) l) = vsum ROps n (map f l).
Proof.
  induction l as [|a l IH]; [reflexivity|]. cbn [map vsum]. rewrite IH.
  rewrite <- vadd_assoc. f_equal. apply vadd_zero_l, vsum_length_le.
Qed.

(* C03.6 *)
Theorem positive_phase_is_mean_any_grouping (G : gstate (T:=R)) groups batch :
  Permutation (rows_of_groups groups) batch ->
  gradient_groups ROps G groups =
  (vsum ROps (g_nam G) (map (fun x => fst (one_row_gradient G x)) batch),
   vsum ROps (g_nph G) (map (fun x => snd (one_row_gradient G x)) batch)).
Proof.
  intros HP. rewrite (gradient_any_grouping G groups batch HP). f_equal.
  - rewrite (map_ext (fun x => fst (one_row_gradient G x))
                     (fun x => vadd ROps (fst (sample_grad G x)) (repeat 0 (g_nam G))))
      by (intros x; rewrite one_row_gradient_eq; reflexivity).
    symmetry. apply vsum_pad.
  - rewrite (map_ext (fun x => snd (one_row_gradient G x))
                     (fun x => vadd ROps (snd (sample_grad G x)) (repeat 0 (g_nph G))))
      by (intros x; rewrite one_row_gradient_eq; reflexivity).
    symmetry. apply vsum_pad.
Qed.

(* any two groupings of any two row orders of the same batch give the same gradient *)
Corollary gradient_grouping_order_invariant (G : gstate (T:=R)) groups groups' batch batch' :
  Permutation (rows_of_groups groups) batch -> Permutation (rows_of_groups groups') batch' ->
  Permutation batch batch' ->
  gradient_groups ROps G groups = gradient_groups ROps G groups'.
Proof.
  intros H1 H2 H3. rewrite (gradient_any_grouping G groups batch' (Permutation_trans H1 H3)).
  rewrite (gradient_any_grouping G groups' batch' H2). reflexivity.
Qed.

(* positive_phase_gradients divides the accumulated gradient by the number of rows *)
Lemma positive_phase_is_gradient_over_len (G : gstate (T:=R)) batch :
  positive_phase_gradients ROps G batch =
  (map (fun x => x / INR (length batch)) (fst (gradient ROps G batch)),
   map (fun x => x / INR (length batch)) (snd (gradient ROps G batch))).
Proof. unfold positive_phase_gradients, div_len. cbn [ndiv ROps]. rewrite nofnat_R. reflexivity. Qed.

(* PositiveWaveFunction: the batch gradient is the sum of the per-row energy gradients in any order *)
Lemma pos_gradient_perm am D D' : Permutation D D' -> pos_gradient ROps am D = pos_gradient ROps am D'.
Proof. intros H. unfold pos_gradient, b_energy_grad_batch. apply vsum_perm, Permutation_map, H. Qed.

Lemma pos_gradient_app am D1 D2 :
  pos_gradient ROps am (D1 ++ D2) = vadd ROps (pos_gradient ROps am D1) (pos_gradient ROps am D2).
Proof. unfold pos_gradient, b_energy_grad_batch. rewrite map_app. apply vsum_app. Qed.

(* ================================================================== E. the public alias *)
Lemma exact_grads_alias am D space :
  pos_compute_exact_grads ROps am D space = pos_compute_exact_gradients ROps am D space.
Proof. reflexivity. Qed.

(* ================================================================== F. complex wavefunction, one measured row *)
Lemma sqrt_exp x : sqrt (exp x) = exp (x / 2).
Proof.
  replace x with (x / 2 + x / 2) at 1 by field. rewrite exp_plus. apply sqrt_square. left; apply exp_pos.
Qed.

Lemma cplx_psi_parts am ph v :
  cplx_psi ROps am ph v =
  (psi_re (b_eff_energy ROps am v) (b_eff_energy ROps ph v), psi_im (b_eff_energy ROps am v) (b_eff_energy ROps ph v)).
Proof.
  unfold cplx_psi, amplitude, cplx_phase, psi_re, psi_im. cbn [nmul ncos nsin nsqrt nexp nopp n1 ROps].
  rewrite sqrt_exp, half_R.
  replace (- (1 / 2) * b_eff_energy ROps ph v) with (- b_eff_energy ROps ph v / 2) by field.
  reflexivity.
Qed.

Lemma fst_csum (l : list (R * R)) : fst (csum ROps l) = sum ROps (map fst l).
Proof. induction l as [|z l IH]; [reflexivity|]. cbn [csum cadd map sum fst nadd ROps]. rewrite IH. reflexivity. Qed.
Lemma snd_csum (l : list (R * R)) : snd (csum ROps l) = sum ROps (map snd l).
Proof. induction l as [|z l IH]; [reflexivity|]. cbn [csum cadd map sum snd nadd ROps]. rewrite IH. reflexivity. Qed.

Lemma sum_map_minus {A} (f g : A -> R) l :
  sum ROps (map (fun a => f a - g a) l) = sum ROps (map f l) - sum ROps (map g l).
Proof. induction l as [|a l IH]; simpl; [lra | rewrite IH; lra]. Qed.

Lemma map_fst_cvadd (x y : list (R * R)) : map fst (cvadd ROps x y) = vadd ROps (map fst x) (map fst y).
Proof.
  revert y; induction x as [|a x IH]; intros [|b y]; try reflexivity.
  unfold cvadd, vadd in *. cbn [combine map fst snd cadd]. rewrite IH. reflexivity.
Qed.
Lemma map_snd_cvadd (x y : list (R * R)) : map snd (cvadd ROps x y) = vadd ROps (map snd x) (map snd y).
Proof.
  revert y; induction x as [|a x IH]; intros [|b y]; try reflexivity.
  unfold cvadd, vadd in *. cbn [combine map fst snd cadd]. rewrite IH. reflexivity.
Qed.
Lemma map_fst_cvzero n : map fst (cvzero ROps n) = repeat 0 n.
Proof. induction n as [|n IH]; [reflexivity|]. unfold cvzero in *. cbn [repeat map]. rewrite IH. reflexivity. Qed.
Lemma map_snd_cvzero n : map snd (cvzero ROps n) = repeat 0 n.
Proof. induction n as [|n IH]; [reflexivity|]. unfold cvzero in *. cbn [repeat map]. rewrite IH. reflexivity. Qed.

Lemma map_fst_cvsum n rows : map fst (cvsum ROps n rows) = vsum ROps n (map (map fst) rows).
Proof. induction rows as [|r rows IH]; [apply map_fst_cvzero|]. cbn [cvsum map vsum]. rewrite map_fst_cvadd, IH. reflexivity. Qed.
Lemma map_snd_cvsum n rows : map snd (cvsum ROps n rows) = vsum ROps n (map (map snd) rows).
Proof. induction rows as [|r rows IH]; [apply map_snd_cvzero|]. cbn [cvsum map vsum]. rewrite map_snd_cvadd, IH. reflexivity. Qed.

Lemma dot_re_cmul (c : R * R) (zs : list (R * R)) d :
  dot ROps (map (fun z => fst (cmul ROps c z)) zs) d
  = fst c * dot ROps (map fst zs) d - snd c * dot ROps (map snd zs) d.
Proof.
  revert d; induction zs as [|z zs IH]; intros [|e d]; simpl; try lra. rewrite IH. lra.
Qed.

Lemma dot_map_lin (k : R -> R) c (g d : list R) :
  (forall x, k x = c * x) -> dot ROps (map k g) d = c * dot ROps g d.
Proof.
  intros Hk. revert d; induction g as [|x g IH]; intros [|e d]; simpl; try lra. rewrite IH, Hk. lra.
Qed.

Lemma expansions_length basis s v :
  length basis = length s -> In v (expansions basis s) -> length v = length s.
Proof.
  revert s v; induction basis as [|a basis IH]; intros [|b s] v HL Hin; try discriminate.
  - destruct Hin as [<-|[]]. reflexivity.
  - cbn [expansions] in Hin. simpl in HL.
    destruct (is_Z a).
    + apply in_map_iff in Hin. destruct Hin as [w [<- Hw]]. simpl. f_equal. apply IH; [lia | exact Hw].
    + apply in_app_or in Hin. destruct Hin as [Hin|Hin]; apply in_map_iff in Hin; destruct Hin as [w [<- Hw]];
        simpl; f_equal; apply IH; (lia || exact Hw).
Qed.

(* the pairing of one output of cw_rot_with with a direction *)
Lemma cw_rot_with_dot am ph user basis s n (raw : bits -> list (R * R)) d :
  (forall v, In v (expansions basis s) -> length (raw v) = n) ->
  let term v := cmul ROps (ut_coeff ROps user basis s v) (cplx_psi ROps am ph v) in
  let A := csum ROps (map term (expansions basis s)) in
  dot ROps (cw_rot_with ROps am ph user basis s n raw) d =
  fst (cinv ROps A) * sum ROps (map (fun v => dot ROps (map (fun z => fst (cmul ROps (term v) z)) (raw v)) d) (expansions basis s))
  - snd (cinv ROps A) * sum ROps (map (fun v => dot ROps (map (fun z => snd (cmul ROps (term v) z)) (raw v)) d) (expansions basis s)).
Proof.
  intros Hlen term A. unfold cw_rot_with. fold term. fold A.
  rewrite dot_re_cmul, map_fst_cvsum, map_snd_cvsum, !map_map.
  rewrite !dot_vsum, !map_map.
  - f_equal; f_equal; apply sum_map_ext; intros v _; rewrite map_map; reflexivity.
  - apply Forall_map_len. intros v Hv. rewrite !map_length. apply Hlen, Hv.
  - apply Forall_map_len. intros v Hv. rewrite !map_length. apply Hlen, Hv.
Qed.

Lemma is_derive_opp_R (f : R -> R) (t l : R) : is_derive f t l -> is_derive (fun x => - f x) t (- l).
Proof. intros H. apply (is_derive_opp (V:=R_NormedModule)). exact H. Qed.

(* C03.4, one measured row in a rotated basis: the derivative of -ln|A|^2 along a line moving BOTH networks
   is the pairing of the model's rotated gradients with the two directions *)
Theorem nll_gradient_complex_row nh nv am dam ph dph user basis s t0 :
  b_shaped nh nv am -> b_shaped nh nv dam -> b_shaped nh nv ph -> b_shaped nh nv dph ->
  length basis = nv -> length s = nv ->
  0 < cnorm2 ROps (inner_prod1 ROps user basis (cplx_psi ROps (b_line am dam t0) (b_line ph dph t0)) s) ->
  is_derive (fun t => - ln (cnorm2 ROps (inner_prod1 ROps user basis (cplx_psi ROps (b_line am dam t) (b_line ph dph t)) s))) t0
    (dot ROps (fst (cw_rot1 ROps (b_line am dam t0) (b_line ph dph t0) user basis s)) (b_flatten dam)
     + dot ROps (snd (cw_rot1 ROps (b_line am dam t0) (b_line ph dph t0) user basis s)) (b_flatten dph)).
Proof.
  intros Ham Hdam Hph Hdph Hb Hs Hpos.
  set (vs := expansions basis s).
  set (ur := fun v => fst (ut_coeff ROps user basis s v)).
  set (ui := fun v => snd (ut_coeff ROps user basis s v)).
  set (a := fun v t => b_eff_energy ROps (b_line am dam t) v).
  set (b := fun v t => b_eff_energy ROps (b_line ph dph t) v).
  set (da := fun v => dot ROps (b_energy_grad ROps (b_line am dam t0) v) (b_flatten dam)).
  set (db := fun v => dot ROps (b_energy_grad ROps (b_line ph dph t0) v) (b_flatten dph)).
  assert (Hvl : forall v, In v vs -> length v = nv).
  { intros v Hv. rewrite <- Hs. apply (expansions_length basis s); [congruence | exact Hv]. }
  assert (Ha : forall v, In v vs -> is_derive (a v) t0 (da v)).
  { intros v Hv. apply (energy_grad_binary nh nv); auto. }
  assert (Hbd : forall v, In v vs -> is_derive (b v) t0 (db v)).
  { intros v Hv. apply (energy_grad_binary nh nv); auto. }
  (* the amplitude A(t) in the form of Deriv.A_re / A_im *)
  assert (HA : forall t, inner_prod1 ROps user basis (cplx_psi ROps (b_line am dam t) (b_line ph dph t)) s
                         = (A_re vs ur ui a b t, A_im vs ur ui a b t)).
  { intros t. unfold inner_prod1. fold vs.
    rewrite (surjective_pairing (csum ROps _)), fst_csum, snd_csum, !map_map.
    unfold A_re, A_im. f_equal; apply sum_map_ext; intros v _; rewrite cplx_psi_parts; reflexivity. }
  assert (Hpos' : 0 < A_re vs ur ui a b t0 * A_re vs ur ui a b t0 + A_im vs ur ui a b t0 * A_im vs ur ui a b t0).
  { rewrite HA in Hpos. exact Hpos. }
  pose proof (log_mod_sq vs ur ui a b da db t0 Ha Hbd Hpos') as HD.
  apply (is_derive_ext (fun t => - ln (A_re vs ur ui a b t * A_re vs ur ui a b t + A_im vs ur ui a b t * A_im vs ur ui a b t))).
  { intros t. rewrite HA. reflexivity. }
  eapply is_derive_eq; [|apply is_derive_opp_R; exact HD].
  (* the model side *)
  assert (Hr0a : b_shaped nh nv (b_line am dam t0)) by (apply b_line_shaped; assumption).
  assert (Hr0p : b_shaped nh nv (b_line ph dph t0)) by (apply b_line_shaped; assumption).
  unfold cw_rot1; cbn [fst snd].
  rewrite !cw_rot_with_dot.
  2:{ intros v Hv. unfold cw_ph_grads. rewrite map_length. apply (b_energy_grad_length nh nv); auto. }
  2:{ intros v Hv. unfold cw_am_grads. rewrite map_length. apply (b_energy_grad_length nh nv); auto. }
  fold vs.
  change (csum ROps (map (fun v => cmul ROps (ut_coeff ROps user basis s v)
             (cplx_psi ROps (b_line am dam t0) (b_line ph dph t0) v)) vs))
    with (inner_prod1 ROps user basis (cplx_psi ROps (b_line am dam t0) (b_line ph dph t0)) s).
  rewrite HA.
  set (Ar := A_re vs ur ui a b t0) in *. set (Ai := A_im vs ur ui a b t0) in *.
  (* the four sums *)
  set (Tr := fun v => ur v * psi_re (a v t0) (b v t0) - ui v * psi_im (a v t0) (b v t0)).
  set (Ti := fun v => ur v * psi_im (a v t0) (b v t0) + ui v * psi_re (a v t0) (b v t0)).
  assert (Hterm : forall v, cmul ROps (ut_coeff ROps user basis s v) (cplx_psi ROps (b_line am dam t0) (b_line ph dph t0) v)
                            = (Tr v, Ti v)).
  { intros v. rewrite cplx_psi_parts. reflexivity. }
  assert (S1 : sum ROps (map (fun v => dot ROps (map (fun z => fst (cmul ROps
                 (cmul ROps (ut_coeff ROps user basis s v) (cplx_psi ROps (b_line am dam t0) (b_line ph dph t0) v)) z))
                 (cw_am_grads ROps (b_line am dam t0) v)) (b_flatten dam)) vs)
               = sum ROps (map (fun v => Tr v * da v) vs)).
  { apply sum_map_ext; intros v _. rewrite Hterm. unfold cw_am_grads. rewrite map_map.
    apply dot_map_lin. intros x. cbn [cmul cofR fst snd nmul nsub n0 ROps]. ring. }
  assert (S2 : sum ROps (map (fun v => dot ROps (map (fun z => snd (cmul ROps
                 (cmul ROps (ut_coeff ROps user basis s v) (cplx_psi ROps (b_line am dam t0) (b_line ph dph t0) v)) z))
                 (cw_am_grads ROps (b_line am dam t0) v)) (b_flatten dam)) vs)
               = sum ROps (map (fun v => Ti v * da v) vs)).
  { apply sum_map_ext; intros v _. rewrite Hterm. unfold cw_am_grads. rewrite map_map.
    apply dot_map_lin. intros x. cbn [cmul cofR fst snd nmul nadd n0 ROps]. ring. }
  assert (S3 : sum ROps (map (fun v => dot ROps (map (fun z => fst (cmul ROps
                 (cmul ROps (ut_coeff ROps user basis s v) (cplx_psi ROps (b_line am dam t0) (b_line ph dph t0) v)) z))
                 (cw_ph_grads ROps (b_line ph dph t0) v)) (b_flatten dph)) vs)
               = sum ROps (map (fun v => - Ti v * db v) vs)).
  { apply sum_map_ext; intros v _. rewrite Hterm. unfold cw_ph_grads. rewrite map_map.
    apply dot_map_lin. intros x. cbn [cmul cofR ci fst snd nmul nsub nadd n0 n1 ROps]. ring. }
  assert (S4 : sum ROps (map (fun v => dot ROps (map (fun z => snd (cmul ROps
                 (cmul ROps (ut_coeff ROps user basis s v) (cplx_psi ROps (b_line am dam t0) (b_line ph dph t0) v)) z))
                 (cw_ph_grads ROps (b_line ph dph t0) v)) (b_flatten dph)) vs)
               = sum ROps (map (fun v => Tr v * db v) vs)).
  { apply sum_map_ext; intros v _. rewrite Hterm. unfold cw_ph_grads. rewrite map_map.
    apply dot_map_lin. intros x. cbn [cmul cofR ci fst snd nmul nsub nadd n0 n1 ROps]. ring. }
  rewrite S1, S2, S3, S4.
  assert (HNr : N_re vs ur ui a b da db t0 = sum ROps (map (fun v => Tr v * da v) vs) + sum ROps (map (fun v => - Ti v * db v) vs)).
  { unfold N_re. rewrite <- sum_map_plus. apply sum_map_ext; intros v _. unfold Tr, Ti. ring. }
  assert (HNi : N_im vs ur ui a b da db t0 = sum ROps (map (fun v => Tr v * db v) vs) + sum ROps (map (fun v => Ti v * da v) vs)).
  { unfold N_im. rewrite <- sum_map_plus. apply sum_map_ext; intros v _. unfold Tr, Ti. ring. }
  rewrite HNr, HNi.
  unfold cinv, cnorm2; cbn [fst snd ndiv nopp nadd nmul ROps].
  field. fold Ar Ai in Hpos'. lra.
Qed.

(* ================================================================== G. np.unique grouping is a partition *)
(* ---- np.unique as modelled by [unique_groups] is a partition of the batch (no arithmetic, no axioms) *)
Lemma letter_rank_inj a b : letter_rank a = letter_rank b -> a = b.
Proof. destruct a, b; simpl; intros H; try reflexivity; try discriminate; try lia. f_equal; lia. Qed.

Lemma basis_cmp_eq a b : basis_cmp a b = Eq <-> a = b.
Proof.
  revert b; induction a as [|x a IH]; intros [|y b]; simpl; split; intros H; try reflexivity; try discriminate.
  - destruct (Nat.compare (letter_rank x) (letter_rank y)) eqn:E; try discriminate.
    apply Nat.compare_eq_iff, letter_rank_inj in E. apply IH in H. congruence.
  - inversion H; subst. rewrite Nat.compare_refl. apply IH. reflexivity.
Qed.

Lemma basis_cmp_antisym a b : basis_cmp a b = CompOpp (basis_cmp b a).
Proof.
  revert b; induction a as [|x a IH]; intros [|y b]; simpl; try reflexivity.
  rewrite (Nat.compare_antisym (letter_rank x) (letter_rank y)).
  destruct (Nat.compare (letter_rank x) (letter_rank y)); simpl; try reflexivity. apply IH.
Qed.

Lemma basis_cmp_trans a b c : basis_cmp a b = Lt -> basis_cmp b c = Lt -> basis_cmp a c = Lt.
Proof.
  revert b c; induction a as [|x a IH]; intros [|y b] [|z c]; simpl; intros H1 H2; try reflexivity; try discriminate.
  destruct (Nat.compare_spec (letter_rank x) (letter_rank y)) as [E1|E1|E1]; try discriminate;
  destruct (Nat.compare_spec (letter_rank y) (letter_rank z)) as [E2|E2|E2]; try discriminate;
  destruct (Nat.compare_spec (letter_rank x) (letter_rank z)) as [E3|E3|E3]; try reflexivity; try lia.
  eapply IH; eassumption.
Qed.

Definition blt (a b : list letter) : Prop := basis_cmp a b = Lt.

Lemma in_insert_unique z x l : In z (insert_unique x l) -> z = x \/ In z l.
Proof.
  induction l as [|y r IH]; simpl; [intros [<-|[]]; left; reflexivity|].
  destruct (basis_cmp x y).
  - intros H; right; exact H.
  - intros [<-|H]; [left; reflexivity | right; exact H].
  - intros [<-|H]; [right; left; reflexivity|]. destruct (IH H) as [->|H']; [left; reflexivity | right; right; exact H'].
Qed.

Lemma insert_unique_sorted x l : StronglySorted blt l -> StronglySorted blt (insert_unique x l).
Proof.
  induction 1 as [|y r Hs IH Hy]; simpl; [repeat constructor|].
  destruct (basis_cmp x y) eqn:E.
  - constructor; assumption.
  - constructor; [constructor; assumption|]. constructor; [exact E|].
    eapply Forall_impl; [|exact Hy]. intros z Hz. unfold blt in *. eapply basis_cmp_trans; eassumption.
  - constructor; [exact IH|]. apply Forall_forall. intros z Hz.
    destruct (in_insert_unique _ _ _ Hz) as [->|Hz'].
    + unfold blt. rewrite basis_cmp_antisym, E. reflexivity.
    + rewrite Forall_forall in Hy. apply Hy, Hz'.
Qed.

Lemma unique_sorted_sorted l : StronglySorted blt (unique_sorted l).
Proof. induction l as [|x l IH]; simpl; [constructor | apply insert_unique_sorted, IH]. Qed.

Lemma sorted_nodup l : StronglySorted blt l -> NoDup l.
Proof.
  induction 1 as [|y r Hs IH Hy]; constructor; [|exact IH].
  intros Hin. rewrite Forall_forall in Hy. specialize (Hy y Hin). unfold blt in Hy.
  assert (basis_cmp y y = Eq) by (apply basis_cmp_eq; reflexivity). congruence.
Qed.

Lemma insert_unique_in_self x l : In x (insert_unique x l).
Proof.
  induction l as [|y r IH]; simpl; [left; reflexivity|].
  destruct (basis_cmp x y) eqn:E.
  - apply basis_cmp_eq in E. subst. left; reflexivity.
  - left; reflexivity.
  - right; exact IH.
Qed.

Lemma insert_unique_in_old z x l : In z l -> In z (insert_unique x l).
Proof.
  induction l as [|y r IH]; simpl; [intros []|].
  destruct (basis_cmp x y); intros [<-|H]; simpl; auto.
Qed.

Lemma unique_sorted_complete b l : In b l -> In b (unique_sorted l).
Proof.
  induction l as [|x l IH]; simpl; [intros []|]. intros [<-|H].
  - apply insert_unique_in_self.
  - apply insert_unique_in_old, IH, H.
Qed.

Lemma basis_eqb_true a b : basis_eqb a b = true <-> a = b.
Proof.
  unfold basis_eqb. split.
  - destruct (basis_cmp a b) eqn:E; try discriminate. intros _. apply basis_cmp_eq, E.
  - intros ->. assert (E : basis_cmp b b = Eq) by (apply basis_cmp_eq; reflexivity). rewrite E. reflexivity.
Qed.

Section Partition.
  Context {B : Type}.
  Notation row := (list letter * B)%type.
  Definition sel (u : list letter) (x : row) : bool := basis_eqb u (fst x).

  Lemma pair_filter u (l : list row) : map (pair u) (map snd (filter (sel u) l)) = filter (sel u) l.
  Proof.
    induction l as [|x l IH]; [reflexivity|]. cbn [filter]. destruct (sel u x) eqn:E; [|exact IH].
    cbn [map]. rewrite IH. f_equal. unfold sel in E. apply basis_eqb_true in E. subst u. destruct x; reflexivity.
  Qed.

  Lemma flat_map_filter_skip (x : row) rest us :
    ~ In (fst x) us ->
    flat_map (fun u => filter (sel u) (x :: rest)) us = flat_map (fun u => filter (sel u) rest) us.
  Proof.
    induction us as [|u us IH]; intros Hn; [reflexivity|]. cbn [flat_map].
    assert (E : sel u x = false).
    { destruct (sel u x) eqn:E; [|reflexivity]. unfold sel in E. apply basis_eqb_true in E. subst u.
      exfalso. apply Hn. left; reflexivity. }
    rewrite IH by (intros H; apply Hn; right; exact H). cbn [filter]. rewrite E. reflexivity.
  Qed.

  Lemma flat_map_filter_nil us : flat_map (fun u => filter (sel u) (@nil row)) us = [].
  Proof. induction us as [|u us IH]; [reflexivity | exact IH]. Qed.

  Lemma filters_partition (batch : list row) us :
    NoDup us -> (forall x, In x batch -> In (fst x) us) ->
    Permutation (flat_map (fun u => filter (sel u) batch) us) batch.
  Proof.
    intros Hnd. induction batch as [|x rest IH]; intros Hall.
    - rewrite flat_map_filter_nil. constructor.
    - assert (Hx : In (fst x) us) by (apply Hall; left; reflexivity).
      destruct (in_split _ _ Hx) as (us1 & us2 & ->).
      apply NoDup_remove_2 in Hnd as Hnot.
      assert (Hn1 : ~ In (fst x) us1) by (intros H; apply Hnot, in_or_app; left; exact H).
      assert (Hn2 : ~ In (fst x) us2) by (intros H; apply Hnot, in_or_app; right; exact H).
      specialize (IH (fun y Hy => Hall y (or_intror Hy))).
      rewrite flat_map_app in *. cbn [flat_map] in *.
      rewrite (flat_map_filter_skip x rest us1 Hn1), (flat_map_filter_skip x rest us2 Hn2).
      cbn [filter]. assert (E : sel (fst x) x = true) by (unfold sel; apply basis_eqb_true; reflexivity).
      rewrite E. cbn [app].
      apply Permutation_sym. eapply Permutation_trans; [|apply Permutation_middle].
      constructor. apply Permutation_sym. exact IH.
  Qed.
End Partition.

Theorem unique_groups_partition (batch : list (list letter * bits)) :
  Permutation (rows_of_groups (unique_groups batch)) batch.
Proof.
  unfold rows_of_groups, unique_groups. rewrite flat_map_concat_map, map_map, <- flat_map_concat_map. cbn [fst snd].
  erewrite flat_map_ext; [|intros u; apply (pair_filter u batch)].
  apply filters_partition.
  - apply sorted_nodup, unique_sorted_sorted.
  - intros x Hx. apply unique_sorted_complete, in_map, Hx.
Qed.

(* the model's own grouping (np.unique): gradient = sum of the one-row gradients; any row order *)
Corollary gradient_is_sum_of_rows (G : gstate (T:=R)) batch :
  gradient ROps G batch =
  (vsum ROps (g_nam G) (map (fun x => fst (one_row_gradient G x)) batch),
   vsum ROps (g_nph G) (map (fun x => snd (one_row_gradient G x)) batch)).
Proof. unfold gradient. apply positive_phase_is_mean_any_grouping, unique_groups_partition. Qed.

Corollary gradient_row_order_invariant (G : gstate (T:=R)) batch batch' :
  Permutation batch batch' -> gradient ROps G batch = gradient ROps G batch'.
Proof.
  intros H. unfold gradient.
  apply (gradient_grouping_order_invariant G _ _ batch batch'); [apply unique_groups_partition | apply unique_groups_partition | exact H].
Qed.

(* ================================================================== H. complex wavefunction, whole data set *)
(* ---- all-Z rows *)
Lemma expansions_allZ basis s :
  forallb is_Z basis = true -> length basis = length s -> expansions basis s = [s].
Proof.
  revert s; induction basis as [|a basis IH]; intros [|b s] HZ HL; try discriminate; [reflexivity|].
  cbn [forallb] in HZ. apply andb_prop in HZ. destruct HZ as [Ha HZ].
  cbn [expansions]. rewrite Ha, IH by (try assumption; simpl in HL; lia). reflexivity.
Qed.

Lemma ut_coeff_allZ user basis s v :
  forallb is_Z basis = true -> ut_coeff ROps user basis s v = c1 ROps.
Proof.
  revert s v; induction basis as [|a basis IH]; intros s v HZ; [reflexivity|].
  cbn [forallb] in HZ. apply andb_prop in HZ. destruct HZ as [Ha HZ].
  destruct s as [|b s]; [reflexivity|]. destruct v as [|w v]; [reflexivity|].
  cbn [ut_coeff]. rewrite Ha. apply IH; exact HZ.
Qed.

Lemma cw_allZ_modulus am ph user basis s :
  forallb is_Z basis = true -> length basis = length s ->
  cnorm2 ROps (inner_prod1 ROps user basis (cplx_psi ROps am ph) s) = exp (- b_eff_energy ROps am s).
Proof.
  intros HZ HL. unfold inner_prod1. rewrite expansions_allZ by assumption.
  cbn [map csum]. rewrite ut_coeff_allZ by exact HZ.
  pose proof (cplx_psi_sq am ph s) as H. cbv zeta in H.
  unfold probability in H; cbn [ndiv nexp nopp n1 ROps] in H.
  destruct (cplx_psi ROps am ph s) as [x y]. cbn [fst snd] in H.
  unfold cnorm2, cadd, cmul, c1, c0; cbn [fst snd nadd nsub nmul n0 n1 ROps].
  replace (exp (- b_eff_energy ROps am s)) with (exp (- b_eff_energy ROps am s) / 1) by field.
  rewrite <- H. ring.
Qed.

(* ---- the data set NLL of a complex wavefunction, per-row bases *)
Definition cw_row_nll am ph user (x : list letter * bits) : R :=
  - ln (cnorm2 ROps (inner_prod1 ROps user (fst x) (cplx_psi ROps am ph) (snd x))).
Definition cw_nll am ph user (batch : list (list letter * bits)) (n : nat) : R :=
  sum ROps (map (cw_row_nll am ph user) batch) / INR (length batch) + ln (normalization ROps am (all_bits n)).

Lemma Forall_map_len' {A B} (f : A -> list B) (l : list A) n :
  (forall a, In a l -> length (f a) = n) -> List.Forall (fun r => length r = n) (map f l).
Proof.
  intros H. apply Forall_forall. intros r Hr. apply in_map_iff in Hr. destruct Hr as [a [<- Ha]]. apply H; exact Ha.
Qed.

Lemma cvsum_length n (rows : list (list (R * R))) :
  List.Forall (fun r => length r = n) rows -> length (cvsum ROps n rows) = n.
Proof.
  intros H. transitivity (length (map fst (cvsum ROps n rows))); [symmetry; apply map_length|].
  rewrite map_fst_cvsum. apply vsum_length.
  apply Forall_map_len. intros r Hr. rewrite map_length. rewrite Forall_forall in H. apply H, Hr.
Qed.

Lemma cw_rot_with_length am ph user basis s n raw :
  (forall v, In v (expansions basis s) -> length (raw v) = n) ->
  length (cw_rot_with ROps am ph user basis s n raw) = n.
Proof.
  intros H. unfold cw_rot_with. rewrite map_length. apply cvsum_length.
  apply Forall_map_len'. intros v Hv. rewrite map_length. apply H, Hv.
Qed.

Lemma cw_sample_grad_lengths nh nv am ph user x :
  b_shaped nh nv am -> b_shaped nh nv ph -> length (fst x) = nv -> length (snd x) = nv ->
  length (fst (sample_grad (cw_gstate ROps am ph user) x)) = b_num_pars am /\
  length (snd (sample_grad (cw_gstate ROps am ph user) x)) = b_num_pars ph.
Proof.
  intros Ham Hph Hb Hs. destruct x as [b s]. cbn [fst snd] in *.
  unfold sample_grad. cbn [fst snd cw_gstate g_egrad g_rot1 g_nph].
  destruct (forallb is_Z b); cbn [fst snd].
  - split; [apply (b_energy_grad_length nh nv); assumption | apply repeat_length].
  - assert (Hvl : forall v, In v (expansions b s) -> length v = nv).
    { intros v Hv. rewrite <- Hs. apply (expansions_length b s); [congruence | exact Hv]. }
    unfold cw_rot1; cbn [fst snd]. split; apply cw_rot_with_length; intros v Hv.
    + unfold cw_am_grads. rewrite map_length. apply (b_energy_grad_length nh nv); auto.
    + unfold cw_ph_grads. rewrite map_length. apply (b_energy_grad_length nh nv); auto.
Qed.

Lemma neg_phase_dot nh nv r de space :
  b_shaped nh nv r -> b_shaped nh nv de -> (forall s, In s space -> length s = nv) ->
  dot ROps (pos_neg_phase ROps r space) (b_flatten de) =
  sum ROps (map (fun v => exp (- b_eff_energy ROps r v) / sum ROps (map (fun v' => exp (- b_eff_energy ROps r v')) space)
                          * dot ROps (b_energy_grad ROps r v) (b_flatten de)) space).
Proof.
  intros Hr Hde Hsp. unfold pos_neg_phase.
  rewrite dot_vsum, map_map.
  2:{ apply Forall_map_len. intros s Hs. rewrite vscale_length. apply (b_energy_grad_length nh nv); auto. }
  assert (Hp : forall v, probability ROps r v (n1 ROps) = exp (- b_eff_energy ROps r v)).
  { intros v. unfold probability; cbn [ndiv nexp nopp n1 ROps]. field. }
  rewrite (sum_map_ext (fun v0 => probability ROps r v0 (n1 ROps)) (fun v' => exp (- b_eff_energy ROps r v')) space)
    by (intros; apply Hp).
  apply sum_map_ext. intros v _. rewrite dot_vscale_l, Hp. reflexivity.
Qed.

(* C03.4 — the full data-set statement, for every batch on which np.unique's grouping is a partition *)
Theorem nll_gradient_complex nh nv am dam ph dph user batch t0 :
  b_shaped nh nv am -> b_shaped nh nv dam -> b_shaped nh nv ph -> b_shaped nh nv dph ->
  batch <> [] ->
  (forall x, In x batch -> length (fst x) = nv /\ length (snd x) = nv) ->
  (forall x, In x batch ->
     0 < cnorm2 ROps (inner_prod1 ROps user (fst x) (cplx_psi ROps (b_line am dam t0) (b_line ph dph t0)) (snd x))) ->
  Permutation (rows_of_groups (unique_groups batch)) batch ->
  let g := compute_exact_gradients ROps (cw_gstate ROps (b_line am dam t0) (b_line ph dph t0) user) batch (all_bits nv) in
  is_derive (fun t => cw_nll (b_line am dam t) (b_line ph dph t) user batch nv) t0
            (dot ROps (fst g) (b_flatten dam) + dot ROps (snd g) (b_flatten dph)).
Proof.
  intros Ham Hdam Hph Hdph Hne Hlen Hpos HP g.
  set (am0 := b_line am dam t0) in *. set (ph0 := b_line ph dph t0) in *.
  assert (Ham0 : b_shaped nh nv am0) by (apply b_line_shaped; assumption).
  assert (Hph0 : b_shaped nh nv ph0) by (apply b_line_shaped; assumption).
  set (G := cw_gstate ROps am0 ph0 user) in *.
  set (ra := fun x => dot ROps (fst (sample_grad G x)) (b_flatten dam)).
  set (rp := fun x => dot ROps (snd (sample_grad G x)) (b_flatten dph)).
  (* (i) every row *)
  assert (Hrow : forall x, In x batch ->
            is_derive (fun t => cw_row_nll (b_line am dam t) (b_line ph dph t) user x) t0 (ra x + rp x)).
  { intros [b s] Hx. destruct (Hlen _ Hx) as [Hb Hs]. cbn [fst snd] in Hb, Hs.
    unfold ra, rp, sample_grad, cw_row_nll. cbn [fst snd].
    destruct (forallb is_Z b) eqn:HZ.
    - unfold G. cbn [cw_gstate g_egrad g_nph fst snd].
      apply (is_derive_ext (fun t => b_eff_energy ROps (b_line am dam t) s)).
      { intros t. rewrite cw_allZ_modulus by (try assumption; congruence). rewrite ln_exp, Ropp_involutive. reflexivity. }
      unfold vzero. cbn [n0 ROps]. rewrite dot_zero_l, Rplus_0_r.
      apply (energy_grad_binary nh nv); assumption.
    - unfold G. cbn [cw_gstate g_rot1].
      apply (nll_gradient_complex_row nh nv); try assumption.
      apply (Hpos (b, s) Hx). }
  (* (ii) the model side *)
  assert (Hla : List.Forall (fun r => length r = b_num_pars am0) (map (fun x => fst (sample_grad G x)) batch)).
  { apply Forall_map_len. intros x Hx. destruct (Hlen _ Hx). apply (cw_sample_grad_lengths nh nv am0 ph0 user x); assumption. }
  assert (Hlp : List.Forall (fun r => length r = b_num_pars ph0) (map (fun x => snd (sample_grad G x)) batch)).
  { apply Forall_map_len. intros x Hx. destruct (Hlen _ Hx). apply (cw_sample_grad_lengths nh nv am0 ph0 user x); assumption. }
  assert (Hg : dot ROps (fst g) (b_flatten dam) + dot ROps (snd g) (b_flatten dph)
               = sum ROps (map (fun x => ra x + rp x) batch) / INR (length batch)
                 + - sum ROps (map (fun v => exp (- b_eff_energy ROps am0 v)
                                   / sum ROps (map (fun v' => exp (- b_eff_energy ROps am0 v')) (all_bits nv))
                                   * dot ROps (b_energy_grad ROps am0 v) (b_flatten dam)) (all_bits nv))).
  { unfold g, compute_exact_gradients, positive_phase_gradients, gradient. cbn [fst snd].
    rewrite (gradient_any_grouping G _ batch HP). cbn [fst snd].
    change (neg_phase ROps G (all_bits nv)) with (pos_neg_phase ROps am0 (all_bits nv)).
    change (g_nam G) with (b_num_pars am0). change (g_nph G) with (b_num_pars ph0).
    rewrite dot_vsub_l.
    2:{ rewrite div_len_length, vsum_length by exact Hla. unfold pos_neg_phase. rewrite vsum_length; [reflexivity|].
        apply Forall_map_len. intros s Hs. rewrite vscale_length. apply (b_energy_grad_length nh nv); auto.
        apply all_bits_length, Hs. }
    rewrite !div_len_dot, !dot_vsum, !map_map by assumption.
    rewrite (neg_phase_dot nh nv) by (try assumption; apply all_bits_length).
    rewrite sum_map_plus. fold ra rp.
    assert (Hn : INR (length batch) <> 0) by (apply not_0_INR; destruct batch; [congruence | discriminate]).
    field. exact Hn. }
  rewrite Hg. unfold cw_nll.
  apply (is_derive_plus (V:=R_NormedModule)).
  - apply (is_derive_ext (fun t => / INR (length batch) * sum ROps (map (fun x => cw_row_nll (b_line am dam t) (b_line ph dph t) user x) batch))).
    { intros t. unfold Rdiv. apply Rmult_comm. }
    apply (is_derive_eq _ _ (/ INR (length batch) * sum ROps (map (fun x => ra x + rp x) batch))); [unfold Rdiv; apply Rmult_comm|].
    apply (is_derive_scal (fun t => sum ROps (map (fun x => cw_row_nll (b_line am dam t) (b_line ph dph t) user x) batch))).
    apply (is_derive_sum_map batch (fun x t => cw_row_nll (b_line am dam t) (b_line ph dph t) user x)).
    exact Hrow.
  - apply (is_derive_ext (fun t => ln (sum ROps (map (fun v => exp (- b_eff_energy ROps (b_line am dam t) v)) (all_bits nv))))).
    { intros t. unfold normalization, b_partition. cbn [nexp nln nopp ROps].
      rewrite exp_ln; [reflexivity|].
      apply (sum_exp_pos (all_bits nv) (fun v => b_eff_energy ROps (b_line am dam t) v)). apply all_bits_nonempty. }
    apply (is_derive_ln_sum_exp (all_bits nv) (fun v t => b_eff_energy ROps (b_line am dam t) v)
             (fun v => dot ROps (b_energy_grad ROps am0 v) (b_flatten dam))).
    + apply all_bits_nonempty.
    + intros v Hv. apply (energy_grad_binary nh nv); try assumption. apply all_bits_length, Hv.
Qed.

(* C03.4 with the partition hypothesis discharged for the model's np.unique *)
Theorem nll_gradient_complex_full nh nv am dam ph dph user batch t0 :
  b_shaped nh nv am -> b_shaped nh nv dam -> b_shaped nh nv ph -> b_shaped nh nv dph ->
  batch <> [] ->
  (forall x, In x batch -> length (fst x) = nv /\ length (snd x) = nv) ->
  (forall x, In x batch ->
     0 < cnorm2 ROps (inner_prod1 ROps user (fst x) (cplx_psi ROps (b_line am dam t0) (b_line ph dph t0)) (snd x))) ->
  let g := compute_exact_gradients ROps (cw_gstate ROps (b_line am dam t0) (b_line ph dph t0) user) batch (all_bits nv) in
  is_derive (fun t => cw_nll (b_line am dam t) (b_line ph dph t) user batch nv) t0
            (dot ROps (fst g) (b_flatten dam) + dot ROps (snd g) (b_flatten dph)).
Proof.
  intros H1 H2 H3 H4 H5 H6 H7. apply (nll_gradient_complex nh nv); try assumption. apply unique_groups_partition.
Qed.

(* ================================================================== I. mixed states: the proved part *)
(* The last block of the flat layout is the auxiliary bias d.  For the PHASE network both summands of
   DensityMatrix.ph_grads — i * gamma_grad(eta = -1) and pi_grad(phase = True) — end with a block of
   length(d) zeros, for every parameter value, every pair (v, v') and both call forms. *)
Lemma gamma_grad_aux_block_zero (r : prbm (T:=R)) plus v vp :
  exists pre, p_gamma_grad ROps r plus v vp = pre ++ repeat 0 (length (pd r)).
Proof.
  unfold p_gamma_grad. eexists. rewrite !app_assoc. reflexivity.
Qed.

Lemma pi_grad_phase_aux_block_zero (am ph : prbm (T:=R)) expand v vp :
  exists pre, p_pi_grad ROps am ph true expand v vp = pre ++ repeat (0, 0) (length (pd ph)).
Proof.
  unfold p_pi_grad. eexists. rewrite !app_assoc. reflexivity.
Qed.

(* with the shapes of a real PurificationRBM the zero block of gamma_grad sits exactly at the aux-bias offset *)
Lemma half_comb_length plus (a b : list R) : length a = length b -> length (half_comb ROps plus a b) = length a.
Proof. intros H. unfold half_comb. rewrite map_length, combine_length, H. apply Nat.min_id. Qed.

Lemma gamma_grad_aux_block_offset nh na nv (r : prbm (T:=R)) plus v vp :
  p_shaped nh na nv r -> length v = nv -> length vp = nv ->
  skipn (nh * nv + na * nv + nv + nh) (p_gamma_grad ROps r plus v vp) = repeat 0 na /\
  length (p_gamma_grad ROps r plus v vp) = p_num_pars r.
Proof.
  intros (H1 & H2 & H3 & H4 & H5 & H6 & H7) Hv Hvp.
  assert (Lh : forall w, length (p_prob_h_given_v ROps r w) = nh).
  { intros w. unfold p_prob_h_given_v. rewrite map_length, linearb_length'; congruence. }
  unfold p_gamma_grad.
  set (B1 := half_comb ROps plus (outerb ROps (p_prob_h_given_v ROps r v) v) (outerb ROps (p_prob_h_given_v ROps r vp) vp)).
  set (B2 := vzero ROps (length (concat (pU r)))).
  set (B3 := half_comb ROps plus (bvec ROps v) (bvec ROps vp)).
  set (B4 := half_comb ROps plus (p_prob_h_given_v ROps r v) (p_prob_h_given_v ROps r vp)).
  assert (L1 : length B1 = (nh * nv)%nat).
  { unfold B1. rewrite half_comb_length; rewrite !outerb_length, !Lh; congruence. }
  assert (L2 : length B2 = (na * nv)%nat).
  { unfold B2, vzero. rewrite repeat_length, (concat_length_rect _ nv) by exact H4. congruence. }
  assert (L3 : length B3 = nv).
  { unfold B3, bvec. rewrite half_comb_length; rewrite !map_length; congruence. }
  assert (L4 : length B4 = nh).
  { unfold B4. rewrite half_comb_length; rewrite !Lh; reflexivity. }
  split.
  - replace (nh * nv + na * nv + nv + nh)%nat with (length (B1 ++ B2 ++ B3 ++ B4)) by (rewrite !app_length; lia).
    replace (B1 ++ B2 ++ B3 ++ B4 ++ vzero ROps (length (pd r))) with ((B1 ++ B2 ++ B3 ++ B4) ++ vzero ROps (length (pd r)))
      by (rewrite <- !app_assoc; reflexivity).
    rewrite skipn_app_exact, H7. reflexivity.
  - rewrite !app_length, L1, L2, L3, L4. unfold vzero. rewrite repeat_length.
    unfold p_num_pars. rewrite H1, H3, H5, H6, H7. lia.
Qed.
