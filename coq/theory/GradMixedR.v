(* GradMixedR.v — C03.5: the mixed-state (DensityMatrix) NLL gradient.
   The model's compute_exact_gradients for the density matrix (Grads.dm_gstate: gamma_grad, pi_grad,
   am_grads, ph_grads, rotated_gradient with the code's 1/(P + 1e-8) factor, grouping, negative phase)
   is the exact gradient of the library's regularised objective
       (1/|D|) ( Sum_{s all-Z} E_lambda(s) - Sum_{s rotated} ln(P_s + 1e-8) ) + ln Z
   along every line  theta + t * delta  moving BOTH purification networks.
   Route (DESIGN 5 C03 item 5): under the non-singularity guard of C02 (Rho.pi_guard) at the point t0,
   the guard holds in a neighbourhood (continuity), where rho equals its smooth product form
       rho(v,v') = exp(Gamma+ + i Gamma-) * prod_k (1 + exp(x_k + i y_k))        (Rho.rho_is_product)
   with x_k, y_k affine in t; atan2's branch cut never enters.  Log-derivatives of products add, and
   d(1 + e^z) = (1 + e^z) * csigmoid(z) dz, which is exactly pi_grad.  P_s >= 0 (Gram form, C02.1) makes
   ln(P_s + 1e-8) differentiable without a further hypothesis. *)
From Coq Require Import List ZArith Bool Arith Reals Lra Lia Permutation.
From Coquelicot Require Import Coquelicot.
From QModel Require Import Num Bits Rbm States CBase Unitaries Grads.
From QTheory Require Import RInst SumBits Born Atan2 Rho Deriv GradR.
Import ListNotations.
Open Scope R_scope.

(* ================================================================== A. log-derivatives of complex-valued functions (real and imaginary parts) *)
Definition is_lderive (fr fi : R -> R) (t Lr Li : R) : Prop :=
  is_derive fr t (fr t * Lr - fi t * Li) /\ is_derive fi t (fr t * Li + fi t * Lr).

Lemma lderive_mult fr fi gr gi t Lr Li Mr Mi :
  is_lderive fr fi t Lr Li -> is_lderive gr gi t Mr Mi ->
  is_lderive (fun x => fr x * gr x - fi x * gi x) (fun x => fr x * gi x + fi x * gr x) t (Lr + Mr) (Li + Mi).
Proof.
  intros [H1 H2] [H3 H4]. split.
  - auto_derive.
    + repeat split; try (eexists; eassumption); exact I.
    + derive_rw H1. derive_rw H2. derive_rw H3. derive_rw H4. ring.
  - auto_derive.
    + repeat split; try (eexists; eassumption); exact I.
    + derive_rw H1. derive_rw H2. derive_rw H3. derive_rw H4. ring.
Qed.

Lemma lderive_const1 t : is_lderive (fun _ => 1) (fun _ => 0) t 0 0.
Proof.
  split.
  - apply (is_derive_eq _ _ 0); [ring | apply (is_derive_const (V:=R_NormedModule))].
  - apply (is_derive_eq _ _ 0); [ring | apply (is_derive_const (V:=R_NormedModule))].
Qed.

Lemma lderive_polar (G H : R -> R) t dG dH :
  is_derive G t dG -> is_derive H t dH ->
  is_lderive (fun x => exp (G x) * cos (H x)) (fun x => exp (G x) * sin (H x)) t dG dH.
Proof.
  intros HG HH. split.
  - auto_derive.
    + repeat split; try (eexists; eassumption); exact I.
    + derive_rw HG. derive_rw HH. ring.
  - auto_derive.
    + repeat split; try (eexists; eassumption); exact I.
    + derive_rw HG. derive_rw HH. ring.
Qed.

(* |1 + exp(x + i y)|^2 *)
Definition ope_n2 (x y : R) : R :=
  (1 + exp x * cos y) * (1 + exp x * cos y) + (exp x * sin y) * (exp x * sin y).

Lemma pi_guard_pos xy : pi_guard xy <-> 0 < ope_n2 (fst xy) (snd xy).
Proof.
  unfold pi_guard, ope_n2. split.
  - intros [H|H]; apply Rsqr_pos_lt in H; unfold Rsqr in H.
    + pose proof (Rle_0_sqr (exp (fst xy) * sin (snd xy))) as H2; unfold Rsqr in H2. lra.
    + pose proof (Rle_0_sqr (1 + exp (fst xy) * cos (snd xy))) as H2; unfold Rsqr in H2. lra.
  - intros H.
    destruct (Req_dec (1 + exp (fst xy) * cos (snd xy)) 0) as [E|E]; [right | left; exact E].
    intros E2. rewrite E, E2 in H. lra.
Qed.

Lemma lderive_ope (X Y : R -> R) t dX dY :
  is_derive X t dX -> is_derive Y t dY -> 0 < ope_n2 (X t) (Y t) ->
  let s := csigmoid ROps (X t) (Y t) in
  is_lderive (fun x => 1 + exp (X x) * cos (Y x)) (fun x => exp (X x) * sin (Y x)) t
             (fst s * dX - snd s * dY) (fst s * dY + snd s * dX).
Proof.
  intros HX HY Hpos s. unfold ope_n2 in Hpos. split.
  - auto_derive.
    + repeat split; try (eexists; eassumption); exact I.
    + derive_rw HX. derive_rw HY. unfold s, csigmoid, cdiv, cinv, cmul, cadd, c1, CBase.cnorm2.
      cbn [fst snd nadd nsub nmul ndiv nopp nexp ncos nsin n0 n1 ROps].
      field. lra.
  - auto_derive.
    + repeat split; try (eexists; eassumption); exact I.
    + derive_rw HX. derive_rw HY. unfold s, csigmoid, cdiv, cinv, cmul, cadd, c1, CBase.cnorm2.
      cbn [fst snd nadd nsub nmul ndiv nopp nexp ncos nsin n0 n1 ROps].
      field. lra.
Qed.

(* ================================================================== B. products over the auxiliary units; the guard is an open condition *)
Lemma lderive_ext_loc fr fi gr gi t Lr Li :
  locally t (fun x => fr x = gr x /\ fi x = gi x) ->
  is_lderive fr fi t Lr Li -> is_lderive gr gi t Lr Li.
Proof.
  intros Hloc [H1 H2].
  destruct (locally_singleton _ _ Hloc) as [E1 E2].
  unfold is_lderive. rewrite <- E1, <- E2. split.
  - apply (is_derive_ext_loc fr); [|exact H1]. revert Hloc. apply filter_imp. intros x [Hx _]; exact Hx.
  - apply (is_derive_ext_loc fi); [|exact H2]. revert Hloc. apply filter_imp. intros x [_ Hx]; exact Hx.
Qed.

Lemma locally_ope_pos (X Y : R -> R) t0 dX dY :
  is_derive X t0 dX -> is_derive Y t0 dY -> 0 < ope_n2 (X t0) (Y t0) ->
  locally t0 (fun t => 0 < ope_n2 (X t) (Y t)).
Proof.
  intros HX HY Hpos.
  assert (Hex : ex_derive (fun t => ope_n2 (X t) (Y t)) t0).
  { unfold ope_n2. auto_derive. repeat split; try (eexists; eassumption); exact I. }
  pose proof (ex_derive_continuous _ _ Hex) as Hc.
  exact (Hc (fun y => 0 < y) (open_gt 0 _ Hpos)).
Qed.

Section Prod.
  Context {A : Type}.
  Variables (X Y : A -> R -> R) (dX dY : A -> R) (t0 : R).

  Definition ope (a : A) (t : R) : C := (1 + exp (X a t) * cos (Y a t), exp (X a t) * sin (Y a t)).
  Definition ope_prod (l : list A) (t : R) : C := Rho.cprod (map (fun a => ope a t) l).
  Definition sgL_re (a : A) : R :=
    fst (csigmoid ROps (X a t0) (Y a t0)) * dX a - snd (csigmoid ROps (X a t0) (Y a t0)) * dY a.
  Definition sgL_im (a : A) : R :=
    fst (csigmoid ROps (X a t0) (Y a t0)) * dY a + snd (csigmoid ROps (X a t0) (Y a t0)) * dX a.

  Lemma lderive_ope_prod (l : list A) :
    (forall a, In a l -> is_derive (X a) t0 (dX a)) ->
    (forall a, In a l -> is_derive (Y a) t0 (dY a)) ->
    (forall a, In a l -> 0 < ope_n2 (X a t0) (Y a t0)) ->
    is_lderive (fun t => fst (ope_prod l t)) (fun t => snd (ope_prod l t)) t0
               (sum ROps (map sgL_re l)) (sum ROps (map sgL_im l)).
  Proof.
    induction l as [|a l IH]; intros HX HY HP.
    - apply lderive_const1.
    - assert (Ha : is_lderive (fun t => fst (ope a t)) (fun t => snd (ope a t)) t0 (sgL_re a) (sgL_im a)).
      { apply (lderive_ope (X a) (Y a) t0 (dX a) (dY a)); [apply HX | apply HY | apply HP]; left; reflexivity. }
      assert (Hl : is_lderive (fun t => fst (ope_prod l t)) (fun t => snd (ope_prod l t)) t0
                              (sum ROps (map sgL_re l)) (sum ROps (map sgL_im l))).
      { apply IH; intros b Hb; [apply HX | apply HY | apply HP]; right; exact Hb. }
      exact (lderive_mult _ _ _ _ _ _ _ _ _ Ha Hl).
  Qed.

  Lemma locally_ope_pos_list (l : list A) :
    (forall a, In a l -> is_derive (X a) t0 (dX a)) ->
    (forall a, In a l -> is_derive (Y a) t0 (dY a)) ->
    (forall a, In a l -> 0 < ope_n2 (X a t0) (Y a t0)) ->
    locally t0 (fun t => forall a, In a l -> 0 < ope_n2 (X a t) (Y a t)).
  Proof.
    induction l as [|a l IH]; intros HX HY HP.
    - apply filter_forall. intros t a [].
    - assert (Ha : locally t0 (fun t => 0 < ope_n2 (X a t) (Y a t))).
      { apply (locally_ope_pos (X a) (Y a) t0 (dX a) (dY a)); [apply HX | apply HY | apply HP]; left; reflexivity. }
      assert (Hl : locally t0 (fun t => forall b, In b l -> 0 < ope_n2 (X b t) (Y b t))).
      { apply IH; intros b Hb; [apply HX | apply HY | apply HP]; right; exact Hb. }
      generalize (filter_and _ _ Ha Hl). apply filter_imp.
      intros t [H1 H2] b [<-|Hb]; [exact H1 | apply H2; exact Hb].
  Qed.
End Prod.

Lemma ope_eq x y : Cplus (RtoC 1) (cexp (x, y)) = (1 + exp x * cos y, exp x * sin y).
Proof. unfold Cplus, RtoC, cexp, polar; cbn [fst snd]. apply C_eq; cbn [fst snd]; ring. Qed.

(* ================================================================== C. pi_args and gamma along a line in parameter space *)
(* ---- pi_args along a line *)
Definition xs_of (U : list (list R)) (d : list R) (v vp : bits) : list R :=
  map (half ROps) (vadd ROps (linearb ROps U d v) (linearb ROps U d vp)).
Definition ys_of (U : list (list R)) (v vp : bits) : list R :=
  map (half ROps) (vsub ROps (matvecb ROps U v) (matvecb ROps U vp)).

Lemma pi_args_eq am ph v vp :
  pi_args ROps am ph v vp = combine (xs_of (pU am) (pd am) v vp) (ys_of (pU ph) v vp).
Proof. reflexivity. Qed.

Lemma xs_of_cons r U x d v vp :
  xs_of (r :: U) (x :: d) v vp = ((dotb ROps r v + x) + (dotb ROps r vp + x)) / 2 :: xs_of U d v vp.
Proof. unfold xs_of. cbn [linearb combine map fst snd vadd]. rewrite half_R. reflexivity. Qed.

Lemma ys_of_cons r U v vp :
  ys_of (r :: U) v vp = (dotb ROps r v - dotb ROps r vp) / 2 :: ys_of U v vp.
Proof. unfold ys_of. cbn [matvecb combine map fst snd vsub]. rewrite half_R. reflexivity. Qed.

Lemma xs_line U DU d dd v vp t :
  List.Forall2 (fun r d => length r = length d) U DU -> length d = length dd ->
  xs_of (mline U DU t) (vline d dd t) v vp = vline (xs_of U d v vp) (xs_of DU dd v vp) t.
Proof.
  intros HU; revert d dd; induction HU as [|r dr U DU Hr HU IH]; intros d dd Hd.
  - reflexivity.
  - destruct d as [|x d], dd as [|y dd]; try discriminate; [reflexivity|].
    rewrite mline_cons, vline_cons, !xs_of_cons, vline_cons.
    rewrite IH by (simpl in Hd; lia). rewrite !dotb_vline by exact Hr.
    f_equal. cbn [nadd ROps]. field.
Qed.

Lemma ys_line U DU v vp t :
  List.Forall2 (fun r d => length r = length d) U DU ->
  ys_of (mline U DU t) v vp = vline (ys_of U v vp) (ys_of DU v vp) t.
Proof.
  induction 1 as [|r dr U DU Hr HU IH].
  - reflexivity.
  - rewrite mline_cons, !ys_of_cons, vline_cons, IH, !dotb_vline by exact Hr.
    f_equal. cbn [nsub ROps]. field.
Qed.

Lemma xs_of_length U d v vp : length U = length d -> length (xs_of U d v vp) = length d.
Proof.
  intros H. unfold xs_of. rewrite map_length, Deriv.vadd_length; rewrite !Deriv.linearb_length' by exact H; reflexivity.
Qed.

Lemma ys_of_length U v vp : length (ys_of U v vp) = length U.
Proof.
  unfold ys_of. rewrite map_length, Deriv.vsub_length; rewrite !matvecb_length; reflexivity.
Qed.

Definition aff (t : R) (q : (R * R) * (R * R)) : R * R :=
  (fst (fst q) + t * fst (snd q), snd (fst q) + t * snd (snd q)).

Lemma combine_vline a da b db t :
  length a = length da -> length b = length db -> length a = length b ->
  combine (vline a da t) (vline b db t) = map (aff t) (combine (combine a b) (combine da db)).
Proof.
  revert da b db; induction a as [|x a IH]; intros [|dx da] [|y b] [|dy db] H1 H2 H3; try discriminate; [reflexivity|].
  rewrite !vline_cons. cbn [combine map]. rewrite IH by (simpl in *; lia). reflexivity.
Qed.

Lemma pi_args_line nh na nv am dam ph dph v vp t :
  p_shaped nh na nv am -> p_shaped nh na nv dam -> p_shaped nh na nv ph -> p_shaped nh na nv dph ->
  pi_args ROps (p_line am dam t) (p_line ph dph t) v vp =
  map (aff t) (combine (pi_args ROps am ph v vp) (pi_args ROps dam dph v vp)).
Proof.
  intros (A1 & A2 & A3 & A4 & A5 & A6 & A7) (B1 & B2 & B3 & B4 & B5 & B6 & B7)
         (C1 & C2 & C3 & C4 & C5 & C6 & C7) (D1 & D2 & D3 & D4 & D5 & D6 & D7).
  rewrite !pi_args_eq. unfold p_line; cbn [pU pd].
  rewrite xs_line by (try apply (Forall2_same_len _ _ nv); congruence).
  rewrite ys_line by (apply (Forall2_same_len _ _ nv); congruence).
  apply combine_vline; rewrite ?xs_of_length, ?ys_of_length; congruence.
Qed.

(* ---- the visible term along a line *)
Definition p_vis_binary (r : prbm (T:=R)) : brbm := mkB (pW r) (pb r) (pc r).

Lemma p_vis_term_binary r v : p_vis_term ROps r v = - b_eff_energy ROps (p_vis_binary r) v.
Proof. unfold p_vis_term, b_eff_energy, p_vis_binary; cbn [bW bb bc nopp nadd ROps]. ring. Qed.

Lemma p_vis_shaped nh na nv r : p_shaped nh na nv r -> b_shaped nh nv (p_vis_binary r).
Proof. intros (H1 & H2 & H3 & H4 & H5 & H6 & H7). unfold b_shaped, p_vis_binary; cbn [bW bb bc]. auto. Qed.

(* the directional derivative of the visible term *)
Definition Dvis (r de : prbm (T:=R)) (v : bits) : R :=
  dotb ROps (pb de) v + dot ROps (p_prob_h_given_v ROps r v) (linearb ROps (pW de) (pc de) v).

Lemma is_derive_vis nh na nv th de v t0 :
  p_shaped nh na nv th -> p_shaped nh na nv de -> length v = nv ->
  is_derive (fun t => p_vis_term ROps (p_line th de t) v) t0 (Dvis (p_line th de t0) de v).
Proof.
  intros Hth Hde Hv.
  apply (is_derive_ext (fun t => - b_eff_energy ROps (b_line (p_vis_binary th) (p_vis_binary de) t) v)).
  { intros t. rewrite p_vis_term_binary. reflexivity. }
  pose proof (energy_grad_binary nh nv (p_vis_binary th) (p_vis_binary de) v t0
                (p_vis_shaped _ _ _ _ Hth) (p_vis_shaped _ _ _ _ Hde) Hv) as HD.
  rewrite (b_energy_grad_dot nh nv) in HD
    by (try apply b_line_shaped; try apply (p_vis_shaped nh na nv); assumption).
  eapply is_derive_eq; [|apply is_derive_opp_R; exact HD].
  rewrite Ropp_involutive. reflexivity.
Qed.

Lemma is_derive_half_pm (f g : R -> R) t df dg (plus : bool) :
  is_derive f t df -> is_derive g t dg ->
  is_derive (fun x => (f x + (if plus then g x else - g x)) / 2) t ((df + sg ROps plus dg) / 2).
Proof.
  intros Hf Hg. destruct plus; cbn [sg nopp ROps].
  - auto_derive.
    + repeat split; try (eexists; eassumption); exact I.
    + derive_rw Hf. derive_rw Hg. field.
  - auto_derive.
    + repeat split; try (eexists; eassumption); exact I.
    + derive_rw Hf. derive_rw Hg. field.
Qed.

Lemma is_derive_gamma nh na nv th de plus v vp t0 :
  p_shaped nh na nv th -> p_shaped nh na nv de -> length v = nv -> length vp = nv ->
  is_derive (fun t => p_gamma ROps (p_line th de t) plus v vp) t0
            ((Dvis (p_line th de t0) de v + sg ROps plus (Dvis (p_line th de t0) de vp)) / 2).
Proof.
  intros Hth Hde Hv Hvp.
  pose proof (is_derive_vis nh na nv th de v t0 Hth Hde Hv) as H1.
  pose proof (is_derive_vis nh na nv th de vp t0 Hth Hde Hvp) as H2.
  apply (is_derive_ext (fun t => (p_vis_term ROps (p_line th de t) v
            + (if plus then p_vis_term ROps (p_line th de t) vp else - p_vis_term ROps (p_line th de t) vp)) / 2)).
  { intros t. rewrite gamma_R. reflexivity. }
  apply (is_derive_half_pm (fun t => p_vis_term ROps (p_line th de t) v)
                           (fun t => p_vis_term ROps (p_line th de t) vp)); assumption.
Qed.

(* ================================================================== D. gamma_grad and pi_grad paired with a direction *)
Lemma pt5_R : pt5 ROps = / 2.
Proof. unfold pt5, two. cbn [ndiv nadd n1 ROps]. field. Qed.

Lemma p_flatten_eq (de : prbm (T:=R)) :
  p_flatten de = concat (pW de) ++ concat (pU de) ++ pb de ++ pc de ++ pd de.
Proof. unfold p_flatten, parameters_to_vector, p_params. cbn [flat_map flat1]. rewrite app_nil_r. reflexivity. Qed.

Lemma dot_half_comb plus (a b d : list R) :
  length a = length b ->
  dot ROps (half_comb ROps plus a b) d = (dot ROps a d + sg ROps plus (dot ROps b d)) / 2.
Proof.
  unfold half_comb. rewrite pt5_R.
  revert b d; induction a as [|x a IH]; intros [|y b] [|e d] H; try discriminate;
    cbn [combine map dot fst snd nadd nmul n0 ROps].
  - destruct plus; cbn [sg nopp ROps]; lra.
  - destruct plus; cbn [sg nopp ROps]; lra.
  - destruct plus; cbn [sg nopp ROps]; lra.
  - rewrite IH by (simpl in H; lia). destruct plus; cbn [sg nopp ROps]; lra.
Qed.

Lemma p_prob_h_length nh na nv (r : prbm (T:=R)) v : p_shaped nh na nv r -> length (p_prob_h_given_v ROps r v) = nh.
Proof.
  intros (H1 & H2 & H3 & H4 & H5 & H6 & H7). unfold p_prob_h_given_v.
  rewrite map_length, Deriv.linearb_length'; congruence.
Qed.

Lemma bvec_length (v : bits) : length (bvec ROps v) = length v.
Proof. apply map_length. Qed.

(* gamma_grad paired with a direction = the directional derivative of gamma *)
Lemma gamma_grad_dot nh na nv (r de : prbm (T:=R)) plus v vp :
  p_shaped nh na nv r -> p_shaped nh na nv de -> length v = nv -> length vp = nv ->
  dot ROps (p_gamma_grad ROps r plus v vp) (p_flatten de) =
  (Dvis r de v + sg ROps plus (Dvis r de vp)) / 2.
Proof.
  intros Hr (K1 & K2 & K3 & K4 & K5 & K6 & K7) Hv Hvp.
  pose proof (p_prob_h_length nh na nv r v Hr) as Lp.
  pose proof (p_prob_h_length nh na nv r vp Hr) as Lpp.
  destruct Hr as (H1 & H2 & H3 & H4 & H5 & H6 & H7).
  unfold p_gamma_grad. rewrite p_flatten_eq.
  set (phv := p_prob_h_given_v ROps r v) in *. set (phvp := p_prob_h_given_v ROps r vp) in *.
  rewrite dot_app.
  2:{ rewrite half_comb_length; rewrite !outerb_length, ?Lp, ?Lpp, ?(concat_length_rect _ nv) by exact K2; congruence. }
  rewrite dot_app.
  2:{ unfold vzero. rewrite repeat_length, !(concat_length_rect _ nv) by assumption. congruence. }
  rewrite dot_app.
  2:{ rewrite half_comb_length; rewrite !bvec_length; congruence. }
  rewrite dot_app.
  2:{ rewrite half_comb_length; congruence. }
  unfold vzero. cbn [n0 ROps]. rewrite !dot_zero_l.
  rewrite !dot_half_comb by (rewrite ?outerb_length, ?bvec_length; congruence).
  rewrite !dot_outerb by (rewrite ?Hv, ?Hvp; exact K2).
  unfold bvec. rewrite !dot_bvec.
  unfold Dvis. fold phv phvp. rewrite !dot_linearb by congruence.
  destruct plus; cbn [sg nopp ROps]; field.
Qed.

(* ---- pi_grad *)
Lemma pi_grad_args_expand am ph v vp : pi_grad_args ROps am ph true v vp = pi_args ROps am ph v vp.
Proof.
  unfold pi_grad_args, pi_args. rewrite pt5_R.
  f_equal; apply map_ext; intros x; rewrite half_R; cbn [nmul ROps]; field.
Qed.

Definition Ublock (sg : list R) (temp : list R) : list R :=
  flat_map (fun s => map (fun tk => / 2 * (s * tk)) temp) sg.

Lemma map_fst_Ublock (sig : list (R * R)) temp :
  map fst (flat_map (fun s => map (fun tk => (/ 2 * (fst s * tk), / 2 * (snd s * tk))) temp) sig)
  = Ublock (map fst sig) temp.
Proof.
  induction sig as [|s sig IH]; [reflexivity|]. cbn [flat_map map]. unfold Ublock in *. cbn [flat_map].
  rewrite map_app, map_map, IH. reflexivity.
Qed.
Lemma map_snd_Ublock (sig : list (R * R)) temp :
  map snd (flat_map (fun s => map (fun tk => (/ 2 * (fst s * tk), / 2 * (snd s * tk))) temp) sig)
  = Ublock (map snd sig) temp.
Proof.
  induction sig as [|s sig IH]; [reflexivity|]. cbn [flat_map map]. unfold Ublock in *. cbn [flat_map].
  rewrite map_app, map_map, IH. reflexivity.
Qed.

Lemma Ublock_length sg temp : length (Ublock sg temp) = (length sg * length temp)%nat.
Proof. unfold Ublock. induction sg as [|s sg IH]; [reflexivity|]. cbn [flat_map]. rewrite app_length, map_length, IH. reflexivity. Qed.

Lemma dot_Ublock sg temp (DU : list (list R)) :
  List.Forall (fun row => length row = length temp) DU ->
  dot ROps (Ublock sg temp) (concat DU) = dot ROps sg (map (fun row => dot ROps temp row / 2) DU).
Proof.
  intros HD; revert sg; induction HD as [|row DU Hr HD IH]; intros [|s sg]; try reflexivity.
  - cbn [concat map]. rewrite !dot_nil_r. reflexivity.
  - unfold Ublock in *. cbn [flat_map concat map].
    rewrite dot_app by (rewrite map_length; congruence).
    rewrite IH. cbn [dot nadd nmul ROps]. f_equal.
    rewrite (dot_map_lin _ (s / 2)) by (intros; field). field.
Qed.

Lemma dot_vadd_bvec v vp (row : list R) :
  length v = length vp ->
  dot ROps (vadd ROps (bvec ROps v) (bvec ROps vp)) row = dotb ROps row v + dotb ROps row vp.
Proof. intros H. rewrite dot_vadd_l by (rewrite !bvec_length; exact H). unfold bvec. rewrite !dot_bvec. reflexivity. Qed.

Lemma dot_vsub_bvec v vp (row : list R) :
  length v = length vp ->
  dot ROps (vsub ROps (bvec ROps v) (bvec ROps vp)) row = dotb ROps row v - dotb ROps row vp.
Proof. intros H. rewrite dot_vsub_l by (rewrite !bvec_length; exact H). unfold bvec. rewrite !dot_bvec. reflexivity. Qed.

Lemma dot_xs sg DU dd v vp :
  length v = length vp -> length DU = length dd ->
  dot ROps sg (map (fun row => dot ROps (vadd ROps (bvec ROps v) (bvec ROps vp)) row / 2) DU) + dot ROps sg dd
  = dot ROps sg (xs_of DU dd v vp).
Proof.
  intros Hv; revert sg dd; induction DU as [|row DU IH]; intros sg [|x dd] H; try discriminate.
  - change (xs_of [] [] v vp) with (@nil R). cbn [map]. rewrite !dot_nil_r. lra.
  - destruct sg as [|s sg]; [cbn [dot n0 ROps]; lra|].
    rewrite xs_of_cons. cbn [map dot nadd nmul ROps]. rewrite <- IH by (simpl in H; lia).
    rewrite dot_vadd_bvec by exact Hv. field.
Qed.

Lemma map_ys DU v vp :
  length v = length vp ->
  map (fun row => dot ROps (vsub ROps (bvec ROps v) (bvec ROps vp)) row / 2) DU = ys_of DU v vp.
Proof.
  intros Hv. induction DU as [|row DU IH]; [reflexivity|].
  rewrite ys_of_cons. cbn [map]. rewrite IH, dot_vsub_bvec by exact Hv. reflexivity.
Qed.

Lemma dot_fst_muli (S : list (R * R)) d :
  dot ROps (map fst (map (fun z => cmul ROps z (ci ROps)) S)) d = - dot ROps (map snd S) d.
Proof.
  revert d; induction S as [|z S IH]; intros [|e d]; cbn [map dot cmul ci fst snd nadd nsub nmul n0 n1 ROps]; try lra.
  rewrite IH. ring.
Qed.
Lemma dot_snd_muli (S : list (R * R)) d :
  dot ROps (map snd (map (fun z => cmul ROps z (ci ROps)) S)) d = dot ROps (map fst S) d.
Proof.
  revert d; induction S as [|z S IH]; intros [|e d]; cbn [map dot cmul ci fst snd nadd nsub nmul n0 n1 ROps]; try lra.
  rewrite IH. ring.
Qed.

Definition sigs (am ph : prbm (T:=R)) (v vp : bits) : list (R * R) :=
  map (fun xy => csigmoid ROps (fst xy) (snd xy)) (pi_args ROps am ph v vp).

Lemma sigs_length nh na nv am ph v vp :
  p_shaped nh na nv am -> p_shaped nh na nv ph -> length (sigs am ph v vp) = na.
Proof.
  intros (A1 & A2 & A3 & A4 & A5 & A6 & A7) (C1 & C2 & C3 & C4 & C5 & C6 & C7).
  unfold sigs. rewrite map_length, pi_args_length; congruence.
Qed.

Lemma vadd_bvec_length v vp : length v = length vp -> length (vadd ROps (bvec ROps v) (bvec ROps vp)) = length v.
Proof. intros H. rewrite Deriv.vadd_length; rewrite !bvec_length; congruence. Qed.
Lemma vsub_bvec_length v vp : length v = length vp -> length (vsub ROps (bvec ROps v) (bvec ROps vp)) = length v.
Proof. intros H. rewrite Deriv.vsub_length; rewrite !bvec_length; congruence. Qed.

(* pi_grad (amplitude network) paired with a direction of the amplitude network *)
Lemma pi_grad_am_dot nh na nv am ph dam v vp :
  p_shaped nh na nv am -> p_shaped nh na nv ph -> p_shaped nh na nv dam -> length v = nv -> length vp = nv ->
  dot ROps (map fst (p_pi_grad ROps am ph false true v vp)) (p_flatten dam)
    = dot ROps (map fst (sigs am ph v vp)) (xs_of (pU dam) (pd dam) v vp) /\
  dot ROps (map snd (p_pi_grad ROps am ph false true v vp)) (p_flatten dam)
    = dot ROps (map snd (sigs am ph v vp)) (xs_of (pU dam) (pd dam) v vp).
Proof.
  intros Ham Hph (K1 & K2 & K3 & K4 & K5 & K6 & K7) Hv Hvp.
  pose proof (sigs_length nh na nv am ph v vp Ham Hph) as LS.
  destruct Ham as (A1 & A2 & A3 & A4 & A5 & A6 & A7).
  unfold p_pi_grad. rewrite pi_grad_args_expand.
  change (map (fun xy => csigmoid ROps (fst xy) (snd xy)) (pi_args ROps am ph v vp)) with (sigs am ph v vp).
  rewrite pt5_R.
  set (S := sigs am ph v vp) in *. set (temp := vadd ROps (bvec ROps v) (bvec ROps vp)). unfold cx in *.
  assert (Lt : length temp = nv) by (unfold temp; rewrite vadd_bvec_length; congruence).
  rewrite p_flatten_eq, !map_app, map_fst_Ublock, map_snd_Ublock, !map_fst_cvzero, !map_snd_cvzero.
  assert (E1 : length (repeat 0 (length (concat (pW am)))) = length (concat (pW dam))).
  { rewrite repeat_length, !(concat_length_rect _ nv) by assumption. congruence. }
  assert (E2f : length (Ublock (map fst S) temp) = length (concat (pU dam))).
  { rewrite Ublock_length, map_length, (concat_length_rect _ nv) by assumption. congruence. }
  assert (E2s : length (Ublock (map snd S) temp) = length (concat (pU dam))).
  { rewrite Ublock_length, map_length, (concat_length_rect _ nv) by assumption. congruence. }
  assert (E3 : length (repeat 0 (length (pb am))) = length (pb dam)) by (rewrite repeat_length; congruence).
  assert (E4 : length (repeat 0 (length (pc am))) = length (pc dam)) by (rewrite repeat_length; congruence).
  split.
  - rewrite dot_app by exact E1. rewrite dot_app by exact E2f. rewrite dot_app by exact E3. rewrite dot_app by exact E4.
    rewrite !dot_zero_l, dot_Ublock by (rewrite Lt; exact K4).
    unfold temp. rewrite <- (dot_xs (map fst S)) by congruence. lra.
  - rewrite dot_app by exact E1. rewrite dot_app by exact E2s. rewrite dot_app by exact E3. rewrite dot_app by exact E4.
    rewrite !dot_zero_l, dot_Ublock by (rewrite Lt; exact K4).
    unfold temp. rewrite <- (dot_xs (map snd S)) by congruence. lra.
Qed.

(* pi_grad (phase network) paired with a direction of the phase network *)
Lemma pi_grad_ph_dot nh na nv am ph dph v vp :
  p_shaped nh na nv am -> p_shaped nh na nv ph -> p_shaped nh na nv dph -> length v = nv -> length vp = nv ->
  dot ROps (map fst (p_pi_grad ROps am ph true true v vp)) (p_flatten dph)
    = - dot ROps (map snd (sigs am ph v vp)) (ys_of (pU dph) v vp) /\
  dot ROps (map snd (p_pi_grad ROps am ph true true v vp)) (p_flatten dph)
    = dot ROps (map fst (sigs am ph v vp)) (ys_of (pU dph) v vp).
Proof.
  intros Ham Hph (K1 & K2 & K3 & K4 & K5 & K6 & K7) Hv Hvp.
  pose proof (sigs_length nh na nv am ph v vp Ham Hph) as LS.
  destruct Ham as (A1 & A2 & A3 & A4 & A5 & A6 & A7).
  destruct Hph as (C1 & C2 & C3 & C4 & C5 & C6 & C7).
  unfold p_pi_grad. rewrite pi_grad_args_expand.
  change (map (fun xy => csigmoid ROps (fst xy) (snd xy)) (pi_args ROps am ph v vp)) with (sigs am ph v vp).
  rewrite pt5_R.
  set (S := sigs am ph v vp) in *. set (temp := vsub ROps (bvec ROps v) (bvec ROps vp)).
  set (Si := map (fun z => cmul ROps z (ci ROps)) S). unfold cx in *.
  assert (LSi : length Si = na) by (unfold Si; rewrite map_length; exact LS).
  assert (Lt : length temp = nv) by (unfold temp; rewrite vsub_bvec_length; congruence).
  rewrite p_flatten_eq, !map_app, map_fst_Ublock, map_snd_Ublock, !map_fst_cvzero, !map_snd_cvzero.
  assert (E1 : length (repeat 0 (length (concat (pW am)))) = length (concat (pW dph))).
  { rewrite repeat_length, !(concat_length_rect _ nv) by assumption. congruence. }
  assert (E2f : length (Ublock (map fst Si) temp) = length (concat (pU dph))).
  { rewrite Ublock_length, map_length, (concat_length_rect _ nv) by assumption. congruence. }
  assert (E2s : length (Ublock (map snd Si) temp) = length (concat (pU dph))).
  { rewrite Ublock_length, map_length, (concat_length_rect _ nv) by assumption. congruence. }
  assert (E3 : length (repeat 0 (length (pb am))) = length (pb dph)) by (rewrite repeat_length; congruence).
  assert (E4 : length (repeat 0 (length (pc am))) = length (pc dph)) by (rewrite repeat_length; congruence).
  split.
  - rewrite dot_app by exact E1. rewrite dot_app by exact E2f. rewrite dot_app by exact E3. rewrite dot_app by exact E4.
    rewrite !dot_zero_l, dot_Ublock by (rewrite Lt; exact K4).
    unfold temp. rewrite map_ys by congruence. unfold Si. rewrite dot_fst_muli. lra.
  - rewrite dot_app by exact E1. rewrite dot_app by exact E2s. rewrite dot_app by exact E3. rewrite dot_app by exact E4.
    rewrite !dot_zero_l, dot_Ublock by (rewrite Lt; exact K4).
    unfold temp. rewrite map_ys by congruence. unfold Si. rewrite dot_snd_muli. lra.
Qed.

(* ================================================================== E. step 1: the per-entry log-derivative of rho *)
Lemma pi_grad_length nh na nv am ph phase v vp :
  p_shaped nh na nv am -> p_shaped nh na nv ph -> length v = nv -> length vp = nv ->
  length (p_pi_grad ROps am ph phase true v vp) = p_num_pars am.
Proof.
  intros Ham Hph Hv Hvp.
  pose proof (sigs_length nh na nv am ph v vp Ham Hph) as LS.
  destruct Ham as (A1 & A2 & A3 & A4 & A5 & A6 & A7).
  destruct Hph as (C1 & C2 & C3 & C4 & C5 & C6 & C7).
  unfold p_pi_grad. rewrite pi_grad_args_expand.
  change (map (fun xy => csigmoid ROps (fst xy) (snd xy)) (pi_args ROps am ph v vp)) with (sigs am ph v vp).
  set (S := sigs am ph v vp) in *.
  assert (LF : forall (sig : list (R * R)) (temp : list R),
             length (flat_map (fun s => map (fun tk => (nmul ROps (pt5 ROps) (nmul ROps (fst s) tk),
                                                        nmul ROps (pt5 ROps) (nmul ROps (snd s) tk))) temp) sig)
             = (length sig * length temp)%nat).
  { intros sig temp. induction sig as [|s sig IH]; [reflexivity|]. cbn [flat_map length]. rewrite app_length, map_length, IH. reflexivity. }
  unfold cvzero, p_num_pars, cx in *. rewrite (concat_length_rect _ nv) by exact A2.
  destruct phase.
  - rewrite !app_length, !repeat_length, LF, map_length, LS, vsub_bvec_length by congruence. lia.
  - rewrite !app_length, !repeat_length, LF, LS, vadd_bvec_length by congruence. lia.
Qed.

Lemma dot_map2 {A} (f g : A -> R) (l : list A) :
  dot ROps (map f l) (map g l) = sum ROps (map (fun a => f a * g a) l).
Proof. induction l as [|a l IH]; [reflexivity|]. cbn [map dot sum nadd nmul ROps]. rewrite IH. reflexivity. Qed.

(* the model's am_grads / ph_grads paired with directions *)
Lemma dm_am_grads_dot nh na nv am ph dam v vp :
  p_shaped nh na nv am -> p_shaped nh na nv ph -> p_shaped nh na nv dam -> length v = nv -> length vp = nv ->
  dot ROps (map fst (dm_am_grads ROps am ph v vp)) (p_flatten dam)
    = (Dvis am dam v + Dvis am dam vp) / 2 + dot ROps (map fst (sigs am ph v vp)) (xs_of (pU dam) (pd dam) v vp) /\
  dot ROps (map snd (dm_am_grads ROps am ph v vp)) (p_flatten dam)
    = dot ROps (map snd (sigs am ph v vp)) (xs_of (pU dam) (pd dam) v vp).
Proof.
  intros Ham Hph Hdam Hv Hvp.
  destruct (pi_grad_am_dot nh na nv am ph dam v vp Ham Hph Hdam Hv Hvp) as [P1 P2].
  pose proof (gamma_grad_dot nh na nv am dam true v vp Ham Hdam Hv Hvp) as G1.
  pose proof (proj2 (gamma_grad_aux_block_offset nh na nv am true v vp Ham Hv Hvp)) as LG.
  pose proof (pi_grad_length nh na nv am ph false v vp Ham Hph Hv Hvp) as LP.
  unfold dm_am_grads. rewrite map_fst_cvadd, map_snd_cvadd, !map_map.
  rewrite !dot_vadd_l by (rewrite !map_length; rewrite LG; symmetry; exact LP).
  rewrite P1, P2. split.
  - cbn [cofR fst]. rewrite map_id, G1. cbn [sg]. reflexivity.
  - cbn [cofR snd n0 ROps]. rewrite (dot_map_lin _ 0) by (intros; ring). ring.
Qed.

Lemma dm_ph_grads_dot nh na nv am ph dph v vp :
  p_shaped nh na nv am -> p_shaped nh na nv ph -> p_shaped nh na nv dph -> length v = nv -> length vp = nv ->
  dot ROps (map fst (dm_ph_grads ROps am ph v vp)) (p_flatten dph)
    = - dot ROps (map snd (sigs am ph v vp)) (ys_of (pU dph) v vp) /\
  dot ROps (map snd (dm_ph_grads ROps am ph v vp)) (p_flatten dph)
    = (Dvis ph dph v - Dvis ph dph vp) / 2 + dot ROps (map fst (sigs am ph v vp)) (ys_of (pU dph) v vp).
Proof.
  intros Ham Hph Hdph Hv Hvp.
  destruct (pi_grad_ph_dot nh na nv am ph dph v vp Ham Hph Hdph Hv Hvp) as [P1 P2].
  pose proof (gamma_grad_dot nh na nv ph dph false v vp Hph Hdph Hv Hvp) as G1.
  pose proof (proj2 (gamma_grad_aux_block_offset nh na nv ph false v vp Hph Hv Hvp)) as LG.
  pose proof (pi_grad_length nh na nv am ph true v vp Ham Hph Hv Hvp) as LP.
  assert (EN : p_num_pars am = p_num_pars ph).
  { destruct Ham as (A1 & A2 & A3 & A4 & A5 & A6 & A7), Hph as (C1 & C2 & C3 & C4 & C5 & C6 & C7).
    unfold p_num_pars. congruence. }
  unfold dm_ph_grads. rewrite map_fst_cvadd, map_snd_cvadd, !map_map.
  rewrite !dot_vadd_l by (rewrite !map_length; rewrite LG, <- EN; symmetry; exact LP).
  rewrite P1, P2. split.
  - rewrite (dot_map_lin _ 0) by (intros; cbn [cmul cofR ci fst snd nmul nsub nadd n0 n1 ROps]; ring). ring.
  - rewrite (dot_map_lin _ 1) by (intros; cbn [cmul cofR ci fst snd nmul nsub nadd n0 n1 ROps]; ring).
    rewrite G1. cbn [sg nopp ROps]. field.
Qed.

Section Entry.
  Variables (nh na nv : nat) (am dam ph dph : prbm (T:=R)) (v vp : bits) (t0 : R).
  Hypothesis Ham : p_shaped nh na nv am.
  Hypothesis Hdam : p_shaped nh na nv dam.
  Hypothesis Hph : p_shaped nh na nv ph.
  Hypothesis Hdph : p_shaped nh na nv dph.
  Hypothesis Hv : length v = nv.
  Hypothesis Hvp : length vp = nv.
  Hypothesis Hg : List.Forall pi_guard (pi_args ROps (p_line am dam t0) (p_line ph dph t0) v vp).

  Let items := combine (pi_args ROps am ph v vp) (pi_args ROps dam dph v vp).
  Let X (a : (R * R) * (R * R)) (t : R) : R := fst (fst a) + t * fst (snd a).
  Let Y (a : (R * R) * (R * R)) (t : R) : R := snd (fst a) + t * snd (snd a).
  Let dX (a : (R * R) * (R * R)) : R := fst (snd a).
  Let dY (a : (R * R) * (R * R)) : R := snd (snd a).
  Let am0 := p_line am dam t0.
  Let ph0 := p_line ph dph t0.

  Lemma entry_args t : pi_args ROps (p_line am dam t) (p_line ph dph t) v vp = map (fun a => (X a t, Y a t)) items.
  Proof. apply (pi_args_line nh na nv); assumption. Qed.

  Lemma entry_HX a : is_derive (X a) t0 (dX a).
  Proof. unfold X, dX. auto_derive; [exact I | ring]. Qed.
  Lemma entry_HY a : is_derive (Y a) t0 (dY a).
  Proof. unfold Y, dY. auto_derive; [exact I | ring]. Qed.

  Lemma entry_guard_of t :
    (forall a, In a items -> 0 < ope_n2 (X a t) (Y a t)) <->
    List.Forall pi_guard (pi_args ROps (p_line am dam t) (p_line ph dph t) v vp).
  Proof.
    rewrite entry_args, Forall_forall. split.
    - intros H xy Hin. apply in_map_iff in Hin. destruct Hin as [a [<- Ha]]. apply pi_guard_pos. cbn [fst snd]. apply H, Ha.
    - intros H a Ha. apply (pi_guard_pos (X a t, Y a t)). apply H. apply in_map_iff. exists a. split; [reflexivity | exact Ha].
  Qed.

  Lemma entry_smooth t :
    List.Forall pi_guard (pi_args ROps (p_line am dam t) (p_line ph dph t) v vp) ->
    dm_rho ROps (p_line am dam t) (p_line ph dph t) v vp =
    Cmult (polar (exp (p_gamma ROps (p_line am dam t) true v vp)) (p_gamma ROps (p_line ph dph t) false v vp))
          (ope_prod X Y items t).
  Proof.
    intros H. rewrite (rho_is_product _ _ _ _ H), entry_args, map_map. unfold ope_prod. f_equal. f_equal.
    apply map_ext. intros a. apply ope_eq.
  Qed.

  Lemma items_dX : map dX items = xs_of (pU dam) (pd dam) v vp.
  Proof.
    destruct Ham as (A1 & A2 & A3 & A4 & A5 & A6 & A7), Hdam as (B1 & B2 & B3 & B4 & B5 & B6 & B7),
             Hph as (C1 & C2 & C3 & C4 & C5 & C6 & C7), Hdph as (D1 & D2 & D3 & D4 & D5 & D6 & D7).
    unfold items, dX. rewrite <- (map_map snd fst), map_snd_combine by (rewrite !pi_args_length; congruence).
    rewrite pi_args_eq. apply map_fst_combine. rewrite xs_of_length, ys_of_length; congruence.
  Qed.
  Lemma items_dY : map dY items = ys_of (pU dph) v vp.
  Proof.
    destruct Ham as (A1 & A2 & A3 & A4 & A5 & A6 & A7), Hdam as (B1 & B2 & B3 & B4 & B5 & B6 & B7),
             Hph as (C1 & C2 & C3 & C4 & C5 & C6 & C7), Hdph as (D1 & D2 & D3 & D4 & D5 & D6 & D7).
    unfold items, dY. rewrite <- (map_map snd snd), map_snd_combine by (rewrite !pi_args_length; congruence).
    rewrite pi_args_eq. apply map_snd_combine. rewrite xs_of_length, ys_of_length; congruence.
  Qed.

  Lemma items_sigs : sigs am0 ph0 v vp = map (fun a => csigmoid ROps (X a t0) (Y a t0)) items.
  Proof. unfold sigs, am0, ph0. rewrite entry_args, map_map. reflexivity. Qed.

  Theorem rho_entry_lderive :
    is_lderive (fun t => fst (dm_rho ROps (p_line am dam t) (p_line ph dph t) v vp))
               (fun t => snd (dm_rho ROps (p_line am dam t) (p_line ph dph t) v vp)) t0
      (dot ROps (map fst (dm_am_grads ROps am0 ph0 v vp)) (p_flatten dam)
       + dot ROps (map fst (dm_ph_grads ROps am0 ph0 v vp)) (p_flatten dph))
      (dot ROps (map snd (dm_am_grads ROps am0 ph0 v vp)) (p_flatten dam)
       + dot ROps (map snd (dm_ph_grads ROps am0 ph0 v vp)) (p_flatten dph)).
  Proof.
    assert (Ham0 : p_shaped nh na nv am0) by (apply p_line_shaped; assumption).
    assert (Hph0 : p_shaped nh na nv ph0) by (apply p_line_shaped; assumption).
    destruct (dm_am_grads_dot nh na nv am0 ph0 dam v vp Ham0 Hph0 Hdam Hv Hvp) as [M1 M2].
    destruct (dm_ph_grads_dot nh na nv am0 ph0 dph v vp Ham0 Hph0 Hdph Hv Hvp) as [M3 M4].
    rewrite M1, M2, M3, M4. clear M1 M2 M3 M4.
    rewrite items_sigs, <- items_dX, <- items_dY, !map_map, !dot_map2.
    set (dG := (Dvis am0 dam v + Dvis am0 dam vp) / 2).
    set (dH := (Dvis ph0 dph v - Dvis ph0 dph vp) / 2).
    assert (HG : is_derive (fun t => p_gamma ROps (p_line am dam t) true v vp) t0 dG).
    { apply (is_derive_gamma nh na nv am dam true v vp t0); assumption. }
    assert (HH : is_derive (fun t => p_gamma ROps (p_line ph dph t) false v vp) t0 dH).
    { eapply is_derive_eq; [|apply (is_derive_gamma nh na nv ph dph false v vp t0); assumption].
      unfold dH. cbn [sg nopp ROps]. fold ph0. field. }
    assert (Hpos0 : forall a, In a items -> 0 < ope_n2 (X a t0) (Y a t0)) by (apply entry_guard_of; exact Hg).
    pose proof (lderive_polar _ _ t0 dG dH HG HH) as LP.
    pose proof (lderive_ope_prod X Y dX dY t0 items (fun a _ => entry_HX a) (fun a _ => entry_HY a) Hpos0) as LQ.
    pose proof (lderive_mult _ _ _ _ _ _ _ _ _ LP LQ) as LM. cbv beta in LM.
    assert (Hloc : locally t0 (fun t => forall a, In a items -> 0 < ope_n2 (X a t) (Y a t))).
    { apply (locally_ope_pos_list X Y dX dY t0 items); auto using entry_HX, entry_HY. }
    apply (lderive_ext_loc _ _ (fun t => fst (dm_rho ROps (p_line am dam t) (p_line ph dph t) v vp))
                               (fun t => snd (dm_rho ROps (p_line am dam t) (p_line ph dph t) v vp))) in LM.
    2:{ revert Hloc. apply filter_imp. intros t Ht. apply entry_guard_of in Ht.
        rewrite (entry_smooth t Ht). unfold Cmult, polar; cbn [fst snd]. split; reflexivity. }
    destruct LM as [L1 L2].
    unfold sgL_re, sgL_im in L1, L2. rewrite sum_map_minus, sum_map_plus in L1, L2. split.
    - eapply is_derive_eq; [|exact L1]. fold am0 ph0. ring.
    - eapply is_derive_eq; [|exact L2]. fold am0 ph0. ring.
  Qed.
End Entry.

(* ================================================================== F. step 2: one measured row in a rotated basis *)
Lemma cvadd_length (x y : list (R * R)) : length x = length y -> length (cvadd ROps x y) = length x.
Proof. intros H. unfold cvadd. rewrite map_length, combine_length. unfold cx in *. lia. Qed.

Lemma p_num_pars_eq nh na nv (r : prbm (T:=R)) :
  p_shaped nh na nv r -> p_num_pars r = (nh * nv + na * nv + nv + nh + na)%nat.
Proof. intros (A1 & A2 & A3 & A4 & A5 & A6 & A7). unfold p_num_pars. congruence. Qed.

Lemma dm_am_grads_length nh na nv am ph v vp :
  p_shaped nh na nv am -> p_shaped nh na nv ph -> length v = nv -> length vp = nv ->
  length (dm_am_grads ROps am ph v vp) = p_num_pars am.
Proof.
  intros Ham Hph Hv Hvp.
  pose proof (proj2 (gamma_grad_aux_block_offset nh na nv am true v vp Ham Hv Hvp)) as LG.
  pose proof (pi_grad_length nh na nv am ph false v vp Ham Hph Hv Hvp) as LP.
  unfold dm_am_grads. rewrite cvadd_length; rewrite !map_length; [exact LG|]. rewrite LG. symmetry. exact LP.
Qed.

Lemma dm_ph_grads_length nh na nv am ph v vp :
  p_shaped nh na nv am -> p_shaped nh na nv ph -> length v = nv -> length vp = nv ->
  length (dm_ph_grads ROps am ph v vp) = p_num_pars ph.
Proof.
  intros Ham Hph Hv Hvp.
  pose proof (proj2 (gamma_grad_aux_block_offset nh na nv ph false v vp Hph Hv Hvp)) as LG.
  pose proof (pi_grad_length nh na nv am ph true v vp Ham Hph Hv Hvp) as LP.
  unfold dm_ph_grads. rewrite cvadd_length; rewrite !map_length; [exact LG|].
  rewrite LG, (p_num_pars_eq nh na nv ph Hph), <- (p_num_pars_eq nh na nv am Ham). symmetry. exact LP.
Qed.

Lemma is_derive_re_cmul (c : R * R) (z : R -> R * R) t dr di :
  is_derive (fun x => fst (z x)) t dr -> is_derive (fun x => snd (z x)) t di ->
  is_derive (fun x => fst (cmul ROps c (z x))) t (fst c * dr - snd c * di).
Proof.
  intros Hr Hi.
  apply (is_derive_ext (fun x => fst c * fst (z x) - snd c * snd (z x))); [intros x; reflexivity|].
  apply (is_derive_minus (V:=R_NormedModule)).
  - apply (is_derive_scal (fun x => fst (z x))). exact Hr.
  - apply (is_derive_scal (fun x => snd (z x))). exact Hi.
Qed.

(* the pairing of one output of dm_rot_with with a direction *)
Lemma dm_rot_with_dot am ph user basis s n (raw : bits -> bits -> list (R * R)) d :
  (forall vi vj, In vi (expansions basis s) -> In vj (expansions basis s) -> length (raw vi vj) = n) ->
  dot ROps (dm_rot_with ROps am ph user basis s n raw) d =
  - (1 / (rho_prob1 ROps user basis (dm_rho ROps am ph) s + eps8 ROps)) *
  sum ROps (map (fun vi => sum ROps (map (fun vj =>
      fst (dm_weight ROps am ph user basis s vi vj) * dot ROps (map fst (raw vi vj)) d
      - snd (dm_weight ROps am ph user basis s vi vj) * dot ROps (map snd (raw vi vj)) d)
    (expansions basis s))) (expansions basis s)).
Proof.
  intros Hlen. unfold dm_rot_with. set (vs := expansions basis s) in *.
  rewrite (dot_map_lin _ (- (1 / (rho_prob1 ROps user basis (dm_rho ROps am ph) s + eps8 ROps))))
    by (intros x; cbn [nmul ndiv nadd nopp n1 ROps]; ring).
  f_equal.
  rewrite dot_vsum, map_map.
  2:{ apply Forall_map_len. intros vi Hvi. apply vsum_length. apply Forall_map_len. intros vj Hvj.
      rewrite map_length. apply Hlen; assumption. }
  apply sum_map_ext. intros vi Hvi.
  rewrite dot_vsum, map_map.
  2:{ apply Forall_map_len. intros vj Hvj. rewrite map_length. apply Hlen; assumption. }
  apply sum_map_ext. intros vj Hvj. apply dot_re_cmul.
Qed.

Lemma eps8_pos : 0 < eps8 ROps.
Proof. unfold eps8. cbn [ndiv n1 nofZ ROps]. apply Rdiv_lt_0_compat; lra. Qed.

Section Row.
  Variables (nh na nv : nat) (am dam ph dph : prbm (T:=R)) (user : list (umat (T:=R))) (basis : list letter) (s : bits) (t0 : R).
  Hypothesis Ham : p_shaped nh na nv am.
  Hypothesis Hdam : p_shaped nh na nv dam.
  Hypothesis Hph : p_shaped nh na nv ph.
  Hypothesis Hdph : p_shaped nh na nv dph.
  Hypothesis Hb : length basis = nv.
  Hypothesis Hs : length s = nv.
  Let am0 := p_line am dam t0.
  Let ph0 := p_line ph dph t0.
  Hypothesis Hg : forall vi vj, In vi (expansions basis s) -> In vj (expansions basis s) ->
                    List.Forall pi_guard (pi_args ROps am0 ph0 vi vj).
  Hypothesis Hpos : 0 < rho_prob1 ROps user basis (dm_rho ROps am0 ph0) s + eps8 ROps.

  Theorem nll_gradient_mixed_row :
    is_derive (fun t => - ln (rho_prob1 ROps user basis (dm_rho ROps (p_line am dam t) (p_line ph dph t)) s + eps8 ROps)) t0
      (dot ROps (fst (dm_rot1 ROps am0 ph0 user basis s)) (p_flatten dam)
       + dot ROps (snd (dm_rot1 ROps am0 ph0 user basis s)) (p_flatten dph)).
  Proof.
    set (vs := expansions basis s) in *.
    assert (Ham0 : p_shaped nh na nv am0) by (apply p_line_shaped; assumption).
    assert (Hph0 : p_shaped nh na nv ph0) by (apply p_line_shaped; assumption).
    assert (Hvl : forall v, In v vs -> length v = nv).
    { intros v Hv. rewrite <- Hs. apply (expansions_length basis s); [congruence | exact Hv]. }
    set (c := fun vi vj => cmul ROps (ut_coeff ROps user basis s vi) (cconj ROps (ut_coeff ROps user basis s vj))).
    set (LR := fun vi vj => dot ROps (map fst (dm_am_grads ROps am0 ph0 vi vj)) (p_flatten dam)
                            + dot ROps (map fst (dm_ph_grads ROps am0 ph0 vi vj)) (p_flatten dph)).
    set (LI := fun vi vj => dot ROps (map snd (dm_am_grads ROps am0 ph0 vi vj)) (p_flatten dam)
                            + dot ROps (map snd (dm_ph_grads ROps am0 ph0 vi vj)) (p_flatten dph)).
    set (rho0 := dm_rho ROps am0 ph0).
    set (dP := sum ROps (map (fun vi => sum ROps (map (fun vj =>
                 fst (c vi vj) * (fst (rho0 vi vj) * LR vi vj - snd (rho0 vi vj) * LI vi vj)
                 - snd (c vi vj) * (fst (rho0 vi vj) * LI vi vj + snd (rho0 vi vj) * LR vi vj)) vs)) vs)).
    (* (i) the rotated probability is differentiable *)
    assert (HP : is_derive (fun t => rho_prob1 ROps user basis (dm_rho ROps (p_line am dam t) (p_line ph dph t)) s) t0 dP).
    { unfold rho_prob1. fold vs.
      apply (is_derive_sum_map vs (fun vi t => sum ROps (map (fun vj => fst (cmul ROps (c vi vj)
                 (dm_rho ROps (p_line am dam t) (p_line ph dph t) vi vj))) vs))).
      intros vi Hvi.
      apply (is_derive_sum_map vs (fun vj t => fst (cmul ROps (c vi vj)
                 (dm_rho ROps (p_line am dam t) (p_line ph dph t) vi vj)))).
      intros vj Hvj.
      destruct (rho_entry_lderive nh na nv am dam ph dph vi vj t0 Ham Hdam Hph Hdph (Hvl vi Hvi) (Hvl vj Hvj) (Hg vi vj Hvi Hvj))
        as [L1 L2].
      cbv beta.
      exact (is_derive_re_cmul (c vi vj) (fun t => dm_rho ROps (p_line am dam t) (p_line ph dph t) vi vj) t0 _ _ L1 L2). }
    (* (ii) the model side *)
    unfold dm_rot1; cbn [fst snd].
    rewrite !dm_rot_with_dot.
    2:{ intros vi vj Hvi Hvj. apply (dm_ph_grads_length nh na nv); auto. }
    2:{ intros vi vj Hvi Hvj. apply (dm_am_grads_length nh na nv); auto. }
    fold vs rho0. set (P0 := rho_prob1 ROps user basis rho0 s) in *.
    assert (Hpos' : 0 < P0 + eps8 ROps) by exact Hpos.
    apply (is_derive_eq _ _ (- (dP / (P0 + eps8 ROps)))).
    { rewrite <- Rmult_plus_distr_l, <- sum_map_plus.
      assert (Hne : P0 + eps8 ROps <> 0) by lra.
      assert (ER : - (dP / (P0 + eps8 ROps)) = - (1 / (P0 + eps8 ROps)) * dP) by (field; exact Hne).
      rewrite ER.
      f_equal. unfold dP. apply sum_map_ext. intros vi Hvi. rewrite <- sum_map_plus.
      apply sum_map_ext. intros vj Hvj.
      unfold dm_weight. fold (c vi vj) rho0. unfold LR, LI.
      destruct (c vi vj) as [cr ci]. destruct (rho0 vi vj) as [rr ri].
      cbn [cmul fst snd nmul nsub nadd ROps]. ring. }
    apply is_derive_opp_R.
    apply (is_derive_eq _ _ (scal dP (/ (P0 + eps8 ROps)))); [unfold scal; simpl; unfold mult; simpl; unfold Rdiv; ring|].
    apply (is_derive_comp (fun y => ln (y + eps8 ROps))
             (fun t => rho_prob1 ROps user basis (dm_rho ROps (p_line am dam t) (p_line ph dph t)) s)); [|exact HP].
    change (rho_prob1 ROps user basis (dm_rho ROps (p_line am dam t0) (p_line ph dph t0)) s) with P0.
    auto_derive.
    - exact Hpos'.
    - unfold eps8 in *; cbn [ndiv n1 nofZ ROps] in *. field. lra.
  Qed.
End Row.

(* ================================================================== G. the rotated probability is non-negative (Gram form) *)
Lemma sum_list_bits_swap {A} (l : list A) n (f : A -> bits -> R) :
  sum ROps (map (fun i => sum_bits n (f i)) l) = sum_bits n (fun a => sum ROps (map (fun i => f i a) l)).
Proof.
  induction l as [|i l IH]; cbn [map sum n0 nadd ROps].
  - symmetry. apply sum_bits_const0.
  - rewrite IH, <- sum_bits_plus. reflexivity.
Qed.

Lemma sum_sum_sq {A} (l : list A) (p q : A -> R) :
  sum ROps (map (fun i => sum ROps (map (fun j => p i * p j + q i * q j) l)) l)
  = sum ROps (map p l) * sum ROps (map p l) + sum ROps (map q l) * sum ROps (map q l).
Proof.
  rewrite (sum_map_ext _ (fun i => sum ROps (map p l) * p i + sum ROps (map q l) * q i)).
  - rewrite sum_map_plus, !sum_map_scal. reflexivity.
  - intros i _. rewrite sum_map_plus, !sum_map_scal. ring.
Qed.

(* the rotated probability is a sum of squared moduli (Gram form), hence non-negative *)
Lemma rho_prob1_nonneg (am ph : prbm (T:=R)) user basis s :
  length (pU am) = length (pd am) -> length (pU ph) = length (pU am) ->
  (forall vi vj, In vi (expansions basis s) -> In vj (expansions basis s) ->
     List.Forall pi_guard (pi_args ROps am ph vi vj)) ->
  0 <= rho_prob1 ROps user basis (dm_rho ROps am ph) s.
Proof.
  intros H1 H2 Hg. unfold rho_prob1. set (vs := expansions basis s) in *.
  set (w := fun v a => Cmult (ut_coeff ROps user basis s v) (Psi am ph v a)).
  rewrite (sum_map_ext _ (fun vi => sum ROps (map (fun vj =>
      sum_bits (length (pd am)) (fun a => fst (w vi a) * fst (w vj a) + snd (w vi a) * snd (w vj a))) vs))).
  2:{ intros vi Hvi. apply sum_map_ext. intros vj Hvj.
      rewrite (rho_is_partial_trace am ph vi vj H1 H2 (Hg vi vj Hvi Hvj)). unfold partial_trace.
      change (cmul ROps (cmul ROps (ut_coeff ROps user basis s vi) (cconj ROps (ut_coeff ROps user basis s vj)))
                (csum_bits (length (pd am)) (fun a => Cmult (Psi am ph vi a) (Cconj (Psi am ph vj a)))))
        with (Cmult (Cmult (ut_coeff ROps user basis s vi) (Cconj (ut_coeff ROps user basis s vj)))
                (csum_bits (length (pd am)) (fun a => Cmult (Psi am ph vi a) (Cconj (Psi am ph vj a))))).
      rewrite <- csum_bits_scal, csum_bits_fst. apply sum_bits_ext. intros a _. unfold w.
      destruct (ut_coeff ROps user basis s vi) as [a1 a2]. destruct (ut_coeff ROps user basis s vj) as [b1 b2].
      destruct (Psi am ph vi a) as [c1 c2]. destruct (Psi am ph vj a) as [d1 d2].
      unfold Cmult, Cconj; cbn [fst snd]. ring. }
  rewrite (sum_map_ext _ (fun vi => sum_bits (length (pd am)) (fun a =>
      sum ROps (map (fun vj => fst (w vi a) * fst (w vj a) + snd (w vi a) * snd (w vj a)) vs))))
    by (intros vi _; apply sum_list_bits_swap).
  rewrite sum_list_bits_swap.
  apply sum_bits_nonneg. intros a _.
  rewrite (sum_sum_sq vs (fun v => fst (w v a)) (fun v => snd (w v a))). nra.
Qed.

(* ================================================================== H. step 3: the whole data set *)
(* ---- the regularised data-set objective of the DensityMatrix (per-row bases) *)
Definition dm_row_nll (am ph : prbm (T:=R)) (user : list (umat (T:=R))) (x : list letter * bits) : R :=
  if forallb is_Z (fst x) then p_eff_energy ROps am (snd x)
  else - ln (rho_prob1 ROps user (fst x) (dm_rho ROps am ph) (snd x) + eps8 ROps).
Definition dm_nll (am ph : prbm (T:=R)) (user : list (umat (T:=R))) (batch : list (list letter * bits)) (n : nat) : R :=
  sum ROps (map (dm_row_nll am ph user) batch) / INR (length batch) + ln (dm_normalization ROps am (all_bits n)).

Lemma p_energy_grad_length nh na nv (r : prbm (T:=R)) v :
  p_shaped nh na nv r -> length v = nv -> length (p_energy_grad ROps r v) = p_num_pars r.
Proof.
  intros Hr Hv. rewrite (p_grad_stack nh na nv r v Hr), (p_num_pars_stack nh na nv r Hr).
  apply (b_energy_grad_length (nh + na) nv); [apply p_stack_shaped; exact Hr | exact Hv].
Qed.

Lemma dm_rot_with_length am ph user basis s n raw :
  (forall vi vj, In vi (expansions basis s) -> In vj (expansions basis s) -> length (raw vi vj) = n) ->
  length (dm_rot_with ROps am ph user basis s n raw) = n.
Proof.
  intros H. unfold dm_rot_with. rewrite map_length. apply vsum_length.
  apply Forall_map_len. intros vi Hvi. apply vsum_length. apply Forall_map_len. intros vj Hvj.
  rewrite map_length. apply H; assumption.
Qed.

Lemma dm_sample_grad_lengths nh na nv am ph user x :
  p_shaped nh na nv am -> p_shaped nh na nv ph -> length (fst x) = nv -> length (snd x) = nv ->
  length (fst (sample_grad (dm_gstate ROps am ph user) x)) = p_num_pars am /\
  length (snd (sample_grad (dm_gstate ROps am ph user) x)) = p_num_pars ph.
Proof.
  intros Ham Hph Hb Hs. destruct x as [b s]. cbn [fst snd] in *.
  unfold sample_grad. cbn [fst snd dm_gstate g_egrad g_rot1 g_nph].
  destruct (forallb is_Z b); cbn [fst snd].
  - split; [apply (p_energy_grad_length nh na nv); assumption | apply repeat_length].
  - assert (Hvl : forall v, In v (expansions b s) -> length v = nv).
    { intros v Hv. rewrite <- Hs. apply (expansions_length b s); [congruence | exact Hv]. }
    unfold dm_rot1; cbn [fst snd]. split; apply dm_rot_with_length; intros vi vj Hvi Hvj.
    + apply (dm_am_grads_length nh na nv); auto.
    + apply (dm_ph_grads_length nh na nv); auto.
Qed.

Lemma dm_neg_phase_dot nh na nv r de user ph space :
  p_shaped nh na nv r -> p_shaped nh na nv de -> (forall s, In s space -> length s = nv) ->
  dot ROps (neg_phase ROps (dm_gstate ROps r ph user) space) (p_flatten de) =
  sum ROps (map (fun v => exp (- p_eff_energy ROps r v) / sum ROps (map (fun v' => exp (- p_eff_energy ROps r v')) space)
                          * dot ROps (p_energy_grad ROps r v) (p_flatten de)) space).
Proof.
  intros Hr Hde Hsp. unfold neg_phase. cbn [dm_gstate g_prob g_nam g_egrad].
  rewrite dot_vsum, map_map.
  2:{ apply Forall_map_len. intros s Hs. rewrite vscale_length. apply (p_energy_grad_length nh na nv); auto. }
  assert (Hp : forall v, dm_probability ROps r v (n1 ROps) = exp (- p_eff_energy ROps r v)).
  { intros v. unfold dm_probability; cbn [ndiv nexp nopp n1 ROps]. field. }
  rewrite (sum_map_ext (fun v0 => dm_probability ROps r v0 (n1 ROps)) (fun v' => exp (- p_eff_energy ROps r v')) space)
    by (intros; apply Hp).
  apply sum_map_ext. intros v _. rewrite dot_vscale_l, Hp. reflexivity.
Qed.

Theorem nll_gradient_mixed nh na nv am dam ph dph user batch t0 :
  p_shaped nh na nv am -> p_shaped nh na nv dam -> p_shaped nh na nv ph -> p_shaped nh na nv dph ->
  batch <> [] ->
  (forall x, In x batch -> length (fst x) = nv /\ length (snd x) = nv) ->
  (forall x, In x batch -> forallb is_Z (fst x) = false ->
     (forall vi vj, In vi (expansions (fst x) (snd x)) -> In vj (expansions (fst x) (snd x)) ->
        List.Forall pi_guard (pi_args ROps (p_line am dam t0) (p_line ph dph t0) vi vj)) /\
     0 < rho_prob1 ROps user (fst x) (dm_rho ROps (p_line am dam t0) (p_line ph dph t0)) (snd x) + eps8 ROps) ->
  let g := compute_exact_gradients ROps (dm_gstate ROps (p_line am dam t0) (p_line ph dph t0) user) batch (all_bits nv) in
  is_derive (fun t => dm_nll (p_line am dam t) (p_line ph dph t) user batch nv) t0
            (dot ROps (fst g) (p_flatten dam) + dot ROps (snd g) (p_flatten dph)).
Proof.
  intros Ham Hdam Hph Hdph Hne Hlen Hguard g.
  pose proof (unique_groups_partition batch) as HP.
  set (am0 := p_line am dam t0) in *. set (ph0 := p_line ph dph t0) in *.
  assert (Ham0 : p_shaped nh na nv am0) by (apply p_line_shaped; assumption).
  assert (Hph0 : p_shaped nh na nv ph0) by (apply p_line_shaped; assumption).
  set (G := dm_gstate ROps am0 ph0 user) in *.
  set (ra := fun x => dot ROps (fst (sample_grad G x)) (p_flatten dam)).
  set (rp := fun x => dot ROps (snd (sample_grad G x)) (p_flatten dph)).
  (* (i) every row *)
  assert (Hrow : forall x, In x batch ->
            is_derive (fun t => dm_row_nll (p_line am dam t) (p_line ph dph t) user x) t0 (ra x + rp x)).
  { intros [b s] Hx. destruct (Hlen _ Hx) as [Hb Hs]. cbn [fst snd] in Hb, Hs.
    pose proof (Hguard _ Hx) as Hgx. cbn [fst snd] in Hgx.
    unfold ra, rp, sample_grad, dm_row_nll. cbn [fst snd].
    destruct (forallb is_Z b) eqn:HZ.
    - unfold G. cbn [dm_gstate g_egrad g_nph fst snd].
      unfold vzero. cbn [n0 ROps]. rewrite dot_zero_l, Rplus_0_r.
      apply (energy_grad_purification nh na nv); assumption.
    - unfold G. cbn [dm_gstate g_rot1]. destruct (Hgx eq_refl) as [Hg1 Hg2].
      apply (nll_gradient_mixed_row nh na nv); assumption. }
  (* (ii) the model side *)
  assert (Hla : List.Forall (fun r => length r = p_num_pars am0) (map (fun x => fst (sample_grad G x)) batch)).
  { apply Forall_map_len. intros x Hx. destruct (Hlen _ Hx). apply (dm_sample_grad_lengths nh na nv am0 ph0 user x); assumption. }
  assert (Hlp : List.Forall (fun r => length r = p_num_pars ph0) (map (fun x => snd (sample_grad G x)) batch)).
  { apply Forall_map_len. intros x Hx. destruct (Hlen _ Hx). apply (dm_sample_grad_lengths nh na nv am0 ph0 user x); assumption. }
  assert (Hg : dot ROps (fst g) (p_flatten dam) + dot ROps (snd g) (p_flatten dph)
               = sum ROps (map (fun x => ra x + rp x) batch) / INR (length batch)
                 + - sum ROps (map (fun v => exp (- p_eff_energy ROps am0 v)
                                   / sum ROps (map (fun v' => exp (- p_eff_energy ROps am0 v')) (all_bits nv))
                                   * dot ROps (p_energy_grad ROps am0 v) (p_flatten dam)) (all_bits nv))).
  { unfold g, compute_exact_gradients, positive_phase_gradients, gradient. cbn [fst snd].
    rewrite (gradient_any_grouping G _ batch HP). cbn [fst snd].
    change (g_nam G) with (p_num_pars am0). change (g_nph G) with (p_num_pars ph0).
    rewrite dot_vsub_l.
    2:{ rewrite div_len_length, vsum_length by exact Hla. unfold neg_phase. rewrite vsum_length; [reflexivity|].
        apply Forall_map_len. intros s Hs. rewrite vscale_length. apply (p_energy_grad_length nh na nv); auto.
        apply all_bits_length, Hs. }
    rewrite !div_len_dot, !dot_vsum, !map_map by assumption.
    unfold G. rewrite (dm_neg_phase_dot nh na nv) by (try assumption; apply all_bits_length).
    rewrite sum_map_plus. fold G. fold ra rp.
    assert (Hn : INR (length batch) <> 0) by (apply not_0_INR; destruct batch; [congruence | discriminate]).
    field. exact Hn. }
  rewrite Hg. unfold dm_nll.
  apply (is_derive_plus (V:=R_NormedModule)).
  - apply (is_derive_ext (fun t => / INR (length batch) * sum ROps (map (fun x => dm_row_nll (p_line am dam t) (p_line ph dph t) user x) batch))).
    { intros t. unfold Rdiv. apply Rmult_comm. }
    apply (is_derive_eq _ _ (/ INR (length batch) * sum ROps (map (fun x => ra x + rp x) batch))); [unfold Rdiv; apply Rmult_comm|].
    apply (is_derive_scal (fun t => sum ROps (map (fun x => dm_row_nll (p_line am dam t) (p_line ph dph t) user x) batch))).
    apply (is_derive_sum_map batch (fun x t => dm_row_nll (p_line am dam t) (p_line ph dph t) user x)).
    exact Hrow.
  - apply (is_derive_ext (fun t => ln (sum ROps (map (fun v => exp (- p_eff_energy ROps (p_line am dam t) v)) (all_bits nv))))).
    { intros t. unfold dm_normalization, p_partition. cbn [nexp nln nopp ROps].
      rewrite exp_ln; [reflexivity|].
      apply (sum_exp_pos (all_bits nv) (fun v => p_eff_energy ROps (p_line am dam t) v)). apply all_bits_nonempty. }
    apply (is_derive_ln_sum_exp (all_bits nv) (fun v t => p_eff_energy ROps (p_line am dam t) v)
             (fun v => dot ROps (p_energy_grad ROps am0 v) (p_flatten dam))).
    + apply all_bits_nonempty.
    + intros v Hv. apply (energy_grad_purification nh na nv); try assumption. apply all_bits_length, Hv.
Qed.

(* ================================================================== I. final forms: the C02 guard is the only analytic hypothesis *)
(* step 1, spelled out:  d rho(v,v') = rho(v,v') * (Lre + i Lim),  Lre + i Lim = am_grads . dam + ph_grads . dph *)
Theorem rho_entry_log_derivative nh na nv am dam ph dph v vp t0 :
  p_shaped nh na nv am -> p_shaped nh na nv dam -> p_shaped nh na nv ph -> p_shaped nh na nv dph ->
  length v = nv -> length vp = nv ->
  List.Forall pi_guard (pi_args ROps (p_line am dam t0) (p_line ph dph t0) v vp) ->
  let am0 := p_line am dam t0 in
  let ph0 := p_line ph dph t0 in
  let rho := fun t => dm_rho ROps (p_line am dam t) (p_line ph dph t) v vp in
  let Lre := dot ROps (map fst (dm_am_grads ROps am0 ph0 v vp)) (p_flatten dam)
             + dot ROps (map fst (dm_ph_grads ROps am0 ph0 v vp)) (p_flatten dph) in
  let Lim := dot ROps (map snd (dm_am_grads ROps am0 ph0 v vp)) (p_flatten dam)
             + dot ROps (map snd (dm_ph_grads ROps am0 ph0 v vp)) (p_flatten dph) in
  is_derive (fun t => fst (rho t)) t0 (fst (rho t0) * Lre - snd (rho t0) * Lim) /\
  is_derive (fun t => snd (rho t)) t0 (fst (rho t0) * Lim + snd (rho t0) * Lre).
Proof.
  intros Ham Hdam Hph Hdph Hv Hvp Hg. cbv zeta.
  exact (rho_entry_lderive nh na nv am dam ph dph v vp t0 Ham Hdam Hph Hdph Hv Hvp Hg).
Qed.

Lemma rho_prob1_eps_pos nh na nv (am ph : prbm (T:=R)) user basis s :
  p_shaped nh na nv am -> p_shaped nh na nv ph ->
  (forall vi vj, In vi (expansions basis s) -> In vj (expansions basis s) ->
     List.Forall pi_guard (pi_args ROps am ph vi vj)) ->
  0 < rho_prob1 ROps user basis (dm_rho ROps am ph) s + eps8 ROps.
Proof.
  intros (A1 & A2 & A3 & A4 & A5 & A6 & A7) (C1 & C2 & C3 & C4 & C5 & C6 & C7) Hg.
  assert (H : 0 <= rho_prob1 ROps user basis (dm_rho ROps am ph) s) by (apply rho_prob1_nonneg; [congruence | congruence | exact Hg]).
  pose proof eps8_pos. lra.
Qed.

(* step 2 *)
Theorem nll_gradient_mixed_row_full nh na nv am dam ph dph user basis s t0 :
  p_shaped nh na nv am -> p_shaped nh na nv dam -> p_shaped nh na nv ph -> p_shaped nh na nv dph ->
  length basis = nv -> length s = nv ->
  (forall vi vj, In vi (expansions basis s) -> In vj (expansions basis s) ->
     List.Forall pi_guard (pi_args ROps (p_line am dam t0) (p_line ph dph t0) vi vj)) ->
  is_derive (fun t => - ln (rho_prob1 ROps user basis (dm_rho ROps (p_line am dam t) (p_line ph dph t)) s + eps8 ROps)) t0
    (dot ROps (fst (dm_rot1 ROps (p_line am dam t0) (p_line ph dph t0) user basis s)) (p_flatten dam)
     + dot ROps (snd (dm_rot1 ROps (p_line am dam t0) (p_line ph dph t0) user basis s)) (p_flatten dph)).
Proof.
  intros Ham Hdam Hph Hdph Hb Hs Hg.
  apply (nll_gradient_mixed_row nh na nv); try assumption.
  apply (rho_prob1_eps_pos nh na nv); try apply p_line_shaped; assumption.
Qed.

(* step 3: C03.5 *)
Theorem nll_gradient_mixed_full nh na nv am dam ph dph user batch t0 :
  p_shaped nh na nv am -> p_shaped nh na nv dam -> p_shaped nh na nv ph -> p_shaped nh na nv dph ->
  batch <> [] ->
  (forall x, In x batch -> length (fst x) = nv /\ length (snd x) = nv) ->
  (forall x, In x batch -> forallb is_Z (fst x) = false ->
     forall vi vj, In vi (expansions (fst x) (snd x)) -> In vj (expansions (fst x) (snd x)) ->
       List.Forall pi_guard (pi_args ROps (p_line am dam t0) (p_line ph dph t0) vi vj)) ->
  let g := compute_exact_gradients ROps (dm_gstate ROps (p_line am dam t0) (p_line ph dph t0) user) batch (all_bits nv) in
  is_derive (fun t => dm_nll (p_line am dam t) (p_line ph dph t) user batch nv) t0
            (dot ROps (fst g) (p_flatten dam) + dot ROps (snd g) (p_flatten dph)).
Proof.
  intros Ham Hdam Hph Hdph Hne Hlen Hguard.
  apply (nll_gradient_mixed nh na nv); try assumption.
  intros x Hx HZ. split; [exact (Hguard x Hx HZ)|].
  apply (rho_prob1_eps_pos nh na nv); try apply p_line_shaped; try assumption.
  exact (Hguard x Hx HZ).
Qed.

(* dm_nll is the objective named in the design: (1/|D|)(Sum_{all-Z} E - Sum_{rotated} ln(P + 1e-8)) + ln Z *)
Lemma dm_nll_unfold am ph user batch n :
  dm_nll am ph user batch n =
  (sum ROps (map (fun x => p_eff_energy ROps am (snd x)) (filter (fun x => forallb is_Z (fst x)) batch))
   - sum ROps (map (fun x => ln (rho_prob1 ROps user (fst x) (dm_rho ROps am ph) (snd x) + eps8 ROps))
                   (filter (fun x => negb (forallb is_Z (fst x))) batch))) / INR (length batch)
  + ln (dm_normalization ROps am (all_bits n)).
Proof.
  unfold dm_nll. f_equal. f_equal.
  induction batch as [|x batch IH]; [simpl; lra|].
  cbn [map sum filter nadd ROps]. rewrite IH. unfold dm_row_nll.
  destruct (forallb is_Z (fst x)); cbn [negb map sum nadd ROps]; lra.
Qed.

(* C03.5 with the objective written out *)
Theorem nll_gradient_mixed_explicit nh na nv am dam ph dph user batch t0 :
  p_shaped nh na nv am -> p_shaped nh na nv dam -> p_shaped nh na nv ph -> p_shaped nh na nv dph ->
  batch <> [] ->
  (forall x, In x batch -> length (fst x) = nv /\ length (snd x) = nv) ->
  (forall x, In x batch -> forallb is_Z (fst x) = false ->
     forall vi vj, In vi (expansions (fst x) (snd x)) -> In vj (expansions (fst x) (snd x)) ->
       List.Forall pi_guard (pi_args ROps (p_line am dam t0) (p_line ph dph t0) vi vj)) ->
  let g := compute_exact_gradients ROps (dm_gstate ROps (p_line am dam t0) (p_line ph dph t0) user) batch (all_bits nv) in
  is_derive (fun t =>
      (sum ROps (map (fun x => p_eff_energy ROps (p_line am dam t) (snd x)) (filter (fun x => forallb is_Z (fst x)) batch))
       - sum ROps (map (fun x => ln (rho_prob1 ROps user (fst x) (dm_rho ROps (p_line am dam t) (p_line ph dph t)) (snd x) + eps8 ROps))
                       (filter (fun x => negb (forallb is_Z (fst x))) batch))) / INR (length batch)
      + ln (dm_normalization ROps (p_line am dam t) (all_bits nv))) t0
    (dot ROps (fst g) (p_flatten dam) + dot ROps (snd g) (p_flatten dph)).
Proof.
  intros Ham Hdam Hph Hdph Hne Hlen Hguard g.
  apply (is_derive_ext (fun t => dm_nll (p_line am dam t) (p_line ph dph t) user batch nv)).
  { intros t. apply dm_nll_unfold. }
  apply (nll_gradient_mixed_full nh na nv); assumption.
Qed.

(* non-vacuity: a 1-1-1 density matrix with every bias non-zero, a direction moving every parameter, and a batch
   with X, Y and Z rows meet all hypotheses of nll_gradient_mixed_full at t0 = 0 *)
Example mixed_hypotheses_nonvacuous :
  let am := mkP [[1]] [[1]] [0.3] [-0.2] [0.5] in
  let ph := mkP [[0.7]] [[2]] [0.1] [0.4] [0] in
  let dam := mkP [[1]] [[-1]] [1] [1] [1] in
  let dph := mkP [[-1]] [[1]] [1] [-1] [1] in
  let batch := [([LX], [true]); ([LZ], [false]); ([LY], [false])] in
  p_shaped 1 1 1 am /\ p_shaped 1 1 1 dam /\ p_shaped 1 1 1 ph /\ p_shaped 1 1 1 dph /\ batch <> [] /\
  (forall x, In x batch -> length (fst x) = 1%nat /\ length (snd x) = 1%nat) /\
  (forall x, In x batch -> forallb is_Z (fst x) = false ->
     forall vi vj, In vi (expansions (fst x) (snd x)) -> In vj (expansions (fst x) (snd x)) ->
       List.Forall pi_guard (pi_args ROps (p_line am dam 0) (p_line ph dph 0) vi vj)).
Proof.
  cbv zeta.
  assert (S1 : p_shaped 1 1 1 (mkP [[1]] [[1]] [0.3] [-0.2] [0.5])) by (unfold p_shaped; cbn; repeat split; repeat constructor).
  assert (S2 : p_shaped 1 1 1 (mkP [[1]] [[-1]] [1] [1] [1])) by (unfold p_shaped; cbn; repeat split; repeat constructor).
  assert (S3 : p_shaped 1 1 1 (mkP [[0.7]] [[2]] [0.1] [0.4] [0])) by (unfold p_shaped; cbn; repeat split; repeat constructor).
  assert (S4 : p_shaped 1 1 1 (mkP [[-1]] [[1]] [1] [-1] [1])) by (unfold p_shaped; cbn; repeat split; repeat constructor).
  split; [exact S1|]. split; [exact S2|]. split; [exact S3|]. split; [exact S4|]. split; [discriminate|]. split.
  - intros x [<-|[<-|[<-|[]]]]; split; reflexivity.
  - assert (HG : forall b b' : bool, List.Forall pi_guard
        (pi_args ROps (p_line (mkP [[1]] [[1]] [0.3] [-0.2] [0.5]) (mkP [[1]] [[-1]] [1] [1] [1]) 0)
                      (p_line (mkP [[0.7]] [[2]] [0.1] [0.4] [0]) (mkP [[-1]] [[1]] [1] [-1] [1]) 0) [b] [b'])).
    { intros b b'. unfold pi_args, p_line, mline, vline, linearb, matvecb, vadd, vsub, vscale.
      cbn [pU pd combine map fst snd dotb].
      constructor; [|constructor]. apply pi_guard_x_nonzero. cbn [fst]. rewrite half_R.
      cbn [nadd nmul n0 ROps]. destruct b, b'; lra. }
    intros x [<-|[<-|[<-|[]]]] HZ; try discriminate HZ; cbn [fst snd expansions is_Z map app];
      intros vi vj [<-|[<-|[]]] [<-|[<-|[]]]; apply HG.
Qed.
