(* Links.v — cross-package corollaries: the per-property developments are statements about ONE model.
     L1  Protocol (C12)  ->  Callbacks (C17, C18): the epochs a callback sees at EpochEnd are a
         consecutive range; periodic evaluators / savers / the early stopper on fit runs.
     L2  Rho (C02)       ->  ObsR / SwapR (C08, C09): the density-matrix RBM meets the abstract
         hypotheses of the Z / neighbour unbiasedness and of the Renyi theorems.
     L3  Born, Rho (C01, C02) + GibbsT (C05): the block-Gibbs kernel leaves the normalised Born
         distribution (and diag(rho)/Z) invariant.
     L4  KronR (C04)     ->  MetricsR (C10): in every default basis the model's rotated Born
         distribution sums to one, so KL >= 0 needs no hypothesis about the model side.
     L5  Protocol (C12)  ->  CDStep (C06): the two renderings of "one optimizer step per batch,
         one scheduler step per epoch" produce the same event sequence.
   Every package keeps its own vocabulary, so each link lives in a module of its own that imports
   just the two developments it connects.  No axioms are added (the real-number links report the
   four stdlib axioms of Reals; L1 and L5 are closed under the global context). *)
From Coq Require Import List ZArith Bool Arith Lia Sorted.
From QModel Require Num Bits Rbm States CBase Unitaries Observables Gibbs Metrics CDStep Protocol Callbacks.
From QTheory Require RInst SumBits Born Rho KronR GibbsT CDStepT ObsR SwapR MetricsR ProtocolT CallbacksT.
Import ListNotations.

(* ====================================================================================== L1 *)
Module L1.
Import Protocol ProtocolT Callbacks CallbacksT.
Local Open Scope nat_scope.

(* the epochs carried by the EpochEnd events of a trace, in order *)
Definition ee (x : event) : list Z := match x with EpochEnd e => [e] | _ => [] end.
Definition epoch_ends (t : list event) : list Z := flat_map ee t.

(* start, start+1, ..., start+m-1 *)
Fixpoint zrange (a : Z) (m : nat) : list Z :=
  match m with O => [] | S m' => a :: zrange (a + 1)%Z m' end.

(* what a callback is handed at the EpochEnd events of a run: the epoch and the network state,
   the latter being a function [snap] of the version of the parameters logged at that event *)
Definition epoch_end_run {S : Type} (snap : nat -> S) (l : list (event * nat)) : list (Z * S) :=
  flat_map (fun p => match fst p with EpochEnd e => [(e, snap (snd p))] | _ => [] end) l.

Lemma epoch_ends_app a b : epoch_ends (a ++ b) = epoch_ends a ++ epoch_ends b.
Proof. apply flat_map_app. Qed.

Lemma epoch_ends_vis t : epoch_ends (vis t) = epoch_ends t.
Proof.
  induction t as [|x t IH]; [reflexivity|]. unfold vis in *. simpl.
  destruct x; simpl; rewrite ?IH; reflexivity.
Qed.

Lemma epoch_end_run_epochs {S} (snap : nat -> S) l :
  map fst (epoch_end_run snap l) = epoch_ends (map fst l).
Proof.
  induction l as [|[x v] l IH]; [reflexivity|]. unfold epoch_end_run, epoch_ends in *. simpl.
  rewrite map_app, IH. destruct x; reflexivity.
Qed.

Lemma fbatches_no_epoch_end nb e b l : fbatches nb e b l -> epoch_ends l = [].
Proof. induction 1; simpl; auto. Qed.

Lemma sched_ev_no_epoch_end sched e : epoch_ends (sched_ev sched e) = [].
Proof. destruct sched; reflexivity. Qed.

Lemma epoch_body_epoch_ends inj sched nb e s :
  epoch_ends (trace (epoch_body inj sched e nb s)) = epoch_ends (trace s) ++ [e].
Proof.
  destruct (epoch_body_fg inj sched nb e s) as [bl [Hb Hf]]. rewrite Hb.
  rewrite epoch_ends_app. f_equal.
  change (EpochStart e :: bl ++ sched_ev sched e ++ [EpochEnd e])
    with ([EpochStart e] ++ bl ++ sched_ev sched e ++ [EpochEnd e]).
  rewrite !epoch_ends_app, (fbatches_no_epoch_end _ _ _ _ Hf), sched_ev_no_epoch_end. reflexivity.
Qed.

Lemma epochs_loop_range inj sched nb : forall k e s,
  exists m, m <= k /\
    epoch_ends (trace (epochs_loop inj sched nb e k s)) = epoch_ends (trace s) ++ zrange e m /\
    (stop (epochs_loop inj sched nb e k s) = false -> m = k).
Proof.
  induction k as [|k IH]; intros e s.
  - exists 0. simpl. rewrite app_nil_r. auto.
  - cbn [epochs_loop].
    pose proof (epoch_body_epoch_ends inj sched nb e s) as Hb.
    remember (epoch_body inj sched e nb s) as s'.
    destruct (stop s') eqn:E.
    + exists 1. split; [lia|]. split; [exact Hb | congruence].
    + destruct (IH (e + 1)%Z s') as [m [Hm [Ht Hs]]]. exists (S m).
      split; [lia|]. split.
      * rewrite Ht, Hb, <- app_assoc. reflexivity.
      * intros H. rewrite (Hs H). reflexivity.
Qed.

(* ---- L1, main statement.  For EVERY run of the fit machine, the epochs at which callbacks are
   handed an EpochEnd form the consecutive range start, ..., start+m-1 with m <= num_epochs;
   m = num_epochs when no callback ever raised the stop flag. *)
Theorem fit_epoch_range inj sched start epochs nb ver0 :
  let s := fit inj sched start epochs nb false ver0 in
  exists m, m <= num_epochs start epochs /\
    epoch_ends (ctrace s) = zrange start m /\
    (raised inj (ctrace s) = false -> m = num_epochs start epochs).
Proof.
  cbv zeta.
  pose proof (stop_is_sticky inj sched start epochs nb false ver0) as Hst. cbv zeta in Hst.
  rewrite orb_false_l in Hst. rewrite <- Hst. clear Hst.
  unfold ctrace. rewrite epoch_ends_vis. unfold fit.
  set (s1 := emit inj (mkst [] false ver0) TrainStart).
  destruct (epochs_loop_range inj sched nb (num_epochs start epochs) start s1) as [m [Hm [Ht Hs]]].
  exists m. split; [exact Hm|]. split.
  - rewrite trace_emit, epoch_ends_app, Ht. simpl. apply app_nil_r.
  - intros H. apply Hs. rewrite stop_emit_cb in H by reflexivity.
    apply orb_false_elim in H. apply H.
Qed.

(* ---- facts about consecutive ranges *)
Lemma zrange_In a m e : In e (zrange a m) <-> (a <= e < a + Z.of_nat m)%Z.
Proof.
  revert a; induction m as [|m IH]; intros a.
  - simpl. split; [tauto | lia].
  - cbn [zrange In]. rewrite IH. lia.
Qed.

Lemma zrange_length a m : length (zrange a m) = m.
Proof. revert a; induction m as [|m IH]; intros a; simpl; [reflexivity | rewrite IH; reflexivity]. Qed.

Lemma zrange_sorted a m : StronglySorted Z.lt (zrange a m).
Proof.
  revert a; induction m as [|m IH]; intros a; [constructor|].
  cbn [zrange]. constructor; [apply IH|].
  apply Forall_forall. intros e He. apply zrange_In in He. lia.
Qed.

Lemma zrange_NoDup a m : NoDup (zrange a m).
Proof.
  revert a; induction m as [|m IH]; intros a; [constructor|].
  cbn [zrange]. constructor; [|apply IH]. intros H. apply zrange_In in H. lia.
Qed.

Lemma zrange_nth_error a m k e : nth_error (zrange a m) k = Some e <-> k < m /\ e = (a + Z.of_nat k)%Z.
Proof.
  revert a k; induction m as [|m IH]; intros a k.
  - destruct k; simpl; split; try discriminate; lia.
  - destruct k as [|k]; cbn [zrange nth_error].
    + split; [intros H; inversion H; lia | intros [_ ->]; f_equal; lia].
    + rewrite IH. lia.
Qed.

Lemma zrange_firstn a m k : k <= m -> firstn k (zrange a m) = zrange a k.
Proof.
  revert a k; induction m as [|m IH]; intros a [|k] H; try reflexivity; [lia|].
  cbn [zrange firstn]. rewrite IH by lia. reflexivity.
Qed.

Lemma filter_sorted {A} (R : A -> A -> Prop) (f : A -> bool) l :
  StronglySorted R l -> StronglySorted R (filter f l).
Proof.
  induction 1 as [|a l Hl IH Ha]; [constructor|]. simpl.
  destruct (f a); [|exact IH]. constructor; [exact IH|].
  apply Forall_forall. intros x Hx. apply filter_In in Hx.
  rewrite Forall_forall in Ha. apply Ha, Hx.
Qed.

(* ---- C17 on fit runs: an evaluator of period p >= 1 driven by the EpochEnd events of ANY fit
   run records exactly the multiples of p inside the range of epochs that ran, in increasing order *)
Theorem evaluator_on_fit_run {S V : Type} (p : Z) (m : S -> vals V) (snap : nat -> S)
        inj sched start epochs nb ver0 :
  (1 <= p)%Z ->
  let s := fit inj sched start epochs nb false ver0 in
  let rec := ev_epochs (ev_run m (ev_new p) (epoch_end_run snap (log s))) in
  exists k, k <= num_epochs start epochs /\
    (raised inj (ctrace s) = false -> k = num_epochs start epochs) /\
    rec = filter (dividesb p) (zrange start k) /\
    StronglySorted Z.lt rec /\
    (forall e, In e rec <-> (start <= e < start + Z.of_nat k)%Z /\ (p | e)%Z).
Proof.
  intros Hp. cbv zeta.
  destruct (fit_epoch_range inj sched start epochs nb ver0) as [k [Hk [Hr Hq]]]. cbv zeta in Hr, Hq.
  exists k. split; [exact Hk|]. split; [exact Hq|].
  assert (E : map fst (epoch_end_run snap (log (fit inj sched start epochs nb false ver0))) = zrange start k).
  { rewrite epoch_end_run_epochs. unfold ctrace, trace in Hr. rewrite epoch_ends_vis in Hr. exact Hr. }
  rewrite (fires_exactly_on_multiples p m _ Hp), E.
  split; [reflexivity|]. split; [apply filter_sorted, zrange_sorted|].
  intros e. rewrite filter_In, zrange_In. unfold dividesb.
  destruct (Znumtheory.Zdivide_dec p e); split; intros [H1 H2]; try discriminate; try contradiction; auto.
Qed.

(* ---- C17 on fit runs: the epochs are pairwise distinct, so the ModelSaver theorem (one file per
   multiple of the period, holding the state of that epoch) applies to every fit run *)
Theorem saver_on_fit_run {S P M : Type} (params : S -> P) (empty : M) (sv : saver S M) (s0 : S)
        (snap : nat -> S) inj sched start epochs nb ver0 :
  let run := epoch_end_run snap (log (fit inj sched start epochs nb false ver0)) in
  let W := sv_fit params empty sv s0 run in
  NoDup (map fst run) /\
  (forall e s, In (e, s) run -> fires (sv_period sv) e = true ->
     store_get (FEpoch e) W = Some (sv_save params empty sv s e)) /\
  (forall e, store_get (FEpoch e) W <> None -> fires (sv_period sv) e = true /\ In e (map fst run)) /\
  store_get FInitial W = (if sv_save_initial sv then Some (sv_save params empty sv s0 0%Z) else None).
Proof.
  cbv zeta.
  destruct (fit_epoch_range inj sched start epochs nb ver0) as [k [_ [Hr _]]]. cbv zeta in Hr.
  assert (ND : NoDup (map fst (epoch_end_run snap (log (fit inj sched start epochs nb false ver0))))).
  { rewrite epoch_end_run_epochs. unfold ctrace, trace in Hr. rewrite epoch_ends_vis in Hr.
    rewrite Hr. apply zrange_NoDup. }
  split; [exact ND|]. exact (saver_files params empty sv s0 _ ND).
Qed.

(* ---- C18 on fit runs: the stopper's decision theorem on plans whose epochs come from a fit run.
   The epochs are the consecutive range start, start+1, ...; position k of the plan IS epoch
   start + k, so "the first checked epoch at which the rule holds" is unambiguous. *)
Section StopperOnFitRun.
  Local Open Scope R_scope.
  Import Reals.
  Context {St V : Type}.
  Context (value_of variance_of : V -> result R) (val var : V -> R).
  Context (metrics : St -> vals V) (g : St -> V).
  Context (qname : name) (crit : criterion).
  Context (Hmetrics : forall s, lookup qname (metrics s) = Some (g s) /\
                                readable value_of variance_of val var crit (g s)).

  Theorem stopper_on_fit_run inj sched start epochs nb ver0 (ev_first : bool)
          (plan : list (Z * St)) (ev : evaluator V) (st : stopper R) :
    map fst plan = epoch_ends (ctrace (fit inj sched start epochs nb false ver0)) ->
    wf_stopper qname crit st -> tracked value_of variance_of val var qname crit ev ->
    let conv := convergent val var g qname crit ev_first ev st plan in
    match es_fit RInst.ROps value_of variance_of ev_first metrics ev st plan with
    | (evf, stf, Stopped e, ran) =>
        exists k, e = (start + Z.of_nat k)%Z /\ (k < length plan)%nat /\
                  conv k /\ (forall j, (j < k)%nat -> ~ conv j) /\
                  (forall k', nth_error (map fst plan) k' = Some e -> k' = k) /\
                  ran = zrange start (Datatypes.S k) /\
                  st_last_epoch stf = Some e /\
                  evf = ev_run metrics ev (firstn (Datatypes.S k) plan)
    | (evf, stf, Completed, ran) =>
        (forall j, ~ conv j) /\ ran = zrange start (length plan) /\
        (length plan <= num_epochs start epochs)%nat /\ stf = st /\ evf = ev_run metrics ev plan
    | (_, _, Raised _ _, _) => False
    end.
  Proof.
    intros Hplan Hwf Htr. cbv zeta.
    destruct (fit_epoch_range inj sched start epochs nb ver0) as [m [Hm [Hr _]]]. cbv zeta in Hr.
    rewrite Hr in Hplan.
    assert (Hlen : length plan = m) by (rewrite <- (map_length fst plan), Hplan; apply zrange_length).
    pose proof (es_fit_spec value_of variance_of val var metrics g qname crit Hmetrics
                  ev_first plan ev st Hwf Htr) as H.
    destruct (es_fit RInst.ROps value_of variance_of ev_first metrics ev st plan) as [[[evf stf] o] ran].
    destruct o as [|e|x e]; [| |exact H].
    - destruct H as [Hn [Hran [Hst Hev]]]. repeat split; try assumption.
      + rewrite Hran, Hplan, Hlen. reflexivity.
      + lia.
    - destruct H as [k [Hk [Hc [Hn [Hran [Hl Hev]]]]]].
      rewrite Hplan in Hk. apply zrange_nth_error in Hk. destruct Hk as [Hkm He].
      exists k. repeat split; try assumption; try lia.
      + intros k' Hk'. rewrite Hplan in Hk'. apply zrange_nth_error in Hk'. lia.
      + rewrite Hran, Hplan. apply zrange_firstn. lia.
  Qed.
End StopperOnFitRun.

(* non-vacuity: the spike run (stop raised at BatchEnd of epoch 1) ends its range after one epoch;
   a quiet run covers the whole range *)
Example fit_epoch_range_examples :
  epoch_ends (ctrace (fit (raise_at 3) false 1 3 1 false 0)) = zrange 1 1 /\
  epoch_ends (ctrace (fit never true 2 4 2 false 0)) = zrange 2 (num_epochs 2 4).
Proof. split; reflexivity. Qed.
End L1.

(* ====================================================================================== L5 *)
Module L5.
Import Num Protocol ProtocolT CDStep CDStepT.
Local Open Scope nat_scope.

(* projection of the protocol machine's internal events to what the optimizer / scheduler objects see *)
Definition pe (x : event) : list ev :=
  match x with OptStep _ _ => [EvOpt] | SchedStep _ => [EvSched] | _ => [] end.
Definition opt_sched_events (t : list event) : list ev := flat_map pe t.

Lemma ose_app a b : opt_sched_events (a ++ b) = opt_sched_events a ++ opt_sched_events b.
Proof. apply flat_map_app. Qed.

Lemma ose_counts t :
  count_ev EvOpt (opt_sched_events t) = count is_opt t /\
  count_ev EvSched (opt_sched_events t) = count is_sched t.
Proof.
  unfold count_ev, count, opt_sched_events.
  induction t as [|x t [I1 I2]]; [split; reflexivity|].
  destruct x; simpl; rewrite ?I1, ?I2; split; reflexivity.
Qed.

Lemma full_batches_ose e : forall n b v,
  opt_sched_events (map fst (full_batches e b n v)) = repeat EvOpt n.
Proof.
  unfold opt_sched_events. induction n as [|n IH]; intros b v; [reflexivity|].
  simpl. rewrite IH. reflexivity.
Qed.

Lemma full_epoch_ose sched nb e v :
  opt_sched_events (map fst (full_epoch sched nb e v)) = repeat EvOpt nb ++ (if sched then [EvSched] else []).
Proof.
  unfold full_epoch. cbn [map fst].
  change (opt_sched_events (EpochStart e :: ?X)) with (opt_sched_events X).
  rewrite !map_app, !ose_app, full_batches_ose. destruct sched; reflexivity.
Qed.

Lemma full_epochs_ose {B} sched nb : forall (eps : list (list B)) e v,
  Forall (fun bs => length bs = nb) eps ->
  opt_sched_events (map fst (full_epochs sched nb e (length eps) v)) = concat (map (epoch_events sched) eps).
Proof.
  induction eps as [|bs eps IH]; intros e v HF; [reflexivity|].
  pose proof (Forall_inv HF) as Hb. pose proof (Forall_inv_tail HF) as HF'. cbv beta in Hb.
  cbn [length full_epochs map concat].
  rewrite map_app, ose_app, full_epoch_ose, (IH _ _ HF').
  replace (epoch_events sched bs) with (repeat EvOpt nb ++ (if sched then [EvSched] else []))
    by (unfold epoch_events; rewrite Hb; reflexivity).
  reflexivity.
Qed.

Lemma concat_length_uniform {B} nb (eps : list (list B)) :
  Forall (fun bs => length bs = nb) eps -> length (concat eps) = length eps * nb.
Proof.
  induction 1 as [|bs eps Hb _ IH]; [reflexivity|]. cbn [concat length]. rewrite app_length, IH, Hb. lia.
Qed.

(* ---- L5.  A run of the protocol machine in which nobody asks to stop, projected to its
   OptStep / SchedStep events, IS the event trace of the CD counting machine run on the same
   number of epochs with the same number of batches each (with or without a scheduler); the
   parameter version the protocol machine ends with is the counting machine's optimizer-step counter. *)
Theorem protocol_matches_cd_machine {T} (O : NumOps T) {B} (G : B -> list T -> list T)
        (inj : injector) (lr_of : nat -> T) (has_sched : bool) (start epochs : Z) (nb ver0 : nat)
        (theta : list T) (nsched : nat) (eps : list (list B)) :
  (forall h, inj h = false) ->
  length eps = num_epochs start epochs -> Forall (fun bs => length bs = nb) eps ->
  let s := fit inj has_sched start epochs nb false ver0 in
  let r := run_epochs O G lr_of has_sched theta ver0 nsched eps in
  r_trace r = opt_sched_events (trace s) /\
  r_nopt r = ver s /\
  r_nsched r = nsched + count is_sched (trace s) /\
  count_ev EvOpt (r_trace r) = count is_opt (trace s) /\
  count_ev EvSched (r_trace r) = count is_sched (trace s).
Proof.
  intros Hq Hlen HF. cbv zeta.
  destruct (run_epochs_protocol O G eps lr_of has_sched theta ver0 nsched) as [H1 [H2 [H3 _]]].
  cbv zeta in H1, H2, H3.
  assert (Htr : r_trace (run_epochs O G lr_of has_sched theta ver0 nsched eps)
                = opt_sched_events (trace (fit inj has_sched start epochs nb false ver0))).
  { rewrite H1, (no_stop_runs_everything inj Hq). unfold trace, full_run. cbn [log map fst].
    change (opt_sched_events (TrainStart :: ?X)) with (opt_sched_events X).
    rewrite map_app, ose_app. cbn [map fst]. change (opt_sched_events [TrainEnd]) with (@nil ev).
    rewrite app_nil_r, <- Hlen. symmetry. apply full_epochs_ose. exact HF. }
  destruct (ose_counts (trace (fit inj has_sched start epochs nb false ver0))) as [C1 C2].
  destruct (count_epochs has_sched eps) as [_ E2].
  split; [exact Htr|]. split; [|split; [|split]].
  - rewrite H2, (no_stop_runs_everything inj Hq). cbn [ver].
    rewrite (concat_length_uniform nb eps HF), Hlen. lia.
  - rewrite H3, <- C2, <- Htr, H1, E2. reflexivity.
  - rewrite Htr. exact C1.
  - rewrite Htr. exact C2.
Qed.

Example protocol_matches_cd_machine_hyps :
  let eps := [[tt; tt]; [tt; tt]] in
  length eps = num_epochs 2 3 /\ Forall (fun bs => length bs = 2) eps /\ (forall h, never h = false).
Proof. cbv zeta. repeat split; repeat constructor. Qed.
End L5.

(* ====================================================================================== L3 *)
Module L3.
Import Num Bits Rbm States Gibbs RInst SumBits Born Rho GibbsT.
Import Reals Lra.
Local Open Scope R_scope.

Definition mod2 (z : R * R) : R := fst z * fst z + snd z * snd z.

Lemma probability_norm am s Z : Z <> 0 -> probability ROps am s 1 / Z = probability ROps am s Z.
Proof. intros HZ. unfold probability; cbn [ndiv nexp nopp ROps]. field. exact HZ. Qed.

Section Wavefunction.
  Variables (nv nh : nat) (am : brbm (T:=R)).
  Hypothesis Hshape : b_shape nv nh am.
  Let Z := normalization ROps am (all_bits nv).

  Lemma Z_pos : 0 < Z.
  Proof. exact (proj2 (partition_is_total am nv)). Qed.

  (* any state whose squared modulus is the reported unnormalised probability *)
  Lemma born_invariant_of_modulus (psi : bits -> R * R) k s' :
    (forall s, mod2 (psi s) = probability ROps am s 1) -> length s' = nv ->
    let born := fun s => mod2 (psi s) / Z in
    sum_bits nv (fun s => born s * kpow ROps nv (b_kernel ROps am) k s s') = born s' /\
    sum_bits nv born = 1 /\ (forall s, 0 < born s).
  Proof.
    intros Hm Hs'. cbv zeta. pose proof Z_pos as HZ.
    assert (Hb : forall s, mod2 (psi s) / Z = probability ROps am s Z)
      by (intros s; rewrite Hm; apply probability_norm; lra).
    split; [|split].
    - rewrite (sum_bits_ext nv _ (fun s => probability ROps am s Z * kpow ROps nv (b_kernel ROps am) k s s'))
        by (intros; rewrite Hb; reflexivity).
      rewrite Hb. exact (invariant_probability nv nh am Z k s' Hshape Hs').
    - rewrite (sum_bits_ext nv _ (fun s => probability ROps am s Z)) by (intros; apply Hb).
      exact (normalized_probabilities_sum_to_one am nv).
    - intros s. rewrite Hb. unfold probability; cbn [ndiv nexp nopp ROps].
      apply Rdiv_lt_0_compat; [apply exp_pos | exact HZ].
  Qed.
End Wavefunction.

(* ---- L3, wavefunctions.  The normalised Born distribution |psi(s)|^2 / Z, Z = normalization,
   of the complex and of the positive wavefunction is a probability distribution that every power
   of the block-Gibbs kernel of the amplitude network leaves invariant. *)
Theorem born_invariant_wavefunctions nv nh (am ph : brbm (T:=R)) k s' :
  b_shape nv nh am -> length s' = nv ->
  let Z := normalization ROps am (all_bits nv) in
  let qc := fun s => mod2 (cplx_psi ROps am ph s) / Z in
  let qp := fun s => mod2 (pos_psi ROps am s) / Z in
  (sum_bits nv (fun s => qc s * kpow ROps nv (b_kernel ROps am) k s s') = qc s' /\
   sum_bits nv qc = 1 /\ (forall s, 0 < qc s)) /\
  (sum_bits nv (fun s => qp s * kpow ROps nv (b_kernel ROps am) k s s') = qp s' /\
   sum_bits nv qp = 1 /\ (forall s, 0 < qp s)).
Proof.
  intros Hshape Hs'. cbv zeta. split.
  - apply (born_invariant_of_modulus nv nh am Hshape (cplx_psi ROps am ph) k s'); [|exact Hs'].
    intros s. exact (cplx_psi_sq am ph s).
  - apply (born_invariant_of_modulus nv nh am Hshape (pos_psi ROps am) k s'); [|exact Hs'].
    intros s. exact (pos_psi_sq am s).
Qed.

(* ---- L3, density matrix.  diag(rho)/Z with Z = tr rho = dm_normalization is a probability
   distribution, invariant under every power of the purification kernel. *)
Theorem born_invariant_density_matrix nv nh na (am ph : prbm (T:=R)) k s' :
  p_shape nv nh na am -> length (pU ph) = length (pU am) -> length s' = nv ->
  let Z := dm_normalization ROps am (all_bits nv) in
  let d := fun s => fst (dm_rho ROps am ph s s) / Z in
  sum_bits nv (fun s => d s * kpow ROps nv (p_kernel ROps am) k s s') = d s' /\
  sum_bits nv d = 1 /\ (forall s, 0 < d s).
Proof.
  intros Hshape H2 Hs'. cbv zeta.
  assert (H1 : length (pU am) = length (pd am)) by (destruct Hshape as (_ & _ & HU & _ & _ & _ & Hd); congruence).
  destruct (rho_trace_is_normalization am ph nv H1 H2) as [_ [_ HZ]].
  set (Z := dm_normalization ROps am (all_bits nv)) in *.
  assert (Hb : forall s, fst (dm_rho ROps am ph s s) / Z = dm_probability ROps am s Z).
  { intros s. destruct (rho_diag_is_probability am ph s H1 H2) as [-> ->]. reflexivity. }
  split; [|split].
  - rewrite (sum_bits_ext nv _ (fun s => dm_probability ROps am s Z * kpow ROps nv (p_kernel ROps am) k s s'))
      by (intros; rewrite Hb; reflexivity).
    rewrite Hb. exact (invariant_dm_probability nv nh na am Z k s' Hshape Hs').
  - exact (rho_normalized_trace_one am ph nv H1 H2).
  - intros s. rewrite Hb. unfold dm_probability; cbn [ndiv nexp nopp ROps].
    apply Rdiv_lt_0_compat; [apply exp_pos | exact HZ].
Qed.
End L3.

(* ====================================================================================== L2 *)
Module L2.
Import Num Bits CBase Rbm States Observables RInst SumBits Born ObsR SwapR.
Import Reals Lra.
Local Open Scope R_scope.

Section DensityMatrix.
  Variables am ph : prbm (T:=R).
  (* C02's shape guards *)
  Hypothesis H1 : length (pU am) = length (pd am).
  Hypothesis H2 : length (pU ph) = length (pU am).

  Let rho := dm_rho ROps am ph.
  Let p := fun s : bits => dm_probability ROps am s 1.

  (* the diagonal of the model's rho is real, equal to the reported probability, and positive *)
  Lemma dm_diag_real s : fst (rho s s) = p s /\ snd (rho s s) = 0 /\ 0 < p s.
  Proof.
    unfold rho, p. destruct (Rho.rho_diag_is_probability am ph s H1 H2) as [-> _].
    split; [reflexivity|]. split; [reflexivity | apply dm_probability_pos].
  Qed.

  (* ---- L2 / C08: SigmaZ and NeighbourInteraction (open and periodic) are unbiased for the
     density-matrix RBM; the abstract hypothesis "fst (rho s s) = p s" is C02's diagonal theorem *)
  Theorem z_observables_unbiased_density_matrix n : (1 <= n)%nat ->
    sum_bits n (fun s => p s * sigma_z ROps false s) = fst (trace_op n rho (mean_site_op pauliZ n)) /\
    (forall c, (1 <= c)%nat ->
       sum_bits n (fun s => p s * neighbour ROps false c s) = fst (trace_op n rho (diag_op (zz_open n c)))) /\
    (forall c,
       sum_bits n (fun s => p s * neighbour ROps true c s) = fst (trace_op n rho (diag_op (zz_periodic n c)))).
  Proof.
    intros Hn.
    assert (Hd : forall s, length s = n -> fst (rho s s) = p s) by (intros s _; apply dm_diag_real).
    split; [|split].
    - exact (sigma_z_unbiased n rho p Hn Hd).
    - intros c Hc. exact (neighbour_open_unbiased n rho p Hd c Hc).
    - intros c. exact (neighbour_periodic_unbiased n rho p Hd c).
  Qed.

  (* ---- the model's rho in the Gram form of SwapR: the purified state on n + na sites *)
  Definition purified (n : nat) (x : bits) : R * R := Rho.Psi am ph (firstn n x) (skipn n x).

  Lemma firstn_app_exact {A} (a b : list A) n : length a = n -> firstn n (a ++ b) = a.
  Proof. intros <-. rewrite firstn_app, Nat.sub_diag, firstn_all. simpl. apply app_nil_r. Qed.
  Lemma skipn_app_exact {A} (a b : list A) n : length a = n -> skipn n (a ++ b) = b.
  Proof. intros <-. rewrite skipn_app, Nat.sub_diag, skipn_all. reflexivity. Qed.

  Lemma rho_csum_bits_bridge n (f : bits -> R * R) : Rho.csum_bits n f = csum_bits n f.
  Proof. apply pair_eq; [apply Rho.csum_bits_fst | apply Rho.csum_bits_snd]. Qed.

  Theorem density_matrix_is_gram n s t :
    length s = n -> length t = n ->
    Forall Rho.pi_guard (pi_args ROps am ph s t) ->
    rho s t = gram (length (pd am)) (purified n) s t.
  Proof.
    intros Hs Ht Hg. unfold rho. rewrite (Rho.rho_is_partial_trace am ph s t H1 H2 Hg).
    unfold Rho.partial_trace, gram. rewrite rho_csum_bits_bridge.
    apply csum_bits_ext. intros k _. unfold purified.
    rewrite !firstn_app_exact, !skipn_app_exact by assumption. reflexivity.
  Qed.

  Lemma purity_ext A (r r' : bits -> bits -> R * R) :
    (forall s t, length s = length A -> length t = length A -> r s t = r' s t) ->
    purity A r = purity A r'.
  Proof.
    intros H.
    assert (HA : forall a a', rhoA A r a a' = rhoA A r' a a').
    { intros a a'. unfold rhoA. apply csum_bits_ext. intros b _. apply H; apply merge_length. }
    unfold purity. apply csum_bits_ext. intros a _. apply csum_bits_ext. intros a' _.
    rewrite !HA. reflexivity.
  Qed.

  (* ---- L2 / C09: Renyi-2 >= 0 for the model's density matrix: tr(rho_A^2) <= (tr rho)^2 with
     tr rho = dm_normalization, under C02's non-singularity guard on all pairs; and this purity is
     what the SWAP estimator averages to (no abstract hypothesis left) *)
  Theorem renyi_nonneg_density_matrix (A : list bool) :
    (forall v vp, length v = length A -> length vp = length A -> Forall Rho.pi_guard (pi_args ROps am ph v vp)) ->
    let Z := dm_normalization ROps am (all_bits (length A)) in
    sum_bits (length A) (fun s1 => sum_bits (length A) (fun s2 =>
      p s1 * p s2 * swap_value ROps (mixed_state ROps rho p) A s1 s2)) = fst (purity A rho) /\
    fst (purity A rho) <= Z * Z /\ 0 < Z.
  Proof.
    intros Hg. cbv zeta.
    destruct (Rho.rho_trace_is_normalization am ph (length A) H1 H2) as [HZ [_ HZpos]].
    split; [|split; [|exact HZpos]].
    - exact (swap_estimates_purity_density_matrix am ph A).
    - rewrite (purity_ext A rho (gram (length (pd am)) (purified (length A)))).
      2:{ intros s t Hs Ht. apply density_matrix_is_gram; auto. }
      rewrite HZ.
      rewrite (sum_bits_ext (length A) (fun v => fst (dm_rho ROps am ph v v))
                 (fun s => fst (gram (length (pd am)) (purified (length A)) s s))).
      + apply renyi_nonneg_gram.
      + intros s Hs. fold (rho s s). rewrite (density_matrix_is_gram (length A) s s Hs Hs (Hg s s Hs Hs)).
        reflexivity.
  Qed.
End DensityMatrix.

(* non-vacuity: C02's example network meets all hypotheses of both theorems (one site, region = that site) *)
Example density_matrix_hyps_satisfiable :
  let am := mkP [[1]] [[1]] [0.3] [-0.2] [0.5] in
  let ph := mkP [[0.7]] [[2]] [0.1] [0.4] [0] in
  length (pU am) = length (pd am) /\ length (pU ph) = length (pU am) /\
  forall v vp, length v = length [true] -> length vp = length [true] -> Forall Rho.pi_guard (pi_args ROps am ph v vp).
Proof. exact Rho.rho_guards_nonvacuous. Qed.
End L2.

(* ====================================================================================== L4 *)
Module L4.
Import Num Bits Rbm States CBase Unitaries Metrics RInst SumBits Born MetricsR.
Import Reals Lra.
Local Open Scope R_scope.

(* a basis string of n letters whose per-site matrices are all unitary (C04's hypothesis) *)
Definition basis_ok (user : list (umat (T:=R))) (n : nat) (b : list letter) : Prop :=
  length b = n /\ Forall KronR.unitary2 (map (lookup ROps user) b).

(* every string over the default dictionary X, Y, Z qualifies *)
Lemma default_basis_ok user n b :
  length b = n -> Forall (fun a => match a with LU _ => False | _ => True end) b -> basis_ok user n b.
Proof. intros Hl Hd. split; [exact Hl | apply KronR.default_letters_unitary; exact Hd]. Qed.

(* C04's norm preservation: the model-side distribution of the KL sums to one in such a basis *)
Lemma model_dist_pure_total user n (psi : list (R * R)) Z b :
  basis_ok user n b -> length psi = (2 ^ n)%nat -> sum ROps (map cn2 psi) = Z -> 0 < Z ->
  sum ROps (model_dist_pure user psi Z b) = 1.
Proof.
  intros [Hl Hu] Hlen HZ Hpos. unfold model_dist_pure. rewrite sum_map_div.
  rewrite <- Hl in Hlen. pose proof (KronR.rotated_probs_sum user b psi Hlen Hu) as H.
  change (sum ROps (map cn2 (rotate_psi ROps user b psi)) = sum ROps (map cn2 psi)) in H.
  rewrite H, HZ. field. lra.
Qed.

Lemma model_dist_mixed_total user n (rho : bits -> bits -> R * R) Z b :
  basis_ok user n b -> sum_bits n (fun a => fst (rho a a)) = Z -> 0 < Z ->
  sum ROps (model_dist_mixed user rho Z (all_bits n) b) = 1.
Proof.
  intros [Hl Hu] HZ Hpos. unfold model_dist_mixed. rewrite sum_map_div, map_id.
  rewrite <- Hl in *. rewrite (KronR.rho_probs_sum_trace user b rho Hu), HZ. field. lra.
Qed.

(* ---- L4, wavefunctions: KL >= 0 in every list of unitary bases for the complex and the positive
   wavefunction of the model; only the in-range hypotheses and "the target sums to one" remain *)
Theorem kl_nonneg_wavefunctions user (am ph : brbm (T:=R)) n tgt bases :
  (forall b, In b bases -> basis_ok user n b) ->
  (forall b, In b bases -> sum ROps (target_dist_pure tgt b) = 1) ->
  let Z := normalization ROps am (all_bits n) in
  let pc := map (cplx_psi ROps am ph) (all_bits n) in
  let pp := map (pos_psi ROps am) (all_bits n) in
  ((forall b, In b bases -> dists_ok (target_dist_pure tgt b) (model_dist_pure user pc Z b)) ->
   (forall b, In b bases -> sum ROps (model_dist_pure user pc Z b) = 1) /\
   0 <= fst (kl_bases_pure ROps user tgt pc Z bases)) /\
  ((forall b, In b bases -> dists_ok (target_dist_pure tgt b) (model_dist_pure user pp Z b)) ->
   (forall b, In b bases -> sum ROps (model_dist_pure user pp Z b) = 1) /\
   0 <= fst (kl_bases_pure ROps user tgt pp Z bases)).
Proof.
  intros Hb Ht. cbv zeta.
  pose proof (proj2 (partition_is_total am n)) as Hpos. fold (normalization ROps am (all_bits n)) in Hpos.
  assert (Hc : forall b, In b bases ->
             sum ROps (model_dist_pure user (map (cplx_psi ROps am ph) (all_bits n)) (normalization ROps am (all_bits n)) b) = 1).
  { intros b Hin. apply (model_dist_pure_total user n); [apply Hb, Hin | | apply cplx_table_norm | exact Hpos].
    rewrite map_length. apply all_bits_len. }
  assert (Hp : forall b, In b bases ->
             sum ROps (model_dist_pure user (map (pos_psi ROps am) (all_bits n)) (normalization ROps am (all_bits n)) b) = 1).
  { intros b Hin. apply (model_dist_pure_total user n); [apply Hb, Hin | | apply pos_table_norm | exact Hpos].
    rewrite map_length. apply all_bits_len. }
  split; intros Hok; (split; [assumption|]); apply kl_pure_nonneg; try exact Hok;
    intros b Hin; split; auto.
Qed.

(* ---- L4, density matrix: the rotated probabilities of the model's rho sum to its trace, which
   C02 identifies with the reported normalisation *)
Theorem kl_nonneg_density_matrix user (am ph : prbm (T:=R)) n tgt bases :
  length (pU am) = length (pd am) -> length (pU ph) = length (pU am) ->
  (forall b, In b bases -> basis_ok user n b) ->
  (forall b, In b bases -> sum ROps (tgt b) = 1) ->
  let Z := dm_normalization ROps am (all_bits n) in
  let rho := dm_rho ROps am ph in
  (forall b, In b bases -> dists_ok (tgt b) (model_dist_mixed user rho Z (all_bits n) b)) ->
  (forall b, In b bases -> sum ROps (model_dist_mixed user rho Z (all_bits n) b) = 1) /\
  0 <= fst (kl_bases_mixed ROps user tgt rho Z (all_bits n) bases).
Proof.
  intros H1 H2 Hb Ht. cbv zeta. intros Hok.
  destruct (Rho.rho_trace_is_normalization am ph n H1 H2) as [HZ [_ Hpos]].
  assert (Hm : forall b, In b bases ->
             sum ROps (model_dist_mixed user (dm_rho ROps am ph) (dm_normalization ROps am (all_bits n)) (all_bits n) b) = 1).
  { intros b Hin. apply (model_dist_mixed_total user n); [apply Hb, Hin | symmetry; exact HZ | exact Hpos]. }
  split; [exact Hm|]. apply kl_mixed_nonneg; [exact Hok|]. intros b Hin. split; auto.
Qed.
End L4.
