(* Born.v — C01: wavefunction states satisfy the Born rule they are defined by. *)
From Coq Require Import List ZArith Bool Reals Lra Lia.
From QModel Require Import Num Bits Rbm States.
From QTheory Require Import RInst SumBits.
Import ListNotations.
Open Scope R_scope.

Local Notation E := (b_eff_energy ROps).

Lemma amplitude_sq am v : amplitude ROps am v * amplitude ROps am v = exp (- E am v).
Proof. unfold amplitude; cbn [nsqrt nexp nopp ROps]. apply sqrt_sqrt. left; apply exp_pos. Qed.

Lemma amplitude_pos am v : 0 < amplitude ROps am v.
Proof. unfold amplitude; cbn [nsqrt nexp nopp ROps]. apply sqrt_lt_R0, exp_pos. Qed.

(* 1. |psi|^2 = unnormalised probability *)
Lemma pos_psi_sq am v :
  let z := pos_psi ROps am v in fst z * fst z + snd z * snd z = probability ROps am v 1.
Proof.
  cbn [pos_psi fst snd]. unfold probability. cbn [ndiv nexp nopp n0 ROps].
  rewrite amplitude_sq. field.
Qed.

Lemma cplx_psi_sq am ph v :
  let z := cplx_psi ROps am ph v in fst z * fst z + snd z * snd z = probability ROps am v 1.
Proof.
  cbn [cplx_psi fst snd]. unfold probability. cbn [ndiv nexp nopp nmul ncos nsin ROps].
  set (a := amplitude ROps am v). set (p := cplx_phase ROps ph v).
  pose proof (sin2_cos2 p) as H. unfold Rsqr in H.
  replace (a * cos p * (a * cos p) + a * sin p * (a * sin p))
    with (a * a * (sin p * sin p + cos p * cos p)) by ring.
  rewrite H. unfold a. rewrite Rmult_1_r, amplitude_sq. field.
Qed.

(* 5. the modulus does not depend on the phase network *)
Lemma cplx_modulus_ignores_phase am ph ph' v :
  let z := cplx_psi ROps am ph v in let z' := cplx_psi ROps am ph' v in
  fst z * fst z + snd z * snd z = fst z' * fst z' + snd z' * snd z'.
Proof. cbv zeta. rewrite (cplx_psi_sq am ph v), (cplx_psi_sq am ph' v). reflexivity. Qed.

(* 6. phase is half the negated effective energy of the phase network; polar form *)
Lemma cplx_phase_half ph v : cplx_phase ROps ph v = - E ph v / 2.
Proof. unfold cplx_phase. cbn [nmul nopp n1 ROps]. rewrite half_R. field. Qed.

Lemma cplx_psi_polar am ph v :
  cplx_psi ROps am ph v =
  (amplitude ROps am v * cos (- E ph v / 2), amplitude ROps am v * sin (- E ph v / 2)).
Proof. unfold cplx_psi. cbn [nmul ncos nsin ROps]. rewrite cplx_phase_half. reflexivity. Qed.

Lemma pos_psi_real_positive am v : snd (pos_psi ROps am v) = 0 /\ 0 < fst (pos_psi ROps am v).
Proof. split; [reflexivity | apply amplitude_pos]. Qed.

(* 2. unnormalised probability = hidden-unit marginal of the Boltzmann weight *)
Lemma linearb_length (W : list (list R)) c v :
  length W = length c -> length (linearb ROps W c v) = length c.
Proof. intros H; unfold linearb. rewrite map_length, combine_length, H. apply Nat.min_id. Qed.

Lemma prod_one_plus_exp (xs : list R) :
  prod ROps (map (fun xi => 1 + exp xi) xs) = exp (sum ROps (map (softplus ROps) xs)).
Proof.
  induction xs as [|x xs IH]; [simpl; symmetry; apply exp_0|].
  cbn [map prod sum nmul nadd ROps]. rewrite exp_plus, exp_softplus, IH. reflexivity.
Qed.

Lemma probability_is_hidden_marginal (r : brbm) v :
  length (bW r) = length (bc r) ->
  probability ROps r v 1 =
  sum_bits (length (bc r)) (fun h => exp (b_joint_exponent ROps r v h)).
Proof.
  intros Hs. unfold probability, b_eff_energy, b_joint_exponent.
  cbn [ndiv nexp nopp nadd ROps]. rewrite Ropp_involutive.
  set (x := linearb ROps (bW r) (bc r) v).
  assert (Hx : length x = length (bc r)) by (apply linearb_length; exact Hs).
  rewrite <- Hx.
  rewrite (sum_bits_ext _ _ (fun h => exp (dotb ROps (bb r) v) * exp (dotb ROps x h)))
    by (intros; apply exp_plus).
  rewrite sum_bits_scal, marginal, prod_one_plus_exp, <- exp_plus. field.
Qed.

(* 3. normalisation = total unnormalised probability, and is positive *)
Lemma partition_is_total (r : brbm) n :
  b_partition ROps r (all_bits n) = sum_bits n (fun v => exp (- E r v)) /\
  0 < b_partition ROps r (all_bits n).
Proof.
  unfold b_partition. cbn [nexp nln nopp ROps].
  rewrite (sum_all_bits n (fun v => exp (- E r v))).
  assert (Hp : 0 < sum_bits n (fun v => exp (- E r v))) by (apply sum_bits_pos; intros; apply exp_pos).
  rewrite exp_ln by exact Hp. split; [reflexivity | exact Hp].
Qed.

Lemma normalization_is_total am n :
  normalization ROps am (all_bits n) = sum_bits n (fun v => probability ROps am v 1).
Proof.
  unfold normalization. rewrite (proj1 (partition_is_total am n)).
  apply sum_bits_ext; intros s _. unfold probability; cbn [ndiv nexp nopp ROps]. field.
Qed.

(* 4. normalised probabilities sum to one; normalised state has unit norm *)
Lemma normalized_probabilities_sum_to_one am n :
  sum_bits n (fun v => probability ROps am v (normalization ROps am (all_bits n))) = 1.
Proof.
  pose proof (partition_is_total am n) as [Hz Hpos]. unfold normalization.
  set (Z := b_partition ROps am (all_bits n)) in *.
  rewrite (sum_bits_ext _ _ (fun v => exp (- E am v) * / Z))
    by (intros; unfold probability; cbn [ndiv nexp nopp ROps]; reflexivity).
  rewrite sum_bits_scal_r, <- Hz. field. lra.
Qed.

Lemma normalized_state_unit_norm_cplx am ph n :
  let Z := normalization ROps am (all_bits n) in
  sum_bits n (fun v => let z := cplx_psi ROps am ph v in (fst z * fst z + snd z * snd z) / Z) = 1.
Proof.
  cbv zeta. rewrite <- (normalized_probabilities_sum_to_one am n).
  apply sum_bits_ext; intros v _. rewrite (cplx_psi_sq am ph v).
  unfold probability; cbn [ndiv nexp nopp ROps]. field.
  pose proof (proj2 (partition_is_total am n)); unfold normalization; lra.
Qed.

Lemma normalized_state_unit_norm_pos am n :
  let Z := normalization ROps am (all_bits n) in
  sum_bits n (fun v => let z := pos_psi ROps am v in (fst z * fst z + snd z * snd z) / Z) = 1.
Proof.
  cbv zeta. rewrite <- (normalized_probabilities_sum_to_one am n).
  apply sum_bits_ext; intros v _. rewrite (pos_psi_sq am v).
  unfold probability; cbn [ndiv nexp nopp ROps]. field.
  pose proof (proj2 (partition_is_total am n)); unfold normalization; lra.
Qed.

(* non-vacuity: a concrete 2x3 network with all biases non-zero meets the shape guard *)
Example born_guard_nonvacuous :
  let r := mkB [[1; -2]; [0.5; 3]; [-1; 1]] [0.3; -0.7] [0.1; -0.2; 0.4] in
  length (bW r) = length (bc r).
Proof. reflexivity. Qed.
