(* CDStepT.v — proofs about model/CDStep.v.
   Part 1 (any number type, no axioms): vector_to_grads slices, shapes, round trip;
           the layout of the energy gradient matches parameters() order; the machine's
           event trace and counters.
   Part 2 (T := R): the contrastive-divergence formula entrywise, SGD displacement,
           accumulated displacement over batches and epochs, StepLR closed form. *)
From Coq Require Import List ZArith Bool Arith Lia Reals Lra.
From QModel Require Import Num Bits Rbm CDStep.
From QTheory Require Import RInst.
Import ListNotations.
Local Open Scope nat_scope.

(* ====================================================================== *)
(* Part 1 — discrete / structural facts, polymorphic in the number type   *)
(* ====================================================================== *)

(* offset of parameter j in the flat vector = sum of the sizes of the earlier parameters *)
Fixpoint total (shapes : list shape) : nat :=
  match shapes with [] => 0 | s :: r => numel s + total r end.
Definition offset (shapes : list shape) (j : nat) : nat := total (firstn j shapes).

Section Poly.
  Context {T : Type}.
  Implicit Types (xs vec : list T) (ts : list (tensor (T:=T))).

  Definition has_shape (s : shape) (t : tensor (T:=T)) : Prop :=
    match s, t with
    | SVec n, TVec xs => length xs = n
    | SMat r c, TMat rows => length rows = r /\ Forall (fun row => length row = c) rows
    | _, _ => False
    end.

  Definition same_shape (a b : tensor (T:=T)) : Prop :=
    match a, b with
    | TVec x, TVec y => length x = length y
    | TMat x, TMat y => length x = length y /\ Forall2 (fun r r' => length r = length r') x y
    | _, _ => False
    end.

  (* ---- chunks ---- *)
  Lemma chunks_length c r xs : length (chunks c r xs) = r.
  Proof. revert xs; induction r; simpl; intros; [reflexivity | rewrite IHr; reflexivity]. Qed.

  Lemma chunks_rows c r xs : length xs = r * c -> Forall (fun row => length row = c) (chunks c r xs).
  Proof.
    revert xs; induction r; simpl; intros xs H; constructor.
    - rewrite firstn_length. lia.
    - apply IHr. rewrite skipn_length. lia.
  Qed.

  Lemma chunks_concat c r xs : length xs = r * c -> concat (chunks c r xs) = xs.
  Proof.
    revert xs; induction r; simpl; intros xs H.
    - destruct xs; [reflexivity | discriminate].
    - rewrite IHr; [apply firstn_skipn | rewrite skipn_length; lia].
  Qed.

  Lemma firstn_app_len {A} c (a b : list A) : length a = c -> firstn c (a ++ b) = a.
  Proof. intros <-. rewrite firstn_app, Nat.sub_diag, firstn_all. simpl. apply app_nil_r. Qed.
  Lemma skipn_app_len {A} c (a b : list A) : length a = c -> skipn c (a ++ b) = b.
  Proof. intros <-. rewrite skipn_app, Nat.sub_diag, skipn_all. reflexivity. Qed.

  Lemma skipn_skipn' {A} x y (l : list A) : skipn x (skipn y l) = skipn (y + x) l.
  Proof.
    revert l; induction y; intros l; simpl; [reflexivity|].
    destruct l; [destruct x; reflexivity | apply IHy].
  Qed.

  Lemma chunks_flat_map {A} (f : A -> list T) c (l : list A) rest :
    (forall a, In a l -> length (f a) = c) ->
    chunks c (length l) (flat_map f l ++ rest) = map f l.
  Proof.
    induction l as [|a l IH]; simpl; intros H; [reflexivity|].
    assert (Ha : length (f a) = c) by (apply H; left; reflexivity).
    rewrite <- app_assoc.
    rewrite (firstn_app_len c _ _ Ha), (skipn_app_len c _ _ Ha).
    rewrite IH; [reflexivity | intros; apply H; right; assumption].
  Qed.

  Lemma view_shape s xs : length xs = numel s -> has_shape s (view s xs).
  Proof.
    destruct s as [n | r c]; simpl; intros H; [assumption|].
    split; [apply chunks_length | apply chunks_rows; assumption].
  Qed.

  Lemma view_flatten s xs : length xs = numel s -> tflatten (view s xs) = xs.
  Proof. destruct s as [n | r c]; simpl; intros H; [reflexivity | apply chunks_concat; assumption]. Qed.

  (* ---- the slice taken for one parameter ---- *)
  Lemma slice_length n p vec : length (firstn n (skipn p vec)) = Nat.min n (length vec - p).
  Proof. rewrite firstn_length, skipn_length. reflexivity. Qed.

  (* vector_to_grads succeeds exactly when the vector is long enough (torch raises otherwise) *)
  Lemma v2g_from_some shapes : forall p vec,
    p + total shapes <= length vec -> exists ts, v2g_from p vec shapes = Some ts.
  Proof.
    induction shapes as [|s r IH]; simpl; intros p vec H; [eexists; reflexivity|].
    rewrite slice_length.
    replace (Nat.min (numel s) (length vec - p)) with (numel s) by lia.
    rewrite Nat.eqb_refl.
    destruct (IH (p + numel s) vec) as [ts Hts]; [lia|]. rewrite Hts. eexists; reflexivity.
  Qed.

  Lemma v2g_from_none shapes : forall p vec,
    p <= length vec -> length vec < p + total shapes -> v2g_from p vec shapes = None.
  Proof.
    induction shapes as [|s r IH]; simpl; intros p vec Hp H; [lia|].
    rewrite slice_length.
    destruct (Nat.eqb_spec (Nat.min (numel s) (length vec - p)) (numel s)) as [E|E]; [|reflexivity].
    rewrite IH; [reflexivity | lia | lia].
  Qed.

  Lemma v2g_from_inv s r p vec ts0 :
    v2g_from p vec (s :: r) = Some ts0 ->
    exists ts, ts0 = view s (firstn (numel s) (skipn p vec)) :: ts
               /\ length (firstn (numel s) (skipn p vec)) = numel s
               /\ v2g_from (p + numel s) vec r = Some ts.
  Proof.
    simpl. destruct (Nat.eqb_spec (length (firstn (numel s) (skipn p vec))) (numel s)) as [E|E]; [|discriminate].
    destruct (v2g_from (p + numel s) vec r) as [ts|]; [|discriminate].
    intros H; inversion H; subst. exists ts; repeat split; assumption.
  Qed.

  Lemma v2g_from_length shapes : forall p vec ts,
    v2g_from p vec shapes = Some ts -> length ts = length shapes.
  Proof.
    induction shapes as [|s r IH]; intros p vec ts H.
    - simpl in H; inversion H; reflexivity.
    - apply v2g_from_inv in H. destruct H as [ts' [-> [_ H]]]. simpl. f_equal. eapply IH; eassumption.
  Qed.

  (* parameter j receives the slice at offset sum_{i<j} numel_i, viewed with its own size *)
  Lemma v2g_from_nth shapes : forall p vec ts j d ds,
    v2g_from p vec shapes = Some ts -> j < length shapes ->
    nth j ts d = view (nth j shapes ds)
                      (firstn (numel (nth j shapes ds)) (skipn (p + offset shapes j) vec)).
  Proof.
    induction shapes as [|s r IH]; intros p vec ts j d ds H Hj; [simpl in Hj; lia|].
    apply v2g_from_inv in H. destruct H as [ts' [-> [_ H]]].
    destruct j as [|j].
    - simpl. unfold offset; simpl. rewrite Nat.add_0_r. reflexivity.
    - simpl. rewrite (IH _ _ _ j d ds H) by (simpl in Hj; lia).
      unfold offset; simpl. rewrite Nat.add_assoc. reflexivity.
  Qed.

  Lemma v2g_from_shapes shapes : forall p vec ts,
    v2g_from p vec shapes = Some ts -> Forall2 has_shape shapes ts.
  Proof.
    induction shapes as [|s r IH]; intros p vec ts H.
    - simpl in H; inversion H; constructor.
    - apply v2g_from_inv in H. destruct H as [ts' [-> [L H]]].
      constructor; [apply view_shape; assumption | eapply IH; eassumption].
  Qed.

  (* concatenating the parameters' gradients gives back the part of the vector that was read *)
  Lemma v2g_from_concat shapes : forall p vec ts,
    v2g_from p vec shapes = Some ts ->
    concat (map tflatten ts) = firstn (total shapes) (skipn p vec).
  Proof.
    induction shapes as [|s r IH]; intros p vec ts H.
    - simpl in H; inversion H; reflexivity.
    - apply v2g_from_inv in H. destruct H as [ts' [-> [L H]]].
      simpl. rewrite view_flatten by assumption. rewrite (IH _ _ _ H).
      rewrite <- (skipn_skipn' (numel s) p vec).
      remember (skipn p vec) as w.
      rewrite <- (firstn_skipn (numel s) w) at 3.
      rewrite firstn_app. rewrite L.
      replace (numel s + total r - numel s) with (total r) by lia.
      rewrite firstn_firstn. replace (Nat.min (numel s + total r) (numel s)) with (numel s) by lia.
      reflexivity.
  Qed.

  Theorem vector_to_grads_lands : forall (vec : list T) shapes,
    total shapes <= length vec ->
    exists ts, vector_to_grads vec shapes = Some ts
      /\ length ts = length shapes
      /\ Forall2 has_shape shapes ts
      /\ (forall j d ds, j < length shapes ->
            nth j ts d = view (nth j shapes ds)
                              (firstn (numel (nth j shapes ds)) (skipn (offset shapes j) vec)))
      /\ concat (map tflatten ts) = firstn (total shapes) vec.
  Proof.
    intros vec shapes H. unfold vector_to_grads.
    destruct (v2g_from_some shapes 0 vec) as [ts Hts]; [simpl; lia|].
    exists ts. split; [assumption|]. split; [eapply v2g_from_length; eassumption|].
    split; [eapply v2g_from_shapes; eassumption|]. split.
    - intros j d ds Hj. rewrite (v2g_from_nth shapes 0 vec ts j d ds Hts Hj). reflexivity.
    - rewrite (v2g_from_concat _ _ _ _ Hts). reflexivity.
  Qed.

  Corollary vector_to_grads_roundtrip : forall (vec : list T) shapes ts,
    length vec = total shapes -> vector_to_grads vec shapes = Some ts ->
    concat (map tflatten ts) = vec.
  Proof.
    intros vec shapes ts L H. unfold vector_to_grads in H.
    rewrite (v2g_from_concat _ _ _ _ H). simpl. rewrite <- L. apply firstn_all.
  Qed.

  Theorem vector_to_grads_fails_iff_short : forall (vec : list T) shapes,
    vector_to_grads vec shapes = None <-> length vec < total shapes.
  Proof.
    intros vec shapes; unfold vector_to_grads; split; intros H.
    - destruct (Nat.lt_ge_cases (length vec) (total shapes)) as [L|L]; [assumption|].
      destruct (v2g_from_some shapes 0 vec) as [ts Hts]; [simpl; lia | congruence].
    - apply v2g_from_none; simpl; [lia | assumption].
  Qed.

  (* per network: network i's parameters receive slices of all_grads[i] (never another network's) *)
  Lemma assign_grads_nth : forall net_shapes (all_grads : list (list T)) tss i,
    assign_grads all_grads net_shapes = Some tss -> i < length net_shapes ->
    vector_to_grads (nth i all_grads []) (nth i net_shapes []) = Some (nth i tss []).
  Proof.
    induction net_shapes as [|sh rest IH]; intros all_grads tss i H Hi; [simpl in Hi; lia|].
    destruct all_grads as [|g gs]; [discriminate|]. simpl in H.
    destruct (vector_to_grads g sh) as [ts|] eqn:E1; destruct (assign_grads gs rest) as [tss'|] eqn:E2;
      try discriminate.
    inversion H; subst. destruct i as [|i]; [exact E1|].
    change (vector_to_grads (nth i gs []) (nth i rest []) = Some (nth i tss' [])).
    apply IH; [assumption | simpl in Hi; lia].
  Qed.

  Lemma assign_grads_length : forall net_shapes (all_grads : list (list T)) tss,
    assign_grads all_grads net_shapes = Some tss -> length tss = length net_shapes.
  Proof.
    induction net_shapes as [|sh rest IH]; intros all_grads tss H; simpl in H.
    - inversion H; reflexivity.
    - destruct all_grads as [|g gs]; [discriminate|].
      destruct (vector_to_grads g sh); destruct (assign_grads gs rest) eqn:E; try discriminate.
      inversion H; subst; simpl; f_equal; eapply IH; eassumption.
  Qed.
End Poly.

(* ---- the layout of the energy gradient is the parameters() order ---- *)
Section Layout.
  Context {T : Type} (O : NumOps T).

  Lemma map_flat_map {A B C} (g : B -> C) (f : A -> list B) l :
    map g (flat_map f l) = flat_map (fun a => map g (f a)) l.
  Proof. induction l; simpl; [reflexivity | rewrite map_app, IHl; reflexivity]. Qed.

  Lemma flat_map_length_const {A B} (f : A -> list B) c l :
    (forall a, In a l -> length (f a) = c) -> length (flat_map f l) = length l * c.
  Proof.
    induction l as [|a l IH]; simpl; intros H; [reflexivity|].
    rewrite app_length, IH, (H a) by (intros; auto). reflexivity.
  Qed.

  Definition neg_outer (p : list T) (v : bits) : list (list T) :=
    map (fun pi => map (fun vj => nopp O (nmul O pi (b2t O vj))) v) p.

  Lemma vopp_outerb p v : vopp O (outerb O p v) = flat_map (fun pi => map (fun vj => nopp O (nmul O pi (b2t O vj))) v) p.
  Proof. unfold vopp, outerb. rewrite map_flat_map. induction p; simpl; [reflexivity|]. rewrite map_map. f_equal. assumption. Qed.

  Lemma v2g_step p (pre blk post : list T) s r :
    length pre = p -> length blk = numel s ->
    v2g_from p (pre ++ blk ++ post) (s :: r) =
    match v2g_from (p + numel s) (pre ++ blk ++ post) r with
    | Some ts => Some (view s blk :: ts) | None => None end.
  Proof.
    intros Hp Hb. simpl.
    rewrite (skipn_app_len p _ _ Hp), (firstn_app_len (numel s) _ _ Hb), Hb, Nat.eqb_refl. reflexivity.
  Qed.

  (* BinaryRBM: the W block lands on weights as the matrix -p_i v_j, then visible_bias, hidden_bias *)
  Theorem b_energy_grad_lands : forall (r : brbm) (v : bits),
    let p := b_prob_h_given_v O r v in
    vector_to_grads (b_energy_grad O r v) (b_shapes (length v) (length p))
    = Some [TMat (neg_outer p v); TVec (vopp O (map (b2t O) v)); TVec (vopp O p)].
  Proof.
    intros r v p. unfold b_energy_grad. fold p. rewrite vopp_outerb.
    set (f := fun pi => map (fun vj => nopp O (nmul O pi (b2t O vj))) v).
    assert (Hf : forall a, In a p -> length (f a) = length v) by (intros; unfold f; apply map_length).
    assert (L1 : length (flat_map f p) = length p * length v) by (apply flat_map_length_const; assumption).
    assert (L2 : length (vopp O (map (b2t O) v)) = length v) by (unfold vopp; rewrite !map_length; reflexivity).
    assert (L3 : length (vopp O p) = length p) by (unfold vopp; rewrite map_length; reflexivity).
    set (A := flat_map f p) in *. set (Bk := vopp O (map (b2t O) v)) in *. set (C := vopp O p) in *.
    unfold vector_to_grads, b_shapes.
    change (A ++ Bk ++ C) with ([] ++ A ++ (Bk ++ C)).
    rewrite v2g_step by (simpl; auto).
    change ([] ++ A ++ (Bk ++ C)) with (A ++ Bk ++ C).
    rewrite v2g_step by (simpl; auto).
    replace (A ++ Bk ++ C) with ((A ++ Bk) ++ C ++ []) by (rewrite app_nil_r, app_assoc; reflexivity).
    rewrite v2g_step by (simpl; rewrite ?app_length; simpl; lia).
    simpl. f_equal. f_equal. f_equal.
    rewrite <- (app_nil_r A). apply chunks_flat_map. assumption.
  Qed.

  (* PurificationRBM: W, U, visible_bias, hidden_bias, aux_bias *)
  Theorem p_energy_grad_lands : forall (r : prbm) (v : bits),
    let ph := p_prob_h_given_v O r v in
    let pa := p_prob_a_given_v O r v in
    vector_to_grads (p_energy_grad O r v) (p_shapes (length v) (length ph) (length pa))
    = Some [TMat (neg_outer ph v); TMat (neg_outer pa v);
            TVec (vopp O (map (b2t O) v)); TVec (vopp O ph); TVec (vopp O pa)].
  Proof.
    intros r v ph pa. unfold p_energy_grad. fold ph pa. rewrite !vopp_outerb.
    set (f := fun pi => map (fun vj => nopp O (nmul O pi (b2t O vj))) v).
    assert (Hf : forall l a, In a l -> length (f a) = length v) by (intros; unfold f; apply map_length).
    assert (L1 : length (flat_map f ph) = length ph * length v) by (apply flat_map_length_const; apply Hf).
    assert (L1' : length (flat_map f pa) = length pa * length v) by (apply flat_map_length_const; apply Hf).
    assert (L2 : length (vopp O (map (b2t O) v)) = length v) by (unfold vopp; rewrite !map_length; reflexivity).
    assert (L3 : length (vopp O ph) = length ph) by (unfold vopp; rewrite map_length; reflexivity).
    assert (L4 : length (vopp O pa) = length pa) by (unfold vopp; rewrite map_length; reflexivity).
    set (A := flat_map f ph) in *. set (A' := flat_map f pa) in *.
    set (Bk := vopp O (map (b2t O) v)) in *. set (C := vopp O ph) in *. set (D := vopp O pa) in *.
    unfold vector_to_grads, p_shapes.
    change (A ++ A' ++ Bk ++ C ++ D) with ([] ++ A ++ (A' ++ Bk ++ C ++ D)).
    rewrite v2g_step by (simpl; auto).
    change ([] ++ A ++ (A' ++ Bk ++ C ++ D)) with (A ++ A' ++ (Bk ++ C ++ D)).
    rewrite v2g_step by (simpl; auto).
    replace (A ++ A' ++ Bk ++ C ++ D) with ((A ++ A') ++ Bk ++ (C ++ D)) by (rewrite <- !app_assoc; reflexivity).
    rewrite v2g_step by (simpl; rewrite ?app_length; simpl; lia).
    replace ((A ++ A') ++ Bk ++ C ++ D) with ((A ++ A' ++ Bk) ++ C ++ D) by (rewrite <- !app_assoc; reflexivity).
    rewrite v2g_step by (simpl; rewrite ?app_length; simpl; lia).
    replace ((A ++ A' ++ Bk) ++ C ++ D) with ((A ++ A' ++ Bk ++ C) ++ D ++ []) by (rewrite app_nil_r, <- !app_assoc; reflexivity).
    rewrite v2g_step by (simpl; rewrite ?app_length; simpl; lia).
    simpl. f_equal. f_equal; [|f_equal].
    - f_equal. rewrite <- (app_nil_r A). apply chunks_flat_map. apply Hf.
    - f_equal. rewrite <- (app_nil_r A'). apply chunks_flat_map. apply Hf.
  Qed.
End Layout.

(* ---- the counting machine: event trace and counters (any number type) ---- *)
Section MachineFacts.
  Context {T : Type} (O : NumOps T) {B : Type} (G : B -> list T -> list T).

  Lemma run_batches_counts : forall bs lr theta n,
    let '(th, n', log) := run_batches O G lr theta n bs in
    n' = n + length bs /\ length log = length bs /\ map fst log = repeat lr (length bs).
  Proof.
    induction bs as [|b r IH]; intros lr theta n; simpl; [repeat split; lia|].
    specialize (IH lr (sgd_step O lr theta (G b theta)) (S n)).
    destruct (run_batches O G lr (sgd_step O lr theta (G b theta)) (S n) r) as [[th n'] log].
    destruct IH as [H1 [H2 H3]]. simpl. repeat split; [lia | lia | f_equal; assumption].
  Qed.

  (* running bs1 ++ bs2 = running bs1, then bs2 from the parameters reached *)
  Lemma run_batches_app : forall bs1 bs2 lr theta n,
    run_batches O G lr theta n (bs1 ++ bs2) =
    let '(th1, n1, log1) := run_batches O G lr theta n bs1 in
    let '(th2, n2, log2) := run_batches O G lr th1 n1 bs2 in
    (th2, n2, log1 ++ log2).
  Proof.
    induction bs1 as [|b r IH]; intros bs2 lr theta n; simpl.
    - destruct (run_batches O G lr theta n bs2) as [[th2 n2] log2]; reflexivity.
    - rewrite IH.
      destruct (run_batches O G lr (sgd_step O lr theta (G b theta)) (S n) r) as [[th1 n1] log1].
      destruct (run_batches O G lr th1 n1 bs2) as [[th2 n2] log2]. reflexivity.
  Qed.

  (* the gradient used at batch t is G evaluated at the parameters produced by batches < t *)
  Lemma run_batches_log_nth : forall bs lr theta n t b0 d,
    t < length bs ->
    nth t (snd (run_batches O G lr theta n bs)) d =
    (lr, G (nth t bs b0) (fst (fst (run_batches O G lr theta n (firstn t bs))))).
  Proof.
    intros bs lr theta n t b0 d Ht.
    rewrite <- (firstn_skipn t bs) at 1. rewrite run_batches_app.
    pose proof (run_batches_counts (firstn t bs) lr theta n) as Hc.
    destruct (run_batches O G lr theta n (firstn t bs)) as [[th1 n1] log1]. destruct Hc as [_ [Hl _]].
    rewrite firstn_length in Hl. replace (Nat.min t (length bs)) with t in Hl by lia.
    destruct (skipn t bs) as [|b r] eqn:E.
    - assert (length (skipn t bs) = 0) by (rewrite E; reflexivity). rewrite skipn_length in H. lia.
    - assert (Hb : nth t bs b0 = b).
      { rewrite <- (firstn_skipn t bs) at 1. rewrite app_nth2; rewrite firstn_length;
          replace (Nat.min t (length bs)) with t by lia; [|lia]. rewrite Nat.sub_diag, E. reflexivity. }
      simpl. destruct (run_batches O G lr (sgd_step O lr th1 (G b th1)) (S n1) r) as [[th2 n2] log2]. simpl.
      rewrite app_nth2 by lia. rewrite Hl, Nat.sub_diag. simpl. rewrite Hb. reflexivity.
  Qed.

  Definition epoch_events (has_sched : bool) (bs : list B) : list ev :=
    repeat EvOpt (length bs) ++ (if has_sched then [EvSched] else []).

  Fixpoint lr_plan (sched : nat -> T) (has_sched : bool) (ns : nat) (eps : list (list B)) : list T :=
    match eps with
    | [] => []
    | bs :: rest => repeat (sched ns) (length bs) ++ lr_plan sched has_sched (if has_sched then S ns else ns) rest
    end.

  Lemma map_const_repeat {A C} (c : C) (l : list A) : map (fun _ => c) l = repeat c (length l).
  Proof. induction l; simpl; [reflexivity | f_equal; assumption]. Qed.

  Theorem run_epochs_protocol : forall eps sched has_sched theta nopt nsched,
    let r := run_epochs O G sched has_sched theta nopt nsched eps in
    r_trace r = concat (map (epoch_events has_sched) eps)
    /\ r_nopt r = nopt + length (concat eps)
    /\ r_nsched r = nsched + (if has_sched then length eps else 0)
    /\ map fst (r_log r) = lr_plan sched has_sched nsched eps.
  Proof.
    induction eps as [|bs rest IH]; intros sched has_sched theta nopt nsched; simpl.
    - repeat split; try lia. destruct has_sched; lia.
    - pose proof (run_batches_counts bs (sched nsched) theta nopt) as Hc.
      destruct (run_batches O G (sched nsched) theta nopt bs) as [[th n] log].
      destruct Hc as [Hn [Hl Hf]].
      specialize (IH sched has_sched th n (if has_sched then S nsched else nsched)).
      simpl in IH. destruct IH as [I1 [I2 [I3 I4]]]. simpl.
      repeat split.
      + rewrite I1. unfold epoch_events at 2. rewrite map_const_repeat, Hl, <- app_assoc. reflexivity.
      + rewrite I2, app_length. lia.
      + rewrite I3. destruct has_sched; lia.
      + rewrite map_app, Hf, I4. reflexivity.
  Qed.

  Definition ev_eqb (a b : ev) : bool :=
    match a, b with EvOpt, EvOpt | EvSched, EvSched => true | _, _ => false end.
  Definition count_ev (e : ev) (tr : list ev) : nat := length (filter (ev_eqb e) tr).

  Lemma count_ev_app e a b : count_ev e (a ++ b) = count_ev e a + count_ev e b.
  Proof. unfold count_ev. rewrite filter_app, app_length. reflexivity. Qed.

  Lemma count_ev_repeat e e' n : count_ev e (repeat e' n) = if ev_eqb e e' then n else 0.
  Proof. unfold count_ev. induction n; simpl; [destruct (ev_eqb e e'); reflexivity|].
         destruct (ev_eqb e e'); simpl; [f_equal|]; assumption. Qed.

  Lemma count_epochs has_sched eps :
    count_ev EvOpt (concat (map (epoch_events has_sched) eps)) = length (concat eps)
    /\ count_ev EvSched (concat (map (epoch_events has_sched) eps)) = if has_sched then length eps else 0.
  Proof.
    induction eps as [|bs rest [I1 I2]]; simpl; [destruct has_sched; split; reflexivity|].
    rewrite !count_ev_app, I1, I2, app_length. unfold epoch_events.
    rewrite !count_ev_app, !count_ev_repeat. simpl.
    destruct has_sched; unfold count_ev; simpl; split; lia.
  Qed.

  (* scheduler steps = epochs run; optimizer steps = total number of batches;
     and the scheduler step of an epoch comes after that epoch's last optimizer step *)
  Theorem scheduler_once_per_epoch : forall eps sched theta nopt nsched,
    let r := run_epochs O G sched true theta nopt nsched eps in
    r_trace r = concat (map (fun bs => repeat EvOpt (length bs) ++ [EvSched]) eps)
    /\ count_ev EvSched (r_trace r) = length eps
    /\ count_ev EvOpt (r_trace r) = length (concat eps)
    /\ r_nsched r = nsched + length eps
    /\ r_nopt r = nopt + length (concat eps).
  Proof.
    intros eps sched theta nopt nsched r.
    destruct (run_epochs_protocol eps sched true theta nopt nsched) as [H1 [H2 [H3 _]]].
    fold r in H1, H2, H3. destruct (count_epochs true eps) as [C1 C2].
    repeat split; try assumption; rewrite H1; assumption.
  Qed.

  Theorem no_scheduler_no_steps : forall eps sched theta nopt nsched,
    let r := run_epochs O G sched false theta nopt nsched eps in
    count_ev EvSched (r_trace r) = 0 /\ r_nsched r = nsched
    /\ count_ev EvOpt (r_trace r) = length (concat eps)
    /\ Forall (fun e => fst e = sched nsched) (r_log r).
  Proof.
    intros eps sched theta nopt nsched r.
    destruct (run_epochs_protocol eps sched false theta nopt nsched) as [H1 [H2 [H3 H4]]].
    fold r in H1, H2, H3, H4. destruct (count_epochs false eps) as [C1 C2].
    repeat split; try (rewrite H1; assumption); try lia.
    assert (HF : Forall (fun x => x = sched nsched) (map fst (r_log r))).
    { rewrite H4. clear. induction eps as [|bs rest IH]; simpl; [constructor|].
      apply Forall_app; split; [|assumption]. apply Forall_forall. intros x Hx. eapply repeat_spec; eassumption. }
    rewrite Forall_map in HF. exact HF.
  Qed.
End MachineFacts.

(* ====================================================================== *)
(* Part 2 — T := R                                                        *)
(* ====================================================================== *)
Local Open Scope R_scope.

Lemma nth_map2 {A B C} (f : A * B -> C) xs ys i da db dc :
  length xs = length ys -> (i < length xs)%nat ->
  nth i (map f (combine xs ys)) dc = f (nth i xs da, nth i ys db).
Proof.
  intros L Hi.
  rewrite (nth_indep _ dc (f (da, db))) by (rewrite map_length, combine_length; lia).
  rewrite map_nth, combine_nth by assumption. reflexivity.
Qed.

Lemma nth_vadd xs ys i : length xs = length ys -> (i < length xs)%nat ->
  nth i (vadd ROps xs ys) 0 = nth i xs 0 + nth i ys 0.
Proof. intros; unfold vadd; rewrite (nth_map2 _ xs ys i 0 0) by assumption; reflexivity. Qed.

Lemma nth_vsub xs ys i : length xs = length ys -> (i < length xs)%nat ->
  nth i (vsub ROps xs ys) 0 = nth i xs 0 - nth i ys 0.
Proof. intros; unfold vsub; rewrite (nth_map2 _ xs ys i 0 0) by assumption; reflexivity. Qed.

Lemma length_vadd (xs ys : list R) : length xs = length ys -> length (vadd ROps xs ys) = length xs.
Proof. intros; unfold vadd; rewrite map_length, combine_length; lia. Qed.

Lemma length_vsum n (rows : list (list R)) :
  Forall (fun r => length r = n) rows -> length (vsum ROps n rows) = n.
Proof.
  induction 1 as [|x r Hx Hr IH]; simpl; [apply repeat_length|].
  rewrite length_vadd; [assumption | rewrite IH; assumption].
Qed.

Lemma nth_repeat0 n i : nth i (repeat 0 n) 0 = 0.
Proof. revert i; induction n; intros [|i]; simpl; auto. Qed.

(* reduce=True is the entrywise sum of the per-row gradients *)
Lemma nth_vsum n (rows : list (list R)) i :
  Forall (fun r => length r = n) rows -> (i < n)%nat ->
  nth i (vsum ROps n rows) 0 = sum ROps (map (fun r => nth i r 0) rows).
Proof.
  induction 1 as [|x r Hx Hr IH]; intros Hi; simpl; [apply nth_repeat0|].
  rewrite nth_vadd; [rewrite IH by assumption; reflexivity | rewrite length_vsum; assumption | lia].
Qed.

Lemma nth_vdivs xs d i : (i < length xs)%nat -> nth i (vdivs ROps xs d) 0 = nth i xs 0 / d.
Proof.
  intros Hi. unfold vdivs. rewrite (nth_indep _ 0 (0 / d)) by (rewrite map_length; assumption).
  rewrite (map_nth (fun x => x / d)). reflexivity.
Qed.

Lemma nofnat_R n : nofnat ROps n = INR n.
Proof. unfold nofnat; simpl. symmetry; apply INR_IZR_INZ. Qed.

Lemma length_outerb (p : list R) (v : bits) : length (outerb ROps p v) = (length p * length v)%nat.
Proof. unfold outerb. apply flat_map_length_const. intros; apply map_length. Qed.

Lemma length_linearb (W : list (list R)) c v : length (linearb ROps W c v) = Nat.min (length W) (length c).
Proof. unfold linearb. rewrite map_length, combine_length. reflexivity. Qed.

Lemma length_b_energy_grad (r : brbm) v :
  length (bW r) = length (bc r) -> length v = length (bb r) ->
  length (b_energy_grad ROps r v) = b_num_pars r.
Proof.
  intros HW Hv. unfold b_energy_grad, b_num_pars, vopp, b_prob_h_given_v.
  rewrite !app_length, !map_length, length_outerb, !map_length, length_linearb. lia.
Qed.

Lemma length_p_energy_grad (r : prbm) v :
  length (pW r) = length (pc r) -> length (pU r) = length (pd r) -> length v = length (pb r) ->
  length (p_energy_grad ROps r v) = p_num_pars r.
Proof.
  intros HW HU Hv. unfold p_energy_grad, p_num_pars, vopp, p_prob_h_given_v, p_prob_a_given_v.
  rewrite !app_length, !map_length, !length_outerb, !map_length, !length_linearb. lia.
Qed.

(* ---- compute_batch_gradients ---- *)
Lemma cd_apply_entry g0 rest negative i :
  length g0 = length negative -> (i < length g0)%nat ->
  nth i (nth 0 (cd_apply ROps (g0 :: rest) negative) []) 0 = nth i g0 0 - nth i negative 0.
Proof. intros; simpl; apply nth_vsub; assumption. Qed.

Lemma cd_negative_entry gm (neg : list bits) i : (i < length gm)%nat ->
  nth i (cd_negative ROps gm neg) 0 = nth i gm 0 / INR (length neg).
Proof. intros; unfold cd_negative; rewrite nth_vdivs, nofnat_R by assumption; reflexivity. Qed.

Lemma length_cd_negative gm (neg : list bits) : length (cd_negative ROps gm neg) = length gm.
Proof. unfold cd_negative, vdivs; apply map_length. Qed.

Theorem cd_gradient_am_binary : forall (am : brbm) g0 rest (neg vk : list bits) i,
  (0 < length neg)%nat ->            (* the divisor float(neg_batch.shape[0]) is not 0 *)
  length (bW am) = length (bc am) ->
  Forall (fun v => length v = length (bb am)) vk ->
  length g0 = b_num_pars am -> (i < b_num_pars am)%nat ->
  nth i (nth 0 (cbg_binary ROps am (g0 :: rest) neg vk) []) 0 =
  nth i g0 0 - sum ROps (map (fun v => nth i (b_energy_grad ROps am v) 0) vk) / INR (length neg).
Proof.
  intros am g0 rest neg vk i _ HW Hvk Hg Hi. unfold cbg_binary.
  assert (HF : Forall (fun r => length r = b_num_pars am) (map (b_energy_grad ROps am) vk)).
  { apply Forall_forall. intros x Hx. apply in_map_iff in Hx. destruct Hx as [v [<- Hv]].
    apply length_b_energy_grad; [assumption|]. rewrite Forall_forall in Hvk. apply Hvk; assumption. }
  assert (HL : length (b_energy_grad_batch ROps am vk) = b_num_pars am) by (apply length_vsum; assumption).
  rewrite cd_apply_entry by (rewrite ?length_cd_negative; lia).
  rewrite cd_negative_entry by lia.
  unfold b_energy_grad_batch. rewrite nth_vsum by assumption. rewrite map_map. reflexivity.
Qed.

Theorem cd_gradient_am_purification : forall (am : prbm) g0 rest (neg vk : list bits) i,
  (0 < length neg)%nat ->
  length (pW am) = length (pc am) -> length (pU am) = length (pd am) ->
  Forall (fun v => length v = length (pb am)) vk ->
  length g0 = p_num_pars am -> (i < p_num_pars am)%nat ->
  nth i (nth 0 (cbg_purification ROps am (g0 :: rest) neg vk) []) 0 =
  nth i g0 0 - sum ROps (map (fun v => nth i (p_energy_grad ROps am v) 0) vk) / INR (length neg).
Proof.
  intros am g0 rest neg vk i _ HW HU Hvk Hg Hi. unfold cbg_purification.
  assert (HF : Forall (fun r => length r = p_num_pars am) (map (p_energy_grad ROps am) vk)).
  { apply Forall_forall. intros x Hx. apply in_map_iff in Hx. destruct Hx as [v [<- Hv]].
    apply length_p_energy_grad; [assumption | assumption |]. rewrite Forall_forall in Hvk. apply Hvk; assumption. }
  assert (HL : length (p_energy_grad_batch ROps am vk) = p_num_pars am) by (apply length_vsum; assumption).
  rewrite cd_apply_entry by (rewrite ?length_cd_negative; lia).
  rewrite cd_negative_entry by lia.
  unfold p_energy_grad_batch. rewrite nth_vsum by assumption. rewrite map_map. reflexivity.
Qed.

(* the Gibbs chain keeps the batch shape, so the negative phase is the MEAN over the chain end states *)
Corollary cd_negative_is_mean_binary : forall (am : brbm) g0 rest (neg vk : list bits) i,
  (0 < length neg)%nat ->
  length (bW am) = length (bc am) ->
  Forall (fun v => length v = length (bb am)) vk ->
  length g0 = b_num_pars am -> (i < b_num_pars am)%nat -> length vk = length neg ->
  nth i (nth 0 (cbg_binary ROps am (g0 :: rest) neg vk) []) 0 =
  nth i g0 0 - mean ROps (map (fun v => nth i (b_energy_grad ROps am v) 0) vk).
Proof.
  intros. rewrite cd_gradient_am_binary by assumption. unfold mean. rewrite map_length, nofnat_R.
  replace (length neg) with (length vk) by assumption. reflexivity.
Qed.

(* phase network (and every entry after the first): positive phase only; nothing is added or dropped *)
Theorem cd_gradient_ph : forall {T} (O : NumOps T) (pos : list (list T)) negative,
  tl (cd_apply O pos negative) = tl pos /\ length (cd_apply O pos negative) = length pos.
Proof. intros T O [|g0 rest] negative; simpl; split; reflexivity. Qed.

Theorem cd_gradient_ph_binary : forall {T} (O : NumOps T) (am : brbm) pos neg vk j, (0 < j)%nat ->
  nth j (cbg_binary O am pos neg vk) [] = nth j pos [].
Proof. intros T O am [|g0 rest] neg vk [|j] Hj; try lia; reflexivity. Qed.

Theorem cd_gradient_ph_purification : forall {T} (O : NumOps T) (am : prbm) pos neg vk j, (0 < j)%nat ->
  nth j (cbg_purification O am pos neg vk) [] = nth j pos [].
Proof. intros T O am [|g0 rest] neg vk [|j] Hj; try lia; reflexivity. Qed.

(* ---- SGD ---- *)
Lemma sgd_step_length lr (th g : list R) : length th = length g -> length (sgd_step ROps lr th g) = length th.
Proof. intros; unfold sgd_step; rewrite map_length, combine_length; lia. Qed.

Theorem sgd_step_entry : forall lr (th g : list R) i,
  length th = length g -> (i < length th)%nat ->
  nth i (sgd_step ROps lr th g) 0 - nth i th 0 = - lr * nth i g 0.
Proof.
  intros lr th g i L Hi. unfold sgd_step. rewrite (nth_map2 _ th g i 0 0) by assumption. simpl. lra.
Qed.

Section Displacement.
  Context {B : Type} (G : B -> list R -> list R) (n : nat).
  Hypothesis G_len : forall b th, length th = n -> length (G b th) = n.

  (* after the batches of one epoch (constant lr): theta_m = theta_0 - lr * sum_t g_t *)
  Lemma run_batches_displacement : forall bs lr th0 k i,
    length th0 = n -> (i < n)%nat ->
    let '(th, _, log) := run_batches ROps G lr th0 k bs in
    length th = n /\
    nth i th 0 = nth i th0 0 - lr * sum ROps (map (fun e => nth i (snd e) 0) log).
  Proof.
    induction bs as [|b r IH]; intros lr th0 k i L Hi; simpl.
    - split; [assumption | lra].
    - assert (Lg : length (G b th0) = n) by (apply G_len; assumption).
      assert (L1 : length (sgd_step ROps lr th0 (G b th0)) = n) by (rewrite sgd_step_length; lia).
      specialize (IH lr (sgd_step ROps lr th0 (G b th0)) (S k) i L1 Hi).
      destruct (run_batches ROps G lr (sgd_step ROps lr th0 (G b th0)) (S k) r) as [[th k'] log].
      destruct IH as [IL IE]. split; [assumption|]. simpl. rewrite IE.
      pose proof (sgd_step_entry lr th0 (G b th0) i) as Hs.
      assert (Hs' : nth i (sgd_step ROps lr th0 (G b th0)) 0 - nth i th0 0 = - lr * nth i (G b th0) 0)
        by (apply Hs; lia).
      lra.
  Qed.
End Displacement.

Lemma sum_log_const_lr (lr : R) (f : R * list R -> R) (log : list (R * list R)) :
  map fst log = repeat lr (length log) ->
  sum ROps (map (fun e => fst e * f e) log) = lr * sum ROps (map f log).
Proof.
  induction log as [|e l IH]; simpl; intros H; [lra|].
  injection H as H1 H2. rewrite (IH H2), H1. lra.
Qed.

Section EpochDisplacement.
  Context {B : Type} (G : B -> list R -> list R) (n : nat).
  Hypothesis G_len : forall b th, length th = n -> length (G b th) = n.

  (* over a whole run, with the learning rate of each step as recorded in the log
     (= lr_plan: the schedule value of the epoch the step belongs to):
        theta_final = theta_0 - sum_steps lr_step * g_step *)
  Lemma run_epochs_displacement : forall eps sched hs th0 k ns i,
    length th0 = n -> (i < n)%nat ->
    let r := run_epochs ROps G sched hs th0 k ns eps in
    length (r_theta r) = n /\
    nth i (r_theta r) 0 = nth i th0 0 - sum ROps (map (fun e => fst e * nth i (snd e) 0) (r_log r)).
  Proof.
    induction eps as [|bs rest IH]; intros sched hs th0 k ns i L Hi; simpl.
    - split; [assumption | lra].
    - pose proof (run_batches_displacement G n G_len bs (sched ns) th0 k i L Hi) as Hd.
      pose proof (run_batches_counts ROps G bs (sched ns) th0 k) as Hc.
      destruct (run_batches ROps G (sched ns) th0 k bs) as [[th k'] log].
      destruct Hd as [L1 E1]. destruct Hc as [_ [Hl Hf]].
      specialize (IH sched hs th k' (if hs then S ns else ns) i L1 Hi). simpl in IH.
      destruct IH as [L2 E2]. simpl. split; [assumption|].
      assert (Hm : map fst log = repeat (sched ns) (length log)) by (rewrite Hl; exact Hf).
      rewrite E2, E1, map_app, sum_app.
      rewrite (sum_log_const_lr (sched ns) (fun e => nth i (snd e) 0) log Hm). lra.
  Qed.
End EpochDisplacement.

(* StepLR: after n scheduler steps the rate is lr0 * gamma^(n div step_size) *)
Lemma steplr_closed lr0 gamma ss n : (0 < ss)%nat ->
  steplr ROps lr0 gamma ss n = lr0 * gamma ^ (n / ss).
Proof.
  intros Hss. induction n as [|m IH]; simpl steplr.
  - rewrite Nat.div_0_l by lia. simpl. lra.
  - rewrite IH.
    pose proof (Nat.div_mod_eq (S m) ss) as E1. pose proof (Nat.div_mod_eq m ss) as E2.
    pose proof (Nat.mod_upper_bound (S m) ss) as B1. pose proof (Nat.mod_upper_bound m ss) as B2.
    destruct (Nat.eqb_spec (S m mod ss) 0) as [Z|NZ].
    + assert (S m / ss = S (m / ss))%nat by nia. rewrite H. simpl. lra.
    + assert (S m / ss = m / ss)%nat by nia. rewrite H. reflexivity.
Qed.

(* ====================================================================== *)
(* Part 3 — structured parameters: optimizer.step on the parameter list   *)
(* after vector_to_grads is SGD on the flat vector (any number type)      *)
(* ====================================================================== *)
Section Structured.
  Context {T : Type} (O : NumOps T).

  Lemma sgd_step_app lr (a b c d : list T) : length a = length c ->
    sgd_step O lr (a ++ b) (c ++ d) = sgd_step O lr a c ++ sgd_step O lr b d.
  Proof.
    revert c; induction a as [|x a IH]; intros [|y c] L; simpl in L; try discriminate; [reflexivity|].
    unfold sgd_step in *. simpl. f_equal. apply IH. lia.
  Qed.

  Lemma sgd_step_len lr (a c : list T) : length a = length c -> length (sgd_step O lr a c) = length a.
  Proof. intros; unfold sgd_step; rewrite map_length, combine_length; lia. Qed.

  Lemma sgd_rows_flatten lr (x y : list (list T)) :
    Forall2 (fun r r' => length r = length r') x y ->
    concat (map (fun p => sgd_step O lr (fst p) (snd p)) (combine x y)) = sgd_step O lr (concat x) (concat y).
  Proof.
    induction 1 as [|r r' x y Hr Hxy IH]; simpl; [reflexivity|].
    rewrite IH, sgd_step_app by assumption. reflexivity.
  Qed.

  Lemma same_shape_flat_length (t g : tensor (T:=T)) : same_shape t g -> length (tflatten t) = length (tflatten g).
  Proof.
    destruct t as [x|x], g as [y|y]; simpl; try tauto. intros [_ H].
    induction H; simpl; [reflexivity | rewrite !app_length; lia].
  Qed.

  Lemma sgd_tensor_flatten lr (t g : tensor (T:=T)) : same_shape t g ->
    tflatten (sgd_tensor O lr t g) = sgd_step O lr (tflatten t) (tflatten g).
  Proof.
    destruct t as [x|x], g as [y|y]; simpl; try tauto. intros [_ H]. apply sgd_rows_flatten; assumption.
  Qed.

  Lemma sgd_tensor_shape lr s (t g : tensor (T:=T)) : has_shape s t -> has_shape s g -> has_shape s (sgd_tensor O lr t g).
  Proof.
    destruct s as [k|r c], t as [x|x], g as [y|y]; simpl; try tauto.
    - intros; rewrite sgd_step_len; lia.
    - intros [Lx Fx] [Ly Fy]. split; [rewrite map_length, combine_length; lia|].
      apply Forall_forall. intros row Hrow. apply in_map_iff in Hrow. destruct Hrow as [[a b] [<- Hin]].
      simpl. rewrite Forall_forall in Fx, Fy.
      pose proof (in_combine_l _ _ _ _ Hin). pose proof (in_combine_r _ _ _ _ Hin).
      rewrite sgd_step_len; [auto | rewrite Fx, Fy; auto].
  Qed.

  Lemma has_shape_same s (t g : tensor (T:=T)) : has_shape s t -> has_shape s g -> same_shape t g.
  Proof.
    destruct s as [k|r c], t as [x|x], g as [y|y]; simpl; try tauto; [lia|].
    intros [Lx Fx] [Ly Fy]. split; [lia|].
    subst r. revert y Ly Fy. induction x as [|a x IH]; intros [|b y] Ly Fy; simpl in Ly; try discriminate; constructor.
    - inversion Fx; inversion Fy; subst; lia.
    - apply IH; [inversion Fx; assumption | lia | inversion Fy; assumption].
  Qed.

  Lemma sgd_params_flatten lr (ts gs : list (tensor (T:=T))) : Forall2 same_shape ts gs ->
    concat (map tflatten (sgd_params O lr ts gs)) =
    sgd_step O lr (concat (map tflatten ts)) (concat (map tflatten gs)).
  Proof.
    induction 1 as [|t g ts gs Htg H IH]; simpl; [reflexivity|].
    unfold sgd_params in *. rewrite IH, sgd_tensor_flatten by assumption.
    rewrite sgd_step_app by (apply same_shape_flat_length; assumption). reflexivity.
  Qed.

  (* one batch for one network: vector_to_grads then optimizer.step moves the network's flat
     parameter vector to theta - lr * g, every parameter keeping its shape *)
  Theorem batch_update_is_flat_sgd : forall lr shapes (params : list (tensor (T:=T))) (g : list T),
    Forall2 has_shape shapes params -> length g = total shapes ->
    exists params', batch_update O lr params shapes g = Some params'
      /\ Forall2 has_shape shapes params'
      /\ concat (map tflatten params') = sgd_step O lr (concat (map tflatten params)) g.
  Proof.
    intros lr shapes params g Hp Hg. unfold batch_update.
    destruct (vector_to_grads_lands g shapes) as [gs [E [_ [Hs [_ Hc]]]]]; [lia|].
    rewrite E. eexists; split; [reflexivity|].
    assert (Hc' : concat (map tflatten gs) = g) by (rewrite Hc, <- Hg; apply firstn_all).
    assert (Hss : Forall2 same_shape params gs /\ Forall2 has_shape shapes (sgd_params O lr params gs)).
    { clear E Hc Hc' Hg. revert gs Hs. induction Hp as [|s t shapes params Hst Hp IH]; intros gs Hs;
        inversion Hs; subst; [split; constructor|].
      destruct (IH _ H3) as [I1 I2]. split; constructor; try assumption.
      - eapply has_shape_same; eassumption.
      - apply sgd_tensor_shape; assumption. }
    destruct Hss as [S1 S2]. split; [assumption|].
    rewrite sgd_params_flatten by assumption. rewrite Hc'. reflexivity.
  Qed.
End Structured.
