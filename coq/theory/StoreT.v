(* StoreT.v — proofs about the save/load store (C11): round trip over every history, purity of save,
   refinement to the "a file holds an immutable snapshot" specification.  Purely discrete. *)
From Coq Require Import List Arith Bool Lia.
From QModel Require Import Store.
Import ListNotations.
Arguments load_state_dict : simpl never.
Arguments load_state : simpl never.
Arguments save_data : simpl never.
Arguments autoload : simpl never.
Arguments load_param : simpl never.

(* ------------------------------------------------------------------ dictionaries *)
Lemma assoc_set_eq {A} k (v : A) d : assoc k (dict_set k v d) = Some v.
Proof.
  induction d as [|[k' v'] r IH]; simpl; [rewrite Nat.eqb_refl; reflexivity|].
  destruct (k =? k') eqn:E; simpl; [rewrite Nat.eqb_refl; reflexivity | rewrite E; exact IH].
Qed.

Lemma assoc_set_neq {A} k k' (v : A) d : k <> k' -> assoc k (dict_set k' v d) = assoc k d.
Proof.
  intros Hn. induction d as [|[k2 v2] r IH]; simpl.
  - destruct (k =? k') eqn:E; [apply Nat.eqb_eq in E; contradiction | reflexivity].
  - destruct (k' =? k2) eqn:E2; simpl.
    + apply Nat.eqb_eq in E2; subst k2.
      destruct (k =? k') eqn:E; [apply Nat.eqb_eq in E; contradiction | reflexivity].
    + destruct (k =? k2); [reflexivity | exact IH].
Qed.

Lemma assoc_none_notin {A} k (d : list (nat * A)) : assoc k d = None <-> ~ In k (map fst d).
Proof.
  induction d as [|[k' v] r IH]; simpl; [tauto|].
  destruct (k =? k') eqn:E.
  - apply Nat.eqb_eq in E; subst. split; [discriminate | intros H; exfalso; apply H; left; reflexivity].
  - apply Nat.eqb_neq in E. rewrite IH. split; [intros H [H1|H1]; [congruence | tauto] | tauto].
Qed.

Lemma assoc_in {A} k (v : A) d : assoc k d = Some v -> In (k, v) d.
Proof.
  induction d as [|[k' v'] r IH]; simpl; [intros; discriminate|].
  destruct (k =? k') eqn:E; [apply Nat.eqb_eq in E; intros H; inversion H; subst; left; reflexivity | intros H; right; auto].
Qed.

Lemma assoc_map {A B} (g : A -> B) k (d : list (nat * A)) :
  assoc k (map (fun kv => (fst kv, g (snd kv))) d) = option_map g (assoc k d).
Proof. induction d as [|[k' v] r IH]; simpl; [reflexivity | destruct (k =? k'); [reflexivity | exact IH]]. Qed.

Lemma keys_map {A B} (g : A -> B) (d : list (nat * A)) :
  map fst (map (fun kv => (fst kv, g (snd kv))) d) = map fst d.
Proof. induction d as [|[k v] r IH]; simpl; [reflexivity | rewrite IH; reflexivity]. Qed.

Lemma keys_set {A} k (v : A) d :
  map fst (dict_set k v d) = if has_key k d then map fst d else map fst d ++ [k].
Proof.
  unfold has_key. induction d as [|[k' v'] r IH]; simpl; [reflexivity|].
  destruct (k =? k') eqn:E; simpl.
  - apply Nat.eqb_eq in E; subst; reflexivity.
  - rewrite IH. destruct (assoc k r); reflexivity.
Qed.

Lemma nodup_set {A} k (v : A) d : NoDup (map fst d) -> NoDup (map fst (dict_set k v d)).
Proof.
  intros H. rewrite keys_set. unfold has_key. destruct (assoc k d) eqn:E; [exact H|].
  apply assoc_none_notin in E.
  apply NoDup_rev in H. rewrite <- (rev_involutive (map fst d ++ [k])). apply NoDup_rev.
  rewrite rev_app_distr; simpl. constructor; [rewrite <- in_rev; exact E | exact H].
Qed.

Lemma assoc_update {A} k (d m : list (nat * A)) :
  NoDup (map fst m) ->
  assoc k (dict_update d m) = match assoc k m with Some v => Some v | None => assoc k d end.
Proof.
  unfold dict_update. revert d. induction m as [|[k1 v1] m IH]; intros d Hnd; simpl; [reflexivity|].
  inversion Hnd as [|? ? Hni Hnd']; subst. rewrite (IH _ Hnd').
  destruct (k =? k1) eqn:E.
  - apply Nat.eqb_eq in E; subst k1.
    apply assoc_none_notin in Hni. rewrite Hni. apply assoc_set_eq.
  - apply Nat.eqb_neq in E. rewrite (assoc_set_neq _ _ _ _ E). reflexivity.
Qed.

Lemma Forall_set {A} (P : A -> Prop) k v (d : list (nat * A)) :
  Forall (fun kv => P (snd kv)) d -> P v -> Forall (fun kv => P (snd kv)) (dict_set k v d).
Proof.
  intros H Hv. induction d as [|[k' v'] r IH]; simpl; [constructor; [exact Hv | constructor]|].
  inversion H; subst. destruct (k =? k'); constructor; auto.
Qed.

Lemma Forall_assoc {A} (P : A -> Prop) k v (d : list (nat * A)) :
  Forall (fun kv => P (snd kv)) d -> assoc k d = Some v -> P v.
Proof. intros H Ha. apply assoc_in in Ha. rewrite Forall_forall in H. exact (H _ Ha). Qed.

(* ------------------------------------------------------------------ architecture, well-formedness *)
Definition pks (p : param) : key * list nat := (p_name p, p_shape p).
Definition params_arch (ps : list param) := map pks ps.
Definition nets_arch (nets : list (key * net)) : list (key * list (key * list nat)) :=
  map (fun nk => (fst nk, params_arch (n_params (snd nk)))) nets.
Definition nets_params (nets : list (key * net)) : list (key * list param) :=
  map (fun nk => (fst nk, n_params (snd nk))) nets.
Definition nets_ids (nets : list (key * net)) : list nat := map (fun nk => n_id (snd nk)) nets.

Definition state_ok (st : state) : Prop :=
  (exists nv nh na, nets_arch (s_nets st) = kind_arch (s_kind st) nv nh na) /\
  (s_ud st <> None <-> s_kind st <> Positive).
Definition md_ok (m : list (key * val)) : Prop := NoDup (map fst m).
Definition wf (H : heap) : Prop :=
  Forall (fun kv => state_ok (snd kv)) (h_states H) /\ Forall (fun kv => md_ok (snd kv)) (h_mds H).

Lemma net_arch_names_nodup k nv nh na : NoDup (map fst (net_arch k nv nh na)).
Proof.
  destruct k; simpl; repeat constructor; simpl; unfold P_WEIGHTS, P_VB, P_HB, P_WW, P_WU, P_AB;
    intuition discriminate.
Qed.

Lemma kind_arch_names k nv nh na : map fst (kind_arch k nv nh na) = net_names k.
Proof. unfold kind_arch. rewrite map_map; simpl. apply map_id. Qed.

Lemma net_names_nodup k : NoDup (net_names k).
Proof. destruct k; simpl; repeat constructor; simpl; unfold K_AM, K_PH; intuition discriminate. Qed.

Lemma nets_arch_names nets : map fst (nets_arch nets) = map fst nets.
Proof. unfold nets_arch. rewrite map_map. reflexivity. Qed.

Lemma state_ok_names st : state_ok st -> map fst (s_nets st) = net_names (s_kind st).
Proof. intros [[nv [nh [na H]]] _]. rewrite <- nets_arch_names, H. apply kind_arch_names. Qed.

Lemma state_ok_param_names st nm n :
  state_ok st -> In (nm, n) (s_nets st) -> NoDup (map p_name (n_params n)).
Proof.
  intros [[nv [nh [na H]]] _] Hin.
  assert (In (nm, params_arch (n_params n)) (nets_arch (s_nets st))).
  { unfold nets_arch. apply in_map_iff. exists (nm, n). split; [reflexivity | exact Hin]. }
  rewrite H in H0. unfold kind_arch in H0. apply in_map_iff in H0. destruct H0 as [x [Hx _]].
  injection Hx as _ Ha.
  replace (map p_name (n_params n)) with (map fst (params_arch (n_params n)))
    by (unfold params_arch; rewrite map_map; reflexivity).
  rewrite <- Ha. apply net_arch_names_nodup.
Qed.

(* ------------------------------------------------------------------ save *)
Lemma md_copy_some m : md_copy (Some m) = md_as_fvals m.
Proof. destruct m; reflexivity. Qed.

(* what an accepted save writes, key by key *)
Lemma save_data_lookup st m c :
  NoDup (map fst (s_nets st)) -> md_ok m ->
  save_data st (Some m) = Some c ->
  (forall nm n, assoc nm (s_nets st) = Some n -> assoc nm c = Some (FNet (n_params n))) /\
  (forall u, s_ud st = Some u -> assoc K_UD c = Some u) /\
  (forall k v, assoc k m = Some v -> assoc k c = Some (FVal v)) /\
  (forall k, assoc k (s_nets st) = None -> assoc k m = None -> (k <> K_UD \/ s_ud st = None) -> assoc k c = None).
Proof.
  intros Hnn Hmd. unfold save_data.
  rewrite md_copy_some.
  set (md1o := match s_ud st with
               | Some u => if has_key K_UD (md_as_fvals m) then None else Some (dict_set K_UD u (md_as_fvals m))
               | None => Some (md_as_fvals m) end).
  destruct md1o as [md1|] eqn:E1; [|intros; discriminate].
  destruct (existsb (fun nk => has_key (fst nk) md1) (s_nets st)) eqn:Eex; [intros; discriminate|].
  intros Hc; inversion Hc; subst c; clear Hc.
  assert (Hnd1 : NoDup (map fst md1)).
  { subst md1o. destruct (s_ud st).
    - destruct (has_key K_UD (md_as_fvals m)); [intros; discriminate|]. inversion E1; subst.
      apply nodup_set. unfold md_as_fvals. rewrite keys_map. exact Hmd.
    - inversion E1; subst. unfold md_as_fvals. rewrite keys_map. exact Hmd. }
  assert (Hnets_notin : forall nm n, assoc nm (s_nets st) = Some n -> assoc nm md1 = None).
  { intros nm n Ha. apply assoc_in in Ha.
    destruct (assoc nm md1) eqn:E; [|reflexivity]. exfalso.
    assert (existsb (fun nk => has_key (fst nk) md1) (s_nets st) = true).
    { apply existsb_exists. exists (nm, n). split; [exact Ha|]. simpl. unfold has_key. rewrite E. reflexivity. }
    congruence. }
  assert (Hdata : forall k, assoc k (map (fun nk => (fst nk, FNet (n_params (snd nk)))) (s_nets st))
                            = option_map (fun n => FNet (n_params n)) (assoc k (s_nets st))).
  { intros k. apply (assoc_map (fun n => FNet (n_params n))). }
  repeat split.
  - intros nm n Ha. rewrite (assoc_update _ _ _ Hnd1), (Hnets_notin _ _ Ha), Hdata, Ha. reflexivity.
  - intros u Hu. rewrite (assoc_update _ _ _ Hnd1). subst md1o. rewrite Hu in E1.
    destruct (has_key K_UD (md_as_fvals m)); [intros; discriminate|]. inversion E1; subst.
    rewrite assoc_set_eq. reflexivity.
  - intros k v Ha. rewrite (assoc_update _ _ _ Hnd1).
    assert (Hm : assoc k (md_as_fvals m) = Some (FVal v)).
    { unfold md_as_fvals. rewrite (assoc_map FVal), Ha. reflexivity. }
    subst md1o. destruct (s_ud st).
    + destruct (has_key K_UD (md_as_fvals m)) eqn:Eh; [intros; discriminate|]. inversion E1; subst.
      assert (k <> K_UD).
      { intros ->. unfold has_key in Eh. rewrite Hm in Eh. discriminate. }
      rewrite (assoc_set_neq _ _ _ _ H), Hm. reflexivity.
    + inversion E1; subst. rewrite Hm. reflexivity.
  - intros k Hk Hm Hud. rewrite (assoc_update _ _ _ Hnd1), Hdata, Hk. simpl.
    assert (Hm' : assoc k (md_as_fvals m) = None).
    { unfold md_as_fvals. rewrite (assoc_map FVal), Hm. reflexivity. }
    subst md1o. destruct (s_ud st) eqn:Eu.
    + destruct (has_key K_UD (md_as_fvals m)); [intros; discriminate|]. inversion E1; subst.
      destruct Hud as [Hud|Hud]; [|intros; discriminate].
      rewrite (assoc_set_neq _ _ _ _ Hud), Hm'. reflexivity.
    + inversion E1; subst. rewrite Hm'. reflexivity.
Qed.

(* reserved keys are refused *)
Lemma save_refuses_unitary_dict_key st m :
  s_ud st <> None -> assoc K_UD m <> None -> save_data st (Some m) = None.
Proof.
  intros Hu Hk. unfold save_data.
  rewrite md_copy_some.
  destruct (s_ud st); [|congruence].
  unfold has_key, md_as_fvals. rewrite (assoc_map FVal). destruct (assoc K_UD m); [reflexivity | congruence].
Qed.

Lemma save_refuses_network_key st m nm :
  In nm (map fst (s_nets st)) -> assoc nm m <> None -> save_data st (Some m) = None.
Proof.
  intros Hin Hk. unfold save_data.
  rewrite md_copy_some.
  assert (Hm : assoc nm (md_as_fvals m) <> None).
  { unfold md_as_fvals. rewrite (assoc_map FVal). destruct (assoc nm m); [discriminate | congruence]. }
  apply in_map_iff in Hin. destruct Hin as [[nm' n] [Hfst Hin]]. simpl in Hfst; subst nm'.
  destruct (s_ud st).
  - destruct (has_key K_UD (md_as_fvals m)); [reflexivity|].
    replace (existsb (fun nk => has_key (fst nk) (dict_set K_UD f (md_as_fvals m))) (s_nets st)) with true; [reflexivity|].
    symmetry. apply existsb_exists. exists (nm, n). split; [exact Hin|]. simpl. unfold has_key.
    destruct (Nat.eq_dec nm K_UD) as [->|Hne]; [rewrite assoc_set_eq; reflexivity|].
    rewrite (assoc_set_neq _ _ _ _ Hne). destruct (assoc nm (md_as_fvals m)); [reflexivity | congruence].
  - replace (existsb (fun nk => has_key (fst nk) (md_as_fvals m)) (s_nets st)) with true; [reflexivity|].
    symmetry. apply existsb_exists. exists (nm, n). split; [exact Hin|]. simpl. unfold has_key.
    destruct (assoc nm (md_as_fvals m)); [reflexivity | congruence].
Qed.

(* ------------------------------------------------------------------ load_state_dict *)
Lemma shape_eqb_refl a : shape_eqb a a = true.
Proof. induction a; simpl; [reflexivity | rewrite Nat.eqb_refl; exact IHa]. Qed.

Lemma find_param_nodup src : NoDup (map p_name src) -> forall q, In q src -> find_param (p_name q) src = Some q.
Proof.
  induction src as [|a r IH]; simpl; intros Hnd q Hin; [contradiction|].
  inversion Hnd as [|? ? Hni Hnd']; subst.
  destruct Hin as [->|Hin]; [rewrite Nat.eqb_refl; reflexivity|].
  destruct (p_name q =? p_name a) eqn:E.
  - apply Nat.eqb_eq in E. exfalso. apply Hni. rewrite <- E. apply in_map. exact Hin.
  - apply IH; assumption.
Qed.

Lemma load_params_same_arch src : forall tgt tl,
  params_arch tgt = params_arch tl -> (forall q, In q tl -> find_param (p_name q) src = Some q) ->
  map (load_param src) tgt = map (fun q => (q, true)) tl.
Proof.
  induction tgt as [|p tgt IH]; intros [|q tl] Ha Hf; simpl in *; try discriminate; [reflexivity|].
  unfold params_arch, pks in Ha; simpl in Ha; injection Ha as Hn Hs Hr. unfold pks in *.
  f_equal; [| apply IH; [exact Hr | intros; apply Hf; right; assumption]].
  unfold load_param. rewrite Hn, (Hf q (or_introl eq_refl)), Hs, shape_eqb_refl.
  destruct q; reflexivity.
Qed.

Lemma load_state_dict_same_arch tgt src :
  params_arch tgt = params_arch src -> NoDup (map p_name src) ->
  load_state_dict tgt src = (src, true).
Proof.
  intros Ha Hnd. unfold load_state_dict.
  rewrite (load_params_same_arch src tgt src Ha (find_param_nodup src Hnd)).
  rewrite !map_map; simpl. rewrite map_id. f_equal.
  apply andb_true_iff; split.
  - apply forallb_forall. intros x Hx. apply in_map_iff in Hx. destruct Hx as [q [<- _]]. reflexivity.
  - apply forallb_forall. intros q Hq. apply existsb_exists.
    assert (In (p_name q) (map p_name tgt)).
    { replace (map p_name tgt) with (map fst (params_arch tgt)) by (unfold params_arch; rewrite map_map; reflexivity).
      rewrite Ha. unfold params_arch. rewrite map_map. apply in_map_iff. exists q. split; [reflexivity | exact Hq]. }
    apply in_map_iff in H. destruct H as [p [Hp Hin]]. exists p. split; [exact Hin | rewrite Hp; apply Nat.eqb_refl].
Qed.

(* load_state_dict never changes names or shapes (even when it fails half-way) *)
Lemma load_param_arch src p : pks (fst (load_param src p)) = pks p.
Proof.
  unfold load_param. destruct (find_param (p_name p) src); [|reflexivity].
  destruct (shape_eqb (p_shape p) (p_shape p0)); reflexivity.
Qed.

Lemma load_state_dict_arch tgt src : params_arch (fst (load_state_dict tgt src)) = params_arch tgt.
Proof.
  unfold load_state_dict, params_arch; simpl. rewrite !map_map.
  apply map_ext. intros p. apply load_param_arch.
Qed.

Lemma load_nets_cons lk nm n rest :
  load_nets lk ((nm, n) :: rest) =
  match lk nm with
  | None => ((nm, n) :: rest, Err EKey)
  | Some (FNet src) =>
      let r := load_state_dict (n_params n) src in
      let n' := mkNet (n_id n) (fst r) in
      if snd r then let rr := load_nets lk rest in ((nm, n') :: fst rr, snd rr)
      else ((nm, n') :: rest, Err ERuntime)
  | Some (FDict _) => ((nm, n) :: rest, Err ERuntime)
  | Some (FVal _) => ((nm, n) :: rest, Err EOther)
  end.
Proof. reflexivity. Qed.

Lemma load_nets_arch lk nets : nets_arch (fst (load_nets lk nets)) = nets_arch nets.
Proof.
  induction nets as [|[nm n] r IH]; [reflexivity|]. rewrite load_nets_cons.
  destruct (lk nm) as [[src|d|v]|]; try reflexivity.
  pose proof (load_state_dict_arch (n_params n) src) as HA.
  destruct (load_state_dict (n_params n) src) as [ps ok]. cbn [fst snd] in *.
  destruct ok; cbn [fst snd nets_arch map n_params]; rewrite HA; [fold (nets_arch (fst (load_nets lk r))); rewrite IH|]; reflexivity.
Qed.

Lemma load_nets_ids lk nets : nets_ids (fst (load_nets lk nets)) = nets_ids nets.
Proof.
  induction nets as [|[nm n] r IH]; [reflexivity|]. rewrite load_nets_cons.
  destruct (lk nm) as [[src|d|v]|]; try reflexivity.
  destruct (load_state_dict (n_params n) src) as [ps ok]. cbn [fst snd].
  destruct ok; cbn [fst snd nets_ids map n_id]; [fold (nets_ids (fst (load_nets lk r))); rewrite IH|]; reflexivity.
Qed.

(* loading networks whose saved counterparts have the same architecture succeeds and copies every parameter *)
Lemma load_nets_same_arch lk : forall nets saved,
  nets_arch nets = nets_arch saved ->
  (forall nm n0, In (nm, n0) saved -> lk nm = Some (FNet (n_params n0)) /\ NoDup (map p_name (n_params n0))) ->
  snd (load_nets lk nets) = Ok /\ nets_params (fst (load_nets lk nets)) = nets_params saved.
Proof.
  induction nets as [|[nm n] r IH]; intros [|[nm0 n0] saved] Ha Hs; try discriminate.
  - split; reflexivity.
  - unfold nets_arch in Ha; cbn [map fst snd] in Ha; injection Ha as Hnm Hpa Hr. subst nm0.
    destruct (Hs nm n0 (or_introl eq_refl)) as [Hlk Hnd]. rewrite load_nets_cons, Hlk.
    rewrite (load_state_dict_same_arch _ _ Hpa Hnd). cbn [fst snd].
    destruct (IH saved Hr (fun a b H => Hs a b (or_intror H))) as [Hok Hp].
    split; [exact Hok|]. unfold nets_params in *. cbn [map fst snd n_params]. rewrite Hp. reflexivity.
Qed.

Lemma load_state_ok lk st : state_ok st -> state_ok (fst (load_state lk st)).
Proof.
  intros [[nv [nh [na Ha]]] Hud]. unfold load_state.
  destruct (snd (load_nets lk (s_nets st))) eqn:E; simpl; (split; [exists nv, nh, na; simpl; rewrite load_nets_arch; exact Ha|]); simpl.
  - destruct (s_ud st) as [u|] eqn:Eu; [destruct (lk K_UD) |]; (split; intros H; [apply Hud | ]; try discriminate; try congruence).
    exfalso. apply Hud in H. congruence.
  - exact Hud.
Qed.

(* ------------------------------------------------------------------ operations preserve well-formedness *)
Lemma set_vals_arch ps vs : params_arch (set_vals ps vs) = params_arch ps.
Proof. revert vs; induction ps as [|p ps IH]; intros [|v vs]; simpl; try reflexivity. rewrite IH; reflexivity. Qed.

Lemma set_net_vals_arch nets vss : nets_arch (set_net_vals nets vss) = nets_arch nets.
Proof.
  revert vss; induction nets as [|[nm n] r IH]; intros [|vs vss]; simpl; try reflexivity.
  rewrite set_vals_arch, IH; reflexivity.
Qed.

Lemma fresh_params_arch pa : params_arch (map (fun x : key * list nat => mkParam (fst x) (snd x) 0) pa) = pa.
Proof. induction pa as [|[x y] pa IHp]; simpl; [reflexivity | unfold pks at 1; simpl; rewrite IHp; reflexivity]. Qed.

Lemma fresh_nets_arch a : forall id, nets_arch (fresh_nets id a) = a.
Proof.
  induction a as [|[nm pa] r IH]; intros id; simpl; [reflexivity|].
  rewrite fresh_params_arch. unfold nets_arch in IH. rewrite IH. reflexivity.
Qed.

Lemma fresh_nets_ids a : forall id i, In i (nets_ids (fresh_nets id a)) -> id <= i.
Proof.
  induction a as [|[nm pa] r IH]; intros id i; simpl; [contradiction|].
  intros [<-|H]; [lia|]. apply IH in H. lia.
Qed.

Lemma fresh_nets_arch_kind id k nv nh na : nets_arch (fresh_nets id (kind_arch k nv nh na)) = kind_arch k nv nh na.
Proof. apply fresh_nets_arch. Qed.

Lemma autoload_ud_kind k lk u0 ud : autoload_ud_arg k lk = inl u0 -> ctor_ud u0 = inl ud -> (ud <> None <-> k <> Positive).
Proof.
  unfold autoload_ud_arg, ctor_ud. destruct k.
  - intros H; inversion H; subst. intros H2; inversion H2; subst. split; congruence.
  - destruct (lk K_UD) as [[?|[|? ?]|?]|]; intros H; inversion H; subst; intros H2; inversion H2; subst; split; intros; discriminate.
  - destruct (lk K_UD) as [[?|[|? ?]|?]|]; intros H; inversion H; subst; intros H2; inversion H2; subst; split; intros; discriminate.
Qed.

Lemma load_state_kind lk st : s_kind (fst (load_state lk st)) = s_kind st.
Proof. unfold load_state. destruct (snd (load_nets lk (s_nets st))); reflexivity. Qed.

Lemma autoload_ok k lk id st r : autoload k lk id = (Some st, r) -> state_ok st /\ r = Ok /\ s_kind st = k.
Proof.
  unfold autoload.
  destruct (autoload_ud_arg k lk) as [u0|e] eqn:Eu0; [|intros; discriminate].
  destruct (dim0 lk K_AM P_VB) as [nv|e]; [|intros; discriminate].
  destruct (dim0 lk K_AM P_HB) as [nh|e]; [|intros; discriminate].
  destruct (autoload_na k lk) as [na|e]; [|intros; discriminate].
  destruct (ctor_ud u0) as [ud|e] eqn:Eud; [|intros; discriminate].
  set (st0 := mkState k (fresh_nets (id) (kind_arch k nv nh na)) ud).
  assert (Hok0 : state_ok st0).
  { split; [exists nv, nh, na; apply fresh_nets_arch_kind|]. simpl. exact (autoload_ud_kind _ _ _ _ Eu0 Eud). }
  destruct (snd (load_state lk st0)) eqn:E; [|intros; discriminate].
  intros H; inversion H; subst. split; [apply load_state_ok; exact Hok0|]. split; [reflexivity|].
  apply load_state_kind.
Qed.

Lemma run_op_wf o H : wf H -> wf (fst (run_op o H)).
Proof.
  intros [Hs Hm]. destruct o; simpl.
  - destruct (assoc s (h_states H)) eqn:E; simpl; [|split; assumption]. split; [|exact Hm]. simpl.
    apply Forall_set; [exact Hs|]. pose proof (Forall_assoc _ _ _ _ Hs E) as [[nv [nh [na Ha]]] Hu].
    split; simpl; [exists nv, nh, na; rewrite set_net_vals_arch; exact Ha | exact Hu].
  - destruct (assoc s (h_states H)) eqn:E; simpl; [|split; assumption]. split; [|exact Hm]. simpl.
    apply Forall_set; [exact Hs|]. pose proof (Forall_assoc _ _ _ _ Hs E) as [[nv [nh [na Ha]]] Hu].
    split; simpl; [exists nv, nh, na; rewrite set_net_vals_arch; exact Ha | exact Hu].
  - destruct (assoc s (h_states H)) eqn:E; simpl; [|split; assumption].
    destruct (s_ud s0) as [[?|d|?]|] eqn:Eu; simpl; try (split; assumption). split; [|exact Hm]. simpl.
    apply Forall_set; [exact Hs|]. pose proof (Forall_assoc _ _ _ _ Hs E) as [Ha Hu].
    split; simpl; [exact Ha|]. rewrite Eu in Hu. split; intros; [apply Hu; discriminate | discriminate].
  - destruct (assoc s (h_states H)); simpl; [|split; assumption].
    destruct (save_data s0 (md_content H md)); simpl; split; assumption.
  - split; assumption.
  - destruct (assoc s (h_states H)) eqn:E; simpl; [|split; assumption].
    destruct (assoc f (h_files H)); simpl; [|split; assumption]. split; [|exact Hm]. simpl.
    apply Forall_set; [exact Hs|]. apply load_state_ok. exact (Forall_assoc _ _ _ _ Hs E).
  - destruct (assoc f (h_files H)); simpl; [|split; assumption].
    destruct (autoload k (fun x => assoc x f0) (h_next H)) as [[st|] r] eqn:E; simpl; [|split; assumption].
    split; [|exact Hm]. simpl. apply Forall_set; [exact Hs|]. exact (proj1 (autoload_ok _ _ _ _ _ E)).
  - split; [exact Hs|]. simpl. apply Forall_set; [exact Hm|].
    unfold md_ok. apply nodup_set.
    destruct (assoc md (h_mds H)) eqn:E; [exact (Forall_assoc _ _ _ _ Hm E) | constructor].
Qed.

Lemma run_wf h : forall H, wf H -> wf (fst (run h H)).
Proof. induction h as [|o h IH]; intros H Hw; simpl; [exact Hw | apply IH, run_op_wf, Hw]. Qed.

(* ------------------------------------------------------------------ frames *)
(* only writes touch a file *)
Lemma run_op_file_frame o H f : writes_to o <> Some f -> assoc f (h_files (fst (run_op o H))) = assoc f (h_files H).
Proof.
  intros Hw. destruct o; simpl in *;
    repeat match goal with
           | |- context [match ?x with _ => _ end] => destruct x; simpl
           end; try reflexivity.
  all: apply assoc_set_neq; congruence.
Qed.

Lemma run_file_frame h : forall H f, no_write f h -> assoc f (h_files (fst (run h H))) = assoc f (h_files H).
Proof.
  induction h as [|o h IH]; intros H f Hn; simpl; [reflexivity|].
  inversion Hn; subst. rewrite IH by assumption. apply run_op_file_frame. assumption.
Qed.

(* save changes nothing but the file store *)
Lemma save_frame s f md H : let H' := fst (run_op (Save s f md) H) in
  h_states H' = h_states H /\ h_mds H' = h_mds H /\ h_next H' = h_next H.
Proof.
  simpl. destruct (assoc s (h_states H)); simpl; [|repeat split].
  destruct (save_data s0 (md_content H md)); simpl; repeat split.
Qed.

Lemma save_error_no_effect s f md H e : snd (run_op (Save s f md) H) = Err e -> fst (run_op (Save s f md) H) = H.
Proof.
  simpl. destruct (assoc s (h_states H)); simpl; [|reflexivity].
  destruct (save_data s0 (md_content H md)); simpl; [discriminate | reflexivity].
Qed.

(* ------------------------------------------------------------------ C11.2  save is pure *)
Fixpoint iter_save (n : nat) s f md (H : heap) : heap * list res :=
  match n with
  | O => (H, [])
  | S n' => let a := run_op (Save s f md) H in let b := iter_save n' s f md (fst a) in (fst b, snd a :: snd b)
  end.

Lemma save_content s f md H :
  snd (run_op (Save s f md) H) = Ok ->
  exists st c, assoc s (h_states H) = Some st /\ save_data st (md_content H md) = Some c /\
               fst (run_op (Save s f md) H) = upd_files H (dict_set f c (h_files H)).
Proof.
  simpl. destruct (assoc s (h_states H)) as [st|]; simpl; [|intros; discriminate].
  destruct (save_data st (md_content H md)) as [c|] eqn:E; simpl; [|intros; discriminate].
  intros _. exists st, c. split; [reflexivity|]. split; [exact E | reflexivity].
Qed.

Lemma save_is_pure_lemma s f md H :
  snd (run_op (Save s f md) H) = Ok ->
  let H1 := fst (run_op (Save s f md) H) in
  h_states H1 = h_states H /\ h_mds H1 = h_mds H /\
  forall n f', let r := iter_save n s f' md H1 in
     Forall (fun x => x = Ok) (snd r) /\
     h_states (fst r) = h_states H /\ h_mds (fst r) = h_mds H /\
     (n <> 0 -> assoc f' (h_files (fst r)) = assoc f (h_files H1)).
Proof.
  intros Hok. destruct (save_content _ _ _ _ Hok) as [st [c [Hst [Hc HH1]]]].
  split; [rewrite HH1; reflexivity|]. split; [rewrite HH1; reflexivity|].
  intros n f'.
  assert (Hf1 : assoc f (h_files (fst (run_op (Save s f md) H))) = Some c).
  { rewrite HH1; simpl. apply assoc_set_eq. }
  rewrite Hf1.
  assert (Gen : forall n H2, h_states H2 = h_states H -> h_mds H2 = h_mds H ->
            let r := iter_save n s f' md H2 in
            Forall (fun x => x = Ok) (snd r) /\ h_states (fst r) = h_states H /\ h_mds (fst r) = h_mds H /\
            (n <> 0 -> assoc f' (h_files (fst r)) = Some c)).
  { clear n. induction n as [|n IH]; intros H2 Hs2 Hm2; simpl.
    - repeat split; [constructor | assumption | assumption | congruence].
    - assert (Hmd : md_content H2 md = md_content H md) by (unfold md_content; rewrite Hm2; reflexivity).
      rewrite Hs2, Hst, Hmd, Hc. simpl.
      set (H3 := upd_files H2 (dict_set f' c (h_files H2))).
      destruct (IH H3) as [A [B [C D]]]; [exact Hs2 | exact Hm2|].
      repeat split; [constructor; [reflexivity | exact A] | exact B | exact C|].
      intros _. destruct n as [|n']; [simpl; apply assoc_set_eq | apply D; discriminate]. }
  apply Gen; rewrite HH1; reflexivity.
Qed.

(* ------------------------------------------------------------------ C11.1  load after save *)
Definition arch_of (st : state) := nets_arch (s_nets st).

Lemma file_after_save_and_history H0 h1 s f md h2 :
  let H1 := fst (run h1 H0) in
  snd (run_op (Save s f md) H1) = Ok ->
  no_write f h2 ->
  let H3 := fst (run h2 (fst (run_op (Save s f md) H1))) in
  exists st c, assoc s (h_states H1) = Some st /\ save_data st (md_content H1 md) = Some c /\
               assoc f (h_files H3) = Some c.
Proof.
  intros H1 Hok Hnw H3.
  destruct (save_content _ _ _ _ Hok) as [st [c [Hst [Hc HH2]]]].
  exists st, c. split; [exact Hst|]. split; [exact Hc|].
  subst H3. rewrite run_file_frame by exact Hnw. rewrite HH2. simpl. apply assoc_set_eq.
Qed.

(* normal form of the metadata argument: None and the empty dict write the same thing *)
Definition md_list (o : option (list (key * val))) : list (key * val) := match o with Some m => m | None => [] end.
Lemma save_data_md_list st o : save_data st o = save_data st (Some (md_list o)).
Proof. destruct o; reflexivity. Qed.

Lemma md_content_ok H md : wf H -> md_ok (md_list (md_content H md)).
Proof.
  intros [_ Hm]. unfold md_content. destruct md as [m|]; [|constructor].
  destruct (assoc m (h_mds H)) eqn:E; [exact (Forall_assoc _ _ _ _ Hm E) | constructor].
Qed.

Lemma load_from_saved st st' c m :
  state_ok st -> state_ok st' -> md_ok m ->
  save_data st (Some m) = Some c ->
  arch_of st' = arch_of st ->
  let r := load_state (fun k => assoc k c) st' in
  snd r = Ok /\ nets_params (s_nets (fst r)) = nets_params (s_nets st) /\
  nets_ids (s_nets (fst r)) = nets_ids (s_nets st') /\ s_kind (fst r) = s_kind st' /\
  (s_ud st' <> None -> s_ud st <> None -> s_ud (fst r) = s_ud st) /\
  (s_ud st' = None -> s_ud (fst r) = None).
Proof.
  intros Hok Hok' Hmd Hc Ha r.
  assert (Hnn : NoDup (map fst (s_nets st))) by (rewrite (state_ok_names _ Hok); apply net_names_nodup).
  destruct (save_data_lookup _ _ _ Hnn Hmd Hc) as [Hnets [Hud _]].
  assert (Hs : forall nm n0, In (nm, n0) (s_nets st) ->
             assoc nm c = Some (FNet (n_params n0)) /\ NoDup (map p_name (n_params n0))).
  { intros nm n0 Hin. split; [|exact (state_ok_param_names _ _ _ Hok Hin)].
    apply Hnets. clear - Hnn Hin. induction (s_nets st) as [|[k v] l IH]; simpl in *; [contradiction|].
    inversion Hnn; subst. destruct Hin as [Hin|Hin].
    - inversion Hin; subst. rewrite Nat.eqb_refl. reflexivity.
    - destruct (nm =? k) eqn:E; [|apply IH; assumption].
      apply Nat.eqb_eq in E; subst. exfalso. apply H1. apply in_map_iff. exists (k, n0). split; [reflexivity | exact Hin]. }
  destruct (load_nets_same_arch (fun k => assoc k c) (s_nets st') (s_nets st) Ha Hs) as [HOk Hp].
  subst r. unfold load_state. rewrite HOk. simpl.
  repeat split; try assumption.
  - apply load_nets_ids.
  - intros H1 H2. destruct (s_ud st') as [u'|]; [|congruence]. destruct (s_ud st) as [u|] eqn:Eu; [|congruence].
    rewrite (Hud u eq_refl). reflexivity.
  - intros H1. rewrite H1. reflexivity.
Qed.

Theorem load_after_save_lemma H0 h1 s f md h2 s' :
  wf H0 ->
  let H1 := fst (run h1 H0) in
  snd (run_op (Save s f md) H1) = Ok ->
  no_write f h2 ->
  let H3 := fst (run h2 (fst (run_op (Save s f md) H1))) in
  forall st st', assoc s (h_states H1) = Some st -> assoc s' (h_states H3) = Some st' ->
  arch_of st' = arch_of st ->
  let r := run_op (Load s' f) H3 in
  snd r = Ok /\
  exists st'', assoc s' (h_states (fst r)) = Some st'' /\
    nets_params (s_nets st'') = nets_params (s_nets st) /\
    arch_of st'' = arch_of st /\
    nets_ids (s_nets st'') = nets_ids (s_nets st') /\
    (s_ud st' <> None -> s_ud st <> None -> s_ud st'' = s_ud st) /\
    (forall f', assoc f' (h_files (fst r)) = assoc f' (h_files H3)).
Proof.
  intros Hwf H1 Hok Hnw H3 st st' Hst Hst' Ha r.
  destruct (file_after_save_and_history H0 h1 s f md h2 Hok Hnw) as [st1 [c [Hst1 [Hc Hf]]]].
  change (fst (run h1 H0)) with H1 in Hst1, Hc, Hf.
  change (fst (run h2 (fst (run_op (Save s f md) H1)))) with H3 in Hf.
  rewrite Hst in Hst1. inversion Hst1; subst st1.
  assert (Hwf1 : wf H1) by (apply run_wf; exact Hwf).
  assert (Hwf3 : wf H3) by (apply run_wf, run_op_wf; exact Hwf1).
  assert (Hsok : state_ok st) by exact (Forall_assoc _ _ _ _ (proj1 Hwf1) Hst).
  assert (Hsok' : state_ok st') by exact (Forall_assoc _ _ _ _ (proj1 Hwf3) Hst').
  rewrite save_data_md_list in Hc.
  destruct (load_from_saved st st' c _ Hsok Hsok' (md_content_ok H1 md Hwf1) Hc Ha) as [A [B [C [D [E F]]]]].
  subst r. simpl. rewrite Hst', Hf. simpl. split; [exact A|].
  eexists. split; [apply assoc_set_eq|]. split; [exact B|]. split.
  - unfold arch_of. unfold load_state. destruct (snd (load_nets _ _)); simpl; rewrite load_nets_arch; exact Ha.
  - split; [exact C|]. split; [exact E|]. intros f'. reflexivity.
Qed.

(* the sizes inferred from the bias lengths rebuild the saved architecture *)
Lemma dim0_saved lk k nv nh na ps :
  lk K_AM = Some (FNet ps) -> params_arch ps = net_arch k nv nh na ->
  dim0 lk K_AM P_VB = inl nv /\
  (exists nh', dim0 lk K_AM P_HB = inl nh' /\ net_arch k nv nh' na = net_arch k nv nh na) /\
  (k = Mixed -> dim0 lk K_AM P_AB = inl na).
Proof.
  intros Hlk Ha. unfold dim0. rewrite Hlk.
  destruct k; simpl in Ha; unfold binary_arch, purif_arch in Ha.
  1,2: destruct ps as [|p1 [|p2 [|p3 [|? ?]]]]; try discriminate; unfold params_arch, pks in Ha; simpl in Ha; injection Ha as N1 S1 N2 S2 N3 S3;
       simpl; rewrite N1, N2, N3; simpl; rewrite S2, S3; split; [reflexivity|]; split; try discriminate;
       exists (if nh =? 0 then nv else nh); split; [reflexivity|]; simpl; unfold binary_arch;
       destruct (nh =? 0) eqn:E; [destruct (nv =? 0) eqn:E2; [apply Nat.eqb_eq in E2; subst; reflexivity | reflexivity] | rewrite E; reflexivity].
  destruct ps as [|p1 [|p2 [|p3 [|p4 [|p5 [|? ?]]]]]]; try discriminate.
  unfold params_arch, pks in Ha; simpl in Ha; injection Ha as N1 S1 N2 S2 N3 S3 N4 S4 N5 S5.
  simpl; rewrite N1, N2, N3, N4, N5; simpl; rewrite S3, S4, S5. split; [reflexivity|]. split; [|reflexivity].
  exists nh. split; reflexivity.
Qed.


Lemma load_state_arch lk st : arch_of (fst (load_state lk st)) = arch_of st.
Proof. unfold arch_of, load_state. destruct (snd (load_nets lk (s_nets st))); simpl; apply load_nets_arch. Qed.

(* the state's unitary_dict attribute is a dictionary (always true for constructor-built states) *)
Definition ud_is_dict (st : state) : Prop :=
  match s_ud st with Some (FDict _) | None => True | Some _ => False end.

Lemma autoload_from_saved st c m id :
  state_ok st -> md_ok m -> ud_is_dict st -> save_data st (Some m) = Some c ->
  exists st'', autoload (s_kind st) (fun x => assoc x c) id = (Some st'', Ok) /\
    s_kind st'' = s_kind st /\ nets_params (s_nets st'') = nets_params (s_nets st) /\
    arch_of st'' = arch_of st /\ s_ud st'' = s_ud st /\
    (forall i, In i (nets_ids (s_nets st'')) -> id <= i).
Proof.
  intros Hsok Hmd Hdict Hc.
  assert (Hnn : NoDup (map fst (s_nets st))) by (rewrite (state_ok_names _ Hsok); apply net_names_nodup).
  destruct (save_data_lookup _ _ _ Hnn Hmd Hc) as [Hnets [Hud _]].
  pose proof Hsok as [[nv [nh [na Harch]]] Hudk].
  assert (Ham : exists n, assoc K_AM (s_nets st) = Some n /\ params_arch (n_params n) = net_arch (s_kind st) nv nh na).
  { unfold nets_arch, kind_arch in Harch. destruct (s_nets st) as [|[nm n] rest]; [destruct (s_kind st); discriminate|].
    destruct (s_kind st); simpl in Harch; injection Harch as E1 E2 E3; subst nm; exists n; simpl; split; reflexivity || assumption. }
  destruct Ham as [nam [Ham Hamarch]].
  destruct (dim0_saved (fun x => assoc x c) (s_kind st) nv nh na (n_params nam) (Hnets _ _ Ham) Hamarch)
    as [Dv [[nh' [Dh Dheq]] Da]].
  assert (Hkeq : forall na', (s_kind st = Mixed -> na' = na) ->
                 kind_arch (s_kind st) nv nh' na' = kind_arch (s_kind st) nv nh na).
  { intros na' Hna. unfold kind_arch. apply map_ext. intros nm. f_equal. rewrite <- Dheq.
    destruct (s_kind st) eqn:Ek; simpl; try reflexivity. rewrite (Hna eq_refl). reflexivity. }
  assert (Hud0 : exists u0 ud, autoload_ud_arg (s_kind st) (fun x => assoc x c) = inl u0 /\ ctor_ud u0 = inl ud).
  { unfold autoload_ud_arg. destruct (s_kind st) eqn:Ek; [exists None, None; split; reflexivity | |].
    all: unfold ud_is_dict in Hdict; destruct (s_ud st) as [[?|d|?]|] eqn:Eu; try contradiction;
      [rewrite (Hud _ eq_refl); destruct d as [|? ?]; eexists; eexists; split; reflexivity
      | exfalso; apply (proj2 Hudk); [discriminate | reflexivity]]. }
  destruct Hud0 as [u0 [ud [Hu0 Hud0]]].
  assert (Hna : exists na', autoload_na (s_kind st) (fun x => assoc x c) = inl na' /\ (s_kind st = Mixed -> na' = na)).
  { unfold autoload_na. destruct (s_kind st) eqn:Ek; [exists 0 | exists 0 | exists na]; split; try reflexivity; try discriminate.
    apply Da; reflexivity. }
  destruct Hna as [na' [Hna Hna2]].
  unfold autoload. rewrite Hu0, Dv, Dh, Hna, Hud0.
  set (st0 := mkState (s_kind st) (fresh_nets id (kind_arch (s_kind st) nv nh' na')) ud).
  assert (Hok0 : state_ok st0).
  { split; [exists nv, nh', na'; apply fresh_nets_arch_kind | simpl; exact (autoload_ud_kind _ _ _ _ Hu0 Hud0)]. }
  assert (Ha0 : arch_of st0 = arch_of st).
  { unfold arch_of; simpl. rewrite fresh_nets_arch_kind, (Hkeq na' Hna2). symmetry; exact Harch. }
  destruct (load_from_saved st st0 c m Hsok Hok0 Hmd Hc Ha0) as [A [B [C [D [E F]]]]].
  cbv zeta. rewrite A. eexists; split; [reflexivity|].
  split; [exact D|]. split; [exact B|]. split; [rewrite load_state_arch; exact Ha0|]. split.
  - destruct (s_ud st) as [u|] eqn:Eu.
    + apply E; [|discriminate]. apply (autoload_ud_kind _ _ _ _ Hu0 Hud0). apply Hudk. discriminate.
    + apply F. simpl. destruct ud as [u|]; [|reflexivity]. exfalso.
      assert (Some u <> None) as Hn by discriminate. apply (autoload_ud_kind _ _ _ _ Hu0 Hud0) in Hn. apply Hudk in Hn. congruence.
  - intros i Hi. rewrite C in Hi. simpl in Hi. exact (fresh_nets_ids _ _ _ Hi).
Qed.

Theorem autoload_after_save_lemma H0 h1 s f md h2 new_s :
  wf H0 ->
  let H1 := fst (run h1 H0) in
  snd (run_op (Save s f md) H1) = Ok ->
  no_write f h2 ->
  let H3 := fst (run h2 (fst (run_op (Save s f md) H1))) in
  forall st, assoc s (h_states H1) = Some st -> ud_is_dict st ->
  let r := run_op (Autoload (s_kind st) f new_s) H3 in
  snd r = Ok /\
  exists st'', assoc new_s (h_states (fst r)) = Some st'' /\
    s_kind st'' = s_kind st /\
    nets_params (s_nets st'') = nets_params (s_nets st) /\
    arch_of st'' = arch_of st /\
    s_ud st'' = s_ud st /\
    (forall i, In i (nets_ids (s_nets st'')) -> h_next H3 <= i).
Proof.
  intros Hwf H1 Hok Hnw H3 st Hst Hdict r.
  destruct (file_after_save_and_history H0 h1 s f md h2 Hok Hnw) as [st1 [c [Hst1 [Hc Hf]]]].
  change (fst (run h1 H0)) with H1 in Hst1, Hc, Hf.
  change (fst (run h2 (fst (run_op (Save s f md) H1)))) with H3 in Hf.
  rewrite Hst in Hst1. inversion Hst1; subst st1.
  assert (Hwf1 : wf H1) by (apply run_wf; exact Hwf).
  assert (Hsok : state_ok st) by exact (Forall_assoc _ _ _ _ (proj1 Hwf1) Hst).
  rewrite save_data_md_list in Hc.
  destruct (autoload_from_saved st c _ (h_next H3) Hsok (md_content_ok H1 md Hwf1) Hdict Hc)
    as [st'' [Hau [A [B [C [D E]]]]]].
  subst r. simpl. rewrite Hf, Hau. simpl. split; [reflexivity|].
  exists st''. split; [apply assoc_set_eq|]. repeat split; assumption.
Qed.

(* the file maps every metadata key to its value, every network name to its state dict, unitary_dict to the dictionary *)
Theorem file_content_after_save_lemma H s f md :
  wf H -> snd (run_op (Save s f md) H) = Ok ->
  exists st c, assoc s (h_states H) = Some st /\ assoc f (h_files (fst (run_op (Save s f md) H))) = Some c /\
    (forall nm n, assoc nm (s_nets st) = Some n -> assoc nm c = Some (FNet (n_params n))) /\
    (forall u, s_ud st = Some u -> assoc K_UD c = Some u) /\
    (forall k v, assoc k (md_list (md_content H md)) = Some v -> assoc k c = Some (FVal v)).
Proof.
  intros Hwf Hok. destruct (save_content _ _ _ _ Hok) as [st [c [Hst [Hc HH]]]].
  exists st, c. split; [exact Hst|]. split; [rewrite HH; simpl; apply assoc_set_eq|].
  assert (Hsok : state_ok st) by exact (Forall_assoc _ _ _ _ (proj1 Hwf) Hst).
  assert (Hnn : NoDup (map fst (s_nets st))) by (rewrite (state_ok_names _ Hsok); apply net_names_nodup).
  rewrite save_data_md_list in Hc.
  destruct (save_data_lookup _ _ _ Hnn (md_content_ok H md Hwf) Hc) as [A [B [C _]]].
  repeat split; assumption.
Qed.

Theorem reserved_keys_refused_lemma H s f md st m :
  assoc s (h_states H) = Some st -> md_content H md = Some m ->
  ((s_ud st <> None /\ assoc K_UD m <> None) \/ (exists nm, In nm (map fst (s_nets st)) /\ assoc nm m <> None)) ->
  run_op (Save s f md) H = (H, Err EValue).
Proof.
  intros Hst Hm Hres. simpl. rewrite Hst, Hm.
  replace (save_data st (Some m)) with (@None fcontent); [reflexivity|]. symmetry.
  destruct Hres as [[A B]|[nm [A B]]]; [apply save_refuses_unitary_dict_key | apply (save_refuses_network_key _ _ nm)]; assumption.
Qed.

(* ------------------------------------------------------------------ C11.3  refinement to the snapshot specification *)
(* SPEC: a file holds an immutable snapshot (parameters with shapes per network, unitary_dict, metadata). *)
Record snapshot := mkSnap { sn_nets : list (key * list param); sn_ud : option fval; sn_md : list (key * val) }.
Definition snap_lookup (sn : snapshot) (k : key) : option fval :=
  match assoc k (sn_nets sn) with
  | Some ps => Some (FNet ps)
  | None => match (if k =? K_UD then sn_ud sn else None) with
            | Some u => Some u
            | None => option_map FVal (assoc k (sn_md sn))
            end
  end.
Definition reserved (st : state) : list key :=
  (match s_ud st with Some _ => [K_UD] | None => [] end) ++ map fst (s_nets st).
Definition spec_save (st : state) (m : list (key * val)) : option snapshot :=
  if existsb (fun k => has_key k m) (reserved st) then None
  else Some (mkSnap (nets_params (s_nets st)) (s_ud st) m).

(* abstract heap: the same objects, but files are snapshots *)
Definition aheap := (heap * list (nat * snapshot))%type.      (* h_files of the first component is unused ([]) *)
Definition core (H : heap) : heap := upd_files H [].
Definition arun_op (o : op) (A : aheap) : aheap * res :=
  let (Hc, af) := A in
  match o with
  | Save s f md =>
      match assoc s (h_states Hc) with
      | None => (A, Err ENoState)
      | Some st => match spec_save st (md_list (md_content Hc md)) with
                   | None => (A, Err EValue)
                   | Some sn => ((Hc, dict_set f sn af), Ok)
                   end
      end
  | SaveMdOnly f md => ((Hc, dict_set f (mkSnap [] None (md_list (md_content Hc md))) af), Ok)
  | Load s f =>
      match assoc s (h_states Hc) with
      | None => (A, Err ENoState)
      | Some st => match assoc f af with
                   | None => (A, Err ENoFile)
                   | Some sn => let r := load_state (snap_lookup sn) st in
                                ((upd_states Hc (dict_set s (fst r) (h_states Hc)), af), snd r)
                   end
      end
  | Autoload k f new_s =>
      match assoc f af with
      | None => (A, Err ENoFile)
      | Some sn =>
          match autoload k (snap_lookup sn) (h_next Hc) with
          | (Some st, r) => ((mkHeap (dict_set new_s st (h_states Hc)) (h_mds Hc) [] (h_next Hc + length (s_nets st)), af), r)
          | (None, r) => (A, r)
          end
      end
  | _ => let r := run_op o Hc in ((fst r, af), snd r)        (* these operations never touch the file store *)
  end.
Fixpoint arun (h : list op) (A : aheap) : aheap * list res :=
  match h with
  | [] => (A, [])
  | o :: r => let a := arun_op o A in let b := arun r (fst a) in (fst b, snd a :: snd b)
  end.

Definition file_rel (c : option fcontent) (sn : option snapshot) : Prop :=
  match c, sn with
  | Some c, Some sn => forall k, assoc k c = snap_lookup sn k
  | None, None => True
  | _, _ => False
  end.
Definition refines (H : heap) (A : aheap) : Prop :=
  fst A = core H /\ forall f, file_rel (assoc f (h_files H)) (assoc f (snd A)).

(* in the specification a file changes only by an accepted write to it: snapshots are immutable *)
Lemma spec_files_immutable o A f : writes_to o <> Some f -> assoc f (snd (fst (arun_op o A))) = assoc f (snd A).
Proof.
  intros Hw. destruct A as [Hc af]. destruct o; simpl in *;
    repeat match goal with |- context [match ?x with _ => _ end] => destruct x; simpl end; try reflexivity.
  all: apply assoc_set_neq; congruence.
Qed.

(* load / autoload depend on the record only through the lookups they perform *)
Lemma load_nets_ext lk1 lk2 nets : (forall k, lk1 k = lk2 k) -> load_nets lk1 nets = load_nets lk2 nets.
Proof.
  intros He. induction nets as [|[nm n] r IH]; [reflexivity|]. rewrite !load_nets_cons, He, IH. reflexivity.
Qed.
Lemma load_state_ext lk1 lk2 st : (forall k, lk1 k = lk2 k) -> load_state lk1 st = load_state lk2 st.
Proof. intros He. unfold load_state. rewrite (load_nets_ext _ _ _ He), He. reflexivity. Qed.
Lemma autoload_ext lk1 lk2 k id : (forall x, lk1 x = lk2 x) -> autoload k lk1 id = autoload k lk2 id.
Proof.
  intros He. unfold autoload.
  replace (autoload_ud_arg k lk1) with (autoload_ud_arg k lk2) by (unfold autoload_ud_arg; rewrite He; reflexivity).
  replace (autoload_na k lk1) with (autoload_na k lk2) by (unfold autoload_na, dim0; rewrite He; reflexivity).
  replace (dim0 lk1 K_AM P_VB) with (dim0 lk2 K_AM P_VB) by (unfold dim0; rewrite He; reflexivity).
  replace (dim0 lk1 K_AM P_HB) with (dim0 lk2 K_AM P_HB) by (unfold dim0; rewrite He; reflexivity).
  destruct (autoload_ud_arg k lk2) as [u0|]; [|reflexivity].
  destruct (dim0 lk2 K_AM P_VB); [|reflexivity].
  destruct (dim0 lk2 K_AM P_HB); [|reflexivity].
  destruct (autoload_na k lk2); [|reflexivity].
  destruct (ctor_ud u0); [|reflexivity].
  cbv zeta. rewrite (load_state_ext _ _ _ He). reflexivity.
Qed.

Lemma existsb_false {A} (f : A -> bool) l : (forall x, In x l -> f x = false) -> existsb f l = false.
Proof.
  induction l as [|a l IH]; simpl; intros H; [reflexivity|].
  rewrite (H a (or_introl eq_refl)), IH; [reflexivity | intros; apply H; right; assumption].
Qed.

Lemma has_key_md m k : has_key k (md_as_fvals m) = has_key k m.
Proof. unfold has_key, md_as_fvals. rewrite (assoc_map FVal). destruct (assoc k m); reflexivity. Qed.

(* the code's sequence of checks and insertions accepts exactly what the specification accepts, and the
   record it writes answers every lookup like the snapshot *)
Lemma save_refines_spec st m :
  state_ok st -> md_ok m ->
  match save_data st (Some m), spec_save st m with
  | Some c, Some sn => forall k, assoc k c = snap_lookup sn k
  | None, None => True
  | _, _ => False
  end.
Proof.
  intros Hsok Hmd.
  assert (Hnn : NoDup (map fst (s_nets st))) by (rewrite (state_ok_names _ Hsok); apply net_names_nodup).
  unfold spec_save.
  destruct (existsb (fun k => has_key k m) (reserved st)) eqn:Eres.
  - (* a reserved key is present: the code raises ValueError *)
    apply existsb_exists in Eres. destruct Eres as [k [Hin Hk]]. unfold reserved in Hin. apply in_app_or in Hin.
    assert (Hne : assoc k m <> None) by (unfold has_key in Hk; destruct (assoc k m); [discriminate | discriminate]).
    destruct Hin as [Hin|Hin].
    + destruct (s_ud st) eqn:Eu; [|contradiction]. destruct Hin as [<-|[]].
      assert (Hr : save_data st (Some m) = None) by (apply save_refuses_unitary_dict_key; [congruence | exact Hne]).
      match goal with |- match ?t with _ => _ end => replace t with (@None fcontent) by (symmetry; exact Hr) end. exact I.
    + assert (Hr := save_refuses_network_key st m k Hin Hne).
      match goal with |- match ?t with _ => _ end => replace t with (@None fcontent) by (symmetry; exact Hr) end. exact I.
  - (* no reserved key: accepted *)
    assert (Hno : forall k, In k (reserved st) -> assoc k m = None).
    { intros k Hin. destruct (assoc k m) eqn:E; [|reflexivity]. exfalso.
      assert (existsb (fun k => has_key k m) (reserved st) = true).
      { apply existsb_exists. exists k. split; [exact Hin|]. unfold has_key. rewrite E. reflexivity. }
      congruence. }
    assert (Hacc : exists c, save_data st (Some m) = Some c).
    { unfold save_data. rewrite md_copy_some.
      assert (Hnets : forall md1 : fcontent, (forall nk, In nk (s_nets st) -> has_key (fst nk) md1 = false) ->
                existsb (fun nk => has_key (fst nk) md1) (s_nets st) = false).
      { intros md1 Hall. apply existsb_false. exact Hall. }
      assert (Hnm : forall nk, In nk (s_nets st) -> assoc (fst nk) m = None /\ fst nk <> K_UD).
      { intros nk Hin. split.
        - apply Hno. unfold reserved. apply in_or_app. right. apply in_map. exact Hin.
        - assert (In (fst nk) (net_names (s_kind st))) by (rewrite <- (state_ok_names _ Hsok); apply in_map; exact Hin).
          destruct (s_kind st); simpl in H; unfold K_AM, K_PH, K_UD in *; intuition congruence. }
      destruct (s_ud st) as [u|] eqn:Eu.
      - rewrite has_key_md. unfold has_key at 1. rewrite (Hno K_UD); [|unfold reserved; rewrite Eu; left; reflexivity].
        rewrite Hnets; [eexists; reflexivity|]. intros nk Hin. destruct (Hnm nk Hin) as [A B].
        unfold has_key. rewrite (assoc_set_neq _ _ _ _ B). unfold md_as_fvals. rewrite (assoc_map FVal), A. reflexivity.
      - rewrite Hnets; [eexists; reflexivity|]. intros nk Hin. destruct (Hnm nk Hin) as [A B].
        rewrite has_key_md. unfold has_key. rewrite A. reflexivity. }
    destruct Hacc as [c Hc]. rewrite Hc.
    destruct (save_data_lookup _ _ _ Hnn Hmd Hc) as [A [B [C D]]].
    intros k. unfold snap_lookup; simpl.
    unfold nets_params. rewrite (assoc_map (fun n => n_params n)).
    destruct (assoc k (s_nets st)) as [n|] eqn:En; simpl; [apply A; exact En|].
    destruct (k =? K_UD) eqn:Ek.
    + apply Nat.eqb_eq in Ek; subst k. destruct (s_ud st) as [u|] eqn:Eu; [apply B; reflexivity|].
      destruct (assoc K_UD m) as [v|] eqn:Em; simpl; [apply C; exact Em | apply D; auto].
    + apply Nat.eqb_neq in Ek.
      destruct (assoc k m) as [v|] eqn:Em; simpl; [apply C; exact Em | apply D; auto].
Qed.

Lemma md_only_refines m : forall k, assoc k (md_as_fvals m) = snap_lookup (mkSnap [] None m) k.
Proof.
  intros k. unfold snap_lookup; simpl. destruct (k =? K_UD); unfold md_as_fvals; rewrite (assoc_map FVal); reflexivity.
Qed.

Lemma file_rel_set f f' c sn fs af :
  (forall k, assoc k c = snap_lookup sn k) ->
  file_rel (assoc f' fs) (assoc f' af) ->
  file_rel (assoc f' (dict_set f c fs)) (assoc f' (dict_set f sn af)).
Proof.
  intros Hc Hr. destruct (Nat.eq_dec f' f) as [->|Hn].
  - rewrite !assoc_set_eq. exact Hc.
  - rewrite !(assoc_set_neq _ _ _ _ Hn). exact Hr.
Qed.

Lemma refinement_step o H A :
  wf H -> refines H A ->
  snd (run_op o H) = snd (arun_op o A) /\ refines (fst (run_op o H)) (fst (arun_op o A)).
Proof.
  intros Hwf [Hcore Hfiles]. destruct A as [Hc af]. simpl in Hcore, Hfiles. subst Hc.
  destruct o; simpl.
  - (* Randomise *) destruct (assoc s (h_states H)); simpl; (split; [reflexivity | split; [reflexivity | exact Hfiles]]).
  - (* Train *) destruct (assoc s (h_states H)); simpl; (split; [reflexivity | split; [reflexivity | exact Hfiles]]).
  - (* AddUnitary *) destruct (assoc s (h_states H)) as [st|]; simpl; [|split; [reflexivity | split; [reflexivity | exact Hfiles]]].
    destruct (s_ud st) as [[?|?|?]|]; simpl; (split; [reflexivity | split; [reflexivity | exact Hfiles]]).
  - (* Save *) destruct (assoc s (h_states H)) as [st|] eqn:Est; simpl; [|split; [reflexivity | split; [reflexivity | exact Hfiles]]].
    change (md_content (core H) md) with (md_content H md).
    pose proof (save_refines_spec st (md_list (md_content H md)) (Forall_assoc _ _ _ _ (proj1 Hwf) Est) (md_content_ok H md Hwf)) as Hs.
    rewrite <- save_data_md_list in Hs.
    destruct (save_data st (md_content H md)) as [c|], (spec_save st (md_list (md_content H md))) as [sn|]; try contradiction; simpl.
    + split; [reflexivity|]. split; [reflexivity|]. simpl. intros f'. apply file_rel_set; [exact Hs | apply Hfiles].
    + split; [reflexivity | split; [reflexivity | exact Hfiles]].
  - (* SaveMdOnly *) change (md_content (core H) md) with (md_content H md).
    split; [reflexivity|]. split; [reflexivity|]. simpl. intros f'. apply file_rel_set; [|apply Hfiles].
    destruct (md_content H md) as [m|]; simpl; [apply md_only_refines | intros k; unfold snap_lookup; simpl; destruct (k =? K_UD); reflexivity].
  - (* Load *) destruct (assoc s (h_states H)) as [st|]; simpl; [|split; [reflexivity | split; [reflexivity | exact Hfiles]]].
    pose proof (Hfiles f) as Hf. unfold file_rel in Hf.
    destruct (assoc f (h_files H)) as [c|], (assoc f af) as [sn|]; try contradiction; simpl;
      [|split; [reflexivity | split; [reflexivity | exact Hfiles]]].
    rewrite (load_state_ext (fun k : key => assoc k c) (snap_lookup sn) st Hf). split; [reflexivity | split; [reflexivity | exact Hfiles]].
  - (* Autoload *) pose proof (Hfiles f) as Hf. unfold file_rel in Hf.
    destruct (assoc f (h_files H)) as [c|], (assoc f af) as [sn|]; try contradiction; simpl;
      [|split; [reflexivity | split; [reflexivity | exact Hfiles]]].
    rewrite (autoload_ext (fun x : key => assoc x c) (snap_lookup sn) k (h_next H) Hf).
    destruct (autoload k (snap_lookup sn) (h_next H)) as [[st|] r]; simpl; (split; [reflexivity | split; [reflexivity | exact Hfiles]]).
  - (* MutateMd *) split; [reflexivity | split; [reflexivity | exact Hfiles]].
Qed.

Theorem refinement_lemma h : forall H A,
  wf H -> refines H A ->
  snd (run h H) = snd (arun h A) /\ refines (fst (run h H)) (fst (arun h A)).
Proof.
  induction h as [|o h IH]; intros H A Hwf Hr; simpl; [split; [reflexivity | exact Hr]|].
  destruct (refinement_step o H A Hwf Hr) as [Hres Hr'].
  destruct (IH _ _ (run_op_wf o H Hwf) Hr') as [Hres' Hr''].
  split; [rewrite Hres, Hres'; reflexivity | exact Hr''].
Qed.

(* ------------------------------------------------------------------ network identities stay below the counter *)
Definition ids_below (N : nat) (st : state) : Prop := forall i, In i (nets_ids (s_nets st)) -> i < N.
Definition ids_ok (H : heap) : Prop := Forall (fun kv => ids_below (h_next H) (snd kv)) (h_states H).

Lemma set_net_vals_ids nets vss : nets_ids (set_net_vals nets vss) = nets_ids nets.
Proof.
  revert vss; induction nets as [|[nm n] r IH]; intros [|vs vss]; simpl; try reflexivity.
  unfold nets_ids in *; simpl. rewrite IH; reflexivity.
Qed.

Lemma load_state_ids lk st : nets_ids (s_nets (fst (load_state lk st))) = nets_ids (s_nets st).
Proof. unfold load_state. destruct (snd (load_nets lk (s_nets st))); simpl; apply load_nets_ids. Qed.

Lemma fresh_nets_ids_upper a : forall id i, In i (nets_ids (fresh_nets id a)) -> i < id + length a.
Proof.
  induction a as [|[nm pa] r IH]; intros id i; simpl; [contradiction|].
  intros [<-|H]; [lia|]. apply IH in H. lia.
Qed.

Lemma fresh_nets_length a : forall id, length (fresh_nets id a) = length a.
Proof. induction a as [|[nm pa] r IH]; intros id; simpl; [reflexivity | rewrite IH; reflexivity]. Qed.

Lemma autoload_ids k lk id st r :
  autoload k lk id = (Some st, r) -> forall i, In i (nets_ids (s_nets st)) -> id <= i < id + length (s_nets st).
Proof.
  unfold autoload.
  destruct (autoload_ud_arg k lk) as [u0|e]; [|intros; discriminate].
  destruct (dim0 lk K_AM P_VB) as [nv|e]; [|intros; discriminate].
  destruct (dim0 lk K_AM P_HB) as [nh|e]; [|intros; discriminate].
  destruct (autoload_na k lk) as [na|e]; [|intros; discriminate].
  destruct (ctor_ud u0) as [ud|e]; [|intros; discriminate].
  set (st0 := mkState k (fresh_nets id (kind_arch k nv nh na)) ud).
  destruct (snd (load_state lk st0)) eqn:E; [|intros; discriminate].
  intros H; inversion H; subst. intros i Hi.
  assert (Hlen : length (s_nets (fst (load_state lk st0))) = length (kind_arch k nv nh na)).
  { rewrite <- (fresh_nets_length (kind_arch k nv nh na) id).
    change (fresh_nets id (kind_arch k nv nh na)) with (s_nets st0).
    rewrite <- (map_length (fun nk => n_id (snd nk)) (s_nets (fst (load_state lk st0)))).
    rewrite <- (map_length (fun nk => n_id (snd nk)) (s_nets st0)).
    fold (nets_ids (s_nets (fst (load_state lk st0)))). fold (nets_ids (s_nets st0)). rewrite load_state_ids. reflexivity. }
  rewrite load_state_ids in Hi. simpl in Hi. rewrite Hlen.
  split; [exact (fresh_nets_ids _ _ _ Hi) | exact (fresh_nets_ids_upper _ _ _ Hi)].
Qed.

Lemma ids_below_mono N M st : N <= M -> ids_below N st -> ids_below M st.
Proof. intros Hle H i Hi. specialize (H i Hi). lia. Qed.

Lemma run_op_ids_ok o H : ids_ok H -> ids_ok (fst (run_op o H)).
Proof.
  unfold ids_ok. intros Hs. destruct o; simpl.
  - destruct (assoc s (h_states H)) eqn:E; simpl; [|exact Hs].
    apply (Forall_set (ids_below (h_next H))); [exact Hs|].
    pose proof (Forall_assoc (ids_below (h_next H)) _ _ _ Hs E) as Hb.
    unfold ids_below; simpl. rewrite set_net_vals_ids. exact Hb.
  - destruct (assoc s (h_states H)) eqn:E; simpl; [|exact Hs].
    apply (Forall_set (ids_below (h_next H))); [exact Hs|].
    pose proof (Forall_assoc (ids_below (h_next H)) _ _ _ Hs E) as Hb.
    unfold ids_below; simpl. rewrite set_net_vals_ids. exact Hb.
  - destruct (assoc s (h_states H)) eqn:E; simpl; [|exact Hs].
    destruct (s_ud s0) as [[?|d|?]|]; simpl; try exact Hs.
    apply (Forall_set (ids_below (h_next H))); [exact Hs|].
    exact (Forall_assoc (ids_below (h_next H)) _ _ _ Hs E).
  - destruct (assoc s (h_states H)); simpl; [|exact Hs].
    destruct (save_data s0 (md_content H md)); simpl; exact Hs.
  - exact Hs.
  - destruct (assoc s (h_states H)) eqn:E; simpl; [|exact Hs].
    destruct (assoc f (h_files H)); simpl; [|exact Hs].
    apply (Forall_set (ids_below (h_next H))); [exact Hs|].
    pose proof (Forall_assoc (ids_below (h_next H)) _ _ _ Hs E) as Hb.
    unfold ids_below. rewrite load_state_ids. exact Hb.
  - destruct (assoc f (h_files H)); simpl; [|exact Hs].
    destruct (autoload k (fun x => assoc x f0) (h_next H)) as [[st|] r] eqn:E; simpl; [|exact Hs].
    apply (Forall_set (ids_below (h_next H + length (s_nets st)))).
    + eapply Forall_impl; [|exact Hs]. intros kv Hb. eapply ids_below_mono; [|exact Hb]. lia.
    + intros i Hi. apply (autoload_ids _ _ _ _ _ E i Hi).
  - exact Hs.
Qed.

Lemma run_ids_ok h : forall H, ids_ok H -> ids_ok (fst (run h H)).
Proof. induction h as [|o h IH]; intros H Hw; simpl; [exact Hw | apply IH, run_op_ids_ok, Hw]. Qed.

(* ------------------------------------------------------------------ non-vacuity *)
Definition ex_state : state :=
  mkState Complex [(K_AM, mkNet 0 [mkParam P_WEIGHTS [3; 2] 41; mkParam P_VB [2] 42; mkParam P_HB [3] 43]);
                   (K_PH, mkNet 1 [mkParam P_WEIGHTS [3; 2] 44; mkParam P_VB [2] 45; mkParam P_HB [3] 46])]
          (Some (FDict ((23, 9) :: default_ud))).
Definition ex_heap : heap := mkHeap [(0, ex_state)] [(0, [(30, 7); (31, 8)])] [] 2.

Example ex_heap_wf : wf ex_heap.
Proof.
  split.
  - constructor; [|constructor]. split; [exists 2, 3, 0; reflexivity|]. simpl. split; intros; discriminate.
  - constructor; [|constructor]. unfold md_ok; simpl. repeat constructor; simpl; intuition discriminate.
Qed.
Example ex_ud_is_dict : ud_is_dict ex_state. Proof. exact I. Qed.
Example ex_save_twice_ok : snd (run [Save 0 5 (Some 0); Save 0 5 (Some 0); Autoload Complex 5 1; Load 0 5] ex_heap) = [Ok; Ok; Ok; Ok].
Proof. vm_compute. reflexivity. Qed.
Example ex_reserved_refused : snd (run [MutateMd 0 K_UD 1; Save 0 5 (Some 0)] ex_heap) = [Ok; Err EValue].
Proof. vm_compute. reflexivity. Qed.
Example ex_ids_ok : ids_ok ex_heap.
Proof. constructor; [|constructor]. intros i Hi; simpl in Hi. simpl. destruct Hi as [<-|[<-|[]]]; lia. Qed.
Example ex_refines_initial : refines ex_heap (core ex_heap, []).
Proof. split; [reflexivity | intros f; exact I]. Qed.
