(* BitsT.v — C19: the code's bit arithmetic (subspace_vector / generate_hilbert_space / idx)
   agrees with the structural enumeration all_bits.  No real numbers: closed under the
   global context. *)
From Coq Require Import List NArith Bool Arith Lia FinFun.
From QModel Require Import Bits Unitaries DataLoad.
Import ListNotations.

Lemma sv_succ n k : subspace_vector (S n) k = N.testbit k (N.of_nat n) :: subspace_vector n k.
Proof.
  unfold subspace_vector. rewrite seq_S, map_app, rev_app_distr. reflexivity.
Qed.

Lemma sv_length n k : length (subspace_vector n k) = n.
Proof. unfold subspace_vector. rewrite rev_length, map_length, seq_length. reflexivity. Qed.

Lemma sv_low n a b :
  (forall j, (j < n)%nat -> N.testbit a (N.of_nat j) = N.testbit b (N.of_nat j)) ->
  subspace_vector n a = subspace_vector n b.
Proof.
  intros H. unfold subspace_vector. f_equal. apply map_ext_in. intros j Hj.
  apply in_seq in Hj. apply H. lia.
Qed.

Lemma pow2_nat n : N.of_nat (2 ^ n) = (2 ^ N.of_nat n)%N.
Proof.
  induction n as [|n IH]; [reflexivity|].
  rewrite Nat.pow_succ_r', Nat2N.inj_mul, IH. change (N.of_nat 2) with 2%N.
  rewrite Nat2N.inj_succ, N.pow_succ_r'. reflexivity.
Qed.

Lemma sv_false n k : (k < 2 ^ N.of_nat n)%N -> subspace_vector (S n) k = false :: subspace_vector n k.
Proof.
  intros H. rewrite sv_succ. f_equal.
  destruct (N.eq_dec k 0) as [->|Hk]; [apply N.bits_0|].
  apply N.bits_above_log2. apply N.log2_lt_pow2; lia.
Qed.

Lemma sv_true n k : (k < 2 ^ N.of_nat n)%N ->
  subspace_vector (S n) (2 ^ N.of_nat n + k) = true :: subspace_vector n k.
Proof.
  intros H. rewrite sv_succ. f_equal.
  - replace (N.of_nat n) with (0 + N.of_nat n)%N at 2 by lia.
    rewrite <- N.div_pow2_bits.
    replace ((2 ^ N.of_nat n + k) / 2 ^ N.of_nat n)%N with 1%N; [reflexivity|].
    symmetry. replace (2 ^ N.of_nat n + k)%N with (k + 1 * 2 ^ N.of_nat n)%N by lia.
    rewrite N.div_add by lia. rewrite N.div_small by lia. reflexivity.
  - apply sv_low. intros j Hj.
    rewrite <- (N.mod_pow2_bits_low (2 ^ N.of_nat n + k) (N.of_nat n)) by lia.
    replace (2 ^ N.of_nat n + k)%N with (k + 1 * 2 ^ N.of_nat n)%N by lia.
    rewrite N.mod_add by lia. rewrite N.mod_small by lia. reflexivity.
Qed.

(* ---- rows of the generated space ---- *)
Lemma seq_shift_add a len : seq a len = map (fun i => a + i)%nat (seq 0 len).
Proof.
  revert a; induction len as [|len IH]; intros a; [reflexivity|].
  cbn [seq map]. rewrite Nat.add_0_r. f_equal. rewrite (IH (S a)), <- seq_shift, map_map.
  apply map_ext. intros; lia.
Qed.

Theorem hilbert_rows_is_all_bits n : hilbert_rows n = all_bits n.
Proof.
  induction n as [|n IH]; [reflexivity|].
  unfold hilbert_rows in *. rewrite Nat.pow_succ_r'.
  replace (2 * 2 ^ n)%nat with (2 ^ n + 2 ^ n)%nat by lia.
  rewrite seq_app, map_app. cbn [all_bits]. rewrite <- IH, !map_map. f_equal.
  - apply map_ext_in. intros k Hk. apply in_seq in Hk. apply sv_false.
    rewrite <- pow2_nat. lia.
  - cbn [Nat.add]. rewrite (seq_shift_add (2 ^ n)), map_map. apply map_ext_in. intros k Hk.
    apply in_seq in Hk. rewrite Nat2N.inj_add, pow2_nat. apply sv_true. rewrite <- pow2_nat. lia.
Qed.

Lemma all_bits_len' n : length (all_bits n) = (2 ^ n)%nat.
Proof.
  induction n as [|n IH]; [reflexivity|].
  cbn [all_bits]. rewrite app_length. rewrite !map_length. rewrite IH. rewrite Nat.pow_succ_r'. lia.
Qed.

Theorem row_k_is_subspace_vector n k : (k < 2 ^ n)%nat ->
  nth k (all_bits n) [] = subspace_vector n (N.of_nat k).
Proof.
  intros H. rewrite <- hilbert_rows_is_all_bits. unfold hilbert_rows.
  rewrite (nth_indep _ [] (subspace_vector n (N.of_nat 0))) by (rewrite map_length, seq_length; exact H).
  rewrite (map_nth (fun k => subspace_vector n (N.of_nat k))). rewrite seq_nth by exact H. reflexivity.
Qed.

(* ---- idx ---- *)
Lemma powers_succ n : powers (S n) = (2 ^ N.of_nat n)%N :: powers n.
Proof.
  unfold powers. rewrite seq_S, rev_app_distr. cbn [rev app map Nat.add].
  replace (S n - 1)%nat with n by lia. reflexivity.
Qed.

Theorem idx_cons b s : idx (b :: s) = ((if b then 2 ^ N.of_nat (length s) else 0) + idx s)%N.
Proof. unfold idx. cbn [length]. rewrite powers_succ. reflexivity. Qed.

Lemma idx_nil : idx [] = 0%N. Proof. reflexivity. Qed.

Lemma idx_lt s : (idx s < 2 ^ N.of_nat (length s))%N.
Proof.
  induction s as [|b s IH]; [cbn; lia|].
  rewrite idx_cons. cbn [length]. rewrite Nat2N.inj_succ, N.pow_succ_r'. destruct b; lia.
Qed.

Theorem sv_idx s : subspace_vector (length s) (idx s) = s.
Proof.
  induction s as [|b s IH]; [reflexivity|].
  rewrite idx_cons. cbn [length]. pose proof (idx_lt s) as Hlt. destruct b.
  - rewrite sv_true by exact Hlt. rewrite IH. reflexivity.
  - rewrite N.add_0_l, sv_false by exact Hlt. rewrite IH. reflexivity.
Qed.

Theorem idx_sv n k : (k < 2 ^ N.of_nat n)%N -> idx (subspace_vector n k) = k.
Proof.
  revert k; induction n as [|n IH]; intros k H.
  - cbn in H. assert (k = 0%N) by lia. subst. reflexivity.
  - rewrite Nat2N.inj_succ, N.pow_succ_r' in H.
    destruct (N.lt_ge_cases k (2 ^ N.of_nat n)) as [Hlt|Hge].
    + rewrite sv_false by exact Hlt. rewrite idx_cons, IH by exact Hlt. lia.
    + replace k with (2 ^ N.of_nat n + (k - 2 ^ N.of_nat n))%N at 1 by lia.
      rewrite sv_true by lia. rewrite idx_cons, sv_length, IH by lia. lia.
Qed.

(* rows are listed in increasing index order: row k has index k *)
Theorem all_bits_idx_sorted n : map idx (all_bits n) = map N.of_nat (seq 0 (2 ^ n)).
Proof.
  rewrite <- hilbert_rows_is_all_bits. unfold hilbert_rows. rewrite map_map.
  apply map_ext_in. intros k Hk. apply in_seq in Hk. apply idx_sv. rewrite <- pow2_nat. lia.
Qed.

Lemma NoDup_map_inj {A B} (f : A -> B) l : NoDup (map f l) -> NoDup l.
Proof.
  induction l as [|a l IH]; intros H; [constructor|].
  cbn in H. inversion H as [|x xs Hn Hd]; subst. constructor; [|apply IH; exact Hd].
  intros Hin. apply Hn. apply in_map. exact Hin.
Qed.

Theorem all_bits_NoDup n : NoDup (all_bits n).
Proof.
  apply (NoDup_map_inj idx). rewrite all_bits_idx_sorted.
  apply Injective_map_NoDup; [intros a b Hab; lia | apply seq_NoDup].
Qed.

(* ---- size guard ---- *)
Theorem generate_refuses_oversize n : (max_size < n)%nat -> generate_hilbert_space n = None.
Proof. intros H. unfold generate_hilbert_space. apply Nat.ltb_lt in H. rewrite H. reflexivity. Qed.

Theorem generate_within_limit n : (n <= max_size)%nat -> generate_hilbert_space n = Some (all_bits n).
Proof.
  intros H. unfold generate_hilbert_space.
  destruct (Nat.ltb max_size n) eqn:E; [apply Nat.ltb_lt in E; lia|].
  rewrite hilbert_rows_is_all_bits. reflexivity.
Qed.

(* ---- reference-basis extraction ---- *)
Fixpoint refbasis_spec {A} (rows : list A) (bases : list (list letter)) : list A :=
  match rows, bases with
  | r :: rows', b :: bases' =>
      if forallb is_Z b then r :: refbasis_spec rows' bases' else refbasis_spec rows' bases'
  | _, _ => []
  end.

Theorem extract_refbasis_exact {A} (rows : list A) bases :
  extract_refbasis rows bases = refbasis_spec rows bases.
Proof.
  revert bases; induction rows as [|r rows IH]; intros [|b bases]; try reflexivity.
  unfold extract_refbasis in *. cbn [combine filter snd refbasis_spec]. unfold all_Z at 1.
  destruct (forallb is_Z b); cbn [map fst]; rewrite IH; reflexivity.
Qed.

Theorem extract_refbasis_all_rows {A} (rows : list A) bases :
  length rows = length bases -> Forall (fun b => forallb is_Z b = true) bases ->
  extract_refbasis rows bases = rows.
Proof.
  rewrite extract_refbasis_exact. revert bases; induction rows as [|r rows IH]; intros [|b bases] Hl Hf;
    try reflexivity; try discriminate.
  inversion Hf as [|x xs Hb Hr]; subst. cbn [refbasis_spec]. rewrite Hb. f_equal. apply IH; [cbn in Hl; lia | exact Hr].
Qed.

(* kron index convention: the first factor of a tensor product is addressed by site 0 *)
Theorem kron_entry_site0_leftmost {T} (O : Num.NumOps T) (u : umat (T:=T)) us b r b' r' :
  kron_entry O (u :: us) (b :: r) (b' :: r') = CBase.cmul O (u_entry u b b') (kron_entry O us r r').
Proof. reflexivity. Qed.
