(* TieLib.v — support for the source-translation tie (harness/srctie.py): the Gallina text generated
   from /repo's Python source on every run is stated over these helpers, and the equality theorems
   "generated kernel = hand-written model function" are closed by the tactics below. *)
From Coq Require Import List ZArith Bool Reals Lra Lia ZifyBool Psatz.
From QModel Require Import Num.
From QModel Require Observables.
From QTheory Require Import RInst.
Import ListNotations.

Definition Rltb (a b : R) : bool := if Rlt_dec a b then true else false.
Definition Rleb (a b : R) : bool := if Rle_dec a b then true else false.
Definition Reqb (a b : R) : bool := if Req_EM_T a b then true else false.

(* floats that may be nan: None = nan; arithmetic propagates it *)
Definition olift1 (f : R -> R) (a : option R) : option R := option_map f a.
Definition olift2 (f : R -> R -> R) (a b : option R) : option R :=
  match a, b with Some x, Some y => Some (f x y) | _, _ => None end.

(* ceil(a / b) on Python ints (exact while the float quotient is exact) *)
Definition pyceil_div (a b : Z) : Z := (- ((- a) / b))%Z.
(* truthiness of an int-or-None *)
Definition truthy_oz (x : option Z) : bool := match x with Some v => negb (v =? 0)%Z | None => false end.

Lemma Rltb_true a b : Rltb a b = true <-> (a < b)%R.
Proof. unfold Rltb; destruct (Rlt_dec a b); split; intros; auto; try discriminate; contradiction. Qed.
Lemma Rltb_false a b : Rltb a b = false <-> ~ (a < b)%R.
Proof. unfold Rltb; destruct (Rlt_dec a b); split; intros; auto; try discriminate; contradiction. Qed.
Lemma Rleb_true a b : Rleb a b = true <-> (a <= b)%R.
Proof. unfold Rleb; destruct (Rle_dec a b); split; intros; auto; try discriminate; contradiction. Qed.
Lemma Rleb_false a b : Rleb a b = false <-> ~ (a <= b)%R.
Proof. unfold Rleb; destruct (Rle_dec a b); split; intros; auto; try discriminate; contradiction. Qed.
Lemma Reqb_true a b : Reqb a b = true <-> a = b.
Proof. unfold Reqb; destruct (Req_EM_T a b); split; intros; auto; try discriminate; contradiction. Qed.
Lemma Reqb_false a b : Reqb a b = false <-> a <> b.
Proof. unfold Reqb; destruct (Req_EM_T a b); split; intros; auto; try discriminate; contradiction. Qed.
Lemma nltb_R a b : nltb ROps a b = Rltb a b. Proof. reflexivity. Qed.

Lemma pyceil_div_nat (a b : nat) : (0 < b)%nat ->
  pyceil_div (Z.of_nat a) (Z.of_nat b) = Z.of_nat ((a + (b - 1)) / b).
Proof.
  intros Hb. unfold pyceil_div.
  rewrite Nat2Z.inj_div, Nat2Z.inj_add, Nat2Z.inj_sub by lia. simpl Z.of_nat.
  set (A := Z.of_nat a). set (B := Z.of_nat b). assert (HB : (0 < B)%Z) by (unfold B; lia). assert (HA : (0 <= A)%Z) by (unfold A; lia).
  pose proof (Z.div_mod (- A) B ltac:(lia)) as E1. pose proof (Z.mod_pos_bound (- A) B HB) as M1.
  pose proof (Z.div_mod (A + (B - 1)) B ltac:(lia)) as E2. pose proof (Z.mod_pos_bound (A + (B - 1)) B HB) as M2.
  nia.
Qed.

(* ---- tactics ---- *)
Ltac tie_bools :=
  repeat match goal with
  | H : Rltb _ _ = true |- _ => apply Rltb_true in H
  | H : Rltb _ _ = false |- _ => apply Rltb_false in H
  | H : Rleb _ _ = true |- _ => apply Rleb_true in H
  | H : Rleb _ _ = false |- _ => apply Rleb_false in H
  | H : Reqb _ _ = true |- _ => apply Reqb_true in H
  | H : Reqb _ _ = false |- _ => apply Reqb_false in H
  end.

Ltac tie_split :=
  repeat match goal with
  | |- context [match ?x with Some _ => _ | None => _ end] => is_var x; destruct x
  | H : context [match ?x with Some _ => _ | None => _ end] |- _ => is_var x; destruct x
  end;
  repeat match goal with
  | |- context [if ?c then _ else _] => let E := fresh "E" in destruct c eqn:E
  | |- context [match ?x with Some _ => _ | None => _ end] => let E := fresh "E" in destruct x eqn:E
  | H : context [if ?c then _ else _] |- _ => let E := fresh "E" in destruct c eqn:E
  end.

Ltac tie_nat :=
  repeat first
  [ rewrite Nat2Z.inj_add | rewrite Nat2Z.inj_mul | rewrite Nat2Z.inj_div | rewrite Nat2Z.inj_sub by lia
  | rewrite Z2Nat.id by lia | rewrite Nat2Z.id | rewrite Nat2Z.inj_min | rewrite Nat2Z.inj_max ].

Ltac tie_inj :=
  repeat match goal with
  | H : Some _ = Some _ |- _ => injection H as H; try subst
  | H : Some _ = None |- _ => discriminate H
  | H : None = Some _ |- _ => discriminate H
  | H : (_, _) = (_, _) |- _ => injection H as ?H ?H; try subst
  end.

(* integer goals with / and mod (Python's // and %, ceil of a quotient): Euclidean equations + nia *)
Ltac tie_minmax :=
  repeat match goal with
  | |- context [Nat.min ?a ?b] => let H := fresh in destruct (Nat.min_spec a b) as [[H ->]|[H ->]]
  | |- context [Nat.max ?a ?b] => let H := fresh in destruct (Nat.max_spec a b) as [[H ->]|[H ->]]
  | |- context [Z.min ?a ?b] => let H := fresh in destruct (Z.min_spec a b) as [[H ->]|[H ->]]
  | |- context [Z.max ?a ?b] => let H := fresh in destruct (Z.max_spec a b) as [[H ->]|[H ->]]
  end.
(* variables forced equal by the linear context (e.g. min a b = b together with ~ b < a) *)
Ltac tie_eqs :=
  repeat match goal with
  | a : nat, b : nat |- _ => assert (a = b) by lia; subst b
  | a : Z, b : Z |- _ => assert (a = b) by lia; subst b
  end.
Ltac tie_zarith1 := first [ lia | (exfalso; lia) | (tie_nat; simpl Z.of_nat; Z.to_euclidean_division_equations; nia) | (zify; Z.to_euclidean_division_equations; nia) ].
Ltac tie_zarith := first [ tie_zarith1 | (tie_minmax; first [tie_zarith1 | (tie_eqs; tie_zarith1)]) ].

(* real goals: non-zero divisors IZR d from the integer context, then push IZR through + - * and use field / lra *)
Ltac tie_nz :=
  repeat match goal with
  | |- context [Rdiv _ (IZR ?d)] =>
      lazymatch goal with
      | H : IZR d <> 0%R |- _ => fail
      | _ => assert (IZR d <> 0%R) by (apply not_0_IZR; lia)
      end
  end.
Ltac tie_push := repeat first [ rewrite plus_IZR in * | rewrite minus_IZR in * | rewrite mult_IZR in * | rewrite opp_IZR in * ].
Ltac tie_abs :=
  unfold Rabs in *; repeat match goal with
  | |- context [Rcase_abs ?x] => destruct (Rcase_abs x)
  | H : context [Rcase_abs ?x] |- _ => destruct (Rcase_abs x)
  end.
(* |a/b| = |a|/|b| and |a-b| = |b-a| spellings *)
Ltac tie_rabs :=
  unfold Rdiv; repeat rewrite Rabs_mult; repeat rewrite Rabs_inv;
  first [ reflexivity
        | (repeat f_equal; first [reflexivity | apply Rabs_minus_sym | lra])
        | (rewrite Rabs_minus_sym; first [reflexivity | (repeat f_equal; first [reflexivity | lra])]) ].
Ltac tie_real :=
  tie_bools; tie_nat; tie_nz; tie_push; simpl Z.of_nat;
  first [ reflexivity | lra | tie_rabs | (field; repeat split; first [assumption | lra | auto]) | (tie_abs; tie_bools; first [lra | nra])
        | (field_simplify_eq; [first [lra | nra | ring] | repeat split; first [assumption | lra | auto]]) ].

Ltac tie_comp :=
  repeat match goal with
  | |- (_, _) = (_, _) => apply (f_equal2 pair)
  | |- Some _ = Some _ => apply f_equal
  end.
Ltac tie_close :=
  tie_inj;
  first [ reflexivity | (exfalso; lia) | discriminate | (exfalso; tie_bools; lra) | (exfalso; tie_bools; tie_abs; lra)
        | (tie_comp; first [reflexivity | tie_zarith | tie_real]) | idtac ].

(* ---- tensor kernels (harness/srctie.py, VecTr) ---- *)
Definition clamp01 (x : R) : R := Rmax 0 (Rmin 1 x).

Lemma sigmoid_01 x : (0 < sigmoid ROps x < 1)%R.
Proof.
  rewrite sigmoid_R. pose proof (exp_pos (- x)) as H.
  split.
  - apply Rdiv_lt_0_compat; lra.
  - apply (Rmult_lt_reg_r (1 + exp (- x))); [lra|]. unfold Rdiv. rewrite Rmult_assoc, Rinv_l by lra. lra.
Qed.

Lemma clamp01_id x : (0 <= x <= 1)%R -> clamp01 x = x.
Proof. intros [H0 H1]. unfold clamp01. rewrite Rmin_right by lra. apply Rmax_right; lra. Qed.

Lemma clamp01_sigmoid x : clamp01 (sigmoid ROps x) = sigmoid ROps x.
Proof. apply clamp01_id. pose proof (sigmoid_01 x). lra. Qed.

Lemma map_clamp01_sigmoid l : map clamp01 (map (sigmoid ROps) l) = map (sigmoid ROps) l.
Proof. rewrite map_map. apply map_ext. intros; apply clamp01_sigmoid. Qed.

Lemma linearb_vadd W c v : vadd ROps (matvecb ROps W v) c = linearb ROps W c v.
Proof.
  unfold vadd, matvecb, linearb. revert c; induction W as [|row W IH]; intros [|x c]; try reflexivity.
  cbn [map combine fst snd]. f_equal. apply IH.
Qed.

Lemma vadd_comm a b : vadd ROps a b = vadd ROps b a.
Proof.
  unfold vadd. revert b; induction a as [|x a IH]; intros [|y b]; try reflexivity.
  cbn [combine map fst snd]. f_equal; [cbn; lra | apply IH].
Qed.

Ltac tie_vec_norm :=
  cbn [nadd nsub nmul ndiv nopp nabs nsqrt nexp nln ncos nsin nofZ nltb n0 n1 ROps] in *;
  repeat first [ rewrite map_clamp01_sigmoid | rewrite clamp01_sigmoid | rewrite linearb_vadd
               | rewrite (vadd_comm _ (matvecb ROps _ _)), linearb_vadd ].
Ltac tie_vec_close :=
  first [ reflexivity | lra | ring | (unfold Rdiv; ring) | (field; lra)
        | (apply (f_equal2 pair); first [reflexivity | lra | ring])
        | (f_equal; first [reflexivity | lra | ring]) ].

(* elementwise vector operations of the tensor kernels (binary ones through [combine], like torch on equal shapes) *)
Definition vmul (a b : list R) : list R := map (fun p => (fst p * snd p)%R) (combine a b).
Definition vaddc (c : R) (a : list R) : list R := map (Rplus c) a.
Definition vatan2 (a b : list R) : list R := map (fun p => Ratan2 (fst p) (snd p)) (combine a b).

(* a pipeline of elementwise operations over four base vectors equals one map over the combined arguments:
   simultaneous induction, each component closed by ring / lra *)
Ltac tie_vec4 a b c d :=
  revert b c d; induction a as [|xa a IHa]; intros [|xb b] [|xc c] [|xd d]; cbn; try reflexivity;
  try (apply (f_equal2 Rplus);
       [first [reflexivity | lra | ring | (f_equal; first [lra | ring]) | (f_equal; f_equal; first [lra | ring])
              | (f_equal; f_equal; f_equal; first [lra | ring])] | apply IHa]).

Lemma dot_vadd_scale (s : R) (b : list R) : forall v vp : list bool, length v = length b -> length vp = length b ->
  dot ROps (vadd ROps (map (b2t ROps) v) (vscale ROps s (map (b2t ROps) vp))) b = (dotb ROps b v + s * dotb ROps b vp)%R.
Proof.
  induction b as [|x b IH]; intros [|bv v] [|bp vp] Hv Hp; cbn in Hv, Hp; try discriminate; cbn; [lra|].
  injection Hv as Hv. injection Hp as Hp. specialize (IH v vp Hv Hp).
  unfold vadd, vscale in IH. cbn in IH. rewrite IH. destruct bv, bp; cbn; lra.
Qed.

Lemma sum_vmul_dot (a b : list R) : sum ROps (vmul a b) = dot ROps a b.
Proof.
  unfold vmul. revert b; induction a as [|x a IH]; intros [|y b]; try reflexivity.
  cbn [combine map sum dot fst snd]. rewrite IH. reflexivity.
Qed.
Lemma dot_self_map (f : R -> R) (t : list R) : dot ROps t (map f t) = sum ROps (map (fun x => nmul ROps x (f x)) t).
Proof. induction t as [|x t IH]; [reflexivity|]. cbn [map dot sum]. rewrite IH. reflexivity. Qed.

(* ---- small grids for the bounded search of a kernel-level counterexample (a TEST, used only to label a broken tie) ---- *)
(* ---- entrywise complex kernels (harness/srctie.py, CplxTr): congruence by structure, leaves by ring ---- *)
Ltac tie_req :=
  first [ reflexivity | ring
        | (progress (rewrite ?sqrt_sqrt by nra); ring)       (* (sqrt n)^2 = n for n = re^2 + im^2 *)
        | (apply (f_equal2 Rdiv); tie_req) | (apply (f_equal sqrt); tie_req)
        | (apply (f_equal2 Rmult); tie_req) | (apply (f_equal2 Rplus); tie_req) | (apply (f_equal2 Rminus); tie_req)
        | (apply (f_equal Ropp); tie_req) ].
Ltac tie_cplx :=
  repeat match goal with x : (R * R)%type |- _ => destruct x end;
  cbn [fst snd]; unfold Rsqr; tie_comp; tie_req.

(* ---- region writes (harness/srctie.py, PairTr):  x[:, A] = y[:, A]  is  bmerge A y x ---- *)
Fixpoint bmerge (A : list bool) (y x : list bool) : list bool :=
  match A, x, y with
  | a :: A', xh :: x', yh :: y' => (if a then yh else xh) :: bmerge A' y' x'
  | _, _, _ => x
  end.
Lemma swap_mask_bmerge (A : list bool) : forall s1 s2 : list bool,
  QModel.Observables.swap_mask A s1 s2 = (bmerge A s2 s1, bmerge A s1 s2).
Proof.
  induction A as [|a A IH]; intros s1 s2; [destruct s1, s2; reflexivity|].
  destruct s1 as [|x s1], s2 as [|y s2]; try reflexivity.
  cbn [QModel.Observables.swap_mask bmerge]. rewrite IH. destruct a; reflexivity.
Qed.

Definition zgrid : list Z := [-3; -2; -1; 0; 1; 2; 3; 4; 5; 6; 7; 10; 12]%Z.
Definition ngrid : list nat := [0; 1; 2; 3; 4; 5; 6; 7; 10; 12]%nat.
Definition ongrid : list (option nat) := None :: map Some ngrid.
Definition bgrid : list bool := [false; true].
Definition first_bad {A : Type} (ok : A -> bool) (grid : list A) : option A := find (fun x => negb (ok x)) grid.
