(* TieLib.v — support for the source-translation tie (harness/srctie.py): the Gallina text generated
   from /repo's Python source on every run is stated over these helpers, and the equality theorems
   "generated kernel = hand-written model function" are closed by the tactics below. *)
From Coq Require Import List ZArith Bool Reals Lra Lia ZifyBool Psatz.
From QModel Require Import Num.
From QTheory Require Import RInst.
Import ListNotations.

Definition Rltb (a b : R) : bool := if Rlt_dec a b then true else false.
Definition Rleb (a b : R) : bool := if Rle_dec a b then true else false.
Definition Reqb (a b : R) : bool := if Req_EM_T a b then true else false.

(* floats that may be nan: None = nan; arithmetic propagates it *)
Definition olift1 (f : R -> R) (a : option R) : option R := option_map f a.
Definition olift2 (f : R -> R -> R) (a b : option R) : option R :=
  match a, b with Some x, Some y => Some (f x y) | _, _ => None end.

(* ceil(a / b) on Python ints (exact while the float quotient is exact) *)
Definition pyceil_div (a b : Z) : Z := (- ((- a) / b))%Z.
(* truthiness of an int-or-None *)
Definition truthy_oz (x : option Z) : bool := match x with Some v => negb (v =? 0)%Z | None => false end.

Lemma Rltb_true a b : Rltb a b = true <-> (a < b)%R.
Proof. unfold Rltb; destruct (Rlt_dec a b); split; intros; auto; try discriminate; contradiction. Qed.
Lemma Rltb_false a b : Rltb a b = false <-> ~ (a < b)%R.
Proof. unfold Rltb; destruct (Rlt_dec a b); split; intros; auto; try discriminate; contradiction. Qed.
Lemma Rleb_true a b : Rleb a b = true <-> (a <= b)%R.
Proof. unfold Rleb; destruct (Rle_dec a b); split; intros; auto; try discriminate; contradiction. Qed.
Lemma Rleb_false a b : Rleb a b = false <-> ~ (a <= b)%R.
Proof. unfold Rleb; destruct (Rle_dec a b); split; intros; auto; try discriminate; contradiction. Qed.
Lemma Reqb_true a b : Reqb a b = true <-> a = b.
Proof. unfold Reqb; destruct (Req_EM_T a b); split; intros; auto; try discriminate; contradiction. Qed.
Lemma Reqb_false a b : Reqb a b = false <-> a <> b.
Proof. unfold Reqb; destruct (Req_EM_T a b); split; intros; auto; try discriminate; contradiction. Qed.
Lemma nltb_R a b : nltb ROps a b = Rltb a b. Proof. reflexivity. Qed.

Lemma pyceil_div_nat (a b : nat) : (0 < b)%nat ->
  pyceil_div (Z.of_nat a) (Z.of_nat b) = Z.of_nat ((a + (b - 1)) / b).
Proof.
  intros Hb. unfold pyceil_div.
  rewrite Nat2Z.inj_div, Nat2Z.inj_add, Nat2Z.inj_sub by lia. simpl Z.of_nat.
  set (A := Z.of_nat a). set (B := Z.of_nat b). assert (HB : (0 < B)%Z) by (unfold B; lia). assert (HA : (0 <= A)%Z) by (unfold A; lia).
  pose proof (Z.div_mod (- A) B ltac:(lia)) as E1. pose proof (Z.mod_pos_bound (- A) B HB) as M1.
  pose proof (Z.div_mod (A + (B - 1)) B ltac:(lia)) as E2. pose proof (Z.mod_pos_bound (A + (B - 1)) B HB) as M2.
  nia.
Qed.

(* ---- tactics ---- *)
Ltac tie_bools :=
  repeat match goal with
  | H : Rltb _ _ = true |- _ => apply Rltb_true in H
  | H : Rltb _ _ = false |- _ => apply Rltb_false in H
  | H : Rleb _ _ = true |- _ => apply Rleb_true in H
  | H : Rleb _ _ = false |- _ => apply Rleb_false in H
  | H : Reqb _ _ = true |- _ => apply Reqb_true in H
  | H : Reqb _ _ = false |- _ => apply Reqb_false in H
  end.

Ltac tie_split :=
  repeat match goal with
  | |- context [match ?x with Some _ => _ | None => _ end] => is_var x; destruct x
  | H : context [match ?x with Some _ => _ | None => _ end] |- _ => is_var x; destruct x
  end;
  repeat match goal with
  | |- context [if ?c then _ else _] => let E := fresh "E" in destruct c eqn:E
  | |- context [match ?x with Some _ => _ | None => _ end] => let E := fresh "E" in destruct x eqn:E
  | H : context [if ?c then _ else _] |- _ => let E := fresh "E" in destruct c eqn:E
  end.

Ltac tie_nat :=
  repeat first
  [ rewrite Nat2Z.inj_add | rewrite Nat2Z.inj_mul | rewrite Nat2Z.inj_div | rewrite Nat2Z.inj_sub by lia
  | rewrite Z2Nat.id by lia | rewrite Nat2Z.id | rewrite Nat2Z.inj_min | rewrite Nat2Z.inj_max ].

Ltac tie_inj :=
  repeat match goal with
  | H : Some _ = Some _ |- _ => injection H as H; try subst
  | H : Some _ = None |- _ => discriminate H
  | H : None = Some _ |- _ => discriminate H
  | H : (_, _) = (_, _) |- _ => injection H as ?H ?H; try subst
  end.

(* integer goals with / and mod (Python's // and %, ceil of a quotient): Euclidean equations + nia *)
Ltac tie_minmax :=
  repeat match goal with
  | |- context [Nat.min ?a ?b] => let H := fresh in destruct (Nat.min_spec a b) as [[H ->]|[H ->]]
  | |- context [Nat.max ?a ?b] => let H := fresh in destruct (Nat.max_spec a b) as [[H ->]|[H ->]]
  | |- context [Z.min ?a ?b] => let H := fresh in destruct (Z.min_spec a b) as [[H ->]|[H ->]]
  | |- context [Z.max ?a ?b] => let H := fresh in destruct (Z.max_spec a b) as [[H ->]|[H ->]]
  end.
(* variables forced equal by the linear context (e.g. min a b = b together with ~ b < a) *)
Ltac tie_eqs :=
  repeat match goal with
  | a : nat, b : nat |- _ => assert (a = b) by lia; subst b
  | a : Z, b : Z |- _ => assert (a = b) by lia; subst b
  end.
Ltac tie_zarith1 := first [ lia | (exfalso; lia) | (tie_nat; simpl Z.of_nat; Z.to_euclidean_division_equations; nia) | (zify; Z.to_euclidean_division_equations; nia) ].
Ltac tie_zarith := first [ tie_zarith1 | (tie_minmax; first [tie_zarith1 | (tie_eqs; tie_zarith1)]) ].

(* real goals: non-zero divisors IZR d from the integer context, then push IZR through + - * and use field / lra *)
Ltac tie_nz :=
  repeat match goal with
  | |- context [Rdiv _ (IZR ?d)] =>
      lazymatch goal with
      | H : IZR d <> 0%R |- _ => fail
      | _ => assert (IZR d <> 0%R) by (apply not_0_IZR; lia)
      end
  end.
Ltac tie_push := repeat first [ rewrite plus_IZR in * | rewrite minus_IZR in * | rewrite mult_IZR in * | rewrite opp_IZR in * ].
Ltac tie_abs :=
  unfold Rabs in *; repeat match goal with
  | |- context [Rcase_abs ?x] => destruct (Rcase_abs x)
  | H : context [Rcase_abs ?x] |- _ => destruct (Rcase_abs x)
  end.
Ltac tie_real :=
  tie_bools; tie_nat; tie_nz; tie_push; simpl Z.of_nat;
  first [ reflexivity | lra | (field; repeat split; first [assumption | lra | auto]) | (tie_abs; tie_bools; first [lra | nra])
        | (field_simplify_eq; [first [lra | nra | ring] | repeat split; first [assumption | lra | auto]]) ].

Ltac tie_comp :=
  repeat match goal with
  | |- (_, _) = (_, _) => apply (f_equal2 pair)
  | |- Some _ = Some _ => apply f_equal
  end.
Ltac tie_close :=
  tie_inj;
  first [ reflexivity | (exfalso; lia) | discriminate | (exfalso; tie_bools; lra) | (exfalso; tie_bools; tie_abs; lra)
        | (tie_comp; first [reflexivity | tie_zarith | tie_real]) | idtac ].
