(* KronR.v — C04: the Kronecker sweep, its fast paths and the default dictionary, at T := R.
   Complex numbers are pairs (re, im) as in the library (CBase.v). *)
From Coq Require Import Nsatz.
From Coq Require Import List ZArith NArith Bool Arith Reals Lra Lia.
From QModel Require Import Num Bits CBase Unitaries KronIndex.
From QTheory Require Import RInst SumBits.
Import ListNotations.
Open Scope R_scope.

Local Notation cx := (CBase.cx (T:=R)).
Local Notation umat := (Unitaries.umat (T:=R)).
Local Notation "0c" := (c0 ROps).
Local Notation "1c" := (c1 ROps).
Local Notation "a +c b" := (cadd ROps a b) (at level 50, left associativity).
Local Notation "a *c b" := (cmul ROps a b) (at level 40, left associativity).
Local Notation conj := (cconj ROps).
Local Notation csum := (CBase.csum ROps).
Local Notation cnorm2 := (CBase.cnorm2 ROps).
Local Notation ue := (u_entry (T:=R)).

(* ------------------------------------------------------------------ complex arithmetic *)
Ltac cx_destruct :=
  repeat match goal with
         | z : _ |- _ =>
           match type of z with
           | CBase.cx => destruct z
           | (R * R)%type => destruct z
           end
         end.
Ltac cx_unfold :=
  unfold cadd, cmul, cconj, csub, copp, c0, c1, ci, cscale, CBase.cnorm2, cofR in *;
  cbn [fst snd nadd nsub nmul nopp n0 n1 ROps] in *.
Ltac cx_ring := intros; cx_destruct; cx_unfold; apply (f_equal2 (@pair R R)); ring.

Lemma cadd_comm (a b : cx) : a +c b = b +c a. Proof. cx_ring. Qed.
Lemma cadd_assoc (a b c : cx) : a +c b +c c = a +c (b +c c). Proof. cx_ring. Qed.
Lemma cadd_0_l (a : cx) : 0c +c a = a. Proof. cx_ring. Qed.
Lemma cadd_0_r (a : cx) : a +c 0c = a. Proof. cx_ring. Qed.
Lemma cmul_comm (a b : cx) : a *c b = b *c a. Proof. cx_ring. Qed.
Lemma cmul_assoc (a b c : cx) : a *c b *c c = a *c (b *c c). Proof. cx_ring. Qed.
Lemma cmul_1_l (a : cx) : 1c *c a = a. Proof. cx_ring. Qed.
Lemma cmul_1_r (a : cx) : a *c 1c = a. Proof. cx_ring. Qed.
Lemma cmul_0_l (a : cx) : 0c *c a = 0c. Proof. cx_ring. Qed.
Lemma cmul_0_r (a : cx) : a *c 0c = 0c. Proof. cx_ring. Qed.
Lemma cmul_cadd_distr_l (a b c : cx) : a *c (b +c c) = a *c b +c a *c c. Proof. cx_ring. Qed.
Lemma cmul_cadd_distr_r (a b c : cx) : (a +c b) *c c = a *c c +c b *c c. Proof. cx_ring. Qed.
Lemma cadd_swap4 (a b c d : cx) : (a +c b) +c (c +c d) = (a +c c) +c (b +c d). Proof. cx_ring. Qed.
Lemma conj_cadd (a b : cx) : conj (a +c b) = conj a +c conj b. Proof. cx_ring. Qed.
Lemma conj_cmul (a b : cx) : conj (a *c b) = conj a *c conj b. Proof. cx_ring. Qed.
Lemma conj_invol (a : cx) : conj (conj a) = a. Proof. cx_ring. Qed.
Lemma conj_0 : conj 0c = 0c. Proof. cx_unfold. apply (f_equal2 (@pair R R)); ring. Qed.
Lemma conj_1 : conj 1c = 1c. Proof. cx_unfold. apply (f_equal2 (@pair R R)); ring. Qed.
Lemma cmul_conj_norm (a : cx) : a *c conj a = (cnorm2 a, 0). Proof. cx_ring. Qed.
Lemma cnorm2_nonneg (a : cx) : 0 <= cnorm2 a.
Proof. cx_destruct; cx_unfold. nra. Qed.
Lemma fst_cadd (a b : cx) : fst (a +c b) = fst a + fst b. Proof. reflexivity. Qed.

(* ------------------------------------------------------------------ sums of complex numbers *)
Lemma csum_app (xs ys : list cx) : csum (xs ++ ys) = csum xs +c csum ys.
Proof. induction xs as [|x xs IH]; simpl; [symmetry; apply cadd_0_l | rewrite IH; symmetry; apply cadd_assoc]. Qed.

Lemma csum_map_cadd {A} (f g : A -> cx) l :
  csum (map (fun a => f a +c g a) l) = csum (map f l) +c csum (map g l).
Proof. induction l as [|a l IH]; simpl; [symmetry; apply cadd_0_l | rewrite IH; apply cadd_swap4]. Qed.

Lemma csum_map_cmul_l {A} (c : cx) (f : A -> cx) l :
  csum (map (fun a => c *c f a) l) = c *c csum (map f l).
Proof. induction l as [|a l IH]; simpl; [symmetry; apply cmul_0_r | rewrite IH; symmetry; apply cmul_cadd_distr_l]. Qed.

Lemma csum_map_ext {A} (f g : A -> cx) l :
  (forall a, In a l -> f a = g a) -> csum (map f l) = csum (map g l).
Proof.
  induction l as [|a l IH]; simpl; intros H; [reflexivity|].
  rewrite (H a (or_introl eq_refl)), IH; [reflexivity | intros; apply H; right; assumption].
Qed.

Lemma conj_csum_map {A} (f : A -> cx) l : conj (csum (map f l)) = csum (map (fun a => conj (f a)) l).
Proof. induction l as [|a l IH]; simpl; [apply conj_0 | rewrite conj_cadd, IH; reflexivity]. Qed.

Lemma fst_csum_map {A} (f : A -> cx) l : fst (csum (map f l)) = sum ROps (map (fun a => fst (f a)) l).
Proof. induction l as [|a l IH]; simpl; [reflexivity | rewrite IH; reflexivity]. Qed.

(* sum over all bit strings of length n, as a recursor (complex-valued) *)
Fixpoint csum_bits (n : nat) (f : bits -> cx) : cx :=
  match n with
  | O => f []
  | S m => csum_bits m (fun s => f (false :: s)) +c csum_bits m (fun s => f (true :: s))
  end.

Lemma csum_all_bits n f : csum (map f (all_bits n)) = csum_bits n f.
Proof.
  revert f; induction n as [|n IH]; intros f; simpl; [apply cadd_0_r|].
  rewrite map_app, csum_app, !map_map, !IH. reflexivity.
Qed.

Lemma csum_bits_ext n f g : (forall s, length s = n -> f s = g s) -> csum_bits n f = csum_bits n g.
Proof.
  revert f g; induction n as [|n IH]; simpl; intros f g H; [apply H; reflexivity|].
  f_equal; apply IH; intros s Hs; apply H; simpl; congruence.
Qed.

Lemma csum_bits_cadd n f g : csum_bits n (fun s => f s +c g s) = csum_bits n f +c csum_bits n g.
Proof. revert f g; induction n as [|n IH]; simpl; intros; [reflexivity | rewrite !IH; apply cadd_swap4]. Qed.

Lemma csum_bits_cmul_l n c f : csum_bits n (fun s => c *c f s) = c *c csum_bits n f.
Proof. revert f; induction n as [|n IH]; simpl; intros; [reflexivity | rewrite !IH; symmetry; apply cmul_cadd_distr_l]. Qed.

Lemma csum_bits_cmul_r n c f : csum_bits n (fun s => f s *c c) = csum_bits n f *c c.
Proof. revert f; induction n as [|n IH]; simpl; intros; [reflexivity | rewrite !IH; symmetry; apply cmul_cadd_distr_r]. Qed.

Lemma csum_bits_0 n : csum_bits n (fun _ => 0c) = 0c.
Proof. induction n as [|n IH]; simpl; [reflexivity | rewrite IH; apply cadd_0_l]. Qed.

Lemma csum_bits_conj n f : conj (csum_bits n f) = csum_bits n (fun s => conj (f s)).
Proof. revert f; induction n as [|n IH]; simpl; intros; [reflexivity | rewrite conj_cadd, !IH; reflexivity]. Qed.

Lemma csum_bits_swap n m (f : bits -> bits -> cx) :
  csum_bits n (fun s => csum_bits m (fun t => f s t)) = csum_bits m (fun t => csum_bits n (fun s => f s t)).
Proof.
  revert f; induction n as [|n IH]; simpl; intros f; [reflexivity|].
  rewrite !IH, <- csum_bits_cadd. reflexivity.
Qed.

Lemma fst_csum_bits n f : fst (csum_bits n f) = sum_bits n (fun s => fst (f s)).
Proof. revert f; induction n as [|n IH]; simpl; intros; [reflexivity | rewrite !IH; reflexivity]. Qed.

(* ------------------------------------------------------------------ indices of basis states *)
Fixpoint idxn (s : bits) : nat :=
  match s with [] => O | b :: r => ((if b then 2 ^ length r else 0) + idxn r)%nat end.

Lemma powers_succ n : powers (S n) = (2 ^ N.of_nat n)%N :: powers n.
Proof.
  unfold powers. rewrite seq_S, rev_app_distr. cbn [rev app map Nat.add].
  replace (S n - 1)%nat with n by lia. reflexivity.
Qed.

Lemma idx_cons b s : idx (b :: s) = ((if b then 2 ^ N.of_nat (length s) else 0) + idx s)%N.
Proof. unfold idx. cbn [length]. rewrite powers_succ. reflexivity. Qed.

Lemma pow2_N_nat n : N.to_nat (2 ^ N.of_nat n) = (2 ^ n)%nat.
Proof.
  induction n as [|n IH]; [reflexivity|].
  rewrite Nat2N.inj_succ, N.pow_succ_r', N2Nat.inj_mul, IH. rewrite Nat.pow_succ_r'. reflexivity.
Qed.

Lemma idx_idxn s : N.to_nat (idx s) = idxn s.
Proof.
  induction s as [|b s IH]; [reflexivity|].
  rewrite idx_cons, N2Nat.inj_add, IH. cbn [idxn]. destruct b; [rewrite pow2_N_nat|]; reflexivity.
Qed.

Lemma idxn_lt s : (idxn s < 2 ^ length s)%nat.
Proof.
  induction s as [|b s IH]; cbn [idxn length]; [simpl; lia|].
  rewrite Nat.pow_succ_r'. destruct b; lia.
Qed.

Lemma nth_idxn_all_bits n s : length s = n -> nth (idxn s) (all_bits n) [] = s.
Proof.
  revert s; induction n as [|n IH]; intros s Hs.
  - destruct s; [reflexivity | discriminate].
  - destruct s as [|b s]; [discriminate|]. injection Hs as Hs.
    pose proof (idxn_lt s) as Hlt. rewrite Hs in Hlt.
    cbn [all_bits idxn]. rewrite Hs. destruct b.
    + rewrite app_nth2 by (rewrite map_length, all_bits_len; lia).
      rewrite map_length, all_bits_len.
      replace (2 ^ n + idxn s - 2 ^ n)%nat with (idxn s) by lia.
      rewrite (nth_indep _ [] (true :: [])) by (rewrite map_length, all_bits_len; exact Hlt).
      change [true] with ((cons true) []). rewrite map_nth, IH by exact Hs. reflexivity.
    + rewrite app_nth1 by (rewrite map_length, all_bits_len; exact Hlt). cbn [Nat.add].
      rewrite (nth_indep _ [] (false :: [])) by (rewrite map_length, all_bits_len; exact Hlt).
      change [false] with ((cons false) []). rewrite map_nth, IH by exact Hs. reflexivity.
Qed.

(* reading a flat array at idx *)
Local Notation arr_fun := (psi_of_array ROps).

Lemma arr_fun_map n (g : bits -> cx) s : length s = n -> arr_fun (map g (all_bits n)) s = g s.
Proof.
  intros Hs. unfold psi_of_array. rewrite idx_idxn.
  pose proof (idxn_lt s) as Hlt. rewrite Hs in Hlt.
  rewrite (nth_indep _ _ (g [])) by (rewrite map_length, all_bits_len; exact Hlt).
  rewrite map_nth, nth_idxn_all_bits by exact Hs. reflexivity.
Qed.

Lemma firstn_app_len {A} (a b : list A) : firstn (length a) (a ++ b) = a.
Proof. induction a; simpl; [destruct b; reflexivity | f_equal; assumption]. Qed.
Lemma skipn_app_len {A} (a b : list A) : skipn (length a) (a ++ b) = b.
Proof. induction a; simpl; [reflexivity | assumption]. Qed.

Lemma enum_by_idxn {A} (d : A) n (x : list A) :
  length x = (2 ^ n)%nat -> map (fun s => nth (idxn s) x d) (all_bits n) = x.
Proof.
  revert x; induction n as [|n IH]; intros x Hx.
  - destruct x as [|a [|b x]]; try discriminate. reflexivity.
  - rewrite Nat.pow_succ_r' in Hx.
    set (x0 := firstn (2 ^ n) x). set (x1 := skipn (2 ^ n) x).
    assert (Hx' : x = x0 ++ x1) by (symmetry; apply firstn_skipn).
    assert (H0 : length x0 = (2 ^ n)%nat) by (unfold x0; rewrite firstn_length; lia).
    assert (H1 : length x1 = (2 ^ n)%nat) by (unfold x1; rewrite skipn_length; lia).
    transitivity (map (fun s => nth (idxn s) x0 d) (all_bits n) ++ map (fun s => nth (idxn s) x1 d) (all_bits n));
      [| rewrite (IH x0 H0), (IH x1 H1); symmetry; exact Hx'].
    cbn [all_bits]. rewrite map_app, !map_map.
    f_equal; apply map_ext_in; intros s Hs; apply all_bits_length in Hs;
      cbn [idxn]; try rewrite Hs;
      pose proof (idxn_lt s) as Hlt; rewrite Hs in Hlt; rewrite Hx'.
    + cbn [Nat.add]. apply app_nth1. lia.
    + rewrite app_nth2 by lia. f_equal. lia.
Qed.

Lemma array_as_fun n (x : list cx) : length x = (2 ^ n)%nat -> map (arr_fun x) (all_bits n) = x.
Proof.
  intros Hx. rewrite <- (enum_by_idxn 0c n x Hx) at 2.
  apply map_ext. intros s. unfold psi_of_array. rewrite idx_idxn. reflexivity.
Qed.

(* ------------------------------------------------------------------ 1. the sweep is the dense product *)
(* (U psi)(s) = sum_{s'} (prod_j U_j[s_j, s'_j]) psi(s') *)
Definition dense_fun (us : list umat) (psi : bits -> cx) (s : bits) : cx :=
  csum_bits (length us) (fun s' => kron_entry ROps us s s' *c psi s').

Lemma dense_fun_cons u us psi b s :
  dense_fun (u :: us) psi (b :: s) =
  ue u b false *c dense_fun us (fun t => psi (false :: t)) s
  +c ue u b true *c dense_fun us (fun t => psi (true :: t)) s.
Proof.
  unfold dense_fun. cbn [length csum_bits kron_entry].
  rewrite <- !csum_bits_cmul_l.
  f_equal; apply csum_bits_ext; intros; apply cmul_assoc.
Qed.

Lemma cvadd_map {A} (f g : A -> cx) l :
  cvadd ROps (map f l) (map g l) = map (fun a => f a +c g a) l.
Proof. unfold cvadd. induction l as [|a l IH]; simpl; [reflexivity | f_equal; exact IH]. Qed.

Lemma cvscale_map {A} c (f : A -> cx) l : cvscale ROps c (map f l) = map (fun a => c *c f a) l.
Proof. unfold cvscale. apply map_map. Qed.

Lemma kron_struct_fun us psi :
  kron_struct ROps us (map psi (all_bits (length us))) = map (dense_fun us psi) (all_bits (length us)).
Proof.
  revert psi; induction us as [|u us IH]; intros psi.
  - cbn. unfold dense_fun. cbn. rewrite cmul_1_l. reflexivity.
  - cbn [length all_bits kron_struct]. rewrite !map_app, !map_map.
    set (a := map (fun t => psi (false :: t)) (all_bits (length us))).
    set (b := map (fun t => psi (true :: t)) (all_bits (length us))).
    assert (Ha : length a = (2 ^ length us)%nat) by (unfold a; rewrite map_length; apply all_bits_len).
    assert (Hb : length b = (2 ^ length us)%nat) by (unfold b; rewrite map_length; apply all_bits_len).
    replace (Nat.div (length (a ++ b)) 2) with (length a)
      by (rewrite app_length, Ha, Hb; replace (2 ^ length us + 2 ^ length us)%nat with (2 ^ length us * 2)%nat by lia;
          symmetry; apply Nat.div_mul; lia).
    rewrite firstn_app_len, skipn_app_len. unfold a, b. rewrite !IH.
    rewrite !cvscale_map, !cvadd_map.
    f_equal; apply map_ext; intros s; symmetry; apply dense_fun_cons.
Qed.

Lemma combine_map_self {A B} (f : A -> B) l : combine l (map f l) = map (fun a => (a, f a)) l.
Proof. induction l; simpl; [reflexivity | f_equal; assumption]. Qed.

Lemma dense_apply_fun us psi :
  dense_apply ROps us (map psi (all_bits (length us))) = map (dense_fun us psi) (all_bits (length us)).
Proof.
  unfold dense_apply. apply map_ext; intros s.
  rewrite combine_map_self, map_map. cbn [fst snd]. apply csum_all_bits.
Qed.

Theorem kron_struct_is_dense us (x : list cx) :
  length x = (2 ^ length us)%nat -> kron_struct ROps us x = dense_apply ROps us x.
Proof.
  intros Hx. rewrite <- (array_as_fun _ x Hx). rewrite kron_struct_fun, dense_apply_fun. reflexivity.
Qed.

(* entry form: entry idx s of the sweep is the dense-product entry *)
Theorem kron_struct_entry us (x : list cx) s :
  length x = (2 ^ length us)%nat -> length s = length us ->
  arr_fun (kron_struct ROps us x) s = csum_bits (length us) (fun s' => kron_entry ROps us s s' *c arr_fun x s').
Proof.
  intros Hx Hs. rewrite <- (array_as_fun _ x Hx) at 1. rewrite kron_struct_fun.
  rewrite arr_fun_map by exact Hs. reflexivity.
Qed.

Lemma kron_struct_length us (x : list cx) :
  length x = (2 ^ length us)%nat -> length (kron_struct ROps us x) = (2 ^ length us)%nat.
Proof.
  intros Hx. rewrite <- (array_as_fun _ x Hx), kron_struct_fun, map_length. apply all_bits_len.
Qed.

(* ------------------------------------------------------------------ 6. 2x2 matrices, the default dictionary *)
Definition m2mul (a b : umat) : umat :=
  ((ue a false false *c ue b false false +c ue a false true *c ue b true false,
    ue a false false *c ue b false true +c ue a false true *c ue b true true),
   (ue a true false *c ue b false false +c ue a true true *c ue b true false,
    ue a true false *c ue b false true +c ue a true true *c ue b true true)).
Definition m2dag (a : umat) : umat :=
  ((conj (ue a false false), conj (ue a true false)), (conj (ue a false true), conj (ue a true true))).
Definition m2id : umat := ((1c, 0c), (0c, 1c)).
(* U U^dagger = I; for 2x2 matrices this gives U^dagger U = I as well *)
Definition unitary2 (u : umat) : Prop := m2mul u (m2dag u) = m2id.

Lemma unitary2_cols (u : umat) : unitary2 u -> m2mul (m2dag u) u = m2id.
Proof.
  unfold unitary2. destruct u as [[[p1 p2] [q1 q2]] [[r1 r2] [t1 t2]]].
  unfold m2mul, m2dag, m2id, u_entry. cbn [fst snd]. cx_unfold. intros H.
  injection H as H1 H2 H3 H4 H5 H6 H7 H8.
  repeat apply (f_equal2 pair); nsatz.
Qed.

Definition pauli_X : umat := ((0c, 1c), (1c, 0c)).
Definition pauli_Y : umat := ((0c, (0, -1)), ((0, 1), 0c)).
Definition pauli_Z : umat := ((1c, 0c), (0c, (-1, 0))).   (* also diag(+1, -1), the eigenvalue matrix *)

Lemma inv_sqrt2_sq : inv_sqrt2 ROps * inv_sqrt2 ROps = 1 / 2.
Proof.
  unfold inv_sqrt2. rewrite two_R. cbn [ndiv nsqrt n1 ROps].
  assert (H : sqrt 2 * sqrt 2 = 2) by (apply sqrt_sqrt; lra).
  assert (Hp : 0 < sqrt 2) by (apply sqrt_lt_R0; lra).
  replace (1 / sqrt 2 * (1 / sqrt 2)) with (1 / (sqrt 2 * sqrt 2)) by (field; lra).
  rewrite H. reflexivity.
Qed.

Ltac m2_solve :=
  unfold m2mul, m2dag, m2id, pauli_X, pauli_Y, pauli_Z, U_X, U_Y, U_Z, u_entry; cbn [fst snd];
  pose proof inv_sqrt2_sq as Hs; generalize dependent (inv_sqrt2 ROps); intros s Hs;
  cx_unfold;
  repeat apply (f_equal2 pair); nra.

Lemma lookup_Z user : lookup ROps user LZ = m2id. Proof. reflexivity. Qed.
Lemma U_Z_unitary : unitary2 (U_Z ROps). Proof. unfold unitary2. m2_solve. Qed.
Lemma U_X_unitary : unitary2 (U_X ROps). Proof. unfold unitary2. m2_solve. Qed.
Lemma U_Y_unitary : unitary2 (U_Y ROps). Proof. unfold unitary2. m2_solve. Qed.
(* rows of U_b are the bras of the +1 / -1 eigenvectors of Pauli b:  U_b P_b = diag(1,-1) U_b *)
Lemma U_X_rows_eigen : m2mul (U_X ROps) pauli_X = m2mul pauli_Z (U_X ROps). Proof. m2_solve. Qed.
Lemma U_Y_rows_eigen : m2mul (U_Y ROps) pauli_Y = m2mul pauli_Z (U_Y ROps). Proof. m2_solve. Qed.
Lemma U_Z_rows_eigen : m2mul (U_Z ROps) pauli_Z = m2mul pauli_Z (U_Z ROps). Proof. m2_solve. Qed.
(* the Paulis themselves, to pin the reading: Hermitian, square to the identity *)
Lemma pauli_Y_hermitian : m2dag pauli_Y = pauli_Y. Proof. m2_solve. Qed.
Lemma pauli_XY_is_iZ : m2mul pauli_X pauli_Y = ((( 0, 1), 0c), (0c, (0, -1))). Proof. m2_solve. Qed.

(* what column-orthonormality gives: the 2x2 block preserves |a|^2 + |b|^2 *)
Lemma iso2_norm (u : umat) (a b : cx) :
  m2mul (m2dag u) u = m2id ->
  cnorm2 (ue u false false *c a +c ue u false true *c b) + cnorm2 (ue u true false *c a +c ue u true true *c b)
  = cnorm2 a + cnorm2 b.
Proof.
  destruct u as [[[p1 p2] [q1 q2]] [[r1 r2] [t1 t2]]]. destruct a as [a1 a2]. destruct b as [b1 b2].
  unfold m2mul, m2dag, m2id, u_entry. cbn [fst snd]. cx_unfold. intros H.
  injection H as H1 H2 H3 H4 H5 H6 H7 H8.
  nsatz.
Qed.

(* ------------------------------------------------------------------ 4. the inner-product fast path *)
Local Notation lk := (lookup ROps).

Lemma csum_bits_zero_term n (h k : bits -> cx) : csum_bits n (fun s => 0c *c h s *c k s) = 0c.
Proof.
  rewrite (csum_bits_ext _ _ (fun _ => 0c)) by (intros; rewrite cmul_0_l; apply cmul_0_l).
  apply csum_bits_0.
Qed.
Lemma csum_bits_one_term n (h k : bits -> cx) :
  csum_bits n (fun s => 1c *c h s *c k s) = csum_bits n (fun s => h s *c k s).
Proof. apply csum_bits_ext; intros; rewrite cmul_1_l; reflexivity. Qed.

(* summing Ut(v) g(v) over the expansions of the measured outcome = the full dense row sum:
   the identity factors on Z sites kill every other term *)
Lemma fastpath_gen user basis : forall (g : bits -> cx) s, length s = length basis ->
  csum (map (fun v => ut_coeff ROps user basis s v *c g v) (expansions basis s))
  = csum_bits (length basis) (fun s' => kron_entry ROps (map (lk user) basis) s s' *c g s').
Proof.
  induction basis as [|a basis IH]; intros g s Hs.
  - destruct s; [|discriminate]. cbn. apply cadd_0_r.
  - destruct s as [|b s]; [discriminate|]. injection Hs as Hs.
    cbn [expansions ut_coeff length map csum_bits kron_entry].
    destruct (is_Z a) eqn:Hz.
    + assert (Ha : lk user a = U_Z ROps) by (destruct a; try discriminate; reflexivity).
      rewrite Ha, map_map. cbn [ut_coeff]. rewrite ?Hz.
      rewrite (IH (fun t => g (b :: t)) s Hs).
      destruct b; unfold U_Z, u_entry; cbn [fst snd].
      * rewrite csum_bits_zero_term, csum_bits_one_term, cadd_0_l. reflexivity.
      * rewrite csum_bits_zero_term, csum_bits_one_term, cadd_0_r. reflexivity.
    + rewrite map_app, csum_app, !map_map. cbn [ut_coeff]. rewrite ?Hz.
      f_equal.
      * rewrite (csum_map_ext _ (fun v => ue (lk user a) b false *c (ut_coeff ROps user basis s v *c g (false :: v))))
          by (intros; apply cmul_assoc).
        rewrite csum_map_cmul_l, (IH (fun t => g (false :: t)) s Hs), <- csum_bits_cmul_l.
        apply csum_bits_ext; intros; symmetry; apply cmul_assoc.
      * rewrite (csum_map_ext _ (fun v => ue (lk user a) b true *c (ut_coeff ROps user basis s v *c g (true :: v))))
          by (intros; apply cmul_assoc).
        rewrite csum_map_cmul_l, (IH (fun t => g (true :: t)) s Hs), <- csum_bits_cmul_l.
        apply csum_bits_ext; intros; symmetry; apply cmul_assoc.
Qed.

Theorem inner_prod_fastpath user basis (psi : bits -> cx) s :
  length s = length basis ->
  inner_prod1 ROps user basis psi s = dense_fun (map (lk user) basis) psi s.
Proof.
  intros Hs. unfold inner_prod1, dense_fun. rewrite map_length. apply fastpath_gen; exact Hs.
Qed.

Theorem inner_prod_fastpath_batch user basis (psi : bits -> cx) states :
  Forall (fun s => length s = length basis) states ->
  rotate_psi_inner_prod ROps user basis psi states = map (dense_fun (map (lk user) basis) psi) states.
Proof.
  intros H. unfold rotate_psi_inner_prod. apply map_ext_in. intros s Hin.
  apply inner_prod_fastpath. rewrite Forall_forall in H. apply H; exact Hin.
Qed.

(* explicit-psi path: the fast path returns the entries (at idx s) of the swept vector *)
Theorem inner_prod_fastpath_explicit user basis (arr : list cx) states :
  length arr = (2 ^ length basis)%nat ->
  Forall (fun s => length s = length basis) states ->
  rotate_psi_inner_prod ROps user basis (arr_fun arr) states
  = map (arr_fun (rotate_psi ROps user basis arr)) states.
Proof.
  intros Ha H. rewrite inner_prod_fastpath_batch by exact H.
  apply map_ext_in. intros s Hin. rewrite Forall_forall in H. specialize (H s Hin).
  unfold rotate_psi. rewrite kron_struct_entry by (rewrite map_length; assumption). reflexivity.
Qed.

(* ------------------------------------------------------------------ 7. norm preservation *)
Theorem dense_preserves_norm us : Forall unitary2 us -> forall psi : bits -> cx,
  sum_bits (length us) (fun s => cnorm2 (dense_fun us psi s)) = sum_bits (length us) (fun s => cnorm2 (psi s)).
Proof.
  induction 1 as [|u us Hu Hus IH]; intros psi.
  - cbn [length sum_bits]. unfold dense_fun. cbn [length csum_bits kron_entry]. rewrite cmul_1_l. reflexivity.
  - cbn [length sum_bits].
    rewrite <- (IH (fun t => psi (false :: t))), <- (IH (fun t => psi (true :: t))).
    rewrite <- !sum_bits_plus. apply sum_bits_ext.
    intros s _. rewrite !dense_fun_cons. apply iso2_norm. apply unitary2_cols; exact Hu.
Qed.

Theorem rotated_probs_sum user basis (arr : list cx) :
  length arr = (2 ^ length basis)%nat ->
  Forall unitary2 (map (lk user) basis) ->
  sum ROps (map cnorm2 (rotate_psi ROps user basis arr)) = sum ROps (map cnorm2 arr).
Proof.
  intros Ha Hu. unfold rotate_psi.
  rewrite <- (map_length (lk user) basis) in Ha.
  set (us := map (lk user) basis) in *.
  rewrite <- (array_as_fun _ arr Ha).
  rewrite kron_struct_fun, !map_map, !sum_all_bits.
  apply dense_preserves_norm. exact Hu.
Qed.

Lemma rotated_probs_nonneg user basis (arr : list cx) :
  Forall (fun p => 0 <= p) (map cnorm2 (rotate_psi ROps user basis arr)).
Proof. apply Forall_forall. intros p Hp. apply in_map_iff in Hp. destruct Hp as [z [<- _]]. apply cnorm2_nonneg. Qed.

(* the default letters (and hence every string over X, Y, Z) satisfy the hypothesis *)
Lemma default_letters_unitary user basis :
  Forall (fun a => match a with LU _ => False | _ => True end) basis ->
  Forall unitary2 (map (lk user) basis).
Proof.
  induction 1 as [|a basis Ha _ IH]; [constructor|].
  cbn [map]. constructor; [|exact IH].
  destruct a; [apply U_X_unitary | apply U_Y_unitary | apply U_Z_unitary | contradiction].
Qed.

(* ------------------------------------------------------------------ 3./5. density matrices *)
(* (U rho U^dagger)(s,t) = sum_a U(s,a) sum_b rho(a,b) conj(U(t,b)) *)
Definition UrhoUdag_fun (us : list umat) (rho : bits -> bits -> cx) (s t : bits) : cx :=
  csum_bits (length us) (fun a => kron_entry ROps us s a *c
    csum_bits (length us) (fun b => rho a b *c conj (kron_entry ROps us t b))).

Lemma cx_aux1 (a b c : cx) : a *c conj (b *c conj c) = a *c conj b *c c. Proof. cx_ring. Qed.
Lemma cx_aux2 (a b : cx) : conj (a *c conj b) = b *c conj a. Proof. cx_ring. Qed.

Lemma UrhoUdag_alt us rho s t :
  UrhoUdag_fun us rho s t = dense_fun us (fun a => conj (dense_fun us (fun b => conj (rho a b)) t)) s.
Proof.
  unfold UrhoUdag_fun, dense_fun. apply csum_bits_ext; intros a _. f_equal.
  rewrite csum_bits_conj. apply csum_bits_ext; intros b _. symmetry; apply cx_aux2.
Qed.

Theorem rho_prob1_fastpath user basis (rho : bits -> bits -> cx) s :
  length s = length basis ->
  rho_prob1 ROps user basis rho s = fst (UrhoUdag_fun (map (lk user) basis) rho s s).
Proof.
  intros Hs. unfold rho_prob1. cbv zeta. set (vs := expansions basis s).
  set (ut := ut_coeff ROps user basis s).
  transitivity (fst (csum (map (fun vi => csum (map (fun vj => ut vi *c conj (ut vj) *c rho vi vj) vs)) vs))).
  { rewrite fst_csum_map. apply sum_map_ext. intros vi _. rewrite fst_csum_map. reflexivity. }
  f_equal. rewrite UrhoUdag_alt. unfold dense_fun at 1. rewrite map_length.
  rewrite <- (fastpath_gen user basis _ s Hs). fold vs. fold ut.
  apply csum_map_ext. intros vi _. f_equal.
  unfold dense_fun. rewrite map_length. rewrite <- (fastpath_gen user basis _ s Hs). fold vs; fold ut.
  rewrite conj_csum_map, <- csum_map_cmul_l.
  apply csum_map_ext. intros vj _. symmetry. apply cx_aux1.
Qed.

Theorem rho_probs_fastpath_batch user basis (rho : bits -> bits -> cx) states :
  Forall (fun s => length s = length basis) states ->
  rotate_rho_probs ROps user basis rho states
  = map (fun s => fst (UrhoUdag_fun (map (lk user) basis) rho s s)) states.
Proof.
  intros H. unfold rotate_rho_probs. apply map_ext_in. intros s Hin.
  apply rho_prob1_fastpath. rewrite Forall_forall in H. apply H; exact Hin.
Qed.

(* matrices as functions of two basis states *)
Definition rho_mat (n : nat) (f : bits -> bits -> cx) : list (list cx) :=
  map (fun s => map (fun t => f s t) (all_bits n)) (all_bits n).
Local Notation mat_fun := (rho_of_array ROps).

Lemma rho_mat_length n f : length (rho_mat n f) = (2 ^ n)%nat.
Proof. unfold rho_mat. rewrite map_length. apply all_bits_len. Qed.

Lemma map_seq_nth {A B} (H : A -> B) l d : map (fun j => H (nth j l d)) (seq 0 (length l)) = map H l.
Proof.
  induction l as [|a l IH]; [reflexivity|].
  cbn [length seq map nth]. f_equal. rewrite <- seq_shift, map_map. exact IH.
Qed.

Lemma transpose_rho_mat n f : transpose_c ROps (2 ^ n) (rho_mat n f) = rho_mat n (fun s t => f t s).
Proof.
  unfold transpose_c, rho_mat. rewrite <- (all_bits_len n).
  rewrite <- (map_seq_nth (fun t => map (fun s => f s t) (all_bits n)) (all_bits n) []).
  apply map_ext_in. intros j Hj. apply in_seq in Hj. rewrite map_map. apply map_ext. intros s.
  rewrite (nth_indep _ 0c (f s [])) by (rewrite map_length; lia).
  apply (map_nth (fun t => f s t)).
Qed.

Lemma rho_mat_ext n f g :
  (forall s t, length s = n -> length t = n -> f s t = g s t) -> rho_mat n f = rho_mat n g.
Proof.
  intros H. unfold rho_mat. apply map_ext_in. intros s Hs. apply map_ext_in. intros t Ht.
  apply H; apply all_bits_length; assumption.
Qed.

Lemma kron_rows_rho_mat us f :
  kron_rows ROps us (rho_mat (length us) f)
  = rho_mat (length us) (fun s t => dense_fun us (fun a => f a t) s).
Proof.
  unfold kron_rows. rewrite rho_mat_length, transpose_rho_mat.
  replace (map (kron_struct ROps us) (rho_mat (length us) (fun s t => f t s)))
    with (rho_mat (length us) (fun s t => dense_fun us (fun a => f a s) t)).
  - apply transpose_rho_mat.
  - unfold rho_mat. rewrite map_map. apply map_ext. intros s. symmetry. apply kron_struct_fun.
Qed.

Lemma conj_transpose_rho_mat n f : conj_transpose ROps (rho_mat n f) = rho_mat n (fun s t => conj (f t s)).
Proof.
  unfold conj_transpose. rewrite rho_mat_length, transpose_rho_mat. unfold rho_mat.
  rewrite map_map. apply map_ext. intros s. apply map_map.
Qed.

Theorem rotate_rho_fun user basis f :
  rotate_rho ROps user basis (rho_mat (length basis) f)
  = let us := map (lk user) basis in
    rho_mat (length basis) (fun s t => conj (dense_fun us (fun b => conj (dense_fun us (fun a => f a b) s)) t)).
Proof.
  cbv zeta. unfold rotate_rho. cbv zeta. set (us := map (lk user) basis).
  replace (length basis) with (length us) by apply map_length.
  rewrite kron_rows_rho_mat, conj_transpose_rho_mat, kron_rows_rho_mat, conj_transpose_rho_mat. reflexivity.
Qed.

Definition hermitian_fun (n : nat) (f : bits -> bits -> cx) : Prop :=
  forall a b, length a = n -> length b = n -> f b a = conj (f a b).

Lemma cx_aux2b (k x : cx) : conj (k *c conj x) = conj k *c x. Proof. cx_ring. Qed.
Lemma cx_aux2c (k l x : cx) : conj k *c (l *c x) = l *c (x *c conj k). Proof. cx_ring. Qed.

(* no hypothesis on rho: every complex matrix (fix 209e65c; before it, only Hermitian ones) *)
Theorem rotate_rho_is_UrhoUdag user basis f :
  rotate_rho ROps user basis (rho_mat (length basis) f)
  = rho_mat (length basis) (UrhoUdag_fun (map (lk user) basis) f).
Proof.
  rewrite rotate_rho_fun. cbv zeta. apply rho_mat_ext. intros s t Hs Ht.
  unfold UrhoUdag_fun, dense_fun. rewrite map_length.
  rewrite csum_bits_conj.
  transitivity (csum_bits (length basis) (fun b => csum_bits (length basis) (fun a =>
     kron_entry ROps (map (lk user) basis) s a *c (f a b *c conj (kron_entry ROps (map (lk user) basis) t b))))).
  - apply csum_bits_ext; intros b _. rewrite cx_aux2b, <- csum_bits_cmul_l.
    apply csum_bits_ext; intros a _. apply cx_aux2c.
  - rewrite csum_bits_swap. apply csum_bits_ext; intros a _. rewrite csum_bits_cmul_l. reflexivity.
Qed.

(* every well-shaped array is the matrix of the function reading it *)
Lemma rho_array_as_fun n (arr : list (list cx)) :
  length arr = (2 ^ n)%nat -> Forall (fun row => length row = (2 ^ n)%nat) arr ->
  rho_mat n (mat_fun arr) = arr.
Proof.
  intros Ha Hr. rewrite <- (enum_by_idxn [] n arr Ha) at 2.
  unfold rho_mat. apply map_ext_in. intros s Hs.
  unfold rho_of_array. rewrite idx_idxn.
  assert (Hl : length (nth (idxn s) arr []) = (2 ^ n)%nat).
  { rewrite Forall_forall in Hr. apply Hr. apply nth_In. rewrite Ha.
    apply all_bits_length in Hs. rewrite <- Hs. apply idxn_lt. }
  transitivity (map (arr_fun (nth (idxn s) arr [])) (all_bits n)); [reflexivity | apply array_as_fun; exact Hl].
Qed.

Lemma mat_fun_rho_mat n f s t : length s = n -> length t = n -> mat_fun (rho_mat n f) s t = f s t.
Proof.
  intros Hs Ht. unfold rho_of_array, rho_mat. rewrite (idx_idxn s).
  pose proof (idxn_lt s) as Hls. rewrite Hs in Hls.
  rewrite (nth_indep _ [] ((fun s => map (fun t => f s t) (all_bits n)) [])) by (rewrite map_length, all_bits_len; exact Hls).
  rewrite (map_nth (fun s => map (fun t => f s t) (all_bits n))), nth_idxn_all_bits by exact Hs.
  change (arr_fun (map (fun t => f s t) (all_bits n)) t = f s t). apply arr_fun_map. exact Ht.
Qed.

Definition hermitian_arr (arr : list (list cx)) : Prop :=
  forall i j, nth i (nth j arr []) 0c = conj (nth j (nth i arr []) 0c).

(* explicit arrays: rotate_rho = U rho U^dagger entrywise, and the fast path reads its diagonal *)
Theorem rotate_rho_explicit user basis (arr : list (list cx)) :
  length arr = (2 ^ length basis)%nat -> Forall (fun row => length row = (2 ^ length basis)%nat) arr ->
  rotate_rho ROps user basis arr = rho_mat (length basis) (UrhoUdag_fun (map (lk user) basis) (mat_fun arr)).
Proof.
  intros Ha Hr. rewrite <- (rho_array_as_fun _ arr Ha Hr) at 1.
  apply rotate_rho_is_UrhoUdag.
Qed.

Theorem rho_probs_fastpath_explicit user basis (arr : list (list cx)) states :
  length arr = (2 ^ length basis)%nat -> Forall (fun row => length row = (2 ^ length basis)%nat) arr ->
  Forall (fun s => length s = length basis) states ->
  rotate_rho_probs ROps user basis (mat_fun arr) states
  = map (fun s => fst (mat_fun (rotate_rho ROps user basis arr) s s)) states.
Proof.
  intros Ha Hr Hs. rewrite rho_probs_fastpath_batch by exact Hs.
  rewrite rotate_rho_explicit by assumption.
  apply map_ext_in. intros s Hin. rewrite Forall_forall in Hs. specialize (Hs s Hin).
  rewrite mat_fun_rho_mat by exact Hs. reflexivity.
Qed.

(* ------------------------------------------------------------------ 7 (mixed). trace preservation, positivity *)
Lemma dense_fun_ext us f g s : (forall a, f a = g a) -> dense_fun us f s = dense_fun us g s.
Proof. intros H. unfold dense_fun. apply csum_bits_ext. intros a _. rewrite H. reflexivity. Qed.

Lemma cx_aux3 (k a f b g : cx) : k *c (a *c f +c b *c g) = a *c (k *c f) +c b *c (k *c g). Proof. cx_ring. Qed.
Lemma cx_aux4 (x y A B : cx) : conj (x *c A +c y *c B) = conj x *c conj A +c conj y *c conj B. Proof. cx_ring. Qed.
Lemma cx_aux5 (p q x y A B C D : cx) :
  p *c (x *c A +c y *c B) +c q *c (x *c C +c y *c D)
  = p *c x *c A +c p *c y *c B +c q *c x *c C +c q *c y *c D.
Proof. cx_ring. Qed.

Lemma dense_fun_lin us (a b : cx) f g s :
  dense_fun us (fun x => a *c f x +c b *c g x) s = a *c dense_fun us f s +c b *c dense_fun us g s.
Proof.
  unfold dense_fun. rewrite <- !csum_bits_cmul_l, <- csum_bits_cadd.
  apply csum_bits_ext. intros x _. apply cx_aux3.
Qed.

Lemma UrhoUdag_half u us rho c s t (p : bool) :
  dense_fun us (fun a => conj (dense_fun (u :: us) (fun b0 => conj (rho (p :: a) b0)) (c :: t))) s
  = conj (ue u c false) *c UrhoUdag_fun us (fun x y => rho (p :: x) (false :: y)) s t
    +c conj (ue u c true) *c UrhoUdag_fun us (fun x y => rho (p :: x) (true :: y)) s t.
Proof.
  rewrite !UrhoUdag_alt. rewrite <- dense_fun_lin. apply dense_fun_ext. intros a.
  rewrite dense_fun_cons. apply cx_aux4.
Qed.

Lemma UrhoUdag_cons u us rho b c s t :
  UrhoUdag_fun (u :: us) rho (b :: s) (c :: t) =
    ue u b false *c conj (ue u c false) *c UrhoUdag_fun us (fun x y => rho (false :: x) (false :: y)) s t
    +c ue u b false *c conj (ue u c true) *c UrhoUdag_fun us (fun x y => rho (false :: x) (true :: y)) s t
    +c ue u b true *c conj (ue u c false) *c UrhoUdag_fun us (fun x y => rho (true :: x) (false :: y)) s t
    +c ue u b true *c conj (ue u c true) *c UrhoUdag_fun us (fun x y => rho (true :: x) (true :: y)) s t.
Proof.
  rewrite UrhoUdag_alt, dense_fun_cons. cbv beta.
  rewrite (UrhoUdag_half u us rho c s t false), (UrhoUdag_half u us rho c s t true).
  apply cx_aux5.
Qed.

Lemma iso2_trace (u : umat) (R00 R01 R10 R11 : cx) :
  m2mul (m2dag u) u = m2id ->
  (ue u false false *c conj (ue u false false) *c R00 +c ue u false false *c conj (ue u false true) *c R01
   +c ue u false true *c conj (ue u false false) *c R10 +c ue u false true *c conj (ue u false true) *c R11)
  +c (ue u true false *c conj (ue u true false) *c R00 +c ue u true false *c conj (ue u true true) *c R01
   +c ue u true true *c conj (ue u true false) *c R10 +c ue u true true *c conj (ue u true true) *c R11)
  = R00 +c R11.
Proof.
  destruct u as [[[p1 p2] [q1 q2]] [[r1 r2] [t1 t2]]].
  destruct R00 as [a1 a2]. destruct R01 as [b1 b2]. destruct R10 as [c1 c2]. destruct R11 as [d1 d2].
  unfold m2mul, m2dag, m2id, u_entry. cbn [fst snd]. cx_unfold. intros H.
  injection H as H1 H2 H3 H4 H5 H6 H7 H8.
  apply (f_equal2 (@pair R R)); nsatz.
Qed.

Theorem UrhoUdag_trace us : Forall unitary2 us -> forall rho : bits -> bits -> cx,
  csum_bits (length us) (fun s => UrhoUdag_fun us rho s s) = csum_bits (length us) (fun a => rho a a).
Proof.
  induction 1 as [|u us Hu Hus IH]; intros rho.
  - unfold UrhoUdag_fun. cbn [length csum_bits kron_entry]. rewrite conj_1, cmul_1_r, cmul_1_l. reflexivity.
  - cbn [length csum_bits].
    rewrite <- (IH (fun x y => rho (false :: x) (false :: y))), <- (IH (fun x y => rho (true :: x) (true :: y))).
    rewrite <- !csum_bits_cadd. apply csum_bits_ext. intros s _.
    rewrite !UrhoUdag_cons. apply iso2_trace. apply unitary2_cols; exact Hu.
Qed.

(* real form: the rotated probabilities sum to the trace *)
Theorem rho_probs_sum_trace user basis (rho : bits -> bits -> cx) :
  Forall unitary2 (map (lk user) basis) ->
  sum ROps (rotate_rho_probs ROps user basis rho (all_bits (length basis)))
  = sum_bits (length basis) (fun a => fst (rho a a)).
Proof.
  intros Hu. rewrite rho_probs_fastpath_batch
    by (apply Forall_forall; intros s Hs; apply all_bits_length; exact Hs).
  rewrite sum_all_bits, <- !fst_csum_bits. f_equal.
  rewrite <- (map_length (lk user) basis). apply UrhoUdag_trace. exact Hu.
Qed.

(* positive semi-definite rho: every rotated probability is non-negative *)
Definition psd_fun (n : nat) (rho : bits -> bits -> cx) : Prop :=
  forall x : bits -> cx, 0 <= fst (csum_bits n (fun a => csum_bits n (fun b => conj (x a) *c rho a b *c x b))).

Lemma cx_aux6 (k r l : cx) : conj (conj k) *c r *c conj l = k *c (r *c conj l). Proof. cx_ring. Qed.

Theorem rho_probs_nonneg user basis (rho : bits -> bits -> cx) s :
  length s = length basis -> psd_fun (length basis) rho ->
  0 <= rho_prob1 ROps user basis rho s.
Proof.
  intros Hs Hp. rewrite rho_prob1_fastpath by exact Hs.
  specialize (Hp (fun a => conj (kron_entry ROps (map (lk user) basis) s a))).
  unfold UrhoUdag_fun. rewrite map_length.
  erewrite csum_bits_ext; [exact Hp|].
  intros a _. cbv beta. rewrite <- csum_bits_cmul_l. apply csum_bits_ext. intros b _.
  symmetry. apply cx_aux6.
Qed.

(* ------------------------------------------------------------------ 2. the index-level loops refine the structural sweep *)
Lemma upd_length {A} (l : list A) i v : length (upd l i v) = length l.
Proof. revert i; induction l as [|h t IH]; intros [|i]; simpl; try reflexivity. rewrite IH; reflexivity. Qed.

Lemma upd_mid {A} (a : list A) x b v : upd (a ++ x :: b) (length a) v = a ++ v :: b.
Proof. induction a as [|h a IH]; simpl; [reflexivity | rewrite IH; reflexivity]. Qed.

Lemma upd_app1 {A} (a b : list A) i v : (i < length a)%nat -> upd (a ++ b) i v = upd a i v ++ b.
Proof.
  revert i; induction a as [|h a IH]; intros i Hi; simpl in *; [lia|].
  destruct i; [reflexivity|]. simpl. rewrite IH by lia. reflexivity.
Qed.

Lemma upd_app2 {A} (a b : list A) i v : (length a <= i)%nat -> upd (a ++ b) i v = a ++ upd b (i - length a) v.
Proof.
  revert i; induction a as [|h a IH]; intros i Hi; simpl in *; [rewrite Nat.sub_0_r; reflexivity|].
  destruct i; [lia|]. simpl. rewrite IH by lia. reflexivity.
Qed.

Lemma fold_left_ext {A B} (f g : A -> B -> A) l a :
  (forall a b, f a b = g a b) -> fold_left f l a = fold_left g l a.
Proof. intros H. revert a; induction l as [|b l IH]; intros a; simpl; [reflexivity | rewrite H; apply IH]. Qed.

Lemma seq_add_map a len : seq a len = map (Nat.add a) (seq 0 len).
Proof.
  induction a as [|a IH]; [rewrite map_id; reflexivity|].
  rewrite <- seq_shift, IH, map_map. reflexivity.
Qed.

Section IndexRefine.
  Variable u : umat.
  Local Notation ap2 := (KronIndex.apply2 ROps u).
  Local Notation iloop := (KronIndex.inner_loop ROps u).
  Local Notation sstep := (KronIndex.site_step ROps u).
  Definition top2 (b d : list cx) : list cx :=
    cvadd ROps (cvscale ROps (ue u false false) b) (cvscale ROps (ue u false true) d).
  Definition bot2 (b d : list cx) : list cx :=
    cvadd ROps (cvscale ROps (ue u true false) b) (cvscale ROps (ue u true true) d).

  Lemma apply2_length y p q : length (ap2 y p q) = length y.
  Proof. unfold KronIndex.apply2. cbv zeta. rewrite !upd_length. reflexivity. Qed.

  Lemma apply2_app1 a b p q : (p < length a)%nat -> (q < length a)%nat -> ap2 (a ++ b) p q = ap2 a p q ++ b.
  Proof.
    intros Hp Hq. unfold KronIndex.apply2. cbv zeta.
    rewrite !(app_nth1 a b) by assumption.
    rewrite upd_app1 by assumption. rewrite upd_app1 by (rewrite upd_length; assumption). reflexivity.
  Qed.

  Lemma apply2_app2 a b p q : (length a <= p)%nat -> (length a <= q)%nat ->
    ap2 (a ++ b) p q = a ++ ap2 b (p - length a) (q - length a).
  Proof.
    intros Hp Hq. unfold KronIndex.apply2. cbv zeta.
    rewrite !(app_nth2 a b) by assumption.
    rewrite upd_app2 by assumption. rewrite upd_app2 by assumption. reflexivity.
  Qed.

  (* one slice {p, p + r}: the 2x2 product written back in place *)
  Lemma apply2_two a x mid z e :
    ap2 (a ++ x :: mid ++ z :: e) (length a) (length a + S (length mid))
    = a ++ (ue u false false *c x +c ue u false true *c z) :: mid
        ++ (ue u true false *c x +c ue u true true *c z) :: e.
  Proof.
    unfold KronIndex.apply2. cbv zeta.
    assert (E1 : nth (length a + S (length mid)) (a ++ x :: mid ++ z :: e) 0c = z).
    { replace (length a + S (length mid))%nat with (length (a ++ x :: mid)) by (rewrite app_length; reflexivity).
      change (a ++ x :: mid ++ z :: e) with (a ++ (x :: mid) ++ z :: e). rewrite app_assoc. apply nth_middle. }
    rewrite E1, nth_middle, upd_mid.
    set (v := ue u false false *c x +c ue u false true *c z).
    replace (length a + S (length mid))%nat with (length (a ++ v :: mid)) by (rewrite app_length; reflexivity).
    change (a ++ v :: mid ++ z :: e) with (a ++ (v :: mid) ++ z :: e). rewrite app_assoc, upd_mid, <- app_assoc.
    reflexivity.
  Qed.

  (* the inner loop of the last-processed site (k = 0): pairs (i, i + r) *)
  Lemma pair_loop r : forall b d a c, length d = length b -> length c = length a -> r = (length a + length b)%nat ->
    fold_left (fun y i => ap2 y i (i + r)%nat) (seq (length a) (length b)) (a ++ b ++ c ++ d)
    = a ++ top2 b d ++ c ++ bot2 b d.
  Proof.
    induction b as [|b0 b IH]; intros d a c Hd Hc Hr.
    - destruct d; [|discriminate]. reflexivity.
    - destruct d as [|d0 d]; [discriminate|]. cbn [length] in *. cbn [seq fold_left].
      replace (length a + r)%nat with (length a + S (length (b ++ c)))%nat by (rewrite app_length; lia).
      change (a ++ (b0 :: b) ++ c ++ d0 :: d) with (a ++ b0 :: (b ++ c ++ d0 :: d)).
      rewrite (app_assoc b c (d0 :: d)), apply2_two.
      set (v := ue u false false *c b0 +c ue u false true *c d0).
      set (w := ue u true false *c b0 +c ue u true true *c d0).
      specialize (IH d (a ++ [v]) (c ++ [w])).
      rewrite !app_length in IH. cbn [length] in IH.
      replace (length a + 1)%nat with (S (length a)) in IH by lia.
      replace (a ++ v :: (b ++ c) ++ w :: d) with ((a ++ [v]) ++ b ++ (c ++ [w]) ++ d)
        by (rewrite <- !app_assoc; reflexivity).
      rewrite IH by lia.
      unfold top2, bot2, cvadd, cvscale. cbn [map combine fst snd]. fold v. fold w.
      rewrite <- !app_assoc. reflexivity.
  Qed.

  Lemma site_step_top (y0 y1 : list cx) :
    length y1 = length y0 -> sstep 1 (length y0) (y0 ++ y1) = top2 y0 y1 ++ bot2 y0 y1.
  Proof.
    intros H. unfold KronIndex.site_step, KronIndex.inner_loop. cbn [seq fold_left].
    rewrite (fold_left_ext _ (fun y i => ap2 y i (i + length y0)%nat)) by (intros; reflexivity).
    exact (pair_loop (length y0) y0 y1 [] [] H eq_refl eq_refl).
  Qed.

  (* loops over blocks that lie entirely in the left / right part of the list *)
  Lemma inner_loop_length r k y : length (iloop r k y) = length y.
  Proof.
    unfold KronIndex.inner_loop. generalize (seq 0 r) as l. intros l; revert y.
    induction l as [|i l IH]; intros y; simpl; [reflexivity | rewrite IH; apply apply2_length].
  Qed.

  Lemma inner_loop_app1 r k a b : ((k + 1) * 2 * r <= length a)%nat -> iloop r k (a ++ b) = iloop r k a ++ b.
  Proof.
    intros Hk. unfold KronIndex.inner_loop.
    assert (Hin : forall i, In i (seq 0 r) -> (i < r)%nat) by (intros i Hi; apply in_seq in Hi; lia).
    revert Hin a Hk. generalize (seq 0 r) as l. induction l as [|i l IH]; intros Hin a Hk; [reflexivity|].
    cbn [fold_left]. assert (Hi : (i < r)%nat) by (apply Hin; left; reflexivity).
    rewrite apply2_app1 by lia.
    apply IH; [intros; apply Hin; right; assumption | rewrite apply2_length; exact Hk].
  Qed.

  Lemma inner_loop_app2 r j k a b : length a = (j * 2 * r)%nat -> iloop r (j + k) (a ++ b) = a ++ iloop r k b.
  Proof.
    intros Ha. unfold KronIndex.inner_loop. generalize (seq 0 r) as l. intros l; revert b.
    induction l as [|i l IH]; intros b; [reflexivity|].
    cbn [fold_left]. rewrite apply2_app2 by lia.
    replace ((j + k) * 2 * r + i - length a)%nat with (k * 2 * r + i)%nat by lia.
    replace ((j + k) * 2 * r + i + r - length a)%nat with (k * 2 * r + i + r)%nat by lia.
    apply IH.
  Qed.

  Lemma site_step_length l r y : length (sstep l r y) = length y.
  Proof.
    unfold KronIndex.site_step. generalize (seq 0 l) as ks. intros ks; revert y.
    induction ks as [|k ks IH]; intros y; simpl; [reflexivity | rewrite IH; apply inner_loop_length].
  Qed.

  Lemma site_step_app la lb r a b : length a = (la * 2 * r)%nat ->
    sstep (la + lb) r (a ++ b) = sstep la r a ++ sstep lb r b.
  Proof.
    intros Ha. unfold KronIndex.site_step. rewrite seq_app, fold_left_app. cbn [Nat.add].
    assert (H1 : forall ks a, (forall k, In k ks -> (k < la)%nat) -> length a = (la * 2 * r)%nat ->
               fold_left (fun y k => iloop r k y) ks (a ++ b) = fold_left (fun y k => iloop r k y) ks a ++ b).
    { induction ks as [|k ks IH]; intros a0 Hin Ha0; [reflexivity|].
      cbn [fold_left]. assert (Hk : (k < la)%nat) by (apply Hin; left; reflexivity).
      rewrite inner_loop_app1 by (rewrite Ha0; nia).
      apply IH; [intros; apply Hin; right; assumption | rewrite inner_loop_length; exact Ha0]. }
    rewrite H1 by (try exact Ha; intros k Hk; apply in_seq in Hk; lia). clear H1.
    set (a' := fold_left (fun y k => iloop r k y) (seq 0 la) a).
    assert (Ha' : length a' = (la * 2 * r)%nat) by (unfold a'; rewrite <- Ha; apply (site_step_length la r a)).
    rewrite (seq_add_map la lb). generalize (seq 0 lb) as ks. intros ks; revert b.
    induction ks as [|k ks IH]; intros b0; [reflexivity|].
    cbn [map fold_left]. rewrite inner_loop_app2 by exact Ha'. apply IH.
  Qed.
End IndexRefine.

Local Notation sweepR := (KronIndex.sweep ROps).

Lemma sweep_length rs : forall l r y, length (sweepR rs l r y) = length y.
Proof.
  induction rs as [|u rs IH]; intros l r y; [reflexivity|].
  cbn [KronIndex.sweep]. cbv zeta. rewrite IH. apply site_step_length.
Qed.

Lemma sweep_app ra rb : forall l r y,
  sweepR (ra ++ rb) l r y = sweepR rb (Nat.div l (2 ^ length ra)) (r * 2 ^ length ra) (sweepR ra l r y).
Proof.
  induction ra as [|u ra IH]; intros l r y.
  - cbn [app length KronIndex.sweep Nat.pow]. rewrite Nat.div_1_r, Nat.mul_1_r. reflexivity.
  - cbn [app length KronIndex.sweep]. cbv zeta. rewrite IH.
    rewrite Nat.div_div by (try apply Nat.pow_nonzero; lia).
    rewrite Nat.pow_succ_r', Nat.mul_assoc. reflexivity.
Qed.

(* the loops over a list cut in halves at site 0 act on the halves independently *)
Lemma sweep_split rs : forall m r (a b : list cx), (length rs <= m)%nat -> length a = (2 ^ m * r)%nat ->
  sweepR rs (2 ^ S m) r (a ++ b) = sweepR rs (2 ^ m) r a ++ sweepR rs (2 ^ m) r b.
Proof.
  induction rs as [|u rs IH]; intros m r a b Hm Ha; [reflexivity|].
  destruct m as [|m]; [cbn [length] in Hm; lia|].
  cbn [KronIndex.sweep]. cbv zeta.
  assert (E1 : Nat.div (2 ^ S (S m)) 2 = (2 ^ m + 2 ^ m)%nat).
  { rewrite (Nat.pow_succ_r' 2 (S m)), Nat.mul_comm, Nat.div_mul by lia. rewrite Nat.pow_succ_r'. lia. }
  assert (E2 : Nat.div (2 ^ S m) 2 = (2 ^ m)%nat).
  { rewrite (Nat.pow_succ_r' 2 m), Nat.mul_comm, Nat.div_mul by lia. reflexivity. }
  rewrite E1, E2.
  rewrite site_step_app by (rewrite Ha, Nat.pow_succ_r'; lia).
  replace (2 ^ m + 2 ^ m)%nat with (2 ^ S m)%nat by (rewrite Nat.pow_succ_r'; lia).
  apply IH; [cbn [length] in Hm; lia|].
  rewrite site_step_length, Ha, Nat.pow_succ_r'. lia.
Qed.

Theorem kron_index_refines_struct us : forall x : list cx,
  length x = (2 ^ length us)%nat -> kron_index ROps us x = kron_struct ROps us x.
Proof.
  induction us as [|u us IH]; intros x Hx; [reflexivity|].
  cbn [length] in Hx. rewrite Nat.pow_succ_r' in Hx.
  set (n := length us) in *.
  set (x0 := firstn (2 ^ n) x). set (x1 := skipn (2 ^ n) x).
  assert (Hx' : x = x0 ++ x1) by (symmetry; apply firstn_skipn).
  assert (H0 : length x0 = (2 ^ n)%nat) by (unfold x0; rewrite firstn_length; lia).
  assert (H1 : length x1 = (2 ^ n)%nat) by (unfold x1; rewrite skipn_length; lia).
  (* right-hand side *)
  cbn [kron_struct]. cbv zeta.
  replace (Nat.div (length x) 2) with (2 ^ n)%nat
    by (rewrite Hx, Nat.mul_comm, Nat.div_mul by lia; reflexivity).
  fold x0 x1. rewrite <- (IH x0 H0), <- (IH x1 H1).
  (* left-hand side *)
  unfold kron_index at 1. cbn [rev length]. fold n. rewrite sweep_app, rev_length. fold n.
  cbn [KronIndex.sweep]. cbv zeta.
  rewrite Hx' at 1. rewrite (sweep_split (rev us) n 1 x0 x1) by (rewrite ?rev_length; fold n; lia).
  assert (K0 : sweepR (rev us) (2 ^ n) 1 x0 = kron_index ROps us x0) by reflexivity.
  assert (K1 : sweepR (rev us) (2 ^ n) 1 x1 = kron_index ROps us x1) by reflexivity.
  rewrite K0, K1. clear K0 K1.
  replace (Nat.div (Nat.div (2 ^ S n) (2 ^ n)) 2) with 1%nat.
  2:{ rewrite Nat.pow_succ_r', Nat.div_mul by (apply Nat.pow_nonzero; lia). reflexivity. }
  rewrite Nat.mul_1_l.
  assert (L0 : length (kron_index ROps us x0) = (2 ^ n)%nat) by (unfold kron_index; rewrite sweep_length; exact H0).
  assert (L1 : length (kron_index ROps us x1) = (2 ^ n)%nat) by (unfold kron_index; rewrite sweep_length; exact H1).
  rewrite <- L0. apply site_step_top. rewrite L0, L1. reflexivity.
Qed.

(* what the code executes (guard + index-level loops) is the dense product *)
Theorem kron_mult_spec us (x : list cx) :
  kron_mult ROps us x = if Nat.eqb (2 ^ length us) (length x) then Some (dense_apply ROps us x) else None.
Proof.
  unfold kron_mult. destruct (Nat.eqb (2 ^ length us) (length x)) eqn:E; [|reflexivity].
  apply Nat.eqb_eq in E. symmetry in E.
  rewrite kron_index_refines_struct, kron_struct_is_dense by exact E. reflexivity.
Qed.

Theorem rotate_psi_index_spec user basis (psi : list cx) :
  length psi = (2 ^ length basis)%nat ->
  rotate_psi_index ROps user basis psi = Some (rotate_psi ROps user basis psi).
Proof.
  intros H. unfold rotate_psi_index, kron_mult, rotate_psi. rewrite map_length, H, Nat.eqb_refl.
  rewrite kron_index_refines_struct by (rewrite map_length; exact H). reflexivity.
Qed.

Lemma kron_rows_index_eq us (m : list (list cx)) :
  length m = (2 ^ length us)%nat -> kron_rows_index ROps us m = kron_rows ROps us m.
Proof.
  intros H. unfold kron_rows_index, kron_rows. f_equal.
  apply map_ext_in. intros col Hc. apply kron_index_refines_struct.
  unfold transpose_c in Hc. apply in_map_iff in Hc. destruct Hc as [j [<- _]].
  rewrite map_length. exact H.
Qed.

Lemma kron_rows_length us (m : list (list cx)) : length (kron_rows ROps us m) = length m.
Proof. unfold kron_rows, transpose_c. rewrite map_length, seq_length. reflexivity. Qed.

Theorem rotate_rho_index_spec user basis (rho : list (list cx)) :
  length rho = (2 ^ length basis)%nat ->
  rotate_rho_index ROps user basis rho = Some (rotate_rho ROps user basis rho).
Proof.
  intros H. unfold rotate_rho_index, rotate_rho. cbv zeta. rewrite map_length, H, Nat.eqb_refl.
  rewrite (kron_rows_index_eq _ rho) by (rewrite map_length; exact H).
  f_equal. f_equal. rewrite kron_rows_index_eq; [reflexivity|].
  unfold conj_transpose. rewrite map_length. unfold transpose_c. rewrite map_length, seq_length, kron_rows_length, map_length. exact H.
Qed.

(* ------------------------------------------------------------------ non-vacuity of the hypotheses *)
Lemma csum_bits_prod n (f g : bits -> cx) :
  csum_bits n (fun a => csum_bits n (fun b => f a *c g b)) = csum_bits n f *c csum_bits n g.
Proof.
  rewrite <- csum_bits_cmul_r. apply csum_bits_ext. intros a _. apply csum_bits_cmul_l.
Qed.

Lemma cx_aux7 (x p q y : cx) : conj x *c (p *c conj q) *c y = (conj x *c p) *c conj (conj y *c q). Proof. cx_ring. Qed.

(* pure states are positive semi-definite *)
Lemma psd_pure n (psi : bits -> cx) : psd_fun n (fun a b => psi a *c conj (psi b)).
Proof.
  intros x.
  rewrite (csum_bits_ext n _ (fun a => csum_bits n (fun b => (conj (x a) *c psi a) *c conj (conj (x b) *c psi b))))
    by (intros a _; apply csum_bits_ext; intros b _; apply cx_aux7).
  rewrite csum_bits_prod, <- csum_bits_conj, cmul_conj_norm. cbn [fst]. apply cnorm2_nonneg.
Qed.

Definition example_rho : list (list cx) := [[(1, 0); (0, 1 / 2)]; [(0, - (1 / 2)); (1, 0)]].
Lemma example_rho_hermitian : hermitian_arr example_rho /\ length example_rho = (2 ^ 1)%nat
  /\ Forall (fun row => length row = (2 ^ 1)%nat) example_rho
  /\ nth 1 (nth 0 example_rho []) 0c <> nth 0 (nth 1 example_rho []) 0c.
Proof.
  repeat split.
  - intros i j. unfold example_rho.
    destruct i as [|[|[|i]]]; destruct j as [|[|[|j]]]; cbn [nth]; cx_unfold; apply (f_equal2 (@pair R R)); lra.
  - repeat constructor.
  - cbn. intros H. injection H as H. lra.
Qed.

Lemma example_unitary_basis user : Forall unitary2 (map (lk user) [LX; LY; LZ; LY]).
Proof. apply default_letters_unitary. repeat constructor. Qed.

(* ------------------------------------------------------------------ which dictionary is used (c22f10c) *)
Lemma resolve_dict_spec (arg state : option (list umat)) :
  resolve_dict arg state = match arg, state with Some d, _ => d | None, Some d => d | None, None => [] end.
Proof. destruct arg, state; reflexivity. Qed.

(* a state without a dictionary and no unitaries= argument: every letter X, Y, Z denotes its default *)
Lemma resolve_none_is_default a :
  (forall k, a <> LU k) -> forall user, lk (resolve_dict None None) a = lk user a.
Proof. intros H user. destruct a; try reflexivity. exfalso. apply (H k). reflexivity. Qed.
