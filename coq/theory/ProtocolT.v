(* ProtocolT.v — theorems about the fit protocol machine of model/Protocol.v.
   Everything here is discrete; no axioms are used. *)
From Coq Require Import List ZArith Bool Arith Lia.
From QModel Require Import Protocol.
Import ListNotations.

(* ------------------------------------------------------------------ list helpers *)
Lemma snoc_cases {A} (l : list A) : l = [] \/ exists l' z, l = l' ++ [z].
Proof. induction l using rev_ind; [left; reflexivity | right; eauto]. Qed.

Lemma filter_split1 {A} (f : A -> bool) : forall l p x q,
  filter f l = p ++ x :: q ->
  exists p' q', l = p' ++ x :: q' /\ filter f p' = p /\ filter f q' = q /\ f x = true.
Proof.
  induction l as [|a l IH]; intros p x q H; simpl in H.
  - destruct p; discriminate.
  - destruct (f a) eqn:Fa.
    + destruct p as [|a0 p]; simpl in H; inversion H; subst.
      * exists [], l. simpl. auto.
      * destruct (IH _ _ _ H2) as [p' [q' [-> [Hp [Hq Hx]]]]].
        exists (a0 :: p'), q'. simpl. rewrite Fa, Hp. auto.
    + destruct (IH _ _ _ H) as [p' [q' [-> [Hp [Hq Hx]]]]].
      exists (a :: p'), q'. simpl. rewrite Fa. auto.
Qed.

Lemma filter_split2 {A} (f : A -> bool) : forall l p x y q,
  filter f l = p ++ x :: y :: q ->
  exists p' m q', l = p' ++ x :: m ++ y :: q' /\ filter f p' = p /\ filter f m = [] /\
                  filter f q' = q /\ f x = true /\ f y = true.
Proof.
  intros l p x y q H.
  destruct (filter_split1 f l p x (y :: q) H) as [p' [q1 [-> [Hp [Hq1 Hx]]]]].
  destruct (filter_split1 f q1 [] y q Hq1) as [m [q' [-> [Hm [Hq' Hy]]]]].
  exists p', m, q'. auto 10.
Qed.

Lemma vis_app a b : vis (a ++ b) = vis a ++ vis b.
Proof. apply filter_app. Qed.

Lemma count_app f a b : count f (a ++ b) = count f a + count f b.
Proof. unfold count. rewrite filter_app, app_length. reflexivity. Qed.

(* ------------------------------------------------------------------ raised *)
Lemma raised_from_app inj : forall r1 acc r2,
  raised_from inj acc (r1 ++ r2) = raised_from inj acc r1 || raised_from inj (acc ++ r1) r2.
Proof.
  induction r1 as [|x r1 IH]; intros acc r2; simpl.
  - rewrite app_nil_r. reflexivity.
  - rewrite IH, <- app_assoc. simpl. rewrite orb_assoc. reflexivity.
Qed.

Lemma raised_snoc inj h x : raised inj (h ++ [x]) = raised inj h || inj (h ++ [x]).
Proof. unfold raised. rewrite raised_from_app. simpl. rewrite orb_false_r. reflexivity. Qed.

Lemma raised_mono inj h h' : raised inj h = true -> raised inj (h ++ h') = true.
Proof. unfold raised. intros H. rewrite raised_from_app, H. reflexivity. Qed.

Lemma raised_of_inject inj h x : inj (h ++ [x]) = true -> raised inj (h ++ [x]) = true.
Proof. intros H. rewrite raised_snoc, H. apply orb_true_r. Qed.

Lemma raised_never h : raised never h = false.
Proof.
  unfold raised. generalize (@nil event). induction h as [|x h IH]; intros acc; simpl; auto.
Qed.

Lemma raised_false inj : (forall h, inj h = false) -> forall h, raised inj h = false.
Proof.
  intros Hn h. unfold raised. generalize (@nil event).
  induction h as [|x h IH]; intros acc; simpl; auto. rewrite Hn. simpl. apply IH.
Qed.

(* ------------------------------------------------------------------ emit *)
Definition bump (y : event) (v : nat) : nat := if is_opt y then S v else v.

Lemma log_emit inj s ev : log (emit inj s ev) = log s ++ [(ev, bump ev (ver s))].
Proof. reflexivity. Qed.
Lemma ver_emit inj s ev : ver (emit inj s ev) = bump ev (ver s).
Proof. reflexivity. Qed.
Lemma trace_emit inj s ev : trace (emit inj s ev) = trace s ++ [ev].
Proof. unfold trace. rewrite log_emit, map_app. reflexivity. Qed.
Lemma ctrace_emit_cb inj s ev : is_cb ev = true -> ctrace (emit inj s ev) = ctrace s ++ [ev].
Proof. intros H. unfold ctrace. rewrite trace_emit, vis_app. simpl. rewrite H. reflexivity. Qed.
Lemma ctrace_emit_int inj s ev : is_cb ev = false -> ctrace (emit inj s ev) = ctrace s.
Proof. intros H. unfold ctrace. rewrite trace_emit, vis_app. simpl. rewrite H. apply app_nil_r. Qed.
Lemma stop_emit_cb inj s ev : is_cb ev = true -> stop (emit inj s ev) = stop s || inj (ctrace s ++ [ev]).
Proof.
  intros H. unfold emit. simpl. rewrite H. f_equal. f_equal.
  rewrite map_app, vis_app. simpl. rewrite H. reflexivity.
Qed.
Lemma stop_emit_int inj s ev : is_cb ev = false -> stop (emit inj s ev) = stop s.
Proof. intros H. unfold emit. simpl. rewrite H. reflexivity. Qed.

Lemma cb_not_opt y : is_cb y = true -> is_opt y = false.
Proof. destruct y; simpl; congruence. Qed.

(* ------------------------------------------------------------------ generic invariants *)
Section Preserve.
  Variable inj : injector.
  Variable P : st -> Prop.
  Hypothesis Pemit : forall s ev, P s -> P (emit inj s ev).

  Lemma batches_pres : forall n e b s, P s -> P (batches inj e b n s).
  Proof.
    induction n; intros e b s H; cbn [batches]; auto.
    destruct (stop _); auto.
  Qed.

  Lemma epoch_body_pres sched e nb s : P s -> P (epoch_body inj sched e nb s).
  Proof.
    intros H. unfold epoch_body. apply Pemit. destruct sched; [apply Pemit|]; apply batches_pres; auto.
  Qed.

  Lemma epochs_loop_pres sched nb : forall k e s, P s -> P (epochs_loop inj sched nb e k s).
  Proof.
    induction k; intros e s H; cbn [epochs_loop]; auto.
    destruct (stop _); [|apply IHk]; apply epoch_body_pres; auto.
  Qed.
End Preserve.

(* ------------------------------------------------------------------ prestopped *)
Lemma prestopped inj sched start epochs nb ver0 :
  fit inj sched start epochs nb true ver0 = mkst [] true ver0.
Proof. reflexivity. Qed.

Lemma step_none sched start epochs nb u x : step sched start epochs nb u x = None -> x = TrainEnd.
Proof. destruct x; simpl; congruence. Qed.

Lemma step_opt_inv sched start epochs nb u x e b :
  step sched start epochs nb u x = Some (OptStep e b) -> x = BatchStart e b.
Proof.
  destruct x; simpl; unfold after_batches; intros H;
    repeat match type of H with context [if ?c then _ else _] => destruct c end;
    inversion H; reflexivity.
Qed.

(* ------------------------------------------------------------------ the run is a path of [step] *)
Section Path.
  Variable inj : injector.
  Variable sched : bool.
  Variables start epochs : Z.
  Variable nb : nat.

  Notation stp := (step sched start epochs nb).

  Inductive path : list (event * nat) -> Prop :=
  | path_one x v : path [(x, v)]
  | path_snoc h x vx y :
      path (h ++ [(x, vx)]) ->
      stp (raised inj (vis (map fst (h ++ [(x, vx)])))) x = Some y ->
      path ((h ++ [(x, vx)]) ++ [(y, bump y vx)]).

  Definition inv (s : st) (x : event) : Prop :=
    (exists h, log s = h ++ [(x, ver s)]) /\ path (log s) /\ stop s = raised inj (ctrace s).

  Lemma emit_inv s x y : inv s x -> stp (stop s) x = Some y -> inv (emit inj s y) y.
  Proof.
    intros [[h Hl] [Hp Hs]] Hy. split; [|split].
    - exists (log s). reflexivity.
    - rewrite log_emit, Hl. apply path_snoc.
      + rewrite <- Hl. exact Hp.
      + rewrite <- Hl. change (vis (map fst (log s))) with (ctrace s). rewrite <- Hs. exact Hy.
    - destruct (is_cb y) eqn:C.
      + rewrite stop_emit_cb, ctrace_emit_cb, raised_snoc, Hs by assumption. reflexivity.
      + rewrite stop_emit_int, ctrace_emit_int by assumption. exact Hs.
  Qed.

  Lemma batches_inv e : forall n b s x,
    inv s x -> b + n = nb ->
    (n <> 0 -> stp (stop s) x = Some (BatchStart e b)) ->
    (n = 0 -> stp (stop s) x = Some (after_batches sched e)) ->
    exists x', inv (batches inj e b n s) x' /\
               stp (stop (batches inj e b n s)) x' = Some (after_batches sched e).
  Proof.
    induction n as [|n IH]; intros b s x Hi Hb Hpos Hzero.
    - exists x. simpl. auto.
    - cbn [batches].
      remember (emit inj s (BatchStart e b)) as s1.
      remember (emit inj s1 (OptStep e b)) as s2.
      remember (emit inj s2 (BatchEnd e b)) as s3.
      assert (I1 : inv s1 (BatchStart e b)) by (subst s1; apply (emit_inv s x); auto).
      assert (I2 : inv s2 (OptStep e b)) by (subst s2; apply (emit_inv s1 (BatchStart e b)); auto).
      assert (I3 : inv s3 (BatchEnd e b)) by (subst s3; apply (emit_inv s2 (OptStep e b)); auto).
      destruct (stop s3) eqn:E.
      + exists (BatchEnd e b). split; [exact I3|]. rewrite E. reflexivity.
      + apply (IH (S b) s3 (BatchEnd e b)); auto; try lia.
        * intros Hn. rewrite E. cbn [step orb].
          destruct (Nat.leb_spec nb (S b)); [lia | reflexivity].
        * intros Hn. rewrite E. cbn [step orb].
          destruct (Nat.leb_spec nb (S b)); [reflexivity | lia].
  Qed.

  Lemma epoch_body_inv e s x :
    inv s x -> stp (stop s) x = Some (EpochStart e) ->
    inv (epoch_body inj sched e nb s) (EpochEnd e).
  Proof.
    intros Hi Hx. unfold epoch_body.
    remember (emit inj s (EpochStart e)) as s1.
    assert (I1 : inv s1 (EpochStart e)) by (subst s1; apply (emit_inv s x); auto).
    destruct (batches_inv e nb 0 s1 (EpochStart e) I1 eq_refl) as [x' [I2 Hx']].
    - intros Hn. cbn [step]. destruct (Nat.eqb_spec nb 0); [contradiction | reflexivity].
    - intros Hn. cbn [step]. rewrite Hn. reflexivity.
    - remember (batches inj e 0 nb s1) as s2.
      unfold after_batches in Hx'.
      assert (G : forall c : bool, c = sched ->
                inv (emit inj (if c then emit inj s2 (SchedStep e) else s2) (EpochEnd e)) (EpochEnd e)).
      { intros c Hc. destruct c.
        - apply (emit_inv _ (SchedStep e)); [|reflexivity].
          apply (emit_inv s2 x'); [exact I2|]. rewrite Hx', <- Hc. reflexivity.
        - apply (emit_inv s2 x'); [exact I2|]. rewrite Hx', <- Hc. reflexivity. }
      apply G. reflexivity.
  Qed.

  Lemma epochs_loop_inv : forall k e s x,
    inv s x ->
    (k <> 0 -> stp (stop s) x = Some (EpochStart e) /\ Z.of_nat k = (epochs + 1 - e)%Z) ->
    (k = 0 -> stp (stop s) x = Some TrainEnd) ->
    exists x', inv (epochs_loop inj sched nb e k s) x' /\
               stp (stop (epochs_loop inj sched nb e k s)) x' = Some TrainEnd.
  Proof.
    induction k as [|k IH]; intros e s x Hi Hpos Hzero.
    - exists x. simpl. auto.
    - cbn [epochs_loop]. destruct Hpos as [Hx Hk]; [discriminate|].
      remember (epoch_body inj sched e nb s) as s'.
      assert (I1 : inv s' (EpochEnd e)) by (subst s'; apply (epoch_body_inv e s x); auto).
      destruct (stop s') eqn:E.
      + exists (EpochEnd e). split; [exact I1|]. rewrite E. reflexivity.
      + apply (IH (e + 1)%Z s' (EpochEnd e)); auto.
        * intros Hn. rewrite E. cbn [step orb].
          destruct (Z.ltb_spec epochs (e + 1)); [lia|]. split; [reflexivity | lia].
        * intros Hn. rewrite E. cbn [step orb].
          destruct (Z.ltb_spec epochs (e + 1)); [reflexivity | lia].
  Qed.

  Lemma fit_inv ver0 :
    inv (fit inj sched start epochs nb false ver0) TrainEnd.
  Proof.
    unfold fit.
    remember (emit inj (mkst [] false ver0) TrainStart) as s1.
    assert (I1 : inv s1 TrainStart).
    { subst s1. split; [|split].
      - exists []. reflexivity.
      - apply path_one.
      - unfold emit, ctrace, trace, raised. simpl. rewrite orb_false_r. reflexivity. }
    destruct (epochs_loop_inv (num_epochs start epochs) start s1 TrainStart I1) as [x' [I2 Hx']].
    - intros Hn. unfold num_epochs in *. cbn [step].
      destruct (Z.leb_spec start epochs); [|lia]. split; [reflexivity | lia].
    - intros Hn. unfold num_epochs in *. cbn [step].
      destruct (Z.leb_spec start epochs); [lia | reflexivity].
    - apply (emit_inv _ x'); auto.
  Qed.

  (* consecutive entries of a path are related by [step] *)
  Lemma path_split l : path l -> forall pre x vx y vy post,
    l = pre ++ (x, vx) :: (y, vy) :: post ->
    stp (raised inj (vis (map fst (pre ++ [(x, vx)])))) x = Some y /\ vy = bump y vx.
  Proof.
    induction 1 as [x0 v0 | h x0 vx0 y0 Hp IH Hs]; intros pre x vx y vy post E.
    - apply (f_equal (@length _)) in E. rewrite app_length in E. simpl in E. lia.
    - destruct (snoc_cases post) as [-> | [post' [z ->]]].
      + change (pre ++ [(x, vx); (y, vy)]) with (pre ++ [(x, vx)] ++ [(y, vy)]) in E.
        rewrite app_assoc in E.
        apply app_inj_tail in E. destruct E as [E1 E2].
        apply app_inj_tail in E1. destruct E1 as [E1 E3].
        inversion E2; inversion E3; subst. split; [exact Hs | reflexivity].
      + replace (pre ++ (x, vx) :: (y, vy) :: post' ++ [z])
          with ((pre ++ (x, vx) :: (y, vy) :: post') ++ [z]) in E
          by (rewrite <- app_assoc; reflexivity).
        apply app_inj_tail in E. destruct E as [E1 _].
        apply (IH _ _ _ _ _ _ E1).
  Qed.

  Lemma path_end l pre v post : path l -> l = pre ++ (TrainEnd, v) :: post -> post = [].
  Proof.
    intros Hp E. destruct post as [|[y vy] post]; [reflexivity|].
    destruct (path_split l Hp _ _ _ _ _ _ E) as [H _]. discriminate.
  Qed.

  Lemma path_next l l0 v0 pre x vx post :
    path l -> l = l0 ++ [(TrainEnd, v0)] -> l = pre ++ (x, vx) :: post -> x <> TrainEnd ->
    exists y post', post = (y, bump y vx) :: post' /\
                    stp (raised inj (vis (map fst (pre ++ [(x, vx)])))) x = Some y.
  Proof.
    intros Hp El E Hx. destruct post as [|[y vy] post].
    - rewrite El in E. apply app_inj_tail in E. destruct E as [_ E]. inversion E. congruence.
    - destruct (path_split l Hp _ _ _ _ _ _ E) as [H1 H2]. subst vy. eauto.
  Qed.

  (* the remainder of the run once the flag is up: iterate [step] with the flag up *)
  Fixpoint tail_up (fuel : nat) (x : event) (v : nat) : option (list (event * nat)) :=
    match stp true x with
    | None => Some []
    | Some y =>
        match fuel with
        | O => None
        | S f => option_map (cons (y, bump y v)) (tail_up f y (bump y v))
        end
    end.

  Lemma follow l l0 v0 : path l -> l = l0 ++ [(TrainEnd, v0)] ->
    forall fuel pre x vx post t,
      tail_up fuel x vx = Some t ->
      l = pre ++ (x, vx) :: post ->
      raised inj (vis (map fst (pre ++ [(x, vx)]))) = true ->
      post = t.
  Proof.
    intros Hp El. induction fuel as [|f IH]; intros pre x vx post t Ht E Hr.
    - simpl in Ht. destruct (stp true x) eqn:Es; [discriminate|].
      inversion Ht; subst. apply step_none in Es. subst x. eapply path_end; eauto.
    - simpl in Ht. destruct (stp true x) eqn:Es.
      + destruct (tail_up f e (bump e vx)) eqn:Et; simpl in Ht; [|discriminate].
        inversion Ht; subst t.
        assert (Hx : x <> TrainEnd) by (intros ->; discriminate).
        destruct (path_next l l0 v0 pre x vx post Hp El E Hx) as [y [post' [-> Hy]]].
        rewrite Hr, Es in Hy. inversion Hy; subst y. f_equal.
        apply (IH (pre ++ [(x, vx)]) e (bump e vx) post' l1 Et).
        * rewrite <- app_assoc. exact E.
        * rewrite map_app, vis_app. apply raised_mono. exact Hr.
      + inversion Ht; subst. apply step_none in Es. subst x. eapply path_end; eauto.
  Qed.

End Path.

(* ------------------------------------------------------------------ shape of a run's log *)
Definition cbp (p : event * nat) : bool := is_cb (fst p).

Lemma vis_map_fst (l : list (event * nat)) : vis (map fst l) = map fst (filter cbp l).
Proof.
  induction l as [|[x v] l IH]; simpl; auto. unfold cbp at 1. simpl.
  destruct (is_cb x); simpl; rewrite IH; reflexivity.
Qed.

Lemma vlog_ctrace s : ctrace s = map fst (vlog s).
Proof. unfold ctrace, trace, vlog. apply vis_map_fst. Qed.

Lemma vis_pre_cb (pre : list (event * nat)) x (v : nat) : is_cb x = true ->
  vis (map fst (pre ++ [(x, v)])) = vis (map fst pre) ++ [x].
Proof. intros H. rewrite map_app, vis_app. simpl. rewrite H. reflexivity. Qed.

Lemma fit_starts inj sched start epochs nb ver0 :
  exists out, log (fit inj sched start epochs nb false ver0) = (TrainStart, ver0) :: out.
Proof.
  unfold fit.
  assert (Pe : forall s ev, (exists out, log s = (TrainStart, ver0) :: out) ->
                            exists out, log (emit inj s ev) = (TrainStart, ver0) :: out).
  { intros s ev [out E]. exists (out ++ [(ev, bump ev (ver s))]). rewrite log_emit, E. reflexivity. }
  apply Pe. apply epochs_loop_pres; [exact Pe|]. exists []. reflexivity.
Qed.

Lemma fit_log_shape inj sched start epochs nb ver0 :
  let s := fit inj sched start epochs nb false ver0 in
  exists h, log s = (TrainStart, ver0) :: h ++ [(TrainEnd, ver s)].
Proof.
  intros s. destruct (fit_inv inj sched start epochs nb ver0) as [[h' Hl] _].
  destruct (fit_starts inj sched start epochs nb ver0) as [out Ho].
  fold s in Hl, Ho. rewrite Ho in Hl. destruct h' as [|a h']; simpl in Hl.
  - inversion Hl.
  - inversion Hl; subst. exists h'. rewrite Ho. reflexivity.
Qed.

Lemma fit_path inj sched start epochs nb ver0 :
  path inj sched start epochs nb (log (fit inj sched start epochs nb false ver0)).
Proof. apply fit_inv. Qed.

(* ------------------------------------------------------------------ stop_is_sticky *)
Theorem stop_is_sticky inj sched start epochs nb stop0 ver0 :
  let s := fit inj sched start epochs nb stop0 ver0 in
  stop s = stop0 || raised inj (ctrace s).
Proof.
  destruct stop0; [reflexivity|]. simpl. apply fit_inv.
Qed.

(* every intermediate flag value is also the "raised so far" predicate: the flag, once up,
   stays up for every longer history *)
Theorem raised_is_monotone inj h h' : raised inj h = true -> raised inj (h ++ h') = true.
Proof. apply raised_mono. Qed.

(* ------------------------------------------------------------------ the remainder after a stop *)
Section Stops.
  Variable inj : injector.
  Variable sched : bool.
  Variables start epochs : Z.
  Variable nb : nat.
  Variable ver0 : nat.
  Let s := fit inj sched start epochs nb false ver0.

  Lemma follow_fit fuel pre x v post t :
    tail_up sched start epochs nb fuel x v = Some t ->
    log s = pre ++ (x, v) :: post ->
    raised inj (vis (map fst (pre ++ [(x, v)]))) = true ->
    post = t.
  Proof.
    intros Ht E Hr. destruct (fit_log_shape inj sched start epochs nb ver0) as [h Hh].
    fold s in Hh.
    eapply (follow inj sched start epochs nb (log s) ((TrainStart, ver0) :: h) (ver s)); eauto.
    apply fit_path.
  Qed.

  Lemma follow_fit_cb fuel pre x v post t :
    is_cb x = true ->
    tail_up sched start epochs nb fuel x v = Some t ->
    log s = pre ++ (x, v) :: post ->
    raised inj (vis (map fst pre) ++ [x]) = true ->
    post = t.
  Proof.
    intros Hc Ht E Hr. eapply follow_fit; eauto. rewrite vis_pre_cb; auto.
  Qed.

  Lemma follow_vis fuel p x v q t :
    tail_up sched start epochs nb fuel x v = Some t ->
    vlog s = p ++ (x, v) :: q ->
    raised inj (map fst p ++ [x]) = true ->
    q = filter cbp t.
  Proof.
    intros Ht E Hr. unfold vlog in E.
    destruct (filter_split1 _ _ _ _ _ E) as [p' [q' [El [Hp [Hq Hx]]]]].
    simpl in Hx. subst q. f_equal.
    eapply follow_fit_cb; eauto. rewrite vis_map_fst. unfold cbp. rewrite Hp. exact Hr.
  Qed.
End Stops.

Definition sched_entry (sched : bool) (e : Z) (v : nat) : list (event * nat) :=
  if sched then [(SchedStep e, v)] else [].

(* the exact remainders (full log: internal events included) *)
Theorem stop_at_batch_start inj sched start epochs nb ver0 pre e b v post :
  log (fit inj sched start epochs nb false ver0) = pre ++ (BatchStart e b, v) :: post ->
  raised inj (vis (map fst pre) ++ [BatchStart e b]) = true ->
  post = (OptStep e b, S v) :: (BatchEnd e b, S v)
         :: sched_entry sched e (S v) ++ [(EpochEnd e, S v); (TrainEnd, S v)].
Proof.
  intros E Hr. eapply (follow_fit_cb inj sched start epochs nb ver0 8); [| |exact E|exact Hr]; [reflexivity|].
  destruct sched; reflexivity.
Qed.

Theorem stop_at_batch_end inj sched start epochs nb ver0 pre e b v post :
  log (fit inj sched start epochs nb false ver0) = pre ++ (BatchEnd e b, v) :: post ->
  raised inj (vis (map fst pre) ++ [BatchEnd e b]) = true ->
  post = sched_entry sched e v ++ [(EpochEnd e, v); (TrainEnd, v)].
Proof.
  intros E Hr. eapply (follow_fit_cb inj sched start epochs nb ver0 8); [| |exact E|exact Hr]; [reflexivity|].
  destruct sched; reflexivity.
Qed.

Theorem stop_at_epoch_end inj sched start epochs nb ver0 pre e v post :
  log (fit inj sched start epochs nb false ver0) = pre ++ (EpochEnd e, v) :: post ->
  raised inj (vis (map fst pre) ++ [EpochEnd e]) = true ->
  post = [(TrainEnd, v)].
Proof.
  intros E Hr. eapply (follow_fit_cb inj sched start epochs nb ver0 8); [| |exact E|exact Hr]; [reflexivity|].
  reflexivity.
Qed.

Definition after_epoch_start (sched : bool) (nb : nat) (e : Z) (v : nat) : list (event * nat) :=
  if Nat.eqb nb 0
  then sched_entry sched e v ++ [(EpochEnd e, v); (TrainEnd, v)]
  else (BatchStart e 0, v) :: (OptStep e 0, S v) :: (BatchEnd e 0, S v)
       :: sched_entry sched e (S v) ++ [(EpochEnd e, S v); (TrainEnd, S v)].

Theorem stop_at_epoch_start inj sched start epochs nb ver0 pre e v post :
  log (fit inj sched start epochs nb false ver0) = pre ++ (EpochStart e, v) :: post ->
  raised inj (vis (map fst pre) ++ [EpochStart e]) = true ->
  post = after_epoch_start sched nb e v.
Proof.
  intros E Hr. eapply (follow_fit_cb inj sched start epochs nb ver0 8); [| |exact E|exact Hr]; [reflexivity|].
  unfold after_epoch_start. destruct sched; destruct nb; reflexivity.
Qed.

Theorem stop_at_train_start inj sched start epochs nb ver0 pre v post :
  log (fit inj sched start epochs nb false ver0) = pre ++ (TrainStart, v) :: post ->
  raised inj (vis (map fst pre) ++ [TrainStart]) = true ->
  post = if (start <=? epochs)%Z
         then (EpochStart start, v) :: after_epoch_start sched nb start v
         else [(TrainEnd, v)].
Proof.
  intros E Hr. eapply (follow_fit_cb inj sched start epochs nb ver0 8); [| |exact E|exact Hr]; [reflexivity|].
  unfold after_epoch_start. simpl.
  destruct (start <=? epochs)%Z; destruct sched; destruct nb; reflexivity.
Qed.

(* the same on the callback-visible log (what user callbacks observe, with the versions
   their snapshots would show) *)
Theorem stop_in_batch_start_visible inj sched start epochs nb ver0 p e b v q :
  vlog (fit inj sched start epochs nb false ver0) = p ++ (BatchStart e b, v) :: q ->
  raised inj (map fst p ++ [BatchStart e b]) = true ->
  q = [(BatchEnd e b, S v); (EpochEnd e, S v); (TrainEnd, S v)].
Proof.
  intros E Hr.
  assert (T := fun t Ht => follow_vis inj sched start epochs nb ver0 8 p (BatchStart e b) v q t Ht E Hr).
  destruct sched; rewrite (T _ eq_refl); reflexivity.
Qed.

Theorem stop_in_batch_end_visible inj sched start epochs nb ver0 p e b v q :
  vlog (fit inj sched start epochs nb false ver0) = p ++ (BatchEnd e b, v) :: q ->
  raised inj (map fst p ++ [BatchEnd e b]) = true ->
  q = [(EpochEnd e, v); (TrainEnd, v)].
Proof.
  intros E Hr.
  assert (T := fun t Ht => follow_vis inj sched start epochs nb ver0 8 p (BatchEnd e b) v q t Ht E Hr).
  destruct sched; rewrite (T _ eq_refl); reflexivity.
Qed.

Theorem stop_at_epoch_end_visible inj sched start epochs nb ver0 p e v q :
  vlog (fit inj sched start epochs nb false ver0) = p ++ (EpochEnd e, v) :: q ->
  raised inj (map fst p ++ [EpochEnd e]) = true ->
  q = [(TrainEnd, v)].
Proof.
  intros E Hr.
  assert (T := fun t Ht => follow_vis inj sched start epochs nb ver0 8 p (EpochEnd e) v q t Ht E Hr).
  rewrite (T _ eq_refl); reflexivity.
Qed.

Definition after_epoch_start_visible (nb : nat) (e : Z) (v : nat) : list (event * nat) :=
  if Nat.eqb nb 0
  then [(EpochEnd e, v); (TrainEnd, v)]
  else [(BatchStart e 0, v); (BatchEnd e 0, S v); (EpochEnd e, S v); (TrainEnd, S v)].

Theorem stop_at_epoch_start_visible inj sched start epochs nb ver0 p e v q :
  vlog (fit inj sched start epochs nb false ver0) = p ++ (EpochStart e, v) :: q ->
  raised inj (map fst p ++ [EpochStart e]) = true ->
  q = after_epoch_start_visible nb e v.
Proof.
  intros E Hr.
  assert (T := fun t Ht => follow_vis inj sched start epochs nb ver0 8 p (EpochStart e) v q t Ht E Hr).
  unfold after_epoch_start_visible. destruct sched; destruct nb; rewrite (T _ eq_refl); reflexivity.
Qed.

Theorem stop_at_train_start_visible inj sched start epochs nb ver0 p v q :
  vlog (fit inj sched start epochs nb false ver0) = p ++ (TrainStart, v) :: q ->
  raised inj (map fst p ++ [TrainStart]) = true ->
  q = if (start <=? epochs)%Z
      then (EpochStart start, v) :: after_epoch_start_visible nb start v
      else [(TrainEnd, v)].
Proof.
  intros E Hr.
  assert (T := fun t Ht => follow_vis inj sched start epochs nb ver0 8 p TrainStart v q t Ht E Hr).
  unfold after_epoch_start_visible. simpl in T.
  destruct (start <=? epochs)%Z; destruct sched; destruct nb; rewrite (T _ eq_refl); reflexivity.
Qed.

(* ------------------------------------------------------------------ versions change only inside batches *)
Theorem params_change_only_inside_batches inj sched start epochs nb ver0 pre x vx y vy post :
  log (fit inj sched start epochs nb false ver0) = pre ++ (x, vx) :: (y, vy) :: post ->
  vy = vx \/
  (exists e b post', x = BatchStart e b /\ y = OptStep e b /\ vy = S vx /\
                     post = (BatchEnd e b, S vx) :: post').
Proof.
  intros E. pose proof (fit_path inj sched start epochs nb ver0) as Hp.
  destruct (fit_log_shape inj sched start epochs nb ver0) as [h Hh]. cbv zeta in Hh.
  destruct (path_split _ _ _ _ _ _ Hp _ _ _ _ _ _ E) as [Hs Hv].
  unfold bump in Hv. destruct (is_opt y) eqn:Oy; [right | left; exact Hv].
  destruct y; try discriminate. apply step_opt_inv in Hs. subst x.
  replace (pre ++ (BatchStart e b, vx) :: (OptStep e b, vy) :: post)
    with ((pre ++ [(BatchStart e b, vx)]) ++ (OptStep e b, vy) :: post) in E
    by (rewrite <- app_assoc; reflexivity).
  destruct (path_next _ _ _ _ _ _ ((TrainStart, ver0) :: h) _ _ _ _ _ Hp Hh E) as [y' [post' [-> Hy']]]; [discriminate|].
  simpl in Hy'. inversion Hy'; subst y'. exists e, b, post'. subst vy. auto.
Qed.

(* the callback-visible form: two consecutive callback events see the same parameters unless
   they are BatchStart e b, BatchEnd e b, in which case exactly one optimizer step lies between *)
Theorem params_visible inj sched start epochs nb ver0 p x vx y vy q :
  vlog (fit inj sched start epochs nb false ver0) = p ++ (x, vx) :: (y, vy) :: q ->
  vy = vx \/ (exists e b, x = BatchStart e b /\ y = BatchEnd e b /\ vy = S vx).
Proof.
  intros E. pose proof (fit_path inj sched start epochs nb ver0) as Hp.
  unfold vlog in E.
  destruct (filter_split2 _ _ _ _ _ _ E) as [p' [m [q' [El [_ [Hm [_ [Hx Hy]]]]]]]].
  simpl in Hx, Hy.
  destruct m as [|[i1 v1] m].
  - simpl in El. destruct (path_split _ _ _ _ _ _ Hp _ _ _ _ _ _ El) as [_ Hv].
    left. rewrite Hv. unfold bump. rewrite (cb_not_opt y Hy). reflexivity.
  - simpl in Hm. destruct (is_cb i1) eqn:C1; [discriminate|].
    simpl in El. destruct (path_split _ _ _ _ _ _ Hp _ _ _ _ _ _ El) as [Hs1 Hv1].
    replace (p' ++ (x, vx) :: (i1, v1) :: m ++ (y, vy) :: q')
      with ((p' ++ [(x, vx)]) ++ (i1, v1) :: m ++ (y, vy) :: q') in El
      by (rewrite <- app_assoc; reflexivity).
    destruct m as [|[i2 v2] m].
    + simpl in El. destruct (path_split _ _ _ _ _ _ Hp _ _ _ _ _ _ El) as [Hs2 Hv2].
      destruct i1; try discriminate.
      * apply step_opt_inv in Hs1. subst x. simpl in Hs2. inversion Hs2; subst y.
        right. exists e, b. unfold bump in *. simpl in *. subst. auto.
      * left. unfold bump in *. rewrite (cb_not_opt y Hy) in Hv2. simpl in Hv1. congruence.
    + simpl in Hm. destruct (is_cb i2) eqn:C2; [discriminate|].
      simpl in El. destruct (path_split _ _ _ _ _ _ Hp _ _ _ _ _ _ El) as [Hs2 _].
      destruct i1; try discriminate; simpl in Hs2; inversion Hs2; subst i2; discriminate.
Qed.

(* final version = initial version + number of optimizer steps *)
Theorem version_counts_opt_steps inj sched start epochs nb stop0 ver0 :
  let s := fit inj sched start epochs nb stop0 ver0 in
  ver s = ver0 + count is_opt (trace s).
Proof.
  destruct stop0; cbv zeta; [unfold count, trace; simpl; lia|]. unfold fit.
  assert (Pe : forall s ev, ver s = ver0 + count is_opt (trace s) ->
                            ver (emit inj s ev) = ver0 + count is_opt (trace (emit inj s ev))).
  { intros s ev H. rewrite ver_emit, trace_emit, count_app, H. unfold bump, count. simpl.
    destruct (is_opt ev); simpl; lia. }
  apply Pe. apply epochs_loop_pres; [exact Pe|]. apply Pe. unfold count, trace. simpl. lia.
Qed.

(* ------------------------------------------------------------------ the grammar *)
(* full traces (internal events included) *)
Inductive fbatches (nb : nat) (e : Z) : nat -> list event -> Prop :=
| fb_nil b : fbatches nb e b []
| fb_cons b l : b < nb -> fbatches nb e (S b) l ->
                fbatches nb e b (BatchStart e b :: OptStep e b :: BatchEnd e b :: l).

Definition sched_ev (sched : bool) (e : Z) : list event := if sched then [SchedStep e] else [].

Inductive fepochs (sched : bool) (epochs : Z) (nb : nat) : Z -> list event -> Prop :=
| fe_nil e : fepochs sched epochs nb e []
| fe_cons e bl l : (e <= epochs)%Z -> fbatches nb e 0 bl -> fepochs sched epochs nb (e + 1)%Z l ->
                   fepochs sched epochs nb e (EpochStart e :: bl ++ sched_ev sched e ++ EpochEnd e :: l).

Definition fgrammar (sched : bool) (start epochs : Z) (nb : nat) (t : list event) : Prop :=
  exists body, fepochs sched epochs nb start body /\ t = TrainStart :: body ++ [TrainEnd].

(* the documented grammar of the callback-visible trace:
     TrainStart (EpochStart e (BatchStart e b BatchEnd e b)^{b = 0,1,..<nb} EpochEnd e)^{e = start,start+1,..<=epochs} TrainEnd *)
Inductive gbatches (nb : nat) (e : Z) : nat -> list event -> Prop :=
| gb_nil b : gbatches nb e b []
| gb_cons b l : b < nb -> gbatches nb e (S b) l ->
                gbatches nb e b (BatchStart e b :: BatchEnd e b :: l).

Inductive gepochs (epochs : Z) (nb : nat) : Z -> list event -> Prop :=
| ge_nil e : gepochs epochs nb e []
| ge_cons e bl l : (e <= epochs)%Z -> gbatches nb e 0 bl -> gepochs epochs nb (e + 1)%Z l ->
                   gepochs epochs nb e (EpochStart e :: bl ++ EpochEnd e :: l).

Definition grammar (start epochs : Z) (nb : nat) (t : list event) : Prop :=
  exists body, gepochs epochs nb start body /\ t = TrainStart :: body ++ [TrainEnd].

Lemma fbatches_vis nb e b l : fbatches nb e b l -> gbatches nb e b (vis l).
Proof. induction 1; simpl; constructor; auto. Qed.

Lemma fepochs_vis sched epochs nb e l : fepochs sched epochs nb e l -> gepochs epochs nb e (vis l).
Proof.
  induction 1 as [|e bl l He Hb Hl IH]; simpl; [constructor|].
  rewrite !vis_app. replace (vis (sched_ev sched e)) with (@nil event) by (destruct sched; reflexivity).
  simpl. constructor; auto. apply fbatches_vis; auto.
Qed.

Lemma fgrammar_vis sched start epochs nb t : fgrammar sched start epochs nb t -> grammar start epochs nb (vis t).
Proof.
  intros [body [Hb ->]]. exists (vis body). split; [eapply fepochs_vis; eauto|].
  simpl. rewrite vis_app. reflexivity.
Qed.

Lemma batches_fg inj nb e : forall n b s, b + n <= nb ->
  exists out, trace (batches inj e b n s) = trace s ++ out /\ fbatches nb e b out.
Proof.
  induction n as [|n IH]; intros b s Hb.
  - exists []. simpl. rewrite app_nil_r. split; [reflexivity | constructor].
  - cbn [batches].
    remember (emit inj (emit inj (emit inj s (BatchStart e b)) (OptStep e b)) (BatchEnd e b)) as s3.
    assert (T3 : trace s3 = trace s ++ [BatchStart e b; OptStep e b; BatchEnd e b]).
    { subst s3. rewrite !trace_emit, <- !app_assoc. reflexivity. }
    destruct (stop s3).
    + exists [BatchStart e b; OptStep e b; BatchEnd e b]. split; [exact T3|].
      constructor; [lia | constructor].
    + destruct (IH (S b) s3) as [out [Ho Hf]]; [lia|].
      exists (BatchStart e b :: OptStep e b :: BatchEnd e b :: out). split.
      * rewrite Ho, T3, <- app_assoc. reflexivity.
      * constructor; [lia | exact Hf].
Qed.

Lemma epoch_body_fg inj sched nb e s :
  exists bl, trace (epoch_body inj sched e nb s)
             = trace s ++ EpochStart e :: bl ++ sched_ev sched e ++ [EpochEnd e] /\
             fbatches nb e 0 bl.
Proof.
  unfold epoch_body.
  destruct (batches_fg inj nb e nb 0 (emit inj s (EpochStart e))) as [bl [Hb Hf]]; [lia|].
  exists bl. split; [|exact Hf].
  rewrite trace_emit. destruct sched; simpl.
  - rewrite trace_emit, Hb, trace_emit, <- !app_assoc. reflexivity.
  - rewrite Hb, trace_emit, <- !app_assoc. reflexivity.
Qed.

Lemma epochs_loop_fg inj sched epochs nb : forall k e s,
  k = 0 \/ (e + Z.of_nat k <= epochs + 1)%Z ->
  exists out, trace (epochs_loop inj sched nb e k s) = trace s ++ out /\
              fepochs sched epochs nb e out.
Proof.
  induction k as [|k IH]; intros e s Hk.
  - exists []. simpl. rewrite app_nil_r. split; [reflexivity | constructor].
  - cbn [epochs_loop]. destruct Hk as [Hk|Hk]; [discriminate|].
    destruct (epoch_body_fg inj sched nb e s) as [bl [Hb Hf]].
    remember (epoch_body inj sched e nb s) as s'.
    destruct (stop s').
    + exists (EpochStart e :: bl ++ sched_ev sched e ++ EpochEnd e :: []). split; [exact Hb|].
      constructor; [lia | exact Hf | constructor].
    + destruct (IH (e + 1)%Z s') as [out [Ho Hfe]].
      { destruct k; [left; reflexivity | right; lia]. }
      exists (EpochStart e :: bl ++ sched_ev sched e ++ EpochEnd e :: out). split.
      * rewrite Ho, Hb. rewrite <- !app_assoc. simpl. rewrite <- !app_assoc. reflexivity.
      * constructor; [lia | exact Hf | exact Hfe].
Qed.

Theorem fit_full_grammar inj sched start epochs nb ver0 :
  fgrammar sched start epochs nb (trace (fit inj sched start epochs nb false ver0)).
Proof.
  unfold fit.
  destruct (epochs_loop_fg inj sched epochs nb (num_epochs start epochs) start
              (emit inj (mkst [] false ver0) TrainStart)) as [out [Ho Hf]].
  { unfold num_epochs. lia. }
  exists out. split; [exact Hf|].
  rewrite trace_emit, Ho, trace_emit. reflexivity.
Qed.

Theorem trace_grammar inj sched start epochs nb ver0 :
  grammar start epochs nb (ctrace (fit inj sched start epochs nb false ver0)).
Proof. apply (fgrammar_vis sched). apply fit_full_grammar. Qed.

(* consequences of the grammar: TrainStart / TrainEnd exactly once, TrainEnd is the last event *)
Lemma gbatches_no_train nb e b l : gbatches nb e b l ->
  count is_train_start l = 0 /\ count is_train_end l = 0.
Proof. induction 1; simpl; auto. Qed.

Lemma gepochs_no_train epochs nb e l : gepochs epochs nb e l ->
  count is_train_start l = 0 /\ count is_train_end l = 0.
Proof.
  induction 1 as [|e bl l He Hb Hl [IH1 IH2]]; [simpl; auto|].
  destruct (gbatches_no_train _ _ _ _ Hb) as [B1 B2].
  change (EpochStart e :: bl ++ EpochEnd e :: l) with ([EpochStart e] ++ bl ++ [EpochEnd e] ++ l).
  rewrite !count_app, B1, B2, IH1, IH2. split; reflexivity.
Qed.

Theorem grammar_train_events_once start epochs nb t : grammar start epochs nb t ->
  count is_train_start t = 1 /\ count is_train_end t = 1 /\
  (exists t', t = TrainStart :: t' ++ [TrainEnd]) /\
  (forall pre post, t = pre ++ TrainEnd :: post -> post = []).
Proof.
  intros [body [Hb ->]]. destruct (gepochs_no_train _ _ _ _ Hb) as [B1 B2].
  change (TrainStart :: body ++ [TrainEnd]) with ([TrainStart] ++ body ++ [TrainEnd]).
  rewrite !count_app, B1, B2.
  split; [reflexivity|]. split; [reflexivity|]. split; [exists body; reflexivity|].
  intros pre post E. destruct (snoc_cases post) as [->|[post' [z ->]]]; [reflexivity|exfalso].
  change ([TrainStart] ++ body ++ [TrainEnd]) with ((TrainStart :: body) ++ [TrainEnd]) in E.
  replace (pre ++ TrainEnd :: post' ++ [z]) with ((pre ++ TrainEnd :: post') ++ [z]) in E
    by (rewrite <- app_assoc; reflexivity).
  apply app_inj_tail in E. destruct E as [E _].
  assert (C : count is_train_end (TrainStart :: body) = 0).
  { change (TrainStart :: body) with ([TrainStart] ++ body). rewrite count_app, B2. reflexivity. }
  rewrite E, count_app in C. unfold count in C. simpl in C. lia.
Qed.

(* the executable recogniser accepts every trace generated by the grammar *)
Lemma gbatches_rrun nb e : forall b l, gbatches nb e b l ->
  forall rest, exists b', rrun (RInEpoch e b) (l ++ rest) = rrun (RInEpoch e b') rest.
Proof.
  induction 1 as [b | b l Hb Hl IH]; intros rest.
  - exists b. reflexivity.
  - destruct (IH rest) as [b' Hb']. exists b'. simpl.
    rewrite Z.eqb_refl, Nat.eqb_refl. simpl. rewrite Z.eqb_refl, Nat.eqb_refl. simpl. exact Hb'.
Qed.

Lemma gepochs_rrun epochs nb : forall e l, gepochs epochs nb e l ->
  rrun (RBetween e) (l ++ [TrainEnd]) = Some RDone.
Proof.
  induction 1 as [e | e bl l He Hb Hl IH].
  - reflexivity.
  - simpl. rewrite Z.eqb_refl. rewrite <- app_assoc.
    destruct (gbatches_rrun nb e 0 bl Hb ((EpochEnd e :: l) ++ [TrainEnd])) as [b' Hb'].
    simpl in Hb'. simpl. rewrite Hb'. simpl. rewrite Z.eqb_refl. exact IH.
Qed.

Theorem grammar_recognised start epochs nb t : grammar start epochs nb t -> recognise start t = true.
Proof.
  intros [body [Hb ->]]. simpl. rewrite (gepochs_rrun _ _ _ _ Hb). reflexivity.
Qed.

(* ------------------------------------------------------------------ no stop request: the whole run *)
Section NoStop.
  Variable inj : injector.
  Hypothesis quiet : forall h, inj h = false.

  Lemma emit_quiet s ev : stop s = false ->
    emit inj s ev = mkst (log s ++ [(ev, bump ev (ver s))]) false (bump ev (ver s)).
  Proof.
    intros H. unfold emit. fold (bump ev (ver s)). rewrite quiet, H. destruct (is_cb ev); reflexivity.
  Qed.

  Lemma batches_quiet e : forall n b s, stop s = false ->
    batches inj e b n s = mkst (log s ++ full_batches e b n (ver s)) false (n + ver s).
  Proof.
    induction n as [|n IH]; intros b s H; cbn [batches full_batches].
    - destruct s; simpl in *. subst. rewrite app_nil_r. reflexivity.
    - rewrite (emit_quiet s) by assumption. rewrite emit_quiet by reflexivity.
      rewrite emit_quiet by reflexivity. cbn [stop log ver bump is_opt].
      rewrite IH by reflexivity. cbn [log ver]. rewrite <- !app_assoc. simpl.
      rewrite Nat.add_succ_r. reflexivity.
  Qed.

  Lemma epoch_body_quiet sched nb e s : stop s = false ->
    epoch_body inj sched e nb s = mkst (log s ++ full_epoch sched nb e (ver s)) false (nb + ver s).
  Proof.
    intros H. unfold epoch_body, full_epoch. rewrite (emit_quiet s) by assumption.
    rewrite batches_quiet by reflexivity. cbn [log ver bump is_opt].
    destruct sched; repeat (rewrite emit_quiet by reflexivity); cbn [log ver bump is_opt];
      rewrite <- !app_assoc; reflexivity.
  Qed.

  Lemma epochs_loop_quiet sched nb : forall k e s, stop s = false ->
    epochs_loop inj sched nb e k s
    = mkst (log s ++ full_epochs sched nb e k (ver s)) false (k * nb + ver s).
  Proof.
    induction k as [|k IH]; intros e s H; cbn [epochs_loop full_epochs].
    - destruct s; simpl in *. subst. rewrite app_nil_r. reflexivity.
    - rewrite epoch_body_quiet by assumption. cbn [stop]. rewrite IH by reflexivity.
      cbn [log ver]. rewrite <- app_assoc. f_equal. lia.
  Qed.

  Theorem no_stop_runs_everything sched start epochs nb ver0 :
    fit inj sched start epochs nb false ver0
    = mkst (full_run sched start epochs nb ver0) false (num_epochs start epochs * nb + ver0).
  Proof.
    unfold fit, full_run. rewrite (emit_quiet (mkst [] false ver0)) by reflexivity.
    rewrite epochs_loop_quiet by reflexivity. rewrite emit_quiet by reflexivity.
    cbn [log ver bump is_opt is_cb]. simpl app. reflexivity.
  Qed.
End NoStop.

(* the callback-visible trace of the full run, spelled out *)
Fixpoint all_batches_vis (e : Z) (b n : nat) : list event :=
  match n with O => [] | S n' => BatchStart e b :: BatchEnd e b :: all_batches_vis e (S b) n' end.
Fixpoint all_epochs_vis (nb : nat) (e : Z) (k : nat) : list event :=
  match k with
  | O => []
  | S k' => EpochStart e :: all_batches_vis e 0 nb ++ EpochEnd e :: all_epochs_vis nb (e + 1)%Z k'
  end.

Lemma full_batches_vis e : forall n b v, vis (map fst (full_batches e b n v)) = all_batches_vis e b n.
Proof. induction n; intros; simpl; auto. rewrite IHn. reflexivity. Qed.

Lemma full_epoch_vis sched nb e v :
  vis (map fst (full_epoch sched nb e v)) = EpochStart e :: all_batches_vis e 0 nb ++ [EpochEnd e].
Proof.
  unfold full_epoch. cbn [map fst vis filter is_cb]. fold (vis (map fst (full_batches e 0 nb v ++
    (if sched then [(SchedStep e, nb + v)] else []) ++ [(EpochEnd e, nb + v)]))).
  rewrite !map_app, !vis_app, full_batches_vis. destruct sched; reflexivity.
Qed.

Lemma full_epochs_vis sched nb : forall k e v,
  vis (map fst (full_epochs sched nb e k v)) = all_epochs_vis nb e k.
Proof.
  induction k; intros; cbn [full_epochs all_epochs_vis]; auto.
  rewrite map_app, vis_app, full_epoch_vis, IHk. simpl. rewrite <- app_assoc. reflexivity.
Qed.

Theorem no_stop_visible_trace inj sched start epochs nb ver0 :
  (forall h, inj h = false) ->
  ctrace (fit inj sched start epochs nb false ver0)
  = TrainStart :: all_epochs_vis nb start (num_epochs start epochs) ++ [TrainEnd].
Proof.
  intros Hq. rewrite no_stop_runs_everything by assumption.
  unfold ctrace, trace, full_run. simpl. rewrite map_app, vis_app, full_epochs_vis. reflexivity.
Qed.

Theorem empty_range_runs_nothing inj sched start epochs nb ver0 :
  (epochs < start)%Z ->
  fit inj sched start epochs nb false ver0
  = mkst [(TrainStart, ver0); (TrainEnd, ver0)] (inj [TrainStart] || inj [TrainStart; TrainEnd]) ver0.
Proof.
  intros H. unfold fit, num_epochs. replace (Z.to_nat (epochs + 1 - start)) with 0 by lia.
  reflexivity.
Qed.

(* ------------------------------------------------------------------ counting (used by C06) *)
Lemma fbatches_counts nb e b l : fbatches nb e b l ->
  count is_opt l = count is_batch_end l /\ count is_sched l = 0 /\ count is_epoch_end l = 0.
Proof.
  induction 1 as [|b l Hb Hl [I1 [I2 I3]]]; [simpl; auto|].
  unfold count in *. simpl. rewrite I1, I2, I3. auto.
Qed.

Lemma fepochs_counts sched epochs nb e l : fepochs sched epochs nb e l ->
  count is_opt l = count is_batch_end l /\
  count is_sched l = (if sched then count is_epoch_end l else 0).
Proof.
  induction 1 as [|e bl l He Hb Hl [I1 I2]]; [destruct sched; simpl; auto|].
  destruct (fbatches_counts _ _ _ _ Hb) as [B1 [B2 B3]].
  change (EpochStart e :: bl ++ sched_ev sched e ++ EpochEnd e :: l)
    with ([EpochStart e] ++ bl ++ sched_ev sched e ++ [EpochEnd e] ++ l).
  rewrite !count_app, B1, B2, B3, I1, I2. destruct sched; simpl; split; reflexivity.
Qed.

Theorem opt_steps_eq_batch_ends inj sched start epochs nb stop0 ver0 :
  let t := trace (fit inj sched start epochs nb stop0 ver0) in
  count is_opt t = count is_batch_end t.
Proof.
  destruct stop0; [reflexivity|]. cbv zeta.
  destruct (fit_full_grammar inj sched start epochs nb ver0) as [body [Hb ->]].
  destruct (fepochs_counts _ _ _ _ _ Hb) as [C1 C2].
  change (TrainStart :: body ++ [TrainEnd]) with ([TrainStart] ++ body ++ [TrainEnd]).
  rewrite !count_app, C1. reflexivity.
Qed.

Theorem sched_steps_eq_epoch_ends inj sched start epochs nb stop0 ver0 :
  let t := trace (fit inj sched start epochs nb stop0 ver0) in
  count is_sched t = if sched then count is_epoch_end t else 0.
Proof.
  destruct stop0; [destruct sched; reflexivity|]. cbv zeta.
  destruct (fit_full_grammar inj sched start epochs nb ver0) as [body [Hb ->]].
  destruct (fepochs_counts _ _ _ _ _ Hb) as [C1 C2].
  change (TrainStart :: body ++ [TrainEnd]) with ([TrainStart] ++ body ++ [TrainEnd]).
  rewrite !count_app, C2. destruct sched; unfold count; simpl; lia.
Qed.

(* where the internal events sit: OptStep strictly between BatchStart e b and BatchEnd e b,
   SchedStep directly before EpochEnd e and after the batch loop *)
Theorem opt_step_position inj sched start epochs nb ver0 pre e b v post :
  log (fit inj sched start epochs nb false ver0) = pre ++ (OptStep e b, v) :: post ->
  (exists pre', pre = pre' ++ [(BatchStart e b, pred v)]) /\ v <> 0 /\
  (exists post', post = (BatchEnd e b, v) :: post').
Proof.
  intros E. pose proof (fit_path inj sched start epochs nb ver0) as Hp.
  destruct (fit_log_shape inj sched start epochs nb ver0) as [h Hh]. cbv zeta in Hh.
  destruct (path_next _ _ _ _ _ _ ((TrainStart, ver0) :: h) _ _ _ _ _ Hp Hh E) as [y [post' [-> Hy]]];
    [discriminate|].
  simpl in Hy. inversion Hy; subst y. split; [|split; [|eauto]].
  - destruct (snoc_cases pre) as [->|[pre' [[x vx] ->]]].
    + rewrite Hh in E. simpl in E. inversion E.
    + rewrite <- app_assoc in E. simpl in E.
      destruct (path_split _ _ _ _ _ _ Hp _ _ _ _ _ _ E) as [Hs Hv].
      apply step_opt_inv in Hs. subst x. exists pre'. unfold bump in Hv. simpl in Hv. subst v. reflexivity.
  - destruct (snoc_cases pre) as [->|[pre' [[x vx] ->]]].
    + rewrite Hh in E. simpl in E. inversion E.
    + rewrite <- app_assoc in E. simpl in E.
      destruct (path_split _ _ _ _ _ _ Hp _ _ _ _ _ _ E) as [_ Hv]. unfold bump in Hv. simpl in Hv. lia.
Qed.

Theorem sched_step_position inj sched start epochs nb ver0 pre e v post :
  log (fit inj sched start epochs nb false ver0) = pre ++ (SchedStep e, v) :: post ->
  exists post', post = (EpochEnd e, v) :: post'.
Proof.
  intros E. pose proof (fit_path inj sched start epochs nb ver0) as Hp.
  destruct (fit_log_shape inj sched start epochs nb ver0) as [h Hh]. cbv zeta in Hh.
  destruct (path_next _ _ _ _ _ _ ((TrainStart, ver0) :: h) _ _ _ _ _ Hp Hh E) as [y [post' [-> Hy]]];
    [discriminate|].
  simpl in Hy. inversion Hy; subst y. eauto.
Qed.

(* ------------------------------------------------------------------ CallbackList dispatch *)
Lemma dispatch_spec : forall cbs i h flag dl,
  dispatch cbs i h flag dl = (flag || existsb (fun c => c h) cbs, dl ++ seq i (length cbs)).
Proof.
  induction cbs as [|c cbs IH]; intros i h flag dl; simpl.
  - rewrite orb_false_r, app_nil_r. reflexivity.
  - rewrite IH, orb_assoc, <- app_assoc. reflexivity.
Qed.

(* every event reaches callbacks 0 .. m-1 in list order, and the flag after the event is the
   disjunction of what the callbacks did *)
Theorem dispatch_order cbs h :
  dispatch cbs 0 h false [] = (existsb (fun c => c h) cbs, seq 0 (length cbs)).
Proof. rewrite dispatch_spec. reflexivity. Qed.

Theorem inject_of_spec cbs h : inject_of cbs h = existsb (fun c => c h) cbs.
Proof. unfold inject_of. rewrite dispatch_order. reflexivity. Qed.

Theorem deliveries_in_order cbs t :
  deliveries cbs t = flat_map (fun ev => map (fun i => (i, ev)) (seq 0 (length cbs))) t.
Proof.
  unfold deliveries. generalize (@nil event).
  induction t as [|x t IH]; intros acc; simpl; auto.
  rewrite dispatch_order, IH. reflexivity.
Qed.

(* the Timer is appended last and never changes what the run does *)
Theorem timer_is_last time cbs :
  length (with_timer time cbs) = length cbs + (if time then 1 else 0) /\
  (forall i, i < length cbs -> nth_error (with_timer time cbs) i = nth_error cbs i) /\
  (time = true -> nth_error (with_timer time cbs) (length cbs) = Some timer_cb).
Proof.
  destruct time; simpl.
  - rewrite app_length. simpl. split; [reflexivity|]. split.
    + intros i Hi. apply nth_error_app1. exact Hi.
    + intros _. rewrite nth_error_app2, Nat.sub_diag by lia. reflexivity.
  - split; [lia|]. split; [reflexivity | discriminate].
Qed.

Theorem timer_does_not_interfere time cbs h :
  inject_of (with_timer time cbs) h = inject_of cbs h.
Proof.
  rewrite !inject_of_spec. destruct time; simpl; [|reflexivity].
  rewrite existsb_app. simpl. unfold timer_cb. rewrite !orb_false_r. reflexivity.
Qed.

Lemma fit_ext inj inj' sched start epochs nb stop0 ver0 :
  (forall h, inj h = inj' h) ->
  fit inj sched start epochs nb stop0 ver0 = fit inj' sched start epochs nb stop0 ver0.
Proof.
  intros H.
  assert (He : forall s ev, emit inj s ev = emit inj' s ev).
  { intros s ev. unfold emit. rewrite H. reflexivity. }
  assert (Hb : forall e n b s, batches inj e b n s = batches inj' e b n s).
  { induction n; intros; cbn [batches]; auto. rewrite !He. destruct (stop _); auto. }
  assert (Hep : forall e s, epoch_body inj sched e nb s = epoch_body inj' sched e nb s).
  { intros. unfold epoch_body. rewrite !He, Hb. destruct sched; rewrite ?He; reflexivity. }
  assert (Hl : forall k e s, epochs_loop inj sched nb e k s = epochs_loop inj' sched nb e k s).
  { induction k; intros; cbn [epochs_loop]; auto. rewrite Hep. destruct (stop _); auto. }
  unfold fit. destruct stop0; auto. rewrite !He, Hl. reflexivity.
Qed.

Theorem timer_run_equal cbs time sched start epochs nb stop0 ver0 :
  fit_cbs cbs time sched start epochs nb stop0 ver0 = fit_cbs cbs false sched start epochs nb stop0 ver0.
Proof. unfold fit_cbs. apply fit_ext. intros h. apply timer_does_not_interfere. Qed.

(* the Timer announces the termination at most once, and reports the time once per TrainEnd *)
Lemma timer_from_terms inj : forall rest acc flag notified,
  length (filter is_term (timer_from inj acc flag notified rest)) <= (if notified then 0 else 1).
Proof.
  induction rest as [|x rest IH]; intros acc flag notified; simpl.
  - destruct notified; lia.
  - destruct x; simpl; try apply IH;
      destruct ((flag || inj (acc ++ [_])) && negb notified) eqn:C; simpl; try apply IH.
    + destruct notified; [rewrite andb_false_r in C; discriminate|].
      specialize (IH (acc ++ [BatchEnd e b]) (flag || inj (acc ++ [BatchEnd e b])) true). simpl in IH. lia.
    + destruct notified; [rewrite andb_false_r in C; discriminate|].
      specialize (IH (acc ++ [EpochEnd e]) (flag || inj (acc ++ [EpochEnd e])) true). simpl in IH. lia.
Qed.

Theorem timer_notifies_at_most_once inj t : length (filter is_term (timer_msgs inj t)) <= 1.
Proof. apply (timer_from_terms inj t [] false false). Qed.

(* ------------------------------------------------------------------ batches per epoch *)
Theorem num_batches_is_ceiling N bs : 0 < bs ->
  N <= num_batches N bs * bs /\ num_batches N bs * bs < N + bs.
Proof.
  intros H. unfold num_batches.
  pose proof (Nat.div_mod (N + bs - 1) bs) as D.
  pose proof (Nat.mod_upper_bound (N + bs - 1) bs) as U.
  nia.
Qed.

Theorem num_batches_zero_iff N bs : 0 < bs -> (num_batches N bs = 0 <-> N = 0).
Proof.
  intros H. destruct (num_batches_is_ceiling N bs H) as [A B]. split; intros E.
  - rewrite E in A. lia.
  - subst N. nia.
Qed.

(* ------------------------------------------------------------------ the setter *)
Theorem set_stop_accepts_only_bool v b : set_stop v = SetOk b <-> v = VBool b.
Proof. destruct v; simpl; split; intros H; inversion H; reflexivity. Qed.

Theorem set_stop_rejects_non_bool v : (forall b, v <> VBool b) -> set_stop v = SetValueError.
Proof. destruct v; simpl; intros H; auto. exfalso. apply (H b). reflexivity. Qed.

(* ------------------------------------------------------------------ scripted injectors (used by the check) *)
Lemma raise_at_once i h x : raise_at i (h ++ [x]) = true <-> length h = i.
Proof. unfold raise_at. rewrite app_length. simpl. rewrite Nat.eqb_eq. lia. Qed.

Lemma scripted_inject m j i h : j < m ->
  inject_of (scripted_cbs m j i) h = raise_at i h.
Proof.
  intros Hj. rewrite inject_of_spec. unfold scripted_cbs.
  destruct (raise_at i h) eqn:R.
  - apply existsb_exists. exists (raise_at i). split; [|exact R].
    apply in_map_iff. exists j. rewrite Nat.eqb_refl. split; [reflexivity|].
    apply in_seq. lia.
  - apply not_true_is_false. intros E. apply existsb_exists in E. destruct E as [c [Hin Hc]].
    apply in_map_iff in Hin. destruct Hin as [k [<- _]].
    destruct (Nat.eqb k j); [congruence | discriminate].
Qed.

(* consecutive log entries of any run follow the successor function [step] (the run is the orbit
   of a deterministic automaton driven by the flag), and versions move only at OptStep *)
Theorem run_follows_step inj sched start epochs nb ver0 pre x vx y vy post :
  log (fit inj sched start epochs nb false ver0) = pre ++ (x, vx) :: (y, vy) :: post ->
  step sched start epochs nb (raised inj (vis (map fst (pre ++ [(x, vx)])))) x = Some y /\
  vy = (if is_opt y then S vx else vx).
Proof.
  intros E. exact (path_split _ _ _ _ _ _ (fit_path inj sched start epochs nb ver0) _ _ _ _ _ _ E).
Qed.

Theorem run_shape inj sched start epochs nb ver0 :
  let s := fit inj sched start epochs nb false ver0 in
  exists h, log s = (TrainStart, ver0) :: h ++ [(TrainEnd, ver s)].
Proof. apply fit_log_shape. Qed.

(* ------------------------------------------------------------------ non-vacuity *)
(* the trace the real code produced in the design spike: one batch per epoch, a callback raises
   the flag at BatchEnd 1 0 *)
Example spike_trace :
  ctrace (fit (raise_at 3) false 1 3 1 false 0)
  = [TrainStart; EpochStart 1; BatchStart 1 0; BatchEnd 1 0; EpochEnd 1; TrainEnd].
Proof. reflexivity. Qed.

Example stop_hypotheses_satisfiable :
  let s := fit (raise_at 3) true 1 3 2 false 0 in
  exists pre post,
    log s = pre ++ (BatchEnd 1 0, 1) :: post /\
    raised (raise_at 3) (vis (map fst pre) ++ [BatchEnd 1 0]) = true /\
    post = [(SchedStep 1, 1); (EpochEnd 1, 1); (TrainEnd, 1)].
Proof.
  exists [(TrainStart, 0); (EpochStart 1%Z, 0); (BatchStart 1%Z 0, 0); (OptStep 1%Z 0, 1)].
  exists [(SchedStep 1%Z, 1); (EpochEnd 1%Z, 1); (TrainEnd, 1)].
  repeat split; reflexivity.
Qed.

Example full_run_example :
  map fst (full_run true 2 3 2 0)
  = [TrainStart;
     EpochStart 2; BatchStart 2 0; OptStep 2 0; BatchEnd 2 0; BatchStart 2 1; OptStep 2 1; BatchEnd 2 1;
     SchedStep 2; EpochEnd 2;
     EpochStart 3; BatchStart 3 0; OptStep 3 0; BatchEnd 3 0; BatchStart 3 1; OptStep 3 1; BatchEnd 3 1;
     SchedStep 3; EpochEnd 3;
     TrainEnd].
Proof. reflexivity. Qed.
