(* BuildT.v — proofs about construction / reset (C20): module= uses the module and deep-copies it,
   independence of the two networks, shapes and zero biases, reinitialisation, fit guards, and the zero
   auxiliary bias of the phase network under every optimizer that keeps a quiescent zero coordinate at zero. *)
From Coq Require Import List Arith Bool Lia Reals Lra.
From QModel Require Import Num CBase Store Build.
From QTheory Require Import RInst StoreT.
Import ListNotations.
Open Scope nat_scope.

(* ------------------------------------------------------------------ allocation *)
Lemma alloc_ids vals : forall next, map snd (fst (alloc_cells vals next)) = seq next (length vals).
Proof. induction vals as [|[p c] r IH]; intros next; simpl; [reflexivity | rewrite IH; reflexivity]. Qed.

Lemma alloc_keys vals : forall next, map fst (snd (alloc_cells vals next)) = seq next (length vals).
Proof. induction vals as [|[p c] r IH]; intros next; simpl; [reflexivity | rewrite IH; reflexivity]. Qed.

Lemma alloc_names vals : forall next, map fst (fst (alloc_cells vals next)) = map fst vals.
Proof. induction vals as [|[p c] r IH]; intros next; simpl; [reflexivity | rewrite IH; reflexivity]. Qed.

Lemma assoc_app_notin {A} k (a b : list (nat * A)) : ~ In k (map fst a) -> assoc k (a ++ b) = assoc k b.
Proof.
  induction a as [|[k' v] r IH]; simpl; intros H; [reflexivity|].
  destruct (k =? k') eqn:E; [apply Nat.eqb_eq in E; subst; exfalso; apply H; left; reflexivity | apply IH; tauto].
Qed.

Lemma alloc_lookup vals : forall next rest,
  map (fun pc => (fst pc, assoc (snd pc) (snd (alloc_cells vals next) ++ rest))) (fst (alloc_cells vals next))
  = map (fun pv => (fst pv, Some (snd pv))) vals.
Proof.
  induction vals as [|[p c] r IH]; intros next rest; simpl; [reflexivity|].
  rewrite Nat.eqb_refl. f_equal. rewrite <- (IH (S next) rest).
  apply map_ext_in. intros pc Hin. f_equal.
  assert (In (snd pc) (seq (S next) (length r))) by (rewrite <- alloc_ids; apply in_map; exact Hin).
  apply in_seq in H. destruct (snd pc =? next) eqn:E; [apply Nat.eqb_eq in E; lia | reflexivity].
Qed.

Definition as_values (vals : list (nat * cell)) : list (nat * option cell) := map (fun pv => (fst pv, Some (snd pv))) vals.

(* ------------------------------------------------------------------ initialize_parameters / new_net *)
Lemma init_values_length shapes : forall d, length (init_values shapes d) = length shapes.
Proof.
  induction shapes as [|[p sh] r IH]; intros d; simpl; [reflexivity|].
  destruct (is_weight p); [destruct d|]; simpl; rewrite IH; reflexivity.
Qed.

Lemma init_values_shapes shapes : forall d, map (fun pv => (fst pv, c_shape (snd pv))) (init_values shapes d) = shapes.
Proof.
  induction shapes as [|[p sh] r IH]; intros d; simpl; [reflexivity|].
  destruct (is_weight p); [destruct d|]; simpl; rewrite IH; reflexivity.
Qed.

Lemma init_values_biases_zero shapes : forall d p c,
  In (p, c) (init_values shapes d) -> is_weight p = false -> c_val c = VZero.
Proof.
  induction shapes as [|[q sh] r IH]; intros d p c; simpl; [contradiction|].
  destruct (is_weight q) eqn:E; [destruct d|]; simpl; intros [Heq|Hin] Hw;
    try (injection Heq as -> <-; simpl; congruence); try (eapply IH; eassumption).
Qed.

Lemma init_values_weights_drawn shapes : forall d p c,
  In (p, c) (init_values shapes d) -> is_weight p = true -> exists t, c_val c = VTok t.
Proof.
  induction shapes as [|[q sh] r IH]; intros d p c; simpl; [contradiction|].
  destruct (is_weight q) eqn:E; [destruct d|]; simpl; intros [Heq|Hin] Hw;
    try (injection Heq as -> <-; simpl; eexists; reflexivity); try (eapply IH; eassumption).
  injection Heq as -> <-. congruence.
Qed.

Definition shapes_of (no : netobj) := net_shapes (no_kind no) (no_nv no) (no_nh no) (no_na no).

(* what initialize_parameters does to the network itself: attributes kept, every parameter a fresh cell *)
Lemma initialize_spec n d H no :
  assoc n (b_nets H) = Some no ->
  let H' := initialize_parameters n d H in
  net_values H' n = as_values (init_values (shapes_of no) d) /\
  net_sizes H' n = net_sizes H n /\
  net_cells H' n = seq (b_next H) (length (shapes_of no)) /\
  b_next H' = b_next H + length (shapes_of no) /\
  (forall n', n' <> n -> assoc n' (b_nets H') = assoc n' (b_nets H)) /\
  (forall c, c < b_next H -> assoc c (b_cells H') = assoc c (b_cells H)).
Proof.
  intros Hn. unfold initialize_parameters. rewrite Hn. fold (shapes_of no).
  set (vals := init_values (shapes_of no) d).
  unfold net_values, net_sizes, net_cells; simpl. rewrite assoc_set_eq, Hn; simpl.
  split; [apply alloc_lookup|]. split; [reflexivity|].
  split; [rewrite alloc_ids; unfold vals; rewrite init_values_length; reflexivity|].
  split; [unfold vals; rewrite init_values_length; reflexivity|].
  split; [intros n' Hne; apply assoc_set_neq; exact Hne|].
  intros c Hc. apply assoc_app_notin. rewrite alloc_keys. intros Hin. apply in_seq in Hin. lia.
Qed.

(* ... and to every other network whose cells already existed *)
Lemma initialize_frame n d H n' :
  n' <> n -> (forall c, In c (net_cells H n') -> c < b_next H) ->
  let H' := initialize_parameters n d H in
  net_values H' n' = net_values H n' /\ net_cells H' n' = net_cells H n' /\ net_sizes H' n' = net_sizes H n'.
Proof.
  intros Hne Hc. destruct (assoc n (b_nets H)) as [no|] eqn:Hn.
  - destruct (initialize_spec n d H no Hn) as [_ [_ [_ [_ [Hnets Hcells]]]]]. cbv zeta in *.
    unfold net_values, net_cells, net_sizes in *. rewrite (Hnets n' Hne).
    split; [|split; reflexivity].
    destruct (assoc n' (b_nets H)) as [no'|]; [|reflexivity].
    apply map_ext_in. intros pc Hin. f_equal. apply Hcells. apply Hc. apply in_map. exact Hin.
  - unfold initialize_parameters. rewrite Hn. repeat split.
Qed.

Lemma new_net_spec k nv nh na d H :
  let r := new_net k nv nh na d H in
  snd r = b_next H /\
  net_values (fst r) (snd r) = as_values (init_values (net_shapes k nv nh na) d) /\
  net_sizes (fst r) (snd r) = Some (k, nv, nh, na) /\
  net_cells (fst r) (snd r) = seq (S (b_next H)) (length (net_shapes k nv nh na)) /\
  b_next (fst r) = S (b_next H) + length (net_shapes k nv nh na) /\
  (forall n', n' <> b_next H ->
     net_values (fst r) n' = net_values H n' \/ exists c, In c (net_cells H n') /\ ~ c < b_next H) /\
  (forall n', n' <> b_next H -> net_cells (fst r) n' = net_cells H n' /\ net_sizes (fst r) n' = net_sizes H n').
Proof.
  unfold new_net. cbv zeta.
  set (n := b_next H).
  set (H1 := mkBHeap ((n, mkNetObj k nv nh na []) :: b_nets H) (b_cells H) (S n)).
  assert (Hn : assoc n (b_nets H1) = Some (mkNetObj k nv nh na [])) by (simpl; rewrite Nat.eqb_refl; reflexivity).
  destruct (initialize_spec n d H1 _ Hn) as [A [B [C [D [E F]]]]]. cbv zeta in *. simpl snd. simpl fst.
  split; [reflexivity|]. split; [exact A|].
  split; [rewrite B; unfold net_sizes; rewrite Hn; reflexivity|].
  split; [exact C|]. split; [exact D|].
  assert (Hold : forall n', n' <> n -> assoc n' (b_nets (initialize_parameters n d H1)) = assoc n' (b_nets H)).
  { intros n' Hne. rewrite (E n' Hne). simpl. destruct (n' =? n) eqn:E1; [apply Nat.eqb_eq in E1; contradiction | reflexivity]. }
  split.
  - intros n' Hne.
    destruct (Forall_Exists_dec (fun c => c < n) (fun c => lt_dec c n) (net_cells H n')) as [Hall|Hex].
    + left. unfold net_values. rewrite (Hold n' Hne). destruct (assoc n' (b_nets H)) as [no'|] eqn:En; [|reflexivity].
      apply map_ext_in. intros pc Hin. f_equal.
      rewrite F; [reflexivity|]. simpl. rewrite Forall_forall in Hall.
      assert (snd pc < n); [|lia]. apply Hall. unfold net_cells. rewrite En. apply in_map. exact Hin.
    + right. apply Exists_exists in Hex. exact Hex.
  - intros n' Hne. unfold net_cells, net_sizes. rewrite (Hold n' Hne). split; reflexivity.
Qed.

(* ------------------------------------------------------------------ C20.2 of_sizes: shapes, zero biases, drawn weights *)
Definition dflt_binary (nv : nat) (nh : option nat) : nat := match nh with Some h => if h =? 0 then nv else h | None => nv end.
Definition dflt (nv : nat) (x : option nat) : nat := match x with Some h => h | None => nv end.
Definition ctor_shapes (k : skind) (nv : nat) (nh na : option nat) : list (nat * list nat) :=
  match k with
  | Mixed => net_shapes Purif nv (dflt nv nh) (dflt nv na)
  | _ => net_shapes Binary nv (dflt_binary nv nh) 0
  end.

Lemma seq_disjoint a la b lb c : a + la <= b -> In c (seq a la) -> ~ In c (seq b lb).
Proof. intros H H1 H2. apply in_seq in H1. apply in_seq in H2. lia. Qed.

Definition disjoint_cells (H : bheap) (a b : nat) : Prop := forall c, In c (net_cells H a) -> ~ In c (net_cells H b).

Lemma two_nets kd nv nh na d1 d2 H :
  let r1 := new_net kd nv nh na d1 H in
  let r2 := new_net kd nv nh na d2 (fst r1) in
  net_values (fst r2) (snd r1) = as_values (init_values (net_shapes kd nv nh na) d1) /\
  snd r2 <> snd r1 /\
  net_values (fst r2) (snd r2) = as_values (init_values (net_shapes kd nv nh na) d2) /\
  net_sizes (fst r2) (snd r2) = net_sizes (fst r2) (snd r1) /\
  disjoint_cells (fst r2) (snd r1) (snd r2) /\ disjoint_cells (fst r2) (snd r2) (snd r1).
Proof.
  intros r1 r2.
  destruct (new_net_spec kd nv nh na d1 H) as [A [B [C [D [E _]]]]]. cbv zeta in *. fold r1 in A, B, C, D, E.
  destruct (new_net_spec kd nv nh na d2 (fst r1)) as [A2 [B2 [C2 [D2 [E2 [F2 G2]]]]]]. cbv zeta in *.
  fold r2 in A2, B2, C2, D2, E2, F2, G2.
  assert (Hne : snd r1 <> b_next (fst r1)) by (rewrite A, E; lia).
  split.
  { destruct (F2 (snd r1) Hne) as [Hv|[c [Hc Hnc]]]; [rewrite Hv; exact B|].
    exfalso. apply Hnc. rewrite D in Hc. apply in_seq in Hc. rewrite E. lia. }
  split; [rewrite A2; intros Heq; apply Hne; symmetry; exact Heq|].
  split; [exact B2|]. destruct (G2 (snd r1) Hne) as [Gc Gs].
  split; [rewrite C2, Gs, C; reflexivity|].
  unfold disjoint_cells. rewrite Gc, D, D2, E.
  split; intros c H1 H2; apply in_seq in H1; apply in_seq in H2; lia.
Qed.

Theorem of_sizes_lemma k nv nh na d_am d_ph H :
  let r := of_sizes k nv nh na d_am d_ph H in
  let am := bs_am (snd r) in
  bs_kind (snd r) = k /\
  net_values (fst r) am = as_values (init_values (ctor_shapes k nv nh na) d_am) /\
  (k = Positive -> bs_ph (snd r) = None) /\
  (k <> Positive -> exists ph, bs_ph (snd r) = Some ph /\ ph <> am /\
     net_values (fst r) ph = as_values (init_values (ctor_shapes k nv nh na) d_ph) /\
     net_sizes (fst r) ph = net_sizes (fst r) am /\
     disjoint_cells (fst r) am ph /\ disjoint_cells (fst r) ph am).
Proof.
  destruct k; unfold of_sizes, ctor_shapes.
  - change (binary_new nv nh) with (new_net Binary nv (dflt_binary nv nh) 0).
    destruct (new_net_spec Binary nv (dflt_binary nv nh) 0 d_am H) as [A [B _]]. cbv zeta in *. cbn [fst snd bs_am bs_ph bs_kind].
    repeat split; [exact B | intros; congruence].
  - change (binary_new nv nh) with (new_net Binary nv (dflt_binary nv nh) 0).
    destruct (two_nets Binary nv (dflt_binary nv nh) 0 d_am d_ph H) as [A [B [C [D [E F]]]]]. cbv zeta in *. cbn [fst snd bs_am bs_ph bs_kind].
    split; [reflexivity|]. split; [exact A|]. split; [intros; discriminate|]. intros _.
    eexists. split; [reflexivity|]. repeat split; assumption.
  - change (purif_new nv nh na) with (new_net Purif nv (dflt nv nh) (dflt nv na)).
    destruct (two_nets Purif nv (dflt nv nh) (dflt nv na) d_am d_ph H) as [A [B [C [D [E F]]]]]. cbv zeta in *. cbn [fst snd bs_am bs_ph bs_kind].
    split; [reflexivity|]. split; [exact A|]. split; [intros; discriminate|]. intros _.
    eexists. split; [reflexivity|]. repeat split; assumption.
Qed.

(* ------------------------------------------------------------------ C20.1 module= *)
(* heap well-formedness: identities are below the allocation counter and parameters point to existing cells *)
Definition wfb (H : bheap) : Prop :=
  forall n no, assoc n (b_nets H) = Some no ->
    n < b_next H /\ forall c, In c (map snd (no_params no)) -> c < b_next H /\ assoc c (b_cells H) <> None.

Theorem of_module_lemma k m H no :
  wfb H -> assoc m (b_nets H) = Some no -> (k = Mixed -> no_kind no = Purif) ->
  let r := of_module k m H in
  exists st, snd r = Some st /\ bs_kind st = k /\
    bs_am st = m /\                                                     (* rbm_am IS the module *)
    net_values (fst r) m = net_values H m /\ net_sizes (fst r) m = net_sizes H m /\
    (k = Positive -> bs_ph st = None /\ fst r = H) /\
    (k <> Positive -> exists ph, bs_ph st = Some ph /\ ph <> m /\ ph = b_next H /\   (* a NEW object *)
       net_values (fst r) ph = net_values H m /\                        (* equal names, shapes, values *)
       net_sizes (fst r) ph = net_sizes H m /\
       disjoint_cells (fst r) m ph /\ disjoint_cells (fst r) ph m).    (* no shared parameter *)
Proof.
  intros Hwf Hm Hk. unfold of_module. rewrite Hm.
  destruct (Hwf m no Hm) as [Hlt Hcells].
  assert (Hdc : let a := deepcopy m H in
            snd a = Some (b_next H) /\ net_values (fst a) m = net_values H m /\ net_sizes (fst a) m = net_sizes H m /\
            net_values (fst a) (b_next H) = net_values H m /\ net_sizes (fst a) (b_next H) = net_sizes H m /\
            disjoint_cells (fst a) m (b_next H) /\ disjoint_cells (fst a) (b_next H) m).
  { unfold deepcopy. rewrite Hm. cbv zeta.
    set (vals := map (fun pc => (fst pc, cell_of H (snd pc))) (no_params no)).
    assert (Hlen : length vals = length (no_params no)) by (unfold vals; apply map_length).
    assert (Hne : (m =? b_next H) = false) by (apply Nat.eqb_neq; lia).
    unfold net_values, net_sizes, disjoint_cells, net_cells; simpl. rewrite Hne, Nat.eqb_refl, Hm. simpl.
    split; [reflexivity|]. split.
    { apply map_ext_in. intros pc Hin. f_equal. apply assoc_app_notin. rewrite alloc_keys. intros H1.
      apply in_seq in H1. destruct (Hcells (snd pc) (in_map snd _ _ Hin)) as [Hc _]. lia. }
    split; [reflexivity|]. split.
    { rewrite alloc_lookup. unfold vals. rewrite map_map. simpl. apply map_ext_in. intros pc Hin. f_equal.
      unfold cell_of. destruct (Hcells (snd pc) (in_map snd _ _ Hin)) as [_ Hc].
      destruct (assoc (snd pc) (b_cells H)); [reflexivity | congruence]. }
    split; [reflexivity|]. rewrite alloc_ids.
    split; intros c H1 H2; apply in_seq in H1 || apply in_seq in H2;
      [destruct (Hcells c H1) as [Hc _] | destruct (Hcells c H2) as [Hc _]]; lia. }
  cbv zeta in Hdc. destruct Hdc as [D1 [D2 [D3 [D4 [D5 [D6 D7]]]]]].
  destruct k; simpl.
  - eexists. split; [reflexivity|]. repeat split; try reflexivity. intros H1; congruence.
  - eexists. split; [reflexivity|]. split; [reflexivity|]. split; [reflexivity|]. split; [exact D2|]. split; [exact D3|].
    split; [intros; discriminate|]. intros _. exists (b_next H). simpl. split; [exact D1|].
    split; [lia|]. split; [reflexivity|]. repeat split; assumption.
  - rewrite (Hk eq_refl). eexists. split; [reflexivity|]. split; [reflexivity|]. split; [reflexivity|]. split; [exact D2|]. split; [exact D3|].
    split; [intros; discriminate|]. intros _. exists (b_next H). simpl. split; [exact D1|].
    split; [lia|]. split; [reflexivity|]. repeat split; assumption.
Qed.

(* whatever sizes are passed next to module=, the state reports the module's sizes *)
Theorem of_module_sizes_lemma k nv nh na m H no :
  wfb H -> assoc m (b_nets H) = Some no -> (k = Mixed -> no_kind no = Purif) ->
  let r := of_module_args k nv nh na m H in
  exists st, snd r = Some st /\ bs_am st = m /\ state_sizes (fst r) st = net_sizes H m.
Proof.
  intros Hwf Hm Hk. destruct (of_module_lemma k m H no Hwf Hm Hk) as [st [A [_ [B [_ [C _]]]]]]. cbv zeta in *.
  exists st. unfold of_module_args. split; [exact A|]. split; [exact B|]. unfold state_sizes. rewrite B. exact C.
Qed.

(* DensityMatrix(module=BinaryRBM) is an error in the code (no num_aux attribute) *)
Lemma of_module_mixed_needs_purif m H no :
  assoc m (b_nets H) = Some no -> no_kind no = Binary -> snd (of_module Mixed m H) = None.
Proof. intros Hm Hk. unfold of_module. rewrite Hm, Hk. reflexivity. Qed.

(* ------------------------------------------------------------------ networks_independent *)
Lemma write_net_frame a p v H b :
  disjoint_cells H a b ->
  let H' := write_net a p v H in
  net_values H' b = net_values H b /\ b_nets H' = b_nets H.
Proof.
  intros Hd. unfold write_net. destruct (assoc a (b_nets H)) as [no|] eqn:Ea; [|split; reflexivity].
  destruct (assoc p (no_params no)) as [c|] eqn:Ep; [|split; reflexivity].
  simpl. split; [|reflexivity]. unfold net_values; simpl.
  destruct (assoc b (b_nets H)) as [nb|] eqn:Eb; [|reflexivity].
  apply map_ext_in. intros pc Hin. f_equal. apply assoc_set_neq.
  intros Heq. apply (Hd c).
  - unfold net_cells. rewrite Ea. apply assoc_in in Ep. apply (in_map snd) in Ep. exact Ep.
  - unfold net_cells. rewrite Eb. rewrite <- Heq. apply in_map. exact Hin.
Qed.

Theorem networks_independent_lemma ws : forall a b H,
  disjoint_cells H a b -> net_values (write_many a ws H) b = net_values H b.
Proof.
  unfold write_many. induction ws as [|[p v] ws IH]; intros a b H Hd; simpl; [reflexivity|].
  destruct (write_net_frame a p v H b Hd) as [Hv Hn]. cbv zeta in *.
  rewrite IH; [exact Hv|].
  unfold disjoint_cells, net_cells in *. rewrite Hn. exact Hd.
Qed.

(* ------------------------------------------------------------------ C20.3 reinitialize *)
Theorem reinitialize_lemma st d_am d_ph H noa :
  wfb H -> assoc (bs_am st) (b_nets H) = Some noa ->
  (forall ph, bs_ph st = Some ph -> ph <> bs_am st /\ assoc ph (b_nets H) <> None) ->
  let H' := reinitialize st d_am d_ph H in
  net_values H' (bs_am st) = as_values (init_values (shapes_of noa) d_am) /\
  net_sizes H' (bs_am st) = net_sizes H (bs_am st) /\
  (forall c, In c (net_cells H' (bs_am st)) -> b_next H <= c) /\          (* new Parameter objects *)
  (forall ph nop, bs_ph st = Some ph -> assoc ph (b_nets H) = Some nop ->
     net_values H' ph = as_values (init_values (shapes_of nop) d_ph) /\
     net_sizes H' ph = net_sizes H ph /\
     (forall c, In c (net_cells H' ph) -> b_next H <= c)).
Proof.
  intros Hwf Ha Hph. unfold reinitialize.
  destruct (initialize_spec (bs_am st) d_am H noa Ha) as [A [B [C [D [E F]]]]]. cbv zeta in *.
  set (H1 := initialize_parameters (bs_am st) d_am H) in *.
  destruct (bs_ph st) as [ph|] eqn:Eph.
  - destruct (Hph ph eq_refl) as [Hne Hex].
    assert (Hc1 : forall c, In c (net_cells H1 (bs_am st)) -> c < b_next H1).
    { intros c Hc. rewrite C in Hc. apply in_seq in Hc. rewrite D. lia. }
    destruct (initialize_frame ph d_ph H1 (bs_am st) (fun h => Hne (eq_sym h)) Hc1) as [G1 [G2 G3]]. cbv zeta in *.
    split; [rewrite G1; exact A|]. split; [rewrite G3; exact B|].
    split; [intros c Hc; rewrite G2, C in Hc; apply in_seq in Hc; lia|].
    intros ph' nop Heq Hnop. injection Heq as <-.
    assert (Hnop1 : assoc ph (b_nets H1) = Some nop) by (rewrite (E ph Hne); exact Hnop).
    destruct (initialize_spec ph d_ph H1 nop Hnop1) as [A2 [B2 [C2 _]]]. cbv zeta in *.
    split; [exact A2|]. split.
    + rewrite B2. unfold net_sizes. rewrite (E ph Hne). reflexivity.
    + intros c Hc. rewrite C2 in Hc. apply in_seq in Hc. rewrite D in Hc. lia.
  - split; [exact A|]. split; [exact B|].
    split; [intros c Hc; rewrite C in Hc; apply in_seq in Hc; lia|]. intros ph nop Heq; discriminate.
Qed.

(* shapes are kept whenever the parameters had the shapes of the size attributes (true after any constructor) *)
Lemma as_values_shapes vals :
  map (fun pv => (fst pv, option_map c_shape (snd pv))) (as_values vals) = map (fun pv => (fst pv, Some (c_shape (snd pv)))) vals.
Proof. unfold as_values. rewrite map_map. reflexivity. Qed.

Theorem reinitialize_keeps_shapes_lemma shapes d1 d2 :
  map (fun pv => (fst pv, option_map c_shape (snd pv))) (as_values (init_values shapes d1)) =
  map (fun pv => (fst pv, option_map c_shape (snd pv))) (as_values (init_values shapes d2)).
Proof.
  rewrite !as_values_shapes.
  assert (G : forall d, map (fun pv : nat * cell => (fst pv, Some (c_shape (snd pv)))) (init_values shapes d)
                        = map (fun ps => (fst ps, Some (snd ps))) shapes).
  { intros d. rewrite <- (init_values_shapes shapes d) at 2. rewrite map_map. reflexivity. }
  rewrite !G. reflexivity.
Qed.

(* ------------------------------------------------------------------ C20.4 fit guards *)
Theorem fit_without_bases_lemma k stop body :
  k <> Positive -> fit k false stop body = ([], Err EValue).
Proof. destruct k; [congruence | reflexivity | reflexivity]. Qed.

Lemma fit_positive_needs_no_bases stop body : fit Positive false stop body = ((if stop then [] else body), Ok).
Proof. destruct stop; reflexivity. Qed.

(* ------------------------------------------------------------------ C20.5 phase aux bias stays zero *)
Open Scope R_scope.
Definition all_zero (l : list R) : Prop := Forall (fun x => x = 0) l.

Lemma all_zero_repeat n : all_zero (repeat 0 n).
Proof. induction n; simpl; constructor; [reflexivity | exact IHn]. Qed.

Lemma cvadd_repeat (F : R * R -> R * R) (a b : R * R) n :
  map (fun p => cadd ROps (fst p) (snd p)) (combine (map F (repeat a n)) (repeat b n)) = repeat (cadd ROps (F a) b) n.
Proof. induction n as [|n IH]; simpl; [reflexivity | rewrite IH; reflexivity]. Qed.

Lemma ph_grads_ab_zero na : ph_grads_ab ROps na = repeat (0, 0) na.
Proof.
  unfold ph_grads_ab, gamma_grad_ab, pi_grad_phase_ab, cvadd. rewrite cvadd_repeat. f_equal.
  unfold cadd, cmul, c0, ci; simpl. f_equal; lra.
Qed.

Lemma csum_zero_terms (us : list (R * R)) : csum ROps (map (fun u => cmul ROps u (0, 0)) us) = (0, 0).
Proof.
  induction us as [|u us IH]; simpl; [reflexivity|]. rewrite IH. unfold cadd, cmul; simpl. f_equal; lra.
Qed.

Lemma map_repeat' {A B} (f : A -> B) a n : map f (repeat a n) = repeat (f a) n.
Proof. induction n as [|n IH]; simpl; [reflexivity | rewrite IH; reflexivity]. Qed.

Lemma rotated_ab_zero na samples : rotated_ab ROps na samples = repeat 0 na.
Proof.
  unfold rotated_ab. rewrite ph_grads_ab_zero, map_repeat'. f_equal.
  induction samples as [|s r IHs]; [reflexivity|].
  cbn [map sum]. rewrite IHs, csum_zero_terms. simpl. lra.
Qed.

Lemma combine_repeat {A B} (a : A) (b : B) n : combine (repeat a n) (repeat b n) = repeat (a, b) n.
Proof. induction n as [|n IH]; simpl; [reflexivity | rewrite IH; reflexivity]. Qed.

Lemma vadd_zero na : vadd ROps (repeat 0 na) (repeat 0 na) = repeat 0 na.
Proof. unfold vadd. rewrite combine_repeat, map_repeat'. f_equal. simpl. lra. Qed.

(* the aux-bias block of the phase network's batch gradient is identically zero: for every basis grouping,
   every rotation coefficient, every weight and every batch size *)
Theorem batch_grad_ab_zero na groups bs : batch_grad_ab ROps na groups bs = repeat 0 na.
Proof.
  unfold batch_grad_ab.
  assert (G : fold_left (fun acc g => vadd ROps acc (group_ab ROps na g)) groups (repeat 0 na) = repeat 0 na).
  { induction groups as [|g r IH]; simpl; [reflexivity|].
    replace (group_ab ROps na g) with (repeat 0 na) by (destruct g; simpl; [rewrite rotated_ab_zero|]; reflexivity).
    change (n0 ROps) with 0 in *. rewrite vadd_zero. exact IH. }
  change (n0 ROps) with 0. rewrite G, map_repeat'. f_equal. simpl. unfold Rdiv. lra.
Qed.

(* EXPLICIT HYPOTHESIS on the optimizer: there is an invariant Q of its state under which a zero aux-bias block
   with a zero gradient stays zero (of the same length) and Q is re-established — "a parameter whose value is 0
   and whose gradient history is all 0 stays 0". *)
Definition keeps_zero {S} (na : nat) (opt : optimizer (T:=R) S) (Q : S -> Prop) : Prop :=
  forall s rest ab grest gab,
    Q s -> all_zero ab -> length ab = na -> all_zero gab -> length gab = na ->
    let r := opt s (rest, ab) (grest, gab) in
    all_zero (snd (fst r)) /\ length (snd (fst r)) = na /\ Q (snd r).

Theorem phase_aux_bias_stays_zero_lemma {S} (opt : optimizer (T:=R) S) (Q : S -> Prop) na :
  keeps_zero na opt Q ->
  forall hist s rest ab, Q s -> all_zero ab -> length ab = na ->
  let r := train ROps opt na hist s (rest, ab) in
  all_zero (snd (fst r)) /\ length (snd (fst r)) = na /\ Q (snd r).
Proof.
  intros Hk. induction hist as [|[[grest groups] bs] hist IH]; intros s rest ab HQ Hz Hl; simpl; [repeat split; assumption|].
  rewrite batch_grad_ab_zero.
  destruct (Hk s rest ab grest (repeat 0 na) HQ Hz Hl (all_zero_repeat na) (repeat_length 0 na)) as [A [B C]]. cbv zeta in *.
  destruct (opt s (rest, ab) (grest, repeat 0 na)) as [[rest' ab'] s'] eqn:E. simpl in *.
  apply IH; assumption.
Qed.

(* the hypothesis holds for SGD (any lr, momentum, dampening, weight decay, Nesterov) and Adam *)
Lemma map2_zero (f : R -> R -> R) a b na :
  f 0 0 = 0 -> all_zero a -> length a = na -> all_zero b -> length b = na ->
  all_zero (map2 f a b) /\ length (map2 f a b) = na.
Proof.
  intros Hf. revert b na. unfold map2. induction a as [|x a IH]; intros [|y b] na Ha Hla Hb Hlb; simpl in *;
    try (split; [constructor | assumption]); try (subst na; discriminate).
  inversion Ha; inversion Hb; subst. destruct (IH b (length a) H2 eq_refl H6 (eq_add_S _ _ Hlb)) as [A B].
  split; [constructor; [exact Hf | exact A] | simpl; rewrite B; reflexivity].
Qed.

Definition sgd_Q (na : nat) (s : option (list R) * option (list R)) : Prop :=
  match snd s with None => True | Some b => all_zero b /\ length b = na end.

Lemma sgd_block_zero c buf p g na :
  match buf with None => True | Some b => all_zero b /\ length b = na end ->
  all_zero p -> length p = na -> all_zero g -> length g = na ->
  let r := sgd_block ROps c buf p g in
  all_zero (fst r) /\ length (fst r) = na /\ match snd r with None => True | Some b => all_zero b /\ length b = na end.
Proof.
  intros Hb Hp Hlp Hg Hlg. unfold sgd_block.
  destruct (map2_zero (fun gi pi => nadd ROps gi (nmul ROps (sgd_wd c) pi)) g p na) as [G1 L1]; try assumption; [simpl; lra|].
  destruct (sgd_has_mu c).
  - assert (HB : all_zero (match buf with None => map2 (fun gi pi => nadd ROps gi (nmul ROps (sgd_wd c) pi)) g p
                     | Some b => map2 (fun bi gi => nadd ROps (nmul ROps (sgd_mu c) bi) (nmul ROps (nsub ROps (n1 ROps) (sgd_damp c)) gi)) b
                                   (map2 (fun gi pi => nadd ROps gi (nmul ROps (sgd_wd c) pi)) g p) end) /\
                length (match buf with None => map2 (fun gi pi => nadd ROps gi (nmul ROps (sgd_wd c) pi)) g p
                     | Some b => map2 (fun bi gi => nadd ROps (nmul ROps (sgd_mu c) bi) (nmul ROps (nsub ROps (n1 ROps) (sgd_damp c)) gi)) b
                                   (map2 (fun gi pi => nadd ROps gi (nmul ROps (sgd_wd c) pi)) g p) end) = na).
    { destruct buf as [b|]; [|split; assumption]. destruct Hb as [Hb1 Hb2].
      apply map2_zero; try assumption. simpl; lra. }
    destruct HB as [HB1 HB2]. cbv zeta.
    destruct (sgd_nesterov c); simpl.
    + destruct (map2_zero (fun gi bi => nadd ROps gi (nmul ROps (sgd_mu c) bi)) _ _ na (ltac:(simpl; lra)) G1 L1 HB1 HB2) as [G2 L2].
      destruct (map2_zero (fun pi gi => nsub ROps pi (nmul ROps (sgd_lr c) gi)) p _ na (ltac:(simpl; lra)) Hp Hlp G2 L2) as [G3 L3].
      repeat split; assumption.
    + destruct (map2_zero (fun pi gi => nsub ROps pi (nmul ROps (sgd_lr c) gi)) p _ na (ltac:(simpl; lra)) Hp Hlp HB1 HB2) as [G3 L3].
      repeat split; assumption.
  - simpl. destruct (map2_zero (fun pi gi => nsub ROps pi (nmul ROps (sgd_lr c) gi)) p _ na (ltac:(simpl; lra)) Hp Hlp G1 L1) as [G3 L3].
    repeat split; assumption.
Qed.

Theorem sgd_keeps_zero c na : keeps_zero na (sgd ROps c) (sgd_Q na).
Proof.
  intros s rest ab grest gab HQ Hz Hl Hgz Hgl. unfold sgd. cbv zeta. simpl.
  destruct (sgd_block_zero c (snd s) ab gab na HQ Hz Hl Hgz Hgl) as [A [B C]]. cbv zeta in *.
  repeat split; assumption.
Qed.

Definition adam_Q (na : nat) (s : nat * (list R * list R) * (list R * list R)) : Prop :=
  all_zero (fst (snd s)) /\ length (fst (snd s)) = na /\ all_zero (snd (snd s)) /\ length (snd (snd s)) = na.

Theorem adam_keeps_zero c na : keeps_zero na (adam ROps c) (adam_Q na).
Proof.
  intros s rest ab grest gab [Qm [Qml [Qv Qvl]]] Hz Hl Hgz Hgl. unfold adam. cbv zeta. simpl.
  unfold adam_block. cbv zeta. simpl.
  destruct (map2_zero (fun gi pi => gi + ad_wd c * pi) gab ab na ltac:(lra) Hgz Hgl Hz Hl) as [G1 L1].
  destruct (map2_zero (fun mi gi => ad_b1 c * mi + (1 - ad_b1 c) * gi) (fst (snd s)) _ na ltac:(lra) Qm Qml G1 L1) as [M1 ML].
  destruct (map2_zero (fun vi gi => ad_b2 c * vi + (1 - ad_b2 c) * (gi * gi)) (snd (snd s)) _ na ltac:(lra) Qv Qvl G1 L1) as [V1 VL].
  destruct (map2_zero (fun mi vi => mi / (1 - npow ROps (ad_b1 c) (S (fst (fst s)))) /
                                    (sqrt (vi / (1 - npow ROps (ad_b2 c) (S (fst (fst s))))) + ad_eps c)) _ _ na
              ltac:(unfold Rdiv; rewrite !Rmult_0_l; reflexivity) M1 ML V1 VL) as [U1 UL].
  destruct (map2_zero (fun pi ui => pi - ad_lr c * ui) ab _ na ltac:(lra) Hz Hl U1 UL) as [P1 PL].
  split; [exact P1|]. split; [exact PL|]. unfold adam_Q; simpl. repeat split; assumption.
Qed.

(* With eps > 0 and 0 <= beta < 1 no denominator of the Adam update vanishes (so the zero of the unguarded theorem
   is not an artefact of 0 * / 0 = 0 in R; torch would give NaN for eps = 0 on a quiescent coordinate). *)
Lemma npow_R b n : npow ROps b n = b ^ n.
Proof. induction n as [|n IH]; simpl; [reflexivity | rewrite IH; reflexivity]. Qed.

Lemma pow_S_lt_1 b t : 0 <= b < 1 -> 0 <= b ^ (S t) < 1.
Proof.
  intros [H0 H1]. induction t as [|t IH]; [simpl; lra|].
  change (b ^ S (S t)) with (b * b ^ S t). destruct IH as [I0 I1]. split; nra.
Qed.

Theorem adam_denominators_nonzero c t v :
  0 < ad_eps c -> 0 <= ad_b1 c < 1 -> 0 <= ad_b2 c < 1 ->
  1 - npow ROps (ad_b1 c) (S t) <> 0 /\ 1 - npow ROps (ad_b2 c) (S t) <> 0 /\
  sqrt (v / (1 - npow ROps (ad_b2 c) (S t))) + ad_eps c <> 0.
Proof.
  intros He H1 H2. rewrite !(npow_R (ad_b1 c)), !(npow_R (ad_b2 c)).
  pose proof (pow_S_lt_1 _ t H1) as P1. pose proof (pow_S_lt_1 _ t H2) as P2.
  pose proof (sqrt_pos (v / (1 - ad_b2 c ^ S t))) as Hs.
  remember (sqrt (v / (1 - ad_b2 c ^ S t))) as sq. clear Heqsq.
  remember (ad_b1 c ^ S t) as p1. remember (ad_b2 c ^ S t) as p2. clear Heqp1 Heqp2.
  destruct P1, P2. repeat split; intros Hc; lra.
Qed.

(* non-vacuity: the initial optimizer states satisfy the invariants *)
Example sgd_initial_state na : sgd_Q na (None, None). Proof. exact I. Qed.
Example adam_initial_state na rest_m rest_v : adam_Q na (0%nat, (rest_m, rest_v), (repeat 0 na, repeat 0 na)).
Proof. unfold adam_Q; simpl. repeat split; try apply all_zero_repeat; apply repeat_length. Qed.
Close Scope R_scope.

Definition empty_bheap : bheap := mkBHeap [] [] 0.
Example wfb_empty : wfb empty_bheap. Proof. intros n no H; discriminate. Qed.
Example of_module_example :
  let a := new_net Purif 2 3 1 [7; 8] empty_bheap in
  let r := of_module Mixed (snd a) (fst a) in
  exists st ph, snd r = Some st /\ bs_am st = snd a /\ bs_ph st = Some ph /\ ph <> snd a /\
                net_values (fst r) ph = net_values (fst r) (snd a).
Proof. vm_compute. eexists; eexists. repeat split; try reflexivity. discriminate. Qed.
